(* C20 — a small self-contained regular-expression matcher (Brzozowski derivatives) with its
   correctness proof against the denotational language. Used for restricted string types
   (re.match = match at the start, i.e. a prefix match unless the pattern ends in `$`).
   No capture groups; character classes are lists of code-point ranges, possibly negated. *)
From JV Require Import Lib.Base.

Inductive rx :=
| REmp | REps
| RCls (ranges : list (N * N)) (neg : bool)
| RCat (a b : rx) | RAlt (a b : rx) | RStar (a : rx).

Definition in_ranges (c : N) (rs : list (N * N)) : bool :=
  existsb (fun r => ((fst r <=? c) && (c <=? snd r))%N) rs.
Definition cls_match (rs : list (N * N)) (neg : bool) (c : N) : bool := xorb (in_ranges c rs) neg.

Inductive lang : rx -> str -> Prop :=
| LEps : lang REps []
| LCls rs neg c : cls_match rs neg c = true -> lang (RCls rs neg) [c]
| LCat a b s t : lang a s -> lang b t -> lang (RCat a b) (s ++ t)
| LAltL a b s : lang a s -> lang (RAlt a b) s
| LAltR a b s : lang b s -> lang (RAlt a b) s
| LStar0 a : lang (RStar a) []
| LStarS a s t : lang a s -> lang (RStar a) t -> lang (RStar a) (s ++ t).

Fixpoint nullable (r : rx) : bool :=
  match r with
  | REmp => false | REps => true | RCls _ _ => false
  | RCat a b => nullable a && nullable b
  | RAlt a b => nullable a || nullable b
  | RStar _ => true
  end.

Definition cat' (a b : rx) : rx :=
  match a, b with
  | REmp, _ => REmp
  | _, REmp => REmp
  | REps, _ => b
  | _, _ => RCat a b
  end.
Definition alt' (a b : rx) : rx :=
  match a, b with
  | REmp, _ => b
  | _, REmp => a
  | _, _ => RAlt a b
  end.

Fixpoint deriv (c : N) (r : rx) : rx :=
  match r with
  | REmp | REps => REmp
  | RCls rs neg => if cls_match rs neg c then REps else REmp
  | RCat a b => if nullable a then alt' (cat' (deriv c a) b) (deriv c b) else cat' (deriv c a) b
  | RAlt a b => alt' (deriv c a) (deriv c b)
  | RStar a => cat' (deriv c a) (RStar a)
  end.

Fixpoint fullmatch (r : rx) (s : str) : bool :=
  match s with [] => nullable r | c :: s' => fullmatch (deriv c r) s' end.

(* some prefix of s is in the language *)
Fixpoint prefixmatch (r : rx) (s : str) : bool :=
  nullable r || match s with [] => false | c :: s' => prefixmatch (deriv c r) s' end.

(* some prefix of s is in the language and is followed by the end of s or by a newline
   (`$` under re.MULTILINE) *)
Fixpoint prefixmatch_nl (r : rx) (s : str) : bool :=
  match s with
  | [] => nullable r
  | c :: s' => (nullable r && N.eqb c 10) || prefixmatch_nl (deriv c r) s'
  end.

(* a compiled pattern as re.match sees it: `^` is implied; p_end = the pattern ends in `$`, which
   without re.MULTILINE holds at the end of the string or just before a final newline and with
   re.MULTILINE (p_multi) at the end of the string or before any newline. IGNORECASE, DOTALL and VERBOSE
   are resolved by the translator (case-closed classes, `.` = any character, layout dropped). *)
Record pat := { p_body : rx; p_end : bool; p_multi : bool }.

Definition chop_final_nl (s : str) : option str :=
  match rev s with 10%N :: r => Some (rev r) | _ => None end.

Definition re_match (p : pat) (s : str) : bool :=
  if p_end p then
    if p_multi p then prefixmatch_nl (p_body p) s
    else fullmatch (p_body p) s || match chop_final_nl s with Some s' => fullmatch (p_body p) s' | None => false end
  else prefixmatch (p_body p) s.

(* what `re.match(p, s)` succeeding means *)
Definition pat_accepts (p : pat) (s : str) : Prop :=
  if p_end p then
    if p_multi p then exists pre post, s = pre ++ post /\ lang (p_body p) pre /\ (post = [] \/ exists t, post = 10%N :: t)
    else lang (p_body p) s \/ exists s', s = s' ++ [10%N] /\ lang (p_body p) s'
  else exists pre post, s = pre ++ post /\ lang (p_body p) pre.

(* ================================================================ correctness *)
Lemma emp_inv s : lang REmp s -> False.
Proof. intros H; inversion H. Qed.
Lemma eps_inv s : lang REps s -> s = [].
Proof. intros H; inversion H; auto. Qed.
Lemma cls_inv rs neg s : lang (RCls rs neg) s -> exists c, s = [c] /\ cls_match rs neg c = true.
Proof. intros H; inversion H; subst; eauto. Qed.
Lemma cat_inv a b s : lang (RCat a b) s -> exists s1 s2, s = s1 ++ s2 /\ lang a s1 /\ lang b s2.
Proof. intros H; inversion H; subst; eauto. Qed.
Lemma alt_inv a b s : lang (RAlt a b) s -> lang a s \/ lang b s.
Proof. intros H; inversion H; subst; auto. Qed.

Lemma nullable_iff r : nullable r = true <-> lang r [].
Proof.
  induction r; simpl.
  - split; [discriminate | intros H; destruct (emp_inv _ H)].
  - split; [constructor | auto].
  - split; [discriminate|]. intros H. apply cls_inv in H. destruct H as [c [E _]]. discriminate.
  - rewrite andb_true_iff, IHr1, IHr2. split.
    + intros [H1 H2]. apply (LCat _ _ [] [] H1 H2).
    + intros H. apply cat_inv in H. destruct H as [s1 [s2 [E [H1 H2]]]].
      symmetry in E. apply app_eq_nil in E. destruct E; subst. auto.
  - rewrite orb_true_iff, IHr1, IHr2. split.
    + intros [H|H]; [apply LAltL | apply LAltR]; auto.
    + apply alt_inv.
  - split; [constructor | auto].
Qed.

Lemma cat'_iff a b s : lang (cat' a b) s <-> lang (RCat a b) s.
Proof.
  assert (Hemp_l : forall y u, lang (RCat REmp y) u -> False).
  { intros y u H. apply cat_inv in H. destruct H as [s1 [s2 [_ [H _]]]]. eapply emp_inv; eauto. }
  assert (Hemp_r : forall x u, lang (RCat x REmp) u -> False).
  { intros x u H. apply cat_inv in H. destruct H as [s1 [s2 [_ [_ H]]]]. eapply emp_inv; eauto. }
  assert (Heps : forall y u, lang y u <-> lang (RCat REps y) u).
  { intros y u. split.
    - intros H. apply (LCat REps y [] u); [constructor | auto].
    - intros H. apply cat_inv in H. destruct H as [s1 [s2 [E [H1 H2]]]]. apply eps_inv in H1. subst. auto. }
  destruct a.
  - simpl. split; intros H; [destruct (emp_inv _ H) | exfalso; eapply Hemp_l; eauto].
  - destruct b; simpl; apply Heps.
  - destruct b; simpl; try tauto. split; intros H; [destruct (emp_inv _ H) | exfalso; eapply Hemp_r; eauto].
  - destruct b; simpl; try tauto. split; intros H; [destruct (emp_inv _ H) | exfalso; eapply Hemp_r; eauto].
  - destruct b; simpl; try tauto. split; intros H; [destruct (emp_inv _ H) | exfalso; eapply Hemp_r; eauto].
  - destruct b; simpl; try tauto. split; intros H; [destruct (emp_inv _ H) | exfalso; eapply Hemp_r; eauto].
Qed.

Lemma alt'_iff a b s : lang (alt' a b) s <-> lang (RAlt a b) s.
Proof.
  assert (Hl : forall y u, lang y u <-> lang (RAlt REmp y) u).
  { intros y u. split; [apply LAltR|]. intros H. apply alt_inv in H. destruct H as [H|H]; auto.
    destruct (emp_inv _ H). }
  assert (Hr : forall x u, lang x u <-> lang (RAlt x REmp) u).
  { intros x u. split; [apply LAltL|]. intros H. apply alt_inv in H. destruct H as [H|H]; auto.
    destruct (emp_inv _ H). }
  destruct a, b; simpl; try tauto; try apply Hl; try apply Hr.
Qed.

Lemma star_cons_inv a c s :
  lang (RStar a) (c :: s) -> exists s1 s2, s = s1 ++ s2 /\ lang a (c :: s1) /\ lang (RStar a) s2.
Proof.
  intros H. remember (RStar a) as r eqn:Er. remember (c :: s) as w eqn:Ew.
  revert a c s Er Ew. induction H; intros a' c' s' Er Ew; try discriminate.
  inversion Er; subst a'. destruct s as [|x s].
  - simpl in Ew. eapply IHlang2; eauto.
  - simpl in Ew. inversion Ew; subst. exists s, t. auto.
Qed.

Lemma cat_cons_inv a b c s :
  lang (RCat a b) (c :: s) ->
  (exists s1 s2, s = s1 ++ s2 /\ lang a (c :: s1) /\ lang b s2) \/ (lang a [] /\ lang b (c :: s)).
Proof.
  intros H. apply cat_inv in H. destruct H as [s1 [s2 [E [H1 H2]]]]. destruct s1 as [|x s1].
  - simpl in E. subst. right. auto.
  - simpl in E. inversion E; subst. left. exists s1, s2. auto.
Qed.

Lemma deriv_iff r : forall c s, lang (deriv c r) s <-> lang r (c :: s).
Proof.
  induction r; intros c s; simpl.
  - split; intros H; destruct (emp_inv _ H).
  - split; intros H; [destruct (emp_inv _ H) | apply eps_inv in H; discriminate].
  - destruct (cls_match ranges neg c) eqn:E.
    + split; intros H.
      * apply eps_inv in H. subst. constructor; auto.
      * apply cls_inv in H. destruct H as [c' [E' _]]. inversion E'; subst. constructor.
    + split; intros H; [destruct (emp_inv _ H)|].
      apply cls_inv in H. destruct H as [c' [E' H]]. inversion E'; subst. congruence.
  - assert (Hcat : lang (cat' (deriv c r1) r2) s <->
                   exists s1 s2, s = s1 ++ s2 /\ lang r1 (c :: s1) /\ lang r2 s2).
    { rewrite cat'_iff. split.
      - intros H. apply cat_inv in H. destruct H as [s1 [s2 [E [H1 H2]]]].
        exists s1, s2. split; auto. split; auto. apply IHr1; auto.
      - intros [s1 [s2 [E [H1 H2]]]]. subst. constructor; auto. apply IHr1; auto. }
    destruct (nullable r1) eqn:En.
    + rewrite alt'_iff. split.
      * intros H. apply alt_inv in H. destruct H as [H|H].
        -- apply Hcat in H. destruct H as [s1 [s2 [E [H1 H2]]]]. subst.
           apply (LCat r1 r2 (c :: s1) s2); auto.
        -- apply nullable_iff in En. apply (LCat r1 r2 [] (c :: s)); auto. apply IHr2; auto.
      * intros H. apply cat_cons_inv in H. destruct H as [H|[H1 H2]].
        -- apply LAltL. apply Hcat. auto.
        -- apply LAltR. apply IHr2. auto.
    + rewrite Hcat. split.
      * intros [s1 [s2 [E [H1 H2]]]]. subst. apply (LCat r1 r2 (c :: s1) s2); auto.
      * intros H. apply cat_cons_inv in H. destruct H as [H|[H1 H2]]; auto.
        apply nullable_iff in H1. congruence.
  - rewrite alt'_iff. split.
    + intros H. apply alt_inv in H. destruct H as [H|H]; [apply LAltL; apply IHr1 | apply LAltR; apply IHr2]; auto.
    + intros H. apply alt_inv in H. destruct H as [H|H]; [apply LAltL; apply IHr1 | apply LAltR; apply IHr2]; auto.
  - rewrite cat'_iff. split.
    + intros H. apply cat_inv in H. destruct H as [s1 [s2 [E [H1 H2]]]]. subst.
      apply (LStarS r (c :: s1) s2); auto. apply IHr; auto.
    + intros H. apply star_cons_inv in H. destruct H as [s1 [s2 [E [H1 H2]]]]. subst.
      constructor; auto. apply IHr; auto.
Qed.

Theorem fullmatch_iff s : forall r, fullmatch r s = true <-> lang r s.
Proof.
  induction s as [|c s IH]; intros r; simpl.
  - apply nullable_iff.
  - rewrite IH. apply deriv_iff.
Qed.

Theorem prefixmatch_iff s : forall r,
  prefixmatch r s = true <-> exists pre post, s = pre ++ post /\ lang r pre.
Proof.
  induction s as [|c s IH]; intros r; simpl.
  - rewrite orb_false_r, nullable_iff. split.
    + intros H. exists [], []. auto.
    + intros [pre [post [E H]]]. symmetry in E. apply app_eq_nil in E. destruct E; subst. auto.
  - rewrite orb_true_iff, nullable_iff, IH. split.
    + intros [H|[pre [post [E H]]]].
      * exists [], (c :: s). auto.
      * subst. exists (c :: pre), post. split; auto. apply deriv_iff; auto.
    + intros [pre [post [E H]]]. destruct pre as [|x pre].
      * left; auto.
      * simpl in E. inversion E; subst. right. exists pre, post. split; auto. apply deriv_iff; auto.
Qed.

Lemma chop_final_nl_iff s s' : chop_final_nl s = Some s' <-> s = s' ++ [10%N].
Proof.
  unfold chop_final_nl. split.
  - intros H. destruct (rev s) as [|x r] eqn:E; [discriminate|].
    destruct (N.eqb_spec x 10).
    + subst x. inversion H; subst. rewrite <- (rev_involutive s), E. reflexivity.
    + destruct x as [|p]; [discriminate|]. do 4 (destruct p as [p|p|]; try discriminate). congruence.
  - intros ->. rewrite rev_app_distr. simpl. rewrite rev_involutive. reflexivity.
Qed.

Theorem prefixmatch_nl_iff s : forall r,
  prefixmatch_nl r s = true <->
  exists pre post, s = pre ++ post /\ lang r pre /\ (post = [] \/ exists t, post = 10%N :: t).
Proof.
  induction s as [|c s IH]; intros r; simpl.
  - rewrite nullable_iff. split.
    + intros H. exists [], []. auto.
    + intros [pre [post [E [H _]]]]. symmetry in E. apply app_eq_nil in E. destruct E; subst. auto.
  - rewrite orb_true_iff, andb_true_iff, nullable_iff, IH, N.eqb_eq. split.
    + intros [[H E]|[pre [post [E [H T]]]]].
      * subst. exists [], (10%N :: s). repeat split; auto. right. eauto.
      * subst. exists (c :: pre), post. repeat split; auto. apply deriv_iff; auto.
    + intros [pre [post [E [H T]]]]. destruct pre as [|x pre].
      * left. split; auto. simpl in E. destruct T as [->|[t ->]]; [discriminate|]. congruence.
      * simpl in E. inversion E; subst. right. exists pre, post. repeat split; auto. apply deriv_iff; auto.
Qed.

Theorem re_match_iff p s : re_match p s = true <-> pat_accepts p s.
Proof.
  unfold re_match, pat_accepts. destruct (p_end p); [destruct (p_multi p)|].
  - apply prefixmatch_nl_iff.
  - rewrite orb_true_iff, fullmatch_iff. split.
    + intros [H|H]; auto. destruct (chop_final_nl s) as [s'|] eqn:E; [|discriminate].
      right. exists s'. split; [apply chop_final_nl_iff; auto | apply fullmatch_iff; auto].
    + intros [H|[s' [E H]]]; auto. right. apply chop_final_nl_iff in E. rewrite E.
      apply fullmatch_iff; auto.
  - apply prefixmatch_iff.
Qed.

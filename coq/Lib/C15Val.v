(* C15 — configuration values as a small ordered nested map (the as_dict view of a Namespace),
   addressed by dotted keys (a key is the list of its segments). Shared by Model/C15Links and
   Spec/C15Spec: only the data type and the path operations are shared, no parser logic. *)
From JV Require Import Lib.Base.

Inductive val :=
| VNone
| VInt (z : Z)
| VStr (s : str)
| VList (l : list val)
| VMap (m : list (str * val)).

Definition key := list str.
Definition amap := list (str * val).

Definition key_eqb : key -> key -> bool := list_eqb str_eqb.

Lemma key_eqb_spec a b : key_eqb a b = true <-> a = b.
Proof. apply list_eqb_spec. apply str_eqb_spec. Qed.

Fixpoint mem_key (k : key) (l : list key) : bool :=
  match l with [] => false | x :: l' => key_eqb k x || mem_key k l' end.

Lemma mem_key_In k l : mem_key k l = true <-> In k l.
Proof.
  induction l as [|y l IH]; simpl; [split; [discriminate|tauto]|].
  rewrite orb_true_iff, key_eqb_spec, IH. split; intros [H|H]; auto.
Qed.

(* a is a (not necessarily strict) prefix of b: b == a or b.startswith(a + ".") *)
Fixpoint is_prefix (a b : key) : bool :=
  match a, b with
  | [], _ => true
  | x :: a', y :: b' => str_eqb x y && is_prefix a' b'
  | _ :: _, [] => false
  end.

(* one key lies on the path of the other (equal keys included) *)
Definition comparable (a b : key) : bool := is_prefix a b || is_prefix b a.

Fixpoint val_eqb (a b : val) {struct a} : bool :=
  match a, b with
  | VNone, VNone => true
  | VInt x, VInt y => Z.eqb x y
  | VStr x, VStr y => str_eqb x y
  | VList x, VList y =>
      (fix go (x y : list val) : bool :=
         match x, y with
         | [], [] => true
         | u :: x', v :: y' => val_eqb u v && go x' y'
         | _, _ => false
         end) x y
  | VMap x, VMap y =>
      (fix go (x y : list (str * val)) : bool :=
         match x, y with
         | [], [] => true
         | (k, u) :: x', (k', v) :: y' => str_eqb k k' && val_eqb u v && go x' y'
         | _, _ => false
         end) x y
  | _, _ => false
  end.

(* order-insensitive comparison of maps (used where the property does not speak about key order) *)
Fixpoint alookup (k : str) (m : amap) : option val :=
  match m with
  | [] => None
  | (k', v) :: m' => if str_eqb k k' then Some v else alookup k m'
  end.

(* Namespace attribute assignment: replace in place, else append (dict insertion order) *)
Fixpoint aset (k : str) (v : val) (m : amap) : amap :=
  match m with
  | [] => [(k, v)]
  | (k', v') :: m' => if str_eqb k k' then (k', v) :: m' else (k', v') :: aset k v m'
  end.

Fixpoint aremove (k : str) (m : amap) : amap :=
  match m with
  | [] => []
  | (k', v') :: m' => if str_eqb k k' then aremove k m' else (k', v') :: aremove k m'
  end.

(* cfg[key] / key in cfg : walks Namespaces only *)
Fixpoint get (v : val) (k : key) : option val :=
  match k with
  | [] => Some v
  | s :: k' =>
      match v with
      | VMap m => match alookup s m with Some c => get c k' | None => None end
      | _ => None
      end
  end.

Definition has (v : val) (k : key) : bool := match get v k with Some _ => true | None => false end.

(* cfg[key] = x : creates missing branches; a non-namespace met on the way is replaced by a branch *)
Fixpoint set (v : val) (k : key) (x : val) : val :=
  match k with
  | [] => x
  | s :: k' =>
      let m := match v with VMap m => m | _ => [] end in
      let child := match alookup s m with Some c => c | None => VMap [] end in
      VMap (aset s (set child k' x) m)
  end.

(* cfg.pop(key, None) *)
Fixpoint pop (v : val) (k : key) : val :=
  match k with
  | [] => v
  | s :: k' =>
      match v with
      | VMap m =>
          match k' with
          | [] => VMap (aremove s m)
          | _ :: _ => match alookup s m with Some c => VMap (aset s (pop c k') m) | None => v end
          end
      | _ => v
      end
  end.

Fixpoint mapM {A B} (f : A -> option B) (l : list A) : option (list B) :=
  match l with
  | [] => Some []
  | x :: l' => match f x, mapM f l' with Some y, Some ys => Some (y :: ys) | _, _ => None end
  end.

(* same keys with equal values, in any order, recursively (lists stay ordered) *)
Fixpoint val_sim (a b : val) {struct a} : bool :=
  match a, b with
  | VMap x, VMap y =>
      Nat.eqb (length x) (length y) &&
      (fix go (x : list (str * val)) : bool :=
         match x with
         | [] => true
         | (k, u) :: x' => match alookup k y with Some v => val_sim u v | None => false end && go x'
         end) x
  | VList x, VList y =>
      (fix go (x y : list val) : bool :=
         match x, y with
         | [], [] => true
         | u :: x', v :: y' => val_sim u v && go x' y'
         | _, _ => false
         end) x y
  | VNone, VNone => true
  | VInt x, VInt y => Z.eqb x y
  | VStr x, VStr y => str_eqb x y
  | _, _ => false
  end.

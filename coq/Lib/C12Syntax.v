(* C12 — shared syntax for the auto_cli model and its reference semantics: signatures, components,
   tokenised command lines, configuration documents, call logs. Datatypes and association-list
   helpers only; no behaviour of jsonargparse is defined here. *)
From JV Require Import Lib.Base.

(* ---- type hints and values (deliberately small: conversion is C02/C05's business) ---- *)
Inductive ty := TInt | TStr | TBool | TList | TOpt (t : ty)           (* TList = List[int] *)
            | TData.   (* the dataclass  Point(x: int = 0, y: int = 0): a type whose values are built by instantiate_classes *)
Inductive value := VInt (z : Z) | VStr (s : str) | VBool (b : bool) | VNone | VList (l : list Z)
               | VData (x y : Z).   (* the instance Point(x, y) *)
(* what the user wrote, before conversion: argv text `3`, `abc`, `true`, `null`, `[1,2]`, or the same
   thing as a JSON value inside a --config document *)
Inductive raw := RInt (z : Z) | RStr (s : str) | RBool (b : bool) | RNull | RList (l : list Z)
             | RData (x y : Z).   (* {"x": x, "y": y} as one argv value, as --k.x=x --k.y=y, or as a config section *)

Definition value_eqb (a b : value) : bool :=
  match a, b with
  | VInt x, VInt y => Z.eqb x y
  | VStr x, VStr y => str_eqb x y
  | VBool x, VBool y => Bool.eqb x y
  | VNone, VNone => true
  | VList x, VList y => list_eqb Z.eqb x y
  | VData x1 y1, VData x2 y2 => Z.eqb x1 x2 && Z.eqb y1 y2
  | _, _ => false
  end.

(* the default a type brings by itself: a dataclass-typed parameter is added as a group of nested options, one per
   field, and every field of Point has a default, so the parameter can be left out: Point() *)
Definition ty_default (t : ty) : option value := match t with TData => Some (VData 0 0) | _ => None end.

(* ---- signatures ---- *)
Inductive pkind := PosOrKw | KwOnly
               | PosOnly.   (* `def f(a, /)`: may only be passed positionally *)
Record param := { p_name : str; p_kind : pkind; p_ty : ty; p_default : option value }.
Definition sig := list param.

(* ---- components given to auto_cli ---- *)
Inductive comp :=
| CFn (name : str) (s : sig)                                  (* def name(<s>) *)
| CCls (name : str) (init : sig) (meths : list (str * sig))   (* class name: __init__(self,<init>); public methods *)
| CGrp (kids : list (str * comp))                             (* nested dict of components *)
| CHelp.                                                      (* the string stored under a "_help" key *)

Inductive components :=
| One (c : comp)                 (* auto_cli(f) / auto_cli(C) *)
| Lst (cs : list comp)           (* auto_cli([f, g, C]) *)
| Dct (kids : list (str * comp)). (* auto_cli({"a": f, "g": {...}}) *)

(* ---- the command line, already tokenised (argparse's job, trusted) ---- *)
Inductive cnode := CLeaf (r : raw) | CSec (kids : list (str * cnode)).
Definition doc := list (str * cnode).
Inductive tok :=
| KOpt (n : str) (r : raw)   (* --n=<text of r> *)
| KPos (r : raw)             (* a bare word: a positional value or a subcommand name *)
| KCfg (d : doc).            (* --config=<document> *)

(* ---- what is observed ---- *)
Definition call := (list str * list (str * value))%type.   (* (qualified name of the callee, its arguments as bound) *)
Inductive retv := RetCall (i : nat) (* the value returned by call number i of the log *)
                | RetInstance.      (* the object built by the (only) constructor call *)

(* ---- names the code treats specially ---- *)
Definition s_config : str := [99;111;110;102;105;103]%N.
Definition s_subcommand : str := [115;117;98;99;111;109;109;97;110;100]%N.
Definition s_help : str := [104;101;108;112]%N.
Definition s_print_config : str := [112;114;105;110;116;95;99;111;110;102;105;103]%N.
Definition s_print_shtab : str := [112;114;105;110;116;95;115;104;116;97;98]%N.
Definition s__help : str := [95;104;101;108;112]%N.
Definition s__init__ : str := [95;95;105;110;105;116;95;95]%N.

(* ---- association lists ---- *)
Fixpoint assoc {A} (k : str) (l : list (str * A)) : option A :=
  match l with
  | [] => None
  | (k', a) :: l' => if str_eqb k k' then Some a else assoc k l'
  end.

Fixpoint remove_key {A} (k : str) (l : list (str * A)) : list (str * A) :=
  match l with
  | [] => []
  | (k', a) :: l' => if str_eqb k k' then remove_key k l' else (k', a) :: remove_key k l'
  end.

Definition names (s : sig) : list str := map p_name s.
Definition has_param (n : str) (s : sig) : bool := mem_str n (names s).

Fixpoint nodup_str (l : list str) : bool :=
  match l with [] => true | x :: l' => negb (mem_str x l') && nodup_str l' end.

(* ---- one concrete conversion, used by the correspondence run (the theorems hold for every conversion) ---- *)
Fixpoint conv_simple (t : ty) (r : raw) : option value :=
  match t, r with
  | TInt, RInt z => Some (VInt z)
  | TStr, RStr s => Some (VStr s)
  | TBool, RBool b => Some (VBool b)
  | TList, RList l => Some (VList l)
  | TData, RData x y => Some (VData x y)
  | TOpt _, RNull => Some VNone
  | TOpt t', _ => conv_simple t' r
  | _, _ => None
  end.

(* Shared basics: strings as lists of code points, a result type, ordered association lists,
   and the judge combinator used by every correspondence run. Stdlib only. *)
From Coq Require Export List Bool Arith NArith ZArith Lia.
Export ListNotations.

Definition str := list N.

Fixpoint list_eqb {A} (eqb : A -> A -> bool) (a b : list A) : bool :=
  match a, b with
  | [], [] => true
  | x :: a', y :: b' => eqb x y && list_eqb eqb a' b'
  | _, _ => false
  end.

Lemma list_eqb_spec {A} (eqb : A -> A -> bool)
  (H : forall x y, eqb x y = true <-> x = y) :
  forall a b, list_eqb eqb a b = true <-> a = b.
Proof.
  induction a as [|x a IH]; destruct b as [|y b]; simpl; split; intro E;
    try reflexivity; try discriminate.
  - apply andb_true_iff in E. destruct E as [E1 E2].
    apply H in E1. apply IH in E2. congruence.
  - inversion E; subst. apply andb_true_iff. split; [apply H | apply IH]; reflexivity.
Qed.

Definition str_eqb : str -> str -> bool := list_eqb N.eqb.

Lemma str_eqb_spec a b : str_eqb a b = true <-> a = b.
Proof. apply list_eqb_spec. intros; apply N.eqb_eq. Qed.

Lemma str_eqb_refl a : str_eqb a a = true.
Proof. apply str_eqb_spec; reflexivity. Qed.

Definition option_eqb {A} (eqb : A -> A -> bool) (a b : option A) : bool :=
  match a, b with
  | None, None => true
  | Some x, Some y => eqb x y
  | _, _ => false
  end.

Definition pair_eqb {A B} (ea : A -> A -> bool) (eb : B -> B -> bool) (a b : A * B) : bool :=
  ea (fst a) (fst b) && eb (snd a) (snd b).

Fixpoint mem_nat (x : nat) (l : list nat) : bool :=
  match l with [] => false | y :: l' => Nat.eqb x y || mem_nat x l' end.

Lemma mem_nat_In x l : mem_nat x l = true <-> In x l.
Proof.
  induction l as [|y l IH]; simpl; [split; [discriminate|tauto]|].
  rewrite orb_true_iff, Nat.eqb_eq, IH. split; intros [H|H]; auto.
Qed.

Fixpoint mem_str (x : str) (l : list str) : bool :=
  match l with [] => false | y :: l' => str_eqb x y || mem_str x l' end.

Lemma mem_str_In x l : mem_str x l = true <-> In x l.
Proof.
  induction l as [|y l IH]; simpl; [split; [discriminate|tauto]|].
  rewrite orb_true_iff, str_eqb_spec, IH. split; intros [H|H]; auto.
Qed.

(* index of the first occurrence *)
Fixpoint index_nat (x : nat) (l : list nat) : option nat :=
  match l with
  | [] => None
  | y :: l' => if Nat.eqb x y then Some 0 else option_map S (index_nat x l')
  end.

Fixpoint index_str (x : str) (l : list str) : option nat :=
  match l with
  | [] => None
  | y :: l' => if str_eqb x y then Some 0 else option_map S (index_str x l')
  end.

(* ---- correspondence judging -------------------------------------------------------------
   Each property defines   judge1 : case -> verdict.
     v_model : the hand-written model reproduces the observation (the tie)
     v_class : 0 = inside the guard of the proved theorem; k>0 = finding class k (outside guard)
     v_spec  : the observation is what the reference semantics (the property) demands
   judge_all returns the 1-based positions of
     (a) cases that neither the model explains nor (outside the guard) the spec explains,
     (b) cases inside the guard that contradict the spec,
     (c) cases outside the guard that contradict the spec, with their finding class. *)
Record verdict := { v_model : bool; v_class : N; v_spec : bool }.

Fixpoint judge_from {C} (j : C -> verdict) (i : N) (cs : list C)
  : list N * list N * list (N * N) :=
  match cs with
  | [] => ([], [], [])
  | c :: cs' =>
      let '(a, b, d) := judge_from j (N.succ i) cs' in
      let v := j c in
      let a' := if v_model v || (negb (N.eqb (v_class v) 0) && v_spec v) then a else i :: a in
      let b' := if N.eqb (v_class v) 0 && negb (v_spec v) then i :: b else b in
      let d' := if negb (N.eqb (v_class v) 0) && negb (v_spec v) then (i, v_class v) :: d else d in
      (a', b', d')
  end.

Definition judge_all {C} (j : C -> verdict) (cs : list C) := judge_from j 1%N cs.

(* C04 — data shared by the model (Model/C04Sources.v) and the reference semantics (Spec/C04Spec.v):
   values, keys, assignments, parser declarations and the description of one parse call.
   Executable Gallina only. *)
From JV Require Import Lib.Base.

(* Values are opaque tokens (Python ints here) except lists and dicts, which the property talks about. *)
Inductive val :=
| VNone
| VTok (z : Z)
| VList (l : list Z)
| VDict (d : list (str * Z)).

(* One component of a dotted key.  The boolean says that the component carries the trailing '+' of
   the documented append syntax ("key+"); declared names never end in '+'.  key.endswith("+") and
   key[:-1] of the code are is_plus / strip below. *)
Definition name := (str * bool)%type.
Definition tpath := list name.

Definition name_eqb (a b : name) : bool := str_eqb (fst a) (fst b) && Bool.eqb (snd a) (snd b).
Definition path_eqb : tpath -> tpath -> bool := list_eqb name_eqb.

Fixpoint is_plus (k : tpath) : bool :=
  match k with
  | [] => false
  | [(_, b)] => b
  | _ :: k' => is_plus k'
  end.

Fixpoint set_flag (b : bool) (k : tpath) : tpath :=
  match k with
  | [] => []
  | [(s, _)] => [(s, b)]
  | a :: k' => a :: set_flag b k'
  end.

Definition mark := set_flag true.     (* key  -> key+ *)
Definition strip := set_flag false.   (* key+ -> key  *)

(* proper prefix test on keys *)
Fixpoint ppb (k k' : tpath) : bool :=
  match k, k' with
  | [], _ :: _ => true
  | a :: x, b :: y => name_eqb a b && ppb x y
  | _, _ => false
  end.

(* What a source may say about a key. *)
Inductive op :=
| Set_ (v : val)              (* key: v          replaces the whole previous value *)
| Append (v : val)            (* key+: v         extends the list built so far *)
| DictItem (i : str) (z : Z). (* key.item: z     sets one item of the dict built so far *)

Definition assignment := (tpath * op)%type.
Definition doc := list assignment.       (* one config document (file, string or object) *)

Inductive kind := KScalar | KList | KDict.
Record decl := { d_key : tpath; d_kind : kind; d_default : val }.
Definition parser := list decl.          (* in the order of add_argument calls *)

Inductive arg :=
| AAsg (a : assignment)                  (* --key=v | --key+=v | --key.item=v *)
| ACfg (d : doc).                        (* --cfg=<file or string> *)

Inductive entry :=
| EArgs (argv : list arg)                (* parse_args *)
| EEnv                                   (* parse_env *)
| EString (d : doc)                      (* parse_string *)
| EObject (d : doc).                     (* parse_object *)

Record call := {
  c_parser : parser;
  c_default_env : bool;                  (* ArgumentParser(default_env=...) *)
  c_os_default_env : option bool;        (* JSONARGPARSE_DEFAULT_ENV=true/false, if set *)
  c_env_arg : option bool;               (* the env= argument of the parse method *)
  c_patterns : list (list (str * doc));  (* default_config_files patterns in listed order; for each
                                            pattern the existing matches (file name, content), unsorted *)
  c_envcfg : option doc;                 (* the config named by the config environment variable *)
  c_envvars : list (tpath * val);        (* individual environment variables *)
  c_entry : entry }.

(* ---- equality tests used by the judge ------------------------------------------------------ *)
Definition dict_sub (a b : list (str * Z)) : bool :=
  forallb (fun p => existsb (fun q => str_eqb (fst p) (fst q) && Z.eqb (snd p) (snd q)) b) a.

Definition val_eqb (a b : val) : bool :=
  match a, b with
  | VNone, VNone => true
  | VTok x, VTok y => Z.eqb x y
  | VList x, VList y => list_eqb Z.eqb x y
  | VDict x, VDict y => Nat.eqb (length x) (length y) && dict_sub x y && dict_sub y x
  | _, _ => false
  end.

(* ---- sorted(glob.glob(pattern)): file names ordered as Python orders str (code points) ------- *)
Fixpoint str_leb (a b : str) : bool :=
  match a, b with
  | [], _ => true
  | _ :: _, [] => false
  | x :: a', y :: b' => if N.ltb x y then true else if N.ltb y x then false else str_leb a' b'
  end.

Fixpoint insert_match {A} (x : str * A) (l : list (str * A)) : list (str * A) :=
  match l with
  | [] => [x]
  | y :: l' => if str_leb (fst x) (fst y) then x :: l else y :: insert_match x l'
  end.

Definition sort_matches {A} (l : list (str * A)) : list (str * A) := fold_right insert_match [] l.

(* ---- list / dict building blocks ------------------------------------------------------------- *)
(* dict item assignment with Python dict semantics: replace in place or add at the end *)
Fixpoint dict_set (i : str) (z : Z) (d : list (str * Z)) : list (str * Z) :=
  match d with
  | [] => [(i, z)]
  | (j, y) :: d' => if str_eqb i j then (i, z) :: d' else (j, y) :: dict_set i z d'
  end.

Fixpoint alist_get {A} (k : tpath) (l : list (tpath * A)) : option A :=
  match l with
  | [] => None
  | (k', v) :: l' => if path_eqb k k' then Some v else alist_get k l'
  end.

(* ---- one level of subcommands: parse_args(parent items ++ [NAME] ++ subcommand items) ---------- *)
Record scall := {
  s_parent : call;                        (* the parent parser's own declarations and sources; entry = EArgs items before the token *)
  s_name : name;                          (* the subcommand given on the command line *)
  s_sub : parser;                         (* its declarations, keys relative to the subcommand *)
  s_subenv : list (tpath * val);          (* environment variables PREFIX_NAME__KEY *)
  s_envsub : option name;                 (* the variable PREFIX_SUBCOMMAND, if set (any string: NAME, another subcommand, no subcommand) *)
  s_subargv : list arg }.                 (* items after the token *)

Definition prefix_decl (nm : name) (d : decl) : decl :=
  {| d_key := nm :: d_key d; d_kind := d_kind d; d_default := d_default d |}.

(* what _find_action(parent, key) can find: the parent's actions and, below NAME, the subcommand's *)
Definition all_decls (sc : scall) : parser :=
  c_parser (s_parent sc) ++ map (prefix_decl (s_name sc)) (s_sub sc).


Definition starts_with (nm : name) (k : tpath) : bool :=
  match k with a :: _ => name_eqb a nm | [] => false end.

(* C20 — text <-> number conversions shared by the C20 models and specs:
   Python's int(str) / float(str) grammars (ASCII digits; see notes/C20.md for the domain),
   decimal printing of Z (str(int)), zero-padded fields (%02d, %06d), and list-of-code-point
   helpers (strip, span, startswith, substring test). Stdlib only. *)
From JV Require Import Lib.Base.
Local Open Scope Z_scope.

(* ---------------------------------------------------------------- characters *)
Definition is_digit (c : N) : bool := ((48 <=? c) && (c <=? 57))%N.
Definition digit_val (c : N) : Z := Z.of_N c - 48.
Definition digit_chr (d : Z) : N := Z.to_N (48 + d).

(* str.isspace(): the code points Python strips *)
Definition is_space (c : N) : bool :=
  (((9 <=? c) && (c <=? 13)) || ((28 <=? c) && (c <=? 32)) || (c =? 133) || (c =? 160)
   || (c =? 5760) || ((8192 <=? c) && (c <=? 8202)) || (c =? 8232) || (c =? 8233)
   || (c =? 8239) || (c =? 8287) || (c =? 12288))%N.

Definition is_nil {A} (l : list A) : bool := match l with [] => true | _ => false end.

(* ---------------------------------------------------------------- list helpers *)
Fixpoint lstrip (s : str) : str :=
  match s with
  | c :: s' => if is_space c then lstrip s' else s
  | [] => []
  end.

Fixpoint rstrip (s : str) : str :=
  match s with
  | [] => []
  | c :: s' => let r := rstrip s' in if is_space c && is_nil r then [] else c :: r
  end.

Definition strip (s : str) : str := rstrip (lstrip s).

Fixpoint span (p : N -> bool) (s : str) : str * str :=
  match s with
  | c :: s' => if p c then let '(a, b) := span p s' in (c :: a, b) else ([], s)
  | [] => ([], [])
  end.

Fixpoint starts_with (p s : str) : bool :=
  match p, s with
  | [], _ => true
  | a :: p', b :: s' => N.eqb a b && starts_with p' s'
  | _ :: _, [] => false
  end.

Definition ends_with (p s : str) : bool := starts_with (rev p) (rev s).

Fixpoint contains (p s : str) : bool :=
  starts_with p s || match s with [] => false | _ :: s' => contains p s' end.

Fixpoint split_on (sep : N) (s : str) : list str :=
  match s with
  | [] => [[]]
  | c :: s' =>
      match split_on sep s' with
      | [] => [[]]                       (* unreachable: split_on never returns [] *)
      | hd :: tl => if N.eqb c sep then [] :: hd :: tl else (c :: hd) :: tl
      end
  end.

Definition lower (c : N) : N := if ((65 <=? c) && (c <=? 90))%N then (c + 32)%N else c.

(* ---------------------------------------------------------------- reading numbers *)
Fixpoint horner (acc : Z) (s : str) : Z :=
  match s with [] => acc | c :: s' => horner (10 * acc + digit_val c) s' end.

(* PEP 515: an underscore is allowed only between two digits *)
Fixpoint drop_us (prev_digit : bool) (s : str) : option str :=
  match s with
  | [] => Some []
  | c :: s' =>
      if N.eqb c 95 then
        if prev_digit && match s' with d :: _ => is_digit d | [] => false end
        then drop_us false s' else None
      else option_map (cons c) (drop_us (is_digit c) s')
  end.

Definition take_sign (s : str) : bool * str :=
  match s with
  | c :: r => if N.eqb c 45 then (true, r) else if N.eqb c 43 then (false, r) else (false, s)
  | [] => (false, [])
  end.

(* int(s) for a str s, base 10 *)
Definition parse_int_str (s : str) : option Z :=
  match drop_us false (strip s) with
  | None => None
  | Some s2 =>
      let '(neg, s3) := take_sign s2 in
      if negb (is_nil s3) && forallb is_digit s3
      then Some (if neg then - horner 0 s3 else horner 0 s3) else None
  end.

(* floats: fixed point, 10^-6 units (DESIGN.md section 3) *)
Inductive fl := FFin (micro : Z) | FInf (neg : bool) | FNan.

(* Python's float(z) for an int z: the nearest binary double (53-bit significand), ties to even;
   None = OverflowError ("int too large to convert to float"). The result is an integer, so it is exact in
   the 10^-6 fixed-point representation. *)
Definition round_double_abs (a : Z) : Z :=
  let n := Z.log2 a + 1 in                      (* bit length, a > 0 *)
  if n <=? 53 then a
  else let sh := n - 53 in
       let q := a / 2 ^ sh in
       let r := a mod 2 ^ sh in
       let half := 2 ^ (sh - 1) in
       (if (half <? r) || ((r =? half) && Z.odd q) then q + 1 else q) * 2 ^ sh.

Definition float_of_int (z : Z) : option fl :=
  if z =? 0 then Some (FFin 0)
  else let r := round_double_abs (Z.abs z) in
       if 2 ^ 1024 <=? r then None
       else Some (FFin ((if z <? 0 then - r else r) * 1000000)).

Definition pow10 (n : Z) : Z := 10 ^ n.

(* float(s) for a str s. Decimals whose value is not a multiple of 10^-6 are outside the modelled
   domain (the value is floored; float_str_exact says whether the conversion was exact). *)
Definition parse_float_core (s3 : str) : option (Z * Z) :=   (* mantissa, power of ten *)
  let '(ip, r1) := span is_digit s3 in
  let '(fp, r2) := match r1 with 46%N :: r => span is_digit r | _ => ([], r1) end in
  if is_nil ip && is_nil fp then None else
  let m := horner 0 (ip ++ fp) in
  let nf := Z.of_nat (length fp) in
  match r2 with
  | [] => Some (m, - nf)
  | e :: r3 =>
      if N.eqb (lower e) 101 then
        let '(eneg, ds) := take_sign r3 in
        if negb (is_nil ds) && forallb is_digit ds
        then Some (m, (if eneg then - horner 0 ds else horner 0 ds) - nf) else None
      else None
  end.

Definition micro_of (m e : Z) : Z :=
  if 0 <=? e + 6 then m * pow10 (e + 6) else m / pow10 (- (e + 6)).

Definition micro_exact (m e : Z) : bool :=
  (0 <=? e + 6) || (m mod pow10 (- (e + 6)) =? 0).

Definition s_inf : str := [105; 110; 102]%N.
Definition s_infinity : str := [105; 110; 102; 105; 110; 105; 116; 121]%N.
Definition s_nan : str := [110; 97; 110]%N.

Definition parse_float_str (s : str) : option fl :=
  match drop_us false (strip s) with
  | None => None
  | Some s2 =>
      let '(neg, s3) := take_sign s2 in
      let low := map lower s3 in
      if str_eqb low s_inf || str_eqb low s_infinity then Some (FInf neg)
      else if str_eqb low s_nan then Some FNan
      else match parse_float_core s3 with
           | Some (m, e) => Some (FFin (let v := micro_of m e in if neg then - v else v))
           | None => None
           end
  end.

Definition float_str_exact (s : str) : bool :=
  match drop_us false (strip s) with
  | None => true
  | Some s2 =>
      match parse_float_core (snd (take_sign s2)) with
      | Some (m, e) => micro_exact m e
      | None => true
      end
  end.

(* ---------------------------------------------------------------- printing numbers *)
(* little-endian digits; fuel >= number of binary digits is plenty *)
Fixpoint digs (fuel : nat) (n : Z) : str :=
  match fuel with
  | O => []
  | S f => digit_chr (n mod 10) :: (if n <? 10 then [] else digs f (n / 10))
  end.

Definition print_nat (n : Z) : str := rev (digs (S (Z.to_nat (Z.log2 n))) n).

(* str(int) *)
Definition print_Z (z : Z) : str := if z <? 0 then 45%N :: print_nat (- z) else print_nat z.

Definition pad2 (n : Z) : str := [digit_chr (n / 10 mod 10); digit_chr (n mod 10)].
Definition pad6 (n : Z) : str :=
  [digit_chr (n / 100000 mod 10); digit_chr (n / 10000 mod 10); digit_chr (n / 1000 mod 10);
   digit_chr (n / 100 mod 10); digit_chr (n / 10 mod 10); digit_chr (n mod 10)].

(* ================================================================ lemmas *)
Ltac Zify.zify_post_hook ::= Z.div_mod_to_equations.

Lemma digit_chr_is_digit d : 0 <= d < 10 -> is_digit (digit_chr d) = true.
Proof. unfold is_digit, digit_chr. intros. apply andb_true_iff; split; apply N.leb_le; lia. Qed.

Lemma digit_val_chr d : 0 <= d < 10 -> digit_val (digit_chr d) = d.
Proof. unfold digit_val, digit_chr. lia. Qed.

Lemma horner_app a s1 s2 : horner a (s1 ++ s2) = horner (horner a s1) s2.
Proof. revert a; induction s1; simpl; intros; auto. Qed.

(* value of little-endian digits *)
Fixpoint lval (s : str) : Z := match s with [] => 0 | c :: s' => digit_val c + 10 * lval s' end.

Lemma horner_rev l : horner 0 (rev l) = lval l.
Proof.
  induction l as [|c l IH]; simpl; auto.
  rewrite horner_app, IH. simpl. lia.
Qed.

Lemma digs_lval fuel : forall n, 0 <= n < 2 ^ Z.of_nat fuel -> lval (digs fuel n) = n.
Proof.
  induction fuel as [|f IH]; intros n Hn.
  - simpl in *. lia.
  - cbn [digs lval]. rewrite digit_val_chr by lia.
    destruct (n <? 10) eqn:E.
    + apply Z.ltb_lt in E. simpl. lia.
    + apply Z.ltb_ge in E. rewrite IH; [lia|].
      rewrite Nat2Z.inj_succ, Z.pow_succ_r in Hn by lia. lia.
Qed.

Lemma digs_digits fuel : forall n, 0 <= n -> forallb is_digit (digs fuel n) = true.
Proof.
  induction fuel as [|f IH]; intros n Hn; simpl; auto.
  rewrite digit_chr_is_digit by lia. simpl.
  destruct (n <? 10); simpl; auto. apply IH. lia.
Qed.

Lemma fuel_enough n : 0 <= n -> n < 2 ^ Z.of_nat (S (Z.to_nat (Z.log2 n))).
Proof.
  intros Hn. rewrite Nat2Z.inj_succ, Z2Nat.id by apply Z.log2_nonneg.
  destruct (Z.eq_dec n 0) as [->|Hz]; [reflexivity|].
  apply Z.log2_spec. lia.
Qed.

Lemma forallb_rev {A} (p : A -> bool) l : forallb p (rev l) = forallb p l.
Proof.
  induction l; simpl; auto. rewrite forallb_app, IHl. simpl. rewrite andb_true_r. apply andb_comm.
Qed.

Lemma print_nat_digits n : 0 <= n -> forallb is_digit (print_nat n) = true.
Proof. intros. unfold print_nat. rewrite forallb_rev. apply digs_digits; auto. Qed.

Lemma print_nat_val n : 0 <= n -> horner 0 (print_nat n) = n.
Proof.
  intros. unfold print_nat. rewrite horner_rev. apply digs_lval. split; auto. apply fuel_enough; auto.
Qed.

Lemma print_nat_nonnil n : is_nil (print_nat n) = false.
Proof.
  unfold print_nat. cbn [digs]. simpl rev.
  destruct (rev _); reflexivity.
Qed.

(* characters that can occur in str(int) *)
Definition numch (c : N) : bool := is_digit c || N.eqb c 45.

Lemma digit_numch s : forallb is_digit s = true -> forallb numch s = true.
Proof.
  induction s; simpl; auto. intros H. apply andb_true_iff in H. destruct H as [H1 H2].
  unfold numch at 1. rewrite H1. simpl. auto.
Qed.

Lemma print_Z_numch z : forallb numch (print_Z z) = true.
Proof.
  unfold print_Z. destruct (z <? 0) eqn:E.
  - apply Z.ltb_lt in E. simpl. apply digit_numch, print_nat_digits. lia.
  - apply Z.ltb_ge in E. apply digit_numch, print_nat_digits. lia.
Qed.

Lemma print_Z_nonnil z : is_nil (print_Z z) = false.
Proof. unfold print_Z. destruct (z <? 0); [reflexivity | apply print_nat_nonnil]. Qed.

(* a predicate that holds of no numch character *)
Definition avoids (q : N -> bool) : Prop := forall c, numch c = true -> q c = false.

Lemma numch_cases c : numch c = true -> (48 <= c <= 57)%N \/ c = 45%N.
Proof.
  unfold numch, is_digit. intros H. apply orb_true_iff in H. destruct H as [H|H].
  - apply andb_true_iff in H. destruct H as [H1 H2]. apply N.leb_le in H1, H2. lia.
  - apply N.eqb_eq in H. auto.
Qed.

Lemma lstrip_id s : match s with c :: _ => is_space c = false | [] => True end -> lstrip s = s.
Proof. destruct s; simpl; auto. intros ->. reflexivity. Qed.

Lemma rstrip_last a c : is_space c = false -> rstrip (a ++ [c]) = a ++ [c].
Proof.
  intros Hc. induction a as [|x a IH]; simpl.
  - rewrite Hc. reflexivity.
  - rewrite IH. destruct (a ++ [c]) eqn:E; [destruct a; discriminate|].
    simpl. rewrite andb_false_r. reflexivity.
Qed.

(* characters that are neither white space nor an underscore *)
Definition clean (c : N) : bool := negb (is_space c) && negb (N.eqb c 95).

Lemma numch_clean c : numch c = true -> clean c = true.
Proof. intros H. apply numch_cases in H. unfold clean.
  assert (Hs : is_space c = false).
  { destruct H as [H| ->]; [|reflexivity].
    unfold is_space. repeat (apply orb_false_iff; split);
    try (apply andb_false_iff; (left; apply N.leb_gt; lia) || (right; apply N.leb_gt; lia));
    try (apply N.eqb_neq; lia). }
  rewrite Hs. simpl. apply negb_true_iff, N.eqb_neq. lia.
Qed.

Lemma forallb_impl {A} (p q : A -> bool) l :
  (forall x, p x = true -> q x = true) -> forallb p l = true -> forallb q l = true.
Proof. intros H. induction l; simpl; auto. intros E. apply andb_true_iff in E. destruct E.
  apply andb_true_iff; split; auto. Qed.

Lemma numch_all_clean s : forallb numch s = true -> forallb clean s = true.
Proof. apply forallb_impl, numch_clean. Qed.

Lemma exists_last' (s : str) : is_nil s = false -> exists a c, s = a ++ [c].
Proof.
  intros H. destruct (exists_last (l:=s)) as [a [c E]]; [destruct s; [discriminate|congruence]|].
  eauto.
Qed.

Lemma strip_ends s :
  match s with c :: _ => is_space c = false | [] => True end ->
  (forall a c, s = a ++ [c] -> is_space c = false) -> strip s = s.
Proof.
  intros H1 H2. unfold strip. rewrite lstrip_id by exact H1.
  destruct s as [|c s]; [reflexivity|].
  destruct (exists_last' (c :: s)) as [a [d E]]; [reflexivity|].
  rewrite E. apply rstrip_last. eapply H2; eauto.
Qed.

Lemma strip_clean s : forallb clean s = true -> strip s = s.
Proof.
  intros H. apply strip_ends.
  - destruct s; auto. simpl in H. apply andb_true_iff in H. destruct H as [H _].
    unfold clean in H. apply andb_true_iff in H. destruct H as [H _]. apply negb_true_iff in H. exact H.
  - intros a c E. rewrite E, forallb_app in H. apply andb_true_iff in H. destruct H as [_ H].
    simpl in H. rewrite andb_true_r in H. unfold clean in H. apply andb_true_iff in H.
    destruct H as [H _]. apply negb_true_iff in H. exact H.
Qed.

Lemma drop_us_clean s : forall b, forallb clean s = true -> drop_us b s = Some s.
Proof.
  induction s as [|c s IH]; intros b H; simpl; auto.
  simpl in H. apply andb_true_iff in H. destruct H as [H1 H2].
  unfold clean in H1. apply andb_true_iff in H1. destruct H1 as [_ H1].
  apply negb_true_iff in H1. rewrite H1, IH by auto. reflexivity.
Qed.

Lemma span_all p a b :
  forallb p a = true -> match b with c :: _ => p c = false | [] => True end ->
  span p (a ++ b) = (a, b).
Proof.
  induction a as [|x a IH]; simpl; intros Ha Hb.
  - destruct b; auto. simpl. rewrite Hb. reflexivity.
  - apply andb_true_iff in Ha. destruct Ha as [H1 H2]. rewrite H1, IH; auto.
Qed.

Lemma take_sign_digit c s : is_digit c = true -> take_sign (c :: s) = (false, c :: s).
Proof.
  unfold is_digit, take_sign. intros H. apply andb_true_iff in H. destruct H as [H1 H2].
  apply N.leb_le in H1, H2.
  destruct (N.eqb_spec c 45); [lia|]. destruct (N.eqb_spec c 43); [lia|]. reflexivity.
Qed.

Lemma parse_int_digits s :
  is_nil s = false -> forallb is_digit s = true -> parse_int_str s = Some (horner 0 s).
Proof.
  intros Hn Hd. unfold parse_int_str.
  rewrite strip_clean, drop_us_clean by (apply numch_all_clean, digit_numch; auto).
  destruct s as [|c s]; [discriminate|].
  assert (Hc : is_digit c = true) by (simpl in Hd; apply andb_true_iff in Hd; tauto).
  rewrite take_sign_digit by auto. rewrite Hd. reflexivity.
Qed.

(* int(str(z)) = z *)
Lemma parse_int_print z : parse_int_str (print_Z z) = Some z.
Proof.
  unfold print_Z. destruct (z <? 0) eqn:E.
  - apply Z.ltb_lt in E. unfold parse_int_str.
    assert (H : forallb numch (45%N :: print_nat (- z)) = true).
    { simpl. apply digit_numch, print_nat_digits. lia. }
    rewrite strip_clean, drop_us_clean by (apply numch_all_clean; exact H).
    simpl. rewrite print_nat_nonnil, print_nat_digits by lia. simpl.
    rewrite print_nat_val by lia. f_equal. lia.
  - apply Z.ltb_ge in E. rewrite parse_int_digits.
    + rewrite print_nat_val; auto.
    + apply print_nat_nonnil.
    + apply print_nat_digits; auto.
Qed.

(* ---------------------------------------------------------------- float(str) on numerals *)
Lemma digit_bounds c : is_digit c = true -> (48 <= c <= 57)%N.
Proof. unfold is_digit. intros H. apply andb_true_iff in H. destruct H as [H1 H2].
  apply N.leb_le in H1, H2. lia. Qed.

Lemma span_all_nil p a : forallb p a = true -> span p a = (a, []).
Proof. intros H. rewrite <- (app_nil_r a) at 1. apply span_all; auto. Qed.

Lemma lower_digit c : is_digit c = true -> lower c = c.
Proof. intros H. apply digit_bounds in H. unfold lower.
  destruct (N.leb_spec 65 c); [lia|]. reflexivity. Qed.

Lemma not_special c r :
  is_digit c = true ->
  str_eqb (map lower (c :: r)) s_inf || str_eqb (map lower (c :: r)) s_infinity = false
  /\ str_eqb (map lower (c :: r)) s_nan = false.
Proof.
  intros H. simpl map. rewrite lower_digit by auto. apply digit_bounds in H.
  unfold str_eqb, s_inf, s_infinity, s_nan. simpl.
  destruct (N.eqb_spec c 105); [lia|]. destruct (N.eqb_spec c 110); [lia|]. auto.
Qed.

Lemma parse_float_core_int ds :
  is_nil ds = false -> forallb is_digit ds = true -> parse_float_core ds = Some (horner 0 ds, 0).
Proof.
  intros Hn Hd. unfold parse_float_core. rewrite span_all_nil by auto.
  rewrite Hn. simpl. rewrite app_nil_r. reflexivity.
Qed.

Lemma parse_float_core_frac ds fs :
  is_nil ds = false -> forallb is_digit ds = true -> forallb is_digit fs = true ->
  parse_float_core (ds ++ 46%N :: fs) = Some (horner 0 (ds ++ fs), - Z.of_nat (length fs)).
Proof.
  intros Hn Hd Hf. unfold parse_float_core. rewrite span_all by auto.
  rewrite span_all_nil by auto. rewrite Hn. reflexivity.
Qed.

Lemma digit_all_clean s : forallb is_digit s = true -> forallb clean s = true.
Proof. intros. apply numch_all_clean, digit_numch; auto. Qed.

(* float("123") = 123.0 *)
Lemma parse_float_digits ds :
  is_nil ds = false -> forallb is_digit ds = true ->
  parse_float_str ds = Some (FFin (horner 0 ds * 1000000)).
Proof.
  intros Hn Hd. unfold parse_float_str.
  rewrite strip_clean, drop_us_clean by (apply digit_all_clean; auto).
  destruct ds as [|c r]; [discriminate|].
  assert (Hc : is_digit c = true) by (simpl in Hd; apply andb_true_iff in Hd; tauto).
  rewrite take_sign_digit by auto.
  destruct (not_special c r Hc) as [E1 E2]. rewrite E1, E2.
  rewrite parse_float_core_int by auto. reflexivity.
Qed.

(* float(str(z)) = z.0 *)
Lemma parse_float_print z : parse_float_str (print_Z z) = Some (FFin (z * 1000000)).
Proof.
  unfold print_Z. destruct (z <? 0) eqn:E.
  - apply Z.ltb_lt in E. unfold parse_float_str.
    assert (H : forallb numch (45%N :: print_nat (- z)) = true).
    { simpl. apply digit_numch, print_nat_digits. lia. }
    rewrite strip_clean, drop_us_clean by (apply numch_all_clean; exact H).
    change (take_sign (45%N :: print_nat (- z))) with (true, print_nat (- z)).
    assert (Hn := print_nat_nonnil (- z)).
    assert (Hd : forallb is_digit (print_nat (- z)) = true) by (apply print_nat_digits; lia).
    destruct (print_nat (- z)) as [|c r] eqn:Ep; [discriminate|].
    assert (Hc : is_digit c = true) by (simpl in Hd; apply andb_true_iff in Hd; tauto).
    destruct (not_special c r Hc) as [E1 E2]. rewrite E1, E2.
    rewrite parse_float_core_int by auto. rewrite <- Ep, print_nat_val by lia.
    cbv beta iota zeta. unfold micro_of. simpl. do 2 f_equal. lia.
  - apply Z.ltb_ge in E. rewrite parse_float_digits.
    + rewrite print_nat_val; auto.
    + apply print_nat_nonnil.
    + apply print_nat_digits; auto.
Qed.

Lemma horner_shift fs : forall a, horner a fs = a * 10 ^ Z.of_nat (length fs) + horner 0 fs.
Proof.
  induction fs as [|c fs IH]; intros a.
  - simpl. lia.
  - cbn [horner length]. rewrite IH, (IH (10 * 0 + digit_val c)).
    rewrite Nat2Z.inj_succ, Z.pow_succ_r by lia. lia.
Qed.

(* float("12.000345") with exactly six fractional digits *)
Lemma parse_float_frac6 ds fs :
  is_nil ds = false -> forallb is_digit ds = true -> forallb is_digit fs = true -> length fs = 6%nat ->
  parse_float_str (ds ++ 46%N :: fs) = Some (FFin (horner 0 ds * 1000000 + horner 0 fs)).
Proof.
  intros Hn Hd Hf Hl. unfold parse_float_str.
  assert (Hc : forallb clean (ds ++ 46%N :: fs) = true).
  { rewrite forallb_app. simpl. rewrite !digit_all_clean by auto. reflexivity. }
  rewrite strip_clean, drop_us_clean by exact Hc.
  destruct ds as [|c r]; [discriminate|].
  assert (Hcd : is_digit c = true) by (simpl in Hd; apply andb_true_iff in Hd; tauto).
  change ((c :: r) ++ 46%N :: fs) with (c :: (r ++ 46%N :: fs)).
  rewrite take_sign_digit by auto.
  destruct (not_special c (r ++ 46%N :: fs) Hcd) as [E1 E2]. rewrite E1, E2.
  change (c :: (r ++ 46%N :: fs)) with ((c :: r) ++ 46%N :: fs).
  rewrite parse_float_core_frac by auto. rewrite Hl.
  cbv beta iota zeta. unfold micro_of. simpl Z.leb. cbv iota.
  rewrite horner_app, horner_shift, Hl. simpl. do 2 f_equal. lia.
Qed.

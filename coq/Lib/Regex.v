(* Verified regular-language reasoning over code points (used by C01, C05):
   - regular expressions with intersection and complement over character classes
   - denotational semantics `lang`, Brzozowski derivatives with normalising constructors,
     `matches` proved equivalent to `lang`
   - emptiness certificates: a finite set of states closed under derivatives by representative
     characters, none nullable  ==>  the language is empty (`cert_sound`)
   - hence inclusion `L(a) ⊆ L(b)` is decided by an (untrusted) exploration of And a (Not b)
     whose result is validated by the verified certificate checker; a failed exploration returns
     a concrete witness string accepted by a and not by b. *)
From JV Require Import Lib.Base.

(* ---- character classes ------------------------------------------------------------------- *)
Record cls := { c_ranges : list (N * N); c_neg : bool }.

Definition in_range (c : N) (r : N * N) : bool := N.leb (fst r) c && N.leb c (snd r).
Definition cls_mem (c : N) (cl : cls) : bool := xorb (c_neg cl) (existsb (in_range c) (c_ranges cl)).

Definition range_eqb (a b : N * N) : bool := N.eqb (fst a) (fst b) && N.eqb (snd a) (snd b).
Definition cls_eqb (a b : cls) : bool :=
  Bool.eqb (c_neg a) (c_neg b) && list_eqb range_eqb (c_ranges a) (c_ranges b).

Lemma range_eqb_eq a b : range_eqb a b = true <-> a = b.
Proof.
  destruct a, b; unfold range_eqb; simpl. rewrite andb_true_iff, !N.eqb_eq.
  split; [intros [-> ->]; reflexivity|intros H; inversion H; auto].
Qed.

Lemma cls_eqb_eq a b : cls_eqb a b = true <-> a = b.
Proof.
  destruct a as [ra na], b as [rb nb]; unfold cls_eqb; simpl.
  rewrite andb_true_iff, Bool.eqb_true_iff, (list_eqb_spec range_eqb range_eqb_eq).
  split; [intros [-> ->]; reflexivity|intros H; inversion H; auto].
Qed.

(* ---- syntax and semantics ------------------------------------------------------------------ *)
Inductive re :=
| Emp | Eps
| Chr (c : cls)
| Cat (a b : re) | Alt (a b : re) | And (a b : re)
| Not (a : re)
| Star (a : re).

Fixpoint lang (r : re) (s : str) : Prop :=
  match r with
  | Emp => False
  | Eps => s = []
  | Chr cl => exists c, s = [c] /\ cls_mem c cl = true
  | Cat a b => exists s1 s2, s = s1 ++ s2 /\ lang a s1 /\ lang b s2
  | Alt a b => lang a s \/ lang b s
  | And a b => lang a s /\ lang b s
  | Not a => ~ lang a s
  | Star a => exists ss, s = concat ss /\ Forall (fun x => x <> [] /\ lang a x) ss
  end.

Fixpoint nullable (r : re) : bool :=
  match r with
  | Emp => false | Eps => true | Chr _ => false
  | Cat a b => nullable a && nullable b
  | Alt a b => nullable a || nullable b
  | And a b => nullable a && nullable b
  | Not a => negb (nullable a)
  | Star _ => true
  end.

Fixpoint re_eqb (x y : re) : bool :=
  match x, y with
  | Emp, Emp | Eps, Eps => true
  | Chr a, Chr b => cls_eqb a b
  | Cat a b, Cat c d | Alt a b, Alt c d | And a b, And c d => re_eqb a c && re_eqb b d
  | Not a, Not b | Star a, Star b => re_eqb a b
  | _, _ => false
  end.

Lemma re_eqb_eq : forall x y, re_eqb x y = true -> x = y.
Proof.
  induction x; destruct y; simpl; intros H; try discriminate; try reflexivity.
  - apply cls_eqb_eq in H. congruence.
  - apply andb_true_iff in H. destruct H as [H1 H2]. f_equal; auto.
  - apply andb_true_iff in H. destruct H as [H1 H2]. f_equal; auto.
  - apply andb_true_iff in H. destruct H as [H1 H2]. f_equal; auto.
  - f_equal; auto.
  - f_equal; auto.
Qed.

Lemma re_eqb_refl : forall x, re_eqb x x = true.
Proof.
  induction x; simpl; rewrite ?IHx, ?IHx1, ?IHx2; auto.
  apply cls_eqb_eq; reflexivity.
Qed.

(* a cheap rank used only to keep alternatives in a canonical order (no correctness content) *)
Fixpoint rank (r : re) : N :=
  match r with
  | Emp => 0 | Eps => 1
  | Chr c => 2 + N.of_nat (length (c_ranges c)) + match c_ranges c with (a, b) :: _ => a * 7 + b | [] => 0 end
  | Cat a b => 3 + 5 * rank a + 11 * rank b
  | Alt a b => 5 + 3 * rank a + 7 * rank b
  | And a b => 7 + 3 * rank a + 5 * rank b
  | Not a => 11 + 2 * rank a
  | Star a => 13 + 3 * rank a
  end.

(* ---- normalising constructors --------------------------------------------------------------- *)
Definition mkCat (a b : re) : re :=
  match a, b with
  | Emp, _ => Emp
  | _, Emp => Emp
  | Eps, _ => b
  | _, Eps => a
  | _, _ => Cat a b
  end.

Fixpoint alts (r : re) : list re :=
  match r with
  | Alt a b => alts a ++ alts b
  | Emp => []
  | _ => [r]
  end.

Fixpoint ins (x : re) (l : list re) : list re :=
  match l with
  | [] => [x]
  | y :: l' => if re_eqb x y then l
               else if N.leb (rank x) (rank y) then x :: l else y :: ins x l'
  end.

Fixpoint build (l : list re) : re :=
  match l with
  | [] => Emp
  | [x] => x
  | x :: l' => Alt x (build l')
  end.

Definition mkAlt (a b : re) : re := build (fold_right ins [] (alts a ++ alts b)).

Definition mkAnd (a b : re) : re :=
  match a, b with
  | Emp, _ => Emp
  | _, Emp => Emp
  | _, _ => if re_eqb a b then a else And a b
  end.

Fixpoint d (c : N) (r : re) : re :=
  match r with
  | Emp | Eps => Emp
  | Chr cl => if cls_mem c cl then Eps else Emp
  | Cat a b => if nullable a then mkAlt (mkCat (d c a) b) (d c b) else mkCat (d c a) b
  | Alt a b => mkAlt (d c a) (d c b)
  | And a b => mkAnd (d c a) (d c b)
  | Not a => Not (d c a)
  | Star a => mkCat (d c a) (Star a)
  end.

Definition matches (r : re) (s : str) : bool := nullable (fold_left (fun r c => d c r) s r).

(* ---- correctness of nullable and of the constructors --------------------------------------- *)
Lemma nullable_lang : forall r, nullable r = true <-> lang r [].
Proof.
  induction r; simpl.
  - split; [discriminate|tauto].
  - split; auto.
  - split; [discriminate|]. intros (c0 & H & _). discriminate.
  - rewrite andb_true_iff, IHr1, IHr2. split.
    + intros [H1 H2]. exists [], []. auto.
    + intros (s1 & s2 & H & H1 & H2). symmetry in H. apply app_eq_nil in H. destruct H; subst. auto.
  - rewrite orb_true_iff, IHr1, IHr2. tauto.
  - rewrite andb_true_iff, IHr1, IHr2. tauto.
  - rewrite negb_true_iff. split.
    + intros H Hl. apply IHr in Hl. congruence.
    + intros H. destruct (nullable r) eqn:E; auto. exfalso. apply H. apply IHr. reflexivity.
  - split; auto. intros _. exists []. split; [reflexivity|constructor].
Qed.

Lemma mkCat_lang a b s : lang (mkCat a b) s <-> lang (Cat a b) s.
Proof.
  unfold mkCat.
  assert (HE1 : forall x, lang (Cat Emp x) s <-> False).
  { intros x. simpl. split; [intros (s1 & s2 & _ & [] & _)|tauto]. }
  assert (HE2 : forall x, lang (Cat x Emp) s <-> False).
  { intros x. simpl. split; [intros (s1 & s2 & _ & _ & [])|tauto]. }
  assert (HP1 : forall x, lang (Cat Eps x) s <-> lang x s).
  { intros x. simpl. split.
    - intros (s1 & s2 & -> & -> & H). exact H.
    - intros H. exists [], s. auto. }
  assert (HP2 : forall x, lang (Cat x Eps) s <-> lang x s).
  { intros x. simpl. split.
    - intros (s1 & s2 & -> & H & ->). rewrite app_nil_r. exact H.
    - intros H. exists s, []. rewrite app_nil_r. auto. }
  destruct a; destruct b;
    try (rewrite HE1; simpl; tauto); try (rewrite HE2; simpl; tauto);
    try (rewrite HP1; tauto); try (rewrite HP2; tauto); tauto.
Qed.

Lemma alts_lang : forall r s, lang r s <-> exists x, In x (alts r) /\ lang x s.
Proof.
  induction r; intros s; simpl;
    try (split; [intros H; eexists; split; [left; reflexivity|exact H]
                |intros (x & [<-|[]] & H); exact H]).
  - split; [tauto|intros (x & [] & _)].
  - rewrite IHr1, IHr2. split.
    + intros [(x & Hx & H)|(x & Hx & H)]; exists x; split; auto; apply in_or_app; auto.
    + intros (x & Hx & H). apply in_app_or in Hx. destruct Hx; [left|right]; exists x; auto.
Qed.

Lemma build_lang : forall l s, lang (build l) s <-> exists x, In x l /\ lang x s.
Proof.
  induction l as [|x l IH]; intros s.
  - simpl. split; [tauto|intros (x & [] & _)].
  - destruct l as [|y l].
    + simpl. split; [intros H; exists x; auto|intros (z & [<-|[]] & H); exact H].
    + change (build (x :: y :: l)) with (Alt x (build (y :: l))). simpl lang. rewrite IH. split.
      * intros [H|(z & Hz & H)]; [exists x; split; [left; reflexivity|exact H]|exists z; split; [right; exact Hz|exact H]].
      * intros (z & [<-|Hz] & H); [left; exact H|right; exists z; auto].
Qed.

Lemma ins_In : forall x l z, In z (ins x l) <-> z = x \/ In z l.
Proof.
  induction l as [|y l IH]; intros z; simpl.
  - split; [intros [<-|[]]; auto|intros [->|[]]; auto].
  - destruct (re_eqb x y) eqn:E.
    + apply re_eqb_eq in E. subst. simpl. split; [auto|intros [->|H]; auto].
    + destruct (N.leb (rank x) (rank y)); simpl.
      * split; [intros [<-|H]; auto|intros [->|H]; auto].
      * rewrite IH. split; [intros [<-|[->|H]]; auto|intros [->|[<-|H]]; auto].
Qed.

Lemma fold_ins_In : forall l z, In z (fold_right ins [] l) <-> In z l.
Proof.
  induction l as [|x l IH]; intros z; simpl; [tauto|].
  rewrite ins_In, IH. split; [intros [->|H]; auto|intros [<-|H]; auto].
Qed.

Lemma mkAlt_lang a b s : lang (mkAlt a b) s <-> lang a s \/ lang b s.
Proof.
  unfold mkAlt. rewrite build_lang, (alts_lang a), (alts_lang b). split.
  - intros (x & Hx & H). apply (proj1 (fold_ins_In _ _)) in Hx. apply in_app_or in Hx.
    destruct Hx; [left|right]; exists x; auto.
  - intros [(x & Hx & H)|(x & Hx & H)]; exists x; split; auto; apply (proj2 (fold_ins_In _ _)); apply in_or_app; auto.
Qed.

Lemma mkAnd_lang a b s : lang (mkAnd a b) s <-> lang a s /\ lang b s.
Proof.
  unfold mkAnd.
  assert (G : lang (if re_eqb a b then a else And a b) s <-> lang a s /\ lang b s).
  { destruct (re_eqb a b) eqn:E; [apply re_eqb_eq in E; subst; tauto|simpl; tauto]. }
  destruct a; destruct b; simpl in *; tauto.
Qed.

(* ---- derivatives ---------------------------------------------------------------------------- *)
Lemma star_cons a c s :
  lang (Star a) (c :: s) <-> exists s1 s2, s = s1 ++ s2 /\ lang a (c :: s1) /\ lang (Star a) s2.
Proof.
  simpl. split.
  - intros (ss & Hs & Hf). destruct ss as [|x ss]; [discriminate|].
    inversion Hf as [|? ? [Hx Hl] Hf']; subst. destruct x as [|c0 x]; [congruence|].
    simpl in Hs. inversion Hs; subst. exists x, (concat ss). split; [reflexivity|]. split; [exact Hl|].
    exists ss. auto.
  - intros (s1 & s2 & -> & H1 & ss & -> & Hf). exists ((c :: s1) :: ss). split; [reflexivity|].
    constructor; [split; [discriminate|exact H1]|exact Hf].
Qed.

Lemma d_lang : forall r c s, lang (d c r) s <-> lang r (c :: s).
Proof.
  induction r; intros c0 s.
  - simpl. tauto.
  - simpl. split; [tauto|discriminate].
  - simpl. destruct (cls_mem c0 c) eqn:E; simpl.
    + split; [intros ->; exists c0; auto|intros (x & H & _); inversion H; reflexivity].
    + split; [tauto|intros (x & H & Hm); inversion H; subst; congruence].
  - assert (HC : lang (mkCat (d c0 r1) r2) s <-> exists s1 s2, s = s1 ++ s2 /\ lang r1 (c0 :: s1) /\ lang r2 s2).
    { rewrite mkCat_lang. simpl. split; intros (s1 & s2 & H & H1 & H2); exists s1, s2; repeat split; auto; apply IHr1; auto. }
    assert (HR : lang (Cat r1 r2) (c0 :: s) <->
                 (exists s1 s2, s = s1 ++ s2 /\ lang r1 (c0 :: s1) /\ lang r2 s2) \/ (lang r1 [] /\ lang r2 (c0 :: s))).
    { simpl. split.
      - intros (s1 & s2 & H & H1 & H2). destruct s1 as [|x s1].
        + simpl in H. subst. right; auto.
        + simpl in H. inversion H; subst. left. exists s1, s2; auto.
      - intros [(s1 & s2 & -> & H1 & H2)|[H1 H2]].
        + exists (c0 :: s1), s2; auto.
        + exists [], (c0 :: s); auto. }
    rewrite HR. simpl d. destruct (nullable r1) eqn:E.
    + rewrite mkAlt_lang, HC, IHr2. apply nullable_lang in E. tauto.
    + rewrite HC. split; [tauto|]. intros [H|[H _]]; [exact H|]. apply nullable_lang in H. congruence.
  - simpl d. rewrite mkAlt_lang, IHr1, IHr2. simpl. tauto.
  - simpl d. rewrite mkAnd_lang, IHr1, IHr2. simpl. tauto.
  - simpl. rewrite IHr. tauto.
  - simpl d. rewrite mkCat_lang, star_cons. simpl lang at 1.
    split; intros (s1 & s2 & H & H1 & H2); exists s1, s2; repeat split; auto; apply IHr; auto.
Qed.

Lemma matches_lang : forall s r, matches r s = true <-> lang r s.
Proof.
  unfold matches. induction s as [|c s IH]; intros r; simpl.
  - apply nullable_lang.
  - rewrite IH. apply d_lang.
Qed.

Lemma matches_and a b s : matches (And a b) s = matches a s && matches b s.
Proof.
  apply eq_true_iff_eq. rewrite andb_true_iff, !matches_lang. simpl. tauto.
Qed.

Lemma matches_not a s : matches (Not a) s = negb (matches a s).
Proof.
  apply eq_true_iff_eq. rewrite negb_true_iff, matches_lang. simpl.
  destruct (matches a s) eqn:E.
  - apply matches_lang in E. split; [tauto|discriminate].
  - split; auto. intros _ H. apply matches_lang in H. congruence.
Qed.

Lemma matches_alt a b s : matches (Alt a b) s = matches a s || matches b s.
Proof.
  apply eq_true_iff_eq. rewrite orb_true_iff, !matches_lang. simpl. tauto.
Qed.

(* ---- representatives: characters between two consecutive breakpoints are indistinguishable -- *)
Fixpoint rep (bps : list N) (c : N) : N :=
  match bps with
  | [] => 0
  | b :: bps' => let r := rep bps' c in if N.leb b c && N.ltb r b then b else r
  end.

Lemma rep_le bps c : (rep bps c <= c)%N.
Proof.
  induction bps as [|b bps IH]; simpl; [apply N.le_0_l|].
  destruct (N.leb b c) eqn:E1; simpl; auto. destruct (N.ltb (rep bps c) b); auto.
  apply N.leb_le; exact E1.
Qed.

Lemma rep_max bps c b : In b bps -> (b <= c)%N -> (b <= rep bps c)%N.
Proof.
  induction bps as [|x bps IH]; simpl; [tauto|]. intros [->|H] Hb.
  - apply N.leb_le in Hb. rewrite Hb. simpl. destruct (N.ltb (rep bps c) b) eqn:E; [apply N.le_refl|].
    apply N.ltb_ge in E. exact E.
  - specialize (IH H Hb). destruct (N.leb x c && N.ltb (rep bps c) x) eqn:E; auto.
    apply andb_true_iff in E. destruct E as [_ E]. apply N.ltb_lt in E. lia.
Qed.

Lemma rep_in bps c : rep bps c = 0%N \/ In (rep bps c) bps.
Proof.
  induction bps as [|b bps IH]; simpl; auto.
  destruct (N.leb b c && N.ltb (rep bps c) b); auto. destruct IH; auto.
Qed.

Definition range_ok (bps : list N) (r : N * N) : bool :=
  (N.eqb (fst r) 0 || existsb (N.eqb (fst r)) bps) && existsb (N.eqb (snd r + 1)) bps.

Lemma existsb_eqb_In x l : existsb (N.eqb x) l = true -> In x l.
Proof. intros H. apply existsb_exists in H. destruct H as (y & Hy & E). apply N.eqb_eq in E. subst. exact Hy. Qed.

Lemma in_range_rep bps c r : range_ok bps r = true -> in_range c r = in_range (rep bps c) r.
Proof.
  unfold range_ok, in_range. destruct r as [lo hi]; simpl. intros H.
  apply andb_true_iff in H. destruct H as [Hlo Hhi]. apply existsb_eqb_In in Hhi.
  pose proof (rep_le bps c) as Hle.
  assert (Hlo' : (lo <= c)%N -> (lo <= rep bps c)%N).
  { intros Hc. apply orb_true_iff in Hlo. destruct Hlo as [E|E].
    - apply N.eqb_eq in E. subst. apply N.le_0_l.
    - apply existsb_eqb_In in E. apply rep_max; auto. }
  assert (Hhi' : (rep bps c <= hi)%N -> (c <= hi)%N).
  { intros Hr. destruct (N.le_gt_cases c hi) as [|Hgt]; auto.
    assert ((hi + 1 <= rep bps c)%N) by (apply rep_max; auto; lia). lia. }
  apply eq_true_iff_eq. rewrite !andb_true_iff, !N.leb_le. split; intros [H1 H2]; split; auto; lia.
Qed.

Definition cls_ok (bps : list N) (cl : cls) : bool := forallb (range_ok bps) (c_ranges cl).

Lemma cls_mem_rep bps c cl : cls_ok bps cl = true -> cls_mem c cl = cls_mem (rep bps c) cl.
Proof.
  unfold cls_ok, cls_mem. intros H. f_equal.
  induction (c_ranges cl) as [|r rs IH]; simpl in *; auto.
  apply andb_true_iff in H. destruct H as [H1 H2]. rewrite (in_range_rep bps c r H1), (IH H2). reflexivity.
Qed.

Fixpoint re_ok (bps : list N) (r : re) : bool :=
  match r with
  | Emp | Eps => true
  | Chr cl => cls_ok bps cl
  | Cat a b | Alt a b | And a b => re_ok bps a && re_ok bps b
  | Not a | Star a => re_ok bps a
  end.

Lemma d_rep bps : forall r c, re_ok bps r = true -> d c r = d (rep bps c) r.
Proof.
  induction r; intros c0 H; simpl in *; auto.
  - rewrite (cls_mem_rep bps c0 c H). reflexivity.
  - apply andb_true_iff in H. destruct H. rewrite (IHr1 c0), (IHr2 c0); auto.
  - apply andb_true_iff in H. destruct H. rewrite (IHr1 c0), (IHr2 c0); auto.
  - apply andb_true_iff in H. destruct H. rewrite (IHr1 c0), (IHr2 c0); auto.
  - rewrite (IHr c0); auto.
  - rewrite (IHr c0); auto.
Qed.

(* ---- emptiness certificates ------------------------------------------------------------------ *)
Definition mem_re (x : re) (l : list re) : bool := existsb (re_eqb x) l.

Lemma mem_re_In x l : mem_re x l = true -> In x l.
Proof.
  unfold mem_re. intros H. apply existsb_exists in H. destruct H as (y & Hy & E).
  apply re_eqb_eq in E. subst. exact Hy.
Qed.

Definition check_cert (bps : list N) (seen : list re) (r0 : re) : bool :=
  mem_re r0 seen &&
  forallb (fun r => negb (nullable r) && re_ok bps r &&
                    forallb (fun c => mem_re (d c r) seen) (0%N :: bps)) seen.

Theorem cert_sound bps seen r0 :
  check_cert bps seen r0 = true -> forall s, matches r0 s = false.
Proof.
  unfold check_cert. intros H. apply andb_true_iff in H. destruct H as [H0 Hall].
  apply mem_re_In in H0. rewrite forallb_forall in Hall.
  assert (G : forall s r, In r seen -> matches r s = false).
  { unfold matches. induction s as [|c s IH]; intros r Hr; simpl.
    - specialize (Hall r Hr). apply andb_true_iff in Hall. destruct Hall as [Hn _].
      apply andb_true_iff in Hn. destruct Hn as [Hn _]. apply negb_true_iff in Hn. exact Hn.
    - specialize (Hall r Hr) as Hr'. apply andb_true_iff in Hr'. destruct Hr' as [Hn Hd].
      apply andb_true_iff in Hn. destruct Hn as [_ Hok].
      rewrite (d_rep bps r c Hok). apply IH. apply mem_re_In.
      rewrite forallb_forall in Hd. apply Hd.
      destruct (rep_in bps c) as [E|E]; [rewrite E; left; reflexivity|right; exact E]. }
  intros s. apply G. exact H0.
Qed.

(* ---- (untrusted) exploration producing a certificate or a witness ---------------------------- *)
Inductive explored :=
| EEmpty (seen : list re)
| EWitness (w : str)
| EFuel.

Fixpoint add_new (seen : list re) (todo : list (re * str)) (succs : list (re * str)) : list (re * str) :=
  match succs with
  | [] => todo
  | x :: succs' =>
      if mem_re (fst x) seen || mem_re (fst x) (map fst todo) then add_new seen todo succs'
      else add_new seen (todo ++ [x]) succs'
  end.

Fixpoint explore (fuel : nat) (reps : list N) (todo : list (re * str)) (seen : list re) : explored :=
  match fuel with
  | 0 => EFuel
  | S f =>
      match todo with
      | [] => EEmpty seen
      | (r, path) :: todo' =>
          if mem_re r seen then explore f reps todo' seen
          else if nullable r then EWitness (rev path)
          else explore f reps (add_new (r :: seen) todo' (map (fun c => (d c r, c :: path)) reps)) (r :: seen)
      end
  end.

Definition dedup_N (l : list N) : list N :=
  fold_left (fun acc x => if existsb (N.eqb x) acc then acc else x :: acc) l [].

Fixpoint breakpoints (r : re) : list N :=
  match r with
  | Emp | Eps => []
  | Chr cl => flat_map (fun x => [fst x; (snd x + 1)%N]) (c_ranges cl)
  | Cat a b | Alt a b | And a b => breakpoints a ++ breakpoints b
  | Not a | Star a => breakpoints a
  end.

(* decide emptiness of r: true only if a validated certificate exists *)
Definition is_empty_re (fuel : nat) (r : re) : bool :=
  let bps := dedup_N (breakpoints r) in
  match explore fuel (0%N :: bps) [(r, [])] [] with
  | EEmpty seen => check_cert bps seen r
  | _ => false
  end.

Definition witness (fuel : nat) (r : re) : option str :=
  match explore fuel (0%N :: dedup_N (breakpoints r)) [(r, [])] [] with
  | EWitness w => if matches r w then Some w else None
  | _ => None
  end.

Theorem is_empty_sound fuel r : is_empty_re fuel r = true -> forall s, matches r s = false.
Proof.
  unfold is_empty_re. destruct (explore _ _ _ _); try discriminate. apply cert_sound.
Qed.

(* L(a) ⊆ L(b) *)
Definition incl_re (fuel : nat) (a b : re) : bool := is_empty_re fuel (And a (Not b)).

Theorem incl_sound fuel a b :
  incl_re fuel a b = true -> forall s, matches a s = true -> matches b s = true.
Proof.
  intros H s Ha. pose proof (is_empty_sound _ _ H s) as E.
  rewrite matches_and, matches_not, Ha in E. simpl in E. apply negb_false_iff in E. exact E.
Qed.

Theorem witness_sound fuel r w : witness fuel r = Some w -> matches r w = true.
Proof.
  unfold witness. destruct (explore _ _ _ _); try discriminate.
  destruct (matches r w0) eqn:E; [intros H; inversion H; subst; exact E|discriminate].
Qed.

(* L(a) ∩ L(b) = ∅ *)
Definition disjoint_re (fuel : nat) (a b : re) : bool := is_empty_re fuel (And a b).

Theorem disjoint_sound fuel a b :
  disjoint_re fuel a b = true -> forall s, matches a s = true -> matches b s = false.
Proof.
  intros H s Ha. pose proof (is_empty_sound _ _ H s) as E.
  rewrite matches_and, Ha in E. exact E.
Qed.

(* ---- helpers for building expressions -------------------------------------------------------- *)
Definition chr (c : N) : re := Chr {| c_ranges := [(c, c)]; c_neg := false |}.
Definition rng (lo hi : N) : re := Chr {| c_ranges := [(lo, hi)]; c_neg := false |}.
Definition any_char : re := Chr {| c_ranges := []; c_neg := true |}.
Definition opt (r : re) : re := Alt Eps r.
Definition plus (r : re) : re := Cat r (Star r).
Fixpoint lit (s : str) : re := match s with [] => Eps | c :: s' => Cat (chr c) (lit s') end.
Fixpoint alt_list (l : list re) : re := match l with [] => Emp | [x] => x | x :: l' => Alt x (alt_list l') end.
Fixpoint cat_list (l : list re) : re := match l with [] => Eps | [x] => x | x :: l' => Cat x (cat_list l') end.
Fixpoint repeat_re (n : nat) (r : re) : re := match n with 0 => Eps | S n' => Cat r (repeat_re n' r) end.

(* Correspondence judge for C12: a case is a generated program (components), a tokenised command line
   and what the real auto_cli did with it (the callee's own record of its arguments). *)
From JV Require Import Lib.Base Lib.C12Syntax Model.C12Cli Spec.C12CliSpec.

Inductive obs := ObsOk (log : list call) (ret : retv) | ObsParse | ObsBuild | ObsCrash | ObsOther.

Record case := { c_aspos : bool; c_comps : components; c_toks : list tok; c_obs : obs }.

Definition binding_eqb (a b : list (str * value)) : bool :=
  list_eqb (fun x y => str_eqb (fst x) (fst y) && value_eqb (snd x) (snd y)) a b.
Definition call_eqb (a b : call) : bool :=
  list_eqb str_eqb (fst a) (fst b) && binding_eqb (snd a) (snd b).
Definition retv_eqb (a b : retv) : bool :=
  match a, b with
  | RetCall i, RetCall j => Nat.eqb i j
  | RetInstance, RetInstance => true
  | _, _ => false
  end.

Definition model_explains (r : res (list call * retv)) (o : obs) : bool :=
  match r, o with
  | Ok (log, ret), ObsOk log' ret' => list_eqb call_eqb log log' && retv_eqb ret ret'
  | Err EParse, ObsParse => true
  | Err EBuild, ObsBuild => true
  | Err ECrash, ObsCrash => true
  | _, _ => false                      (* EUnmodelled / EFuel never explain anything *)
  end.

Definition spec_demands (s : outcome) (o : obs) : bool :=
  match s, o with
  | Done log ret, ObsOk log' ret' => list_eqb call_eqb log log' && retv_eqb ret ret'
  | Rejected, ObsParse => true
  | Refused, ObsBuild => true
  | _, _ => false
  end.

(* v_class = 0 exactly inside the guard of C12_binds_exactly (in_guard; the model is the present code, pre = false).
   Outside it the listed findings are class 6 (a nullish str default) and class 9 (a positional-only parameter) ONLY when
   the faithful model reproduces the observation bug for bug; an observation outside the guard that neither the model
   nor the spec explains gets class 8 / 10, which is no listed finding: a different failure on such a program is still
   a violation.
   (Classes 1-5, 7 belonged to the three findings repaired in /repo.) *)
Definition judge1 (c : case) : verdict :=
  let m := model_explains (auto_cli false conv_simple (c_aspos c) (c_comps c) (c_toks c)) (c_obs c) in
  {| v_model := m;
     v_class := if in_guard (c_comps c) then 0%N
                else if negb (no_nullish_str_default (c_comps c)) then (if m then 6%N else 8%N)
                else (if m then 9%N else 10%N);   (* = negb (no_positional_only ..): C12_guard_is_neither_finding_class *)
     v_spec := spec_demands (spec conv_simple (c_aspos c) (c_comps c) (c_toks c)) (c_obs c) |}.

Definition judge (cs : list case) := judge_all judge1 cs.

(* Correspondence judge for C11: a case is a history of operations on one Namespace (starting empty)
   with, for every step, the observed output and the observed __dict__ tree (stored names). *)
From JV Require Import Lib.Base Model.Ns Model.NsRun Model.NsGuard Spec.NestedDict Spec.NestedDictRun Gen.C11Clash.

Fixpoint val_eqb (fuel : nat) (a b : val) : bool :=
  match fuel with
  | 0 => false
  | S f =>
      match a, b with
      | VInt x, VInt y => Z.eqb x y
      | VStr x, VStr y => str_eqb x y
      | VNone, VNone => true
      | VList x, VList y | VTup x, VTup y => list_eqb (val_eqb f) x y
      | VDict x, VDict y | VNs x, VNs y =>
          list_eqb (fun p q => str_eqb (fst p) (fst q) && val_eqb f (snd p) (snd q)) x y
      | _, _ => false
      end
  end.

Definition veq := val_eqb 60.

Definition out_eqb (a b : out) : bool :=
  match a, b with
  | OutUnit, OutUnit | OutFail, OutFail => true
  | OutVal x, OutVal y => veq x y
  | OutBool x, OutBool y => Bool.eqb x y
  | OutItems x, OutItems y => list_eqb (fun p q => str_eqb (fst p) (fst q) && veq (snd p) (snd q)) x y
  | _, _ => false
  end.

Fixpoint all2 {A B} (f : A -> B -> bool) (a : list A) (b : list B) : bool :=
  match a, b with
  | [], [] => true
  | x :: a', y :: b' => f x y && all2 f a' b'
  | _, _ => false
  end.

Record case := { c_ops : list op; c_obs : list (out * alist) }.

Definition agree_model (c : case) : bool :=
  list_eqb (fun (m o : out * alist) => out_eqb (fst m) (fst o) && veq (VNs (snd m)) (VNs (snd o)))
           (fst (run_model clash_names [] (c_ops c))) (c_obs c).

Definition agree_spec (c : case) : bool :=
  all2 (fun (s : out * sdict) (o : out * alist) =>
              out_eqb (fst s) (unmark_out (fst o))
              && veq (node_val (Branch (snd s))) (unmark_val (VNs (snd o))))
           (run_spec [] (c_ops c)) (c_obs c).

(* v_class is hist_class, the very function whose value 0 is the hypothesis of
   Properties/C11.v:ns_refines_dict:
     0 = inside the theorem;
     1 = some addressed path met a dict-valued leaf (known finding path-through-dict);
     2 = ill-formed key or value (never generated: would be reported if the spec disagrees);
     3 = history uses update(namespace) / as_dict / Namespace(dict), which the theorem does not cover
         (model- and spec-agreement are still demanded of every such case) *)
Definition judge1 (c : case) : verdict :=
  {| v_model := agree_model c;
     v_class := hist_class clash_names (c_ops c);
     v_spec := agree_spec c |}.

Definition judge (cs : list case) := judge_all judge1 cs.

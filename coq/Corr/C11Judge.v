(* Correspondence judge for C11: a case is a history of operations on one Namespace (starting empty)
   with, for every step, the observed output and the observed __dict__ tree (stored names). *)
From JV Require Import Lib.Base Model.Ns Model.NsRun Model.NsGuard Model.C11NsFixed Model.C11FixedGuard Spec.NestedDict Spec.NestedDictRun Gen.C11Clash.

(* ---- short names for the generated case files (parsing literal code-point lists dominates coqc time) ---- *)
Definition n_a : str := [97]%N.
Definition n_b : str := [98]%N.
Definition n_x : str := [120]%N.
Definition n_y : str := [121]%N.
Definition n_c : str := [99]%N.
Definition n_d : str := [100]%N.
Definition n_items : str := [105;116;101;109;115]%N.
Definition n_keys : str := [107;101;121;115]%N.
Definition n_get : str := [103;101;116]%N.
Definition n_update : str := [117;112;100;97;116;101]%N.
Definition n_pop : str := [112;111;112]%N.
Definition n_clone : str := [99;108;111;110;101]%N.
Definition n_values : str := [118;97;108;117;101;115]%N.
Definition n_as_dict : str := [97;115;95;100;105;99;116]%N.
Definition mk_ (s : str) : str := ZW :: s.   (* a clash-marked stored name *)
Definition dk (l : list str) : str := match l with [] => [] | x :: r => fold_left join_dot r x end.   (* dotted key *)

Fixpoint val_eqb (fuel : nat) (a b : val) : bool :=
  match fuel with
  | 0 => false
  | S f =>
      match a, b with
      | VInt x, VInt y => Z.eqb x y
      | VStr x, VStr y => str_eqb x y
      | VNone, VNone => true
      | VList x, VList y | VTup x, VTup y => list_eqb (val_eqb f) x y
      | VDict x, VDict y | VNs x, VNs y =>
          list_eqb (fun p q => str_eqb (fst p) (fst q) && val_eqb f (snd p) (snd q)) x y
      | _, _ => false
      end
  end.

Definition veq := val_eqb 60.

Definition out_eqb (a b : out) : bool :=
  match a, b with
  | OutUnit, OutUnit | OutFail, OutFail => true
  | OutVal x, OutVal y => veq x y
  | OutBool x, OutBool y => Bool.eqb x y
  | OutItems x, OutItems y => list_eqb (fun p q => str_eqb (fst p) (fst q) && veq (snd p) (snd q)) x y
  | _, _ => false
  end.

Fixpoint all2 {A B} (f : A -> B -> bool) (a : list A) (b : list B) : bool :=
  match a, b with
  | [], [] => true
  | x :: a', y :: b' => f x y && all2 f a' b'
  | _, _ => false
  end.

(* The observed __dict__ tree after a step is given as None when it is the same tree as before the step
   (the history starts from the empty Namespace): read-only and failing steps need not repeat it. *)
Fixpoint expand_obs (prev : alist) (l : list (out * option alist)) : list (out * alist) :=
  match l with
  | [] => []
  | (o, None) :: r => (o, prev) :: expand_obs prev r
  | (o, Some st) :: r => (o, st) :: expand_obs st r
  end.

Record case := { c_ops : list op; c_steps : list (out * option alist) }.
Definition c_obs (c : case) : list (out * alist) := expand_obs [] (c_steps c).

Definition agree_model (c : case) : bool :=
  list_eqb (fun (m o : out * alist) => out_eqb (fst m) (fst o) && veq (VNs (snd m)) (VNs (snd o)))
           (fst (run_model clash_names [] (c_ops c))) (c_obs c).

Definition agree_spec (c : case) : bool :=
  all2 (fun (s : out * sdict) (o : out * alist) =>
              out_eqb (fst s) (unmark_out (fst o))
              && veq (node_val (Branch (snd s))) (unmark_val (VNs (snd o))))
           (run_spec [] (c_ops c)) (c_obs c).

(* v_class is hist_class, the very function whose value 0 is the hypothesis of
   Properties/C11.v:ns_refines_dict:
     0 = inside the theorem;
     1 = some addressed path met a dict-valued leaf (known finding path-through-dict);
     2 = ill-formed key or value (never generated: would be reported if the spec disagrees);
     3 = history uses update(namespace) / as_dict / Namespace(dict), which the theorem does not cover
         (model- and spec-agreement are still demanded of every such case).
   A finding class only explains an observation that the faithful model reproduces: a class-1 history on which the
   implementation does something ELSE than the modelled defect gets class 9, which is not a listed finding (a spec
   failure there is reported, not absorbed; with the repaired code the spec holds there and nothing is reported). *)
Definition judge1 (c : case) : verdict :=
  let k := hist_class clash_names (c_ops c) in
  {| v_model := agree_model c;
     v_class := if N.eqb k 1 && negb (agree_model c) then 9%N else k;
     v_spec := agree_spec c |}.

Definition judge (cs : list case) := judge_all judge1 cs.

(* ---- the CURRENT code (fixes/C11-path-through-dict.patch applied as b856eae) ---------------------------------
   JUDGE = "judge_fixed" in tie/props/c11.py. Model agreement is judged against the model of the patched code
   (Model/C11NsFixed.v); v_class is hist_class_fx, the very function whose value 0 is the hypothesis of
   Properties/C11.v:ns_refines_dict:
     0 = inside the theorem (histories through dict-valued leaves included: there is no class 1 any more);
     2 = ill-formed key or value (never generated: would be reported if the spec disagrees);
     3 = history uses update(namespace) / Namespace(dict) / dict_to_namespace / == / step-by-step get, which the
         theorem does not cover as history steps (model- and spec-agreement are still demanded of every such case).
   `judge` above is the judge for the code before the repair and is kept for regression runs against old trees. *)
Definition agree_model_fixed (c : case) : bool :=
  list_eqb (fun (m o : out * alist) => out_eqb (fst m) (fst o) && veq (VNs (snd m)) (VNs (snd o)))
           (run_fixed clash_names [] (c_ops c)) (c_obs c).

Definition judge1_fixed (c : case) : verdict :=
  {| v_model := agree_model_fixed c;
     v_class := hist_class_fx clash_names (c_ops c);
     v_spec := agree_spec c |}.

Definition judge_fixed (cs : list case) := judge_all judge1_fixed cs.

(* does the model of the patched code answer a history exactly as the nested dictionary (used by the
   kernel-evaluated product theorem of Properties/C11.v) *)
Definition fixed_refines_b (clash : list str) (ops : list op) : bool :=
  all2 (fun (s : out * sdict) (m : out * alist) =>
          out_eqb (fst s) (unmark_out (fst m))
          && veq (node_val (Branch (snd s))) (unmark_val (VNs (snd m))))
       (run_spec [] ops) (run_fixed clash [] ops).

(* Correspondence judge for C09.  One case = (declarations, history prefix, next call) together with
   what the runner saw: the abstraction of the real carried state before and after the call, the answer
   of the call on the re-used parser and the answer of the same call on a fresh parser in a fresh process. *)
From JV Require Import Lib.Base Model.C09ParserState Spec.C09Spec.

Record obs_state := { os_pending : list pending; os_args : list (list (str * list tok)); os_shtab : list bool;
                      os_ddef : list (option dv);
                      os_pk : option (option bool * bool); os_sap : option label; os_dk : option (bool * bool);
                      os_help_skip : bool; os_unexplained : bool }.

(* c_fx: which of the three repairs the tree under test contains.  The harness determines it by running the three
   refutation witnesses of Properties/C09.v on the implementation (tie/props/c09.py, probe): a repair is taken as
   present exactly when its witness no longer reproduces.  It only selects between the pinned and the repaired
   variant of each of the three code sites; any other behaviour disagrees with both variants. *)
Record case := { c_fx : fixes; c_decls : list decl; c_prefix : list op; c_op : op;
                 c_pre : obs_state; c_post : obs_state;
                 c_reused : answer; c_fresh : answer }.

Definition flags_eqb (a b : flags) : bool :=
  Bool.eqb (f_sn a) (f_sn b) && Bool.eqb (f_sd a) (f_sd b) && Bool.eqb (f_yc a) (f_yc b).
Definition pending_eqb (a b : pending) : bool :=
  match a, b with
  | PNone, PNone => true
  | PFull k f, PFull k' f' => option_eqb str_eqb k k' && flags_eqb f f'
  | PBroken f, PBroken f' => flags_eqb f f'
  | _, _ => false
  end.
Definition tok_eqb (a b : tok) : bool :=
  match a, b with
  | TOpt n v, TOpt n' v' => str_eqb n n' && str_eqb v v'
  | TFlag n, TFlag n' => str_eqb n n'
  | TCfg i, TCfg i' => list_eqb (pair_eqb str_eqb str_eqb) i i'
  | TPos n, TPos n' => str_eqb n n'
  | _, _ => false
  end.
Definition label_eqb (a b : label) : bool :=
  match a, b with
  | LP i s, LP j t => Nat.eqb i j && str_eqb s t
  | LInner, LInner => true
  | _, _ => false
  end.
Definition errk_eqb (a b : errk) : bool :=
  match a, b with
  | EPre, EPre | EStaleKey, EStaleKey | EBroken, EBroken | EPrintFail, EPrintFail | EPost, EPost
  | EHelpArgs, EHelpArgs => true
  | EUnknown a, EUnknown b => str_eqb a b
  | _, _ => false end.
Definition dv_eqb (a b : option dv) : bool := option_eqb (pair_eqb str_eqb str_eqb) a b.
Definition out_eqb (a b : out) : bool :=
  match a, b with
  | OOk x d kw, OOk y d' kw' =>
      Bool.eqb x y && dv_eqb d d' && option_eqb (pair_eqb (option_eqb Bool.eqb) Bool.eqb) kw kw'
  | OErr x, OErr y => errk_eqb x y
  | OExc, OExc => true
  | OExit2, OExit2 => true
  | OHelp x, OHelp y => str_eqb x y
  | OHelpCls x, OHelpCls y => Bool.eqb x y
  | OPrint k f n d, OPrint k' f' n' d' =>
      option_eqb str_eqb k k' && flags_eqb f f' && Bool.eqb n n' && dv_eqb d d'
  | _, _ => false
  end.
Definition kind_of (o : out) : N :=
  match o with
  | OOk _ _ _ => 0 | OErr _ => 1 | OExc => 2 | OExit2 => 4 | OHelp _ | OHelpCls _ | OPrint _ _ _ _ => 3
  end%N.

Definition args_agree (keys : list str) (m o : list (str * list tok)) : bool :=
  forallb (fun k => option_eqb (list_eqb tok_eqb) (alookup k m) (alookup k o)) keys.

Fixpoint args_all (l : list (decl * pstate)) (o : list (list (str * list tok))) : bool :=
  match l, o with
  | [], [] => true
  | (d, p) :: l', oa :: o' => args_agree ([] :: map fst (d_subs d)) (ps_args p) oa && args_all l' o'
  | _, _ => false
  end.

Definition state_agrees (Ds : list decl) (s : state) (o : obs_state) : bool :=
  negb (os_unexplained o) &&
  list_eqb pending_eqb (map ps_pending (st_ps s)) (os_pending o) &&
  list_eqb Bool.eqb (map ps_shtab (st_ps s)) (os_shtab o) &&
  list_eqb dv_eqb (map ps_ddef (st_ps s)) (os_ddef o) &&
  args_all (combine Ds (st_ps s)) (os_args o) &&
  option_eqb (pair_eqb (option_eqb Bool.eqb) Bool.eqb) (st_pk s) (os_pk o) &&
  option_eqb label_eqb (st_sap s) (os_sap o) &&
  option_eqb (pair_eqb Bool.eqb Bool.eqb) (st_dk s) (os_dk o) &&
  Bool.eqb (st_help_skip s) (os_help_skip o).

Definition judge1 (c : case) : verdict :=
  let Ds := c_decls c in
  let s0 := init (length Ds) in
  let fx := c_fx c in
  let s := run fx Ds s0 (c_prefix c) in
  let '(s', o) := step fx Ds s (c_op c) in
  let o_fresh := snd (step fx Ds s0 (c_op c)) in
  let same := same_answer (c_reused c) (c_fresh c) in
  {| v_model := state_agrees Ds s (c_pre c) && state_agrees Ds s' (c_post c)
                && N.eqb (kind_of o) (fst (c_reused c)) && N.eqb (kind_of o_fresh) (fst (c_fresh c))
                && Bool.eqb (out_eqb o o_fresh) same;
     v_class := guard_class fx s (c_op c);
     v_spec := same |}.

Definition judge (cs : list case) := judge_all judge1 cs.

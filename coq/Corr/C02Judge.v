(* Correspondence judge for C02. A case: a type hint, one input (a str is command-line / config
   text, anything else a Python object), what yaml_load answered for the strings involved, the
   observed outcome of the real parser, and — for the compositional half — the observed acceptance
   of each element under the element type / of the same input under each Union member, and of the
   same input under every permutation of the Union. *)
From JV Require Import Lib.Base Model.TyVal Model.Scalar Model.Ty Spec.Conforms Spec.ConformsRx Model.TyLoader.

Record case := {
  c_ty : ty; c_in : val; c_oracle : list (str * lres); c_obs : obs;
  c_parts : option (list bool);
  c_perms : list bool }.

Definition sound (c : case) : bool :=
  match c_obs c with Accepted w => conforms (c_ty c) w | Rejected => true | Crashed => false end.

Definition never_rejects_shaped (c : case) : bool :=
  match c_in c with
  | VStr _ => true          (* text is judged through the channels of C05 *)
  | v => if shaped (c_ty c) v then is_accepted (c_obs c) else true
  end.

Definition compositional (c : case) : bool :=
  let acc := is_accepted (c_obs c) in
  forallb (Bool.eqb acc) (c_perms c) &&
  match c_parts c with
  | None => true
  | Some ps =>
      match c_ty c, c_in c with
      | TUnion _, _ => Bool.eqb acc (existsb (fun b => b) ps)
      | TTuple ts, VTuple l | TTuple ts, VList l =>
          Bool.eqb acc (Nat.eqb (length l) (length ts) && forallb (fun b => b) ps)
      | (TList _ | TTupleVar _ | TSet _ | TDict _ _), _ => Bool.eqb acc (forallb (fun b => b) ps)
      | _, _ => true
      end
  end.

Definition spec_ok (c : case) : bool := sound c && never_rejects_shaped c && compositional c.

(* finding classes: the only way the observation fails soundness is a Literal matched by == (1),
   an unchecked Dict key (2), or both (3) *)
Definition class_of (c : case) : N :=
  match c_obs c with
  | Accepted w =>
      if conforms (c_ty c) w then 0
      else if conforms_rx true false (c_ty c) w then 1
      else if conforms_rx false true (c_ty c) w then 2
      else if conforms_rx true true (c_ty c) w then 3
      else 0
  | _ => 0
  end%N.

Definition judge1 (c : case) : verdict :=
  {| v_model := obs_eqb (obs_of (parse_key (case_yload (c_oracle c)) (c_ty c) (c_in c))) (c_obs c)
                && oracle_consistent (c_oracle c);
     v_class := class_of c;
     v_spec := spec_ok c |}.

Definition judge (cs : list case) := judge_all judge1 cs.

(* Correspondence judge for C02. A case: a type hint, one input (a str is command-line / config text, anything else a
   Python object), what yaml_load answered for the strings involved, the observed outcome of the real parser, and —
   for the compositional half — side observations (type, input, accepted?): each element under the element type / the
   same input under each Union member (c_parts), and the same input under variants of the type with the members of one
   Union permuted (c_perms). *)
From JV Require Import Lib.Base Model.TyVal Model.Scalar Model.Ty Model.C02TyMut Model.C02Ext Spec.Conforms Spec.ConformsRx Spec.C02Defs
  Model.TyLoader Spec.C02Guard Spec.C02Group.

Record sub := { s_ty : ty; s_in : val; s_acc : bool }.

Record tycase := {
  c_ty : ty; c_in : val; c_oracle : list (str * lres); c_obs : obs;
  c_parts : option (list sub);
  c_perms : list sub }.

(* ---- the property, judged on the observations alone ------------------------------------------------------------ *)
Definition sound (c : tycase) : bool :=
  match c_obs c with Accepted w => conforms (c_ty c) w | Rejected => true | Crashed => false end.

(* command-line / config TEXT is of the right shape when what YAML reads it as is (not a str: a str stays the text itself;
   blank text and '-' stay text for the parser). `text_shaped` (Spec/C02Defs.v) is the premise of
   C02_text_of_right_shape_accepted (Properties/C02.v): inside the guard the model accepts such a text *)
Definition text_right_shape (c : tycase) : bool :=
  match c_in c with
  | VStr s => text_shaped (case_yload (c_oracle c)) (c_ty c) s
  | _ => false
  end.

Definition never_rejects_shaped (c : tycase) : bool :=
  if wf_ty (c_ty c) && (shaped (c_ty c) (c_in c) || text_right_shape c) then is_accepted (c_obs c) else true.

Definition compositional (c : tycase) : bool :=
  let yl := case_yload (c_oracle c) in
  let acc := is_accepted (c_obs c) in
  forallb (fun s => Bool.eqb acc (s_acc s)) (c_perms c) &&
  match c_parts c with
  | None => true
  | Some ps =>
      if negb (forallb (fun s => comparable yl (s_in s)) ps) then true
      else
      match c_ty c, c_in c with
      | TUnion _, _ => Bool.eqb acc (existsb s_acc ps)
      | TTuple ts, (VTuple l | VList l | VSet l) =>
          Bool.eqb acc (Nat.eqb (length l) (length ts) && forallb s_acc ps)
      | TDict false _, VDict d => Bool.eqb acc (forallb (fun kv => is_str (fst kv)) d && forallb s_acc ps)
      | TDict true _, VDict d =>      (* keys are cast with int(): int keys must do, others may *)
          (if acc then forallb s_acc ps else true)
          && (if forallb (fun kv => match fst kv with VInt _ => true | _ => false end) d && forallb s_acc ps then acc else true)
      | (TList _ | TTupleVar _ | TSet _), _ => Bool.eqb acc (forallb s_acc ps)
      | _, _ => true
      end
  end.

Definition spec_ok (c : tycase) : bool := sound c && never_rejects_shaped c && compositional c.

Definition impl_obs (yl : str -> lres) (t : ty) (v : val) : obs :=
  if decl_crash t then Crashed else obs_of (impl yl t v).

(* ---- the tie: the model of the pinned tree reproduces every observation of the case ----------------------------- *)
Definition model_ok (c : tycase) : bool :=
  let yl := case_yload (c_oracle c) in
  obs_eqb (impl_obs yl (c_ty c) (c_in c)) (c_obs c)
  && forallb (fun s => Bool.eqb (is_accepted (impl_obs yl (s_ty s) (s_in s))) (s_acc s))
             (c_perms c ++ match c_parts c with Some ps => ps | None => [] end)
  && oracle_consistent (c_oracle c).

(* ---- the guard: the same function the theorems of Properties/C02.v assume to be 0 -------------------------------- *)
Definition class_of (c : tycase) : N :=
  let yl := case_yload (c_oracle c) in
  first_class (class_in yl (c_ty c) (c_in c)
               :: map (fun s => class_in yl (s_ty s) (s_in s))
                      (c_perms c ++ match c_parts c with Some ps => ps | None => [] end)).

(* ---- cases with a declared default and/or registered / restricted Union members (Model/C02Ext.v) ------------------- *)
Record xcase := {
  x_ms : list member;                 (* one member: the hint itself; several: Union[members] in this order *)
  x_dflt : option val;                (* add_argument(default=...) — assumed to conform *)
  x_in : val; x_oracle : list (str * lres);
  x_opq : opq_table;                  (* observed adapt_typehints(value, opaque hint): AOk w, AErr ErrValue / ErrType *)
  x_pred : list (str * str * bool);   (* (restricted type, text, does the DECLARED predicate hold: the compiled pattern with its
                                         flags for a restricted string, the declared comparisons for a restricted number given
                                         as the decimal text of the number) — evaluated in the harness process (Python re /
                                         arithmetic), independently of /repo *)
  x_tdopt : list (str * str);         (* (TypedDict class, field) for the fields declared NotRequired *)
  x_obs : obs;
  x_parts : list bool;                (* the same input under each member alone (no default) *)
  x_perms : list (list nat * bool) }. (* the same input under Union[members permuted] *)

Definition proxy (m : member) : member := match m with MTy TNone => MTy (TLit [LNone]) | _ => m end.

Fixpoint pred_lookup (tbl : list (str * str * bool)) (n s : str) : option bool :=
  match tbl with
  | [] => None
  | (n', s', b) :: tbl' => if str_eqb n n' && str_eqb s s' then Some b else pred_lookup tbl' n s
  end.
Definition has_pred (tbl : list (str * str * bool)) (n : str) : bool := existsb (fun e => str_eqb n (fst (fst e))) tbl.

(* a TypedDict value: a dict with exactly the declared keys, every value conforming to its field *)
Definition td_opt (tdo : list (str * str)) (n : str) : list str :=
  map snd (filter (fun p => str_eqb (fst p) n) tdo).

Definition conforms_td (strict : bool) (fs : list (str * ty)) (opt : list str) (w : val) : bool :=
  match w with
  | VNone => negb strict
  | VDict d =>
      forallb (fun kv => match fst kv with
                         | VStr k => match field_ty k fs with
                                     | Some t => if strict then wf_ty t && shaped t (snd kv) else conforms t (snd kv)
                                     | None => false
                                     end
                         | _ => false
                         end) d
      && forallb (fun f => mem_str (fst f) opt
                           || existsb (fun kv => match fst kv with VStr k => str_eqb k (fst f) | _ => false end) d) fs
  | _ => false
  end.

Definition conforms_m (pr : list (str * str * bool)) (tdo : list (str * str)) (m : member) (w : val) : bool :=
  match m with
  | MTy t => conforms t w
  | MOpq n => match w with
              | VOpaque k s => str_eqb k n && match pred_lookup pr n s with Some b => b | None => negb (has_pred pr n) end
              | VNone => true
              | _ => false
              end
  | MTd n fs => conforms_td false fs (td_opt tdo n) w
  end.
Definition shaped_m (pr : list (str * str * bool)) (tdo : list (str * str)) (m : member) (v : val) : bool :=
  match m with
  | MTy t => wf_ty t && shaped t v
  | MOpq n => match v with
              | VOpaque k _ => str_eqb k n
              | VStr s => match pred_lookup pr n s with Some b => b | None => false end   (* the declared predicate holds *)
              | VInt z => match pred_lookup pr n (str_of_Z z) with Some b => b | None => false end  (* restricted number *)
              | _ => false
              end
  | MTd n fs => conforms_td true fs (td_opt tdo n) v
  end.

Definition impl_xd (c : xcase) (d : option val) (ms : list member) : obs :=
  obs_of (parse_key_x pinned (case_yload (x_oracle c)) (x_opq c) d ms (x_in c)).
Definition impl_x (c : xcase) (ms : list member) : obs := impl_xd c (x_dflt c) ms.

Definition permute (ms : list member) (idx : list nat) : list member := map (fun i => nth i ms (MTy TAny)) idx.

Definition x_spec (c : xcase) : bool :=
  let acc := is_accepted (x_obs c) in
  match x_obs c with Accepted w => existsb (fun m => conforms_m (x_pred c) (x_tdopt c) m w) (x_ms c) | Rejected => true | Crashed => false end
  && (if existsb (fun m => shaped_m (x_pred c) (x_tdopt c) m (x_in c)) (x_ms c) then acc else true)
  && forallb (fun p => Bool.eqb acc (snd p)) (x_perms c)
  && match x_ms c, x_in c with
     | _, VNone => true                                     (* None for a key means "unset" *)
     | _ :: _ :: _, _ => Bool.eqb acc (existsb (fun b => b) (x_parts c))
     | _, _ => true
     end.

Definition x_model (c : xcase) : bool :=
  obs_eqb (impl_x c (x_ms c)) (x_obs c)
  && match x_ms c with      (* each member alone is observed WITHOUT the default (it need not conform to the member) *)
     | _ :: _ :: _ => list_eqb Bool.eqb (map (fun m => is_accepted (impl_xd c None [proxy m])) (x_ms c)) (x_parts c)
     | _ => true
     end
  && forallb (fun p => Bool.eqb (is_accepted (impl_x c (permute (x_ms c) (fst p)))) (snd p)) (x_perms c)
  && oracle_consistent (x_oracle c).

Definition x_class (c : xcase) : N :=
  first_class (map (fun m => match m with MTy t => class_in (case_yload (x_oracle c)) t (x_in c) | _ => 0%N end) (x_ms c)).

(* the second kind of case: parse_object({'g': value}) on a parser with keys g.<field> *)
Inductive case :=
| TyCase (c : tycase)
| GroupCase (fields : list (str * ty)) (v : val) (o : obs)
| XCase (c : xcase)
(* parse_args(['--k.<key>=<text>']) on a key of type Dict[str|int, t] (Model/C02Ext.v parse_key_nested) *)
| NestedCase (int_keys : bool) (t : ty) (key text : str) (oracle : list (str * lres)) (o : obs).

(* the nested channel: what is accepted is a dict of the declared shape; a text that has the item type's shape itself (a str
   item type takes every text) or that YAML reads as a non-str value of that shape, under a key of the declared kind, is accepted *)
Definition nested_spec (ik : bool) (t : ty) (key s : str) (orc : list (str * lres)) (o : obs) : bool :=
  let yl := case_yload orc in
  let key_ok := if ik then match signed_int (strip key) with Some _ => true | None => false end else true in
  match o with Accepted w => conforms (TDict ik t) w | Rejected => true | Crashed => false end
  && (if key_ok && wf_ty t
         && (shaped t (VStr s)          (* the text itself has the item type's shape (str, Literal of that text, ...) *)
             || text_right_shape {| c_ty := t; c_in := VStr s; c_oracle := orc; c_obs := o; c_parts := None; c_perms := [] |})
      then is_accepted o else true).

Definition judge1 (c : case) : verdict :=
  match c with
  | TyCase c => {| v_model := model_ok c; v_class := class_of c; v_spec := spec_ok c |}
  | GroupCase fs v o =>
      let yl := case_yload [] in
      {| v_model := obs_eqb (obs_of (group_parse yl fs v)) o;
         v_class := group_class yl fs v;
         v_spec := match o with Accepted w => group_conforms fs w | Rejected => true | Crashed => false end |}
  | XCase c => {| v_model := x_model c; v_class := x_class c; v_spec := x_spec c |}
  | NestedCase ik t key s orc o =>
      let yl := case_yload orc in
      {| v_model := obs_eqb (obs_of (parse_key_nested pinned yl ik t key s)) o && oracle_consistent orc;
         v_class := class_in yl (TDict ik t) (VDict [(VStr key, VStr s)]);
         v_spec := nested_spec ik t key s orc o |}
  end.

Definition judge (cs : list case) := judge_all judge1 cs.

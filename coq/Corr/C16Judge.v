(* Correspondence judge for C16.  Two kinds of case:
     GraphCase: an edge list in insertion order plus what the real DirectedGraph answered;
     LinkCase : declarations + links in declaration order plus what the real parser did end to end
                (link_arguments ... parse_object, instantiate_classes): outcome and the global event log. *)
From JV Require Import Lib.Base Model.Graph Spec.GraphSpec Model.LinkOrder Spec.LinkSpec.

Inductive case :=
| GraphCase (c_edges : list edge) (c_obs : topo_out)
| LinkCase (c_decls : list decl) (c_links : list link) (c_obs : outcome * list event)
(* the caller catches the ValueError of a rejected link and goes on adding links; c_rej = numbers of the rejected calls *)
| LinkContCase (c_decls : list decl) (c_links : list link) (c_rej : list nat) (c_obs : outcome * list event).

Definition out_eqb (a b : topo_out) : bool :=
  match a, b with
  | Order x, Order y => list_eqb str_eqb x y
  | Cycle u v, Cycle u' v' => str_eqb u u' && str_eqb v v'
  | _, _ => false
  end.

(* exceptions escaping instantiate_classes are compared by outcome only (the log stops somewhere inside) *)
Definition obs_eqb (m o : outcome * list event) : bool :=
  match fst m, fst o with
  | OOk, OOk => list_eqb event_eqb (snd m) (snd o)
  | OLinkErr j, OLinkErr k => Nat.eqb j k
  | OExc, OExc => true
  | _, _ => false
  end.

(* the harness convention the model relies on: link j targets parameter "l<j>" (one digit) or a whole argument, ids are distinct *)
Definition param_name (j : nat) : str := [108%N; N.of_nat (48 + j)].
Fixpoint nodup_nat (l : list nat) : bool :=
  match l with [] => true | x :: l' => negb (mem_nat x l') && nodup_nat l' end.
Definition wf_links (ls : list link) : bool :=
  nodup_nat (map l_id ls)
  && forallb (fun l => Nat.ltb (l_id l) 10
                       && (whole_target l        (* link(src, "n"): the target is the whole argument n; at most one link per such target *)
                           || str_eqb (last (split_key (l_target l)) []) (param_name (l_id l)))) ls
  && nodup_b (map l_target (filter whole_target ls)).

(* v_class = Model.LinkOrder.link_class: the very function that guards the theorems of Properties/C16.v *)
Definition judge1_with (fx : fixes) (c : case) : verdict :=
  match c with
  | GraphCase es obs =>
      {| v_model := out_eqb (topo (build es)) obs;
         v_class := 0;
         v_spec := spec_ok es obs |}
  | LinkCase ds ls obs =>
      {| v_model := wf_links ls && obs_eqb (run fx ds ls) obs;
         v_class := link_class fx ds ls;
         v_spec := link_spec_ok ds ls obs |}
  | LinkContCase ds ls rej obs =>
      let m := run_cont fx ds ls in
      {| v_model := wf_links ls && list_eqb Nat.eqb (fst m) rej && obs_eqb (snd m) obs;
         (* the guard is evaluated on the links the model accepts: only those are in the parser *)
         v_class := link_class fx ds (fst (add_links_cont fx (components ds) ls));
         v_spec := link_spec_cont_ok ds ls rej obs |}
  end.

(* the pinned tree *)
Definition judge1 := judge1_with nofix.
Definition judge (cs : list case) := judge_all judge1 cs.

(* after the repairs have been applied to the implementation: set JUDGE in tie/props/c16.py to
   "judge_fixed_order"  (fixes/C16-nested-target-order.patch only),
   "judge_fixed_source" (fixes/C16-source-under-group.patch only) or
   "judge_fixed"        (both); the model is then the repaired code and the repaired finding has no class left. *)
Definition judge_fixed_order (cs : list case) := judge_all (judge1_with {| fx_order := true; fx_source := false |}) cs.
Definition judge_fixed_source (cs : list case) := judge_all (judge1_with {| fx_order := false; fx_source := true |}) cs.
Definition judge_fixed (cs : list case) := judge_all (judge1_with allfix) cs.

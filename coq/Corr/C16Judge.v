(* Correspondence judge for C16 (graph half): the case is an edge list in insertion order plus what
   the real DirectedGraph answered. *)
From JV Require Import Lib.Base Model.Graph Spec.GraphSpec.

Record case := { c_edges : list edge; c_obs : topo_out }.

Definition out_eqb (a b : topo_out) : bool :=
  match a, b with
  | Order x, Order y => list_eqb str_eqb x y
  | Cycle u v, Cycle u' v' => str_eqb u u' && str_eqb v v'
  | _, _ => false
  end.

Definition judge1 (c : case) : verdict :=
  {| v_model := out_eqb (topo (build (c_edges c))) (c_obs c);
     v_class := 0;
     v_spec := spec_ok (c_edges c) (c_obs c) |}.

Definition judge (cs : list case) := judge_all judge1 cs.

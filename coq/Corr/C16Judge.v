(* Correspondence judge for C16.  Two kinds of case:
     GraphCase: an edge list in insertion order plus what the real DirectedGraph answered;
     LinkCase : declarations + links in declaration order plus what the real parser did end to end
                (link_arguments ... parse_object, instantiate_classes): outcome and the global event log. *)
From JV Require Import Lib.Base Model.Graph Spec.GraphSpec Model.LinkOrder Spec.LinkSpec.

Inductive case :=
| GraphCase (c_edges : list edge) (c_obs : topo_out)
| LinkCase (c_decls : list decl) (c_links : list link) (c_obs : outcome * list event).

Definition out_eqb (a b : topo_out) : bool :=
  match a, b with
  | Order x, Order y => list_eqb str_eqb x y
  | Cycle u v, Cycle u' v' => str_eqb u u' && str_eqb v v'
  | _, _ => false
  end.

(* exceptions escaping instantiate_classes are compared by outcome only (the log stops somewhere inside) *)
Definition obs_eqb (m o : outcome * list event) : bool :=
  match fst m, fst o with
  | OOk, OOk => list_eqb event_eqb (snd m) (snd o)
  | OLinkErr j, OLinkErr k => Nat.eqb j k
  | OExc, OExc => true
  | _, _ => false
  end.

(* the harness convention the model relies on: link j targets parameter "l<j>" (one digit), ids are distinct *)
Definition param_name (j : nat) : str := [108%N; N.of_nat (48 + j)].
Fixpoint nodup_nat (l : list nat) : bool :=
  match l with [] => true | x :: l' => negb (mem_nat x l') && nodup_nat l' end.
Definition wf_links (ls : list link) : bool :=
  nodup_nat (map l_id ls)
  && forallb (fun l => Nat.ltb (l_id l) 10 && str_eqb (last (split_key (l_target l)) []) (param_name (l_id l))) ls.

(* class 0 = inside the guards of the C16 link theorems;
   class 1 = a component that is only a source of links encloses the target of another link (finding nested-target-order);
   class 2 = a source nested in a class group feeds a target outside the group (finding source-under-group) *)
Definition link_class (ds : list decl) (ls : list link) : N :=
  if negb (enclosing_ok_all (components ds) ls) then 1%N
  else if group_nested_source (components ds) ls then 2%N
  else 0%N.

Definition judge1 (c : case) : verdict :=
  match c with
  | GraphCase es obs =>
      {| v_model := out_eqb (topo (build es)) obs;
         v_class := 0;
         v_spec := spec_ok es obs |}
  | LinkCase ds ls obs =>
      {| v_model := wf_links ls && obs_eqb (run ds ls) obs;
         v_class := link_class ds ls;
         v_spec := link_spec_ok ds ls obs |}
  end.

Definition judge (cs : list case) := judge_all judge1 cs.

(* Correspondence judge for C18: one call of the real ArgumentParser.save in a scratch directory.
   The case carries the model input (flags, directory before, oracle answers measured on the real
   validate / serialiser, sub-files in declaration order) and the observation (result kind,
   directory after, whether parsing the saved path gave the configuration back). *)
From JV Require Import Lib.Base Model.SaveFS Spec.SaveFSSpec.

Inductive okind := KOk | KPath | KRefuse | KFail.

Definition okind_eqb (a b : okind) : bool :=
  match a, b with
  | KOk, KOk | KPath, KPath | KRefuse, KRefuse | KFail, KFail => true
  | _, _ => false
  end.

Definition kind_of (e : option err) : okind :=
  match e with
  | None => KOk
  | Some EPath => KPath
  | Some ERefuse => KRefuse
  | Some _ => KFail
  end.

Record case := { c_in : input; c_res : okind; c_fs : fs; c_reparse : bool }.

Definition targets (i : input) : list name :=
  i_main i :: (if i_multifile i then map s_name (i_subs i) else []).

Definition model_agrees (c : case) : bool :=
  let i := c_in c in
  let r := save i in
  let failed_obs := negb (okind_eqb (c_res c) KOk) in
  okind_eqb (kind_of (snd r)) (c_res c)
  && fs_same (fst r) (c_fs c)
  && (if failed_obs || negb (i_valid i) then true
      else Bool.eqb (reparse_ok i (fst r)) (c_reparse c)).

(* A finding class only explains an observation that the faithful model reproduces: a case outside
   the guard on which the implementation does something ELSE than the modelled defect gets class 9,
   which is not a listed finding (so a spec failure there is reported, not absorbed). *)
Definition judge1 (c : case) : verdict :=
  let i := c_in c in
  let failed_obs := negb (okind_eqb (c_res c) KOk) in
  let k := classify i in
  {| v_model := model_agrees c;
     v_class := if N.eqb k 0 || model_agrees c then k else 9%N;
     (* an invalid configuration saved on request (skip_validation) cannot be expected to parse *)
     v_spec := spec_ok (i_overwrite i) (targets i) (i_fs i) (c_fs c) failed_obs
                       (c_reparse c || negb (i_valid i)) |}.

Definition judge (cs : list case) := judge_all judge1 cs.

(* ---- after fixes/C18-render-before-write.patch has been applied --------------------------------
   Set JUDGE = "judge_fixed" in tie/props/c18.py: the model is then the repaired order (save_fixed),
   there is no finding class left and the guard is trivial (Properties/C18.v: C18_fixed_... theorems). *)
Definition model_fixed_agrees (c : case) : bool :=
  let i := c_in c in
  let r := save_fixed i in
  let failed_obs := negb (okind_eqb (c_res c) KOk) in
  okind_eqb (kind_of (snd r)) (c_res c)
  && fs_same (fst r) (c_fs c)
  && (if failed_obs || negb (i_valid i) then true
      else Bool.eqb (reparse_ok i (fst r)) (c_reparse c)).

Definition judge1_fixed (c : case) : verdict :=
  let i := c_in c in
  let failed_obs := negb (okind_eqb (c_res c) KOk) in
  {| v_model := model_fixed_agrees c;
     v_class := 0;
     v_spec := spec_ok (i_overwrite i) (targets i) (i_fs i) (c_fs c) failed_obs
                       (c_reparse c || negb (i_valid i)) |}.

Definition judge_fixed (cs : list case) := judge_all judge1_fixed cs.

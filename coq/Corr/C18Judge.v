(* Correspondence judge for C18: one call of the real ArgumentParser.save in a scratch directory.
   The case carries the model input (flags, directory before, oracle answers measured on the real
   validate / serialiser, sub-files in declaration order) and the observation (result kind,
   directory after, whether parsing the saved path gave the configuration back).

   The model is save_impl (Model/SaveFS.v): save_fixed (check and render everything, then write) when the target is
   a local path in any spelling, save_fsspec (the fsspec branch: no overwrite check, file opened before dump) when
   it is an fsspec URL.  Class 0 = local target with alias_clash = false; class 1 = collision-with-main-unnormalised-
   path (fixed in /repo, vacuous under judge_fixed); class 2 = fsspec target (open finding fsspec-target-unprotected).
   Proofs/C18JudgeProofs.v proves  v_class (judge1 c) = 0 -> v_model (judge1 c) = true -> v_spec (judge1 c) = true
   for judge1, judge1_fixed and judge1_fsfixed (for the last one every case has class 0). *)
From JV Require Import Lib.Base Model.SaveFS Spec.SaveFSSpec.

Inductive okind := KOk | KPath | KRefuse | KFail.

Definition okind_eqb (a b : okind) : bool :=
  match a, b with
  | KOk, KOk | KPath, KPath | KRefuse, KRefuse | KFail, KFail => true
  | _, _ => false
  end.

Definition kind_of (e : option err) : okind :=
  match e with
  | None => KOk
  | Some EPath => KPath
  | Some ERefuse => KRefuse
  | Some _ => KFail
  end.

Record case := { c_kind : tkind;   (* how save resolves the target: Path(path,"fc") or an fsspec URL (Model/SaveFS.v) *)
                 c_in : input; c_res : okind; c_fs : fs; c_reparse : bool }.

Definition failed_obs (c : case) : bool := negb (okind_eqb (c_res c) KOk).

(* the model result r reproduces the observation: same kind of result, same directory afterwards, and (for a
   successful save of a valid configuration) the same answer to "does it parse back" *)
Definition model_agrees_of (r : fs * option err) (c : case) : bool :=
  let i := c_in c in
  okind_eqb (kind_of (snd r)) (c_res c)
  && fs_same (fst r) (c_fs c)
  && (if failed_obs c || negb (i_valid i) then true
      else Bool.eqb (reparse_ok i (fst r)) (c_reparse c)).

(* what the property demands of the observation alone (the model is not consulted);
   an invalid configuration saved on request (skip_validation) cannot be expected to parse back *)
Definition spec_holds (c : case) : bool :=
  let i := c_in c in
  spec_ok (i_overwrite i) (targets i) (i_fs i) (c_fs c) (failed_obs c) (c_reparse c || negb (i_valid i)).

(* A finding class only explains an observation that the faithful model reproduces: a case outside
   the guard on which the implementation does something ELSE than the modelled defect gets class 9,
   which is not a listed finding (so a spec failure there is reported, not absorbed). *)
Definition judge1_with (sv : tkind -> input -> fs * option err) (cls : tkind -> input -> N) (c : case) : verdict :=
  let k := cls (c_kind c) (c_in c) in
  let m := model_agrees_of (sv (c_kind c) (c_in c)) c in
  {| v_model := m;
     v_class := if N.eqb k 0 || m then k else 9%N;
     v_spec := spec_holds c |}.

(* the current tree: save_fixed for local targets, save_fsspec for fsspec URLs (class 2 = open finding
   fsspec-target-unprotected; class 1 = collision-with-main-unnormalised-path, vacuous since 7d8f87e) *)
Definition model_agrees (c : case) : bool := model_agrees_of (save_impl (c_kind c) (c_in c)) c.
Definition judge1 (c : case) : verdict := judge1_with save_impl classify_call c.

Definition judge (cs : list case) := judge_all judge1 cs.

(* ---- after fixes/C18-collision-realpath.patch has been applied ----------------------------------
   Set JUDGE = "judge_fixed" and FINDING_CLASSES = {} in tie/props/c18.py: paths are then compared after
   resolving links, the form of the target path no longer matters (i_alias := false), the guard is
   trivially true and no finding class is left. *)
Definition unalias (c : case) : case :=
  {| c_kind := c_kind c; c_in := no_alias (c_in c); c_res := c_res c; c_fs := c_fs c; c_reparse := c_reparse c |}.

Definition judge1_fixed (c : case) : verdict := judge1 (unalias c).

Definition judge_fixed (cs : list case) := judge_all judge1_fixed cs.

(* ---- after fixes/C18-fsspec-target.patch has been applied as well -------------------------------------
   Set JUDGE = "judge_fsfixed" and FINDING_CLASSES = {}: the fsspec branch then checks, renders and only
   then writes (save_fsspec_fixed); no finding class is left, every case is inside the proved guard. *)
Definition judge1_fsfixed (c : case) : verdict :=
  judge1_with save_impl_fixed (fun _ i => classify i) (unalias c).

Definition judge_fsfixed (cs : list case) := judge_all judge1_fsfixed cs.

(* Correspondence judge for C18: one call of the real ArgumentParser.save in a scratch directory.
   The case carries the model input (flags, directory before, oracle answers measured on the real
   validate / serialiser, sub-files in declaration order) and the observation (result kind,
   directory after, whether parsing the saved path gave the configuration back).

   The model is save_fixed (Model/SaveFS.v): check and render everything, then write.  All theorems of
   Properties/C18.v but the read-back ones hold for EVERY input; the read-back ones are guarded by
   alias_clash i = false (class 1 = open finding collision-with-main-unnormalised-path).
   Proofs/C18JudgeProofs.v proves  v_class (judge1 c) = 0 -> v_model (judge1 c) = true -> v_spec (judge1 c) = true. *)
From JV Require Import Lib.Base Model.SaveFS Spec.SaveFSSpec.

Inductive okind := KOk | KPath | KRefuse | KFail.

Definition okind_eqb (a b : okind) : bool :=
  match a, b with
  | KOk, KOk | KPath, KPath | KRefuse, KRefuse | KFail, KFail => true
  | _, _ => false
  end.

Definition kind_of (e : option err) : okind :=
  match e with
  | None => KOk
  | Some EPath => KPath
  | Some ERefuse => KRefuse
  | Some _ => KFail
  end.

Record case := { c_in : input; c_res : okind; c_fs : fs; c_reparse : bool }.

Definition failed_obs (c : case) : bool := negb (okind_eqb (c_res c) KOk).

(* the model reproduces the observation: same kind of result, same directory afterwards, and (for a
   successful save of a valid configuration) the same answer to "does it parse back" *)
Definition model_agrees (c : case) : bool :=
  let i := c_in c in
  let r := save_fixed i in
  okind_eqb (kind_of (snd r)) (c_res c)
  && fs_same (fst r) (c_fs c)
  && (if failed_obs c || negb (i_valid i) then true
      else Bool.eqb (reparse_ok i (fst r)) (c_reparse c)).

(* what the property demands of the observation alone (the model is not consulted);
   an invalid configuration saved on request (skip_validation) cannot be expected to parse back *)
Definition spec_holds (c : case) : bool :=
  let i := c_in c in
  spec_ok (i_overwrite i) (targets i) (i_fs i) (c_fs c) (failed_obs c) (c_reparse c || negb (i_valid i)).

(* A finding class only explains an observation that the faithful model reproduces: a case outside
   the guard on which the implementation does something ELSE than the modelled defect gets class 9,
   which is not a listed finding (so a spec failure there is reported, not absorbed). *)
Definition judge1 (c : case) : verdict :=
  let k := classify (c_in c) in
  {| v_model := model_agrees c;
     v_class := if N.eqb k 0 || model_agrees c then k else 9%N;
     v_spec := spec_holds c |}.

Definition judge (cs : list case) := judge_all judge1 cs.

(* ---- after fixes/C18-collision-realpath.patch has been applied ----------------------------------
   Set JUDGE = "judge_fixed" and FINDING_CLASSES = {} in tie/props/c18.py: paths are then compared after
   resolving links, the form of the target path no longer matters (i_alias := false), the guard is
   trivially true and no finding class is left. *)
Definition unalias (c : case) : case :=
  {| c_in := no_alias (c_in c); c_res := c_res c; c_fs := c_fs c; c_reparse := c_reparse c |}.

Definition judge1_fixed (c : case) : verdict := judge1 (unalias c).

Definition judge_fixed (cs : list case) := judge_all judge1_fixed cs.

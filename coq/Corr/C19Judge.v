(* Correspondence judge for C19. Two kinds of cases:
   CMode — one call Path(given, mode) in working directory cwd with $HOME = home; `f` is what an
           independent os.stat/os.access probe measured for the path; obs is what Path did.
   CCwd  — one load of a tree of config files from working directory cwd0; obs is the list of resolved
           path values (or the failure) and (os.getcwd(), current_path_dir) afterwards. *)
From JV Require Import Lib.Base Gen.C19PathFlags Model.C19PathMode Model.C19Cwd Spec.C19Spec Spec.C19CwdSpec
  Spec.C19Guard.

Inductive mobs := MAccept (rel ab cw : str) | MPathErr | MValErr | MOsErr | MOther.
Inductive cobs := COk (items : list item) | CFail | COsErr | COther.

Inductive case :=
| CMode (mode : str) (f : facts) (home cwd given : str) (obs : mobs)
| CModeNonStr (obs : mobs)      (* Path(p, mode=<not a str>) *)
| CSeq (defaults : bool) (files dirs : list str) (links : list (str * str)) (cwd0 : str) (tops : list (str * dcontent))
       (cwd1 : str) (cpd1 : option str) (obs : cobs)
       (* several config files one after the other: --cfg f1 --cfg f2 ... (defaults = false, every content a DBody)
          or default_config_files = [f1, f2, ...] (defaults = true) *)
| CCwd (files dirs : list str) (links : list (str * str)) (cwd0 top : str) (body : list node) (cwd1 : str) (cpd1 : option str) (obs : cobs).

Definition item_eqb (a b : item) : bool :=
  match a, b with
  | (i, r, c, p), (i', r', c', p') => Nat.eqb i i' && str_eqb r r' && str_eqb c c' && str_eqb p p'
  end.

Definition res_obs_eqb (r : res (list item)) (o : cobs) : bool :=
  match r, o with
  | Ok xs, COk ys => list_eqb item_eqb xs ys
  | Err, CFail => true
  | ErrOs, COsErr => true
  | _, _ => false
  end.

(* `fxs`: which repairs have landed in the tree under test (no_fixes = the pinned tree). A landed repair switches
   the model to the patched lines AND removes the finding class from the guard, so that a recurrence of the defect
   is a violation inside the guard instead of a KNOWN-FINDING. tie/props/c19.py derives fxs from the `fixed:` lines
   of known_findings/C19.txt. *)
Definition judge_mode (fxs : fixes) (mode : str) (f : facts) (home cwd given : str) (obs : mobs) : verdict :=
  let stdio := str_eqb given [45]%N in
  let o := path_init_fx fxs mode given f in
  let so := spec_init mode given f in
  let names := path_names home cwd given in
  let vm := consistent f && is_abs cwd &&
            match obs with
            | MAccept rel ab cw => outcome_eqb o Accept && str_eqb rel (fst names) && str_eqb ab (snd names)
                                   && str_eqb cw cwd          (* `cwd = os.getcwd()` resp. `cwd = path.cwd` *)
            | MPathErr => outcome_eqb o PathErr
            | MValErr => outcome_eqb o ValErr
            | MOsErr => outcome_eqb o OsErr
            | MOther => false
            end in
  let vs := match obs with
            | MAccept rel ab cw => outcome_eqb so Accept && spec_names_ok home cwd given rel ab && str_eqb cw cwd
            | MPathErr => outcome_eqb so PathErr
            | MValErr => outcome_eqb so ValErr
            | MOsErr | MOther => false
            end in
  (* guard = hypothesis of C19_mode_exact; invalid modes, "-" and u/s modes are not in a finding class *)
  let k := if negb (check_mode mode) || stdio || has_nul given || has 117 mode || has 115 mode then 0%N
           else finding_class_fx fxs (flags_of mode) f in
  (* inside a finding class only the listed defect (C19_findings_exact) or the right answer is expected;
     anything else is an unlisted class *)
  let k' := if negb (N.eqb k 0) && negb vm && negb vs then 99%N else k in
  {| v_model := vm; v_class := k'; v_spec := vs |}.

Definition judge_cwd (fxs : fixes) (files dirs : list str) (links : list (str * str)) (cwd0 top : str) (body : list node)
                     (cwd1 : str) (cpd1 : option str) (obs : cobs) : verdict :=
  let s0 := {| cwd := cwd0; cpd := None |} in
  let dir_ok := fun d => mem_str d dirs in     (* os.chdir(d) succeeds: d is one of the (physical) directories *)
  let '(s1, r) := run_top fxs files links dir_ok s0 top body in
  let vm := is_abs cwd0 && str_eqb (cwd s1) cwd1 && option_eqb str_eqb (cpd s1) cpd1 && res_obs_eqb r obs in
  let vs := str_eqb cwd1 cwd0 && option_eqb str_eqb None cpd1
            && res_obs_eqb (spec_top files links cwd0 top body) obs in
  (* guard = hypothesis of C19_relative_follows_config; class 4 = list-file-relative, 5 = chdir-lexical-dotdot *)
  let k := tree_class files links (fx_lf fxs) (fx_rp fxs) dir_ok cwd0 top body in
  let k' := if negb (N.eqb k 0) && negb vm && negb vs then 99%N else k in
  {| v_model := vm; v_class := k'; v_spec := vs |}.

(* sequences: the observation lists the path values sorted by id; the model lists them in merge order *)
Definition id_of (it : item) : nat := let '(i, _, _, _) := it in i.
Fixpoint insert_item (x : item) (l : list item) : list item :=
  match l with
  | [] => [x]
  | y :: l' => if Nat.leb (id_of x) (id_of y) then x :: l else y :: insert_item x l'
  end.
Definition sort_items (l : list item) : list item := fold_right insert_item [] l.
Definition sort_res (r : res (list item)) : res (list item) :=
  match r with Ok xs => Ok (sort_items xs) | e => e end.

Definition judge_seq (fxs : fixes) (defaults : bool) (files dirs : list str) (links : list (str * str)) (cwd0 : str)
                     (tops : list (str * dcontent)) (cwd1 : str) (cpd1 : option str) (obs : cobs) : verdict :=
  let s0 := {| cwd := cwd0; cpd := None |} in
  let dir_ok := fun d => mem_str d dirs in
  let btops := map (fun tc => (fst tc, body_of (snd tc))) tops in
  let '(s1, r) := if defaults then run_defaults fxs files links dir_ok s0 tops
                  else run_cfgs fxs files links dir_ok s0 btops [] in
  let sp := if defaults then spec_defaults files links cwd0 tops else spec_cfgs files links cwd0 btops [] in
  let vm := is_abs cwd0 && str_eqb (cwd s1) cwd1 && option_eqb str_eqb (cpd s1) cpd1 && res_obs_eqb (sort_res r) obs in
  let vs := str_eqb cwd1 cwd0 && option_eqb str_eqb None cpd1 && res_obs_eqb (sort_res sp) obs in
  (* guard = hypothesis of C19_cfg_sequence_follows_config / C19_default_files_follow_config *)
  let k := seq_class files links (fx_lf fxs) (fx_rp fxs) dir_ok cwd0 btops in
  let k' := if negb (N.eqb k 0) && negb vm && negb vs then 99%N else k in
  {| v_model := vm; v_class := k'; v_spec := vs |}.

Definition judge_nonstr (obs : mobs) : verdict :=
  let ok := match obs with MValErr => outcome_eqb path_init_nonstr_mode ValErr | _ => false end in
  {| v_model := ok; v_class := 0; v_spec := match obs with MValErr => true | _ => false end |}.

Definition judge1_fx (fxs : fixes) (c : case) : verdict :=
  match c with
  | CModeNonStr obs => judge_nonstr obs
  | CSeq defaults files dirs links cwd0 tops cwd1 cpd1 obs => judge_seq fxs defaults files dirs links cwd0 tops cwd1 cpd1 obs
  | CMode mode f home cwd given obs => judge_mode fxs mode f home cwd given obs
  | CCwd files dirs links cwd0 top body cwd1 cpd1 obs => judge_cwd fxs files dirs links cwd0 top body cwd1 cpd1 obs
  end.

Definition judge_fx (fxs : fixes) (cs : list case) := judge_all (judge1_fx fxs) cs.

(* the pinned tree *)
Definition judge1 : case -> verdict := judge1_fx no_fixes.
Definition judge (cs : list case) := judge_all judge1 cs.

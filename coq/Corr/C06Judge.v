(* Correspondence judge for C06: a generated parser (declaration tree), the configuration tree handed to
   one of the parse methods, and what the real parser answered (accept / the key its ArgumentError names). *)
From JV Require Import Lib.Base Model.C06Validate Spec.C06Spec.

Inductive cobs :=
| OAccept
| OUnknown (fam : N) (grp : list str) (key : list str)  (* 0 "Key 'k' is not expected"; 1 Group 'g' ... nested key; 2 Subcommand 's' ... *)
| OBadSpec (extra : list str)                           (* "Not a valid subclass ... Got value: {...}": keys beside class_path/init_args *)
| OMissing (key : list str)
| ONoSub (dest : str)
| OOther.

(* c_links: the link_arguments attempts made while the parser was built, each with the OBSERVED outcome (accepted / ValueError) *)
(* c_append: the paths of declared List[...] keys that the channel carried in the append spelling "<key>+" *)
Record case := { c_mode : mode; c_parser : parser; c_links : list lnk; c_cfg : cv; c_append : list (list str); c_obs : cobs }.
Definition c_eff (c : case) : parser := with_links (c_parser c) (c_links c).

Definition keys_eqb := list_eqb str_eqb.

Definition agree (r : res) (o : cobs) : bool :=
  match r, o with
  | Ok, OAccept => true
  | Err (EUnknown _ FKey k), OUnknown 0 _ k' => keys_eqb k k'
  | Err (EUnknown _ (FGroup g) k), OUnknown 1 g' k' => keys_eqb g g' && keys_eqb k k'
  | Err (EUnknown _ (FSub s) k), OUnknown 2 g' k' => keys_eqb [s] g' && keys_eqb k k'
  | Err (EBadSpec _ _ x), OBadSpec x' => keys_eqb x x'
  | Err (EMissing _ ks), OMissing k => existsb (keys_eqb k) ks
  | Err (ENoSub d), ONoSub d' => str_eqb d d'
  | Err (EBadValue _ _), OOther => true
  | _, _ => false
  end.

Definition to_obs (o : cobs) : obs :=
  match o with
  | OAccept => Accepted
  | OUnknown _ _ k => RejUnknown k
  | OBadSpec (x :: _) => RejUnknown [x]
  | OBadSpec [] => RejOther
  | OMissing k => RejMissing k
  | ONoSub d => RejNoSub d
  | OOther => RejOther
  end.

Definition fuel : nat := 24.

(* v_model: the generated parser is well-formed (hypothesis of the required-keys theorem) and the model reproduces the
   observation.
   v_class: guard_class, the guard of C06_accepted_only_if_all_keys_declared / C06_accept_sound (0 = inside).  A case
   outside the guard counts as the listed finding of its class only when the faithful model reproduces what was
   observed; a deviation that neither the model nor the property explains is class 9 (not listed: reported). *)
Definition judge1 (c : case) : verdict :=
  let m := wf_parser (c_parser c) && agree (run_append (c_mode c) fuel (c_eff c) (c_cfg c) (c_append c)) (c_obs c) in
  let s := spec_ok (c_mode c) (c_eff c) (c_cfg c) (to_obs (c_obs c)) in
  let g := guard_class (c_mode c) (c_eff c) (c_cfg c) in
  {| v_model := m;
     v_class := if negb (N.eqb g 0) && negb m && negb s then 9%N else g;
     v_spec := s |}.

Definition judge (cs : list case) := judge_all judge1 cs.

(* Correspondence judge for C15. A case = a generated parser (declarations, classes of the generated module,
   link_arguments calls), one input, and what the real jsonargparse did: which link calls raised ValueError,
   required_args, the configuration at the entry of apply_parsing_links, the parse result, the dump (loaded back),
   and the result of re-parsing the dump. *)
From JV Require Import Lib.Base Lib.C15Val Model.C15Links Model.C15Tree Spec.C15Spec.

(* the compute functions written into the generated module (tie/impl/c15_links.py: FUNCTIONS) *)
Definition all_ints (l : list val) : option (list Z) := mapM (fun v => match v with VInt z => Some z | _ => None end) l.
Definition all_lists (l : list val) : option (list (list val)) := mapM (fun v => match v with VList x => Some x | _ => None end) l.

(* kind of its arguments = "-".join(type(x).__name__ for x in args): tells 1 from True although 1 == True and hash(1) == hash(True).
   Python booleans are encoded as the reserved strings "<true>" / "<false>" (no generated word looks like that). *)
Definition kind_of (v : val) : str :=
  match v with
  | VNone => [78;111;110;101;84;121;112;101]%N                       (* NoneType *)
  | VInt _ => [105;110;116]%N                                        (* int *)
  | VStr s => if is_boolenc s then [98;111;111;108]%N else [115;116;114]%N   (* bool / str *)
  | VList _ => [108;105;115;116]%N                                   (* list *)
  | VMap _ => [78;97;109;101;115;112;97;99;101]%N                    (* Namespace *)
  end.
Fixpoint kind_join (l : list str) : str :=
  match l with
  | [] => []
  | [x] => x
  | x :: l' => x ++ [45%N] ++ kind_join l'
  end.

Definition fn_interp (f : nat) (args : list val) : option val :=
  match f with
  | 0 => option_map (fun zs => VInt (fold_left Z.add zs 0%Z)) (all_ints args)                (* add *)
  | 1 => option_map (fun ls => VList (concat ls)) (all_lists args)                            (* cat *)
  | 2 => Some (VList args)                                                                   (* tup *)
  | 3 => hd_error args                                                                       (* first *)
  | 4 => Some (VStr [122;122]%N)                                                             (* word: "zz" *)
  | 5 => None                                                                                (* boom: raises *)
  | 6 => match args with                                                                     (* gsum: sum of a group's values *)
         | [VMap m] => option_map (fun zs => VInt (fold_left Z.add zs 0%Z)) (all_ints (map snd m))
         | _ => None
         end
  | 7 => match args with [VInt z] => Some (VInt (z + 1)) | _ => None end                     (* inc *)
  | 8 => match args with [VInt z] => Some (VList [VInt z; VInt z]) | _ => None end           (* pair *)
  | 9 => Some (VStr (kind_join (map kind_of args)))                                          (* kind: type-sensitive *)
  | 10 => match args with                                                                    (* dsum(d: dict): gsum on the dict *)
          | [VMap m] => option_map (fun zs => VInt (fold_left Z.add zs 0%Z)) (all_ints (map snd m))   (* the parameter annotation *)
          | [_] => Some (VInt (-1)%Z)                                                        (* makes the code hand over as_dict(); *)
          | _ => None                                                                        (* anything but a dict: -1 *)
          end
  | _ => None
  end.

Inductive pres := POk (c : val) | PLinked | PRejected | PCrash.

(* one level of subcommands: the chosen subcommand, the declarations / link_arguments calls of its parser, its part of
   argv, and what was observed when that parser was built *)
Record subcase := {
  sb_name : str;
  sb_decls : list decl;
  sb_links : list link;
  sb_argv : list item;
  sb_build : list N;
  sb_required : list key }.

Record case := {
  c_classes : list cls;
  c_decls : list decl;
  c_links : list link;
  c_input : input;
  c_full : bool;             (* no class-typed argument: the whole pipeline is modelled *)
  c_aspect : N;              (* 0 = everything but ..., 1 = ... targets inside list items vs the dump *)
  c_fixed : N;               (* which repairs the implementation under test carries (tie/props/c15.py FIXES_APPLIED):
                                bit 0 = fixes/C15-link-key-prefix-overlap.patch (model: build_fixed),
                                bit 1 = fixes/C15-list-item-target-in-dump.patch (model: strip_fixed),
                                bit 2 = fixes/C15-subcommand-env-defaults-stale-target.patch (model: reload_sub true) *)
  c_sub : option subcase;    (* Some: the declarations/links/input above belong to the TOP parser of a parser tree *)
  o_build : list N;
  o_required : list key;
  o_pre : option val;
  o_parse : pres;
  o_dump : option val;
  c_input2 : option input;   (* a SECOND input parsed on the same parser object, after the first parse, after the lists
                                the first parse put at link targets were edited in place, after dump / re-parse / save *)
  o_pre2 : option val;
  o_parse2 : option pres;
  o_save : option val;       (* save(multifile=True): the main file with every nested file it refers to put back in place *)
  o_reparse : option pres;
  o_given : option pres }.   (* the first input was REJECTED (parsers with class-typed arguments): the same input with a value
                                given for every linked init_arg in every class spec whose class takes the parameter *)

Definition res_agrees (r : res val) (o : pres) : bool :=
  match r, o with
  | Ok c, POk c' => val_eqb c c'
  | Err ELinked, PLinked => true
  | Err EOther, PRejected => true
  | _, _ => false
  end.

Definition same_keys (a b : list key) : bool :=
  forallb (fun k => mem_key k b) a && forallb (fun k => mem_key k a) b.

Fixpoint select {A} (l : list A) (v : list N) : list A :=
  match l, v with
  | x :: l', 0%N :: v' => x :: select l' v'
  | _ :: l', _ :: v' => select l' v'
  | _, _ => []
  end.

Definition env_of (x : input) := match x with InArgs e _ => e | InObject e _ => e end.
Definition options_of (x : input) : list key :=
  match x with
  | InArgs _ argv => flat_map (fun it => match it with Opt k _ | OptAlias k _ => [k] | Cfg _ => [] end) argv
  | InObject _ _ => []
  end.

(* parsers with class-typed arguments: the collection phase is not modelled; an input rejected before
   apply_parsing_links was reached (no pre-link configuration observed) is a rejection the model does not dispute *)
Definition parse_obs (classes : list cls) (p : parser) (x : input) (pre : option val) : res val :=
  match pre with
  | None => if uses_linked_option p x then Err ELinked else Err EOther
  | Some _ => parse_from fn_interp classes p x pre
  end.

Definition judge_flat (c : case) : verdict :=
  let '(p, verdicts) := if N.testbit (c_fixed c) 0 then build_fixed (c_decls c) (c_links c)
                         else build (c_decls c) (c_links c) in
  let strip := if N.testbit (c_fixed c) 1 then strip_fixed else strip in
  let accepted := select (c_links c) (o_build c) in
  let sl := map (fun l => {| s_src := l_src l; s_tgt := l_tgt l; s_fn := l_fn l |}) accepted in
  let ckeys := map d_key (filter (fun d => is_class_kind (d_kind d)) (c_decls c)) in
  let x := c_input c in
  let model_parse := if c_full c then parse fn_interp (c_classes c) p x
                     else parse_obs (c_classes c) p x (o_pre c) in
  let m_build := list_eqb N.eqb verdicts (o_build c) && same_keys (p_req p) (o_required c) in
  let m_parse := res_agrees model_parse (o_parse c) in
  let m_pre := if c_full c then
                 match collect p x, o_pre c with
                 | Ok a, Some b => val_eqb a b
                 | Ok _, None => false
                 | Err _, _ => true
                 end
               else true in
  let m_dump := match o_parse c, o_dump c with
                | POk cfg, Some d => val_eqb (strip p cfg) d
                | POk _, None => false
                | _, _ => true
                end in
  (* save(multifile=True) writes what dump writes, spread over the main file and the nested files *)
  let m_save := match o_parse c, o_save c with
                | POk cfg, Some d => val_eqb (strip p cfg) d
                | POk _, None => false
                | _, _ => true
                end in
  let m_reparse := match o_parse c, o_reparse c with
                   | POk cfg, Some r =>
                       if c_full c
                       then res_agrees (parse fn_interp (c_classes c) p (InArgs (env_of x) [Cfg (strip p cfg)])) r
                       else true
                   | POk _, None => false
                   | _, _ => true
                   end in
  (* the parser is a function of (declarations, links, input): what was parsed before on the same object is irrelevant *)
  let m_second := match c_input2 c, o_parse2 c with
                  | Some x2, Some r =>
                      res_agrees (if c_full c then parse fn_interp (c_classes c) p x2
                                  else parse_obs (c_classes c) p x2 (o_pre2 c)) r
                  | Some _, None => false
                  | None, _ => true
                  end in
  let s_second := match o_parse2 c with
                  | Some (POk c2) => invariant fn_interp ckeys sl c2
                  | Some PCrash => false
                  | _ => true
                  end in
  (* the target is not required from the user: when every link is applied the given values are overwritten, so the
     input without them ends in the same configuration and must not have been rejected *)
  let s_given := match o_parse c, o_given c with
                 | PRejected, Some (POk cg) =>
                     negb (forallb (fun l => match mapM (get cg) (s_src l) with Some _ => true | None => false end) sl
                           && invariant fn_interp ckeys sl cg)
                 | _, _ => true
                 end in
  let s_core :=
    s_second && s_given && not_required sl (o_required c)
    && match o_parse c with
       | POk cfg =>
           negb (uses_target_option ckeys sl (options_of x))
           && invariant fn_interp ckeys sl cfg
           && match o_dump c with Some d => dump_clean ckeys false sl cfg d | None => false end
           && match o_save c with Some d => dump_clean ckeys false sl cfg d | None => false end
           && match o_reparse c with
              | Some (POk c2) => invariant fn_interp ckeys sl c2 && reparse_same ckeys sl cfg c2
              | _ => false
              end
       | PLinked | PRejected => true
       | PCrash => false
       end in
  let s_lists :=
    match o_parse c, o_dump c, o_save c with
    | POk cfg, Some d, Some sv => dump_clean ckeys true sl cfg d && dump_clean ckeys true sl cfg sv
    | POk cfg, _, _ => false
    | _, _, _ => true
    end in
  if N.eqb (c_aspect c) 0
  then {| v_model := m_build && m_parse && m_pre && m_dump && m_save && m_reparse && m_second;
          v_class := if negb (overlap_free accepted) then 1
                     else match o_parse c with
                          | POk cfg => if skipped_target_present (p_links p) cfg then 3 else 0
                          | _ => 0
                          end;
          v_spec := s_core |}
  else {| v_model := m_build && m_parse && m_dump && m_save;
          v_class := 2;
          v_spec := s_lists |}.

(* ---------------------------------------------------------------- parser trees (one level of subcommands)
   The collection phase is not modelled for trees: the configuration the top-level apply_parsing_links receives is an
   input of the model, as for parsers with class-typed arguments. Everything is observed through the TOP parser:
   parse, dump, re-parse of the dump. The spec sees one flat link list: the top parser's accepted links and the
   subcommand's accepted links with the subcommand name prefixed to their keys. *)
Definition prefix_link (n : str) (l : link) : link :=
  {| l_src := map (cons n) (l_src l); l_tgt := n :: l_tgt l; l_fn := l_fn l |}.

Definition linked_option (p : parser) (argv : list item) : bool :=
  existsb (fun it => match it with
                     | Opt k _ => match find_act (p_acts p) k with Some (_, true) => true | _ => false end
                     | OptAlias k _ => match find_act (p_acts p) k with Some (d, true) => d_alias d | _ => false end
                     | Cfg _ => false
                     end) argv.

Definition judge_tree (c : case) (sb : subcase) : verdict :=
  let fixed_build := N.testbit (c_fixed c) 0 in
  let '(p, verdicts) := if fixed_build then build_fixed (c_decls c) (c_links c) else build (c_decls c) (c_links c) in
  let '(q, sverdicts) := if fixed_build then build_fixed (sb_decls sb) (sb_links sb) else build (sb_decls sb) (sb_links sb) in
  let strip1 := if N.testbit (c_fixed c) 1 then strip_fixed else strip in
  let n := sb_name sb in
  let x := c_input c in
  let top_argv := match x with InArgs _ a => a | InObject _ _ => [] end in
  let acc_top := select (c_links c) (o_build c) in
  let acc_sub := map (prefix_link n) (select (sb_links sb) (sb_build sb)) in
  let accepted := acc_top ++ acc_sub in
  let sl := map (fun l => {| s_src := l_src l; s_tgt := l_tgt l; s_fn := l_fn l |}) accepted in
  let ckeys := map d_key (filter (fun d => is_class_kind (d_kind d)) (c_decls c))
               ++ map (fun d => n :: d_key d) (filter (fun d => is_class_kind (d_kind d)) (sb_decls sb)) in
  let required := o_required c ++ map (cons n) (sb_required sb) in
  let options := options_of x ++ map (cons n) (flat_map (fun it => match it with Opt k _ | OptAlias k _ => [k] | Cfg _ => [] end) (sb_argv sb)) in
  let model_parse :=
    if linked_option p top_argv || linked_option q (sb_argv sb) then Err ELinked
    else match o_pre c with
         | Some pre => finish_tree fn_interp (c_classes c) p q n pre
         | None => Err EOther                      (* rejected while collecting: not modelled for trees *)
         end in
  let m_build := list_eqb N.eqb verdicts (o_build c) && same_keys (p_req p) (o_required c)
                 && list_eqb N.eqb sverdicts (sb_build sb) && same_keys (p_req q) (sb_required sb) in
  let m_parse := res_agrees model_parse (o_parse c) in
  let m_dump := match o_parse c, o_dump c with
                | POk cfg, Some d => val_eqb (strip_tree strip1 p q n cfg) d
                | POk _, None => false
                | _, _ => true
                end in
  let m_save := match o_parse c, o_save c with
                | POk cfg, Some d => val_eqb (strip_tree strip1 p q n cfg) d
                | POk _, None => false
                | _, _ => true
                end in
  (* partial model of the re-parse of the dump: it predicts the rejection of finding 4 and nothing else *)
  let plain_sub := negb (existsb (fun d => is_class_kind (d_kind d)) (sb_decls sb)) in
  let m_reparse := match o_parse c, o_dump c, o_reparse c with
                   | POk _, Some d, Some r =>
                       match get d [n] with
                       | Some sub =>
                           if plain_sub
                           then match reload_sub fn_interp (N.testbit (c_fixed c) 2) q sub with
                                | Err EOther => match r with PRejected => true | _ => false end
                                | _ => true
                                end
                           else true
                       | None => true
                       end
                   | _, _, _ => true
                   end in
  let s_core :=
    not_required sl required
    && match o_parse c with
       | POk cfg =>
           negb (uses_target_option ckeys sl options)
           && invariant fn_interp ckeys sl cfg
           && match o_dump c with Some d => dump_clean ckeys false sl cfg d | None => false end
           && match o_save c with Some d => dump_clean ckeys false sl cfg d | None => false end
           && match o_reparse c with
              | Some (POk c2) => invariant fn_interp ckeys sl c2 && reparse_same ckeys sl cfg c2
              | _ => false
              end
       | PLinked | PRejected => true
       | PCrash => false
       end in
  {| v_model := m_build && m_parse && m_dump && m_save && m_reparse;
     v_class := if negb (overlap_free (select (c_links c) (o_build c)) && overlap_free (select (sb_links sb) (sb_build sb))) then 1
                else if stale_default_target fn_interp (c_classes c) q then 4
                else match o_parse c with
                     | POk cfg => if skipped_target_present (p_links p) cfg
                                     || match get cfg [n] with Some s => skipped_target_present (p_links q) s | None => false end
                                  then 3 else 0
                     | _ => 0
                     end;
     v_spec := s_core |}.

Definition judge1 (c : case) : verdict :=
  match c_sub c with
  | None => judge_flat c
  | Some sb => judge_tree c sb
  end.

Definition judge (cs : list case) := judge_all judge1 cs.

(* Correspondence judge for C05.  A case: a type hint, one logical setting (a JSON-like value), its top-level
   text (what is typed after --key= / put into the environment variable), whether a component of the key is a
   Namespace clash name, what yaml_load answered for every string involved, and one observation per
   (parser mode, channel): what the real parser stored for the key, or that it rejected / crashed; for document
   channels also what the mode's loader made of the document at that key. *)
From JV Require Import Lib.Base Lib.Regex Model.TyVal Model.Scalar Model.Ty Model.TyLoader Model.C05Channels Model.C05History Model.C05Plain Spec.C05Spec Spec.C02Guard.

Record ob := {
  o_yaml : bool;                 (* parser_mode = yaml: the observation is compared with the model *)
  o_oc : bool;                   (* parser_mode = omegaconf: compared with the model run on the omegaconf loader's answers *)
  o_chan : channel;
  o_loaded : option lres;        (* ChDoc / ChCfgEnv: the loader's answer for the key *)
  o_nested : bool;               (* ChArgv given item by item: --key.k=TEXT for every entry of a Dict[str, T] setting *)
  o_obs : obs }.

Record case := {
  c_ty : ty; c_val : val; c_text : str; c_clash : bool; c_jsonnet : bool;
  c_items : list (str * str);    (* the entries of a Dict[str, T] setting as (key, text) — empty when not applicable *)
  c_json_num : N;                (* what Python's json module takes the text for: 1 an integer, 2 a float, 0 neither *)
  c_oracle : list (str * lres);
  c_oracle_oc : list (str * lres);   (* what loaders["omegaconf"] answered (LYamlErr: one of the mode's loader exceptions,
                                        LValErr: any other error) — empty when the case has no omegaconf observation *)
  c_obs : list ob }.

(* `pinned` (Spec/C02Guard.v): the repairs of the type machinery that /repo already contains *)
Definition yl (c : case) : str -> lres := case_yload (c_oracle c).

(* false: the tree as it is; set to true when fixes/C05-nested-item-no-string-fallback.patch has landed in /repo (and
   drop class 7 from FINDING_CLASSES): the entry's raw text is then retried like a whole-value text *)
Definition nested_fixed : bool := true.   (* /repo 6b79dc9: a nested item falls back to its original string *)

(* the loader of the observation's parser mode.  Under omegaconf load_value uses the OmegaConf-based loader, which
   answers like yaml_load for scalars and for most structures but refuses some (`?` -> {None: None}:
   KeyValidationError); whether such an error is one of the mode's loader exceptions (then every caller falls back to
   the text) or escapes as a ValueError is observed from the implementation's own get_loader_exceptions, so the model
   follows the tree with and without /repo 8616e7c.  (Leaf types always load with yaml_load; for the strings where
   the two loaders differ — PyYAML gives a mapping / sequence, OmegaConf refuses — both make a leaf type reject.) *)
Definition ylo (c : case) (o : ob) : str -> lres :=
  if o_oc o then case_yload (c_oracle_oc c) else yl c.

Definition model_ob (c : case) (o : ob) : obs :=
  let y := ylo c o in
  if o_nested o then obs_of (via_argv_nested pinned y nested_fixed (c_ty c) (c_items c)) else
  match o_chan o, o_loaded o with
  | (ChDoc | ChCfgEnv), Some (LVal lv) => obs_of (run_channel (chk pinned y) (c_clash c) (o_chan o) (c_ty c) (c_text c) lv)
  | (ChDoc | ChCfgEnv), _ => Rejected
  | ch, _ => obs_of (run_channel (chk pinned y) (c_clash c) ch (c_ty c) (c_text c) (c_val c))
  end.

(* the JSON number grammar of Model/C05Channels.v (the hypothesis of C05_json_scalars_in_yaml) against Python's json *)
Definition json_num_class (s : str) : N :=
  if Regex.matches json_int_re s then 1 else if Regex.matches json_float_re s then 2 else 0.

Definition model_ok (c : case) : bool :=
  N.eqb (json_num_class (c_text c)) (c_json_num c) &&
  forallb (fun o => negb (o_yaml o || o_oc o) || obs_eqb (model_ob c o) (o_obs o)) (c_obs c)
  && oracle_consistent (c_oracle c) && oracle_consistent (c_oracle_oc c).

Definition docs_of (c : case) : list lres :=
  flat_map (fun o => match o_loaded o with Some l => [l] | None => [] end) (c_obs c).

(* ---- classes ------------------------------------------------------------------------------------------ *)
Fixpoint has_string (v : val) : bool :=
  match v with
  | VStr _ => true
  | VList l | VTuple l | VSet l => existsb has_string l
  | VDict d => existsb (fun kv => has_string (snd kv)) d
  | _ => false
  end.

(* a position that can take a text for a string: str, Any, a Literal with a string member (Literal["null", "1"] takes the
   text 1 for its member "1", the integer 1 is no member), an Enum (members are named by strings: the text 1 names the
   member "1", the integer 1 names nothing) *)
Fixpoint ty_has_str_any (t : ty) : bool :=
  match t with
  | TStr | TAny => true
  | TLit ls => existsb (fun l => match l with LStr _ => true | _ => false end) ls
  | TEnum _ _ => true
  | TUnion ts | TTuple ts => existsb ty_has_str_any ts
  | TList t1 | TDict _ t1 | TTupleVar t1 | TSet t1 => ty_has_str_any t1
  | _ => false
  end.

(* numbers a jsonnet evaluation does not hand back unchanged: integers beyond 2^53, integral floats *)
Fixpoint jsonnet_lossy (v : val) : bool :=
  match v with
  | VInt z => Z.ltb 9007199254740992 (Z.abs z)
  | VFloat (FFin m e) => Z.leb 0 e
  | VList l | VTuple l | VSet l => existsb jsonnet_lossy l
  | VDict d => existsb (fun kv => jsonnet_lossy (snd kv)) d
  | _ => false
  end.

(* a string below an Any position: TAny loads it with the *mode's* loader (yaml: "0b11" is 3, json: a str) *)
Fixpoint str_under_any (t : ty) (v : val) {struct t} : bool :=
  match t with
  | TAny => has_string v
  | TList t1 | TTupleVar t1 | TSet t1 =>
      match v with VList l | VTuple l | VSet l => existsb (str_under_any t1) l | _ => false end
  | TDict _ t1 => match v with VDict d => existsb (fun kv => str_under_any t1 (snd kv)) d | _ => false end
  | TTuple ts =>
      match v with
      | VList l | VTuple l =>
          (fix go (ts : list ty) (l : list val) : bool :=
             match ts, l with t1 :: ts', x :: l' => str_under_any t1 x || go ts' l' | _, _ => false end) ts l
      | _ => false
      end
  | TUnion ts => (fix go (ts : list ty) : bool := match ts with [] => false | t1 :: ts' => str_under_any t1 v || go ts' end) ts
  | _ => false
  end.

(* entry-level ambiguity of the item-by-item command line: the entry's text is not read as the entry's value and a
   string / a str or Any position is involved (e.g. Dict[str, Union[str, bool]], entry true given as --key.k=true) *)
Fixpoint item_text (k : val) (items : list (str * str)) : option str :=
  match items with
  | [] => None
  | (k', s) :: r => if val_eqb k (VStr k') then Some s else item_text k r
  end.

Definition nested_ambiguous (C : ty -> val -> ares) (t : ty) (v : val) (items : list (str * str)) : bool :=
  match t, v with
  | TDict false t1, VDict d =>
      existsb (fun kv => match item_text (fst kv) items with
                         | Some s => negb (ares_eqb (C t1 (VStr s)) (C t1 (snd kv)))
                                     && (has_string (snd kv) || ty_has_str_any t1)
                         | None => false
                         end) d
  | _, _ => false
  end.

(* 0 inside the guard of C05_channels_agree;
   1 finding none-unchecked      : None where the type does not admit it (lenient_check returns it unchecked)
   2 finding clash-key-unadapted : a key component is a Namespace clash name (and the setting is otherwise inside the guard)
   3 finding literal-eq-channels : the text and the value part ways only because Literal compares with ==
   4 finding jsonnet-numbers     : a jsonnet-mode parser and a number jsonnet re-renders differently (setting otherwise
                                   inside the guard)
   7 finding nested-item-no-string-fallback : a Dict[str, T] entry given as --key.k=TEXT whose TEXT loads as a non-string
     where T wants the string itself: rejected, because the retry with the original string needs a str orig_val
   5 outside the property's quantifier (nothing is demanded): a string below an Any position, or the text is not
     read as the value and a string / a str or Any position is involved — the textual form is ambiguous
   6 outside the guard for any other reason (nothing listed: a spec failure here is a violation) *)
Definition class_of (c : case) : N :=
  let C := chk pinned (yl c) in
  let t := c_ty c in let s := c_text c in let v := c_val c in
  if negb (g_none C t v) then 1
  else if str_under_any t v then 5
  else if existsb o_nested (c_obs c) && nested_ambiguous C t v (c_items c) then 5
  else if negb (g_reads C t s v) && guard (chk_lit pinned (yl c)) t s v then 3
  else if negb (g_reads C t s v) && (has_string v || ty_has_str_any t) then 5
  else if guard C t s v then
    (if c_clash c then 2
     else if existsb o_nested (c_obs c)
             && negb (ares_eqb (via_argv_nested pinned (yl c) nested_fixed t (c_items c)) (via_argv C t s))
             && ares_eqb (via_argv_nested pinned (yl c) true t (c_items c)) (via_argv C t s) then 7
     else if c_jsonnet c && jsonnet_lossy v then 4 else 0)
  else 6.

Definition spec_ok (c : case) : bool :=
  if N.eqb (class_of c) 5 then true
  else c05_spec (map o_obs (c_obs c)).

Definition judge1 (c : case) : verdict :=
  {| v_model := model_ok c; v_class := class_of c; v_spec := spec_ok c |}.

(* ---- history cases ----------------------------------------------------------------------------------------
   Settings for keys whose parsing consults the previous value of the key (a List[dataclass] item with a missing
   field, a subclass spec without class_path), pushed through the channels of fresh parsers twice in one
   process: in a clean state and after another parser's parse_args call described by h_script (accepted options,
   then typically a --cfg whose value is rejected).  The model (Model/C05History.v) computes what previous_config
   is after that call; a channel's answer can depend on it only through that state, so with the state the model
   computes (None) every channel must answer as in the clean state.  The spec is the same as for ordinary cases:
   all observations, clean and after, agree. *)
Record hob := { h_clean : obs; h_after : obs }.
Record hcase := { h_script : list pitem; h_rejected : bool; h_obs : list hob }.

Definition predict (st : pstate) (clean : obs) : obs :=
  match st with None => clean | Some _ => Crashed end.     (* a stale namespace: no answer the model can vouch for *)

Definition judge1h (h : hcase) : verdict :=
  let st := state_after None [h_script h] in
  {| v_model := Bool.eqb (call_rejected (h_script h)) (h_rejected h)
                && forallb (fun o => obs_eqb (predict st (h_clean o)) (h_after o)) (h_obs h);
     v_class := 0;
     v_spec := c05_spec (map h_clean (h_obs h) ++ map h_after (h_obs h)) |}.

(* ---- options with nargs / choices / a plain callable type (Model/C05Plain.v) ---------------------------------------
   One case = one option `--k` declared with (callable or type hint, nargs, choices) and one logical setting: the
   element texts as they follow the option string, the text put into the environment variable, the value handed to
   parse_object / written into the documents.  Classes: 0 inside plain_guard (C05_plain_channels_agree);
   1 None where not admitted; 8 finding nargs-count-unchecked (a number of values the nargs pattern does not admit:
   the command line rejects, the config channels never count); 9 finding typed-choices-raw-argv (type hint + choices:
   argparse tests the raw strings; the setting otherwise inside the guard); 6 anything else. *)
(* true: the tree as it is; false once fixes/C05-typed-choices-raw-argv.patch has landed in /repo (then also drop class 9
   from FINDING_CLASSES and turn the open: line into fixed:) *)
Definition raw_choices_checked : bool := false.  (* repaired in /repo 1307907: typed choices are tested on the adapted value *)

Record pcase := {
  p_fun : pfun; p_nargs : nargs; p_choices : list val;
  p_toks : list str; p_text : str; p_val : val;
  p_oracle : list (str * lres);
  p_obs : list ob }.

Definition pyl (p : pcase) : str -> lres := case_yload (p_oracle p).
Definition pE (p : pcase) : val -> ares := elem pinned (pyl p) (p_fun p).

Definition model_ob_plain (p : pcase) (o : ob) : obs :=
  let E := pE p in let ty' := pf_typed (p_fun p) in let h := pf_hint (p_fun p) in
  let ch := p_choices p in let na := p_nargs p in
  match o_chan o, o_loaded o with
  | ChArgv, _ => obs_of (via_plain_argv E ty' h raw_choices_checked ch na (p_toks p))
  | ChEnv, _ => obs_of (via_plain_env E ty' ch na (pyl p) (p_text p))
  | ChObject, _ => obs_of (via_plain_object E ty' ch na (p_val p))
  | ChDoc, Some (LVal lv) => obs_of (via_plain_object E ty' ch na lv)
  | ChCfgEnv, Some (LVal lv) => obs_of (via_plain_cfgenv E ty' ch na lv)
  | _, _ => Rejected
  end.

Definition class_of_plain (p : pcase) : N :=
  let E := pE p in let ty' := pf_typed (p_fun p) in let h := pf_hint (p_fun p) in
  let ch := p_choices p in let na := p_nargs p in
  let C := Cp E ty' ch na in
  if negb (g_none C TAny (p_val p)) then 1
  else if negb (g_count na (p_toks p)) then 8
  else if plain_guard E ty' h raw_choices_checked ch na (pyl p) (p_toks p) (p_text p) (p_val p) then 0
  else if plain_guard E ty' false raw_choices_checked ch na (pyl p) (p_toks p) (p_text p) (p_val p) then 9
  else 6.

Definition judge1p (p : pcase) : verdict :=
  {| v_model := forallb (fun o => negb (o_yaml o) || obs_eqb (model_ob_plain p o) (o_obs o)) (p_obs p)
                && oracle_consistent (p_oracle p);
     v_class := class_of_plain p;
     v_spec := c05_spec (map o_obs (p_obs p)) |}.

(* Group: the leaf keys of ONE parse of a parser with sub-commands (a top-level key and the keys of the chosen
   sub-command), each judged as an ordinary setting: a key of a sub-command goes through the same per-key pipeline
   (for the environment: the sub-parser's parse_env on the SAME mapping, _core.py:538-546) *)
Inductive ccase := Setting (c : case) | History (h : hcase) | Group (cs : list case) | Plain (p : pcase).

Definition group_verdict (j : case -> verdict) (cs : list case) : verdict :=
  {| v_model := forallb (fun c => v_model (j c)) cs;
     v_class := fold_right (fun c k => if N.eqb (v_class (j c)) 0 then k else v_class (j c)) 0%N cs;
     v_spec := forallb (fun c => v_spec (j c)) cs |}.

Definition judge (cs : list ccase) :=
  judge_all (fun x => match x with Setting c => judge1 c | History h => judge1h h | Group g => group_verdict judge1 g | Plain p => judge1p p end) cs.


(* ---- after fixes/C05-clash-key-unadapted.patch has been applied -------------------------------------------
   Set JUDGE = "judge_fixed" in tie/props/c05.py and remove class 2 from FINDING_CLASSES: _apply_actions then
   enumerates keys without the clash mark, keys with a clash-name component go through the same pipeline as all
   others (c_clash := false), and class 2 no longer exists. *)
Definition unclash (c : case) : case :=
  {| c_ty := c_ty c; c_val := c_val c; c_text := c_text c; c_clash := false; c_jsonnet := c_jsonnet c;
     c_items := c_items c; c_json_num := c_json_num c; c_oracle := c_oracle c; c_oracle_oc := c_oracle_oc c; c_obs := c_obs c |}.

Definition judge1_fixed (c : case) : verdict := judge1 (unclash c).

Definition judge_fixed (cs : list ccase) :=
  judge_all (fun x => match x with Setting c => judge1_fixed c | History h => judge1h h | Group g => group_verdict judge1_fixed g | Plain p => judge1p p end) cs.

(* Correspondence judge for C10.
   NsCase: a parser (typed arguments under dotted keys, with defaults), an object given to the REAL
           parse_object, what the real text readers answered for every string involved (the oracle),
           and the observations: the returned configuration (values in declaration order) or
           rejection; whether parser.validate(cfg) passed; what parse_object(cfg.clone()) and
           parse_object(cfg.clone().as_dict()) returned.
   XCase : the same observations for parsers outside the modelled grammar (paths, registered and
           restricted types, dataclasses, subclass specs, the argv / string / append channels): no model,
           the spec alone is judged; the type skeleton only decides the finding class.  XCases also carry
           the dump leg: parse_string(dump(cfg)) and the two dumped texts. *)
From JV Require Import Lib.Base Model.C10Adapt Model.C10Parser Model.C10Nargs Spec.C10Spec.

Record oracle := {
  o_jload : list (str * lres);        (* json_or_yaml_load *)
  o_pval_t : list (str * lres);       (* parse_value_or_config(simple_types=True) *)
  o_pval_f : list (str * lres);       (* parse_value_or_config(simple_types=False) *)
  o_ikey : list (str * option Z) }.   (* int(s) *)

Fixpoint oget {A} (s : str) (o : list (str * A)) : option A :=
  match o with [] => None | (k, r) :: o' => if str_eqb s k then Some r else oget s o' end.

(* a string the harness did not record forces a disagreement *)
Definition missing (s : str) : lres := LVal (VOpaque [109;105;115;115;105;110;103]%N s).
Definition jl (o : oracle) (s : str) : lres := match oget s (o_jload o) with Some r => r | None => missing s end.
Definition pv (o : oracle) (b : bool) (s : str) : lres :=
  match oget s (if b then o_pval_t o else o_pval_f o) with Some r => r | None => missing s end.
Definition ik (o : oracle) (s : str) : option Z := match oget s (o_ikey o) with Some r => r | None => None end.

Inductive xty := XLeaf (name : str) | XNone | XUnion (ts : list xty) | XCont (name : str) (ts : list xty)
               | XSubKw (default_class : str).   (* a subclass-typed option whose declared default carries dict_kwargs *)

(* a Union with two or more non-None members somewhere in the type *)
Fixpoint multi_union (t : xty) : bool :=
  match t with
  | XLeaf _ | XNone | XSubKw _ => false
  | XUnion ts => Nat.ltb 1 (length (filter (fun t1 => match t1 with XNone => false | _ => true end) ts))
                 || existsb multi_union ts
  | XCont _ ts => existsb multi_union ts
  end.

Definition cfg_eqb : list val -> list val -> bool := list_eqb veq.
Definition cfg_eqb_m : list val -> list val -> bool := list_eqb veq_o.      (* the model tie also compares dict item order *)
Definition cfg_eqb_text : list val -> list val -> bool := list_eqb (fun a b => veq (strip_meta a) (strip_meta b)).
(* a Set[...] somewhere in the type *)
Fixpoint has_set (t : xty) : bool :=
  match t with
  | XLeaf _ | XNone | XSubKw _ => false
  | XUnion ts => existsb has_set ts
  | XCont name ts => str_eqb name [115; 101; 116]%N || existsb has_set ts
  end.

(* the dump leg fails ONLY on the byte-identical-text clause: the configuration read back is equal *)
Definition only_text_differs (first reparsed : outcome (list val)) (text1 text2 : option str) : bool :=
  match first, text1, text2 with
  | Accepted w, Some _, Some _ => outcome_eqb cfg_eqb_text reparsed (Accepted w)
  | _, _, _ => false
  end.

(* finding dict-kwargs-default-merge (class 5): every key on which an object re-parse differs from the first parse is a
   subclass-typed option whose default carries dict_kwargs AND whose parsed value is of the default's own class
   (parse_string / parse_path keep the value's dict_kwargs, parse_object merges the default's into them).  A difference
   under ANOTHER class, or on any other key, is not in this class. *)
Definition class_path_of (w : val) : option str :=
  match w with
  | VDict d => (fix go (d : list (val * val)) : option str :=
                  match d with
                  | [] => None
                  | (VStr k, VStr cp) :: d' => if str_eqb k [99;108;97;115;115;95;112;97;116;104]%N then Some cp else go d'
                  | _ :: d' => go d'
                  end) d
  | _ => None
  end.

(* ... and the difference is exactly "the default's extras were merged in": class_path and init_args are equal, every
   dict_kwargs entry of the first result is an entry of the re-parsed one with an equal value (round 6: the class used to
   excuse ANY difference on such a key) *)
Definition vfield (w : val) (name : str) : option val :=
  match w with
  | VDict d => (fix go (d : list (val * val)) : option val :=
                  match d with
                  | [] => None
                  | (VStr k, x) :: d' => if str_eqb k name then Some x else go d'
                  | _ :: d' => go d'
                  end) d
  | _ => None
  end.

Definition opt_veq (a b : option val) : bool :=
  match a, b with Some x, Some y => veq x y | None, None => true | _, _ => false end.

Definition s_class_path : str := [99;108;97;115;115;95;112;97;116;104]%N.
Definition s_init_args : str := [105;110;105;116;95;97;114;103;115]%N.
Definition s_dict_kwargs : str := [100;105;99;116;95;107;119;97;114;103;115]%N.

Definition extras_merged_in (x y : val) : bool :=
  opt_veq (vfield x s_class_path) (vfield y s_class_path)
  && opt_veq (vfield x s_init_args) (vfield y s_init_args)
  && match vfield x s_dict_kwargs, vfield y s_dict_kwargs with
     | Some (VDict dx), Some (VDict dy) =>
         forallb (fun kv => existsb (fun kb => veq (fst kv) (fst kb) && veq (snd kv) (snd kb)) dy) dx
     | None, _ => true
     | _, _ => false
     end.

Fixpoint diffs_excused (sk : list xty) (w a : list val) : bool :=
  match sk, w, a with
  | t :: sk', x :: w', y :: a' =>
      (veq x y || match t, class_path_of x with
                  | XSubKw dc, Some cp => str_eqb dc cp && extras_merged_in x y
                  | _, _ => false
                  end) && diffs_excused sk' w' a'
  | [], [], [] => true
  | _, _, _ => false
  end.

Definition kwargs_merge_only (sk : list xty) (first : outcome (list val)) (valid : bool) (again : list (outcome (list val))) : bool :=
  match first with
  | Accepted w => valid && forallb (fun o => match o with Accepted a => diffs_excused sk w a | _ => false end) again
  | _ => false
  end.

Inductive case :=
| NsCase (p : parser) (obj : val) (o : oracle)
         (first : outcome (list val)) (valid : bool) (again : list (outcome (list val)))
| XCase (sk : list xty) (first : outcome (list val)) (valid : bool) (again : list (outcome (list val)))
        (reparsed : outcome (list val)) (text1 text2 : option str)
(* a parser with ONE list-valued option (nargs '+', '*', N; no default) of a modelled type and the value given for it
   in an object: modelled by Model/C10Nargs.v *)
| LCase (t : ty) (v0 : val) (o : oracle)
        (first : outcome (list val)) (valid : bool) (again : list (outcome (list val))).

Definition to_outcome (r : option (list val)) : outcome (list val) :=
  match r with Some w => Accepted w | None => Rejected end.

(* class 0 = inside the guard of C10_parse_object_fixed_point;
   class 1 = some Union re-selects a member on the adapted value (finding union-reselects-member);
   class 2 = the same situation cannot be excluded for an unmodelled type (a Union of >= 2 non-None members);
   class 3 = validate and the object re-parse are fine but the dump leg is not, and the type has a Union of
             >= 2 non-None members (finding union-dump-wrong-member: serialising a Union takes the first
             member whose serialize branch does not raise, whether or not the value belongs to it);
   class 5 = see kwargs_merge_only above (finding dict-kwargs-default-merge);
   class 4 = a Set[...] in the type, everything equal except the two dumped texts (finding set-dump-order:
             a set is dumped in hash-iteration order) *)
Definition ns_class (p : parser) (obj : val) (o : oracle) : N :=
  match flatten p [] obj with
  | Some asg => if ns_guard (jl o) (pv o) (ik o) p asg then 0%N else 1%N
  | None => 0%N
  end.

Definition judge1 (c : case) : verdict :=
  match c with
  | NsCase p obj o first valid again =>
      let parse := parse_flat (jl o) (pv o) (ik o) p in
      {| v_model :=
           nodup_keys p &&
           outcome_eqb cfg_eqb_m (to_outcome (parse_obj (jl o) (pv o) (ik o) p obj)) first
           && match first with
              | Accepted w =>
                  Bool.eqb valid (validate_all (jl o) (pv o) (ik o) p w)
                  && forallb (fun a => outcome_eqb cfg_eqb_m (to_outcome (parse (as_assignments p w))) a) again
              | _ => true
              end;
         v_class := ns_class p obj o;
         v_spec := fixed_point_spec cfg_eqb first valid again |}
  | LCase t v0 o first valid again =>
      let parse (v : val) : outcome (list val) :=
        match v with
        | VNone => Accepted [VNone]                      (* _check_value_key passes None under lenient_check *)
        | _ => match parse_list_key (jl o) (pv o) (ik o) VNone t v with AOk w => Accepted [w] | AErr _ => Rejected end
        end in
      {| v_model :=
           outcome_eqb cfg_eqb_m (parse v0) first
           && match first with
              | Accepted [w] =>
                  Bool.eqb valid (validate_list_key (jl o) (pv o) (ik o) VNone t w)
                  && forallb (fun a => outcome_eqb cfg_eqb_m (parse w) a) again
              | _ => true
              end;
         v_class := if list_guard (jl o) (pv o) (ik o) VNone t v0 then 0%N else 1%N;
         v_spec := fixed_point_spec cfg_eqb first valid again |}
  | XCase sk first valid again reparsed text1 text2 =>
      {| v_model := true;
         v_class := if existsb multi_union sk
                    then (if fixed_point_spec cfg_eqb first valid again then 3%N else 2%N)
                    else if negb (fixed_point_spec cfg_eqb first valid again) && kwargs_merge_only sk first valid again then 5%N
                    else if existsb has_set sk && fixed_point_spec cfg_eqb first valid again
                            && only_text_differs first reparsed text1 text2 then 4%N
                    else 0%N;
         v_spec := fixed_point_spec cfg_eqb first valid again
                   && dump_spec cfg_eqb_text first reparsed text1 text2 |}
  end.

Definition judge (cs : list case) := judge_all judge1 cs.

(* Correspondence judge for C08: a case is (parser, the objects built before the call, the call,
   what a deep snapshot saw afterwards). *)
From JV Require Import Lib.Base Model.C08Heap Model.C08Inst Spec.C08FrameSpec.

Record hcase := {
  c_parser : parser;
  c_heap : heap;              (* arguments and declared defaults, as built by the harness *)
  c_op : op;
  c_ok : bool;                (* the call returned (true) or raised (false) *)
  c_result : oval;            (* returned structure; ONone when it raised or returns nothing *)
  c_after : list oval;        (* content of every pre-existing object after the call *)
  c_globals : list bool;      (* per global: unchanged? *)
  c_defaults_same : bool }.

Definition is_get_defaults (o : op) : bool := match o with OGetDefaults => true | _ => false end.

(* fx = false: the pinned tree (faithful model, finding classes of Model.C08Heap.guard_class);
   fx = true : the tree with both C08 patches (run_op_fixed; Properties/C08.v C08_fixed_frame holds
               without guard, so there is no finding class: any recurrence is a violation).

   Outside the guard a case is attributed to its listed finding class only if the implementation
   fails EXACTLY as the faithful model says (bug for bug); a spec failure that the model does not
   reproduce is a different defect and gets the unlisted class 9. *)
Definition judge_heap (sm fx : bool) (c : hcase) : verdict :=
  let n0 := length (c_heap c) in
  let r := run_op_sm sm fx (c_parser c) (c_op c) (mkst (c_heap c) g0) in
  let s := out_st r in
  let m_ok := match r with Ok _ _ => true | Err _ _ => false end in
  let m_res := match r with Ok v s' => view FUEL n0 (s_h s') v | Err _ _ => ONone end in
  let m_after := view_old n0 (s_h s) in
  let m_glob := map (fun x => N.eqb (s_g s x) 0) (seq 0 NGLOBALS) in
  let model := Bool.eqb m_ok (c_ok c) && oval_eqb m_res (c_result c)
               && list_eqb oval_eqb m_after (c_after c) && list_eqb Bool.eqb m_glob (c_globals c) in
  let spec := spec_ok (c_heap c) (c_after c) (c_globals c) (c_defaults_same c)
                      (is_get_defaults (c_op c)) (c_result c) in
  let k := guard_class (c_parser c) (c_heap c) (c_op c) in
  {| v_model := model;
     v_class := if fx then (if sm then 0%N
                            else let k4 := groups_class (c_heap c) (c_op c) in   (* guard of C08_fixed_frame *)
                                 if N.eqb k4 0 then 0%N else if negb model && negb spec then 9%N else k4)
                else if N.eqb k 0 then 0%N
                else if negb model && negb spec then 9%N else k;
     v_spec := spec |}.

(* ---- "instantiate twice" cases (Model/C08Inst.v): the configuration as a tree of class specs, the
   number of objects of the class family that existed before, and the identities (numbered by first
   appearance) of the objects the two calls built, in post-order. *)
Record icase := {
  i_ok : bool;                (* parse + both instantiate_classes calls returned *)
  i_c : nat;
  i_cfg : ivals;
  i_ids1 : list nat;
  i_ids2 : list nat;
  i_cfg_same : bool }.        (* the configuration handed to both calls is unchanged *)

Definition list_nat_eqb := list_eqb Nat.eqb.
(* fx2 = false: the current tree (guard Model.C08Inst.inst_guard = finding class 3, bug for bug as in judge_heap);
   fx2 = true : with fixes/C08-default-below-tuple-shared.patch (no guard) *)
Definition judge_inst (fx2 : bool) (c : icase) : verdict :=
  let m := inst_twice fx2 (i_c c) (i_cfg c) in
  let model := i_ok c && list_nat_eqb (fst m) (i_ids1 c) && list_nat_eqb (snd m) (i_ids2 c) && i_cfg_same c in
  let spec := i_ok c && fresh_twice_ok (i_c c) (i_cfg c) (i_ids1 c) (i_ids2 c) && i_cfg_same c in
  {| v_model := model;
     v_class := if fx2 then 0%N
                else if inst_guard (i_cfg c) then 0%N
                else if negb model && negb spec then 9%N else 3%N;
     v_spec := spec |}.

(* ---- entry points of which only the try/finally skeleton is modelled (Model.C08Heap.aux_run) *)
Record acase := {
  a_entry : N;
  a_fails : bool;             (* the input was built to make the call fail midway *)
  a_preset : bool;            (* history: argparse.Namespace, load_value_mode and os.environ were NOT at their import-time /
                                 default values when the call started (another class installed, the variable set by an
                                 enclosing context, an extra environment variable) *)
  a_ok : bool;                (* the call returned *)
  a_globals : list bool;      (* per global: unchanged? *)
  a_args_same : bool;         (* argv list / environ dict unchanged *)
  a_defaults_same : bool }.   (* action.default of every declared action (value, type, identity) and get_defaults() without
                                 default config files: as before *)

Definition judge_aux (c : acase) : verdict :=
  let g_start : globals := fun x => if a_preset c && (Nat.eqb x G_ARGPARSE_NS || Nat.eqb x G_LOADMODE || Nat.eqb x G_ENVIRON)
                                    then 2%N else 0%N in
  let r := aux_run (a_entry c) (a_fails c) (mkst [] g_start) in
  let s := out_st r in
  let m_ok := match r with Ok _ _ => true | Err _ _ => false end in
  let m_glob := map (fun x => N.eqb (s_g s x) (g_start x)) (seq 0 NGLOBALS) in
  {| v_model := Bool.eqb m_ok (a_ok c) && list_eqb Bool.eqb m_glob (a_globals c) && a_args_same c && a_defaults_same c;
     v_class := 0;
     v_spec := forallb (fun b => b) (a_globals c) && a_args_same c && a_defaults_same c |}.

Inductive case := HeapCase (c : hcase) | InstCase (c : icase) | AuxCase (c : acase).
(* sm: strip_meta always copies (fixes/C08-empty-config-not-copied.patch; theorem C08_fixed3_frame, no guard) *)
Definition judge1_gen (sm fx fx2 : bool) (c : case) : verdict :=
  match c with HeapCase h => judge_heap sm fx h | InstCase i => judge_inst fx2 i | AuxCase a => judge_aux a end.

Definition judge1 : case -> verdict := judge1_gen false false false.
Definition judge (cs : list case) := judge_all judge1 cs.

(* ---- after fixes/C08-container-below-tuple-shared.patch and fixes/C08-parse-object-adapts-in-place.patch
   have been applied: set JUDGE = "judge_fixed" in tie/props/c08.py *)
Definition judge1_fixed : case -> verdict := judge1_gen false true false.
Definition judge_fixed (cs : list case) := judge_all judge1_fixed cs.

(* ---- after fixes/C08-default-below-tuple-shared.patch has been applied as well: JUDGE = "judge_fixed2"
   (the current tree: open finding class 4, empty-config-not-copied) *)
Definition judge1_fixed2 : case -> verdict := judge1_gen false true true.
Definition judge_fixed2 (cs : list case) := judge_all judge1_fixed2 cs.

(* ---- after fixes/C08-empty-config-not-copied.patch has been applied as well: JUDGE = "judge_fixed3" (no guard left) *)
Definition judge1_fixed3 : case -> verdict := judge1_gen true true true.
Definition judge_fixed3 (cs : list case) := judge_all judge1_fixed3 cs.

(* Correspondence judge for C08: a case is (parser, the objects built before the call, the call,
   what a deep snapshot saw afterwards). *)
From JV Require Import Lib.Base Model.C08Heap Spec.C08FrameSpec.

Record case := {
  c_parser : parser;
  c_heap : heap;              (* arguments and declared defaults, as built by the harness *)
  c_op : op;
  c_ok : bool;                (* the call returned (true) or raised (false) *)
  c_result : oval;            (* returned structure; ONone when it raised or returns nothing *)
  c_after : list oval;        (* content of every pre-existing object after the call *)
  c_globals : list bool;      (* per global: unchanged? *)
  c_defaults_same : bool }.

Definition is_get_defaults (o : op) : bool := match o with OGetDefaults => true | _ => false end.

Definition judge1 (c : case) : verdict :=
  let n0 := length (c_heap c) in
  let r := run_op (c_parser c) (c_op c) (mkst (c_heap c) g0) in
  let s := out_st r in
  let m_ok := match r with Ok _ _ => true | Err _ _ => false end in
  let m_res := match r with Ok v s' => view FUEL n0 (s_h s') v | Err _ _ => ONone end in
  let m_after := view_old n0 (s_h s) in
  let m_glob := map (fun x => N.eqb (s_g s x) 0) (seq 0 NGLOBALS) in
  {| v_model := Bool.eqb m_ok (c_ok c) && oval_eqb m_res (c_result c)
                && list_eqb oval_eqb m_after (c_after c) && list_eqb Bool.eqb m_glob (c_globals c);
     v_class := guard_class (c_parser c) (c_heap c) (c_op c);
     v_spec := spec_ok (c_heap c) (c_after c) (c_globals c) (c_defaults_same c)
                       (is_get_defaults (c_op c)) (c_result c) |}.

Definition judge (cs : list case) := judge_all judge1 cs.

(* Correspondence judge for C17: a generated parser tree, a structured input, and what the real
   parser answered (None = the parse failed, Some cfg = its result with the "cfg" keys removed). *)
From JV Require Import Lib.Base Model.C17Subcmd Spec.C17SubcmdSpec.

Record case := { c_parser : parser; c_input : input; c_obs : option ns }.

Definition fuel_of (p : parser) : nat := 3 * depth p + 8.

Fixpoint strip (n : node) : node :=
  match n with
  | NNs l => NNs ((fix go (l : ns) : ns :=
                     match l with
                     | [] => []
                     | (k, v) :: t => if str_eqb k cfg_key then go t else (k, strip v) :: go t
                     end) l)
  | _ => n
  end.

Fixpoint nequiv (a b : node) : bool :=
  match a, b with
  | NInt x, NInt y => Z.eqb x y
  | NStr x, NStr y => str_eqb x y
  | NNone, NNone => true
  | NNs la, NNs lb =>
      Nat.eqb (length la) (length lb)
      && (fix go (la : ns) : bool :=
            match la with
            | [] => true
            | (k, v) :: t => (match get k lb with Some w => nequiv v w | None => false end) && go t
            end) la
  | _, _ => false
  end.

(* every config of the case is a JSON object with unique keys (hypothesis json_ok of the selection-rule theorem) *)
Definition entry_json_ok (x : input) : bool :=
  (match i_entry x with
   | EObject c => json_ok (CObj c)
   | EString c => json_ok (CObj c)
   | EEnv m => json_ok (CObj m)
   | EArgs _ => true
   end)
  && match i_env x with Some e => json_ok (CObj e) | None => true end.

(* fx = the tree the implementation under test is (Model/C17Subcmd.v `variant`): the guard of a
   finding exists only while its fix is not in the tree *)
Definition guard_class (fx : variant) (c : case) : N :=
  let p := c_parser c in
  let fuel := fuel_of p in
  let falsy := negb (fx_falsy fx) && match c_obs c with Some cfg => negb (dest_truthy p cfg) | None => false end in
  if falsy then 1%N
  else if negb (fx_cfg fx) && negb (input_consistent fuel p (c_input c)) then 2%N
  else if negb (fx_envmap fx) && negb (osenv_clean (c_input c)) then 3%N else 0%N.

Definition judge1_v (fx : variant) (c : case) : verdict :=
  let p := c_parser c in
  let fuel := fuel_of p in
  {| v_model := wf_b fuel p     (* the case satisfies the hypothesis wf of the theorems *)
                && entry_json_ok (c_input c)   (* ... and json_ok of C17_config_entry_selection_rule *)
                && match parse fx fuel p (c_input c), c_obs c with
                   | Ok m, Some o => nequiv (strip (NNs m)) (NNs o)
                   | Err OutOfFuel, _ => false
                   | Err _, None => true
                   | _, _ => false
                   end;
     v_class := guard_class fx c;
     v_spec := match c_obs c with
               | None => negb (must_succeed fuel p (c_input c))   (* a clean, determinable selection must be accepted *)
               | Some cfg => spec_ok fuel p (top_level (c_input c)) cfg
               end |}.

(* the pinned tree *)
Definition judge1 := judge1_v orig.
Definition judge (cs : list case) := judge_all judge1 cs.

(* any tree: tie/props/c17.py: translate() recognises which fixes the tree under test has and passes the
   variant, e.g. `judge_v {| fx_falsy := true; fx_cfg := true; fx_envmap := false |}`.  A fix in the tree
   removes the class of its finding: a recurrence is then a VIOLATION.
     fx_falsy  : fixes/C17-falsy-subcommand-name-keeps-all-sections.patch   (class 1; /repo cc83855)
     fx_cfg    : fixes/C17-cfg-naming-other-subcommand-drops-settings.patch (class 2; /repo efb952a)
     fx_envmap : fixes/C17-env-mapping-ignored-by-handle-subcommands.patch  (class 3) *)
Definition judge_v (fx : variant) (cs : list case) := judge_all (judge1_v fx) cs.

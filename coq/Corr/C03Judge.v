(* Correspondence judge for C03.  One case = one call of a parse method of the real jsonargparse:
     c_x      exit_on_error of the parser,
     c_entry  which parse method (function index of the regenerated IR),
     c_obs    what the caller observed (Spec/C03ChannelSpec.observation), taken from the exception object itself,
     c_cls    class of the escaping exception as an index of the IR's class table (None: returned / hung),
     c_sites  the raise sites of the IR that can explain the exception: sites of the observed class in the functions
              on the traceback (deepest first; frames below a summarised BOUNDARY function are cut off),
     c_selfref the input (argv / text / object / env / files) contains a self-referential YAML alias (&x ... *x),
     c_deep   the input holds a value nested more than 150 levels deep (brackets/braces in a text, lists in an object).
     c_asked  the input of THIS call holds a request that legitimately ends in exit status 0 (help / version /
              print_config); calls made earlier on the same parser (the case's history) do not count.
     c_subcmd the parser has sub-commands (the AttributeError sites of finding 20, a non-mapping under a sub-command key,
              count as that finding only then).
     c_nonmap the call is parse_object and the object handed to it is not a dict / Namespace.
   The AttributeError site of finding 26 (a non-mapping config object) counts as that finding only for such calls: the same
   site reached because some inner code let a non-mapping through is inside the guard.
   The RecursionError sites of finding 18 (deep nesting) count as that finding only for inputs that ARE deeply nested:
   the same sites reached by a shallow input (e.g. a cycle check that recurses on its own) are inside the guard.
   Model agreement (the tie): SOME candidate site is a member of the escape set the analysis computes for that entry
   point and mode (the deepest such site is "the" site), it has the observed class, and the class reads as the
   observation.
   c_tuplecyc the input holds a YAML alias cycle that passes through a tuple (!!pairs / !!omap) and through no cycle of
              mappings and lists alone: the RecursionError sites of finding 30 count as that finding only then.
   c_heap    Some (heap, root, rejected): the case is not a parse call but ONE CALL OF yaml_load on a text PyYAML can load
              (the value as a heap: kind 0 dict / 1 list / 2 tuple / 3 other, item ids) and whether yaml_load refused it with
              YAMLError.  Model: Model/C03Cycle.has_cycle with the regenerated flag cyc_tuples reproduces accept/refuse; guard:
              cyc_guard (tuples are descended, or the heap holds none) — the hypothesis of C03_cycle_check_sound; spec:
              Spec/C03CycleSpec.cycle_check_ok (an accepted value is walkable).
   Guard: finding_class of that site (the same function as in the theorem C03_single_channel).  Termination is not in
   the theorem: a call that hangs is outside every guard unless the input holds a self-referential alias (finding 2:
   the same inputs that end in RecursionError elsewhere) or is nested more than 150 levels deep (finding 18: the key
   expansion of _apply_actions is quadratic in the depth, so such inputs end in RecursionError or exceed the time limit).  Spec: channel_ok. *)
From JV Require Import Lib.Base Model.C03ExnFlow Spec.C03ChannelSpec Gen.C03ExnIR Model.C03Instance
                       Model.C03Cycle Spec.C03CycleSpec Gen.C03Cycle.
Open Scope N_scope.

Record case := { c_x : bool; c_entry : N; c_obs : observation; c_cls : option N; c_sites : list N; c_selfref : bool; c_deep : bool; c_asked : bool; c_nonmap : bool; c_subcmd : bool;
                 c_tuplecyc : bool; c_heap : option (list (N * list N) * N * bool) }.

Definition kind_of_N (k : N) : kind :=
  if N.eqb k 0 then KDict else if N.eqb k 1 then KList else if N.eqb k 2 then KTuple else KScalar.
Definition heap_of (l : list (N * list N)) : heap := map (fun p => (kind_of_N (fst p), map N.to_nat (snd p))) l.

(* the guard of C03_cycle_check_sound *)
Definition cyc_guard (h : heap) : bool := cyc_tuples || tuple_free h.

Definition judge_heap (l : list (N * list N)) (root : N) (rejected : bool) : verdict :=
  let h := heap_of l in
  {| v_model := match has_cycle cyc_tuples (S (S (length h))) h [] (N.to_nat root) with
                | Some b => Bool.eqb b rejected
                | None => false
                end;
     v_class := if cyc_guard h then 0 else 30;
     v_spec := cycle_check_ok h (N.to_nat root) rejected |}.

Definition norm_obs (o : observation) : observation :=
  match o with
  | Exited s _ => if Z.eqb s 0 then Exited 0%Z true else if Z.eqb s 2 then Exited 2%Z true else Exited 1%Z true
  | _ => o
  end.

Definition obs_eqb (a b : observation) : bool :=
  match a, b with
  | Returned, Returned => true
  | Hung, Hung => true
  | Exited s _, Exited t _ => Z.eqb s t
  | Raised p, Raised q => Bool.eqb p q
  | _, _ => false
  end.

Definition is_entry (e : N) : bool := existsb (N.eqb e) ir_entries.

Definition refine_class (c : case) (k : N) : N :=
  if N.eqb k 18 && negb (c_deep c) then 0
  else if N.eqb k 26 && negb (c_nonmap c) then 0
  else if N.eqb k 20 && negb (c_subcmd c) then 0
  else if N.eqb k 30 && negb (c_tuplecyc c) then 0 else k.

Definition judge_call (c : case) : verdict :=
  let x := c_x c in
  match c_cls c with
  | None =>
      (* returned (the summary must allow a normal return) or hung (the IR says nothing about termination) *)
      {| v_model := is_entry (c_entry c) &&
                    match c_obs c with
                    | Returned => let r := lookup ir_table x (c_entry c) in a_norm r || a_abr r
                    | Hung => true
                    | _ => false
                    end;
         v_class := match c_obs c with Hung => if c_selfref c then 2 else if c_tuplecyc c then 30 else if c_deep c then 18 else 0 | _ => 0 end;
         v_spec := channel_ok_asked x (c_asked c) (c_obs c) |}
  | Some cl =>
      (* candidate sites that escape this entry point in this mode and have the observed class; several implicit sites may share
         function and class (told apart by what the input must hold): the observation counts as a listed finding when SOME
         candidate is a finding site whose applicability condition the input meets *)
      match filter (fun i => mem i (escape_set x (c_entry c)) && N.eqb (site_class ir_prog i) cl) (c_sites c) with
      | i0 :: rest =>
          let cands := i0 :: rest in
          {| v_model := is_entry (c_entry c) && obs_eqb (obs_of_class cl) (norm_obs (c_obs c));
             v_class := match find (fun k => negb (N.eqb k 0)) (map (fun i => refine_class c (finding_class x i)) cands) with
                        | Some k => k
                        | None => 0
                        end;
             v_spec := channel_ok_asked x (c_asked c) (c_obs c) |}
      | [] =>
          {| v_model := false; v_class := 0; v_spec := channel_ok_asked x (c_asked c) (c_obs c) |}
      end
  end.

Definition judge1 (c : case) : verdict :=
  match c_heap c with
  | Some (l, root, rejected) => judge_heap l root rejected
  | None => judge_call c
  end.

Definition judge (cs : list case) := judge_all judge1 cs.

(* Correspondence judge for C14. *)
From JV Require Import Lib.Base Model.C14ClassSpec Spec.C14Spec Model.C14Guard.

Record case := { k_fam : family; k_base : str; k_dflt : option value; k_steps : list input; k_obs : obs;
                 k_twin : option (list input * obs);
                 k_object : bool (* given through parse_object instead of argv *) }.

Fixpoint value_eqb (n : nat) (a b : value) : bool :=
  match n with 0 => false | S n' =>
  match a, b with
  | VInt x, VInt y => Z.eqb x y
  | VStr x, VStr y => str_eqb x y
  | VNull, VNull => true
  | VSpec c1 i1 d1, VSpec c2 i2 d2 =>
      str_eqb c1 c2
      && list_eqb (fun p q => str_eqb (fst p) (fst q) && value_eqb n' (snd p) (snd q)) i1 i2
      && list_eqb (fun p q => str_eqb (fst p) (fst q) && value_eqb n' (snd p) (snd q)) d1 d2
  | _, _ => false
  end end.

Definition arg_eqb (a b : arg) : bool :=
  match a, b with
  | AInt x, AInt y => Z.eqb x y
  | AStr x, AStr y => str_eqb x y
  | ANull, ANull => true
  | ARef i, ARef j => Nat.eqb i j
  | _, _ => false
  end.
Definition kw_eqb := list_eqb (fun (p q : str * arg) => str_eqb (fst p) (fst q) && arg_eqb (snd p) (snd q)).
Definition log_eqb := list_eqb (fun (p q : entry) => str_eqb (fst p) (fst q) && kw_eqb (snd p) (snd q)).

Definition io_eqb (a b : inst_obs) : bool :=
  match a, b with
  | IOk r l, IOk r' l' => arg_eqb r r' && log_eqb l l'
  | ITypeErr, ITypeErr => true
  | _, _ => false
  end.
Definition obs_eqb (a b : obs) : bool :=
  match a, b with
  | ORej, ORej => true
  | OAcc v io, OAcc v' io' => value_eqb 60 v v' && io_eqb io io'
  | _, _ => false
  end.

Fixpoint raw_eqb (n : nat) (a b : raw) : bool :=
  match n with 0 => false | S n' =>
  match a, b with
  | RInt x, RInt y => Z.eqb x y
  | RStr x, RStr y => str_eqb x y
  | RNull, RNull => true
  | RDict x, RDict y => list_eqb (fun p q => str_eqb (fst p) (fst q) && raw_eqb n' (snd p) (snd q)) x y
  | _, _ => false
  end end.
Definition input_eqb (a b : input) : bool :=
  match a, b with
  | IRaw x, IRaw y => raw_eqb 60 x y
  | INested p x, INested q y => list_eqb str_eqb p q && raw_eqb 60 x y
  | _, _ => false
  end.

(* (S1), (S2), (S4) on one observation *)
Definition obs_ok (F : family) (base : str) (dflt : option value) (steps : list input) (o : obs) : bool :=
  match o with
  | ORej => match dflt, steps with
            | None, [IRaw r] => negb (explicit_valid 60 F base r)
            | _, _ => true
            end
  | OAcc v io =>
      valid 60 F base v &&
      match io with
      | IOk root log => inst_ok F v root log
      | ITypeErr => negb (instantiable 60 F v)     (* only an abstract class may fail to construct *)
      | IOther => false
      end
  | OOther => false
  end.

(* (S3): the harness must supply the expansion computed by Spec.expand_steps, and it must behave alike *)
Definition twin_ok (c : case) : bool :=
  if k_object c then true
  else
    let e := expand_steps (k_fam c) (k_base c) (k_dflt c) (k_steps c) in
    match k_twin c with
    | Some (tw, o) => list_eqb input_eqb tw e && obs_eqb (k_obs c) o
                      && obs_ok (k_fam c) (k_base c) (k_dflt c) tw o
    | None => list_eqb input_eqb (k_steps c) e
    end.

Definition judge1 (c : case) : verdict :=
  {| v_model := obs_eqb (run (k_fam c) (k_base c) (k_dflt c) (k_steps c)) (k_obs c)
                && match k_twin c with
                   | Some (tw, o) => obs_eqb (run (k_fam c) (k_base c) (k_dflt c) tw) o
                   | None => true
                   end;
     v_class := guard_class (k_fam c) (k_base c) (k_dflt c) (k_steps c);
     v_spec := fam_wf (k_fam c) && obs_ok (k_fam c) (k_base c) (k_dflt c) (k_steps c) (k_obs c) && twin_ok c |}.

Definition judge (cs : list case) := judge_all judge1 cs.

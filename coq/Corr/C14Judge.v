(* Correspondence judge for C14. *)
From JV Require Import Lib.Base Model.C14ClassSpec Model.C14Containers Spec.C14Spec Model.C14Guard.

(* one class-typed option of the parser: declared type, default, the argv items / config-source entries that
   address it (in order), what was observed for it *)
Record part := { s_base : str; s_dflt : option value; s_steps : list input; s_obs : obs }.

Record case := { k_fam : family; k_base : str; k_dflt : option value; k_steps : list input; k_obs : obs;
                 k_twin : option (list input * obs);
                 k_object : bool (* given through parse_object / config sources instead of plain argv: no twin *);
                 k_sibs : list part (* further class-typed options of the same parser (names may share a prefix) *);
                 k_dstr : bool (* the option default was given as a string (class name / class path) *);
                 k_cont : option (list csrc * option (list (str * obs)))
                   (* Some: the option is typed Dict[str, k_base] / List[k_base]; its sources and, unless the parse
                      was rejected, the observation per element (k_steps / k_obs are then unused) *) }.

Fixpoint raw_eqb (n : nat) (a b : raw) : bool :=
  match n with 0 => false | S n' =>
  match a, b with
  | RInt x, RInt y => Z.eqb x y
  | RStr x, RStr y => str_eqb x y
  | RNull, RNull => true
  | RDict x, RDict y => list_eqb (fun p q => str_eqb (fst p) (fst q) && raw_eqb n' (snd p) (snd q)) x y
  | _, _ => false
  end end.
Definition input_eqb (a b : input) : bool :=
  match a, b with
  | IRaw x, IRaw y => raw_eqb 60 x y
  | INested p x, INested q y => list_eqb str_eqb p q && raw_eqb 60 x y
  | _, _ => false
  end.

(* (S4) over sources: no default, and every item is a fully explicit valid spec of its own (class paths dotted, dict
   form throughout, no dict_kwargs) - a sequence of valid explicit specs, also one that changes the class between
   sources, must not be rejected *)
Definition all_explicit (F : family) (base : str) (dflt : option value) (steps : list input) : bool :=
  match dflt, steps with
  | None, _ :: _ => forallb (fun i => match i with IRaw r => explicit_valid 60 F base r | _ => false end) steps
  | _, _ => false
  end.

(* (S1), (S2), (S4) on one observation *)
Definition obs_ok (F : family) (base : str) (dflt : option value) (steps : list input) (o : obs) : bool :=
  match o with
  | ORej => negb (all_explicit F base dflt steps)
  | OAcc v io =>
      valid F base v &&
      match io with
      | IOk root log => inst_ok F v root log
      | ITypeErr => negb (instantiable F v && dk_accepted F v)
          (* only an abstract class, or a dict_kwargs key the callable cannot take (CPython call binding
             of the prescribed call Class( **init_args, **dict_kwargs )), may fail to construct *)
      | IOther => false
      end
  | OOther => false
  end.

(* (S3): the harness must supply the expansion computed by Spec.expand_steps, and it must behave alike *)
Definition twin_ok (c : case) : bool :=
  if k_object c then true
  else
    let e := expand_steps (k_fam c) (k_base c) (k_dflt c) (k_steps c) in
    match k_twin c with
    | Some (tw, o) => list_eqb input_eqb tw e && obs_eqb (k_obs c) o
                      && obs_ok (k_fam c) (k_base c) (k_dflt c) tw o
    | None => list_eqb input_eqb (k_steps c) e
    end.

(* A parser with several class-typed options: the options do not influence each other (whatever their names);
   the model of the whole parse is the single-option model applied to each option's own items, and the parse is
   rejected as a whole iff some option is rejected. *)
Definition is_rej (o : obs) : bool := match o with ORej => true | _ => false end.

Definition is_terr (o : obs) : bool := match o with OAcc _ ITypeErr => true | _ => false end.

(* one ArgumentError rejects the whole parse; one TypeError aborts the whole instantiate_classes call *)
Definition joint (os : list obs) : list obs :=
  if existsb is_rej os then map (fun _ => ORej) os
  else if existsb is_terr os then map (fun o => match o with OAcc v _ => OAcc v ITypeErr | _ => o end) os
  else os.

Definition parts_of (c : case) : list part :=
  {| s_base := k_base c; s_dflt := k_dflt c; s_steps := k_steps c; s_obs := k_obs c |} :: k_sibs c.

Definition model_ok (rs : raw -> raw) (runf : family -> str -> option value -> list input -> obs) (c : case) : bool :=
  list_eqb obs_eqb (joint (run_dstr rs runf (k_fam c) (k_base c) (k_dflt c) (k_steps c) (k_dstr c)
                           :: map (fun p => runf (k_fam c) (s_base p) (s_dflt p) (s_steps p)) (k_sibs c)))
                   (map s_obs (parts_of c))
  && match k_twin c with
     | Some (tw, o) => obs_eqb (run_dstr rs runf (k_fam c) (k_base c) (k_dflt c) tw (k_dstr c)) o
     | None => true
     end.

(* (S1), (S2) for every option; (S4) only for a parser with a single option (a sibling may be the one at fault) *)
Definition spec_ok (c : case) : bool :=
  fam_wf_ext (k_fam c)
  && match k_sibs c with
     | [] => obs_ok (k_fam c) (k_base c) (k_dflt c) (k_steps c) (k_obs c)
     | _ => forallb (fun p => match s_obs p with
                              | ORej => true
                              | OAcc v ITypeErr => valid (k_fam c) (s_base p) v     (* the culprit may be a sibling: below *)
                              | o => obs_ok (k_fam c) (s_base p) (s_dflt p) (s_steps p) o
                              end) (parts_of c)
            && (negb (existsb (fun p => is_terr (s_obs p)) (parts_of c))
                || existsb (fun p => match s_obs p with
                                     | OAcc v _ => negb (instantiable (k_fam c) v && dk_accepted (k_fam c) v)
                                     | _ => false
                                     end) (parts_of c))
            (* (S4) when every option is given by fully explicit valid specs only, the parse is not rejected *)
            && (negb (forallb (fun p => all_explicit (k_fam c) (s_base p) (s_dflt p) (s_steps p)) (parts_of c))
                || negb (existsb (fun p => is_rej (s_obs p)) (parts_of c)))
     end
  && twin_ok c.

(* an option typed Dict[str, Base] / List[Base]: per-element model (Model/C14Containers.v), per-element spec *)
Definition cont_model_ok (rs : raw -> raw) (c : case) (srcs : list csrc) (o : option (list (str * obs))) : bool :=
  match cont_run (k_fam c) rs (k_base c) srcs, o with
  | None, None => true
  | Some m, Some os =>
      list_eqb str_eqb (map fst m) (map fst os)
      && list_eqb obs_eqb (joint (map snd m)) (map snd os)
  | _, _ => false
  end.

Definition cont_spec_ok (c : case) (o : option (list (str * obs))) : bool :=
  fam_wf_ext (k_fam c)
  && match o with
     | None => true
     | Some os =>
         forallb (fun ko => match snd ko with
                            | ORej => false
                            | OAcc v ITypeErr => valid (k_fam c) (k_base c) v
                            | o' => obs_ok (k_fam c) (k_base c) None [] o'
                            end) os
         && (negb (existsb (fun ko => is_terr (snd ko)) os)
             || existsb (fun ko => match snd ko with
                                   | OAcc v _ => negb (instantiable (k_fam c) v && dk_accepted (k_fam c) v)
                                   | _ => false
                                   end) os)
     end.

Definition judge1 (c : case) : verdict :=
  match k_cont c with
  | Some (srcs, o) => {| v_model := cont_model_ok restr c srcs o; v_class := 0; v_spec := cont_spec_ok c o |}
  | None =>
  {| v_model := model_ok restr run c;
     v_class := if existsb (fun p => negb (N.eqb (guard_class (k_fam c) (s_base p) (s_dflt p) (s_steps p)) 0))
                           (parts_of c) then 1%N
                else dstr_class (k_fam c) (k_base c) (k_dflt c) (k_steps c) (k_dstr c);
     v_spec := spec_ok c |}
  end.

Definition judge (cs : list case) := judge_all judge1 cs.

(* ---- after fixes/C14-nested-null-restringified.patch has been applied ---------------------------
   Set JUDGE = "judge_fixed" in tie/props/c14.py: the model is then the one that hands the loaded value
   down unchanged (run_fixed), no finding class is left, any recurrence is a VIOLATION. *)
Definition judge1_fixed (c : case) : verdict :=
  match k_cont c with
  | Some (srcs, o) => {| v_model := cont_model_ok (fun r => r) c srcs o; v_class := 0; v_spec := cont_spec_ok c o |}
  | None =>
  {| v_model := model_ok (fun r => r) run_fixed c;
     v_class := dstr_class (k_fam c) (k_base c) (k_dflt c) (k_steps c) (k_dstr c);
     v_spec := spec_ok c |}
  end.

Definition judge_fixed (cs : list case) := judge_all judge1_fixed cs.

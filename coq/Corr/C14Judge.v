(* Correspondence judge for C14. *)
From JV Require Import Lib.Base Model.C14ClassSpec Spec.C14Spec Model.C14Guard.

Record case := { k_fam : family; k_base : str; k_dflt : option value; k_steps : list input; k_obs : obs;
                 k_twin : option (list input * obs);
                 k_object : bool (* given through parse_object instead of argv *) }.

Fixpoint raw_eqb (n : nat) (a b : raw) : bool :=
  match n with 0 => false | S n' =>
  match a, b with
  | RInt x, RInt y => Z.eqb x y
  | RStr x, RStr y => str_eqb x y
  | RNull, RNull => true
  | RDict x, RDict y => list_eqb (fun p q => str_eqb (fst p) (fst q) && raw_eqb n' (snd p) (snd q)) x y
  | _, _ => false
  end end.
Definition input_eqb (a b : input) : bool :=
  match a, b with
  | IRaw x, IRaw y => raw_eqb 60 x y
  | INested p x, INested q y => list_eqb str_eqb p q && raw_eqb 60 x y
  | _, _ => false
  end.

(* (S1), (S2), (S4) on one observation *)
Definition obs_ok (F : family) (base : str) (dflt : option value) (steps : list input) (o : obs) : bool :=
  match o with
  | ORej => match dflt, steps with
            | None, [IRaw r] => negb (explicit_valid 60 F base r)
            | _, _ => true
            end
  | OAcc v io =>
      valid F base v &&
      match io with
      | IOk root log => inst_ok F v root log
      | ITypeErr => negb (instantiable F v && dk_accepted F v)
          (* only an abstract class, or a dict_kwargs key the callable cannot take (CPython call binding
             of the prescribed call Class( **init_args, **dict_kwargs )), may fail to construct *)
      | IOther => false
      end
  | OOther => false
  end.

(* (S3): the harness must supply the expansion computed by Spec.expand_steps, and it must behave alike *)
Definition twin_ok (c : case) : bool :=
  if k_object c then true
  else
    let e := expand_steps (k_fam c) (k_base c) (k_dflt c) (k_steps c) in
    match k_twin c with
    | Some (tw, o) => list_eqb input_eqb tw e && obs_eqb (k_obs c) o
                      && obs_ok (k_fam c) (k_base c) (k_dflt c) tw o
    | None => list_eqb input_eqb (k_steps c) e
    end.

Definition judge1 (c : case) : verdict :=
  {| v_model := obs_eqb (run (k_fam c) (k_base c) (k_dflt c) (k_steps c)) (k_obs c)
                && match k_twin c with
                   | Some (tw, o) => obs_eqb (run (k_fam c) (k_base c) (k_dflt c) tw) o
                   | None => true
                   end;
     v_class := guard_class (k_fam c) (k_base c) (k_dflt c) (k_steps c);
     v_spec := fam_wf (k_fam c) && obs_ok (k_fam c) (k_base c) (k_dflt c) (k_steps c) (k_obs c) && twin_ok c |}.

Definition judge (cs : list case) := judge_all judge1 cs.

(* ---- after fixes/C14-nested-null-restringified.patch has been applied ---------------------------
   Set JUDGE = "judge_fixed" in tie/props/c14.py: the model is then the one that hands the loaded value
   down unchanged (run_fixed), no finding class is left, any recurrence is a VIOLATION. *)
Definition judge1_fixed (c : case) : verdict :=
  {| v_model := obs_eqb (run_fixed (k_fam c) (k_base c) (k_dflt c) (k_steps c)) (k_obs c)
                && match k_twin c with
                   | Some (tw, o) => obs_eqb (run_fixed (k_fam c) (k_base c) (k_dflt c) tw) o
                   | None => true
                   end;
     v_class := 0;
     v_spec := fam_wf (k_fam c) && obs_ok (k_fam c) (k_base c) (k_dflt c) (k_steps c) (k_obs c) && twin_ok c |}.

Definition judge_fixed (cs : list case) := judge_all judge1_fixed cs.

(* Correspondence judge for C20. A case is one observation of the real jsonargparse:
   - CNum:      T(v) called directly for a restricted number type T
   - CNumParse: a T-typed parser argument given `loaded` (what the loader made of the text) / `orig`
   - CRange / CTd: serializer output and what deserializing it gave, plus whether every parser
                channel (dump -> parse_string, argv, config file) returned an equal value
   - CRangeDes / CTdDes: the deserializer on an arbitrary value (ties the model; no spec demand)
   - CSecret:   what the serializer gave for a SecretStr, whether the secret showed up in any dump / save /
                str / repr, whether the parsed value still holds the secret
   - CDecimal:  the double float(d) (exact, as num * 2^ex; None = infinite), the text repr(float(d)) as a
                decimal, whether the serializer returned a float (else a str), whether the file channels
                (parse_string, config file, json) and the argv channel came back equal. The model variant is
                chosen by the registration found in the source (Gen/C20Registry.v)
   - CBuiltin:  complex / UUID / bytes / bytearray / pathlib: Python builtins, only exercised
     (ser = the serialised text; no finding class: the yaml-load-nonstr-key defect is repaired,
      /repo commit 6120358, and a recurrence is a violation) *)
From JV Require Import Lib.Base Lib.C20Text Lib.C20Regex Model.C20Base Gen.C20Operators Gen.C20Regexes Gen.C20Registry
  Model.C20Restricted Model.C20RestrictedStr Spec.C20RestrictedSpec Model.C20Registered Model.C20NumRegistry
  Model.C20RegisterType.
(* no dependency on Proofs/: the judge must still build when a proof breaks *)
Local Open Scope Z_scope.

Inductive case :=
| CNum (t : rtype) (v : pyval) (acc : option num) (extras_ok : bool)
| CNumParse (t : rtype) (loaded orig : pyval) (acc : option num)
| CRange (r : prange) (ser : str) (back : option prange) (chan_ok : bool)
| CRangeDes (v : pyval) (back : option prange)
| CTd (total : Z) (ser : str) (back : td_res) (chan_ok : bool)
| CTdDes (v : pyval) (back : td_res)
| CSecret (secret ser : str) (leaked kept : bool)
| CDecimal (d : decimal) (dbl : option dyadic) (text : option decimal) (ser_float file_equal argv_equal : bool)
| CBuiltin (kind : N) (ser : str) (all_equal : bool)
| CStr (p : pat) (v : pyval) (acc : option str) (extras_ok : bool)
| CStrHist (first second : pat) (flags1 flags2 : str) (same_name : bool) (v : pyval) (created : bool) (acc : option str)
| CNumHist (t1 t2 : rtype) (same_name : bool) (v : pyval) (created : bool) (acc : option num)
| CRegHist (ty : str) (h : serfn * desfn) (fail_already has_key refused : bool) (after : option (serfn * desfn))
| CCrash (kind : N).    (* an exception outside the documented channel escaped, or the harness failed *)

Definition prange_same (a b : prange) : bool :=
  (rg_start a =? rg_start b) && (rg_stop a =? rg_stop b) && (rg_step a =? rg_step b).

Definition td_res_eqb (a b : td_res) : bool :=
  match a, b with
  | TdOk x, TdOk y => x =? y
  | TdRej, TdRej | TdOverflow, TdOverflow => true
  | _, _ => false
  end.

(* the hand-written scanners of Model/C20Registered agree with the regexes translated from the
   source (Gen/C20Regexes.v) on the text this case reaches them with *)
Definition range_regex_agree (v : pyval) : bool :=
  match v with
  | PStr s0 =>
      let s := strip s0 in
      if starts_with s_range_open s && ends_with s_close s then
        let w := filter not_space32 (removelast (skipn 6 s)) in
        let some {A} (o : option A) := match o with Some _ => true | None => false end in
        Bool.eqb (re_match rx_re_range_stop w) (some (match_ints 1 w))
        && Bool.eqb (re_match rx_re_range_start_stop w) (some (match_ints 2 w))
        && Bool.eqb (re_match rx_re_range_start_stop_step w) (some (match_ints 3 w))
      else true
  | _ => true
  end.

(* likewise for the two patterns of timedelta_deserializer (re.match: a prefix match) *)
Definition td_regex_agree (v : pyval) : bool :=
  match v with
  | PStr s =>
      let some {A} (o : option A) := match o with Some _ => true | None => false end in
      Bool.eqb (re_match rx_td_hms s) (some (match_hms s))
      && Bool.eqb (re_match rx_td_days s)
                  (match match_days s with Some (_, rest) => some (match_hms rest) | None => false end)
  | _ => true
  end.

Definition judge1 (c : case) : verdict :=
  match c with
  | CNum t v acc extras_ok =>
      {| v_model := option_eqb num_eqb (construct t v) acc;
         v_class := 0;
         v_spec := valid_syms (r_restr t) && option_eqb num_eqb (spec_construct (r_base t) (r_restr t) (r_join t) v) acc
                   && extras_ok |}
  | CNumParse t loaded orig acc =>
      {| v_model := option_eqb num_eqb (check_type t loaded orig) acc;
         v_class := 0;
         v_spec := valid_syms (r_restr t)
                   && option_eqb num_eqb (spec_check_type (r_base t) (r_restr t) (r_join t) loaded orig) acc |}
  | CRange r ser back chan_ok =>
      {| v_model := str_eqb (range_serializer r) ser
                    && option_eqb prange_same (range_deserializer (PStr ser)) back && range_regex_agree (PStr ser);
         v_class := 0;
         v_spec := chan_ok && match back with Some r' => range_eqb r r' | None => false end |}
  | CRangeDes v back =>
      {| v_model := option_eqb prange_same (range_deserializer v) back && range_regex_agree v;
         v_class := 0; v_spec := true |}
  | CTd total ser back chan_ok =>
      {| v_model := str_eqb (td_str total) ser && td_res_eqb (td_registered deserializer_catches_overflow (PStr ser)) back
                    && td_regex_agree (PStr ser);
         v_class := 0;
         v_spec := chan_ok && td_res_eqb back (TdOk total) |}
  | CTdDes v back =>
      {| v_model := td_res_eqb (td_registered deserializer_catches_overflow v) back && td_regex_agree v; v_class := 0; v_spec := true |}
  | CSecret secret ser leaked kept =>
      {| v_model := str_eqb (secret_serializer secret) ser;
         v_class := 0;
         v_spec := str_eqb ser s_stars && negb leaked && kept |}
  | CDecimal d dbl text ser_float file_equal argv_equal =>
      let reg := decimal_registration registry in
      {| v_model := match reg with
                    | None => false
                    | Some r =>
                        let f := fun _ : decimal => dbl in
                        let g := fun _ : decimal => text in
                        Bool.eqb (match decimal_serialize f g r d with CfgFloat _ _ => true | CfgStr _ => false end) ser_float
                        && Bool.eqb (decimal_file_equal f g r d) file_equal
                        && Bool.eqb (decimal_argv_equal f g r d) argv_equal
                    end;
         v_class := dec_class reg d;
         v_spec := file_equal && argv_equal |}
  | CBuiltin _ ser all_equal =>
      {| v_model := true; v_class := 0; v_spec := all_equal |}
  | CStr p v acc extras_ok =>
      {| v_model := option_eqb str_eqb (construct_str p v) acc;
         v_class := 0;
         v_spec := option_eqb str_eqb (match v with PStr s => if re_match p s then Some s else None | _ => None end) acc
                   && extras_ok |}
  | CStrHist first second flags1 flags2 same_name v created acc =>
      (* two creations with the same pattern text: name "A" with flags1 (compiled: `first`), then name "A"
         (same_name) or "B" with flags2 (compiled: `second`); observed: did the second call return a type, and
         what that type made of v. Whether the flags are part of the key comes from the source. *)
      let text := [120%N] in
      let nameA := [65%N] in
      let compile := fun (_ fl : str) => if str_eqb fl flags1 then first else second in
      let kf := string_key_has_flags in
      let reg1 := snd (create_str compile kf [] nameA text flags1) in
      let r := fst (create_str compile kf reg1 (if same_name then nameA else [66%N]) text flags2) in
      {| v_model := match r with
                    | Some t => created && option_eqb str_eqb (construct_str t v) acc
                    | None => negb created
                    end;
         v_class := if str_key_guard compile kf reg1 text flags2 then 0 else if same_name then 2 else 0;
         v_spec := negb created || option_eqb str_eqb (construct_str (compile text flags2) v) acc |}
  | CNumHist t1 t2 same_name v created acc =>
      (* two calls of restricted_number_type in a registry that holds neither key: name "A" with t1, then name "A"
         (same_name) or "B" with t2; observed: did the second call hand back a type, and what that type made of v.
         A refused creation (ValueError) is no wrong verdict; a type handed back must validate the comparisons
         STATED in the second call. *)
      let nameA := [65%N] in
      let st1 := snd (create_num {| ns_reg := []; ns_names := [] |} nameA t1) in
      let r := fst (create_num st1 (if same_name then nameA else [66%N]) t2) in
      {| v_model := match r with
                    | Some t => created && option_eqb num_eqb (construct t v) acc
                    | None => negb created
                    end;
         v_class := 0;
         v_spec := negb created
                   || (valid_syms (r_restr t2)
                       && option_eqb num_eqb (spec_construct (r_base t2) (r_restr t2) (r_join t2) v) acc) |}
  | CRegHist ty h fail_already has_key refused after =>
      (* one call register_type(ty, h, fail_already_registered=..., uniqueness_key=...) on the table as imported;
         observed: ValueError or not, and the pair ty is bound to afterwards. With the default flags the pair of a
         type that was registered before must be the one it had. *)
      let pair_opt_eqb := option_eqb handler_eqb in
      {| v_model := match register_type registry ty h fail_already has_key with
                    | None => refused && pair_opt_eqb (reg_lookup registry ty) after
                    | Some tbl' => negb refused && pair_opt_eqb (reg_lookup tbl' ty) after
                    end;
         v_class := 0;
         v_spec := if fail_already && negb has_key
                   then match reg_lookup registry ty with
                        | Some h0 => pair_opt_eqb (Some h0) after
                        | None => negb refused && pair_opt_eqb (Some h) after
                        end
                   else true |}
  | CCrash _ => {| v_model := false; v_class := 0; v_spec := false |}
  end.

Definition judge (cs : list case) := judge_all judge1 cs.

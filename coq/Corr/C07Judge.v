(* Correspondence judge for C07.  Two kinds of cases:
     CTable : a group key, the declared members ms (leaves with optional declaration-time default overrides,
              dataclass-typed members = nested sub-groups), the normal form nms the harness declared the two
              add_argument styles from, whether the class style's default= dict is complete, and the action tables
              observed on the four real parsers (None: the declaration raised)
     CRun   : the same declaration, one input, the observed external loaders (as finite tables) and what each of the
              four real parsers answered (parse result or rejection, dumped content and dump text)
   v_model : nms is Model.C07Decl.mnorm ms, and the compilers of Model/C07Decl.v give exactly the observed tables /
             Model/C07Parse.v run on the model tables gives exactly the observed answers, for all four styles;
   v_class : Model.C07Parse.finding_class_m (run cases) / table_class (table cases: finding_class_m without input,
             and 0 for a nested declaration without declaration-time defaults) — the same functions the theorems
             are guarded with;
   v_spec  : Spec/C07Spec.v, on the observations only. *)
From JV Require Import Lib.Base Model.C07Decl Model.C07Parse Spec.C07Spec.

Inductive case :=
| CTable (gk : str) (ms nms : list member) (full : bool) (obs : four (option table))
| CRun (gk : str) (ms nms : list member) (full : bool) (inp : input) (pvt jlt : list (str * val))
       (obs : four style_run).

Definition tab_fun (t : list (str * val)) (s : str) : val :=
  match lookup s t with Some v => v | None => VStr s end.

(* fixkey = false: the tree as it is; true: with fixes/C07-hyphen-key-default-override.patch *)
Definition model_tables (fixkey : bool) (gk : str) (ms : list member) (full : bool) : four (option table) :=
  {| q_dotted := Some (as_dotted_m gk (mnorm ms));
     q_dcls := as_dataclass_m fixkey (dashes ++ gk) ms;
     q_cls := as_class_group_m fixkey full gk ms;
     q_inner := Some (as_inner_parser_m (dashes ++ gk) (mnorm ms)) |}.

Definition four_all2 {A B} (f : A -> B -> bool) (a : four A) (b : four B) : bool :=
  f (q_dotted a) (q_dotted b) && f (q_dcls a) (q_dcls b) && f (q_cls a) (q_cls b) && f (q_inner a) (q_inner b).

(* the model's answer against one observed answer; a declaration that raises answers nothing *)
Definition run_agrees (pv jl : str -> val) (T : option table) (inp : input) (o : style_run) : bool :=
  match T with
  | None => match sr_out o, sr_dump o with OOther, None => true | _, _ => false end
  | Some T =>
      match run pv jl T inp, sr_out o, sr_dump o with
      | Ok (c, d), OOk c', Some (d', _) => ns_eqb c c' && ns_eqb d d'
      | Reject, OReject, None => true
      | Exited, OExit, None => true
      | _, _, _ => false
      end
  end.

Definition norm_agrees (ms nms : list member) : bool := list_eqb member_eqb nms (mnorm ms).

Definition no_input : input := {| i_env := []; i_entry := EArgs [] |}.

Definition judge1_raw (fixkey : bool) (c : case) : verdict :=
  match c with
  | CTable gk ms nms full obs =>
      {| v_model := norm_agrees ms nms && four_all2 (option_eqb table_eqb) (model_tables fixkey gk ms full) obs;
         v_class := table_class gk ms;   (* the guard of C07_grouped_tables_equal_m / C07_nested_tables_agree *)
         v_spec := tables_agree_opt obs |}
  | CRun gk ms nms full inp pvt jlt obs =>
      let pv := tab_fun pvt in
      let jl := tab_fun jlt in
      {| v_model := norm_agrees ms nms
                    && four_all2 (fun T o => run_agrees pv jl T inp o) (model_tables fixkey gk ms full) obs;
         v_class := finding_class_m pv gk ms inp;
         v_spec := answers_agree obs |}
  end.

(* Inside a finding class the implementation must still behave as the faithful model (bug for bug) or as the
   property demands; a case explained by neither is reported under the unlisted class 99 (a violation). *)
Definition strict (v : verdict) : verdict :=
  if negb (v_model v) && negb (v_spec v) && negb (N.eqb (v_class v) 0)
  then {| v_model := false; v_class := 99; v_spec := false |} else v.

(* The judge follows the tree: a case is judged against the faithful model of the tree as it is; when that model does
   not reproduce the observation but the model of the tree repaired by fixes/C07-hyphen-key-default-override.patch
   does, against that one (same guard: class 8 stays outside the proved statement, but with the repair applied the
   spec holds there, so nothing is reported; drop the finding's open: line then). *)
Definition judge1 (c : case) : verdict :=
  let v := strict (judge1_raw false c) in
  if v_model v then v else
  let w := strict (judge1_raw true c) in
  if v_model w then w else v.
Definition judge (cs : list case) := judge_all judge1 cs.

(* Correspondence judge for C07.  Two kinds of cases:
     CTable : a group key, a field list and the action tables observed on the four real parsers
     CRun   : a group key, a field list, one input, the observed external loaders (as finite tables) and what
              each of the four real parsers answered (parse result or rejection, dumped content and dump text)
   v_model : the compilers of Model/C07Decl.v give exactly the observed tables / Model/C07Parse.v run on the
             model tables gives exactly the observed answers, for all four styles;
   v_class : Model.C07Parse.finding_class — the same function the theorem is guarded with;
   v_spec  : the property itself, on the observations only: the four styles give the same leaf rows and
             required keys (and the three grouped styles the same whole table) / the same accept-reject
             decision, the same nested values and the same dump text. *)
From JV Require Import Lib.Base Model.C07Decl Model.C07Parse.

Inductive obs_out := OOk (c : ns) | OReject | OExit | OOther.

Record style_run := { sr_out : obs_out; sr_dump : option (ns * str) }.

(* order: dotted, dataclass, class group, inner parser *)
Record four (A : Type) := { q_dotted : A; q_dcls : A; q_cls : A; q_inner : A }.
Arguments q_dotted {A}. Arguments q_dcls {A}. Arguments q_cls {A}. Arguments q_inner {A}.

Inductive case :=
| CTable (gk : str) (fs : list field) (obs : four table)
| CRun (gk : str) (fs : list field) (inp : input) (pvt jlt : list (str * val)) (obs : four style_run).

Definition tab_fun (t : list (str * val)) (s : str) : val :=
  match lookup s t with Some v => v | None => VStr s end.

Definition tv_eqb (a b : tv) : bool :=
  match a, b with
  | TLeaf x, TLeaf y => val_eqb x y
  | TNs x, TNs y => list_eqb (fun p q => str_eqb (fst p) (fst q) && val_eqb (snd p) (snd q)) x y
  | _, _ => false
  end.
Definition ns_eqb (a b : ns) : bool := list_eqb (fun p q => str_eqb (fst p) (fst q) && tv_eqb (snd p) (snd q)) a b.

Definition out_eqb (a b : obs_out) : bool :=
  match a, b with
  | OOk x, OOk y => ns_eqb x y
  | OReject, OReject | OExit, OExit | OOther, OOther => true
  | _, _ => false
  end.

Definition model_tables (gk : str) (fs : list field) : four table :=
  {| q_dotted := as_dotted gk fs;
     q_dcls := as_dataclass (dashes ++ gk) fs;
     q_cls := as_class_group gk fs;
     q_inner := as_inner_parser (dashes ++ gk) fs |}.

Definition four_all2 {A B} (f : A -> B -> bool) (a : four A) (b : four B) : bool :=
  f (q_dotted a) (q_dotted b) && f (q_dcls a) (q_dcls b) && f (q_cls a) (q_cls b) && f (q_inner a) (q_inner b).

(* the model's answer against one observed answer *)
Definition run_agrees (pv jl : str -> val) (T : table) (inp : input) (o : style_run) : bool :=
  match run pv jl T inp, sr_out o, sr_dump o with
  | Ok (c, d), OOk c', Some (d', _) => ns_eqb c c' && ns_eqb d d'
  | Reject, OReject, None => true
  | Exited, OExit, None => true
  | _, _, _ => false
  end.

Definition leaf_rows (T : table) : list row := filter (fun r => negb (is_load r)) (t_rows T).
Definition same_leaves (a b : table) : bool :=
  list_eqb row_eqb (leaf_rows a) (leaf_rows b)
  && incl_str (t_required a) (t_required b) && incl_str (t_required b) (t_required a).

Definition dump_text_eqb (a b : option (ns * str)) : bool :=
  match a, b with
  | None, None => true
  | Some x, Some y => ns_eqb (fst x) (fst y) && str_eqb (snd x) (snd y)
  | _, _ => false
  end.
Definition same_answer (a b : style_run) : bool :=
  out_eqb (sr_out a) (sr_out b) && dump_text_eqb (sr_dump a) (sr_dump b)
  && match sr_out a with OOther => false | _ => true end.

Definition judge1 (c : case) : verdict :=
  match c with
  | CTable gk fs obs =>
      {| v_model := four_all2 table_eqb (model_tables gk fs) obs;
         v_class := finding_class (fun s => VStr s) gk fs {| i_env := []; i_entry := EArgs [] |};
         v_spec := same_leaves (q_dotted obs) (q_dcls obs) && table_eqb (q_dcls obs) (q_cls obs)
                   && table_eqb (q_cls obs) (q_inner obs) |}
  | CRun gk fs inp pvt jlt obs =>
      let pv := tab_fun pvt in
      let jl := tab_fun jlt in
      {| v_model := four_all2 (fun T o => run_agrees pv jl T inp o) (model_tables gk fs) obs;
         v_class := finding_class pv gk fs inp;
         v_spec := same_answer (q_dotted obs) (q_dcls obs) && same_answer (q_dcls obs) (q_cls obs)
                   && same_answer (q_cls obs) (q_inner obs) |}
  end.

(* Inside a finding class the implementation must still behave as the faithful model (bug for bug) or as the
   property demands; a case explained by neither is reported under the unlisted class 99 (a violation). *)
Definition strict (v : verdict) : verdict :=
  if negb (v_model v) && negb (v_spec v) && negb (N.eqb (v_class v) 0)
  then {| v_model := false; v_class := 99; v_spec := false |} else v.

Definition judge (cs : list case) := judge_all (fun c => strict (judge1 c)) cs.

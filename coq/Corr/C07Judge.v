(* Correspondence judge for C07.  Two kinds of cases:
     CTable : a group key, the declared field list fs, the normal form nfs the harness declared the two
              add_argument styles from, and the action tables observed on the four real parsers
     CRun   : the same declaration, one input, the observed external loaders (as finite tables) and what each of the
              four real parsers answered (parse result or rejection, dumped content and dump text)
   v_model : nfs is Model.C07Decl.norm fs, and the compilers of Model/C07Decl.v give exactly the observed tables /
             Model/C07Parse.v run on the model tables gives exactly the observed answers, for all four styles;
   v_class : Model.C07Parse.finding_class — the same function the theorem C07_four_styles_agree is guarded with;
   v_spec  : Spec/C07Spec.v, on the observations only. *)
From JV Require Import Lib.Base Model.C07Decl Model.C07Parse Spec.C07Spec.

Inductive case :=
| CTable (gk : str) (fs nfs : list field) (obs : four table)
| CRun (gk : str) (fs nfs : list field) (inp : input) (pvt jlt : list (str * val)) (obs : four style_run).

Definition tab_fun (t : list (str * val)) (s : str) : val :=
  match lookup s t with Some v => v | None => VStr s end.

(* fixed = false: the unchanged tree; fixed = true: with fixes/C07-inner-hyphen-required.patch applied *)
Definition model_tables (fixed : bool) (gk : str) (fs : list field) : four table :=
  {| q_dotted := as_dotted gk (norm fs);
     q_dcls := as_dataclass (dashes ++ gk) fs;
     q_cls := as_class_group gk fs;
     q_inner := if fixed then as_inner_parser_fixed (dashes ++ gk) (norm fs)
                else as_inner_parser (dashes ++ gk) (norm fs) |}.

Definition four_all2 {A B} (f : A -> B -> bool) (a : four A) (b : four B) : bool :=
  f (q_dotted a) (q_dotted b) && f (q_dcls a) (q_dcls b) && f (q_cls a) (q_cls b) && f (q_inner a) (q_inner b).

(* the model's answer against one observed answer *)
Definition run_agrees (pv jl : str -> val) (T : table) (inp : input) (o : style_run) : bool :=
  match run pv jl T inp, sr_out o, sr_dump o with
  | Ok (c, d), OOk c', Some (d', _) => ns_eqb c c' && ns_eqb d d'
  | Reject, OReject, None => true
  | Exited, OExit, None => true
  | _, _, _ => false
  end.

Definition norm_agrees (fs nfs : list field) : bool := list_eqb field_eqb nfs (norm fs).

Definition no_input : input := {| i_env := []; i_entry := EArgs [] |}.

Definition judge1_gen (fixed : bool) (c : case) : verdict :=
  match c with
  | CTable gk fs nfs obs =>
      {| v_model := norm_agrees fs nfs && four_all2 table_eqb (model_tables fixed gk fs) obs;
         v_class := if fixed then finding_class_fixed (fun s => VStr s) gk fs no_input
                    else finding_class (fun s => VStr s) gk fs no_input;
         v_spec := tables_agree obs |}
  | CRun gk fs nfs inp pvt jlt obs =>
      let pv := tab_fun pvt in
      let jl := tab_fun jlt in
      {| v_model := norm_agrees fs nfs
                    && four_all2 (fun T o => run_agrees pv jl T inp o) (model_tables fixed gk fs) obs;
         v_class := if fixed then finding_class_fixed pv gk fs inp else finding_class pv gk fs inp;
         v_spec := answers_agree obs |}
  end.

(* Inside a finding class the implementation must still behave as the faithful model (bug for bug) or as the
   property demands; a case explained by neither is reported under the unlisted class 99 (a violation). *)
Definition strict (v : verdict) : verdict :=
  if negb (v_model v) && negb (v_spec v) && negb (N.eqb (v_class v) 0)
  then {| v_model := false; v_class := 99; v_spec := false |} else v.

(* The judge follows the tree: a case is judged against the faithful model of the unchanged tree; when that model
   does not reproduce the observation but the model of the repaired tree does (fixes/C07-inner-hyphen-required.patch
   applied), it is judged against that one, whose guard finding_class_fixed has no class 5 (theorem
   C07_four_styles_agree_fixed).  So after the fix lands nothing has to be switched: class 5 is simply no longer
   produced (drop its open: line from known_findings/C07.txt — a regression is then an unlisted class, i.e. a
   violation).  judge_unfixed / judge_fixed pin one of the two models. *)
Definition judge1_unfixed (c : case) : verdict := strict (judge1_gen false c).
Definition judge1_fixed (c : case) : verdict := strict (judge1_gen true c).
Definition judge1 (c : case) : verdict :=
  let v := judge1_unfixed c in
  if v_model v then v else
  let w := judge1_fixed c in
  if v_model w then w else v.

Definition judge (cs : list case) := judge_all judge1 cs.
Definition judge_unfixed (cs : list case) := judge_all judge1_unfixed cs.
Definition judge_fixed (cs : list case) := judge_all judge1_fixed cs.

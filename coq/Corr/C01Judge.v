(* Correspondence judge for C01.  One case = a real parser (flat list of leaves: key, type, default), the configuration
   it accepted, a serialisation variant, and what the implementation did: the data handed to the dumper, what the
   loader made of the emitted text, the re-parsed configuration; plus, for every str / float that was written, how
   PyYAML treats it on its own (written plain?  loaded as what?  text of the float). *)
From JV Require Import Lib.Base Lib.Regex Model.TyVal Model.Scalar Model.C01Conf Model.C01Guard Gen.C01Tables.

Record case := {
  c_leaves : list (leaf * val);
  c_var : variant;
  c_strs : list (str * (bool * option val));        (* s, written plain on its own, yaml_load s (None = raised) *)
  c_floats : list (fl * (str * str));               (* float, YAML text, JSON text *)
  c_dumped : option (list (option val));            (* per leaf: the entry handed to the dumper (None = no entry) *)
  c_reloaded : option (list (option val));          (* per leaf: the entry the loader returns for the text *)
  c_out : option (list val);                        (* the re-parsed configuration, or rejected *)
  c_after : option (list val);                      (* the configuration object that was serialised, looked at again after the
                                                       serialisation (None = not observed: print_config serialises inside
                                                       its own parse) *)
  c_req_sub : bool;                                 (* the serialisation is done by a parser with a REQUIRED subcommand *)
  c_sub : option str                                (* ... that has the subcommand whose options live under this prefix *)
}.

Definition missing : val := VOpaque [109;105;115;115;105;110;103]%N [].

Fixpoint str_get {A} (s : str) (l : list (str * A)) : option A :=
  match l with [] => None | (k, x) :: l' => if str_eqb s k then Some x else str_get s l' end.
Fixpoint fl_get {A} (x : fl) (l : list (fl * A)) : option A :=
  match l with [] => None | (k, y) :: l' => if fl_eqb x k then Some y else fl_get x l' end.

Definition c_yl (c : case) (s : str) : option val :=
  match str_get s (c_strs c) with Some (_, r) => r | None => Some missing end.
Definition c_plain (c : case) (s : str) : bool :=
  match str_get s (c_strs c) with Some (p, _) => p | None => false end.
Definition c_yrepr (c : case) (x : fl) : str := match fl_get x (c_floats c) with Some (y, _) => y | None => [] end.
Definition c_jrepr (c : case) (x : fl) : str := match fl_get x (c_floats c) with Some (_, j) => j | None => [] end.

Definition oveq (a b : option val) : bool :=
  match a, b with Some x, Some y => veq x y | None, None => true | _, _ => false end.

Definition entry_opt (e : entry) : option (option val) :=
  match e with EErr => None | EAbsent => Some None | EPresent j => Some (Some j) end.

Definition model_dumped (c : case) : option (list (option val)) :=
  if dump_crashes (c_req_sub c) (c_var c) then None else
  map_opt (fun lw => entry_opt (dump_entry (c_yl c) (leaf_var (c_sub c) (c_var c) (fst lw)) (fst lw) (snd lw))) (c_leaves c).

Definition model_reload (c : case) (j : val) : val :=
  reload (c_plain c) (c_yrepr c) (c_jrepr c) dumper_table loader_table (vr_fmt (c_var c)) j.

Definition model_out (c : case) : option (list val) :=
  roundtrip_top (c_yl c) (c_plain c) (c_yrepr c) (c_jrepr c) dumper_table loader_table (c_req_sub c) (c_sub c) (c_var c) (c_leaves c).

Definition olist_eqb {A} (e : A -> A -> bool) (a b : option (list A)) : bool :=
  match a, b with Some x, Some y => list_eqb e x y | None, None => true | _, _ => false end.

(* characters for which "plain text = one plain scalar" needs no knowledge of YAML's indicators *)
Definition safe_char (c : N) : bool :=
  (N.leb 48 c && N.leb c 57) || (N.leb 65 c && N.leb c 90) || (N.leb 97 c && N.leb c 122)
  || N.eqb c 95 || N.eqb c 46 || N.eqb c 43 || N.eqb c 45 || N.eqb c 126.

(* the scalar model against PyYAML, string by string and float by float *)
Definition str_tie (e : str * (bool * option val)) : bool :=
  let '(s, (plain, r)) := e in
  if plain then
    tag_eqb (resolve dumper_table s) TgStr
    && (if forallb safe_char s
        then match r with Some x => veq (cres_val (yaml_scalar loader_table s)) x | None => false end
        else true)
  else true.

Definition float_tie (e : fl * (str * str)) : bool :=
  let '(x, (y, j)) := e in
  matches yaml_float_out y && tag_eqb (resolve dumper_table y) TgFloat
  && veq (cres_val (yaml_scalar loader_table y)) (VFloat x)
  && matches json_float_out j
  && (if nonfinite x then true else veq (cres_val (yaml_scalar loader_table j)) (VFloat x)).

Definition cls (c : case) : N := top_class (c_yl c) (c_req_sub c) (c_sub c) (c_var c) (c_leaves c).

(* the text layer is outside the model where the trusted emitter/scanner assumption is known to be false (a str
   with a character of bad_char somewhere in the dumped data) or a second YAML library re-emits the text *)
Definition text_modelled (c : case) : bool :=
  negb (vr_comments (c_var c))
  && negb (existsb (fun lw => has_null_enum (snd lw)) (c_leaves c))   (* the `val == default` early-out is not modelled *)
  && match model_dumped c with
     | Some d => forallb (fun e => match e with Some j => negb (has_bad_str (vr_fmt (c_var c)) j) | None => true end) d
     | None => true
     end.

Fixpoint has_data (t : cty) : bool :=
  match t with
  | CData _ | CSub _ => true
  | CUnion ts | CTuple ts => existsb has_data ts
  | CList t1 | CDict _ t1 | CTupleVar t1 | CSet t1 => has_data t1
  | _ => false
  end.

(* a dataclass-typed value goes through a nested YAML text already while it is serialised: where the text layer is
   outside the model, so is the data handed to the outer dumper *)
Definition dumped_modelled (c : case) : bool :=
  negb (existsb (fun lw => has_data (lf_ty (fst lw))) (c_leaves c)
        && existsb (fun lw => has_bad_str FYaml (snd lw)) (c_leaves c)).     (* the nested text is always YAML *)

(* save()'s skip_none inside a dataclass-typed value (finding class 1): what the parser makes of the emptied nested
   mappings (`lim: {}`) is not modelled; the property verdict does not depend on it *)
Definition nested_none_dropped (c : case) : bool :=
  vr_skip_none (c_var c)
  && existsb (fun lw => none_loss (top_fill (lf_ty (fst lw))) (lf_ty (fst lw)) (snd lw)) (c_leaves c).

Definition after_same (c : case) : bool :=
  match c_after c with None => true | a => olist_eqb veq a (Some (map snd (c_leaves c))) end.

(* the premise of C01_dump_parse_roundtrip_simple about the real parser: a leaf of the container grammar holds None or a
   value of its type (wt) — whatever the parser was given (strings, ints for floats, lists for tuples) *)
Definition simple_tie (c : case) : bool :=
  forallb (fun lw => if simple_ty (lf_ty (fst lw)) then leaf_simple lw || negb (N.eqb (cls c) 0) else true) (c_leaves c).

Definition judge1 (c : case) : verdict :=
  {| v_model :=
       simple_tie c &&
       (if negb (dumped_modelled c) then true
        else if vr_comments (c_var c) then match c_dumped c with None => true | d => olist_eqb oveq (model_dumped c) d end
        else olist_eqb oveq (model_dumped c) (c_dumped c))
       && forallb str_tie (c_strs c) && forallb float_tie (c_floats c) && after_same c
       && (if text_modelled c then
             match c_dumped c with
             | Some d => olist_eqb oveq (Some (map (option_map (model_reload c)) d)) (c_reloaded c)
             | None => true
             end
             && (if nested_none_dropped c then true else olist_eqb veq (model_out c) (c_out c))
           else true);
     v_class := cls c;
     (* "re-parse == the configuration": the configuration is the object handed to dump / save, which therefore has to
        be, after the call, what it was before (the value model has no mutation: serialising returns new values) *)
     v_spec := olist_eqb veq (c_out c) (Some (map snd (c_leaves c))) && after_same c |}.

Definition judge (cs : list case) := judge_all judge1 cs.

(* kept so that JUDGE = "judge_fixed" (the name used while fixes/C01-skip-default-trims-dict-leaf.patch was pending)
   still resolves: the model itself now has the repaired behaviour (/repo d576475) *)
Definition judge_fixed (cs : list case) := judge cs.

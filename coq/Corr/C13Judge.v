(* Correspondence judge for C13. A case is a DSL program, the class that is resolved / instantiated,
   and what the real code did: type.mro(), get_signature_parameters (name, annotation, default, kind,
   tuple-origin), the argument names add_class_arguments created, and the outcome of really calling
   the class with several keyword sets (CPython).
     v_model : Model.resolve reproduces the offered list and the parser names, the model's C3 gives the
               observed MRO, and Spec.call reproduces every observed call outcome (both semantics tied)
     v_class : KwargsGuard.klass_top (0 = hypotheses of the theorems hold)
     v_spec  : the property, decided from the OBSERVED offered list with Spec.call (exact_b), and no
               observed call with offered names only was refused a keyword *)
From JV Require Import Lib.Base Model.Kwargs Model.KwargsGuard Spec.KwargsSpec.

Record case := { c_prog : prog; c_cls : nat; c_mro : list nat; c_offered : list rparam;
                 c_parser : list str; c_trials : list (list str * outcome) }.

Definition FUEL : nat := 40.

Definition rd_eqb (a b : rdflt) : bool :=
  match a, b with
  | RReq, RReq | RCond, RCond => true
  | RVal k z, RVal k' z' => N.eqb k k' && Z.eqb z z'
  | _, _ => false
  end.

Definition rparam_eqb (a b : rparam) : bool :=
  str_eqb (r_name a) (r_name b) && list_eqb N.eqb (r_ann a) (r_ann b) && rd_eqb (r_def a) (r_def b)
  && Bool.eqb (r_kwonly a) (r_kwonly b) && Bool.eqb (r_otup a) (r_otup b).

Definition subset_str (a b : list str) : bool := forallb (fun x => mem_str x b) a.

Definition judge1 (c : case) : verdict :=
  let P := c_prog c in
  {| v_model :=
       match resolve FUEL P (c_cls c) with
       | Ok r => list_eqb rparam_eqb r (c_offered c) && list_eqb str_eqb (names r) (c_parser c)
       | Err _ => false
       end
       && match c3 FUEL P (c_cls c) with Some m => list_eqb Nat.eqb m (c_mro c) | None => false end
       && forallb (fun t => outcome_eqb (fst (call FUEL P (c_cls c) (fst t))) (snd t)) (c_trials c);
     v_class := klass_top FUEL P (c_cls c);
     v_spec := exact_b FUEL P (c_cls c) (c_offered c)
               && forallb (fun t => negb (subset_str (fst t) (names (c_offered c)))
                                    || negb (rejected (snd t))) (c_trials c) |}.

Definition judge (cs : list case) := judge_all judge1 cs.

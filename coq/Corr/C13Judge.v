(* Correspondence judge for C13. A case is a DSL program, the class that is resolved / instantiated,
   and what the real code did: type.mro(), get_signature_parameters (name, annotation, default, kind,
   tuple-origin), the argument names add_class_arguments created, and the outcome of really calling
   the class with several keyword sets (CPython).
     v_model : Model.resolve reproduces the offered list and the parser names, the model's C3 gives the
               observed MRO, and Spec.call reproduces every observed call outcome (both semantics tied)
     v_class : KwargsGuard.klass_top (0 = hypotheses of the theorems hold); a finding class is kept only when
               the faithful model reproduces the observation, otherwise 9 (not a listed finding)
     v_spec  : the property, decided from the OBSERVED offered list with Spec.call (exact_b), no observed call
               with offered names only was refused a keyword, and — when other callables of the program were
               resolved earlier in the same process — the offered list is the one a pristine process gives *)
From JV Require Import Lib.Base Model.Kwargs Model.KwargsGuard Model.C13KwargsFx Spec.KwargsSpec.

Record case := { c_prog : prog; c_cls : nat; c_mro : list nat; c_offered : list rparam;
                 c_alone : list rparam;   (* what the implementation offers in a pristine process (no history) *)
                 c_parser : list str; c_trials : list (list str * outcome) }.

Definition FUEL : nat := 40.

Definition rd_eqb (a b : rdflt) : bool :=
  match a, b with
  | RReq, RReq | RCond, RCond => true
  | RVal k z, RVal k' z' => N.eqb k k' && Z.eqb z z'
  | _, _ => false
  end.

Definition rparam_eqb (a b : rparam) : bool :=
  str_eqb (r_name a) (r_name b) && list_eqb N.eqb (r_ann a) (r_ann b) && rd_eqb (r_def a) (r_def b)
  && Bool.eqb (r_kwonly a) (r_kwonly b) && Bool.eqb (r_otup a) (r_otup b).

Definition subset_str (a b : list str) : bool := forallb (fun x => mem_str x b) a.

Definition model_agrees (c : case) : bool :=
  let P := c_prog c in
  match resolve FUEL P (c_cls c) with
  | Ok r => list_eqb rparam_eqb r (c_offered c) && list_eqb str_eqb (names r) (c_parser c)
  | Err _ => false
  end
  && match c3 FUEL P (c_cls c) with Some m => list_eqb Nat.eqb m (c_mro c) | None => false end
  && forallb (fun t => outcome_eqb (fst (call FUEL P (c_cls c) (fst t))) (snd t)) (c_trials c).

(* A finding class only explains an observation that the faithful model reproduces: outside the guard,
   an implementation that does something ELSE than the modelled defect gets class 9, which is not a
   listed finding (a spec failure there is reported as a violation, not absorbed by a known finding;
   a repaired implementation has v_spec = true there and is fine). *)
Definition judge1 (c : case) : verdict :=
  let P := c_prog c in
  let k := klass_top FUEL P (c_cls c) in
  let ma := model_agrees c in
  {| v_model := ma;
     v_class := if N.eqb k 0 || ma then k else 9%N;
     v_spec := exact_b FUEL P (c_cls c) (c_offered c)
               && list_eqb rparam_eqb (c_offered c) (c_alone c)   (* the answer does not depend on the history *)
               && forallb (fun t => negb (subset_str (fst t) (names (c_offered c)))
                                    || negb (rejected (snd t))) (c_trials c) |}.

Definition judge (cs : list case) := judge_all judge1 cs.

(* ---- after some of fixes/C13-*.patch have been applied to the implementation --------------------
   tie/props/c13.py sets JUDGE = "(judge_fx {| fx_mro := ..; fx_pop := ..; fx_meth := ..; fx_crash := .. |})"
   from its FIXES_APPLIED table. The model is then the repaired resolver (Model/C13KwargsFx.v), the finding
   classes are recomputed for it and a repaired class is no longer a listed finding: a recurrence is a
   violation. Inside the guard of the theorems (klass_top = 0, stated for the unrepaired model) the repaired
   model must in addition give the same answer as the unrepaired one, so that the theorems still speak
   about what the implementation does.  With all four repairs the guard is the wider klass_top_inh
   (C13_resolver_sound_inherited_init, stated for the repaired resolver itself): classes that inherit
   __init__ are inside. *)
Definition res_params_eqb (a b : res (list rparam)) : bool :=
  match a, b with
  | Ok x, Ok y => list_eqb rparam_eqb x y
  | _, _ => false
  end.

Definition model_agrees_fx (fx : fixes) (c : case) : bool :=
  let P := c_prog c in
  match resolve_fx fx FUEL P (c_cls c) with
  | Ok r => list_eqb rparam_eqb r (c_offered c) && list_eqb str_eqb (names r) (c_parser c)
  | Err _ => false
  end
  && match c3 FUEL P (c_cls c) with Some m => list_eqb Nat.eqb m (c_mro c) | None => false end
  && forallb (fun t => outcome_eqb (fst (call FUEL P (c_cls c) (fst t))) (snd t)) (c_trials c).

Definition judge1_fx (fx : fixes) (c : case) : verdict :=
  let P := c_prog c in
  let k0 := klass_top FUEL P (c_cls c) in
  (* hypothesis of C13_resolver_sound_inherited_init (stated for resolve_fx all_fixes): the class may inherit
     __init__; the frame of the inherited __init__ at its own MRO position is inside the proved fragment *)
  let inh := fx_mro fx && fx_pop fx && fx_meth fx && fx_crash fx
             && N.eqb (klass_top_inh FUEL P (c_cls c)) 0 in
  let k := klass_top_fx fx FUEL P (c_cls c) in
  let ma := model_agrees_fx fx c in
  {| v_model := ma
                && (negb (N.eqb k0 0)
                    || res_params_eqb (resolve FUEL P (c_cls c)) (resolve_fx fx FUEL P (c_cls c)));
     v_class := if N.eqb k0 0 || inh then 0%N
                else if ma && listed_fx fx k then k else 9%N;
     v_spec := exact_b FUEL P (c_cls c) (c_offered c)
               && list_eqb rparam_eqb (c_offered c) (c_alone c)   (* the answer does not depend on the history *)
               && forallb (fun t => negb (subset_str (fst t) (names (c_offered c)))
                                    || negb (rejected (snd t))) (c_trials c) |}.

Definition judge_fx (fx : fixes) (cs : list case) := judge_all (judge1_fx fx) cs.

(* diagnostics (not used by bin/check): the pure tie — every case on which the model does not reproduce
   the observation, whatever its class *)
Definition judge_tie (cs : list case) :=
  judge_all (fun c => {| v_model := model_agrees c; v_class := 0%N; v_spec := true |}) cs.
Definition judge_fx_tie (fx : fixes) (cs : list case) :=
  judge_all (fun c => {| v_model := model_agrees_fx fx c; v_class := 0%N; v_spec := true |}) cs.

(* Correspondence judge for C04: a case is one parse call (parser, default config files, environment,
   entry point with its command line / string / object) together with what the real parser returned:
   the value of every declared key in declaration order and whether any other (non-meta) key was
   left in the result, or None when the call raised. *)
From JV Require Import Lib.Base Lib.C04Base Model.C04Sources Model.C04Sub Spec.C04Spec Model.C04Wf.

(* k_sub = Some (NAME, the subcommand's declarations, its environment variables, the items after the token,
   the value of PREFIX_SUBCOMMAND if set):
   the call is parse_args(items of k_call ++ [NAME] ++ those items); observed are the parent's keys, then
   the subcommand's keys NAME.key. *)
Record case := { k_call : call;
                 k_sub : option (name * parser * list (tpath * val) * list arg * option name);
                 k_obs : option (list val * bool) }.

Definition scall_of (c : call) (s : name * parser * list (tpath * val) * list arg * option name) : scall :=
  let '(nm, ps, env, argv, envsub) := s in
  {| s_parent := c; s_name := nm; s_sub := ps; s_subenv := env; s_envsub := envsub; s_subargv := argv |}.

Definition agree_model_sub (fx : fixes) (sc : scall) (obs : option (list val * bool)) : bool :=
  let p := all_decls sc in
  match pipeline_sub_fx fx sc, obs with
  | Ok t, Some (vals, extra) =>
      list_eqb val_eqb (observe_values p t) vals && Bool.eqb (observe_extra p t) extra
  | Unrecognized, None => true
  | _, _ => false
  end.

Definition agree_spec_sub (sc : scall) (obs : option (list val * bool)) : bool :=
  match obs with
  | Some (vals, extra) => list_eqb val_eqb (final_values_sub sc) vals && negb extra
  | None => negb (wf_scall sc)
  end.

Definition agree_model (c : case) : bool :=
  let p := c_parser (k_call c) in
  match pipeline (k_call c), k_obs c with
  | Ok t, Some (vals, extra) =>
      list_eqb val_eqb (observe_values p t) vals && Bool.eqb (observe_extra p t) extra
  | Unrecognized, None => true
  | _, _ => false
  end.

(* the property: every declared key has the value of the documented fold, and nothing else is left;
   only a call outside the well-formed space may be rejected *)
Definition agree_spec (c : case) : bool :=
  match k_obs c with
  | Some (vals, extra) => list_eqb val_eqb (final_values (k_call c)) vals && negb extra
  | None => negb (wf_call (k_call c))
  end.

Definition judge1_fx (fx : fixes) (c : case) : verdict :=
  match k_sub c with
  | None =>
      {| v_model := agree_model c;
         v_class := call_class (k_call c);
         v_spec := agree_spec c |}
  | Some s =>
      let sc := scall_of (k_call c) s in
      let m := agree_model_sub fx sc (k_obs c) in
      let k := scall_class_fx (fx_append fx) (fx_section fx) (fx_envsub fx) (fx_leaf fx) sc in
      (* a finding class of the subcommand level only counts when the faithful model reproduces the
         observation; any other failure on such an input is class 9 (never a listed finding) *)
      {| v_model := m;
         v_class := if (N.leb 3 k && N.leb k 6 && negb m)%bool then 9%N else k;
         v_spec := agree_spec_sub sc (k_obs c) |}
  end.

Definition judge1 : case -> verdict := judge1_fx nofix.
Definition judge (cs : list case) := judge_all judge1 cs.

(* the judges for a tree with the proposed repairs applied (tie/props/c04.py JUDGE) *)
Definition judge_fixed_append (cs : list case) := judge_all (judge1_fx {| fx_append := true; fx_section := false; fx_envsub := false; fx_leaf := false |}) cs.
Definition judge_fixed_section (cs : list case) := judge_all (judge1_fx {| fx_append := false; fx_section := true; fx_envsub := false; fx_leaf := false |}) cs.
Definition judge_fixed (cs : list case) := judge_all (judge1_fx {| fx_append := true; fx_section := true; fx_envsub := false; fx_leaf := false |}) cs.
Definition judge_fixed_envsub (cs : list case) := judge_all (judge1_fx {| fx_append := false; fx_section := false; fx_envsub := true; fx_leaf := false |}) cs.
Definition judge_fixed_section_envsub (cs : list case) := judge_all (judge1_fx {| fx_append := false; fx_section := true; fx_envsub := true; fx_leaf := false |}) cs.
Definition judge_fixed_section_envsub_leaf (cs : list case) :=
  judge_all (judge1_fx {| fx_append := false; fx_section := true; fx_envsub := true; fx_leaf := true |}) cs.

(* Correspondence judge for C04: a case is one parse call (parser, default config files, environment,
   entry point with its command line / string / object) together with what the real parser returned:
   the value of every declared key in declaration order and whether any other (non-meta) key was
   left in the result, or None when the call raised. *)
From JV Require Import Lib.Base Lib.C04Base Model.C04Sources Spec.C04Spec Model.C04Wf.

Record case := { k_call : call; k_obs : option (list val * bool) }.

Definition agree_model (c : case) : bool :=
  let p := c_parser (k_call c) in
  match pipeline (k_call c), k_obs c with
  | Ok t, Some (vals, extra) =>
      list_eqb val_eqb (observe_values p t) vals && Bool.eqb (observe_extra p t) extra
  | Unrecognized, None => true
  | _, _ => false
  end.

(* the property: every declared key has the value of the documented fold, and nothing else is left;
   only a call outside the well-formed space may be rejected *)
Definition agree_spec (c : case) : bool :=
  match k_obs c with
  | Some (vals, extra) => list_eqb val_eqb (final_values (k_call c)) vals && negb extra
  | None => negb (wf_call (k_call c))
  end.

Definition judge1 (c : case) : verdict :=
  {| v_model := agree_model c;
     v_class := call_class (k_call c);
     v_spec := agree_spec c |}.

Definition judge (cs : list case) := judge_all judge1 cs.

(* C15 — proofs about Model/C15Links. Main result: link_invariant_finish. *)
From JV Require Import Lib.Base Lib.C15Val Model.C15Links.

(* ------------------------------------------------------------------ association lists *)
Lemma str_eqb_sym a b : str_eqb a b = str_eqb b a.
Proof.
  destruct (str_eqb a b) eqn:E; destruct (str_eqb b a) eqn:F; auto.
  - apply str_eqb_spec in E. subst. rewrite str_eqb_refl in F. discriminate.
  - apply str_eqb_spec in F. subst. rewrite str_eqb_refl in E. discriminate.
Qed.

Lemma alookup_aset_same k v m : alookup k (aset k v m) = Some v.
Proof.
  induction m as [|[k' v'] m IH]; simpl.
  - rewrite str_eqb_refl. reflexivity.
  - destruct (str_eqb k k') eqn:E; simpl; rewrite E; auto.
Qed.

Lemma alookup_aset_other k k' v m : str_eqb k k' = false -> alookup k' (aset k v m) = alookup k' m.
Proof.
  intro H. induction m as [|[k2 v2] m IH]; simpl.
  - rewrite str_eqb_sym, H. reflexivity.
  - destruct (str_eqb k k2) eqn:E; simpl.
    + apply str_eqb_spec in E. subst k2. rewrite str_eqb_sym, H. reflexivity.
    + destruct (str_eqb k' k2); auto.
Qed.

Lemma alookup_aremove_same k m : alookup k (aremove k m) = None.
Proof.
  induction m as [|[k' v'] m IH]; simpl; auto.
  destruct (str_eqb k k') eqn:E; simpl; auto. rewrite E. exact IH.
Qed.

Lemma alookup_aremove_other k k' m : str_eqb k k' = false -> alookup k' (aremove k m) = alookup k' m.
Proof.
  intro H. induction m as [|[k2 v2] m IH]; simpl; auto.
  destruct (str_eqb k k2) eqn:E; simpl.
  - apply str_eqb_spec in E. subst k2. rewrite str_eqb_sym, H. exact IH.
  - destruct (str_eqb k' k2); auto.
Qed.

(* ------------------------------------------------------------------ keys *)
Lemma is_prefix_refl a : is_prefix a a = true.
Proof. induction a; simpl; auto. rewrite str_eqb_refl. auto. Qed.

Lemma is_prefix_app a b : is_prefix a (a ++ b) = true.
Proof. induction a; simpl; auto. rewrite str_eqb_refl. auto. Qed.

Lemma is_prefix_split a b : is_prefix a b = true -> b = a ++ skipn (length a) b.
Proof.
  revert b. induction a as [|x a IH]; intros [|y b] H; simpl in *; auto; try discriminate.
  apply andb_true_iff in H. destruct H as [H1 H2]. apply str_eqb_spec in H1. subst. f_equal. auto.
Qed.

Lemma is_prefix_trans a b c : is_prefix a b = true -> is_prefix b c = true -> is_prefix a c = true.
Proof.
  revert b c. induction a as [|x a IH]; intros [|y b] [|z c] H1 H2; simpl in *; auto; try discriminate.
  apply andb_true_iff in H1. apply andb_true_iff in H2. destruct H1 as [A B], H2 as [C D].
  apply str_eqb_spec in A. apply str_eqb_spec in C. subst. rewrite str_eqb_refl. simpl. eauto.
Qed.

Lemma is_prefix_app_l a b c : is_prefix (a ++ b) c = true -> is_prefix a c = true.
Proof. intro H. eapply is_prefix_trans; [apply is_prefix_app | exact H]. Qed.

Lemma comparable_sym a b : comparable a b = comparable b a.
Proof. unfold comparable. apply orb_comm. Qed.

Lemma comparable_false_of a b :
  strictly_comparable a b = false -> a <> b -> comparable a b = false.
Proof.
  unfold strictly_comparable. intros H N. destruct (comparable a b); auto.
  simpl in H. apply negb_false_iff in H. apply key_eqb_spec in H. contradiction.
Qed.

(* ------------------------------------------------------------------ get / set *)
Lemma get_app v a b : get v (a ++ b) = match get v a with Some w => get w b | None => None end.
Proof.
  revert v. induction a as [|s a IH]; intro v; simpl; auto.
  destruct v; auto. destruct (alookup s m); auto.
Qed.

Lemma get_set_same v k x : get (set v k x) k = Some x.
Proof.
  revert v. induction k as [|s k IH]; intro v; simpl; auto.
  rewrite alookup_aset_same. apply IH.
Qed.

Lemma get_nonmap_cons v s k : (forall m, v <> VMap m) -> get v (s :: k) = None.
Proof. intro H. destruct v; simpl; auto. exfalso. eapply H; eauto. Qed.

Lemma get_set_incomp k : forall k' v x, comparable k k' = false -> get (set v k x) k' = get v k'.
Proof.
  induction k as [|s k IH]; intros k' v x H.
  - unfold comparable in H. simpl in H. discriminate.
  - destruct k' as [|s' k'].
    + unfold comparable in H. simpl in H. try rewrite orb_true_r in H. discriminate.
    + unfold comparable in H. simpl in H.
      destruct (str_eqb s s') eqn:E.
      * apply str_eqb_spec in E. subst s'. rewrite str_eqb_refl in H. simpl in H.
        assert (C : comparable k k' = false) by exact H.
        simpl. rewrite alookup_aset_same. rewrite IH by exact C.
        assert (K : k' <> []).
        { intro; subst k'. unfold comparable in C. simpl in C. try rewrite orb_true_r in C. discriminate. }
        destruct k' as [|s2 k2]; [congruence|].
        destruct v; simpl; auto.
        destruct (alookup s m); auto.
      * simpl. rewrite alookup_aset_other by exact E.
        destruct v; simpl; auto.
  Qed.

(* ------------------------------------------------------------------ well-formed link actions *)
Definition wf_alink (a : alink) : Prop :=
  map fst (al_srcs a) = al_src a /\
  match al_kind a with
  | TgtPlain => True
  | TgtInit d c => al_tgt a = d ++ c /\ c <> []
  end.

Lemma mapM_pair_fst {A B} (f : A -> option B) (l : list A) r :
  mapM (fun s => option_map (pair s) (f s)) l = Some r -> map fst r = l.
Proof.
  revert r. induction l as [|x l IH]; intros r H; simpl in H.
  - inversion H. reflexivity.
  - destruct (f x); simpl in H; try discriminate.
    destruct (mapM (fun s => option_map (pair s) (f s)) l); try discriminate.
    inversion H. simpl. f_equal. auto.
Qed.

Lemma add_link_links p l p' :
  add_link p l = Ok p' ->
  exists a, p_links p' = p_links p ++ [a] /\ al_link a = l /\ wf_alink a /\ init_checks (p_links p) l = true.
Proof.
  unfold add_link. destruct (init_checks (p_links p) l) eqn:IC; simpl; [|discriminate].
  destruct (mapM _ (l_src l)) as [srcs|] eqn:HS; [|discriminate].
  apply mapM_pair_fst in HS.
  destruct (find_parent (p_acts p) (l_tgt l)) as [d|]; [|discriminate].
  destruct (key_eqb (d_key d) (l_tgt l)).
  - intro H. inversion H; subst; clear H. simpl. eexists. split; [reflexivity|].
    split; [reflexivity|]. split; [|reflexivity]. split; [exact HS|exact I].
  - destruct (is_class_kind (d_kind d)); [|discriminate].
    destruct (is_prefix (d_key d ++ [init_args]) (l_tgt l) && Nat.ltb (S (length (d_key d))) (length (l_tgt l))) eqn:P;
      [|discriminate].
    intro H. inversion H; subst; clear H. simpl. eexists. split; [reflexivity|].
    split; [reflexivity|]. split; [|reflexivity].
    split; [exact HS|]. simpl. unfold al_tgt. simpl.
    apply andb_true_iff in P. destruct P as [P1 P2].
    apply is_prefix_app_l in P1. split; [apply is_prefix_split; exact P1|].
    apply Nat.ltb_lt in P2. intro E.
    assert (L : length (skipn (length (d_key d)) (l_tgt l)) = 0) by (rewrite E; reflexivity).
    rewrite skipn_length in L. lia.
Qed.

(* what _initial_input_checks guarantees about the accepted links, in application order:
   a later link's target is neither an earlier target nor an earlier source *)
Fixpoint eq_free (ls : list link) : Prop :=
  match ls with
  | [] => True
  | l :: ls' => (forall l', In l' ls' -> l_tgt l' <> l_tgt l /\ ~ In (l_tgt l') (l_src l)) /\ eq_free ls'
  end.

Lemma eq_free_snoc prev l :
  eq_free prev -> (forall x, In x prev -> l_tgt l <> l_tgt x /\ ~ In (l_tgt l) (l_src x)) -> eq_free (prev ++ [l]).
Proof.
  induction prev as [|y prev IH]; intros H N; simpl in *.
  - split; [intros ? []|exact I].
  - destruct H as [H1 H2]. split.
    + intros l' Hin. apply in_app_or in Hin. destruct Hin as [Hin|Hin].
      * apply H1; auto.
      * destruct Hin as [<-|[]]. apply N. left; reflexivity.
    + apply IH; auto.
Qed.

Lemma init_checks_sound prev l :
  init_checks prev l = true ->
  forall x, In x (map al_link prev) -> l_tgt l <> l_tgt x /\ ~ In (l_tgt l) (l_src x).
Proof.
  unfold init_checks. intro H.
  repeat (apply andb_true_iff in H; destruct H as [H ?]).
  rename H0 into TS, H1 into ST, H2 into DT.
  intros x Hx. apply in_map_iff in Hx. destruct Hx as [a [<- Ha]]. split.
  - unfold chk_double_target in DT. apply negb_true_iff in DT. intro E.
    assert (M : mem_key (l_tgt l) (map al_tgt prev) = true).
    { apply mem_key_In. apply in_map_iff. exists a. split; [|exact Ha]. unfold al_tgt. symmetry. exact E. }
    congruence.
  - unfold chk_target_is_source in TS. apply negb_true_iff in TS. intro E.
    assert (M : mem_key (l_tgt l) (flat_map al_src prev) = true).
    { apply mem_key_In. apply in_flat_map. exists a. split; [exact Ha|exact E]. }
    congruence.
Qed.

Definition links_good (p : parser) : Prop :=
  Forall wf_alink (p_links p) /\ eq_free (map al_link (p_links p)).

Lemma add_link_good p l p' : links_good p -> add_link p l = Ok p' -> links_good p'.
Proof.
  intros [W E] H. apply add_link_links in H. destruct H as [a [L [A [WA IC]]]].
  unfold links_good. rewrite L. split.
  - apply Forall_app. split; auto.
  - rewrite map_app. simpl. rewrite A. apply eq_free_snoc; auto.
    apply init_checks_sound. exact IC.
Qed.

Lemma add_links_good ls : forall p, links_good p -> links_good (fst (add_links p ls)).
Proof.
  induction ls as [|l ls IH]; intros p G; simpl; auto.
  destruct (add_link p l) as [p'|e] eqn:A.
  - specialize (IH p' (add_link_good _ _ _ G A)). destruct (add_links p' ls). exact IH.
  - specialize (IH p G). destruct e; destruct (add_links p ls); exact IH.
Qed.

Lemma build_good ds ls : links_good (fst (build ds ls)).
Proof. apply add_links_good. split; simpl; auto. Qed.

(* ------------------------------------------------------------------ independence of the applied links *)
Fixpoint indep (ls : list alink) : Prop :=
  match ls with
  | [] => True
  | a :: ls' =>
      (forall s, In s (al_src a) -> comparable (al_tgt a) s = false) /\
      (forall b, In b ls' -> comparable (al_tgt b) (al_tgt a) = false /\
                             forall s, In s (al_src a) -> comparable (al_tgt b) s = false) /\
      indep ls'
  end.

Lemma indep_of_checks ls :
  eq_free (map al_link ls) -> overlap_free (map al_link ls) = true -> indep ls.
Proof.
  induction ls as [|a ls IH]; simpl; auto.
  intros [E1 E2] O.
  apply andb_true_iff in O. destruct O as [O O3].
  apply andb_true_iff in O. destruct O as [O1 O2].
  rewrite forallb_forall in O1. rewrite forallb_forall in O2.
  split; [|split].
  - intros s Hs. specialize (O1 s Hs). apply negb_true_iff in O1. exact O1.
  - intros b Hb.
    assert (Hb' : In (al_link b) (map al_link ls)) by (apply in_map; exact Hb).
    specialize (O2 _ Hb'). apply andb_true_iff in O2. destruct O2 as [P Q].
    destruct (E1 _ Hb') as [N1 N2].
    split.
    + apply comparable_false_of; [apply negb_true_iff; exact P | exact N1].
    + intros s Hs. rewrite forallb_forall in Q. specialize (Q s Hs).
      apply comparable_false_of; [apply negb_true_iff; exact Q|].
      intro X. apply N2. unfold al_tgt in X. rewrite X. exact Hs.
  - apply IH; auto.
Qed.

(* ------------------------------------------------------------------ links_commute: the frame of set_target_value *)
Lemma get_set_list cfg d c old new k :
  get cfg d = Some (VList old) -> c <> [] -> comparable (d ++ c) k = false ->
  get (set cfg d (VList new)) k = get cfg k.
Proof.
  intros G C H.
  destruct (comparable d k) eqn:D.
  - unfold comparable in D. apply orb_true_iff in D. destruct D as [D|D].
    + pose proof (is_prefix_split _ _ D) as HS. destruct (skipn (length d) k) as [|s r] eqn:R.
      * rewrite app_nil_r in HS. subst k. unfold comparable in H.
        rewrite is_prefix_app in H. rewrite orb_true_r in H. discriminate.
      * rewrite HS. rewrite !get_app. rewrite get_set_same. rewrite G. reflexivity.
    + unfold comparable in H. rewrite (is_prefix_trans k d (d ++ c) D (is_prefix_app d c)) in H.
      rewrite orb_true_r in H. discriminate.
  - apply get_set_incomp. exact D.
Qed.

Section WithFn.
Variable fn : nat -> list val -> option val.
Variable classes : list cls.

(* applying one link leaves every key outside its target untouched *)
Lemma set_target_frame a v cfg k :
  wf_alink a -> comparable (al_tgt a) k = false -> get (set_target a v cfg) k = get cfg k.
Proof.
  intros [_ W] H. unfold set_target. destruct (al_kind a) as [|d c].
  - apply get_set_incomp. exact H.
  - destruct W as [T C].
    assert (F : get (if has cfg (al_tgt a) then set cfg (al_tgt a) v else cfg) k = get cfg k).
    { destruct (has cfg (al_tgt a)); auto. apply get_set_incomp. exact H. }
    destruct (get cfg d) as [[| | |items|]|] eqn:G; auto.
    destruct (existsb _ items); auto.
    eapply get_set_list; eauto. rewrite <- T. exact H.
Qed.

Definition tgt_ok (a : alink) (v : val) (cfg : val) : Prop :=
  match al_kind a with
  | TgtPlain => get cfg (al_tgt a) = Some v
  | TgtInit _ _ => get cfg (al_tgt a) = None \/ get cfg (al_tgt a) = Some v
  end.

Lemma set_target_post a v cfg : wf_alink a -> tgt_ok a v (set_target a v cfg).
Proof.
  intros [_ W]. unfold tgt_ok, set_target. destruct (al_kind a) as [|d c].
  - apply get_set_same.
  - destruct W as [T C].
    assert (F : let r := if has cfg (al_tgt a) then set cfg (al_tgt a) v else cfg in
                get r (al_tgt a) = None \/ get r (al_tgt a) = Some v).
    { simpl. destruct (has cfg (al_tgt a)) eqn:Hh.
      - right. apply get_set_same.
      - left. unfold has in Hh. destruct (get cfg (al_tgt a)); [discriminate|reflexivity]. }
    simpl in F.
    destruct (get cfg d) as [[| | |items|]|] eqn:G; auto.
    destruct (existsb _ items); auto.
    left. rewrite T. rewrite get_app. rewrite get_set_same.
    destruct c as [|s c]; [congruence|reflexivity].
Qed.

(* the invariant of one link in a configuration: when all its sources are present, the compute function
   succeeds on their values and the target holds exactly the result *)
Definition holds (a : alink) (cfg : val) : Prop :=
  forall args, mapM (get cfg) (al_src a) = Some args ->
    exists v, compute fn (al_link a) args = Some v /\ tgt_ok a v cfg.

Lemma mapM_ext_in {A B} (f g : A -> option B) l : (forall x, In x l -> f x = g x) -> mapM f l = mapM g l.
Proof.
  induction l as [|x l IH]; intro H; simpl; auto.
  rewrite (H x (or_introl eq_refl)). rewrite IH; auto. intros; apply H; right; auto.
Qed.

Lemma holds_frame a cfg cfg' :
  holds a cfg -> get cfg' (al_tgt a) = get cfg (al_tgt a) ->
  (forall s, In s (al_src a) -> get cfg' s = get cfg s) -> holds a cfg'.
Proof.
  intros H T S args M.
  rewrite (mapM_ext_in (get cfg') (get cfg)) in M by exact S.
  destruct (H args M) as [v [C K]]. exists v. split; auto.
  unfold tgt_ok in *. destruct (al_kind a); rewrite T; exact K.
Qed.

Lemma gather_some cfg ss args : gather cfg ss = Ok (Some args) -> mapM (get cfg) (map fst ss) = Some args.
Proof.
  revert args. induction ss as [|[s ds] ss IH]; intros args H; simpl in *.
  - inversion H. reflexivity.
  - destruct (src_is_class ds && negb (has cfg s)); [discriminate|].
    destruct (negb (forallb (src_ok cfg) ds)); [discriminate|].
    destruct (get cfg s) as [v|]; [|discriminate].
    destruct (gather cfg ss) as [[vs|]|e]; try discriminate.
    inversion H; subst. rewrite (IH vs eq_refl). reflexivity.
Qed.

Lemma gather_skip cfg ss : gather cfg ss = Ok None -> mapM (get cfg) (map fst ss) = None.
Proof.
  induction ss as [|[s ds] ss IH]; intro H; simpl in *.
  - discriminate.
  - destruct (src_is_class ds && negb (has cfg s)) eqn:E.
    + apply andb_true_iff in E. destruct E as [_ E]. apply negb_true_iff in E.
      unfold has in E. destruct (get cfg s); [discriminate|reflexivity].
    + destruct (negb (forallb (src_ok cfg) ds)); [discriminate|].
      destruct (get cfg s) as [v|]; [|discriminate].
      destruct (gather cfg ss) as [[vs|]|e]; try discriminate.
      rewrite IH; auto.
Qed.

Lemma apply1_step a cfg cfg' :
  wf_alink a -> (forall s, In s (al_src a) -> comparable (al_tgt a) s = false) ->
  apply1 fn cfg a = Ok cfg' ->
  holds a cfg' /\ (forall k, comparable (al_tgt a) k = false -> get cfg' k = get cfg k).
Proof.
  intros W SF H. unfold apply1 in H.
  destruct (gather cfg (al_srcs a)) as [[args|]|e] eqn:G; try discriminate.
  - destruct (compute fn (al_link a) args) as [v|] eqn:C; [|discriminate].
    inversion H; subst cfg'; clear H.
    split.
    + intros args' M.
      rewrite (mapM_ext_in _ (get cfg)) in M
        by (intros s Hs; apply set_target_frame; auto).
      apply gather_some in G. destruct W as [W1 W2]. rewrite W1 in G.
      rewrite G in M. inversion M; subst args'. exists v. split; auto.
      apply set_target_post. split; auto.
    + intros k Hk. apply set_target_frame; auto.
  - inversion H; subst cfg'; clear H. split; auto.
    intros args M. apply gather_skip in G. destruct W as [W1 _]. rewrite W1 in G. congruence.
Qed.

(* links_commute + induction over the link list, in application order *)
Lemma apply_links_inv ls : forall cfg cfg',
  Forall wf_alink ls -> indep ls -> apply_links fn cfg ls = Ok cfg' ->
  (forall a, In a ls -> holds a cfg') /\
  (forall k, (forall a, In a ls -> comparable (al_tgt a) k = false) -> get cfg' k = get cfg k).
Proof.
  induction ls as [|a ls IH]; intros cfg cfg' W I H; simpl in H.
  - inversion H; subst. split; [intros ? []|auto].
  - destruct (apply1 fn cfg a) as [c1|e] eqn:A; [|discriminate].
    inversion W as [|? ? Wa Wl]; subst.
    destruct I as [I1 [I2 I3]].
    destruct (apply1_step a cfg c1 Wa I1 A) as [Ha Fa].
    destruct (IH c1 cfg' Wl I3 H) as [Hl Fl].
    split.
    + intros b [<-|Hb]; [|auto].
      apply (holds_frame a c1 cfg' Ha).
      * apply Fl. intros b Hb. apply (proj1 (I2 b Hb)).
      * intros s Hs. apply Fl. intros b Hb. apply (proj2 (I2 b Hb)). exact Hs.
    + intros k Hk. rewrite Fl by (intros b Hb; apply Hk; right; exact Hb).
      apply Fa. apply Hk. left. reflexivity.
Qed.

(* applying link b does not change any source (nor the target) of an independent link a *)
Lemma links_commute a b cfg cfg' :
  wf_alink b ->
  (forall s, In s (al_tgt a :: al_src a) -> comparable (al_tgt b) s = false) ->
  apply1 fn cfg b = Ok cfg' ->
  forall s, In s (al_tgt a :: al_src a) -> get cfg' s = get cfg s.
Proof.
  intros W I H s Hs. unfold apply1 in H.
  destruct (gather cfg (al_srcs b)) as [[args|]|e]; try discriminate.
  - destruct (compute fn (al_link b) args); [|discriminate]. inversion H; subst.
    apply set_target_frame; auto.
  - inversion H; subst. reflexivity.
Qed.

Theorem link_invariant_finish ds ls pre cfg :
  let p := fst (build ds ls) in
  overlap_free (map al_link (p_links p)) = true ->
  finish fn classes p pre = Ok cfg ->
  forall a, In a (p_links p) -> holds a cfg.
Proof.
  intros p O F a Ha. unfold finish in F.
  destruct (apply_links fn pre (p_links p)) as [c|e] eqn:A; [|discriminate].
  destruct (validate classes p c); [|discriminate]. inversion F; subst c.
  destruct (build_good ds ls) as [W E]. fold p in W, E.
  apply (proj1 (apply_links_inv (p_links p) pre cfg W (indep_of_checks _ E O) A)). exact Ha.
Qed.

Theorem link_invariant_parse ds ls x cfg :
  let p := fst (build ds ls) in
  overlap_free (map al_link (p_links p)) = true ->
  parse fn classes p x = Ok cfg ->
  forall a, In a (p_links p) -> holds a cfg.
Proof.
  intros p O F. unfold parse in F. destruct (collect p x) as [pre|e]; [|discriminate].
  eapply link_invariant_finish; eauto.
Qed.

End WithFn.

(* ------------------------------------------------------------------ target_not_required *)
Lemma remove_key_In x k l : In x (remove_key k l) -> In x l /\ x <> k.
Proof.
  unfold remove_key. intro H. apply filter_In in H. destruct H as [H1 H2]. split; auto.
  intro E. subst. apply negb_true_iff in H2.
  assert (key_eqb k k = true) by (apply key_eqb_spec; reflexivity). congruence.
Qed.

Definition req_good (p : parser) : Prop := forall a, In a (p_links p) -> ~ In (al_tgt a) (p_req p).

Lemma add_link_req p l p' : req_good p -> add_link p l = Ok p' -> req_good p'.
Proof.
  intros G H.
  assert (R : p_req p' = remove_key (l_tgt l) (p_req p)).
  { revert H. unfold add_link. destruct (negb (init_checks (p_links p) l)); [discriminate|].
    destruct (mapM _ (l_src l)); [|discriminate].
    destruct (find_parent (p_acts p) (l_tgt l)) as [d|]; [|discriminate].
    destruct (key_eqb (d_key d) (l_tgt l)) eqn:K; [|destruct (is_class_kind (d_kind d)); [|discriminate]]; swap 1 2.
    - destruct (_ && _); [|discriminate]. intro H. inversion H. reflexivity.
    - intro H. inversion H. reflexivity. }
  apply add_link_links in H. destruct H as [a [L [A _]]].
  intros b Hb Hin. rewrite R in Hin. apply remove_key_In in Hin. destruct Hin as [Hin Hne].
  rewrite L in Hb. apply in_app_or in Hb. destruct Hb as [Hb|[<-|[]]].
  - exact (G b Hb Hin).
  - apply Hne. unfold al_tgt. rewrite A. reflexivity.
Qed.

Lemma add_links_req ls : forall p, req_good p -> req_good (fst (add_links p ls)).
Proof.
  induction ls as [|l ls IH]; intros p G; simpl; auto.
  destruct (add_link p l) as [p'|e] eqn:A.
  - specialize (IH p' (add_link_req _ _ _ G A)). destruct (add_links p' ls). exact IH.
  - specialize (IH p G). destruct e; destruct (add_links p ls); exact IH.
Qed.

Theorem target_not_required_build ds ls :
  forall a, In a (p_links (fst (build ds ls))) -> ~ In (al_tgt a) (p_req (fst (build ds ls))).
Proof. apply add_links_req. intros a []. Qed.

(* ------------------------------------------------------------------ target_option_rejected *)
Lemma parse_argv_linked p k v d : forall argv cfg,
  In (Opt k v) argv -> find_act (p_acts p) k = Some (d, true) -> exists e, parse_argv p cfg argv = Err e.
Proof.
  induction argv as [|it argv IH]; intros cfg Hin F; [destruct Hin|].
  destruct Hin as [->|Hin].
  - simpl. rewrite F. eauto.
  - simpl. destruct it as [k' v'|k' v'|m].
    + destruct (find_act (p_acts p) k') as [[d' [|]]|]; eauto.
      destruct (plain_ty d'); eauto. destruct (accepts t v'); eauto.
    + destruct (find_act (p_acts p) k') as [[d' [|]]|]; eauto; destruct (d_alias d'); simpl; eauto.
      destruct (plain_ty d'); eauto. destruct (accepts t v'); eauto.
    + destruct (apply_cfg p cfg m); eauto.
Qed.

(* the same for the second spelling of the target's option *)
Lemma parse_argv_linked_alias p k v d : forall argv cfg,
  In (OptAlias k v) argv -> find_act (p_acts p) k = Some (d, true) -> exists e, parse_argv p cfg argv = Err e.
Proof.
  induction argv as [|it argv IH]; intros cfg Hin F; [destruct Hin|].
  destruct Hin as [->|Hin].
  - simpl. rewrite F. destruct (d_alias d); simpl; eauto.
  - simpl. destruct it as [k' v'|k' v'|m].
    + destruct (find_act (p_acts p) k') as [[d' [|]]|]; eauto.
      destruct (plain_ty d'); eauto. destruct (accepts t v'); eauto.
    + destruct (find_act (p_acts p) k') as [[d' [|]]|]; eauto; destruct (d_alias d'); simpl; eauto.
      destruct (plain_ty d'); eauto. destruct (accepts t v'); eauto.
    + destruct (apply_cfg p cfg m); eauto.
Qed.

Lemma find_act_mark_same acts k :
  find_act (mark_linked acts k) k
  = match find_act acts k with Some (d, _) => Some (d, true) | None => None end.
Proof.
  unfold find_act. induction acts as [|[d b] acts IH]; simpl; auto.
  destruct (key_eqb (d_key d) k) eqn:E.
  - destruct b; simpl; rewrite E; reflexivity.
  - rewrite andb_false_r. simpl. rewrite E. exact IH.
Qed.

Lemma find_act_mark_keep acts k k' d :
  find_act acts k = Some (d, true) -> find_act (mark_linked acts k') k = Some (d, true).
Proof.
  unfold find_act. induction acts as [|[d0 b] acts IH]; simpl; auto.
  intro H. destruct (negb b && key_eqb (d_key d0) k') eqn:M; simpl.
  - destruct (key_eqb (d_key d0) k) eqn:E; auto.
    inversion H; subst. simpl in M. discriminate.
  - destruct (key_eqb (d_key d0) k) eqn:E; auto.
Qed.

Definition marks_good (p : parser) : Prop :=
  forall a, In a (p_links p) -> al_kind a = TgtPlain -> exists d, find_act (p_acts p) (al_tgt a) = Some (d, true).

Lemma find_exact_find_act acts k d : find_exact acts k = Some d -> exists x, find_act acts k = Some x.
Proof.
  unfold find_exact, find_act. induction acts as [|[d0 b] acts IH]; simpl; [discriminate|].
  destruct (key_eqb (d_key d0) k); eauto. rewrite andb_false_r. auto.
Qed.

Lemma add_link_marks p l p' : marks_good p -> add_link p l = Ok p' -> marks_good p'.
Proof.
  intros G H. unfold add_link in H.
  destruct (negb (init_checks (p_links p) l)); [discriminate|].
  destruct (mapM _ (l_src l)) as [srcs|]; [|discriminate].
  destruct (find_parent (p_acts p) (l_tgt l)) as [d|] eqn:FP; [|discriminate].
  destruct (key_eqb (d_key d) (l_tgt l)) eqn:K; [|destruct (is_class_kind (d_kind d)); [|discriminate]]; swap 1 2.
  - destruct (_ && _); [|discriminate]. inversion H; subst; clear H. simpl.
    intros a Ha Hk. simpl in *. apply in_app_or in Ha. destruct Ha as [Ha|[<-|[]]]; [auto|discriminate].
  - inversion H; subst; clear H. intros a Ha Hk. simpl in *.
    apply in_app_or in Ha. destruct Ha as [Ha|[<-|[]]].
    + destruct (G a Ha Hk) as [d' Hd]. exists d'. apply find_act_mark_keep. exact Hd.
    + unfold al_tgt. simpl. rewrite find_act_mark_same.
      assert (X : exists x, find_act (p_acts p) (l_tgt l) = Some x).
      { unfold find_parent in FP. destruct (find_exact (p_acts p) (l_tgt l)) eqn:FE.
        - eapply find_exact_find_act; eauto.
        - (* the action found is an enclosing one, but its key equals the target: impossible *)
          apply key_eqb_spec in K.
          assert (Y : forall n, find_parent_from (p_acts p) (l_tgt l) n = Some d -> n <= length (l_tgt l) - 1 ->
                      length (l_tgt l) <> 0 -> False).
          { induction n as [|n IHn]; [simpl; discriminate|].
            change (find_parent_from (p_acts p) (l_tgt l) (S n))
              with (match find_exact (p_acts p) (firstn (S n) (l_tgt l)) with
                    | Some d => Some d
                    | None => find_parent_from (p_acts p) (l_tgt l) n
                    end).
            destruct (find_exact (p_acts p) (firstn (S n) (l_tgt l))) as [dd|] eqn:FX.
            - intros Q Hn Hl. assert (QQ : dd = d) by congruence. subst dd.
              unfold find_exact in FX. destruct (find _ (p_acts p)) as [x|] eqn:FF; [|discriminate].
              inversion FX; subst. apply find_some in FF. destruct FF as [_ FF].
              apply andb_true_iff in FF. destruct FF as [_ FF]. apply key_eqb_spec in FF.
              rewrite K in FF. assert (L : length (l_tgt l) = length (firstn (S n) (l_tgt l))) by (rewrite <- FF; reflexivity).
              rewrite firstn_length in L. lia.
            - intros Q Hn Hl. apply IHn; auto. lia. }
          exfalso. destruct (l_tgt l) as [|s t] eqn:TL.
          + simpl in FP. discriminate.
          + eapply Y; eauto. simpl. discriminate. }
      destruct X as [[d' b'] X]. rewrite X. eauto.
Qed.

Lemma add_links_marks ls : forall p, marks_good p -> marks_good (fst (add_links p ls)).
Proof.
  induction ls as [|l ls IH]; intros p G; simpl; auto.
  destruct (add_link p l) as [p'|e] eqn:A.
  - specialize (IH p' (add_link_marks _ _ _ G A)). destruct (add_links p' ls). exact IH.
  - specialize (IH p G). destruct e; destruct (add_links p ls); exact IH.
Qed.

Section WithFn2.
Variable fn : nat -> list val -> option val.
Variable classes : list cls.

Theorem target_option_rejected_parse ds ls env argv a v :
  let p := fst (build ds ls) in
  In a (p_links p) -> al_kind a = TgtPlain -> In (Opt (al_tgt a) v) argv ->
  exists e, parse fn classes p (InArgs env argv) = Err e.
Proof.
  intros p Ha Hk Hin.
  assert (M : marks_good p) by (apply add_links_marks; intros ? []).
  destruct (M a Ha Hk) as [d Hd].
  unfold parse, collect. destruct (defaults_and_env p env) as [cfg|e]; eauto.
  destruct (parse_argv_linked p (al_tgt a) v d argv cfg Hin Hd) as [e He]. rewrite He. eauto.
Qed.

Theorem target_option_rejected_any_spelling ds ls env argv a v :
  let p := fst (build ds ls) in
  In a (p_links p) -> al_kind a = TgtPlain ->
  In (Opt (al_tgt a) v) argv \/ In (OptAlias (al_tgt a) v) argv ->
  exists e, parse fn classes p (InArgs env argv) = Err e.
Proof.
  intros p Ha Hk Hin.
  assert (M : marks_good p) by (apply add_links_marks; intros ? []).
  destruct (M a Ha Hk) as [d Hd].
  unfold parse, collect. destruct (defaults_and_env p env) as [cfg|e]; eauto.
  destruct Hin as [Hin|Hin].
  - destruct (parse_argv_linked p (al_tgt a) v d argv cfg Hin Hd) as [e He]. rewrite He. eauto.
  - destruct (parse_argv_linked_alias p (al_tgt a) v d argv cfg Hin Hd) as [e He]. rewrite He. eauto.
Qed.

End WithFn2.

(* C14 — Part I (accepted => valid) for families in which class-typed parameters DEFAULT TO A CLASS SPEC
   (lazy_instance(Sub, k=v, ..)).  In such a family the defaults pass of `finalize` meets previous values that are specs
   (the completed default is the previous value of what the user gave for that parameter), so the invariant of
   Proofs/C14Proofs.v ("no previous value is a spec") is replaced by: every previous value met in the defaults pass is
   itself `good` for the parameter's class and carries no dict_kwargs (`okprev`). *)
From JV Require Import Lib.Base Model.C14ClassSpec Spec.C14Spec Model.C14Guard Proofs.C14Proofs.
Local Arguments bind : simpl never.

(* ---------- the families ---------------------------------------------------------------------------------- *)
Definition all_params (F : family) : list param :=
  flat_map c_params (fam_classes F) ++ flat_map f_params (fam_funcs F).
Definition is_strp (p : param) : bool := match p_ty p with PStr => true | _ => false end.
Definition is_clsp (p : param) : bool := match p_ty p with PCls _ | POpt _ => true | _ => false end.

(* no parameter name is str-typed in one callable and class-typed in another: a string kept across a class change
   (discard_init_args_on_class_path_change keeps what passes the new class's check) is then never a class name in disguise *)
Definition names_typed (F : family) : bool :=
  forallb (fun p => negb (is_clsp p)
                    || negb (mem_str (p_name p) (map p_name (filter is_strp (all_params F))))) (all_params F).

(* a default that is a class spec: no dict_kwargs, init_args are int / str values for int / str parameters of its class *)
Definition sdef_ok (F : family) (p : param) : bool :=
  match p_def p with
  | Some (VSpec cp ia dk) =>
      match dk with [] => true | _ => false end &&
      match target F cp with
      | Some (_, ps) =>
          forallb (fun kv => match find_param ps (fst kv) with
                             | Some q => match p_ty q, snd kv with
                                         | PInt, VInt _ => true
                                         | PStr, VStr _ => true
                                         | _, _ => false
                                         end
                             | None => false
                             end) ia
      | None => false
      end
  | _ => true
  end.

Definition fam_wf2 (F : family) : bool :=
  fam_wf_ext F && names_typed F && forallb (sdef_ok F) (all_params F).

Definition ps_wfx (ps : list param) : Prop :=
  forallb default_ok_ext ps = true /\ nodup_str (map p_name ps) = true.

Lemma wfx_cls F k : fam_wf_ext F = true -> In k (fam_classes F) -> ps_wfx (c_params k).
Proof.
  unfold fam_wf_ext, fam_wf_with. rewrite !andb_true_iff. intros [[[[H _] _] _] _] Hin.
  rewrite forallb_forall in H. specialize (H k Hin). apply andb_true_iff in H. exact H.
Qed.

Lemma wfx_fun F f : fam_wf_ext F = true -> In f (fam_funcs F) -> ps_wfx (f_params f) /\ func_ok F f = true.
Proof.
  unfold fam_wf_ext, fam_wf_with. rewrite !andb_true_iff. intros [[[[_ H] _] _] _] Hin.
  rewrite forallb_forall in H. specialize (H f Hin). rewrite !andb_true_iff in H.
  destruct H as [[H1 H2] H3]. split; [split|]; assumption.
Qed.

Lemma wfx_nodot F : fam_wf_ext F = true ->
  (forall k, In k (fam_classes F) -> has_dot (c_name k) = false) /\
  (forall f, In f (fam_funcs F) -> has_dot (f_name f) = false) /\
  (forall nm s, sub_of F nm = Some s -> has_dot s = false).
Proof.
  unfold fam_wf_ext, fam_wf_with, layout_wf. rewrite !andb_true_iff. intros [_ [[[[H _] _] _] _]].
  rewrite forallb_forall in H.
  assert (G : forall n, In n (map c_name (fam_classes F) ++ map f_name (fam_funcs F) ++ fam_consts F
                             ++ map snd (fam_subs F) ++ map fst (fam_exports F)) -> has_dot n = false).
  { intros n Hn. apply negb_true_iff. apply H. exact Hn. }
  split; [|split].
  - intros k Hk. apply G. apply in_or_app. left. apply in_map. exact Hk.
  - intros f Hf. apply G. apply in_or_app. right. apply in_or_app. left. apply in_map. exact Hf.
  - intros nm s Hs. apply G. unfold sub_of in Hs. apply aget_In in Hs.
    apply in_or_app. right. apply in_or_app. right. apply in_or_app. right. apply in_or_app. left.
    apply in_map_iff. exists (nm, s). split; [reflexivity|exact Hs].
Qed.

Lemma in_all_cls F k p : In k (fam_classes F) -> In p (c_params k) -> In p (all_params F).
Proof. intros Hk Hp. unfold all_params. apply in_or_app. left. apply in_flat_map. exists k. split; assumption. Qed.
Lemma in_all_fun F f p : In f (fam_funcs F) -> In p (f_params f) -> In p (all_params F).
Proof. intros Hf Hp. unfold all_params. apply in_or_app. right. apply in_flat_map. exists f. split; assumption. Qed.

Lemma target_params F cp k ps : target F cp = Some (k, ps) -> forall p, In p ps -> In p (all_params F).
Proof.
  unfold target. destruct (import_obj F cp) as [[k0|f|]|] eqn:E; try discriminate.
  - intro H. inversion H; subst. destruct (import_obj_lookup _ _ _ E) as [nm L]. apply lookup_cls in L.
    destruct (find_cls_some _ _ _ L) as [_ Hin]. intros p Hp. eapply in_all_cls; eassumption.
  - destruct (find_cls F (f_ret f)); [|discriminate]. intro H. inversion H; subst.
    destruct (import_obj_lookup _ _ _ E) as [nm L]. apply lookup_fun in L.
    destruct (find_fun_some _ _ _ L) as [_ Hin]. intros p Hp. eapply in_all_fun; eassumption.
Qed.

Lemma check_import_okx F base cp cpn ps :
  fam_wf_ext F = true -> check_import F base cp = Ok (cpn, ps) ->
  ps_wfx ps /\
  exists k, target F cp = Some (k, ps) /\ target F cpn = Some (k, ps) /\ is_subclass F (c_name k) base = true.
Proof.
  intros Hwf. destruct (wfx_nodot F Hwf) as [Dc [Df Ds]]. unfold check_import.
  destruct (import_obj F cp) as [[k|f|]|] eqn:E; try discriminate.
  - destruct (is_subclass F (c_name k) base) eqn:S; [|discriminate]. intro H. inversion H; subst. clear H.
    destruct (import_obj_lookup _ _ _ E) as [nm L]. apply lookup_cls in L.
    destruct (find_cls_some _ _ _ L) as [Hn Hin]. subst nm.
    split; [eapply wfx_cls; eassumption|]. exists k.
    assert (P : import_obj F (path_of F (c_name k)) = Some (ICls k)).
    { apply import_obj_path; [apply Dc; exact Hin|apply Ds|apply lookup_name_cls; exact L]. }
    unfold target. rewrite E, P. repeat split. exact S.
  - destruct (is_subclass F (f_ret f) base) eqn:S; [|discriminate]. intro H. inversion H; subst. clear H.
    destruct (import_obj_lookup _ _ _ E) as [nm L]. pose proof (lookup_fun _ _ _ L) as Ff.
    destruct (find_fun_some _ _ _ Ff) as [Hn Hin]. subst nm.
    destruct (wfx_fun F f Hwf Hin) as [Hps Hok]. split; [exact Hps|].
    unfold func_ok in Hok. destruct (find_cls F (f_ret f)) as [k|] eqn:Fr; [|discriminate].
    exists k.
    assert (P : import_obj F (path_of F (f_name f)) = Some (IFun f)).
    { apply import_obj_path; [apply Df; exact Hin|apply Ds|exact L]. }
    unfold target. rewrite E, P, Fr. repeat split.
    apply find_cls_some in Fr. destruct Fr as [-> _]. exact S.
Qed.

Lemma target_has_dot F cp kp : target F cp = Some kp -> has_dot cp = true.
Proof.
  unfold target. destruct (import_obj F cp) eqn:E; [|discriminate]. intros _. eapply import_obj_has_dot. exact E.
Qed.

Lemma names_typed_clash F p p0 :
  names_typed F = true -> In p (all_params F) -> In p0 (all_params F) ->
  is_clsp p = true -> is_strp p0 = true -> p_name p = p_name p0 -> False.
Proof.
  intros H Hp Hp0 C S E. unfold names_typed in H. rewrite forallb_forall in H. specialize (H p Hp).
  rewrite C in H. simpl in H. apply negb_true_iff in H.
  assert (M : mem_str (p_name p) (map p_name (filter is_strp (all_params F))) = true).
  { apply mem_str_In. rewrite E. apply in_map. apply filter_In. split; assumption. }
  congruence.
Qed.

(* ---------- previous values of the defaults pass ------------------------------------------------------------ *)
Fixpoint nodk (v : value) {struct v} : bool :=
  match v with
  | VSpec _ ia dk => match dk with [] => true | _ => false end && forallb (fun kv => nodk (snd kv)) ia
  | _ => true
  end.

Definition okprev (F : family) (base : str) (o : option value) : Prop :=
  match o with
  | Some (VSpec cp ia dk) => good F base (VSpec cp ia dk) = true /\ nodk (VSpec cp ia dk) = true
  | _ => True
  end.

Definition dk_free (o : option value) : Prop :=
  match o with Some (VSpec _ _ dk) => dk = [] | _ => True end.

Lemma merge_val_free o v : dk_free o -> merge_val o v = v.
Proof.
  destruct o as [[z|s| |cp ia dk]|]; simpl; try reflexivity. intros ->. destruct v as [| | |c i d]; try reflexivity.
  destruct d; reflexivity.
Qed.

Lemma okprev_free F c o : okprev F c o -> dk_free o.
Proof.
  destruct o as [[z|s| |cp ia dk]|]; simpl; try exact (fun _ => I). intros [_ H].
  destruct dk; [reflexivity|discriminate].
Qed.

Lemma prev_or_default_defaults p prev : prev_or_default with_defaults p prev = prev.
Proof. unfold prev_or_default. destruct (p_def p) as [[]|]; destruct prev as [[]|]; reflexivity. Qed.

Lemma tyn_okprev F t c x : tyn F t x = true -> nodk x = true -> param_class t = Some c -> okprev F c (Some x).
Proof.
  intros T N C. destruct t as [| |c'|c']; simpl in C; try discriminate; inversion C; subst c';
    destruct x as [z|s| |cp ia dk]; simpl; try exact I; simpl in T; split; assumption.
Qed.

(* ---------- facts about adapt at any fuel / mode ------------------------------------------------------------ *)
Lemma adapt_int_false F rs n m c prev z y : adapt F rs n m c prev (IRaw (RInt z)) = Ok y -> False.
Proof. destruct n; [discriminate|]. rewrite adapt_unfold. simpl. discriminate. Qed.

Lemma adapt_spec_subclass F rs n m c prev cp ia dk y k ps :
  fam_wf_ext F = true ->
  adapt F rs n m c prev (IRaw (raw_of (VSpec cp ia dk))) = Ok y ->
  target F cp = Some (k, ps) -> is_subclass F (c_name k) c = true.
Proof.
  intros Hwf H Ht. destruct n; [discriminate|].
  rewrite adapt_unfold, as_ns_raw_of in H.
  apply bind_Ok in H. destruct H as [q [Hq H]]. inversion Hq; subst q; clear Hq. simpl q_cp in H.
  rewrite (resolve_name_dotted F c cp (target_has_dot _ _ _ Ht)) in H.
  apply bind_Ok in H. destruct H as [cp1 [Hc H]]. inversion Hc; subst cp1; clear Hc.
  apply bind_Ok in H. destruct H as [[cpn ps'] [Hi _]].
  apply check_import_okx in Hi; [|exact Hwf]. destruct Hi as [_ [k' [Ht' [_ S]]]].
  rewrite Ht in Ht'. inversion Ht'; subst. exact S.
Qed.

Lemma good_rebase F c0 c cp ia dk k ps :
  good F c0 (VSpec cp ia dk) = true -> target F cp = Some (k, ps) -> is_subclass F (c_name k) c = true ->
  good F c (VSpec cp ia dk) = true.
Proof.
  rewrite !good_eq. intros G Ht S. rewrite Ht in *. rewrite !andb_true_iff in *.
  destruct G as [[[_ G1] G2] G3]. repeat split; assumption.
Qed.

(* what discard_init_args_on_class_path_change keeps is typed-or-null for the NEW class *)
Lemma keep_arg_tyn F rs n ps ps0 kv :
  fam_wf_ext F = true -> names_typed F = true ->
  (forall p, In p ps -> In p (all_params F)) -> (forall p, In p ps0 -> In p (all_params F)) ->
  ia_tyn F ps0 kv = true -> keep_arg (adapt F rs n) ps kv = true -> ia_tyn F ps kv = true.
Proof.
  intros Hwf Hnt A A0 T0 K. unfold keep_arg in K. unfold ia_tyn in *.
  destruct (find_param ps (fst kv)) as [p|] eqn:Fp; [|discriminate].
  destruct (find_param ps0 (fst kv)) as [p0|] eqn:Fp0; [|discriminate].
  destruct (find_param_some _ _ _ Fp) as [Np Ip]. destruct (find_param_some _ _ _ Fp0) as [Np0 Ip0].
  destruct (adapt_param (adapt F rs n) strict (p_ty p) (prev_or_default strict p None) (raw_of (snd kv)))
    as [y|e] eqn:Ad; [|discriminate]. clear K.
  assert (Clash : is_clsp p = true -> is_strp p0 = true -> False).
  { intros C S. eapply (names_typed_clash F p p0); try eassumption; [apply A; exact Ip|apply A0; exact Ip0|congruence]. }
  destruct (snd kv) as [z|s| |cp ia dk] eqn:X.
  - (* VInt *) destruct (p_ty p) eqn:Tp; simpl in Ad |- *; try reflexivity; try discriminate;
      exfalso; eapply adapt_int_false; exact Ad.
  - (* VStr *) destruct (p_ty p) eqn:Tp; simpl in Ad |- *; try reflexivity; try discriminate;
      (exfalso; apply Clash; [unfold is_clsp; rewrite Tp; reflexivity|];
       unfold is_strp; destruct (p_ty p0); simpl in T0; try discriminate; reflexivity).
  - (* VNull *) destruct (p_ty p); simpl in Ad |- *; try reflexivity; discriminate.
  - (* VSpec *)
    assert (G0 : exists c0, good F c0 (VSpec cp ia dk) = true).
    { destruct (p_ty p0); simpl in T0; try discriminate; eexists; exact T0. }
    destruct G0 as [c0 G0].
    assert (Ht : exists k ps', target F cp = Some (k, ps')).
    { rewrite good_eq in G0. destruct (target F cp) as [[k ps']|]; [eexists; eexists; reflexivity|discriminate]. }
    destruct Ht as [k [ps' Ht]].
    destruct (p_ty p) as [| |c|c] eqn:Tp; simpl in Ad; try discriminate.
    + simpl. eapply good_rebase; [exact G0|exact Ht|]. eapply adapt_spec_subclass; eassumption.
    + simpl. eapply good_rebase; [exact G0|exact Ht|]. eapply adapt_spec_subclass; eassumption.
Qed.

(* ---------- the defaults pass with spec previous values ------------------------------------------------------ *)
Section Pass1x.
  Variable F : family.
  Variable rec : mode -> str -> option value -> input -> res value.
  Hypothesis Hrec : forall c prev r v, okprev F c prev ->
      rec with_defaults c prev (IRaw r) = Ok v -> good F c v = true.
  (* a completed spec default carries no dict_kwargs *)
  Hypothesis Hdef : forall c p cp ia dk v, In p (all_params F) -> p_def p = Some (VSpec cp ia dk) ->
      rec with_defaults c None (IRaw (raw_of (VSpec cp ia dk))) = Ok v -> nodk v = true.

  Lemma adapt_param_p1x t prev r v :
    (forall c, param_class t = Some c -> okprev F c prev) ->
    adapt_param rec with_defaults t prev r = Ok v -> tyn F t v = true.
  Proof.
    intros Hp. destruct t as [| |c|c]; simpl.
    - destruct r; try discriminate. intro H; inversion H; reflexivity.
    - destruct r; try discriminate. intro H; inversion H; reflexivity.
    - intro H. apply Hrec in H; [|apply Hp; reflexivity]. destruct v; try reflexivity; exact H.
    - destruct r; try (intro H; apply Hrec in H; [|apply Hp; reflexivity]; destruct v; try reflexivity; exact H).
      intro H; inversion H; reflexivity.
  Qed.

  Definition base_ok (ps : list param) (base : list (str * value)) : Prop :=
    forallb (ia_tyn F ps) base = true /\ forallb (fun kv => nodk (snd kv)) base = true.

  Lemma base_ok_prev ps base k p c :
    base_ok ps base -> find_param ps k = Some p -> param_class (p_ty p) = Some c -> okprev F c (aget k base).
  Proof.
    intros [B1 B2] Fp C. destruct (aget k base) as [x|] eqn:E; [|exact I].
    apply aget_In in E. rewrite forallb_forall in B1, B2.
    specialize (B1 _ E). specialize (B2 _ E). unfold ia_tyn in B1. simpl in B1, B2. rewrite Fp in B1.
    eapply tyn_okprev; eassumption.
  Qed.

  Lemma base_ok_free ps base k : base_ok ps base -> dk_free (aget k base).
  Proof.
    intros [_ B2]. destruct (aget k base) as [x|] eqn:E; [|exact I].
    apply aget_In in E. rewrite forallb_forall in B2. specialize (B2 _ E). simpl in B2.
    destruct x as [| | |cp ia dk]; simpl; try exact I. simpl in B2. destruct dk; [reflexivity|discriminate].
  Qed.

  Lemma parse_ia_p1x ps base : base_ok ps base ->
    forall kvs acc ia, ia_inv F ps acc ->
    parse_ia rec with_defaults ps base kvs acc = Ok ia -> ia_inv F ps ia.
  Proof.
    intros Hb. induction kvs as [|[k r] kvs IH]; simpl; intros acc ia Hacc H.
    - inversion H; subst. exact Hacc.
    - destruct (find_param ps k) as [p|] eqn:Fp; [|discriminate].
      apply bind_Ok in H. destruct H as [v [Hv H]].
      rewrite prev_or_default_defaults in Hv.
      apply adapt_param_p1x in Hv; [|intros c C; eapply base_ok_prev; eassumption].
      rewrite merge_val_free in H by (eapply base_ok_free; exact Hb).
      eapply IH; [|exact H]. eapply ia_inv_aset; eassumption.
  Qed.

  (* get_defaults of the class parser: spec defaults completed *)
  Lemma defaults_rec_inv ps : nodup_str (map p_name ps) = true ->
    forall qs dfl, (forall p, In p qs -> In p ps /\ In p (all_params F) /\ default_ok_ext p = true) ->
    defaults_of_rec rec with_defaults qs = Ok dfl ->
    forallb (ia_tyn F ps) dfl = true /\ forallb (fun kv => nodk (snd kv)) dfl = true /\ map fst dfl = map p_name qs.
  Proof.
    intros Hn. induction qs as [|p qs IH]; simpl; intros dfl Hq H.
    - inversion H; subst. repeat split.
    - apply bind_Ok in H. destruct H as [d [Hd H]]. apply bind_Ok in H. destruct H as [rest [Hr H]].
      inversion H; subst dfl; clear H.
      destruct (Hq p (or_introl eq_refl)) as [Ip [Ia Dk]].
      destruct (IH rest (fun q Hq' => Hq q (or_intror Hq')) Hr) as [R1 [R2 R3]].
      simpl. rewrite R1, R2, R3. unfold ia_tyn at 1. simpl fst. simpl snd.
      rewrite (find_param_self ps p Hn Ip).
      assert (G : tyn F (p_ty p) d = true /\ nodk d = true).
      { unfold default_ok_ext, default_ok in Dk.
        destruct (p_ty p) as [| |c|c] eqn:Tp; destruct (p_def p) as [[z|s| |cp ia dk]|] eqn:Dp;
          simpl in Dk; try discriminate; simpl in Hd; try (inversion Hd; subst d; split; reflexivity).
        - split; [|eapply Hdef; eassumption]. apply Hrec in Hd; [|exact I]. simpl. destruct d; try reflexivity; exact Hd.
        - split; [|eapply Hdef; eassumption]. apply Hrec in Hd; [|exact I]. simpl. destruct d; try reflexivity; exact Hd. }
      destruct G as [G1 G2]. rewrite G1, G2. repeat split.
  Qed.

  Lemma defaults_rec_has ps (dfl : list (str * value)) : map fst dfl = map p_name ps -> forallb (fun p => ahas (p_name p) dfl) ps = true.
  Proof.
    intro E. rewrite forallb_forall. intros p Hp. unfold ahas.
    destruct (aget (p_name p) dfl) eqn:A; [reflexivity|]. exfalso.
    assert (Hin : In (p_name p) (map fst dfl)) by (rewrite E; apply in_map; exact Hp).
    clear E Hp. induction dfl as [|[k v] dfl IH]; [destruct Hin|].
    simpl in A. destruct (str_eqb (p_name p) k) eqn:Q; [discriminate|].
    destruct Hin as [H|H]; [simpl in H; subst k; rewrite str_eqb_refl in Q; discriminate|]. apply IH; assumption.
  Qed.

  Lemma aupdate_inv ps new : forallb (ia_tyn F ps) new = true ->
    forall base, ia_inv F ps base -> ia_inv F ps (aupdate base new).
  Proof.
    unfold aupdate. induction new as [|[k v] new IH]; simpl; intros Hn base Hb; [exact Hb|].
    apply andb_true_iff in Hn. destruct Hn as [H1 H2]. apply IH; [exact H2|].
    unfold ia_tyn in H1. simpl in H1. destruct (find_param ps k) as [p|] eqn:Fp; [|discriminate].
    eapply ia_inv_aset; eassumption.
  Qed.

  Lemma aupdate_nodk (new : list (str * value)) : forallb (fun kv => nodk (snd kv)) new = true ->
    forall base, forallb (fun kv => nodk (snd kv)) base = true ->
    forallb (fun kv => nodk (snd kv)) (aupdate base new) = true.
  Proof.
    intros Hn base Hb. rewrite forallb_forall in *. apply Forall_forall.
    apply aupdate_Forall; apply Forall_forall; assumption.
  Qed.

  (* the dict branch with previous init_args that are typed-or-null for the new class and free of dict_kwargs *)
  Lemma adapt_dict_p1x ps cpn same pia kvs dk v k base :
    ps_wfx ps -> (forall p, In p ps -> In p (all_params F)) ->
    target F cpn = Some (k, ps) -> is_subclass F (c_name k) base = true ->
    forallb (ia_tyn F ps) pia = true -> forallb (fun kv => nodk (snd kv)) pia = true ->
    adapt_dict rec with_defaults ps cpn same pia [] kvs dk = Ok v -> good F base v = true.
  Proof.
    intros [Hd Hn] Ha Ht Hs P1 P2. unfold adapt_dict. simpl m_defaults. simpl m_strict. cbv iota.
    intro H. apply bind_Ok in H. destruct H as [dfl [Hdf H]].
    apply bind_Ok in H. destruct H as [ia [Hia H]]. simpl in H.
    apply bind_Ok in H. destruct H as [dkv [Hdk H]]. inversion H; subst v. clear H.
    destruct (defaults_rec_inv ps Hn ps dfl) as [D1 [D2 D3]]; [|exact Hdf|].
    { intros p Hp. split; [exact Hp|]. split; [apply Ha; exact Hp|]. rewrite forallb_forall in Hd. apply Hd. exact Hp. }
    assert (Binv : ia_inv F ps (aupdate dfl pia)).
    { apply aupdate_inv; [exact P1|]. split; [exact D1|apply defaults_rec_has; exact D3]. }
    assert (Bok : base_ok ps (aupdate dfl pia)).
    { split; [exact (proj1 Binv)|apply aupdate_nodk; assumption]. }
    apply (parse_ia_p1x ps _ Bok) in Hia; [|exact Binv].
    destruct Hia as [H1 H2]. rewrite good_eq, Ht, Hs, H1, H2. simpl.
    apply simple_values_keys in Hdk.
    assert (K : forall kv : str * value, In (fst kv) (map fst dkv) ->
                match find_param ps (fst kv) with Some _ => false | None => true end = true).
    { intros kv Hin. rewrite Hdk in Hin. apply in_map_iff in Hin. destruct Hin as [kr [E Hin]].
      apply filter_In in Hin. destruct Hin as [_ Hin]. rewrite <- E. exact Hin. }
    rewrite forallb_forall. intros kv Hin. apply K.
    destruct dkv as [|d dkv]; [destruct Hin|].
    destruct same.
    - apply aupdate_nil_keys in Hin. exact Hin.
    - apply in_map. exact Hin.
  Qed.
End Pass1x.

Lemma forallb_aset (P : str * value -> bool) k v l :
  P (k, v) = true -> forallb P l = true -> forallb P (aset k v l) = true.
Proof.
  intros Hv. induction l as [|[k' v'] l IH]; simpl; [rewrite Hv; reflexivity|].
  rewrite andb_true_iff. intros [H1 H2]. destruct (str_eqb k k'); simpl; [rewrite Hv, H2; reflexivity|].
  rewrite H1, IH by exact H2. reflexivity.
Qed.

Lemma merge_val_simple o v : match v with VSpec _ _ _ => False | _ => True end -> merge_val o v = v.
Proof. destruct o as [[]|]; destruct v; simpl; tauto. Qed.

Definition simple_ia (ps : list param) (kv : str * value) : bool :=
  match find_param ps (fst kv) with
  | Some q => match p_ty q, snd kv with
              | PInt, VInt _ => true
              | PStr, VStr _ => true
              | _, _ => false
              end
  | None => false
  end.

(* init_args that are int / str values for int / str parameters add no dict_kwargs *)
Lemma parse_ia_simple rec m ps base : forall (ia : list (str * value)) acc out,
  forallb (simple_ia ps) ia = true ->
  forallb (fun kv => nodk (snd kv)) acc = true ->
  parse_ia rec m ps base (raw_kvs ia) acc = Ok out -> forallb (fun kv => nodk (snd kv)) out = true.
Proof.
  induction ia as [|[k x] ia IH]; simpl; intros acc out Hs Ha H.
  - inversion H; subst. exact Ha.
  - apply andb_true_iff in Hs. destruct Hs as [S1 S2]. unfold simple_ia in S1. simpl in S1.
    destruct (find_param ps k) as [q|]; [|discriminate].
    destruct (p_ty q); destruct x; try discriminate; simpl in H; rewrite bind_ret in H;
      rewrite merge_val_simple in H by exact I;
      refine (IH _ _ S2 _ H); (apply forallb_aset; [reflexivity|exact Ha]).
Qed.

Lemma fam_wf2_parts F : fam_wf2 F = true ->
  fam_wf_ext F = true /\ names_typed F = true /\ (forall p, In p (all_params F) -> sdef_ok F p = true).
Proof.
  unfold fam_wf2. rewrite !andb_true_iff. intros [[H1 H2] H3]. repeat split; try assumption.
  rewrite forallb_forall in H3. exact H3.
Qed.

Lemma prev_parts_nonspec_shape F rec ps cpn base prev :
  nonspec prev -> exists same, prev_parts rec ps cpn (prev1_of F base prev) = (same, [], []).
Proof.
  intro Hp. destruct (prev_parts_nonspec F rec ps cpn base prev Hp) as [E1 E2].
  destruct (prev_parts rec ps cpn (prev1_of F base prev)) as [[sm pi] pd]. simpl in *. subst. exists sm. reflexivity.
Qed.

Lemma adapt_p1x F rs : fam_wf2 F = true -> forall n,
  (forall base prev r v, okprev F base prev ->
      adapt F rs n with_defaults base prev (IRaw r) = Ok v -> good F base v = true) /\
  (forall c prev p cp ia dk v, nonspec prev -> In p (all_params F) -> p_def p = Some (VSpec cp ia dk) ->
      adapt F rs n with_defaults c prev (IRaw (raw_of (VSpec cp ia dk))) = Ok v -> nodk v = true).
Proof.
  intros Hwf2. destruct (fam_wf2_parts F Hwf2) as [Hwf [Hnt Hsd]].
  induction n as [|n [IH1 IH2']]; [split; intros; discriminate|].
  assert (IH2 : forall c p cp ia dk v, In p (all_params F) -> p_def p = Some (VSpec cp ia dk) ->
      adapt F rs n with_defaults c None (IRaw (raw_of (VSpec cp ia dk))) = Ok v -> nodk v = true).
  { intros c p cp ia dk v Ip Dp H. exact (IH2' c None p cp ia dk v I Ip Dp H). }
  split.
  - intros base prev r v Hp H. rewrite adapt_unfold in H.
    apply bind_Ok in H. destruct H as [q [Hq H]].
    apply bind_Ok in H. destruct H as [cp1 [Hc H]].
    apply bind_Ok in H. destruct H as [[cpn ps] [Hi H]]. simpl fst in H. simpl snd in H.
    apply check_import_okx in Hi; [|exact Hwf]. destruct Hi as [Hps [k [_ [Ht Hs]]]].
    destruct (as_ns_raw _ _ _ Hq) as [kvs Hk]. rewrite Hk in H.
    assert (PP : exists same pia,
               prev_parts (adapt F rs n) ps cpn (prev1_of F base prev) = (same, pia, []) /\
               forallb (ia_tyn F ps) pia = true /\ forallb (fun kv => nodk (snd kv)) pia = true).
    { destruct prev as [[z|s| |pcp pia pdk]|].
      1-3,5: (match goal with |- context [prev1_of _ ?bs ?pv] =>
                destruct (prev_parts_nonspec_shape F (adapt F rs n) ps cpn bs pv I) as [sm E] end;
              exists sm, []; rewrite E; repeat split).
      destruct Hp as [G N]. simpl in N. apply andb_true_iff in N. destruct N as [N1 N2].
      destruct pdk; [|discriminate]. clear N1.
      rewrite good_eq in G. destruct (target F pcp) as [[k0 ps0]|] eqn:Ht0; [|discriminate].
      rewrite !andb_true_iff in G. destruct G as [[[_ G1] _] _].
      simpl prev1_of. unfold prev_parts. destruct (str_eqb pcp cpn) eqn:Q.
      - apply str_eqb_spec in Q. subst pcp. rewrite Ht in Ht0. inversion Ht0; subst k0 ps0.
        exists true, pia. repeat split; assumption.
      - exists false, (filter (keep_arg (adapt F rs n) ps) pia). split; [reflexivity|]. split.
        + rewrite forallb_forall. intros kv Hin. apply filter_In in Hin. destruct Hin as [Hin K].
          rewrite forallb_forall in G1.
          eapply keep_arg_tyn; [exact Hwf|exact Hnt|exact (target_params _ _ _ _ Ht)|exact (target_params _ _ _ _ Ht0)
                               |apply G1; exact Hin|exact K].
        + rewrite forallb_forall in *. intros kv Hin. apply filter_In in Hin. apply N2. exact (proj1 Hin). }
    destruct PP as [same [pia [E [P1 P2]]]]. rewrite E in H. simpl fst in H. simpl snd in H.
    eapply (adapt_dict_p1x F (adapt F rs n) IH1 IH2);
      [exact Hps|exact (target_params _ _ _ _ Ht)|exact Ht|exact Hs|exact P1|exact P2|exact H].
  - intros c prev p cp ia dk v Np Ip Dp H.
    pose proof (Hsd p Ip) as Sd. unfold sdef_ok in Sd. rewrite Dp in Sd.
    apply andb_true_iff in Sd. destruct Sd as [Sd1 Sd2]. destruct dk; [|discriminate]. clear Sd1.
    destruct (target F cp) as [[k0 ps0]|] eqn:Ht0; [|discriminate].
    rewrite adapt_unfold, as_ns_raw_of in H.
    apply bind_Ok in H. destruct H as [q [Hq H]]. inversion Hq; subst q; clear Hq.
    simpl q_cp in H. simpl q_ia in H. simpl q_dk in H.
    rewrite (resolve_name_dotted F c cp (target_has_dot _ _ _ Ht0)) in H.
    apply bind_Ok in H. destruct H as [cp1 [Hc H]]. inversion Hc; subst cp1; clear Hc.
    apply bind_Ok in H. destruct H as [[cpn ps] [Hi H]]. simpl fst in H. simpl snd in H.
    apply check_import_okx in Hi; [|exact Hwf]. destruct Hi as [[Hd Hn] [k [Ht [Htn Hs]]]].
    rewrite Ht0 in Ht. inversion Ht; subst k0 ps0. clear Ht.
    destruct (prev_parts_nonspec F (adapt F rs n) ps cpn c prev Np) as [E1 E2].
    rewrite E1, E2 in H. unfold adapt_dict in H. simpl m_defaults in H. simpl m_strict in H. cbv iota in H.
    cbv zeta in H. simpl filter in H. rewrite !aupdate_nil in H.
    apply bind_Ok in H. destruct H as [dfl [Hdf H]].
    apply bind_Ok in H. destruct H as [ia' [Hia H]]. simpl in H. rewrite bind_ret in H. inversion H; subst v. clear H.
    destruct (defaults_rec_inv F (adapt F rs n) IH1 IH2 ps Hn ps dfl) as [_ [D2 _]]; [|exact Hdf|].
    { intros p' Hp'. split; [exact Hp'|]. split; [exact (target_params _ _ _ _ Htn p' Hp')|].
      rewrite forallb_forall in Hd. apply Hd. exact Hp'. }
    simpl. eapply parse_ia_simple; [exact Sd2|exact D2|exact Hia].
Qed.

(* ---------- the validation pass and instantiation, for families with spec defaults (copies of the proofs in
   Proofs/C14Proofs.v with the import lemma of this file) ---------- *)
Lemma adapt_p2x F rs : fam_wf_ext F = true -> forall n base base' prev x y, good F base x = true ->
  adapt F rs n strict base' prev (IRaw (raw_of x)) = Ok y -> valid F base x = true.
Proof.
  intros Hwf. induction n as [|n IH]; intros base base' prev x y G H; [discriminate|].
  destruct x as [z|s| |cp ia dk]; try discriminate.
  rewrite adapt_unfold, as_ns_raw_of in H.
  apply bind_Ok in H. destruct H as [q [Hq H]]. inversion Hq; subst q; clear Hq.
  simpl q_cp in H. simpl q_ia in H. simpl q_dk in H.
  rewrite good_eq in G. destruct (target F cp) as [[k ps]|] eqn:Ht; [|discriminate].
  rewrite !andb_true_iff in G. destruct G as [[[Gs Gi] Gp] Gd].
  assert (Hd : has_dot cp = true).
  { unfold target in Ht. destruct (import_obj F cp) eqn:E; [|discriminate]. eapply import_obj_has_dot. exact E. }
  rewrite (resolve_name_dotted F base' cp Hd) in H.
  apply bind_Ok in H. destruct H as [cp1 [Hc H]]. inversion Hc; subst cp1; clear Hc.
  apply bind_Ok in H. destruct H as [[cpn ps'] [Hi H]]. simpl fst in H. simpl snd in H.
  apply check_import_okx in Hi; [|exact Hwf]. destruct Hi as [Hps [k' [Ht' _]]].
  rewrite Ht in Ht'. inversion Ht'; subst k' ps'. clear Ht'.
  unfold adapt_dict in H. rewrite (filter_params_clean ps dk Gd) in H. rewrite aupdate_nil in H.
  simpl m_defaults in H. cbv iota in H. rewrite bind_ret in H.
  apply bind_Ok in H. destruct H as [ia' [Hia _]].
  rewrite valid_eq, Ht, Gs, Gd, andb_true_r. simpl. apply andb_true_iff. split.
  - rewrite forallb_forall in *. intros kv Hin.
    assert (Hin' : In (fst kv, raw_of (snd kv)) (raw_kvs ia)).
    { unfold raw_kvs. apply in_map_iff. exists kv. split; [reflexivity|exact Hin]. }
    destruct (parse_ia_each _ _ _ _ _ _ _ Hia _ Hin') as [p [v [Fp Hv]]]. simpl in Fp, Hv.
    specialize (Gi kv Hin). unfold ia_tyn in Gi. unfold ia_val. rewrite Fp in *.
    eapply adapt_param_p2; [| |exact Gi|exact Hv].
    + intros c prev' x' y' G' H'. eapply IH; eassumption.
    + intros m c prev' y'. apply adapt_null.
  - rewrite forallb_forall in *. intros p Hp. rewrite (Gp p Hp). destruct (p_def p); reflexivity.
Qed.


Lemma inst_completex F : (forall f, In f (fam_funcs F) -> func_ok F f = true) ->
  forall n v base log0, depth v < n ->
    valid F base v = true -> instantiable F v = true -> dk_accepted F v = true ->
    exists a log, inst F n v log0 = Ok (a, log).
Proof.
  intros Hwf. induction n as [|n IH]; intros v base log0 Hd Hv Hi Hk; [lia|].
  destruct v as [z|s| |cp ia dk]; try discriminate.
  rewrite valid_eq in Hv. simpl in Hi, Hk, Hd.
  destruct (target F cp) as [[k ps]|] eqn:Ht; [|discriminate].
  rewrite !andb_true_iff in Hv. destruct Hv as [[[Hs Hia] Hreq] _].
  rewrite andb_true_iff, negb_true_iff in Hi. destruct Hi as [Hab Hic].
  (* the children *)
  assert (Hch : forall kv, In kv ia -> forall log, exists a log', inst F n (snd kv) log = Ok (a, log')).
  { intros [key x] Hin log. simpl.
    assert (Dx : depth x < n). { pose proof (depth_child _ _ _ Hin). lia. }
    rewrite forallb_forall in Hia, Hic. specialize (Hia _ Hin). specialize (Hic _ Hin). simpl in Hic.
    assert (Kx : dk_accepted F x = true).
    { destruct (import_obj F cp) as [[k0|f0|]|]; try discriminate;
        apply andb_true_iff in Hk; destruct Hk as [_ Hk]; rewrite forallb_forall in Hk; exact (Hk _ Hin). }
    destruct x as [z|s| |cp' ia' dk'].
    - destruct n; [lia|]. eexists _, _. reflexivity.
    - destruct n; [lia|]. eexists _, _. reflexivity.
    - destruct n; [lia|]. eexists _, _. reflexivity.
    - unfold ia_val in Hia. simpl in Hia. destruct (find_param ps key) as [p|]; [|discriminate].
      unfold vty in Hia. destruct (p_ty p) as [| |c|c]; try discriminate; eapply IH; eassumption. }
  destruct (inst_args_complete (inst F n) ia Hch log0) as [args [log1 [Ea Ka]]].
  simpl. rewrite Ea, bind_ret. simpl.
  set (kw := aupdate args (map (fun kv => (fst kv, arg_of_simple (snd kv))) dk)).
  assert (Hreq' : forall p, In p ps -> p_def p = None -> ahas (p_name p) kw = true).
  { intros p Hp Hn. rewrite forallb_forall in Hreq. specialize (Hreq p Hp). rewrite Hn in Hreq.
    apply ahas_aupdate. rewrite (ahas_keys _ args ia Ka). exact Hreq. }
  unfold target in Ht. destruct (import_obj F cp) as [[k0|f|]|] eqn:E; try discriminate.
  - inversion Ht; subst k0 ps. clear Ht. apply andb_true_iff in Hk. destruct Hk as [Hvk _].
    unfold construct. rewrite (import_cls_find _ _ _ E), Hab.
    assert (B : bind_ok (c_params k) (c_varkw k) kw = true).
    { unfold bind_ok. apply andb_true_iff. split.
      - rewrite forallb_forall. intros ka Hin. apply aupdate_keys in Hin. destruct Hin as [Hin|Hin].
        + rewrite Ka in Hin. destruct (ia_val_param _ _ _ _ Hia Hin) as [p ->]. apply orb_true_r.
        + destruct dk as [|d dk]; [destruct Hin|]. simpl in Hvk. rewrite orb_false_r in Hvk. rewrite Hvk. reflexivity.
      - rewrite forallb_forall. intros p Hp. destruct (p_def p) eqn:D; [reflexivity|]. apply Hreq'; assumption. }
    rewrite B. eexists _, _. reflexivity.
  - destruct (find_cls F (f_ret f)) as [k0|] eqn:Fr; [|discriminate]. inversion Ht; subst k0 ps. clear Ht.
    apply andb_true_iff in Hk. destruct Hk as [Hdk _]. destruct dk as [|d dk]; [|discriminate].
    assert (Ekw : kw = args) by reflexivity.
    assert (Hf : In f (fam_funcs F)).
    { apply import_obj_lookup in E. destruct E as [nm L]. unfold lookup_name in L.
      destruct (find_cls F nm); [discriminate|]. destruct (find_fun F nm) as [f'|] eqn:Ff.
      - inversion L; subst f'. apply find_fun_some in Ff. tauto.
      - destruct (mem_str nm (fam_consts F)); discriminate. }
    pose proof (Hwf f Hf) as Hok. unfold func_ok in Hok. rewrite Fr in Hok.
    apply andb_true_iff in Hok. destruct Hok as [Ok1 Ok2].
    assert (B1 : bind_ok (f_params f) false kw = true).
    { unfold bind_ok. apply andb_true_iff. split.
      - rewrite forallb_forall. intros ka Hin. rewrite Ekw in Hin. simpl.
        assert (Hin' : In (fst ka) (map fst ia)). { rewrite <- Ka. apply in_map. exact Hin. }
        destruct (ia_val_param _ _ _ _ Hia Hin') as [p ->]. reflexivity.
      - rewrite forallb_forall. intros p Hp. destruct (p_def p) eqn:D; [reflexivity|]. apply Hreq'; assumption. }
    rewrite B1. unfold construct. rewrite Fr, Hab.
    assert (B2 : bind_ok (c_params k) (c_varkw k) kw = true).
    { unfold bind_ok. apply andb_true_iff. split.
      - rewrite forallb_forall. intros ka Hin. rewrite Ekw in Hin.
        assert (Hin' : In (fst ka) (map fst ia)). { rewrite <- Ka. apply in_map. exact Hin. }
        destruct (ia_val_param _ _ _ _ Hia Hin') as [p Fp].
        destruct (find_param_some _ _ _ Fp) as [Hn Hp]. rewrite forallb_forall in Ok1.
        specialize (Ok1 p Hp). rewrite Hn in Ok1. exact Ok1.
      - rewrite forallb_forall. intros q Hq. destruct (p_def q) eqn:D; [reflexivity|].
        rewrite forallb_forall in Ok2. specialize (Ok2 q Hq). rewrite D in Ok2.
        destruct (find_param (f_params f) (p_name q)) as [p'|] eqn:Fp; [|discriminate].
        destruct (p_def p') eqn:D'; [discriminate|].
        destruct (find_param_some _ _ _ Fp) as [Hn Hp]. rewrite <- Hn. apply Hreq'; assumption. }
    rewrite B2. eexists _, _. reflexivity.
Qed.


Local Opaque FUEL.
Lemma finalize_validx F rs base v v1 :
  fam_wf2 F = true -> finalize F rs base v = Ok v1 -> valid F base v1 = true.
Proof.
  intros Hwf2 H. destruct (fam_wf2_parts F Hwf2) as [Hwf _]. unfold finalize in H.
  apply bind_Ok in H. destruct H as [w [H1 H]]. apply bind_Ok in H. destruct H as [w2 [H2 H]].
  inversion H; subst v1. eapply adapt_p2x; [exact Hwf| |exact H2].
  eapply (proj1 (adapt_p1x F rs Hwf2 FUEL)); [|exact H1]. exact I.
Qed.

(* Part I for families with spec defaults *)
Lemma parse_with_validx F rs base dflt steps v :
  fam_wf2 F = true -> parse_with F rs base dflt steps = Ok v -> valid F base v = true.
Proof.
  intros Hwf H. unfold parse_with in H.
  apply bind_Ok in H. destruct H as [c0 [_ H]]. apply bind_Ok in H. destruct H as [cfg [_ H]].
  destruct cfg as [w|]; [|discriminate]. eapply finalize_validx; eassumption.
Qed.

Lemma accepted_buildsx F rs base dflt steps v n :
  fam_wf2 F = true -> parse_with F rs base dflt steps = Ok v ->
  instantiable F v = true -> dk_accepted F v = true -> depth v < n ->
  exists a log, inst F n v [] = Ok (a, log) /\
                length log = nodes v /\ backward 0 log = true /\ arg_tree (trees log) a = denote F v.
Proof.
  intros Hwf2 Hp Hi Hk Hd. destruct (fam_wf2_parts F Hwf2) as [Hwf _].
  apply parse_with_validx in Hp; [|exact Hwf2].
  destruct (inst_completex F (fun f Hf => proj2 (wfx_fun F f Hwf Hf)) n v base [] Hd Hp Hi Hk) as [a [log E]].
  exists a, log. split; [exact E|]. eapply inst_exact. exact E.
Qed.

(* fam_wf2 is weaker than fam_wf on the defaults: every family of the first theorem without a str/class name clash is covered *)
Lemma default_ok_sdef F p : default_ok p = true -> sdef_ok F p = true.
Proof.
  unfold default_ok, sdef_ok. destruct (p_ty p); destruct (p_def p) as [[]|]; try reflexivity; discriminate.
Qed.

(* ---------- a family with spec defaults for the examples -------------------------------------------------------
   module jvfamz: class Base(x: int = 1); class Sub(Base)(x: int = 2, y: int = 3); class Oth(Base)(y: int = 4);
                  class Outer(inner: Base = lazy_instance(Sub, y=7), opt: Optional[Base] = lazy_instance(Oth)) *)
Definition z_Base : str := [66;97;115;101]%N.
Definition z_Sub : str := [83;117;98]%N.
Definition z_Oth : str := [79;116;104]%N.
Definition z_Outer : str := [79;117;116;101;114]%N.
Definition z_inner : str := [105;110;110;101;114]%N.
Definition z_opt : str := [111;112;116]%N.
Definition z_mod : str := [106;118;102;97;109;122]%N.
Definition z_fam : family :=
  {| fam_mod := z_mod;
     fam_classes :=
       [ {| c_name := z_Base; c_parents := []; c_abstract := false; c_varkw := false;
            c_params := [ {| p_name := [120]%N; p_ty := PInt; p_def := Some (VInt 1) |} ] |};
         {| c_name := z_Sub; c_parents := [z_Base]; c_abstract := false; c_varkw := false;
            c_params := [ {| p_name := [120]%N; p_ty := PInt; p_def := Some (VInt 2) |};
                          {| p_name := [121]%N; p_ty := PInt; p_def := Some (VInt 3) |} ] |};
         {| c_name := z_Oth; c_parents := [z_Base]; c_abstract := false; c_varkw := false;
            c_params := [ {| p_name := [121]%N; p_ty := PInt; p_def := Some (VInt 4) |} ] |};
         {| c_name := z_Outer; c_parents := []; c_abstract := false; c_varkw := false;
            c_params := [ {| p_name := z_inner; p_ty := PCls z_Base;
                             p_def := Some (VSpec (z_mod ++ [dot] ++ z_Sub) [([121]%N, VInt 7)] []) |};
                          {| p_name := z_opt; p_ty := POpt z_Base;
                             p_def := Some (VSpec (z_mod ++ [dot] ++ z_Oth) [] []) |} ] |} ];
     fam_funcs := []; fam_consts := []; fam_subs := []; fam_exports := []; fam_shadows := [] |}.
(* --x.inner=Oth   (the default Sub(y=7) is the previous value: y survives the class change) *)
Definition z_steps : list input := [INested [z_inner] (RStr z_Oth)].

(* C05 — JSON scalars under the regenerated YAML loader table (coq/Gen/C01Resolvers.v): every JSON integer is
   resolved to tag int, every JSON number with a fraction or an exponent to tag float, the three JSON literals
   to bool / null; decided by the verified inclusion checker of Lib/Regex.v on the regenerated tables. *)
From JV Require Import Lib.Base Lib.Regex Model.TyVal Model.Scalar Model.Ty Model.TyLoader Model.C05Channels
  Proofs.ScalarProofs Proofs.C05Proofs Gen.C01Resolvers.

Lemma loader_table_wf : wf_table loader_table = true.
Proof. vm_compute. reflexivity. Qed.

Lemma json_int_incl : incl_re 4000 json_int_re (tag_re loader_table TgInt) = true.
Proof. vm_compute. reflexivity. Qed.

Lemma json_float_incl : incl_re 4000 json_float_re (tag_re loader_table TgFloat) = true.
Proof. vm_compute. reflexivity. Qed.

Theorem json_scalars_in_yaml :
  (forall s, matches json_int_re s = true -> resolve loader_table s = TgInt) /\
  (forall s, matches json_float_re s = true -> resolve loader_table s = TgFloat) /\
  model_yload [116;114;117;101]%N = LVal (VBool true) /\
  model_yload [102;97;108;115;101]%N = LVal (VBool false) /\
  model_yload [110;117;108;108]%N = LVal VNone.
Proof.
  split; [|split; [|vm_compute; auto]].
  - intros s H. apply tag_re_sound; [exact loader_table_wf|]. exact (incl_sound _ _ _ json_int_incl s H).
  - intros s H. apply tag_re_sound; [exact loader_table_wf|]. exact (incl_sound _ _ _ json_float_incl s H).
Qed.

(* the guard of the channel theorem is satisfiable by a structured setting: List[int], text "[1, 2]" *)
Definition ex_text : str := [91;49;44;32;50;93]%N.
Definition ex_val : val := VList [VInt 1; VInt 2].
Definition ex_yl : str -> lres := case_yload [(ex_text, LVal ex_val)].

Lemma example_guard : guard (chk as_is ex_yl) (TList TInt) ex_text ex_val = true.
Proof. vm_compute. reflexivity. Qed.

(* ... and the scalar hypothesis by the text "12" under the scalar model of the loader *)
Lemma example_denotes : denotes as_is model_yload [49;50]%N (VInt 12).
Proof. unfold denotes. vm_compute. auto. Qed.

(* ---- the unguarded statements are false of the pinned tree --------------------------------------------------- *)
(* None where the type does not admit it: the object / document channels store it, the text channels reject *)
Lemma none_unchecked_witness :
  let C := chk as_is model_yload in
  g_reads C TInt [110;117;108;108]%N VNone = true /\ g_fixpt C TInt VNone = true /\
  via_object C TInt VNone = AOk VNone /\ is_ok (via_argv C TInt [110;117;108;108]%N) = false.
Proof. vm_compute. auto. Qed.

(* a key with a clash-name component: the object / document channels store the value as given *)
Lemma clash_key_witness :
  let C := chk as_is model_yload in
  guard C TFloat [49]%N (VInt 1) = true /\
  run_channel C true ChObject TFloat [49]%N (VInt 1) = AOk (VInt 1) /\
  run_channel C true ChArgv TFloat [49]%N (VInt 1) = AOk (VFloat (FFin 1 0)).
Proof. vm_compute. auto. Qed.

(* Literal[1, 2] compares with ==: True is taken as an object, the text "true" is not *)
Lemma literal_eq_witness :
  let C := chk as_is model_yload in
  via_object C (TLit [LInt 1; LInt 2]) (VBool true) = AOk (VBool true) /\
  is_ok (via_argv C (TLit [LInt 1; LInt 2]) [116;114;117;101]%N) = false /\
  guard (chk_lit as_is model_yload) (TLit [LInt 1; LInt 2]) [116;114;117;101]%N (VBool true) = true.
Proof. vm_compute. auto. Qed.

(* a Dict[str, str] entry whose text reads as null: the whole-value text is accepted, the entry-by-entry command line
   is rejected (no retry with the entry's raw text), and is accepted once the retry is there *)
Lemma nested_item_witness :
  let t := TDict false TStr in
  let whole := [123;34;107;34;58;32;34;110;117;108;108;34;125]%N in       (* {"k": "null"} *)
  let yl := case_yload [(whole, LVal (VDict [(VStr [107]%N, VStr [110;117;108;108]%N)]))] in
  via_argv (chk as_is yl) t whole = AOk (VDict [(VStr [107]%N, VStr [110;117;108;108]%N)]) /\
  is_ok (via_argv_nested as_is yl false t [([107]%N, [110;117;108;108]%N)]) = false /\
  via_argv_nested as_is yl true t [([107]%N, [110;117;108;108]%N)] = AOk (VDict [(VStr [107]%N, VStr [110;117;108;108]%N)]).
Proof. vm_compute. auto. Qed.

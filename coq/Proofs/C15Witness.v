(* C15 — concrete parsers: non-vacuity examples for the hypotheses of the property theorems, and the inputs on which
   the unrepaired code violates the property (the two listed findings; same inputs as replays/known/C15-*.json). *)
From JV Require Import Lib.Base Lib.C15Val Model.C15Links Proofs.C15Proofs Proofs.C15DumpProofs Proofs.C15ItemsProofs
  Proofs.C15FixedProofs.

Definition sA : str := [97]%N.   Definition sB : str := [98]%N.   Definition sT : str := [116]%N.
Definition sG : str := [103]%N.  Definition sX : str := [120]%N.  Definition sY : str := [121]%N.
Definition sU : str := [117]%N.  Definition sP : str := [112]%N.  Definition sQ : str := [113]%N.
Definition sCS : str := [99; 115]%N.
Definition sBase : str := [99;49;53;109;111;100;46;66;97;115;101]%N.   (* "c15mod.Base" *)

(* compute functions of the witnesses: 0 = sum of the int arguments, 1 = sum of the values of a group *)
Definition ints (l : list val) : option (list Z) := mapM (fun v => match v with VInt z => Some z | _ => None end) l.
Definition wfn (f : nat) (args : list val) : option val :=
  match f with
  | 0 => option_map (fun zs => VInt (fold_left Z.add zs 0%Z)) (ints args)
  | _ => match args with
         | [VMap m] => option_map (fun zs => VInt (fold_left Z.add zs 0%Z)) (ints (map snd m))
         | _ => None
         end
  end.

Definition int_arg (k : key) (d : val) : decl := {| d_key := k; d_kind := KPlain TInt; d_default := d; d_required := false; d_alias := true |}.

(* ------------------------------------------------------------------ a well-behaved parser
   --a int=1, --b int=2, --t int (required); link_arguments(("a","b"), "t", add).
   Input: APP_A=4 in the environment, then --cfg={"t": 99, "a": 5} --b=7 : the config supplies a value for the target. *)
Definition ex_decls : list decl :=
  [int_arg [sA] (VInt 1); int_arg [sB] (VInt 2);
   {| d_key := [sT]; d_kind := KPlain TInt; d_default := VNone; d_required := true; d_alias := true |}].
Definition ex_links : list link := [{| l_src := [[sA]; [sB]]; l_tgt := [sT]; l_fn := Some 0 |}].
Definition ex_input : input :=
  InArgs [([sA], VInt 4)] [Cfg (VMap [(sT, VInt 99); (sA, VInt 5)]); Opt [sB] (VInt 7)].
Definition ex_cfg : val := VMap [(sA, VInt 5); (sB, VInt 7); (sT, VInt 12)].

Example ex_accepted : snd (build ex_decls ex_links) = [0%N].
Proof. vm_compute. reflexivity. Qed.
Example ex_overlap_free : overlap_free (map al_link (p_links (fst (build ex_decls ex_links)))) = true.
Proof. vm_compute. reflexivity. Qed.
Example ex_parse : parse wfn [] (fst (build ex_decls ex_links)) ex_input = Ok ex_cfg.
Proof. vm_compute. reflexivity. Qed.
Example ex_required_before : p_req (init_parser ex_decls) = [[sT]].
Proof. vm_compute. reflexivity. Qed.
Example ex_required_after : p_req (fst (build ex_decls ex_links)) = [].
Proof. vm_compute. reflexivity. Qed.
Example ex_option_rejected :
  parse wfn [] (fst (build ex_decls ex_links)) (InArgs [] [Opt [sA] (VInt 3); Opt [sT] (VInt 5)]) = Err ELinked.
Proof. vm_compute. reflexivity. Qed.
Example ex_alias_rejected :
  parse wfn [] (fst (build ex_decls ex_links)) (InArgs [] [OptAlias [sA] (VInt 3); OptAlias [sT] (VInt 5)]) = Err ELinked.
Proof. vm_compute. reflexivity. Qed.
Example ex_dump : strip (fst (build ex_decls ex_links)) ex_cfg = VMap [(sA, VInt 5); (sB, VInt 7)].
Proof. vm_compute. reflexivity. Qed.
Example ex_reparse :
  parse wfn [] (fst (build ex_decls ex_links)) (InArgs [] [Cfg (strip (fst (build ex_decls ex_links)) ex_cfg)]) = Ok ex_cfg.
Proof. vm_compute. reflexivity. Qed.
(* the old and the repaired link_arguments agree on it *)
Example ex_fixed_same : build_fixed ex_decls ex_links = build ex_decls ex_links.
Proof. vm_compute. reflexivity. Qed.
(* chains are rejected: t --> b after (a,b) --> t, and b --> a ... no: a second link INTO a source *)
Example ex_chain_rejected :
  snd (build ex_decls (ex_links ++ [{| l_src := [[sT]]; l_tgt := [sB]; l_fn := None |};
                                    {| l_src := [[sB]]; l_tgt := [sA]; l_fn := None |};
                                    {| l_src := [[sA]]; l_tgt := [sT]; l_fn := None |}])) = [0; 1; 1; 1]%N.
Proof. vm_compute. reflexivity. Qed.

(* ------------------------------------------------------------------ finding link-key-prefix-overlap
   --g.x int=1, --g.y int=2, --t int, --a int=10; link_arguments("g","t",gsum); link_arguments("a","g.x").
   Both calls are accepted (the keys are not EQUAL); parse_args([]) gives t == 2 but g == {y: 2, x: 10}. *)
Definition ov_decls : list decl :=
  [int_arg [sG; sX] (VInt 1); int_arg [sG; sY] (VInt 2); int_arg [sT] VNone; int_arg [sA] (VInt 10)].
Definition ov_links : list link :=
  [{| l_src := [[sG]]; l_tgt := [sT]; l_fn := Some 1 |}; {| l_src := [[sA]]; l_tgt := [sG; sX]; l_fn := None |}].
Definition ov_cfg : val := VMap [(sG, VMap [(sY, VInt 2); (sX, VInt 10)]); (sA, VInt 10); (sT, VInt 2)].

Lemma overlap_witness :
  snd (build ov_decls ov_links) = [0; 0]%N /\
  parse wfn [] (fst (build ov_decls ov_links)) (InArgs [] []) = Ok ov_cfg /\
  exists a, In a (p_links (fst (build ov_decls ov_links))) /\ ~ holds wfn a ov_cfg.
Proof.
  split; [vm_compute; reflexivity|]. split; [vm_compute; reflexivity|].
  eexists. split; [vm_compute; left; reflexivity|].
  intro H. specialize (H [VMap [(sY, VInt 2); (sX, VInt 10)]] eq_refl).
  destruct H as [v [C T]]. vm_compute in C. inversion C; subst v. vm_compute in T. discriminate.
Qed.

Lemma overlap_refuted :
  exists ds ls x cfg a,
    parse wfn [] (fst (build ds ls)) x = Ok cfg /\ In a (p_links (fst (build ds ls))) /\ ~ holds wfn a cfg.
Proof.
  destruct overlap_witness as [_ [P [a [Ha N]]]].
  exists ov_decls, ov_links, (InArgs [] []), ov_cfg, a. auto.
Qed.

(* the guard of the theorem is what fails, and the repaired link_arguments rejects the second call *)
Example ov_guard : overlap_free (map al_link (p_links (fst (build ov_decls ov_links)))) = false.
Proof. vm_compute. reflexivity. Qed.
Example ov_fixed_rejects : snd (build_fixed ov_decls ov_links) = [0; 1]%N.
Proof. vm_compute. reflexivity. Qed.

(* ------------------------------------------------------------------ finding list-item-target-in-dump
   --u int=7, --cs List[Base]=[]; link_arguments("u","cs.init_args.q"); --cs=[{"class_path": "c15mod.Base"}]. *)
Definition li_classes : list cls := [{| c_name := sBase; c_params := [(sP, TInt, Some (VInt 1)); (sQ, TInt, Some (VInt 2))] |}].
Definition li_decls : list decl :=
  [int_arg [sU] (VInt 7); {| d_key := [sCS]; d_kind := KClassList; d_default := VList []; d_required := false; d_alias := false |}].
Definition li_links : list link := [{| l_src := [[sU]]; l_tgt := [sCS; init_args; sQ]; l_fn := None |}].
Definition li_item (q : Z) : val :=
  VMap [(class_path, VStr sBase); (init_args, VMap [(sP, VInt 1); (sQ, VInt q)])].
Definition li_pre : val := VMap [(sU, VInt 7); (sCS, VList [li_item 2])].
Definition li_cfg : val := VMap [(sU, VInt 7); (sCS, VList [li_item 7])].

Lemma list_item_witness :
  snd (build li_decls li_links) = [0%N] /\
  finish wfn li_classes (fst (build li_decls li_links)) li_pre = Ok li_cfg /\
  get (strip (fst (build li_decls li_links)) li_cfg) [sCS] = Some (VList [li_item 7]) /\
  get (li_item 7) [init_args; sQ] = Some (VInt 7).
Proof. repeat split; vm_compute; reflexivity. Qed.

Example li_overlap_free : overlap_free (map al_link (p_links (fst (build li_decls li_links)))) = true.
Proof. vm_compute. reflexivity. Qed.
(* two items, one given with q, the other as a bare class path completed by the defaults: both end with q == u *)
Example li_two_items :
  finish wfn li_classes (fst (build li_decls li_links)) (VMap [(sU, VInt 7); (sCS, VList [li_item 2; li_item 5])])
  = Ok (VMap [(sU, VInt 7); (sCS, VList [li_item 7; li_item 7])]).
Proof. vm_compute. reflexivity. Qed.

(* some accepted link with a target dest.init_args.<child>, a successful parse, and an item of the dumped list
   at dest that still carries the computed target *)
Lemma list_item_refuted :
  exists classes ds ls pre cfg a dest child items i v,
    finish wfn classes (fst (build ds ls)) pre = Ok cfg /\
    In a (p_links (fst (build ds ls))) /\ al_kind a = TgtInit dest child /\
    get (strip (fst (build ds ls)) cfg) dest = Some (VList items) /\ In i items /\ get i child = Some v.
Proof.
  exists li_classes, li_decls, li_links, li_pre, li_cfg.
  eexists. exists [sCS], [init_args; sQ], [li_item 7], (li_item 7), (VInt 7).
  split; [vm_compute; reflexivity|]. split; [vm_compute; left; reflexivity|].
  split; [vm_compute; reflexivity|]. split; [vm_compute; reflexivity|].
  split; [left; reflexivity|vm_compute; reflexivity].
Qed.

(* the repaired strip_link_target_keys removes it from the items *)
Example li_fixed_dump :
  strip_fixed (fst (build li_decls li_links)) li_cfg
  = VMap [(sU, VInt 7); (sCS, VList [VMap [(class_path, VStr sBase); (init_args, VMap [(sP, VInt 1)])]])].
Proof. vm_compute. reflexivity. Qed.

(* ------------------------------------------------------------------ finding skipped-link-target-stripped
   --c Base, --d Base; link_arguments("c.init_args.q", "d.init_args.l"); --c=c15mod.Lst (Lst takes no q: the link is
   skipped) --d={"class_path": "c15mod.Lst", "init_args": {"l": []}}: the parse keeps l == [], the dump drops it. *)
Definition sC : str := [99]%N.  Definition sD : str := [100]%N.  Definition sL : str := [108]%N.
Definition sLst : str := [99;49;53;109;111;100;46;76;115;116]%N.   (* "c15mod.Lst" *)
Definition sk_classes : list cls :=
  li_classes ++ [{| c_name := sLst; c_params := [(sP, TInt, Some (VInt 3)); (sL, TListInt, Some (VList [VInt 7]))] |}].
Definition sk_decls : list decl :=
  [{| d_key := [sC]; d_kind := KClass; d_default := VNone; d_required := false; d_alias := false |};
   {| d_key := [sD]; d_kind := KClass; d_default := VNone; d_required := false; d_alias := false |}].
Definition sk_links : list link := [{| l_src := [[sC; init_args; sQ]]; l_tgt := [sD; init_args; sL]; l_fn := None |}].
Definition sk_obj (l : list val) : val := VMap [(class_path, VStr sLst); (init_args, VMap [(sP, VInt 3); (sL, VList l)])].
Definition sk_cfg : val := VMap [(sC, sk_obj [VInt 7]); (sD, sk_obj [])].

Lemma skipped_refuted :
  exists classes ds ls pre cfg a v,
    finish wfn classes (fst (build ds ls)) pre = Ok cfg /\ In a (p_links (fst (build ds ls))) /\
    overlap_free (map al_link (p_links (fst (build ds ls)))) = true /\
    skipped_target_present (p_links (fst (build ds ls))) cfg = true /\
    mapM (get cfg) (al_src a) = None /\ get cfg (al_tgt a) = Some v /\
    get (strip (fst (build ds ls)) cfg) (al_tgt a) = None.
Proof.
  exists sk_classes, sk_decls, sk_links, sk_cfg, sk_cfg. eexists. exists (VList []).
  split; [vm_compute; reflexivity|]. split; [vm_compute; left; reflexivity|].
  repeat split; vm_compute; reflexivity.
Qed.

(* resolve t s ≠ TgStr  <->  s ∈ L(listed_re t), for well-formed tables. *)
From JV Require Import Lib.Base Lib.Regex Model.TyVal Model.Scalar.

Lemma alt_list_lang : forall l s, lang (alt_list l) s <-> exists r, In r l /\ lang r s.
Proof.
  induction l as [|x l IH]; intros s.
  - simpl. split; [tauto|intros (r & [] & _)].
  - destruct l as [|y l].
    + simpl. split; [intros H; exists x; auto|intros (r & [<-|[]] & H); exact H].
    + change (alt_list (x :: y :: l)) with (Alt x (alt_list (y :: l))). simpl lang. rewrite IH. split.
      * intros [H|(r & Hr & H)]; [exists x; split; [left; reflexivity|exact H]|exists r; split; [right; exact Hr|exact H]].
      * intros (r & [<-|Hr] & H); [left; exact H|right; exists r; auto].
Qed.

Lemma chr_mem x c : cls_mem x {| c_ranges := [(c, c)]; c_neg := false |} = N.eqb x c.
Proof.
  unfold cls_mem, in_range. cbn. rewrite orb_false_r.
  destruct (N.eqb_spec x c) as [->|Hne].
  - rewrite !N.leb_refl. reflexivity.
  - destruct (N.leb_spec c x), (N.leb_spec x c); simpl; auto. lia.
Qed.

Lemma chr_lang c s : lang (chr c) s <-> s = [c].
Proof.
  unfold chr. simpl. split.
  - intros (x & -> & H). rewrite chr_mem in H. apply N.eqb_eq in H. subst. reflexivity.
  - intros ->. exists c. split; [reflexivity|]. rewrite chr_mem. apply N.eqb_refl.
Qed.

Lemma star_any_lang s : lang (Star any_char) s.
Proof.
  simpl. exists (map (fun c => [c]) s). split.
  - induction s as [|c s IH]; simpl; [reflexivity|]. f_equal. exact IH.
  - induction s as [|c s IH]; simpl; constructor; auto. split; [discriminate|].
    exists c. split; [reflexivity|]. reflexivity.
Qed.

Lemma first_is_lang c s : lang (first_is c) s <-> exists s', s = c :: s'.
Proof.
  unfold first_is. simpl lang. split.
  - intros (s1 & s2 & -> & H1 & _). apply chr_lang in H1. subst. exists s2. reflexivity.
  - intros (s' & ->). exists [c], s'. split; [reflexivity|]. split; [apply chr_lang; reflexivity|].
    apply star_any_lang.
Qed.

Definition no_str_tag (es : list (tag * re)) : bool := forallb (fun e => negb (tag_eqb (fst e) TgStr)) es.

Lemma first_match_listed es s :
  no_str_tag es = true -> (first_match es s <> TgStr <-> lang (any_of es) s).
Proof.
  unfold any_of. intros H. rewrite alt_list_lang. induction es as [|[tg r] es IH]; simpl in *.
  - split; [congruence|intros (r & [] & _)].
  - apply andb_true_iff in H. destruct H as [Ht Hes]. destruct (matches r s) eqn:E.
    + split.
      * intros _. exists r. split; [left; reflexivity|apply matches_lang; exact E].
      * intros _ Heq. subst. simpl in Ht. discriminate.
    + rewrite (IH Hes). split.
      * intros (x & Hx & Hl). exists x. auto.
      * intros (x & [<-|Hx] & Hl); [apply matches_lang in Hl; congruence|exists x; auto].
Qed.

Fixpoint keys_nodup (t : list (N * list (tag * re))) : bool :=
  match t with
  | [] => true
  | (c, _) :: t' => negb (existsb (fun ce => N.eqb c (fst ce)) t') && keys_nodup t'
  end.

Definition wf_table (t : rtable) : bool :=
  match wildcard t with [] => true | _ => false end
  && keys_nodup (by_char t)
  && forallb (fun ce => no_str_tag (snd ce)) (by_char t)
  && no_str_tag (on_empty t).

Lemma lookup_char_In c es t :
  keys_nodup t = true -> In (c, es) t -> lookup_char c t = es.
Proof.
  induction t as [|[c' es'] t IH]; simpl; [tauto|]. intros Hn [H|H].
  - inversion H; subst. rewrite N.eqb_refl. reflexivity.
  - apply andb_true_iff in Hn. destruct Hn as [Hc Hn]. destruct (N.eqb c c') eqn:E.
    + apply N.eqb_eq in E. subst. apply negb_true_iff in Hc.
      assert (existsb (fun ce => N.eqb c' (fst ce)) t = true).
      { apply existsb_exists. exists (c', es). split; [exact H|simpl; apply N.eqb_refl]. }
      congruence.
    + apply IH; auto.
Qed.

Lemma lookup_char_cases c t :
  (exists es, In (c, es) t /\ lookup_char c t = es) \/
  (lookup_char c t = [] /\ forall es, ~ In (c, es) t).
Proof.
  induction t as [|[c' es'] t IH]; simpl.
  - right. split; [reflexivity|tauto].
  - destruct (N.eqb c c') eqn:E.
    + apply N.eqb_eq in E. subst. left. exists es'. auto.
    + destruct IH as [(es & Hin & Hl)|[Hl Hn]].
      * left. exists es. auto.
      * right. split; [exact Hl|]. intros es [H|H]; [inversion H; subst; rewrite N.eqb_refl in E; discriminate|].
        exact (Hn es H).
Qed.

Theorem resolve_listed t s :
  wf_table t = true -> (resolve t s <> TgStr <-> matches (listed_re t) s = true).
Proof.
  unfold wf_table. intros H. repeat (apply andb_true_iff in H; destruct H as [H ?]).
  destruct (wildcard t) eqn:Ew; [|discriminate].
  rename H0 into Hempty, H1 into Hall, H2 into Hnd.
  rewrite matches_lang. unfold resolve, candidates, listed_re. rewrite Ew, app_nil_r, alt_list_lang.
  rewrite forallb_forall in Hall. destruct s as [|c s].
  - rewrite (first_match_listed _ _ Hempty). split.
    + intros Hl. exists (And Eps (any_of (on_empty t))). split; [apply in_or_app; right; left; reflexivity|].
      simpl. auto.
    + intros (r & Hr & Hl). apply in_app_or in Hr. destruct Hr as [Hr|[<-|[]]].
      * apply in_map_iff in Hr. destruct Hr as ([c es] & <- & _). simpl in Hl. destruct Hl as [Hf _].
        apply first_is_lang in Hf. destruct Hf as (s' & Hf). discriminate.
      * simpl in Hl. tauto.
  - destruct (lookup_char_cases c (by_char t)) as [(es & Hin & Hl)|[Hl Hn]]; rewrite Hl.
    + rewrite (first_match_listed _ _ (Hall _ Hin)). split.
      * intros Hlang. exists (And (first_is c) (any_of es)). split.
        -- apply in_or_app. left. apply in_map_iff. exists (c, es). auto.
        -- simpl. split; [apply first_is_lang; eexists; reflexivity|exact Hlang].
      * intros (r & Hr & Hlang). apply in_app_or in Hr. destruct Hr as [Hr|[<-|[]]].
        -- apply in_map_iff in Hr. destruct Hr as ([c' es'] & <- & Hin'). simpl in Hlang.
           destruct Hlang as [Hf Ha]. apply first_is_lang in Hf. destruct Hf as (s' & Hf).
           inversion Hf; subst. rewrite (lookup_char_In _ _ _ Hnd Hin'). exact Ha.
        -- simpl in Hlang. destruct Hlang as [Hf _]. discriminate.
    + simpl. split; [congruence|]. intros (r & Hr & Hlang). exfalso.
      apply in_app_or in Hr. destruct Hr as [Hr|[<-|[]]].
      * apply in_map_iff in Hr. destruct Hr as ([c' es'] & <- & Hin'). simpl in Hlang.
        destruct Hlang as [Hf _]. apply first_is_lang in Hf. destruct Hf as (s' & Hf). inversion Hf; subst.
        exact (Hn _ Hin').
      * simpl in Hlang. destruct Hlang as [Hf _]. discriminate.
Qed.

(* the form used by C01: inclusion of the listed languages transfers "is a plain string" *)
Theorem plain_agree (dumper loader : rtable) (fuel : nat) :
  wf_table dumper = true -> wf_table loader = true ->
  incl_re fuel (listed_re loader) (listed_re dumper) = true ->
  forall s, resolve dumper s = TgStr -> resolve loader s = TgStr.
Proof.
  intros Hd Hl Hincl s Hs.
  destruct (tag_eqb (resolve loader s) TgStr) eqn:E.
  - destruct (resolve loader s); try discriminate; reflexivity.
  - exfalso. assert (Hne : resolve loader s <> TgStr) by (intro H; rewrite H in E; discriminate).
    apply (resolve_listed _ _ Hl) in Hne. apply (incl_sound _ _ _ Hincl) in Hne.
    apply (resolve_listed _ _ Hd) in Hne. congruence.
Qed.

(* C03 — the cycle check of yaml_load: whatever it accepts is walkable (Spec/C03CycleSpec.walks_ok), for ALL heaps. *)
From JV Require Import Lib.Base Model.C03Cycle Spec.C03CycleSpec.
Require Import List Arith Bool.
Import ListNotations.

Lemma any_m_false g items :
  any_m g items = Some false -> forall c, In c items -> g c = Some false.
Proof.
  induction items as [|a r IH]; simpl; intros H c Hc; [contradiction|].
  destruct (g a) as [[|]|] eqn:E; try discriminate.
  destruct Hc as [<-|Hc]; [exact E|]. apply IH; assumption.
Qed.

Lemma any_m_ext g1 g2 items :
  (forall c, g1 c = g2 c) -> any_m g1 items = any_m g2 items.
Proof.
  intro H. induction items as [|a r IH]; simpl; [reflexivity|]. rewrite H, IH. reflexivity.
Qed.

Lemma existsb_eqb_false v l : existsb (Nat.eqb v) l = false -> ~ In v l.
Proof.
  intros H Hin. assert (existsb (Nat.eqb v) l = true) as E.
  { apply existsb_exists. exists v. split; [assumption|apply Nat.eqb_refl]. }
  rewrite E in H. discriminate.
Qed.

Lemma not_in_existsb v l : ~ In v l -> existsb (Nat.eqb v) l = false.
Proof.
  intro H. destruct (existsb (Nat.eqb v) l) eqn:E; [|reflexivity].
  apply existsb_exists in E. destruct E as [x [Hx Hv]]. apply Nat.eqb_eq in Hv. subst x. contradiction.
Qed.

(* every node the check is inside of is a container the check descends *)
Definition parents_descend (tuples : bool) (h : heap) (parents : list nat) : Prop :=
  forall x, In x parents -> descends tuples (fst (node h x)) = true.

(* the walk follows exactly the items the check follows *)
Definition same_edges (tuples : bool) (h : heap) : Prop :=
  forall v, is_container (fst (node h v)) = descends tuples (fst (node h v)).

Lemma accepted_is_walkable tuples h :
  same_edges tuples h ->
  forall fuel parents v,
    parents_descend tuples h parents ->
    has_cycle tuples fuel h parents v = Some false ->
    forall n, walks_ok n h parents v = true.
Proof.
  intros SE. induction fuel as [|f IH]; intros parents v PD H n; simpl in H; [discriminate|].
  destruct (node h v) as [k items] eqn:Nv.
  destruct (descends tuples k) eqn:Dk; simpl in H.
  - destruct (existsb (Nat.eqb v) parents) eqn:Ev; [discriminate|].
    assert (forall m, forallb (walks_ok m h (v :: parents)) (succs h v) = true) as Hall.
    { intro m. apply forallb_forall. intros c Hc.
      unfold succs in Hc. rewrite Nv in Hc.
      destruct (is_container k); [|contradiction].
      apply IH.
      - intros x [<-|Hx]; [rewrite Nv; exact Dk|apply PD; exact Hx].
      - eapply any_m_false; eassumption. }
    destruct n as [|n']; simpl; rewrite Ev; simpl; [reflexivity|apply Hall].
  - (* a node the check does not descend: the walk does not descend it either, and it is not among the parents *)
    assert (existsb (Nat.eqb v) parents = false) as Ev.
    { apply not_in_existsb. intro Hin. specialize (PD v Hin). rewrite Nv in PD. simpl in PD. congruence. }
    assert (succs h v = []) as Sv.
    { unfold succs. rewrite Nv. specialize (SE v). rewrite Nv in SE. simpl in SE. rewrite SE, Dk. reflexivity. }
    destruct n as [|n']; simpl; rewrite Ev; simpl; [reflexivity|rewrite Sv; reflexivity].
Qed.

Lemma nth_in_or_default' {A} (n : nat) (l : list A) (d : A) : In (nth n l d) l \/ nth n l d = d.
Proof. destruct (nth_in_or_default n l d) as [H|H]; [left|right]; assumption. Qed.

Lemma same_edges_of_guard tuples h :
  tuples || tuple_free h = true -> same_edges tuples h.
Proof.
  intros G v. unfold node.
  destruct (nth_in_or_default' v h (KScalar, [])) as [Hin|Hd].
  - destruct (nth v h (KScalar, [])) as [k items] eqn:E. simpl.
    destruct k; simpl; try reflexivity.
    destruct tuples; [reflexivity|]. simpl in G.
    unfold tuple_free in G. rewrite forallb_forall in G. specialize (G _ Hin). simpl in G. discriminate.
  - rewrite Hd. reflexivity.
Qed.

(* THE theorem: for every heap, root, fuel: when tuples are descended, or the heap holds no tuple, a value the check
   accepts can be walked by ANY walk over mappings, lists and tuples without ever re-entering a node *)
Theorem cycle_check_sound tuples h root fuel :
  tuples || tuple_free h = true ->
  has_cycle tuples fuel h [] root = Some false ->
  forall n, walks_ok n h [] root = true.
Proof.
  intros G H n. eapply accepted_is_walkable; try eassumption.
  - apply same_edges_of_guard; assumption.
  - intros x [].
Qed.

Corollary cycle_check_spec tuples h root fuel rejected :
  tuples || tuple_free h = true ->
  has_cycle tuples fuel h [] root = Some rejected ->
  cycle_check_ok h root rejected = true.
Proof.
  intros G H. unfold cycle_check_ok. destruct rejected; [reflexivity|].
  eapply cycle_check_sound; eassumption.
Qed.

(* the heap of `&x !!pairs [k: *x]`: node 0 the list, node 1 the tuple ('k', <node 0>), node 2 the scalar 'k' *)
Definition pairs_heap : heap := [(KList, [1]); (KTuple, [2; 0]); (KScalar, [])].

Lemma pairs_accepted_not_walkable :
  has_cycle false 5 pairs_heap [] 0 = Some false /\ cycle_check_ok pairs_heap 0 false = false.
Proof. vm_compute. split; reflexivity. Qed.

Lemma pairs_rejected_when_tuples_descended :
  has_cycle true 5 pairs_heap [] 0 = Some true.
Proof. vm_compute. reflexivity. Qed.

(* hypotheses are satisfiable: a shared (not cyclic) value is accepted, a plain self-referential list is refused *)
Definition shared_heap : heap := [(KList, [1; 1]); (KList, [2]); (KScalar, [])].
Lemma shared_accepted : has_cycle false 5 shared_heap [] 0 = Some false /\ tuple_free shared_heap = true.
Proof. vm_compute. split; reflexivity. Qed.
Definition selfref_heap : heap := [(KList, [0])].
Lemma selfref_refused : has_cycle false 5 selfref_heap [] 0 = Some true.
Proof. vm_compute. reflexivity. Qed.

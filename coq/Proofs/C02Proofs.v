(* C02: lemmas about Model/Ty.v. Part 1: a usable induction principle for the nested type grammar, the Union
   machinery (what `adapt_union` can return, when it succeeds, independence from member order), and soundness of the
   repaired model (`all_fixed`): whatever adapt_g / check_type_g / parse_key_g accept has exactly the declared shape. *)
From JV Require Import Lib.Base Model.TyVal Model.Scalar Model.Ty Spec.Conforms Spec.ConformsRx Spec.C02Defs.
From Coq Require Import Permutation.

(* ---- induction over ty with Forall hypotheses for the nested lists ------------------------------------------- *)
Section TyInd.
Variable P : ty -> Prop.
Hypothesis HStr : P TStr.
Hypothesis HInt : P TInt.
Hypothesis HFloat : P TFloat.
Hypothesis HBool : P TBool.
Hypothesis HNone : P TNone.
Hypothesis HAny : P TAny.
Hypothesis HLit : forall ls, P (TLit ls).
Hypothesis HEnum : forall c ms, P (TEnum c ms).
Hypothesis HUnion : forall ts, Forall P ts -> P (TUnion ts).
Hypothesis HList : forall t, P t -> P (TList t).
Hypothesis HDict : forall b t, P t -> P (TDict b t).
Hypothesis HTuple : forall ts, Forall P ts -> P (TTuple ts).
Hypothesis HTupleVar : forall t, P t -> P (TTupleVar t).
Hypothesis HSet : forall t, P t -> P (TSet t).

Fixpoint ty_ind' (t : ty) : P t :=
  match t with
  | TStr => HStr | TInt => HInt | TFloat => HFloat | TBool => HBool | TNone => HNone | TAny => HAny
  | TLit ls => HLit ls
  | TEnum c ms => HEnum c ms
  | TUnion ts => HUnion ts ((fix go (ts : list ty) : Forall P ts :=
                               match ts with [] => Forall_nil _ | t1 :: ts' => Forall_cons _ (ty_ind' t1) (go ts') end) ts)
  | TList t1 => HList t1 (ty_ind' t1)
  | TDict b t1 => HDict b t1 (ty_ind' t1)
  | TTuple ts => HTuple ts ((fix go (ts : list ty) : Forall P ts :=
                               match ts with [] => Forall_nil _ | t1 :: ts' => Forall_cons _ (ty_ind' t1) (go ts') end) ts)
  | TTupleVar t1 => HTupleVar t1 (ty_ind' t1)
  | TSet t1 => HSet t1 (ty_ind' t1)
  end.
End TyInd.

(* ---- the nested fixes of the definitions as list functions ----------------------------------------------------- *)
Lemma shaped_union ts v : shaped (TUnion ts) v = existsb (fun t => shaped t v) ts.
Proof. simpl. induction ts as [|t ts IH]; simpl; [reflexivity|]. now rewrite IH. Qed.

Lemma conforms_union ts v : v <> VNone -> conforms (TUnion ts) v = existsb (fun t => conforms t v) ts.
Proof.
  intro Hv. destruct v; try congruence; simpl;
    (induction ts as [|t ts IH]; simpl; [reflexivity|]; now rewrite IH).
Qed.

Fixpoint all2 {A B} (f : A -> B -> bool) (l : list A) (m : list B) : bool :=
  match l, m with
  | [], [] => true
  | x :: l', y :: m' => f x y && all2 f l' m'
  | _, _ => false
  end.

Lemma shaped_tuple ts l : shaped (TTuple ts) (VTuple l) = all2 shaped ts l.
Proof.
  simpl. revert l. induction ts as [|t ts IH]; destruct l; simpl; try reflexivity. now rewrite IH.
Qed.

Lemma conforms_tuple ts l : conforms (TTuple ts) (VTuple l) = all2 conforms ts l.
Proof.
  simpl. revert l. induction ts as [|t ts IH]; destruct l; simpl; try reflexivity. now rewrite IH.
Qed.

Lemma conforms_none t : conforms t VNone = true.
Proof. destruct t; reflexivity. Qed.

(* ---- shaped implies conforms ---------------------------------------------------------------------------------- *)
Lemma forallb_impl {A} (f g : A -> bool) l :
  Forall (fun x => f x = true -> g x = true) l -> forallb f l = true -> forallb g l = true.
Proof.
  induction 1; simpl; auto. rewrite !andb_true_iff. intros [? ?]; split; auto.
Qed.

Lemma all2_impl {A B} (f g : A -> B -> bool) l m :
  Forall (fun x => forall y, f x y = true -> g x y = true) l -> all2 f l m = true -> all2 g l m = true.
Proof.
  intro H. revert m. induction H; destruct m; simpl; auto.
  rewrite !andb_true_iff. intros [? ?]; split; auto.
Qed.

Lemma existsb_impl {A} (f g : A -> bool) l :
  Forall (fun x => f x = true -> g x = true) l -> existsb f l = true -> existsb g l = true.
Proof.
  induction 1; simpl; auto. rewrite !orb_true_iff. intros [?|?]; auto.
Qed.

Lemma shaped_conforms : forall t v, shaped t v = true -> conforms t v = true.
Proof.
  induction t using ty_ind'; intros v Hs;
    (destruct (match v with VNone => true | _ => false end) eqn:Hn;
     [destruct v; try discriminate; apply conforms_none|]).
  1-8: destruct v; try discriminate; simpl in *; try discriminate; exact Hs.
  - rewrite shaped_union in Hs. rewrite conforms_union by (intro; subst; discriminate).
    eapply existsb_impl; [|exact Hs]. eapply Forall_impl; [|exact H]. intros t Ht; apply Ht.
  - destruct v; try discriminate; simpl in *; try discriminate.
    eapply forallb_impl; [|exact Hs]. apply Forall_forall. intros; auto.
  - destruct v; try discriminate; simpl in *; try discriminate.
    eapply forallb_impl; [|exact Hs]. apply Forall_forall. intros kv _.
    rewrite !andb_true_iff. intros [? ?]; split; auto.
  - destruct v; try discriminate; try (simpl in Hs; discriminate).
    rewrite shaped_tuple in Hs. rewrite conforms_tuple.
    eapply all2_impl; [|exact Hs]. eapply Forall_impl; [|exact H]. intros t Ht y; apply Ht.
  - destruct v; try discriminate; simpl in *; try discriminate.
    eapply forallb_impl; [|exact Hs]. apply Forall_forall. intros; auto.
  - destruct v; try discriminate; simpl in *; try discriminate.
    eapply forallb_impl; [|exact Hs]. apply Forall_forall. intros; auto.
Qed.

(* ---- Union machinery, for any setting of the repair switches ---------------------------------------------------- *)
Lemma insert_by_in {A} (key : A -> nat) (x y : A) l : In y (insert_by key x l) <-> y = x \/ In y l.
Proof.
  induction l as [|z l IH]; simpl.
  - split; intros [H|H]; auto; try contradiction.
  - destruct (Nat.leb (key x) (key z)); simpl.
    + split; intros [H|H]; auto.
    + rewrite IH. split; intros H; tauto.
Qed.

Lemma stable_sort_in {A} (key : A -> nat) (l : list A) y : In y (stable_sort key l) <-> In y l.
Proof.
  unfold stable_sort. induction l as [|x l IH]; simpl; [tauto|].
  rewrite insert_by_in, IH. split; intros [H|H]; auto.
Qed.

Lemma existsb_insert_by {A} (key : A -> nat) (f : A -> bool) x l :
  existsb f (insert_by key x l) = f x || existsb f l.
Proof.
  induction l as [|z l IH]; simpl; [reflexivity|].
  destruct (Nat.leb (key x) (key z)); simpl; [reflexivity|].
  rewrite IH. destruct (f x), (f z); reflexivity.
Qed.

Lemma existsb_stable_sort {A} (key : A -> nat) (f : A -> bool) l :
  existsb f (stable_sort key l) = existsb f l.
Proof.
  unfold stable_sort. induction l as [|x l IH]; simpl; [reflexivity|].
  now rewrite existsb_insert_by, IH.
Qed.

Lemma existsb_perm {A} (f : A -> bool) l l' : Permutation l l' -> existsb f l = existsb f l'.
Proof.
  induction 1; simpl; try congruence.
  destruct (f x), (f y); reflexivity.
Qed.

Lemma existsb_map' {A B} (g : A -> B) (f : B -> bool) l : existsb f (map g l) = existsb (fun x => f (g x)) l.
Proof. induction l; simpl; congruence. Qed.

Definition is_uok (u : uval) : bool := match u with UOk _ => true | UExc => false end.

Lemma last_in {A} (l : list A) d : l <> [] -> In (last l d) l.
Proof.
  induction l as [|x l IH]; [congruence|]. intros _. destruct l as [|y l]; [now left|].
  right. apply IH. discriminate.
Qed.

Lemma filter_nil_existsb {A} (f : A -> bool) l : filter f l = [] <-> existsb f l = false.
Proof.
  induction l as [|x l IH]; simpl; [tauto|]. destruct (f x); simpl; [split; discriminate|exact IH].
Qed.

Lemma union_result_ok fx vals : is_ok (union_result fx vals) = existsb is_uok vals.
Proof.
  unfold union_result. fold is_uok.
  change (fun u : uval => match u with UOk _ => true | UExc => false end) with is_uok.
  destruct (filter is_uok vals) as [|u oks] eqn:E.
  - apply filter_nil_existsb in E. now rewrite E.
  - assert (Hex : existsb is_uok vals = true).
    { destruct (existsb is_uok vals) eqn:X; [reflexivity|]. apply filter_nil_existsb in X. congruence. }
    rewrite Hex. destruct (fx_union fx).
    + assert (Hin : In (last (u :: oks) UExc) (u :: oks)) by (apply last_in; discriminate).
      assert (Hin2 : In (last (u :: oks) UExc) (filter is_uok vals)) by (rewrite E; exact Hin).
      apply filter_In in Hin2. destruct Hin2 as [_ Hu].
      destruct (last (u :: oks) UExc); [reflexivity|discriminate].
    + destruct (last vals UExc); reflexivity.
Qed.

Lemma union_result_in vals w : union_result all_fixed vals = AOk w -> In (UOk w) vals.
Proof.
  unfold union_result. change (fun u : uval => match u with UOk _ => true | UExc => false end) with is_uok.
  destruct (filter is_uok vals) as [|u oks] eqn:E; [discriminate|].
  change (fx_union all_fixed) with true. cbv iota.
  assert (Hin : In (last (u :: oks) UExc) (u :: oks)) by (apply last_in; discriminate).
  assert (Hin2 : In (last (u :: oks) UExc) (filter is_uok vals)) by (rewrite E; exact Hin).
  apply filter_In in Hin2. clear Hin. destruct Hin2 as [Hin _].
  destruct (last (u :: oks) UExc); [|discriminate]. intro H; inversion H; subst. exact Hin.
Qed.

Lemma union_loop_ok orig v rs : forall vals,
  existsb is_uok (union_loop orig v rs vals)
  = existsb is_uok vals || existsb (fun r => is_ok (snd r)) rs
    || (is_some orig && negb (is_str v) && existsb (fun r => is_str_ty (fst r)) rs).
Proof.
  induction rs as [|[t r] rs IH]; intro vals; simpl.
  - now rewrite andb_false_r, !orb_false_r.
  - destruct r as [w|e]; simpl.
    + rewrite existsb_app. simpl. now rewrite !orb_true_r.
    + destruct orig as [o|]; simpl.
      * destruct (is_str_ty t) eqn:Ht; simpl.
        -- destruct (is_str v) eqn:Hv; simpl; rewrite IH, existsb_app; simpl.
           ++ now rewrite !orb_false_r.
           ++ now rewrite !orb_true_r.
        -- rewrite IH, existsb_app. simpl. now rewrite !orb_false_r.
      * rewrite IH, existsb_app. simpl. now rewrite !orb_false_r.
Qed.

Lemma union_loop_in orig v rs : forall vals u,
  In u (union_loop orig v rs vals) ->
  In u vals \/ (exists t w, In (t, AOk w) rs /\ u = UOk w)
  \/ (exists t e o, In (t, AErr e) rs /\ is_str_ty t = true /\ orig = Some o /\ u = UOk (VStr o)) \/ u = UExc.
Proof.
  induction rs as [|[t r] rs IH]; intros vals u Hu; simpl in Hu; [now left|].
  destruct r as [w|e].
  - apply in_app_or in Hu. destruct Hu as [Hu|[Hu|[]]]; [now left|].
    right; left. exists t, w. split; [now left|now subst].
  - assert (Hgen : forall x, In u (union_loop orig v rs (vals ++ [x])) ->
             (x = UExc \/ exists o, is_str_ty t = true /\ orig = Some o /\ x = UOk (VStr o)) ->
             In u vals \/ (exists t0 w, In (t0, AOk w) ((t, AErr e) :: rs) /\ u = UOk w)
             \/ (exists t0 e0 o, In (t0, AErr e0) ((t, AErr e) :: rs) /\ is_str_ty t0 = true /\ orig = Some o /\ u = UOk (VStr o))
             \/ u = UExc).
    { intros x Hx Hk. apply IH in Hx. destruct Hx as [Hx|[Hx|[Hx|Hx]]].
      - apply in_app_or in Hx. destruct Hx as [Hx|[Hx|[]]]; [now left|]. subst x.
        destruct Hk as [Hk|[o [H1 [H2 H3]]]]; [now right; right; right|].
        right; right; left. exists t, e, o. repeat split; auto. now left.
      - destruct Hx as [t0 [w [H1 H2]]]. right; left. exists t0, w. split; [now right|auto].
      - destruct Hx as [t0 [e0 [o [H1 H2]]]]. right; right; left. exists t0, e0, o. split; [now right|auto].
      - now right; right; right. }
    destruct orig as [o|].
    + destruct (is_str_ty t && negb (is_str v)) eqn:Hc.
      * eapply Hgen; [exact Hu|]. right. exists o. apply andb_true_iff in Hc. tauto.
      * eapply Hgen; [exact Hu|]. now left.
    + eapply Hgen; [exact Hu|]. now left.
Qed.

Section Fx.
Variable fx : fixes.
Variable yl : str -> lres.

Lemma adapt_union_ok orig v rs :
  is_ok (adapt_union fx orig v rs)
  = existsb (fun r => is_ok (snd r)) rs
    || (is_some orig && negb (is_str v) && existsb (fun r => is_str_ty (fst r)) rs).
Proof.
  unfold adapt_union. rewrite union_result_ok, union_loop_ok. simpl.
  now rewrite !existsb_stable_sort.
Qed.

Lemma adapt_union_err orig v rs e : adapt_union fx orig v rs = AErr e -> e = ErrValue.
Proof.
  unfold adapt_union, union_result. destruct (filter _ _); [intro H; now inversion H|].
  destruct (fx_union fx).
  - destruct (last _ _); intro H; inversion H; reflexivity.
  - destruct (last _ _); discriminate.
Qed.

Definition member_results (ser : bool) (orig : option str) (v : val) (ts : list ty) : list (ty * ares) :=
  map (fun t => (t, adapt_g fx yl ser orig t v)) ts.

Lemma adapt_union_unfold ser orig ts v :
  adapt_g fx yl ser orig (TUnion ts) v = adapt_union fx orig v (member_results ser orig v ts).
Proof.
  simpl. f_equal.
Qed.

(* a Union accepts exactly when some member accepts, or the original text is taken because `str` is a member *)
Lemma union_ok_iff ser orig ts v :
  is_ok (adapt_g fx yl ser orig (TUnion ts) v)
  = existsb (fun t => is_ok (adapt_g fx yl ser orig t v)) ts || str_fallback orig v ts.
Proof.
  rewrite adapt_union_unfold, adapt_union_ok. unfold member_results, str_fallback.
  now rewrite !existsb_map'.
Qed.

Lemma union_ok_perm ser orig ts ts' v :
  Permutation ts ts' ->
  is_ok (adapt_g fx yl ser orig (TUnion ts) v) = is_ok (adapt_g fx yl ser orig (TUnion ts') v).
Proof.
  intro HP. rewrite !union_ok_iff. unfold str_fallback.
  now rewrite (existsb_perm _ _ _ HP), (existsb_perm is_str_ty _ _ HP).
Qed.

End Fx.

(* ---- containers: accepted exactly when every item is accepted, for any setting of the switches ------------------ *)
Lemma map_ares_spec f l r : map_ares f l = inl (Some r) -> Forall2 (fun x w => f x = AOk w) l r.
Proof.
  revert r. induction l as [|x l IH]; simpl; intros r H.
  - inversion H; constructor.
  - destruct (f x) as [w|e] eqn:E; [|discriminate].
    destruct (map_ares f l) as [[r'|]|e'] eqn:E'; try discriminate.
    inversion H; subst. constructor; auto.
Qed.

Lemma map_ares_some f l : map_ares f l <> inl None.
Proof.
  induction l as [|x l IH]; simpl; [discriminate|].
  destruct (f x); [|discriminate]. destruct (map_ares f l) as [[r'|]|e']; try discriminate. congruence.
Qed.

Lemma map_ares_ok f l :
  (match map_ares f l with inl (Some _) => true | _ => false end) = forallb (fun x => is_ok (f x)) l.
Proof.
  induction l as [|x l IH]; simpl; [reflexivity|].
  destruct (f x) as [w|e]; simpl; [|reflexivity].
  rewrite <- IH. destruct (map_ares f l) as [[r'|]|e']; reflexivity.
Qed.

Section Containers.
Variable fx : fixes.
Variable yl : str -> lres.
Variable ser : bool.
Variable orig : option str.
Notation A := (adapt_g fx yl ser orig).

Lemma list_ok_iff t v l : seq_items v = Some l ->
  is_ok (A (TList t) v) = forallb (fun x => is_ok (A t x)) l.
Proof.
  intro Hs. rewrite <- map_ares_ok.
  destruct v; simpl in Hs; try discriminate; inversion Hs; subst; simpl;
    destruct (map_ares _ l) as [[r|]|e]; reflexivity.
Qed.

Lemma tuplevar_ok_iff t v l : seq_items v = Some l ->
  is_ok (A (TTupleVar t) v) = forallb (fun x => is_ok (A t x)) l.
Proof.
  intro Hs. rewrite <- map_ares_ok. simpl. rewrite Hs.
  destruct (map_ares _ l) as [[r|]|e]; reflexivity.
Qed.

Lemma seq_none_rejects_tuple ts v : seq_items v = None -> is_ok (A (TTuple ts) v) = false.
Proof. intro Hs. simpl. now rewrite Hs. Qed.

Lemma tuple_ok_iff ts v l : seq_items v = Some l ->
  is_ok (A (TTuple ts) v) = Nat.eqb (length l) (length ts) && all2 (fun t x => is_ok (A t x)) ts l.
Proof.
  intro Hs. simpl. rewrite Hs. destruct (Nat.eqb (length l) (length ts)) eqn:El; simpl; [|reflexivity].
  apply Nat.eqb_eq in El. clear Hs.
  match goal with |- is_ok (?g ts l nil) = _ =>
    assert (Hg : forall ts l acc, length l = length ts ->
                 is_ok (g ts l acc) = all2 (fun t x => is_ok (A t x)) ts l) end.
  { clear. induction ts as [|t ts IH]; intros [|x l] acc El; simpl in *; try discriminate; try reflexivity.
    destruct (adapt_g fx yl ser orig t x) as [w|e]; simpl; [|reflexivity].
    apply IH. congruence. }
  now apply Hg.
Qed.

Lemma dict_str_ok_iff t d :
  is_ok (A (TDict false t) (VDict d))
  = (negb (fx_key fx && negb ser) || forallb (fun kv => is_str (fst kv)) d)
    && forallb (fun kv => is_ok (A t (snd kv))) d.
Proof.
  simpl. destruct (fx_key fx && negb ser && negb (forallb (fun kv => is_str (fst kv)) d)) eqn:Ek.
  - apply andb_true_iff in Ek. destruct Ek as [E1 E2]. rewrite E1. apply negb_true_iff in E2. rewrite E2. reflexivity.
  - assert (Hk : (negb (fx_key fx && negb ser) || forallb (fun kv => is_str (fst kv)) d) = true).
    { destruct (fx_key fx && negb ser); simpl in *; [|reflexivity]. now apply negb_false_iff in Ek. }
    rewrite Hk. simpl.
    match goal with |- is_ok (?g d nil) = _ =>
      assert (Hg : forall d acc, is_ok (g d acc) = forallb (fun kv => is_ok (A t (snd kv))) d) end.
    { clear. induction d as [|[k x] d IH]; intro acc; simpl; [reflexivity|].
      destruct (adapt_g fx yl ser orig t x) as [w|e]; simpl; [apply IH|reflexivity]. }
    apply Hg.
Qed.

End Containers.

(* ---- soundness of the repaired model: accepted values have exactly the declared shape ---------------------------- *)
Lemma set_insert_in x l y : In y (set_insert x l) -> y = x \/ In y l.
Proof.
  unfold set_insert. destruct (existsb (py_eq x) l); [now right|].
  induction l as [|z l IH]; simpl.
  - intros [H|[]]; auto.
  - destruct (set_leb x z); simpl.
    + intros [H|H]; auto.
    + intros [H|H]; [right; now left|]. apply IH in H. destruct H; auto.
Qed.

Lemma canon_set_in l y : In y (canon_set l) -> In y l.
Proof.
  unfold canon_set. assert (H : forall acc, In y (fold_left (fun acc x => set_insert x acc) l acc) -> In y acc \/ In y l).
  { induction l as [|x l IH]; intros acc; simpl; [now left|].
    intro Hy. apply IH in Hy. destruct Hy as [Hy|Hy]; [|right; now right].
    apply set_insert_in in Hy. destruct Hy; [right; left; congruence|now left]. }
  intro Hy. apply H in Hy. destruct Hy as [[]|]; assumption.
Qed.

Lemma forallb_Forall2 {A B} (P : A -> B -> Prop) (f : B -> bool) l r :
  Forall2 P l r -> Forall (fun x => forall w, P x w -> f w = true) l -> forallb f r = true.
Proof.
  induction 1; simpl; [reflexivity|]. intro HF. inversion HF; subst. rewrite (H3 _ H). simpl. auto.
Qed.

Definition key_ok (b : bool) (k : val) : bool :=
  match k with VInt _ => b | VStr _ => negb b | _ => false end.

Lemma dict_set_keys (P : val -> Prop) k x d :
  P k -> Forall (fun kv => P (fst kv)) d -> Forall (fun kv => P (fst kv)) (dict_set k x d).
Proof.
  intros Hk. induction 1 as [|[k' x'] d Hh Ht IH]; simpl.
  - constructor; [exact Hk|constructor].
  - destruct (py_eq k k' && Bool.eqb (hashable k) true); constructor; auto.
Qed.

Lemma int_cast_keys d : forall acc d',
  Forall (fun kv => key_ok true (fst kv) = true) acc ->
  fold_left (fun acc kv => match acc with
                           | inr e => inr e
                           | inl d' => match int_of_key (fst kv) with
                                       | inl (Some z) => inl (dict_set (VInt z) (snd kv) d')
                                       | inl None => inr ErrValue
                                       | inr e => inr e
                                       end
                           end) d (inl acc) = inl d' ->
  Forall (fun kv => key_ok true (fst kv) = true) d'.
Proof.
  induction d as [|[k x] d IH]; intros acc d' Hacc; simpl.
  - intro H; inversion H; subst; exact Hacc.
  - destruct (int_of_key k) as [[z|]|e]; simpl.
    + apply IH. apply (dict_set_keys (fun k => key_ok true k = true)); [reflexivity|exact Hacc].
    + assert (Hbad : forall l e0, fold_left (fun acc kv => match acc with
                           | inr e => inr e
                           | inl d' => match int_of_key (fst kv) with
                                       | inl (Some z) => inl (dict_set (VInt z) (snd kv) d')
                                       | inl None => inr ErrValue
                                       | inr e => inr e
                                       end
                           end) l (inr e0) = @inr (list (val * val)) err e0) by (induction l; simpl; auto).
      rewrite Hbad. discriminate.
    + assert (Hbad : forall l e0, fold_left (fun acc kv => match acc with
                           | inr e => inr e
                           | inl d' => match int_of_key (fst kv) with
                                       | inl (Some z) => inl (dict_set (VInt z) (snd kv) d')
                                       | inl None => inr ErrValue
                                       | inr e => inr e
                                       end
                           end) l (inr e0) = @inr (list (val * val)) err e0) by (induction l; simpl; auto).
      rewrite Hbad. discriminate.
Qed.

Section Sound.
Variable yl : str -> lres.
Notation A := (adapt_g all_fixed yl false).

Lemma adapt_leaf_sound k v w : adapt_leaf all_fixed yl k v = AOk w -> isinstance_leaf k w = true.
Proof.
  unfold adapt_leaf.
  match goal with |- match ?x with _ => _ end = _ -> _ => destruct x as [v1|e] end; [|discriminate].
  cbv zeta. match goal with |- (if isinstance_leaf k ?v2 then _ else _) = _ -> _ => destruct (isinstance_leaf k v2) eqn:I end;
    [|discriminate]. intro H; inversion H; subst. exact I.
Qed.

Definition sound_at (t : ty) : Prop := forall orig v w, A orig t v = AOk w -> shaped t w = true.

Lemma sound_items t l r : sound_at t -> forall orig, map_ares (A orig t) l = inl (Some r) -> forallb (shaped t) r = true.
Proof.
  intros Hs orig Hm. apply map_ares_spec in Hm. eapply forallb_Forall2; [exact Hm|].
  apply Forall_forall. intros x _ w Hw. eapply Hs; exact Hw.
Qed.

Lemma adapt_sound : forall t, sound_at t.
Proof.
  induction t using ty_ind'; intros orig v w Ha.
  - apply adapt_leaf_sound in Ha. destruct w; simpl in *; congruence.
  - apply adapt_leaf_sound in Ha. destruct w; simpl in *; congruence.
  - apply adapt_leaf_sound in Ha. destruct w; simpl in *; congruence.
  - apply adapt_leaf_sound in Ha. destruct w; simpl in *; congruence.
  - apply adapt_leaf_sound in Ha. destruct w; simpl in *; congruence.
  - reflexivity.
  - (* Literal *)
    simpl in Ha.
    match type of Ha with match ?x with _ => _ end = _ => destruct x as [v1|e] end; [|discriminate].
    destruct (lmem all_fixed v1 ls) eqn:E; [|discriminate]. inversion Ha; subst. exact E.
  - (* Enum *)
    simpl in Ha. destruct v; try discriminate.
    + destruct (mem_str s ms) eqn:E; [|discriminate]. inversion Ha; subst. simpl. now rewrite str_eqb_refl, E.
    + destruct (str_eqb cls c && mem_str member ms) eqn:E; [|discriminate]. inversion Ha; subst. exact E.
  - (* Union *)
    rewrite adapt_union_unfold in Ha. unfold adapt_union in Ha. apply union_result_in in Ha.
    apply union_loop_in in Ha. rewrite shaped_union. apply existsb_exists.
    destruct Ha as [[]|[[t [w' [Hin Hw]]]|[[t [e [o [Hin [Ht [Ho Hw]]]]]]|Hw]]]; [| |discriminate].
    + inversion Hw; subst w'. apply stable_sort_in in Hin. unfold member_results in Hin. apply in_map_iff in Hin.
      destruct Hin as [t' [Heq Hin]]. injection Heq as E1 E2. subst t'. exists t. split; [exact Hin|].
      rewrite Forall_forall in H. eapply H; [exact Hin|exact E2].
    + inversion Hw; subst w. apply stable_sort_in in Hin. unfold member_results in Hin. apply in_map_iff in Hin.
      destruct Hin as [t' [Heq Hin]]. injection Heq as E1 E2. subst t'. exists t. split; [exact Hin|].
      destruct t; try discriminate. reflexivity.
  - (* List *)
    simpl in Ha. destruct v; try discriminate;
      (destruct (map_ares _ _) as [[r|]|e] eqn:E; try discriminate; inversion Ha; subst; simpl;
       eapply sound_items; eassumption).
  - (* Dict *)
    simpl in Ha. destruct v; try discriminate.
    assert (Hgo : forall (g : list (val * val) -> list (val * val) -> ares),
              (forall acc, g [] acc = AOk (VDict acc)) ->
              (forall k x d' acc, g ((k, x) :: d') acc = match A orig t x with AOk w => g d' (acc ++ [(k, w)]) | AErr e => AErr e end) ->
              forall d' acc, Forall (fun kv => key_ok b (fst kv) = true) d' ->
              forallb (fun kv => key_ok b (fst kv) && shaped t (snd kv)) acc = true ->
              g d' acc = AOk w -> shaped (TDict b t) w = true).
    { intros g Hn Hc. induction d' as [|[k x] d' IH]; intros acc Hk Hacc Hg.
      - rewrite Hn in Hg. inversion Hg; subst. exact Hacc.
      - rewrite Hc in Hg. destruct (A orig t x) as [w'|e] eqn:Ex; [|discriminate].
        inversion Hk; subst. eapply IH; [assumption| |exact Hg].
        rewrite forallb_app. rewrite Hacc. simpl. simpl in H1. rewrite H1. simpl.
        rewrite (IHt _ _ _ Ex). reflexivity. }
    destruct b.
    + (* int keys *)
      match type of Ha with match ?c with _ => _ end = _ => destruct c as [d'|e] eqn:Ec end; [|discriminate].
      match type of Ha with ?g d' nil = _ => apply (Hgo g) with (acc := @nil (val * val)) (d' := d') end;
        [intros; reflexivity|intros; reflexivity| |reflexivity|exact Ha].
      eapply int_cast_keys; [|exact Ec]. constructor.
    + destruct (negb (forallb (fun kv => is_str (fst kv)) d)) eqn:Ek; [discriminate|]. simpl in Ha.
      match type of Ha with ?g d nil = _ => apply (Hgo g) with (acc := @nil (val * val)) (d' := d) end;
        [intros; reflexivity|intros; reflexivity| |reflexivity|exact Ha].
      apply negb_false_iff in Ek. rewrite forallb_forall in Ek. apply Forall_forall. intros kv Hkv.
      apply Ek in Hkv. destruct (fst kv); simpl in *; try discriminate. reflexivity.
  - (* Tuple *)
    simpl in Ha. destruct (seq_items v) as [l|]; [|discriminate].
    destruct (negb (Nat.eqb (length l) (length ts))) eqn:El; [discriminate|].
    apply negb_false_iff in El. apply Nat.eqb_eq in El.
    assert (Hgo : forall (g : list ty -> list val -> list val -> ares),
              (forall l acc, g [] l acc = AOk (VTuple acc)) ->
              (forall t1 ts' x l' acc, g (t1 :: ts') (x :: l') acc
                  = match A orig t1 x with AOk w => g ts' l' (acc ++ [w]) | AErr e => AErr e end) ->
              forall ts', Forall sound_at ts' -> forall l acc w, length l = length ts' ->
              g ts' l acc = AOk w -> exists ws, w = VTuple (acc ++ ws) /\ all2 shaped ts' ws = true).
    { intros g Hn Hc. induction 1 as [|t1 ts' Ht1 Hts IH]; intros l0 acc w0 Hl Hg.
      - rewrite Hn in Hg. inversion Hg; subst. exists []. rewrite app_nil_r. split; reflexivity.
      - destruct l0 as [|x l0]; [discriminate|]. rewrite Hc in Hg.
        destruct (A orig t1 x) as [w'|e] eqn:Ex; [|discriminate].
        simpl in Hl. injection Hl as Hl. destruct (IH _ _ _ Hl Hg) as [ws [E1 E2]].
        exists (w' :: ws). rewrite <- app_assoc in E1. split; [exact E1|]. simpl. rewrite (Ht1 _ _ _ Ex). exact E2. }
    match type of Ha with ?g ts l nil = _ =>
      destruct (Hgo g (fun _ _ => eq_refl) (fun _ _ _ _ _ => eq_refl) ts H l [] w El Ha) as [ws [E1 E2]] end.
    subst w. simpl app. rewrite shaped_tuple. exact E2.
  - (* TupleVar *)
    simpl in Ha. destruct (seq_items v) as [l|]; [|discriminate].
    destruct (map_ares _ _) as [[r|]|e] eqn:E; try discriminate; inversion Ha; subst; simpl.
    eapply sound_items; eassumption.
  - (* Set *)
    simpl in Ha. destruct (seq_items v) as [l|]; [|discriminate].
    destruct (map_ares _ _) as [[r|]|e] eqn:E; try discriminate.
    destruct (forallb hashable r); [|discriminate]. inversion Ha; subst; simpl.
    apply forallb_forall. intros y Hy. apply canon_set_in in Hy.
    assert (Hr : forallb (shaped t) r = true) by (eapply sound_items; eassumption).
    rewrite forallb_forall in Hr. auto.
Qed.

Lemma valid_string_shaped t v : is_valid_string t v = true -> shaped t v = true.
Proof.
  unfold is_valid_string. destruct v; simpl; try discriminate. destruct t; try discriminate; [reflexivity|].
  intro H. rewrite shaped_union. apply existsb_exists in H. destruct H as [t [Hin Ht]].
  apply existsb_exists. exists t. split; [exact Hin|]. destruct t; try discriminate. reflexivity.
Qed.

Ltac ct_all :=
  repeat match goal with
  | H : AOk _ = AOk _ |- _ => inversion H; subst; clear H
  | H : AErr _ = AOk _ |- _ => discriminate H
  | H : (if ?c then _ else _) = AOk _ |- _ => destruct c eqn:?
  | H : match ?x with _ => _ end = AOk _ |- _ => destruct x eqn:?
  end.

Lemma check_type_sound t v0 w : check_type_g all_fixed yl t v0 = AOk w -> shaped t w = true.
Proof.
  unfold check_type_g. intro H. cbv zeta in H.
  ct_all;
    try (eapply adapt_sound; eassumption);
    try (apply valid_string_shaped; assumption).
Qed.

Lemma parse_key_sound t v0 w : parse_key_g all_fixed yl t v0 = AOk w -> conforms t w = true.
Proof.
  unfold parse_key_g. intro H.
  ct_all; try apply conforms_none;
    try (apply shaped_conforms; eapply check_type_sound; eassumption).
Qed.
End Sound.

(* ---- val_eqb decides equality ------------------------------------------------------------------------------------ *)
Section ValInd.
Variable P : val -> Prop.
Hypothesis HNone : P VNone.
Hypothesis HBool : forall b, P (VBool b).
Hypothesis HInt : forall z, P (VInt z).
Hypothesis HFloat : forall f, P (VFloat f).
Hypothesis HStr : forall s, P (VStr s).
Hypothesis HList : forall l, Forall P l -> P (VList l).
Hypothesis HTuple : forall l, Forall P l -> P (VTuple l).
Hypothesis HSet : forall l, Forall P l -> P (VSet l).
Hypothesis HDict : forall d, Forall (fun kv => P (fst kv) /\ P (snd kv)) d -> P (VDict d).
Hypothesis HEnum : forall c m, P (VEnum c m).
Hypothesis HOpaque : forall k r, P (VOpaque k r).

Fixpoint val_ind' (v : val) : P v :=
  match v with
  | VNone => HNone | VBool b => HBool b | VInt z => HInt z | VFloat f => HFloat f | VStr s => HStr s
  | VList l => HList l ((fix go (l : list val) : Forall P l :=
                           match l with [] => Forall_nil _ | x :: l' => Forall_cons _ (val_ind' x) (go l') end) l)
  | VTuple l => HTuple l ((fix go (l : list val) : Forall P l :=
                           match l with [] => Forall_nil _ | x :: l' => Forall_cons _ (val_ind' x) (go l') end) l)
  | VSet l => HSet l ((fix go (l : list val) : Forall P l :=
                           match l with [] => Forall_nil _ | x :: l' => Forall_cons _ (val_ind' x) (go l') end) l)
  | VDict d => HDict d ((fix go (d : list (val * val)) : Forall (fun kv => P (fst kv) /\ P (snd kv)) d :=
                           match d with
                           | [] => Forall_nil _
                           | (k, x) :: d' => @Forall_cons _ (fun kv => P (fst kv) /\ P (snd kv)) (k, x) d'
                                              (conj (val_ind' k) (val_ind' x)) (go d')
                           end) d)
  | VEnum c m => HEnum c m
  | VOpaque k r => HOpaque k r
  end.
End ValInd.

Lemma fl_eqb_eq a b : fl_eqb a b = true -> a = b.
Proof.
  destruct a, b; simpl; try discriminate; auto.
  - rewrite andb_true_iff, !Z.eqb_eq. intros [? ?]; congruence.
  - intro H. apply Bool.eqb_prop in H. congruence.
Qed.

Lemma val_list_eqb_eq (x : list val) :
  Forall (fun a => forall b, val_eqb a b = true -> a = b) x ->
  forall y, (fix go (x y : list val) : bool :=
               match x, y with
               | [], [] => true
               | a :: x', b :: y' => val_eqb a b && go x' y'
               | _, _ => false
               end) x y = true -> x = y.
Proof.
  induction 1 as [|a x Ha Hx IH]; intros [|b y]; try discriminate; [reflexivity|].
  rewrite andb_true_iff. intros [E1 E2]. f_equal; auto.
Qed.

Lemma val_eqb_eq : forall a b, val_eqb a b = true -> a = b.
Proof.
  induction a using val_ind'; intros b0 E; destruct b0; simpl in E; try discriminate; try reflexivity.
  - apply Bool.eqb_prop in E. congruence.
  - apply Z.eqb_eq in E. congruence.
  - apply fl_eqb_eq in E. congruence.
  - apply str_eqb_spec in E. congruence.
  - f_equal. eapply val_list_eqb_eq; eassumption.
  - f_equal. eapply val_list_eqb_eq; eassumption.
  - f_equal. eapply val_list_eqb_eq; eassumption.
  - f_equal. revert d0 E. induction H as [|[k x] d [Hk Hx] Hd IH]; intros [|[k' x'] d'] E; try discriminate; [reflexivity|].
    rewrite !andb_true_iff in E. destruct E as [[E1 E2] E3]. simpl in Hk, Hx.
    rewrite (Hk _ E1), (Hx _ E2). f_equal. auto.
  - rewrite andb_true_iff in E. destruct E as [E1 E2]. apply str_eqb_spec in E1, E2. congruence.
  - rewrite andb_true_iff in E. destruct E as [E1 E2]. apply str_eqb_spec in E1, E2. congruence.
Qed.

(* ---- the first pass (ActionTypeHint._check_type) on a Union: acceptance does not depend on the member order,
        for any setting of the switches (the pinned tree included) --------------------------------------------------- *)
Section CheckUnion.
Variable fx : fixes.
Variable yl : str -> lres.

Lemma adapt_union_errkind ser orig ts v e : adapt_g fx yl ser orig (TUnion ts) v = AErr e -> e = ErrValue.
Proof. rewrite adapt_union_unfold. apply adapt_union_err. Qed.

Definition check_union_ok (ts : list ty) (v0 : val) : bool :=
  let orig := match v0 with VStr s => Some s | _ => None end in
  match parse_value fx yl false v0 with
  | LValErr => is_valid_string (TUnion ts) v0
  | pv =>
      let v := match pv with LVal x => x | _ => v0 end in
      is_ok (adapt_g fx yl false orig (TUnion ts) v)
      || match orig with Some o => is_ok (adapt_g fx yl false orig (TUnion ts) (VStr o)) | None => false end
      || is_valid_string (TUnion ts) v
  end.

Lemma check_union_ok_spec ts v0 : is_ok (check_type_g fx yl (TUnion ts) v0) = check_union_ok ts v0.
Proof.
  unfold check_type_g, check_union_ok. cbv zeta.
  set (orig := match v0 with VStr s => Some s | _ => None end).
  destruct (parse_value fx yl false v0) as [x| |].
  - destruct (adapt_g fx yl false orig (TUnion ts) x) as [w|e] eqn:E1; [reflexivity|].
    apply adapt_union_errkind in E1. subst e. destruct orig as [o|].
    + destruct (adapt_g fx yl false (Some o) (TUnion ts) (VStr o)) as [w|e] eqn:E2; [reflexivity|].
      apply adapt_union_errkind in E2. subst e. simpl. destruct (is_valid_string (TUnion ts) x); reflexivity.
    + simpl. destruct (is_valid_string (TUnion ts) x); reflexivity.
  - destruct (adapt_g fx yl false orig (TUnion ts) v0) as [w|e] eqn:E1; [reflexivity|].
    apply adapt_union_errkind in E1. subst e. destruct orig as [o|].
    + destruct (adapt_g fx yl false (Some o) (TUnion ts) (VStr o)) as [w|e] eqn:E2; [reflexivity|].
      apply adapt_union_errkind in E2. subst e. simpl. destruct (is_valid_string (TUnion ts) v0); reflexivity.
    + simpl. destruct (is_valid_string (TUnion ts) v0); reflexivity.
  - destruct (is_valid_string (TUnion ts) v0); reflexivity.
Qed.

Lemma valid_string_perm ts ts' v : Permutation ts ts' -> is_valid_string (TUnion ts) v = is_valid_string (TUnion ts') v.
Proof. intro HP. unfold is_valid_string. now rewrite (existsb_perm is_str_ty _ _ HP). Qed.

Lemma check_type_union_perm ts ts' v0 : Permutation ts ts' ->
  is_ok (check_type_g fx yl (TUnion ts) v0) = is_ok (check_type_g fx yl (TUnion ts') v0).
Proof.
  intro HP. rewrite !check_union_ok_spec. unfold check_union_ok. cbv zeta.
  destruct (parse_value fx yl false v0) as [x| |]; try (apply valid_string_perm; exact HP).
  - rewrite (union_ok_perm fx yl false _ ts ts' x HP), (valid_string_perm ts ts' x HP).
    destruct v0; try reflexivity. now rewrite (union_ok_perm fx yl false _ ts ts' (VStr s) HP).
  - rewrite (union_ok_perm fx yl false _ ts ts' v0 HP), (valid_string_perm ts ts' v0 HP).
    destruct v0; try reflexivity. now rewrite (union_ok_perm fx yl false _ ts ts' (VStr s) HP).
Qed.
End CheckUnion.

(* C17 — the WHOLE selection rule at the top level for the config entry points (parse_object / parse_string):
   what the subcommand key of a successful parse holds is Spec.select evaluated on the inputs — the name
   the environment gives (default_env / env=True), else the first DECLARED subcommand for which the
   config gives settings, else nothing.  Together with object_name_wins (the config's own key) this is
   every clause of the rule for these entry points.  Round 6. *)
From JV Require Import Lib.Base Model.C17Subcmd Spec.C17SubcmdSpec Proofs.C17SubcmdProofs.

(* ---------- small list facts ---------- *)
Lemma get_none_notin k (c : ns) : get k c = None -> ~ In k (map fst c).
Proof.
  induction c as [|[k0 v0] t IH]; simpl; intros G I; [exact I|].
  destruct (str_eqb k k0) eqn:E; [discriminate|].
  destruct I as [I|I]; [subst; rewrite str_eqb_refl in E; discriminate|exact (IH G I)].
Qed.

Lemma assoc_none_notin {A} k (l : list (str * A)) : assoc k l = None <-> ~ In k (map fst l).
Proof.
  split.
  - induction l as [|[k0 v0] t IH]; simpl; intros G I; [exact I|].
    destruct (str_eqb k k0) eqn:E; [discriminate|].
    destruct I as [I|I]; [subst; rewrite str_eqb_refl in E; discriminate|exact (IH G I)].
  - intro N. destruct (assoc k l) eqn:A0; [|reflexivity]. destruct (N (assoc_In_names _ _ _ A0)).
Qed.

Lemma find_filter_hd {A} (f : A -> bool) (l : list A) :
  find f l = match filter f l with x :: _ => Some x | [] => None end.
Proof. induction l as [|a t IH]; simpl; [reflexivity|]. destruct (f a); [reflexivity|exact IH]. Qed.

Lemma set_fresh k v (c : ns) : ~ In k (map fst c) -> set k v c = c ++ [(k, v)].
Proof.
  induction c as [|[k0 v0] t IH]; simpl; intro N; [reflexivity|].
  destruct (str_eqb k k0) eqn:E.
  - apply str_eqb_spec in E. subst. destruct N. left. reflexivity.
  - rewrite IH; [reflexivity|]. intro I. apply N. right. exact I.
Qed.

Lemma has_leaf_cons k v (t : ns) : has_leaf ((k, v) :: t) = leafy v || has_leaf t.
Proof. reflexivity. Qed.

Lemma has_leaf_app (a b : ns) : has_leaf (a ++ b) = has_leaf a || has_leaf b.
Proof.
  induction a as [|[k v] t IH]; [reflexivity|].
  change (((k, v) :: t) ++ b) with ((k, v) :: (t ++ b)).
  rewrite !has_leaf_cons, IH, orb_assoc. reflexivity.
Qed.

(* ---------- a JSON object (unique keys) has a leaf exactly when its node has one ---------- *)
Lemma obj_ns_keys x l : In x (map fst (obj_ns l)) -> In x (map fst l).
Proof.
  induction l as [|[k v] t IH]; simpl; [auto|].
  intro I. apply set_keys in I. destruct I as [I|I]; [left; auto|right; auto].
Qed.

Lemma to_node_obj l : to_node (CObj l) = NNs (obj_ns l).
Proof. change (to_node (CObj l)) with (NNs (to_ns l)). rewrite to_ns_obj. reflexivity. Qed.

Fixpoint leafy_to_node (v : cfgt) : json_ok v = true -> leafy (to_node v) = cleafy v.
Proof.
  destruct v as [z|s|l]; intro J; [reflexivity|reflexivity|].
  rewrite to_node_obj. change (leafy (NNs (obj_ns l))) with (has_leaf (obj_ns l)).
  induction l as [|[k w] t IH]; [reflexivity|].
  simpl in J. apply andb_true_iff in J. destruct J as [J Jt]. apply andb_true_iff in J. destruct J as [Jk Jw].
  simpl obj_ns. rewrite set_fresh.
  - rewrite has_leaf_app, has_leaf_cons. change (has_leaf []) with false. rewrite orb_false_r.
    rewrite (leafy_to_node w Jw). rewrite (IH Jt).
    change (cleafy (CObj ((k, w) :: t))) with (cleafy w || cleafy (CObj t)). apply orb_comm.
  - intro I. apply obj_ns_keys in I. apply mem_str_In in I. rewrite I in Jk. discriminate.
Qed.

(* ---------- merge: which sections the merged configuration has ---------- *)
Lemma merge_section k from : forall to,
  NoDup (map fst from) -> is_ns (get k to) = false ->
  is_ns (get k (merge from to)) = match get k from with Some (NNs l) => has_leaf l | _ => false end.
Proof.
  induction from as [|[k0 v0] t IH]; intros to N Z; [exact Z|].
  rewrite merge_cons. inversion N as [|? ? Nk Nt]; subst. simpl get.
  destruct (str_eqb k k0) eqn:E.
  - apply str_eqb_spec in E. subst k0. rewrite merge_other; [|exact Nk].
    destruct v0 as [z|s| |l]; try (rewrite get_set, str_eqb_refl; reflexivity).
    change (leafy (NNs l)) with (has_leaf l). destruct (has_leaf l).
    + rewrite get_set, str_eqb_refl. reflexivity.
    + exact Z.
  - apply IH; [exact Nt|].
    destruct v0 as [z|s| |l]; try (rewrite get_set, E; exact Z).
    destruct (leafy (NNs l)); [rewrite get_set, E|]; exact Z.
Qed.

Lemma has_section_merged k c base :
  json_ok (CObj c) = true -> is_ns (get k base) = false ->
  is_ns (get k (merge (to_ns c) base)) = has_section k c.
Proof.
  intros J Z. rewrite to_ns_obj, merge_section; [|apply obj_ns_nodup|exact Z].
  rewrite obj_ns_get. unfold has_section.
  destruct (assoc k c) as [[z|s|l]|] eqn:A0; try reflexivity.
  change (option_map to_node (Some (CObj l))) with (Some (to_node (CObj l))). rewrite to_node_obj.
  assert (Jl : json_ok (CObj l) = true).
  { clear Z. induction c as [|[k0 v0] t IH]; [discriminate|].
    simpl in J. apply andb_true_iff in J. destruct J as [J Jt]. apply andb_true_iff in J. destruct J as [_ Jv].
    simpl in A0. destruct (str_eqb k k0); [inversion A0; subst; exact Jv|exact (IH Jt A0)]. }
  pose proof (leafy_to_node (CObj l) Jl) as L. rewrite to_node_obj in L. exact L.
Qed.

Section Select.
Variable fx : variant.

(* ---------- get_subcommands / handle / links when NO explicit key is there ---------- *)
Definition dest_unset (p : parser) (cfg : ns) : Prop :=
  get (p_dest p) cfg = None \/ get (p_dest p) cfg = Some NNone.

Lemma get_subcommands_implicit failno p cfg cfg1 subs n rest :
  wf p -> p_has p = true -> dest_unset p cfg -> keys_of p cfg = n :: rest ->
  get_subcommands fx failno true p cfg = Ok (cfg1, subs) -> get (p_dest p) cfg1 = Some (NStr n).
Proof.
  intros W Hh D K H. unfold get_subcommands in H. rewrite Hh in H. simpl in H.
  fold (keys_of p cfg) in H. unfold gs_choose in H.
  assert (Ik : In n (p_names p)).
  { assert (I : In n (keys_of p cfg)) by (rewrite K; left; reflexivity). apply keys_of_In in I. tauto. }
  assert (E : match get (p_dest p) cfg with Some NNone => None | o => o end = None).
  { destruct D as [D|D]; rewrite D; reflexivity. }
  rewrite E in H. rewrite K in H. rewrite orb_true_r in H. simpl in H. rewrite <- K in H.
  destruct (gs_finish_some fx failno p cfg (set (p_dest p) (NStr n) cfg) (NStr n) cfg1 subs W) as [_ [_ [G _]]].
  - intros k Nk. rewrite get_set, (str_eqb_neq _ _ Nk). reflexivity.
  - rewrite get_set, str_eqb_refl. reflexivity.
  - discriminate.
  - intros n0 E0. inversion E0; subst. exact (wf_name_nonempty p _ W Ik).
  - exact H.
  - exact G.
Qed.

Lemma get_subcommands_nothing failno p cfg r :
  p_has p = true -> dest_unset p cfg -> keys_of p cfg = [] ->
  get_subcommands fx failno true p cfg = Ok r -> r = (cfg, []).
Proof.
  intros Hh D K H. unfold get_subcommands in H. rewrite Hh in H. simpl in H.
  fold (keys_of p cfg) in H. unfold gs_choose in H.
  assert (E : match get (p_dest p) cfg with Some NNone => None | o => o end = None).
  { destruct D as [D|D]; rewrite D; reflexivity. }
  rewrite E, K in H. unfold gs_finish in H. simpl in H.
  destruct failno.
  - destruct (p_req p); [discriminate|]. inversion H. reflexivity.
  - inversion H. reflexivity.
Qed.

Lemma handle_implicit_dest penv f env defaults failno p cfg cfg' n rest :
  wf p -> p_has p = true -> dest_unset p cfg -> keys_of p cfg = n :: rest ->
  handle fx penv f env defaults failno true p cfg = Ok cfg' -> get (p_dest p) cfg' = Some (NStr n).
Proof.
  intros W Hh D K H. destruct f as [|f]; [discriminate|]. simpl in H.
  destruct (get_subcommands fx failno true p cfg) as [[cfg1 subs]|] eqn:G; [|discriminate].
  rewrite <- (get_subcommands_implicit failno p cfg cfg1 subs n rest W Hh D K G).
  eapply handle_loop_frame; [|exact H|apply (wf_dest_not_name p W)].
  intros sv c c' E. apply (handle_step_frame _ _ _ _ _ _ _ _ E).
Qed.

Lemma handle_nothing penv f env defaults failno p cfg cfg' :
  p_has p = true -> dest_unset p cfg -> keys_of p cfg = [] ->
  handle fx penv f env defaults failno true p cfg = Ok cfg' -> cfg' = cfg.
Proof.
  intros Hh D K H. destruct f as [|f]; [discriminate|]. simpl in H.
  destruct (get_subcommands fx failno true p cfg) as [r|] eqn:G; [|discriminate].
  rewrite (get_subcommands_nothing failno p cfg r Hh D K G) in H. simpl in H. inversion H. reflexivity.
Qed.

Lemma links_nothing f p cfg cfg' :
  p_has p = true -> dest_unset p cfg -> keys_of p cfg = [] ->
  links_pass fx f p cfg = Ok cfg' -> cfg' = cfg.
Proof.
  intros Hh D K H. destruct f as [|f]; [discriminate|]. simpl in H.
  destruct (get_subcommands fx false true p cfg) as [r|] eqn:G; [|discriminate].
  rewrite (get_subcommands_nothing false p cfg r Hh D K G) in H. inversion H. reflexivity.
Qed.

Lemma parse_common_result penv f env skipval failno p cfg cfg' :
  parse_common fx penv f env skipval failno p cfg = Ok cfg' ->
  exists c1, handle fx penv f env true failno true p cfg = Ok c1 /\ links_pass fx f p c1 = Ok cfg'.
Proof.
  unfold parse_common. intro H.
  destruct (handle fx penv f env true failno true p cfg) as [c1|]; [|discriminate].
  destruct (links_pass fx f p c1) as [c2|] eqn:L; [|discriminate].
  exists c1. split; [reflexivity|].
  destruct skipval; [inversion H; subst; exact L|].
  destruct (validate fx f p c2); [inversion H; subst; exact L|discriminate].
Qed.

Lemma parse_common_implicit_dest penv f env skipval failno p cfg cfg' n rest :
  wf p -> p_has p = true -> dest_unset p cfg -> keys_of p cfg = n :: rest ->
  parse_common fx penv f env skipval failno p cfg = Ok cfg' -> get (p_dest p) cfg' = Some (NStr n).
Proof.
  intros W Hh D K H. destruct (parse_common_result _ _ _ _ _ _ _ _ H) as [c1 [Hd L]].
  apply (links_keeps_dest fx f p c1 cfg' (NStr n) W Hh L); [|discriminate].
  exact (handle_implicit_dest penv f env true failno p cfg c1 n rest W Hh D K Hd).
Qed.

Lemma parse_common_nothing penv f env skipval failno p cfg cfg' :
  p_has p = true -> dest_unset p cfg -> keys_of p cfg = [] ->
  parse_common fx penv f env skipval failno p cfg = Ok cfg' -> cfg' = cfg.
Proof.
  intros Hh D K H. destruct (parse_common_result _ _ _ _ _ _ _ _ H) as [c1 [Hd L]].
  rewrite (handle_nothing penv f env true failno p cfg c1 Hh D K Hd) in L.
  exact (links_nothing f p cfg cfg' Hh D K L).
Qed.

(* ---------- what _parse_defaults_and_environ leaves when the environment names no subcommand ---------- *)
Lemma opts_loop_only_opts (e : cobj) : forall (l : list (str * Z)) c c',
  (fix opts (l : list (str * Z)) (c : ns) : res ns :=
     match l with
     | [] => Ok c
     | (k, _) :: t =>
         match assoc k e with
         | Some (CInt z) => opts t (set k (NInt z) c)
         | Some (CStr _) => Err BadValue
         | _ => opts t c
         end
     end) l c = Ok c' ->
  forall k, ~ In k (map fst l) -> get k c' = get k c.
Proof.
  induction l as [|[k0 d] t IH]; intros c c' H k Nk.
  - inversion H. reflexivity.
  - assert (K0 : str_eqb k k0 = false) by (apply str_eqb_neq; intro E; apply Nk; left; auto).
    assert (Nt : ~ In k (map fst t)) by (intro I; apply Nk; right; exact I).
    destruct (assoc k0 e) as [[z|s0|l0]|].
    + rewrite (IH _ _ H k Nt), get_set, K0. reflexivity.
    + discriminate.
    + exact (IH _ _ H k Nt).
    + exact (IH _ _ H k Nt).
Qed.

(* envn of Spec.select *)
Definition env_names (p : parser) (env : option cobj) : option str :=
  match env with
  | Some e => match named_in (p_dest p) e with
              | Some s => if mem_str s (p_names p) then Some s else None
              | None => None
              end
  | None => None
  end.

Lemma base_names penv p env base n :
  wf p -> p_has p = true -> env_names p env = Some n ->
  defaults_and_environ penv p env = Ok base -> get (p_dest p) base = Some (NStr n).
Proof.
  intros W Hh En H. destruct env as [e|]; [|discriminate]. simpl in En.
  destruct (named_in (p_dest p) e) as [s|] eqn:Nm; [|discriminate].
  destruct (mem_str s (p_names p)) eqn:M; [|discriminate]. inversion En; subst s.
  apply mem_str_In in M. unfold defaults_and_environ in H.
  destruct (load_env_vars penv p e) as [cfg_env|] eqn:L; [|discriminate]. inversion H; subst base.
  destruct (load_env_vars_names penv p e n cfg_env W Hh Nm M L) as [G N].
  apply merge_leaf; assumption.
Qed.

Lemma base_plain penv p env base :
  wf p -> p_has p = true -> env_names p env = None ->
  defaults_and_environ penv p env = Ok base ->
  get (p_dest p) base = Some NNone /\ forall k, In k (p_names p) -> is_ns (get k base) = false.
Proof.
  intros W Hh En H.
  assert (Dflt : get (p_dest p) (get_defaults p) = Some NNone /\
                 forall k, In k (p_names p) -> is_ns (get k (get_defaults p)) = false).
  { split; [apply (defaults_dest p W Hh)|]. intros k _. apply defaults_no_sections. }
  destruct env as [e|]; [|inversion H; subst; exact Dflt].
  unfold defaults_and_environ in H.
  destruct (load_env_vars penv p e) as [cfg_env|] eqn:L; [|discriminate]. inversion H; subst base. clear H.
  assert (Only : forall k, ~ In k (map fst (p_opts p)) -> get k cfg_env = None).
  { unfold load_env_vars in L. rewrite Hh in L. simpl in En.
    assert (R1 : match assoc (p_dest p) e with
                 | Some (CStr v) =>
                     match assoc v (p_choices p) with
                     | Some sp =>
                         match penv v sp (env_sub e v) with
                         | Err x => Err x
                         | Ok pcfg =>
                             Ok (match pcfg with
                                 | [] => [(p_dest p, NStr v)]
                                 | _ => set v (NNs (fold_left (fun c kv => set (fst kv) (snd kv) c) pcfg [])) [(p_dest p, NStr v)]
                                 end)
                         end
                     | None => Ok []
                     end
                 | _ => Ok []
                 end = Ok ([] : ns)).
    { unfold named_in in En. destruct (assoc (p_dest p) e) as [[z|v|l]|]; try reflexivity.
      destruct (mem_str v (p_names p)) eqn:M; [discriminate|].
      destruct (assoc v (p_choices p)) as [sp|] eqn:A0; [|reflexivity].
      apply assoc_In_names in A0. apply mem_str_In in A0. unfold p_names in M. rewrite A0 in M. discriminate. }
    rewrite R1 in L. intros k Nk. rewrite (opts_loop_only_opts e _ _ _ L k Nk). reflexivity. }
  assert (NotOpt : forall k, (k = p_dest p \/ In k (p_names p)) -> ~ In k (map fst (p_opts p))).
  { intros k [E|I] Io; destruct (wf_opt_not_name p k W Io) as [A B]; [exact (B E)|exact (A I)]. }
  destruct Dflt as [D0 S0]. split.
  - rewrite merge_other; [exact D0|]. apply get_none_notin. apply Only. apply NotOpt. left. reflexivity.
  - intros k Ik. rewrite merge_other; [exact (S0 k Ik)|]. apply get_none_notin. apply Only. apply NotOpt. right. exact Ik.
Qed.

(* ---------- the rule ---------- *)
Definition cfg_level (env : option cobj) (c : cobj) : level :=
  {| lv_argv := None; lv_cfgs := [c]; lv_env := env |}.

Definition key_of_choice (o : option str) : option node :=
  match o with Some n => Some (NStr n) | None => Some NNone end.

Lemma select_cfg_level p env c :
  assoc (p_dest p) c = None ->
  select p (cfg_level env c) =
  match env_names p env with
  | Some n => Some n
  | None => find (fun s => has_section s c) (p_names p)
  end.
Proof.
  intro A0. unfold select, cfg_level, cfgs_at. simpl.
  unfold named_in at 2. rewrite A0. unfold last_some. simpl.
  assert (F : find (fun s => has_section s c || false) (p_names p) = find (fun s => has_section s c) (p_names p)).
  { induction (p_names p) as [|a t IH]; simpl; [reflexivity|]. rewrite orb_false_r, IH. reflexivity. }
  rewrite F. unfold env_names. destruct env as [e|]; [|reflexivity].
  destruct (named_in (p_dest p) e) as [s|]; [|reflexivity].
  destruct (mem_str s (p_names p)); reflexivity.
Qed.

Lemma cfg_selection_rule fuel env p c cfg :
  wf p -> p_has p = true -> json_ok (CObj c) = true -> assoc (p_dest p) c = None ->
  parse_cfg fx fuel env p c = Ok cfg ->
  get (p_dest p) cfg = key_of_choice (select p (cfg_level env c)).
Proof.
  intros W Hh J A0 H. rewrite (select_cfg_level p env c A0).
  destruct fuel as [|f]; [discriminate|]. simpl in H.
  destruct (defaults_and_environ (fun _ => parse_env fx f) p env) as [base|] eqn:B; [|discriminate].
  assert (Dk : ~ In (p_dest p) (map fst (to_ns c))).
  { rewrite to_ns_obj. apply get_none_notin. rewrite obj_ns_get, A0. reflexivity. }
  destruct (env_names p env) as [n|] eqn:En.
  - (* the environment names a declared subcommand *)
    simpl. apply (parse_common_keeps_dest fx _ _ _ _ _ _ _ _ (NStr n) W Hh H); [|discriminate].
    rewrite merge_other; [|exact Dk]. exact (base_names _ p env base n W Hh En B).
  - destruct (base_plain _ p env base W Hh En B) as [D0 S0].
    assert (Du : dest_unset p (merge (to_ns c) base)).
    { right. rewrite merge_other; [exact D0|exact Dk]. }
    assert (K : keys_of p (merge (to_ns c) base) = filter (fun s => has_section s c) (p_names p)).
    { unfold keys_of. apply filter_ext_in. intros k Ik. apply has_section_merged; [exact J|exact (S0 k Ik)]. }
    rewrite find_filter_hd. destruct (filter (fun s => has_section s c) (p_names p)) as [|n rest] eqn:Fl.
    + simpl. rewrite (parse_common_nothing _ _ _ _ _ _ _ _ Hh Du K H).
      rewrite merge_other; [exact D0|exact Dk].
    + simpl. exact (parse_common_implicit_dest _ _ _ _ _ _ _ _ n rest W Hh Du K H).
Qed.

Lemma config_entry_selection_rule fuel env p c cfg :
  wf p -> p_has p = true -> json_ok (CObj c) = true -> assoc (p_dest p) c = None ->
  (parse fx fuel p {| i_env := env; i_entry := EObject c |} = Ok cfg \/
   parse fx fuel p {| i_env := env; i_entry := EString c |} = Ok cfg) ->
  get (p_dest p) cfg =
  key_of_choice (select p (top_level {| i_env := env; i_entry := EObject c |})).
Proof.
  intros W Hh J A0 [H|H]; unfold parse in H; simpl in H;
    exact (cfg_selection_rule fuel env p c cfg W Hh J A0 H).
Qed.

(* both cases of a well-formed config: the key is absent, or it holds a string (then it wins: object_name_wins) *)
Lemma config_entry_select fuel env p c cfg :
  wf p -> p_has p = true -> json_ok (CObj c) = true -> dest_key_plain p c = true ->
  (parse fx fuel p {| i_env := env; i_entry := EObject c |} = Ok cfg \/
   parse fx fuel p {| i_env := env; i_entry := EString c |} = Ok cfg) ->
  get (p_dest p) cfg =
  key_of_choice (select p (top_level {| i_env := env; i_entry := EObject c |})).
Proof.
  intros W Hh J Dp H. unfold dest_key_plain in Dp.
  destruct (assoc (p_dest p) c) as [[z|s|l]|] eqn:A0; try discriminate.
  - assert (Nm : named_in (p_dest p) c = Some s) by (unfold named_in; rewrite A0; reflexivity).
    rewrite (object_name_wins fx fuel env p c s cfg W Hh Nm H).
    unfold select, top_level, cfgs_at. simpl. rewrite Nm. unfold last_some. simpl. reflexivity.
  - exact (config_entry_selection_rule fuel env p c cfg W Hh J A0 H).
Qed.

End Select.

(* C18 — the judge is sound: whenever the model (save_fixed) reproduces an observation, the observation
   satisfies Spec/SaveFSSpec.v.  Hence on a case with v_model = true, v_spec = true is a theorem, and a
   spec failure can only come together with a model disagreement. *)
From JV Require Import Lib.Base Model.SaveFS Spec.SaveFSSpec Proofs.SaveFSProofs Proofs.SaveFsspecProofs Corr.C18Judge.

Lemma node_eqb_eq x y : node_eqb x y = true -> x = y.
Proof.
  destruct x as [a|], y as [b|]; simpl; intro H; try discriminate; auto.
  apply N.eqb_eq in H. congruence.
Qed.

Lemma agrees_on_lookup a b n : agrees_on a b n = true -> lookup a n = lookup b n.
Proof.
  unfold agrees_on, option_eqb. destruct (lookup a n), (lookup b n); intro H; try discriminate; auto.
  apply node_eqb_eq in H. congruence.
Qed.

Lemma fs_same_lookup a b : fs_same a b = true -> forall n, lookup a n = lookup b n.
Proof.
  unfold fs_same, names. intros H n.
  destruct (mem_str n (map fst a ++ map fst b)) eqn:Mn.
  - apply mem_str_In in Mn. rewrite forallb_forall in H. apply agrees_on_lookup. apply H. exact Mn.
  - assert (Hn : ~ In n (map fst a ++ map fst b)).
    { intro Hin. apply mem_str_In in Hin. congruence. }
    rewrite !lookup_none_not_in; auto; intro Hin; apply Hn; apply in_or_app; auto.
Qed.

Lemma kind_of_failed e k : okind_eqb (kind_of e) k = true -> negb (okind_eqb k KOk) = is_some e.
Proof. destruct e as [[]|], k; simpl; intro H; try discriminate; reflexivity. Qed.

(* whatever save function the judge is instantiated with: if, on this input, it has the four properties
   (failed => unchanged, no silent overwrite, frame, success => reads back), then an observation it reproduces
   satisfies the spec *)
Section Core.
  Variable r : fs * option err.
  Variable c : case.
  Let i := c_in c.
  Hypothesis A : forall e, snd r = Some e -> fst r = i_fs i.
  Hypothesis B : i_overwrite i = false -> forall n x, lookup (i_fs i) n = Some x -> lookup (fst r) n = Some x.
  Hypothesis C : forall m, ~ In m (targets i) -> lookup (fst r) m = lookup (i_fs i) m.
  Hypothesis D : snd r = None -> reparse_ok i (fst r) = true.

  Lemma judge_sound_core : model_agrees_of r c = true -> spec_holds c = true.
  Proof.
    unfold model_agrees_of, spec_holds, failed_obs. fold i. intro H.
    apply andb_true_iff in H. destruct H as [H Hrep].
    apply andb_true_iff in H. destruct H as [Hkind Hsame].
    destruct r as [f' o] eqn:S. cbn [fst snd] in *.
    rewrite (kind_of_failed _ _ Hkind) in *.
    pose proof (fs_same_lookup _ _ Hsame) as L.
    unfold spec_ok. repeat (apply andb_true_iff; split).
    - destruct o as [e|]; cbn [is_some] in *.
      + rewrite (A e eq_refl) in L.
        unfold fs_same. apply forallb_forall. intros n _. apply agrees_on_eq. apply L.
      + simpl in Hrep. destruct (i_valid i); simpl in *; [|apply orb_true_r].
        rewrite (D eq_refl) in Hrep. destruct (c_reparse c); auto.
    - destruct (i_overwrite i) eqn:Ho; auto. apply forallb_forall. intros n Hn.
      apply agrees_on_eq. rewrite <- L. apply lookup_in_names in Hn.
      destruct (lookup (i_fs i) n) as [x|] eqn:Lx; [|congruence].
      symmetry. apply B; auto.
    - apply forallb_forall. intros n _. destruct (mem_str n (targets i)) eqn:Mn; auto. simpl.
      apply agrees_on_eq. rewrite <- L. symmetry. apply C. intro Hin. apply mem_str_In in Hin. congruence.
  Qed.
End Core.

Lemma class_zero k m : (if N.eqb k 0 || m then k else 9%N) = 0%N -> k = 0%N.
Proof. destruct (N.eqb k 0) eqn:Z; [intros _; apply N.eqb_eq; exact Z|]. destruct m; simpl; auto; discriminate. Qed.

(* the current tree: class 0 = local target, no alias clash *)
Lemma judge_sound_lemma c : v_class (judge1 c) = 0%N -> v_model (judge1 c) = true -> v_spec (judge1 c) = true.
Proof.
  unfold judge1, judge1_with. cbn [v_model v_spec v_class]. intros K H.
  apply class_zero in K. unfold classify_call in K.
  destruct (c_kind c) eqn:KD; [|discriminate].
  apply classify_zero in K. simpl in H.
  apply (judge_sound_core (save_fixed (c_in c)) c); auto.
  - intros e He. destruct (save_fixed (c_in c)) as [f' o] eqn:S. simpl in *. subst o.
    apply (fixed_all_or_nothing_lemma _ _ _ S).
  - apply fixed_no_overwrite_lemma.
  - apply fixed_frame_lemma.
  - intro Hs. destruct (save_fixed (c_in c)) as [f' o] eqn:S. simpl in *. subst o.
    apply fixed_save_then_parse_lemma; auto.
Qed.

Lemma judge_fixed_sound_lemma c :
  v_class (judge1_fixed c) = 0%N -> v_model (judge1_fixed c) = true -> v_spec (judge1_fixed c) = true.
Proof. apply judge_sound_lemma. Qed.

(* after the fsspec patch: every case, whichever way the target is resolved *)
Lemma judge_fsfixed_sound_lemma c : v_model (judge1_fsfixed c) = true -> v_spec (judge1_fsfixed c) = true.
Proof.
  unfold judge1_fsfixed, judge1_with. cbn [v_model v_spec]. intro H.
  set (c' := unalias c) in *.
  assert (AC : alias_clash (c_in c') = false) by (apply alias_clash_no_alias; reflexivity).
  apply (judge_sound_core (save_impl_fixed (c_kind c') (c_in c')) c'); auto.
  - intros e He. destruct (save_impl_fixed (c_kind c') (c_in c')) as [f' o] eqn:S. simpl in *. subst o.
    apply (impl_fixed_all_or_nothing_lemma _ _ _ _ S).
  - apply impl_fixed_no_overwrite_lemma.
  - apply impl_fixed_frame_lemma.
  - intro Hs. destruct (save_impl_fixed (c_kind c') (c_in c')) as [f' o] eqn:S. simpl in *. subst o.
    apply (impl_fixed_save_then_parse_lemma _ _ _ AC S).
Qed.

Lemma judge_fsfixed_class_lemma c : v_class (judge1_fsfixed c) = 0%N.
Proof.
  unfold judge1_fsfixed, judge1_with. cbn [v_class].
  assert (classify (c_in (unalias c)) = 0%N) as -> by (apply classify_zero; apply alias_clash_no_alias; reflexivity).
  reflexivity.
Qed.

(* C18 — the judge is sound: whenever the model (save_fixed) reproduces an observation, the observation
   satisfies Spec/SaveFSSpec.v.  Hence on a case with v_model = true, v_spec = true is a theorem, and a
   spec failure can only come together with a model disagreement. *)
From JV Require Import Lib.Base Model.SaveFS Spec.SaveFSSpec Proofs.SaveFSProofs Corr.C18Judge.

Lemma node_eqb_eq x y : node_eqb x y = true -> x = y.
Proof.
  destruct x as [a|], y as [b|]; simpl; intro H; try discriminate; auto.
  apply N.eqb_eq in H. congruence.
Qed.

Lemma agrees_on_lookup a b n : agrees_on a b n = true -> lookup a n = lookup b n.
Proof.
  unfold agrees_on, option_eqb. destruct (lookup a n), (lookup b n); intro H; try discriminate; auto.
  apply node_eqb_eq in H. congruence.
Qed.

Lemma fs_same_lookup a b : fs_same a b = true -> forall n, lookup a n = lookup b n.
Proof.
  unfold fs_same, names. intros H n.
  destruct (mem_str n (map fst a ++ map fst b)) eqn:Mn.
  - apply mem_str_In in Mn. rewrite forallb_forall in H. apply agrees_on_lookup. apply H. exact Mn.
  - assert (Hn : ~ In n (map fst a ++ map fst b)).
    { intro Hin. apply mem_str_In in Hin. congruence. }
    rewrite !lookup_none_not_in; auto; intro Hin; apply Hn; apply in_or_app; auto.
Qed.

Lemma kind_of_failed e k : okind_eqb (kind_of e) k = true -> negb (okind_eqb k KOk) = is_some e.
Proof. destruct e as [[]|], k; simpl; intro H; try discriminate; reflexivity. Qed.

Lemma judge_sound_lemma c : v_class (judge1 c) = 0%N -> v_model (judge1 c) = true -> v_spec (judge1 c) = true.
Proof.
  unfold judge1. cbn [v_model v_spec v_class]. intros K H.
  assert (AC : alias_clash (c_in c) = false).
  { apply classify_zero. destruct (N.eqb (classify (c_in c)) 0) eqn:Z; [apply N.eqb_eq; exact Z|].
    simpl in K. rewrite H in K. apply N.eqb_neq in Z. contradiction. }
  clear K. revert H. unfold model_agrees, spec_holds, failed_obs.
  set (i := c_in c) in *. intro H.
  apply andb_true_iff in H. destruct H as [H Hrep].
  apply andb_true_iff in H. destruct H as [Hkind Hsame].
  destruct (save_fixed i) as [f' o] eqn:S. cbn [fst snd] in *.
  rewrite (kind_of_failed _ _ Hkind) in *.
  pose proof (fs_same_lookup _ _ Hsame) as L.
  assert (Hframe : forall n, mem_str n (targets i) || agrees_on (i_fs i) (c_fs c) n = true).
  { intro n. destruct (mem_str n (targets i)) eqn:Mn; auto. simpl.
    apply agrees_on_eq. rewrite <- L. symmetry.
    replace f' with (fst (save_fixed i)) by (rewrite S; reflexivity).
    apply fixed_frame_lemma. intro Hin. apply mem_str_In in Hin. congruence. }
  unfold spec_ok. repeat (apply andb_true_iff; split).
  - destruct o as [e|]; cbn [is_some] in *.
    + rewrite (fixed_all_or_nothing_lemma i f' e S) in L.
      unfold fs_same. apply forallb_forall. intros n _. apply agrees_on_eq. apply L.
    + simpl in Hrep. destruct (i_valid i); simpl in *; [|apply orb_true_r].
      rewrite (fixed_save_then_parse_lemma i f' AC S) in Hrep.
      destruct (c_reparse c); auto.
  - destruct (i_overwrite i) eqn:Ho; auto. apply forallb_forall. intros n Hn.
    apply agrees_on_eq. rewrite <- L. apply lookup_in_names in Hn.
    destruct (lookup (i_fs i) n) as [x|] eqn:Lx; [|congruence].
    replace f' with (fst (save_fixed i)) by (rewrite S; reflexivity).
    symmetry. apply fixed_no_overwrite_lemma; auto.
  - apply forallb_forall. intros n _. apply Hframe.
Qed.

(* C20 — the two patterns of timedelta_deserializer, as translated from the source (Gen/C20Regexes.v),
   succeed under re.match (some prefix of the text is in the language) EXACTLY when the hand-written
   scanners match_hms / match_days of Model/C20Registered.v succeed: for every string. *)
From JV Require Import Lib.Base Lib.C20Text Lib.C20Regex Model.C20Base Gen.C20Regexes Model.C20Registered.

Definition cD : list (N * N) := [(48%N, 57%N)].
Definition cSec : list (N * N) := [(46%N, 46%N); (48%N, 57%N); (43%N, 43%N)].
Definition cDay : list (N * N) := [(45%N, 45%N); (48%N, 57%N)].
Definition lit (k : N) : rx := RCls [(k, k)] false.
Definition plus (rs : list (N * N)) : rx := RCat (RCls rs false) (RStar (RCls rs false)).

Definition rHms : rx :=
  RCat (plus cD) (RCat (lit 58) (RCat (plus cD) (RCat (lit 58) (RCat (RCls cD false) (RStar (RCls cSec false)))))).
Definition rDays : rx :=
  RCat (plus cDay) (RCat (lit 32) (RCat (lit 100) (RCat (lit 97) (RCat (lit 121)
    (RCat (RStar (lit 115)) (RCat (lit 44) (RCat (lit 32) rHms))))))).

Lemma shape_hms : rx_td_hms = {| p_body := rHms; p_end := false; p_multi := false |}.
Proof. reflexivity. Qed.
Lemma shape_days : rx_td_days = {| p_body := rDays; p_end := false; p_multi := false |}.
Proof. reflexivity. Qed.

(* ---- classes *)
Lemma in1 k c : in_ranges c [(k, k)] = N.eqb c k.
Proof.
  unfold in_ranges. simpl. rewrite orb_false_r. destruct (N.eqb_spec c k).
  - subst. rewrite N.leb_refl. reflexivity.
  - destruct (N.leb_spec k c), (N.leb_spec c k); simpl; auto. exfalso. apply n. lia.
Qed.

Lemma in_cons r rs c : in_ranges c (r :: rs) = ((fst r <=? c) && (c <=? snd r))%N || in_ranges c rs.
Proof. reflexivity. Qed.

Lemma cls_cD c : cls_match cD false c = is_digit c.
Proof. unfold cls_match, cD, in_ranges, is_digit. simpl. rewrite orb_false_r, xorb_false_r. reflexivity. Qed.

Lemma cls_lit k c : cls_match [(k, k)] false c = N.eqb c k.
Proof. unfold cls_match. rewrite in1, xorb_false_r. reflexivity. Qed.

Lemma cls_cSec c : cls_match cSec false c = secch c.
Proof.
  unfold cls_match, cSec, secch. rewrite xorb_false_r.
  rewrite in_cons. change (in_ranges c ((48%N, 57%N) :: [(43%N, 43%N)]))
    with (((48 <=? c) && (c <=? 57))%N || in_ranges c [(43%N, 43%N)]).
  rewrite in1. cbn [fst snd]. unfold is_digit.
  assert (E : ((46 <=? c) && (c <=? 46))%N = N.eqb c 46).
  { pose proof (in1 46 c) as H. unfold in_ranges in H. simpl in H. rewrite orb_false_r in H. exact H. }
  rewrite E. destruct (N.eqb c 46), ((48 <=? c) && (c <=? 57))%N, (N.eqb c 43); reflexivity.
Qed.

Lemma cls_cDay c : cls_match cDay false c = daych c.
Proof.
  unfold cls_match, cDay, daych. rewrite xorb_false_r. rewrite in_cons.
  change (in_ranges c [(48%N, 57%N)]) with (((48 <=? c) && (c <=? 57))%N || false).
  rewrite orb_false_r. cbn [fst snd]. unfold is_digit.
  assert (E : ((45 <=? c) && (c <=? 45))%N = N.eqb c 45).
  { pose proof (in1 45 c) as H. unfold in_ranges in H. simpl in H. rewrite orb_false_r in H. exact H. }
  rewrite E. apply orb_comm.
Qed.

(* ---- generic: one class char, class*, class+ *)
Section Cls.
  Variable rs : list (N * N).
  Variable q : N -> bool.
  Hypothesis Q : forall c, cls_match rs false c = q c.

  Lemma lang_cls s : lang (RCls rs false) s <-> exists c, s = [c] /\ q c = true.
  Proof.
    split.
    - intros H. apply cls_inv in H. destruct H as [c [E H]]. rewrite Q in H. eauto.
    - intros [c [E H]]. subst. constructor. rewrite Q. exact H.
  Qed.

  Lemma star_fwd r s : lang r s -> r = RStar (RCls rs false) -> forallb q s = true.
  Proof.
    induction 1; intros E; try discriminate.
    - reflexivity.
    - inversion E; subst. apply lang_cls in H. destruct H as [c [-> Hc]]. simpl. rewrite Hc. auto.
  Qed.

  Lemma lang_star s : lang (RStar (RCls rs false)) s <-> forallb q s = true.
  Proof.
    split.
    - intros H. eapply star_fwd; eauto.
    - induction s as [|c s IH]; simpl; intros H.
      + constructor.
      + apply andb_true_iff in H. destruct H as [H1 H2]. change (c :: s) with ([c] ++ s).
        constructor; [apply lang_cls; eauto | auto].
  Qed.

  Lemma lang_plus s : lang (plus rs) s <-> is_nil s = false /\ forallb q s = true.
  Proof.
    unfold plus. split.
    - intros H. apply cat_inv in H. destruct H as [a [b [-> [Ha Hb]]]].
      apply lang_cls in Ha. destruct Ha as [c [-> Hc]]. apply lang_star in Hb. simpl. rewrite Hc. auto.
    - intros [Hn H]. destruct s as [|c s]; [discriminate|]. simpl in H. apply andb_true_iff in H. destruct H as [H1 H2].
      change (c :: s) with ([c] ++ s). constructor; [apply lang_cls; eauto | apply lang_star; auto].
  Qed.
End Cls.

Lemma lang_lit k s : lang (lit k) s <-> s = [k].
Proof.
  unfold lit. rewrite (lang_cls [(k, k)] (fun c => N.eqb c k) (cls_lit k)). split.
  - intros [c [-> H]]. apply N.eqb_eq in H. congruence.
  - intros ->. exists k. split; auto. apply N.eqb_refl.
Qed.

Lemma lit_cat k r s : lang (RCat (lit k) r) s <-> exists t, s = k :: t /\ lang r t.
Proof.
  split.
  - intros H. apply cat_inv in H. destruct H as [a [b [-> [Ha Hb]]]]. apply lang_lit in Ha. subst. simpl. eauto.
  - intros [t [-> H]]. change (k :: t) with ([k] ++ t). constructor; [apply lang_lit; reflexivity | exact H].
Qed.

(* ---- span *)
Lemma span_spec p s :
  s = fst (span p s) ++ snd (span p s) /\ forallb p (fst (span p s)) = true
  /\ match snd (span p s) with c :: _ => p c = false | [] => True end.
Proof.
  induction s as [|c s IH]; simpl.
  - auto.
  - destruct (p c) eqn:E.
    + destruct (span p s) as [a b]. simpl in *. destruct IH as [I1 [I2 I3]]. rewrite E. repeat split; auto. congruence.
    + simpl. auto.
Qed.

(* ---- h:m:s *)
Definition hms_shape (pre : str) : Prop :=
  exists h m d x, pre = h ++ 58%N :: m ++ 58%N :: d :: x
    /\ is_nil h = false /\ forallb is_digit h = true /\ is_nil m = false /\ forallb is_digit m = true
    /\ is_digit d = true /\ forallb secch x = true.

Lemma lang_hms pre : lang rHms pre <-> hms_shape pre.
Proof.
  unfold rHms, hms_shape. split.
  - intros H. apply cat_inv in H. destruct H as [h [r1 [-> [Hh H]]]].
    apply (lang_plus cD is_digit cls_cD) in Hh. destruct Hh as [Hh1 Hh2].
    apply lit_cat in H. destruct H as [r2 [-> H]].
    apply cat_inv in H. destruct H as [m [r3 [-> [Hm H]]]].
    apply (lang_plus cD is_digit cls_cD) in Hm. destruct Hm as [Hm1 Hm2].
    apply lit_cat in H. destruct H as [r4 [-> H]].
    apply cat_inv in H. destruct H as [d0 [x [-> [Hd Hx]]]].
    apply (lang_cls cD is_digit cls_cD) in Hd. destruct Hd as [d [-> Hd]].
    apply (lang_star cSec secch cls_cSec) in Hx.
    exists h, m, d, x. repeat split; auto.
  - intros [h [m [d [x [-> [Hh1 [Hh2 [Hm1 [Hm2 [Hd Hx]]]]]]]]]].
    constructor; [apply (lang_plus cD is_digit cls_cD); auto|].
    apply lit_cat. eexists; split; [reflexivity|].
    constructor; [apply (lang_plus cD is_digit cls_cD); auto|].
    apply lit_cat. eexists; split; [reflexivity|].
    change (d :: x) with ([d] ++ x).
    constructor; [apply (lang_cls cD is_digit cls_cD); eauto | apply (lang_star cSec secch cls_cSec); auto].
Qed.

Lemma colon_not_digit : is_digit 58 = false.
Proof. reflexivity. Qed.

Lemma hms_complete pre post : hms_shape pre -> is_some (match_hms (pre ++ post)) = true.
Proof.
  intros [h [m [d [x [-> [Hh1 [Hh2 [Hm1 [Hm2 [Hd Hx]]]]]]]]]].
  unfold match_hms. rewrite <- app_assoc. cbn [app].
  rewrite span_all; [| exact Hh2 | exact colon_not_digit].
  rewrite Hh1. cbn [negb N.eqb Pos.eqb]. rewrite <- app_assoc. cbn [app].
  rewrite span_all; [| exact Hm2 | exact colon_not_digit].
  rewrite Hm1. cbn [negb N.eqb Pos.eqb]. rewrite Hd. reflexivity.
Qed.

Lemma hms_sound s : is_some (match_hms s) = true -> exists pre post, s = pre ++ post /\ hms_shape pre.
Proof.
  unfold match_hms.
  destruct (span_spec is_digit s) as [E1 [D1 _]]. destruct (span is_digit s) as [h r1]. cbn [fst snd] in *.
  destruct (is_nil h) eqn:Nh; [discriminate|].
  destruct r1 as [|c1 r2]; [discriminate|].
  destruct (N.eqb_spec c1 58) as [->|]; [|discriminate]. cbn [negb].
  destruct (span_spec is_digit r2) as [E2 [D2 _]]. destruct (span is_digit r2) as [m r3]. cbn [fst snd] in *.
  destruct (is_nil m) eqn:Nm; [discriminate|].
  destruct r3 as [|c2 r4]; [discriminate|].
  destruct (N.eqb_spec c2 58) as [->|]; [|discriminate]. cbn [negb].
  destruct r4 as [|d r5]; [discriminate|].
  destruct (is_digit d) eqn:Hd; [|discriminate]. intros _.
  destruct (span_spec secch r5) as [E3 [D3 _]].
  exists (h ++ 58%N :: m ++ 58%N :: d :: fst (span secch r5)), (snd (span secch r5)). split.
  - rewrite E1, E2 at 1. rewrite E3 at 1. rewrite <- !app_assoc. cbn [app]. rewrite <- !app_assoc. reflexivity.
  - exists h, m, d, (fst (span secch r5)). repeat split; auto.
Qed.

Lemma prefix_hms s : prefixmatch rHms s = is_some (match_hms s).
Proof.
  destruct (prefixmatch rHms s) eqn:P.
  - apply prefixmatch_iff in P. destruct P as [pre [post [-> L]]]. apply lang_hms in L.
    symmetry. apply hms_complete. exact L.
  - destruct (is_some (match_hms s)) eqn:M; auto. apply hms_sound in M.
    destruct M as [pre [post [E L]]]. apply lang_hms in L.
    assert (prefixmatch rHms s = true) by (apply prefixmatch_iff; eauto). congruence.
Qed.

(* ---- d day[s]*, h:m:s *)
Lemma s_not_comma : is_s 44 = false. Proof. reflexivity. Qed.
Lemma sp_not_daych : daych 32 = false. Proof. reflexivity. Qed.

Lemma lang_days pre :
  lang rDays pre <-> exists ds ss t, pre = ds ++ s_sp_day ++ ss ++ s_comma_sp ++ t
    /\ is_nil ds = false /\ forallb daych ds = true /\ forallb is_s ss = true /\ hms_shape t.
Proof.
  unfold rDays. split.
  - intros H. apply cat_inv in H. destruct H as [ds [r [-> [Hd H]]]].
    apply (lang_plus cDay daych cls_cDay) in Hd. destruct Hd as [Hd1 Hd2].
    apply lit_cat in H. destruct H as [r1 [-> H]]. apply lit_cat in H. destruct H as [r2 [-> H]].
    apply lit_cat in H. destruct H as [r3 [-> H]]. apply lit_cat in H. destruct H as [r4 [-> H]].
    apply cat_inv in H. destruct H as [ss [r5 [-> [Hs H]]]].
    apply (lang_star [(115%N, 115%N)] is_s (cls_lit 115)) in Hs.
    apply lit_cat in H. destruct H as [r6 [-> H]]. apply lit_cat in H. destruct H as [t [-> H]].
    apply lang_hms in H. exists ds, ss, t. repeat split; auto.
  - intros [ds [ss [t [-> [Hd1 [Hd2 [Hs Ht]]]]]]].
    constructor; [apply (lang_plus cDay daych cls_cDay); auto|].
    unfold s_sp_day. cbn [app].
    apply lit_cat. eexists; split; [reflexivity|]. apply lit_cat. eexists; split; [reflexivity|].
    apply lit_cat. eexists; split; [reflexivity|]. apply lit_cat. eexists; split; [reflexivity|].
    constructor; [apply (lang_star [(115%N, 115%N)] is_s (cls_lit 115)); auto|].
    unfold s_comma_sp. cbn [app].
    apply lit_cat. eexists; split; [reflexivity|]. apply lit_cat. eexists; split; [reflexivity|].
    apply lang_hms. exact Ht.
Qed.

Lemma starts_with_split p s : starts_with p s = true -> s = p ++ skipn (length p) s.
Proof.
  revert s. induction p as [|a p IH]; intros s H; simpl in *.
  - reflexivity.
  - destruct s as [|b s]; [discriminate|]. apply andb_true_iff in H. destruct H as [H1 H2].
    apply N.eqb_eq in H1. subst. simpl. f_equal. apply IH. exact H2.
Qed.

Lemma starts_with_here p x : starts_with p (p ++ x) = true.
Proof. induction p; simpl; auto. rewrite N.eqb_refl. auto. Qed.

Lemma skipn_here {A} (p x : list A) : skipn (length p) (p ++ x) = x.
Proof. induction p; simpl; auto. Qed.

Lemma days_complete pre post :
  (exists ds ss t, pre = ds ++ s_sp_day ++ ss ++ s_comma_sp ++ t
    /\ is_nil ds = false /\ forallb daych ds = true /\ forallb is_s ss = true /\ hms_shape t) ->
  days_scan (pre ++ post) = true.
Proof.
  intros [ds [ss [t [-> [Hd1 [Hd2 [Hs Ht]]]]]]]. unfold days_scan, match_days.
  rewrite <- !app_assoc.
  rewrite span_all; [| exact Hd2 | exact sp_not_daych].
  rewrite Hd1. rewrite starts_with_here.
  change 4%nat with (length s_sp_day). rewrite skipn_here.
  rewrite span_all; [| exact Hs | exact s_not_comma].
  cbn [snd]. rewrite starts_with_here.
  change 2%nat with (length s_comma_sp). rewrite skipn_here.
  apply hms_complete. exact Ht.
Qed.

Lemma days_sound s :
  days_scan s = true -> exists pre post, s = pre ++ post /\ lang rDays pre.
Proof.
  unfold days_scan, match_days.
  destruct (span_spec daych s) as [E1 [D1 _]]. destruct (span daych s) as [ds r1]. cbn [fst snd] in *.
  destruct (is_nil ds) eqn:Nd; [discriminate|].
  destruct (starts_with s_sp_day r1) eqn:S1; [|discriminate].
  apply starts_with_split in S1. change (length s_sp_day) with 4%nat in S1.
  destruct (span_spec is_s (skipn 4 r1)) as [E2 [D2 _]].
  destruct (starts_with s_comma_sp (snd (span is_s (skipn 4 r1)))) eqn:S2; [|discriminate].
  apply starts_with_split in S2. change (length s_comma_sp) with 2%nat in S2.
  intros M. apply hms_sound in M. destruct M as [t [post [E3 Ht]]].
  exists (ds ++ s_sp_day ++ fst (span is_s (skipn 4 r1)) ++ s_comma_sp ++ t), post. split.
  - rewrite E1 at 1. rewrite S1 at 1. rewrite E2 at 1. rewrite S2 at 1. rewrite E3 at 1.
    rewrite <- !app_assoc. reflexivity.
  - apply lang_days. exists ds, (fst (span is_s (skipn 4 r1))), t. repeat split; auto.
Qed.

Lemma prefix_days s : prefixmatch rDays s = days_scan s.
Proof.
  destruct (prefixmatch rDays s) eqn:P.
  - apply prefixmatch_iff in P. destruct P as [pre [post [-> L]]]. apply lang_days in L.
    symmetry. apply days_complete. exact L.
  - destruct (days_scan s) eqn:M; auto. apply days_sound in M.
    destruct M as [pre [post [E L]]].
    assert (prefixmatch rDays s = true) by (apply prefixmatch_iff; eauto). congruence.
Qed.

Theorem timedelta_regexes_lemma s :
  re_match rx_td_hms s = is_some (match_hms s) /\ re_match rx_td_days s = days_scan s.
Proof.
  rewrite shape_hms, shape_days. unfold re_match. cbn [p_end p_body p_multi]. split; [apply prefix_hms | apply prefix_days].
Qed.

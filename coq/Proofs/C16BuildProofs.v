(* C16: lifting the index-level DFS theorem (Proofs/GraphProofs.v, topo_idx_correct) to the
   label level, for graphs built from ANY edge list by add_edge (Model/Graph.v, build), and the
   connection with the executable checker spec_ok of Spec/GraphSpec.v. *)
From JV Require Import Lib.Base Model.Graph Proofs.GraphProofs Spec.GraphSpec.
From Coq Require Import Permutation.

(* ---- label-level reachability over an edge list ----------------------------------------- *)

Inductive reach_es (es : list (str * str)) : str -> str -> Prop :=
| re_refl x : reach_es es x x
| re_step x y z : In (x, y) es -> reach_es es y z -> reach_es es x z.

Lemma reach_es_trans es x y z : reach_es es x y -> reach_es es y z -> reach_es es x z.
Proof. induction 1 as [|x y w Hxy Hyw IH]; intros Hz; [exact Hz|]. eapply re_step; eauto. Qed.

Lemma reach_es_edge_r es x y z : reach_es es x y -> In (y, z) es -> reach_es es x z.
Proof. intros H Hz. eapply reach_es_trans; [exact H|]. eapply re_step; [exact Hz|apply re_refl]. Qed.

(* ---- index_str -------------------------------------------------------------------------- *)

Lemma index_str_Some (x : str) (l : list str) : forall i, index_str x l = Some i -> i < length l /\ nth i l [] = x.
Proof.
  induction l as [|y l IH]; simpl; intros i H; [discriminate|].
  destruct (str_eqb x y) eqn:E.
  - inversion H; subst. apply str_eqb_spec in E. subst. split; [lia|reflexivity].
  - destruct (index_str x l) as [k|]; simpl in H; [|discriminate]. inversion H; subst.
    destruct (IH k eq_refl) as [H1 H2]. split; [lia|exact H2].
Qed.

Lemma index_str_In x l : In x l -> exists i, index_str x l = Some i.
Proof.
  induction l as [|y l IH]; simpl; intros H; [contradiction|].
  destruct (str_eqb x y) eqn:E; [eexists; reflexivity|].
  destruct H as [H|H].
  - subst. rewrite str_eqb_refl in E. discriminate.
  - destruct (IH H) as [i Hi]. rewrite Hi. eexists; reflexivity.
Qed.

Lemma index_str_nth (l : list str) : NoDup l -> forall i, i < length l -> index_str (nth i l []) l = Some i.
Proof.
  induction l as [|y l IH]; intros Hnd i Hi; [simpl in Hi; lia|].
  inversion Hnd as [|y' l' Hy Hl]; subst.
  destruct i as [|i]; simpl.
  - rewrite str_eqb_refl. reflexivity.
  - simpl in Hi. destruct (str_eqb (nth i l []) y) eqn:E.
    + apply str_eqb_spec in E. exfalso. apply Hy. rewrite <- E. apply nth_In. lia.
    + rewrite IH; [reflexivity|exact Hl|lia].
Qed.

Lemma index_str_app x l l' i : index_str x l = Some i -> index_str x (l ++ l') = Some i.
Proof.
  revert i. induction l as [|y l IH]; simpl; intros i H; [discriminate|].
  destruct (str_eqb x y); [exact H|].
  destruct (index_str x l) as [k|]; simpl in H; [|discriminate].
  rewrite (IH k eq_refl). exact H.
Qed.

Lemma map_nth_seq (l : list str) : map (fun i => nth i l []) (seq 0 (length l)) = l.
Proof.
  induction l as [|y l IH]; simpl; [reflexivity|].
  f_equal. rewrite <- seq_shift, map_map. exact IH.
Qed.

(* ---- add_node, adj_get, adj_set --------------------------------------------------------- *)

Lemma add_node_shape ns x :
  exists suf, add_node ns x = ns ++ suf /\
              (forall y, In y (ns ++ suf) <-> In y ns \/ y = x) /\
              (NoDup ns -> NoDup (ns ++ suf)).
Proof.
  unfold add_node. destruct (mem_str x ns) eqn:E.
  - exists []. rewrite app_nil_r. split; [reflexivity|]. split; [|auto].
    intros y. split; [auto|]. intros [H| ->]; [exact H|]. apply mem_str_In; exact E.
  - exists [x]. split; [reflexivity|]. split.
    + intros y. rewrite in_app_iff. simpl. intuition.
    + intros Hnd. apply Permutation_NoDup with (l := x :: ns).
      * apply Permutation_cons_append.
      * constructor; [|exact Hnd]. intro H. apply mem_str_In in H. congruence.
Qed.

Lemma adj_get_nil i : adj_get [] i = [].
Proof. destruct i; reflexivity. Qed.

Lemma adj_get_set_same i l : forall a, adj_get (adj_set a i l) i = l.
Proof. induction i as [|i IH]; intros [|x a]; simpl; auto. Qed.

Lemma adj_get_set_other i l : forall a j, i <> j -> adj_get (adj_set a i l) j = adj_get a j.
Proof.
  induction i as [|i IH]; intros [|x a] [|j] H; simpl; try congruence; auto;
    try apply adj_get_nil;
    try (rewrite IH by congruence; try reflexivity; apply adj_get_nil).
Qed.

Lemma add_edge_shape g s t : NoDup (nodes g) ->
  exists suf si ti l',
    add_edge g s t = {| nodes := nodes g ++ suf; adj := adj_set (adj g) si l' |} /\
    NoDup (nodes g ++ suf) /\
    (forall x, In x (nodes g ++ suf) <-> In x (nodes g) \/ x = s \/ x = t) /\
    index_str s (nodes g ++ suf) = Some si /\
    index_str t (nodes g ++ suf) = Some ti /\
    (forall j, In j l' <-> In j (adj_get (adj g) si) \/ j = ti).
Proof.
  intros Hnd. unfold add_edge.
  destruct (add_node_shape (nodes g) s) as (suf1 & E1 & In1 & Nd1).
  destruct (add_node_shape (nodes g ++ suf1) t) as (suf2 & E2 & In2 & Nd2).
  rewrite E1, E2. rewrite <- app_assoc in *.
  set (ns' := nodes g ++ suf1 ++ suf2) in *.
  assert (Hin : forall x, In x ns' <-> In x (nodes g) \/ x = s \/ x = t).
  { intros x. rewrite In2, In1. tauto. }
  destruct (index_str_In s ns') as [si Hsi]; [apply Hin; auto|].
  destruct (index_str_In t ns') as [ti Hti]; [apply Hin; auto|].
  rewrite Hsi, Hti.
  exists (suf1 ++ suf2), si, ti. eexists. split; [reflexivity|].
  split; [auto|]. split; [exact Hin|]. split; [exact Hsi|]. split; [exact Hti|].
  intros j. destruct (mem_nat ti (adj_get (adj g) si)) eqn:E.
  - split; [auto|]. intros [H| ->]; [exact H|]. apply mem_nat_In; exact E.
  - rewrite in_app_iff. simpl. intuition.
Qed.

(* ---- the invariant of build ------------------------------------------------------------- *)

Definition inv (es : list (str * str)) (g : graph) : Prop :=
  NoDup (nodes g) /\
  (forall x, In x (nodes g) <-> In x (mentioned es)) /\
  (forall i j, In j (adj_get (adj g) i) -> i < length (nodes g) /\ j < length (nodes g)) /\
  (forall i j, In j (adj_get (adj g) i) -> In (label g i, label g j) es) /\
  (forall s t, In (s, t) es ->
     exists i j, index_str s (nodes g) = Some i /\ index_str t (nodes g) = Some j /\
                 In j (adj_get (adj g) i)).

Lemma inv_empty : inv [] empty_graph.
Proof.
  unfold inv; simpl. split; [constructor|]. split; [tauto|].
  split; [intros i j H; try rewrite adj_get_nil in H; destruct H|].
  split; [intros i j H; try rewrite adj_get_nil in H; destruct H|].
  intros s t [].
Qed.

Lemma inv_add_edge es g s t : inv es g -> inv (es ++ [(s, t)]) (add_edge g s t).
Proof.
  intros (Hnd & Hmen & Hbnd & Hsnd & Hcmp).
  destruct (add_edge_shape g s t Hnd) as (suf & si & ti & l' & -> & Hnd' & Hin & Hsi & Hti & Hl').
  destruct (index_str_Some _ _ _ Hsi) as [Hsi1 Hsi2].
  destruct (index_str_Some _ _ _ Hti) as [Hti1 Hti2].
  assert (Hlen : length (nodes g) <= length (nodes g ++ suf)) by (rewrite app_length; lia).
  unfold inv, label; simpl.
  split; [exact Hnd'|]. split; [|split; [|split]].
  - intros x. rewrite Hin, Hmen. unfold mentioned. rewrite flat_map_app, in_app_iff. simpl.
    intuition.
  - intros i j H. destruct (Nat.eq_dec si i) as [<-|Hne].
    + rewrite adj_get_set_same in H. apply Hl' in H. destruct H as [H| ->].
      * destruct (Hbnd _ _ H). lia.
      * lia.
    + rewrite adj_get_set_other in H by exact Hne. destruct (Hbnd _ _ H). lia.
  - intros i j H. rewrite in_app_iff.
    assert (Hold : In j (adj_get (adj g) i) ->
                   In (nth i (nodes g ++ suf) [], nth j (nodes g ++ suf) []) es).
    { intros H0. destruct (Hbnd _ _ H0) as [Hi Hj].
      rewrite !app_nth1 by assumption. apply Hsnd; exact H0. }
    destruct (Nat.eq_dec si i) as [<-|Hne].
    + rewrite adj_get_set_same in H. apply Hl' in H. destruct H as [H| ->].
      * left. apply Hold; exact H.
      * right. left. rewrite Hsi2, Hti2. reflexivity.
    + rewrite adj_get_set_other in H by exact Hne. left. apply Hold; exact H.
  - intros s0 t0 H. apply in_app_iff in H. destruct H as [H|[H|[]]].
    + destruct (Hcmp _ _ H) as (i & j & Hi & Hj & Hij).
      exists i, j. split; [apply index_str_app; exact Hi|]. split; [apply index_str_app; exact Hj|].
      destruct (Nat.eq_dec si i) as [<-|Hne].
      * rewrite adj_get_set_same. apply Hl'. left; exact Hij.
      * rewrite adj_get_set_other by exact Hne. exact Hij.
    + inversion H; subst. exists si, ti. split; [exact Hsi|]. split; [exact Hti|].
      rewrite adj_get_set_same. apply Hl'. right; reflexivity.
Qed.

Lemma build_snoc es e : build (es ++ [e]) = add_edge (build es) (fst e) (snd e).
Proof. unfold build. rewrite fold_left_app. reflexivity. Qed.

Lemma inv_build es : inv es (build es).
Proof.
  induction es as [|[s t] es IH] using rev_ind; [exact inv_empty|].
  rewrite build_snoc. simpl. apply inv_add_edge; exact IH.
Qed.

(* ---- GOAL A: the label-level theorem ---------------------------------------------------- *)

Lemma reach_idx_es es g : inv es g ->
  forall a b, reach (adj_get (adj g)) a b -> reach_es es (label g a) (label g b).
Proof.
  intros (_ & _ & _ & Hsnd & _) a b H.
  induction H as [x|x y z Hxy Hyz IH]; [apply re_refl|].
  eapply re_step; [apply Hsnd; exact Hxy|exact IH].
Qed.

Lemma label_inj g i j : NoDup (nodes g) ->
  i < length (nodes g) -> j < length (nodes g) -> label g i = label g j -> i = j.
Proof. intros Hnd Hi Hj E. unfold label in E. eapply NoDup_nth; eauto. Qed.

Lemma reach_es_idx es g : inv es g ->
  forall x y, reach_es es x y ->
  forall i, i < length (nodes g) -> label g i = x ->
  exists k, k < length (nodes g) /\ label g k = y /\ reach (adj_get (adj g)) i k.
Proof.
  intros (Hnd & _ & Hbnd & _ & Hcmp) x y H.
  induction H as [x|x y z Hxy Hyz IH]; intros i Hi Hl.
  - exists i. split; [exact Hi|]. split; [exact Hl|apply reach_refl].
  - destruct (Hcmp _ _ Hxy) as (i' & j' & Hi' & Hj' & Hij).
    destruct (index_str_Some _ _ _ Hi') as [Hi1 Hi2].
    destruct (index_str_Some _ _ _ Hj') as [Hj1 Hj2].
    assert (i' = i) by (apply (label_inj g); auto; unfold label in *; congruence). subst i'.
    destruct (IH j' Hj1 Hj2) as (k & Hk1 & Hk2 & Hk3).
    exists k. split; [exact Hk1|]. split; [exact Hk2|].
    eapply reach_step; [exact Hij|exact Hk3].
Qed.

Definition out_ok (es : list (str * str)) (out : topo_out) : Prop :=
  match out with
  | Order o => NoDup o /\ (forall x, In x o <-> In x (mentioned es)) /\
               (forall s t, In (s, t) es -> exists l1 l2, o = l1 ++ s :: l2 /\ In t l2) /\
               (forall s t, In (s, t) es -> ~ reach_es es t s)
  | Cycle u v => In (u, v) es /\ reach_es es v u
  | Broken => False
  end.

Theorem topo_build_correct :
  forall es : list (str * str),
    match topo (build es) with
    | Order o => NoDup o /\ (forall x, In x o <-> In x (mentioned es)) /\
                 (forall s t, In (s, t) es -> exists l1 l2, o = l1 ++ s :: l2 /\ In t l2) /\
                 (forall s t, In (s, t) es -> ~ reach_es es t s)
    | Cycle u v => In (u, v) es /\ reach_es es v u
    | Broken => False
    end.
Proof.
  intros es. pose proof (inv_build es) as Hinv.
  set (g := build es) in *.
  pose proof Hinv as (Hnd & Hmen & Hbnd & Hsnd & Hcmp).
  assert (wf : forall s t, s < length (nodes g) -> In t (adj_get (adj g) s) -> t < length (nodes g)).
  { intros s t _ H. apply (Hbnd _ _ H). }
  pose proof (topo_idx_correct (adj_get (adj g)) (length (nodes g)) wf) as Hc.
  unfold topo. destruct (topo_idx (length (nodes g)) (adj_get (adj g))) as [V o|u v|].
  - destruct Hc as (Hperm & Hndo & Hbef & Hacy).
    assert (Hp : Permutation (map (label g) o) (nodes g)).
    { pose proof (Permutation_map (label g) Hperm) as Hp.
      change (map (label g) (seq 0 (length (nodes g))))
        with (map (fun i => nth i (nodes g) []) (seq 0 (length (nodes g)))) in Hp.
      rewrite map_nth_seq in Hp. exact Hp. }
    split; [|split; [|split]].
    + eapply Permutation_NoDup; [apply Permutation_sym; exact Hp|exact Hnd].
    + intros x. rewrite <- Hmen. split; intro H.
      * eapply Permutation_in; [exact Hp|exact H].
      * eapply Permutation_in; [apply Permutation_sym; exact Hp|exact H].
    + intros s t Hst. destruct (Hcmp _ _ Hst) as (i & j & Hi & Hj & Hij).
      destruct (index_str_Some _ _ _ Hi) as [Hi1 Hi2].
      destruct (index_str_Some _ _ _ Hj) as [Hj1 Hj2].
      destruct (Hbef i j Hi1 Hij) as (l1 & l2 & -> & Hin).
      exists (map (label g) l1), (map (label g) l2). split.
      * rewrite map_app. simpl. unfold label at 2. rewrite Hi2. reflexivity.
      * rewrite <- Hj2. apply (in_map (label g)). exact Hin.
    + intros s t Hst Hr. destruct (Hcmp _ _ Hst) as (i & j & Hi & Hj & Hij).
      destruct (index_str_Some _ _ _ Hi) as [Hi1 Hi2].
      destruct (index_str_Some _ _ _ Hj) as [Hj1 Hj2].
      destruct (reach_es_idx es g Hinv t s Hr j Hj1 Hj2) as (k & Hk1 & Hk2 & Hk3).
      assert (k = i) by (apply (label_inj g); auto; unfold label in *; congruence). subst k.
      exact (Hacy i j Hi1 Hij Hk3).
  - destruct Hc as (Huv & Hr). split.
    + apply Hsnd; exact Huv.
    + apply (reach_idx_es es g Hinv); exact Hr.
  - exact Hc.
Qed.

Corollary topo_build_out_ok es : out_ok es (topo (build es)).
Proof. exact (topo_build_correct es). Qed.

(* ---- GOAL B, part 1: soundness of the executable checker -------------------------------- *)

Lemma nodup_b_NoDup l : nodup_b l = true <-> NoDup l.
Proof.
  induction l as [|x l IH]; simpl.
  - split; [constructor|reflexivity].
  - rewrite andb_true_iff, negb_true_iff, IH. split.
    + intros [H1 H2]. constructor; [|exact H2]. intro H. apply mem_str_In in H. congruence.
    + intros H. inversion H as [|x' l' Hx Hl]; subst. split; [|exact Hl].
      destruct (mem_str x l) eqn:E; [|reflexivity]. apply mem_str_In in E. contradiction.
Qed.

Lemma edge_before_split o s t :
  edge_before o (s, t) = true -> exists l1 l2, o = l1 ++ s :: l2 /\ In t l2.
Proof.
  unfold edge_before; simpl.
  destruct (index_str s o) as [i|] eqn:Hi; [|discriminate].
  destruct (index_str t o) as [j|] eqn:Hj; [|discriminate].
  intros Hlt. apply Nat.ltb_lt in Hlt.
  destruct (index_str_Some _ _ _ Hi) as [Hi1 Hi2].
  destruct (index_str_Some _ _ _ Hj) as [Hj1 Hj2].
  destruct (nth_split o [] Hi1) as (l1 & l2 & Ho & Hlen).
  rewrite Hi2 in Ho. exists l1, l2. split; [exact Ho|].
  rewrite <- Hj2. rewrite Ho at 1. rewrite app_nth2 by lia.
  rewrite Ho, app_length in Hj1. simpl in Hj1.
  replace (j - length l1) with (S (j - length l1 - 1)) by lia. simpl.
  apply nth_In. lia.
Qed.

Lemma reach_es_index_le es o :
  (forall e, In e es -> edge_before o e = true) ->
  forall x y, reach_es es x y ->
  forall i, index_str x o = Some i -> exists j, index_str y o = Some j /\ i <= j.
Proof.
  intros Hall x y H. induction H as [x|x y z Hxy Hyz IH]; intros i Hi.
  - exists i. split; [exact Hi|lia].
  - specialize (Hall _ Hxy). unfold edge_before in Hall; simpl in Hall.
    rewrite Hi in Hall. destruct (index_str y o) as [j|] eqn:Hj; [|discriminate].
    apply Nat.ltb_lt in Hall. destruct (IH j eq_refl) as (k & Hk & Hle).
    exists k. split; [exact Hk|lia].
Qed.

Definition step_fn (acc : list str) (e : edge) : list str :=
  if mem_str (fst e) acc && negb (mem_str (snd e) acc) then snd e :: acc else acc.

Lemma step_set_eq es S0 : step_set es S0 = fold_left step_fn es S0.
Proof. reflexivity. Qed.

Lemma fold_step_sound es a : forall es0 S0,
  (forall e, In e es0 -> In e es) ->
  (forall x, In x S0 -> reach_es es a x) ->
  forall x, In x (fold_left step_fn es0 S0) -> reach_es es a x.
Proof.
  induction es0 as [|e es0 IH]; simpl; intros S0 Hsub HS; [exact HS|].
  apply IH; [intros e0 H0; apply Hsub; right; exact H0|].
  intros x. unfold step_fn.
  destruct (mem_str (fst e) S0 && negb (mem_str (snd e) S0)) eqn:E; [|apply HS].
  apply andb_true_iff in E. destruct E as [E _]. apply mem_str_In in E.
  intros [<-|Hx]; [|apply HS; exact Hx].
  eapply reach_es_edge_r; [apply HS; exact E|].
  destruct e as [s t]. simpl. apply Hsub. left; reflexivity.
Qed.

Lemma closure_sound es a : forall fuel S0,
  (forall x, In x S0 -> reach_es es a x) ->
  forall x, In x (closure fuel es S0) -> reach_es es a x.
Proof.
  induction fuel as [|f IH]; simpl; intros S0 HS; [exact HS|].
  apply IH. rewrite step_set_eq. apply fold_step_sound; auto.
Qed.

Lemma reach_b_sound es a b : reach_b es a b = true -> reach_es es a b.
Proof.
  unfold reach_b. intros H. apply mem_str_In in H.
  eapply closure_sound; [|exact H]. intros x [<-|[]]. apply re_refl.
Qed.

Lemma edge_eqb_spec a b : edge_eqb a b = true <-> a = b.
Proof.
  destruct a as [a1 a2], b as [b1 b2]. unfold edge_eqb; simpl.
  rewrite andb_true_iff, !str_eqb_spec. split; [intros [-> ->]; reflexivity|].
  intros H; inversion H; auto.
Qed.

Theorem spec_ok_sound : forall es out, spec_ok es out = true -> out_ok es out.
Proof.
  intros es [o|u v|]; simpl; [| |discriminate].
  - unfold order_ok. rewrite !andb_true_iff, !forallb_forall.
    intros [[[Hnd Hm1] Hm2] Hbef].
    split; [apply nodup_b_NoDup; exact Hnd|]. split; [|split].
    + intros x. split; intro H; apply mem_str_In; auto.
    + intros s t Hst. apply edge_before_split. apply Hbef; exact Hst.
    + intros s t Hst Hr. pose proof (Hbef _ Hst) as Hb.
      unfold edge_before in Hb; simpl in Hb.
      destruct (index_str s o) as [i|] eqn:Hi; [|discriminate].
      destruct (index_str t o) as [j|] eqn:Hj; [|discriminate].
      apply Nat.ltb_lt in Hb.
      destruct (reach_es_index_le es o Hbef t s Hr j Hj) as (k & Hk & Hle).
      rewrite Hi in Hk. inversion Hk; subst. lia.
  - unfold cycle_ok. rewrite andb_true_iff, existsb_exists.
    intros [(e & He & Heq) Hr]. apply edge_eqb_spec in Heq. subst e.
    split; [exact He|apply reach_b_sound; exact Hr].
Qed.

(* ---- GOAL B, part 2: completeness of the executable checker ----------------------------- *)

Lemma split_edge_before o s t :
  NoDup o -> (exists l1 l2, o = l1 ++ s :: l2 /\ In t l2) -> edge_before o (s, t) = true.
Proof.
  intros Hnd (l1 & l2 & Ho & Ht).
  destruct (In_nth l2 t [] Ht) as (k & Hk & Hnk).
  assert (Hs : nth (length l1 + 0) o [] = s) by (rewrite Ho, app_nth2_plus; reflexivity).
  assert (Htt : nth (length l1 + S k) o [] = t) by (rewrite Ho, app_nth2_plus; exact Hnk).
  assert (Hlen : length o = length l1 + S (length l2)) by (rewrite Ho, app_length; reflexivity).
  unfold edge_before; simpl.
  rewrite <- Hs at 1. rewrite index_str_nth; [|exact Hnd|lia].
  rewrite <- Htt at 1. rewrite index_str_nth; [|exact Hnd|lia].
  apply Nat.ltb_lt. lia.
Qed.

(* the closure computation *)

Lemma step_fn_ext acc e x : In x acc -> In x (step_fn acc e).
Proof. unfold step_fn. destruct (_ && _); simpl; auto. Qed.

Lemma fold_step_ext : forall es0 S0 x, In x S0 -> In x (fold_left step_fn es0 S0).
Proof.
  induction es0 as [|e es0 IH]; simpl; intros S0 x H; [exact H|].
  apply IH. apply step_fn_ext; exact H.
Qed.

Lemma closure_ext es : forall fuel S0 x, In x S0 -> In x (closure fuel es S0).
Proof.
  induction fuel as [|f IH]; simpl; intros S0 x H; [exact H|].
  apply IH. rewrite step_set_eq. apply fold_step_ext; exact H.
Qed.

(* an edge whose source is in the set has its target in the set after the pass *)
Lemma fold_step_fire : forall es0 S0 e,
  In e es0 -> In (fst e) S0 -> In (snd e) (fold_left step_fn es0 S0).
Proof.
  induction es0 as [|e0 es0 IH]; simpl; intros S0 e He Hs; [contradiction|].
  destruct He as [->|He].
  - apply fold_step_ext. unfold step_fn.
    destruct (mem_str (snd e) S0) eqn:E.
    + rewrite andb_false_r. apply mem_str_In; exact E.
    + apply mem_str_In in Hs. rewrite Hs. simpl. left; reflexivity.
  - apply IH; [exact He|]. apply step_fn_ext; exact Hs.
Qed.

Definition closed_b (es : list edge) (S0 : list str) : bool :=
  forallb (fun e => negb (mem_str (fst e) S0) || mem_str (snd e) S0) es.

Lemma closed_b_true es S0 : closed_b es S0 = true ->
  forall s t, In (s, t) es -> In s S0 -> In t S0.
Proof.
  unfold closed_b. rewrite forallb_forall. intros H s t Hst Hs.
  specialize (H _ Hst). simpl in H. apply mem_str_In in Hs. rewrite Hs in H. simpl in H.
  apply mem_str_In; exact H.
Qed.

Lemma forallb_false {A} (p : A -> bool) l :
  forallb p l = false -> exists x, In x l /\ p x = false.
Proof.
  induction l as [|y l IH]; simpl; [discriminate|].
  destruct (p y) eqn:E; simpl.
  - intros H. destruct (IH H) as (x & Hx & Hp). exists x. auto.
  - intros _. exists y. auto.
Qed.

Lemma closed_b_false es S0 : closed_b es S0 = false ->
  exists e, In e es /\ In (fst e) S0 /\ ~ In (snd e) S0.
Proof.
  intros H. apply forallb_false in H. destruct H as (e & He & Hp).
  apply orb_false_iff in Hp. destruct Hp as [H1 H2]. apply negb_false_iff in H1.
  exists e. split; [exact He|]. split; [apply mem_str_In; exact H1|].
  intro H. apply mem_str_In in H. congruence.
Qed.

(* a closed set is a fixpoint of the pass *)
Lemma fold_step_closed S0 : forall es0,
  (forall e, In e es0 -> In (fst e) S0 -> In (snd e) S0) ->
  fold_left step_fn es0 S0 = S0.
Proof.
  induction es0 as [|e es0 IH]; simpl; intros H; [reflexivity|].
  assert (E : step_fn S0 e = S0).
  { unfold step_fn. destruct (mem_str (fst e) S0) eqn:E1; [|reflexivity].
    apply mem_str_In in E1. specialize (H e (or_introl eq_refl) E1).
    apply mem_str_In in H. rewrite H. reflexivity. }
  rewrite E. apply IH. intros e0 H0. apply H. right; exact H0.
Qed.

Lemma closure_closed es S0 : closed_b es S0 = true -> forall fuel, closure fuel es S0 = S0.
Proof.
  intros Hc. induction fuel as [|f IH]; simpl; [reflexivity|].
  rewrite step_set_eq, fold_step_closed; [exact IH|].
  intros [s t] He Hs. simpl in *. eapply closed_b_true; eauto.
Qed.

(* the measure: edges whose target is still outside the set *)
Definition outside (es : list edge) (S0 : list str) : nat :=
  length (filter (fun e => negb (mem_str (snd e) S0)) es).

Lemma filter_len_le {A} (p q : A -> bool) l :
  (forall x, q x = true -> p x = true) -> length (filter q l) <= length (filter p l).
Proof.
  intros H. induction l as [|y l IH]; simpl; [lia|].
  destruct (q y) eqn:Eq.
  - rewrite (H y Eq). simpl. lia.
  - destruct (p y); simpl; lia.
Qed.

Lemma filter_len_bound {A} (p : A -> bool) l : length (filter p l) <= length l.
Proof. induction l as [|y l IH]; simpl; [lia|]. destruct (p y); simpl; lia. Qed.

Lemma filter_len_lt {A} (p q : A -> bool) l :
  (forall x, q x = true -> p x = true) ->
  (exists x, In x l /\ p x = true /\ q x = false) ->
  length (filter q l) < length (filter p l).
Proof.
  intros H. induction l as [|y l IH]; simpl; intros (x & Hx & Hp & Hq); [contradiction|].
  pose proof (filter_len_le p q l H) as Hle.
  destruct Hx as [->|Hx].
  - rewrite Hp, Hq. simpl. lia.
  - assert (IH' : length (filter q l) < length (filter p l)) by (apply IH; eauto).
    destruct (q y) eqn:Eq.
    + rewrite (H y Eq). simpl. lia.
    + destruct (p y); simpl; lia.
Qed.

Lemma outside_decreases es S0 : closed_b es S0 = false ->
  outside es (step_set es S0) < outside es S0.
Proof.
  intros Hc. destruct (closed_b_false _ _ Hc) as (e & He & Hs & Ht).
  unfold outside. apply filter_len_lt.
  - intros x Hx. apply negb_true_iff in Hx. apply negb_true_iff.
    destruct (mem_str (snd x) S0) eqn:E; [|reflexivity].
    apply mem_str_In in E. apply (fold_step_ext es) in E. rewrite <- step_set_eq in E.
    apply mem_str_In in E. congruence.
  - exists e. split; [exact He|]. split.
    + apply negb_true_iff. destruct (mem_str (snd e) S0) eqn:E; [|reflexivity].
      apply mem_str_In in E. contradiction.
    + apply negb_false_iff. apply mem_str_In. rewrite step_set_eq.
      apply fold_step_fire; assumption.
Qed.

Lemma closure_reaches_closed es : forall fuel S0,
  outside es S0 < fuel -> closed_b es (closure fuel es S0) = true.
Proof.
  induction fuel as [|f IH]; intros S0 Hlt; [lia|].
  destruct (closed_b es S0) eqn:Hc.
  - rewrite closure_closed by exact Hc. exact Hc.
  - simpl. apply IH. pose proof (outside_decreases es S0 Hc). lia.
Qed.

Lemma closed_reach es S0 :
  (forall s t, In (s, t) es -> In s S0 -> In t S0) ->
  forall x y, reach_es es x y -> In x S0 -> In y S0.
Proof.
  intros Hc x y H. induction H as [x|x y z Hxy Hyz IH]; intros Hx; [exact Hx|].
  apply IH. eapply Hc; eauto.
Qed.

Lemma reach_b_complete es a b : reach_es es a b -> reach_b es a b = true.
Proof.
  intros H. unfold reach_b. apply mem_str_In.
  assert (Hc : closed_b es (closure (S (length es)) es [a]) = true).
  { apply closure_reaches_closed. unfold outside.
    apply Nat.lt_succ_r. apply filter_len_bound. }
  eapply closed_reach; [apply closed_b_true; exact Hc|exact H|].
  apply closure_ext. left; reflexivity.
Qed.

Theorem reach_b_spec es a b : reach_b es a b = true <-> reach_es es a b.
Proof. split; [apply reach_b_sound|apply reach_b_complete]. Qed.

Theorem spec_ok_complete : forall es out, out_ok es out -> spec_ok es out = true.
Proof.
  intros es [o|u v|]; simpl; [| |contradiction].
  - intros (Hnd & Hmen & Hbef & _). unfold order_ok.
    rewrite !andb_true_iff, !forallb_forall. repeat split.
    + apply nodup_b_NoDup; exact Hnd.
    + intros x Hx. apply mem_str_In. apply Hmen; exact Hx.
    + intros x Hx. apply mem_str_In. apply Hmen; exact Hx.
    + intros [s t] Hst. apply split_edge_before; [exact Hnd|]. apply Hbef; exact Hst.
  - intros [He Hr]. unfold cycle_ok. rewrite andb_true_iff, existsb_exists. split.
    + exists (u, v). split; [exact He|]. apply edge_eqb_spec; reflexivity.
    + apply reach_b_complete; exact Hr.
Qed.

Theorem spec_ok_iff : forall es out, spec_ok es out = true <-> out_ok es out.
Proof. intros es out. split; [apply spec_ok_sound|apply spec_ok_complete]. Qed.

Theorem topo_build_spec_ok : forall es, spec_ok es (topo (build es)) = true.
Proof. intros es. apply spec_ok_complete. apply topo_build_out_ok. Qed.

Print Assumptions topo_build_correct.
Print Assumptions spec_ok_sound.
Print Assumptions spec_ok_complete.
Print Assumptions topo_build_spec_ok.

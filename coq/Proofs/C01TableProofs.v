(* C01 — the lemmas of Proofs/C01Proofs.v instantiated with the regenerated resolver tables (Gen/C01Tables.v);
   every table fact is decided by the verified regex checker or by evaluation. Re-checked on every run. *)
From JV Require Import Lib.Base Lib.Regex Model.TyVal Model.Scalar Proofs.ScalarProofs Model.C01Conf Model.C01Guard
  Proofs.C01Proofs Gen.C01Tables.

Lemma str_agree_tables : forall s, resolve dumper_table s = TgStr -> resolve loader_table s = TgStr.
Proof. apply (plain_agree dumper_table loader_table 4000); vm_compute; reflexivity. Qed.

Lemma int_tag_loader : forall s, matches int_out s = true -> resolve loader_table s = TgInt.
Proof. apply (lang_resolves loader_table TgInt 4000); vm_compute; reflexivity. Qed.
Lemma int_tag_dumper : forall s, matches int_out s = true -> resolve dumper_table s = TgInt.
Proof. apply (lang_resolves dumper_table TgInt 4000); vm_compute; reflexivity. Qed.
Lemma yfloat_tag_loader : forall s, matches yaml_float_out s = true -> resolve loader_table s = TgFloat.
Proof. apply (lang_resolves loader_table TgFloat 4000); vm_compute; reflexivity. Qed.
Lemma yfloat_tag_dumper : forall s, matches yaml_float_out s = true -> resolve dumper_table s = TgFloat.
Proof. apply (lang_resolves dumper_table TgFloat 4000); vm_compute; reflexivity. Qed.
Lemma jfloat_tag_loader : forall s, matches repr_float_fin s = true -> resolve loader_table s = TgFloat.
Proof. apply (lang_resolves loader_table TgFloat 4000); vm_compute; reflexivity. Qed.
Lemma bool_tag_loader : forall b, resolve loader_table (bool_text b) = TgBool.
Proof. intros []; vm_compute; reflexivity. Qed.
Lemma null_tag_loader : resolve loader_table null_text = TgNull.
Proof. vm_compute; reflexivity. Qed.

Lemma number_texts_resolve :
  (forall s, matches int_out s = true -> resolve loader_table s = TgInt /\ resolve dumper_table s = TgInt) /\
  (forall s, matches yaml_float_out s = true -> resolve loader_table s = TgFloat /\ resolve dumper_table s = TgFloat) /\
  (forall s, matches repr_float_fin s = true -> resolve loader_table s = TgFloat) /\
  (forall b, resolve loader_table (bool_text b) = TgBool) /\ resolve loader_table null_text = TgNull.
Proof.
  repeat split; auto using int_tag_loader, int_tag_dumper, yfloat_tag_loader, yfloat_tag_dumper, jfloat_tag_loader,
    bool_tag_loader, null_tag_loader.
Qed.

(* Python's number <-> text conversions, as far as the theorems rest on them *)
Definition int_text_ok : Prop :=
  forall z, matches int_out (repr_int z) = true /\ construct_int (repr_int z) = COk (VInt z).
Definition yfloat_text_ok (yrepr : fl -> str) : Prop :=
  forall x, matches yaml_float_out (yrepr x) = true /\ construct_float (yrepr x) = COk (VFloat x).
Definition jfloat_text_ok (jrepr : fl -> str) : Prop :=
  forall x, nonfinite x = false -> matches repr_float_fin (jrepr x) = true /\ construct_float (jrepr x) = COk (VFloat x).

Lemma reload_identity :
  forall (plain_ok : str -> bool) (yrepr jrepr : fl -> str),
    int_text_ok -> yfloat_text_ok yrepr -> jfloat_text_ok jrepr ->
    forall f v, (f = FJson -> has_nonfinite v = false) ->
      reload plain_ok yrepr jrepr dumper_table loader_table f v = v.
Proof.
  intros plain_ok yrepr jrepr Hi Hy Hj.
  exact (reload_id plain_ok yrepr jrepr dumper_table loader_table str_agree_tables int_tag_loader yfloat_tag_loader
           jfloat_tag_loader bool_tag_loader null_tag_loader Hi Hy Hj).
Qed.

Lemma dump_parse_roundtrip :
  forall (yl : str -> option val) (plain_ok : str -> bool) (yrepr jrepr : fl -> str),
    int_text_ok -> yfloat_text_ok yrepr -> jfloat_text_ok jrepr ->
    forall vr lvs,
      case_class yl vr lvs = 0%N ->
      Forall (fun lw => leaf_stable yl (vr_skip_none vr) (fst lw) (snd lw)) lvs ->
      exists ws, roundtrip yl plain_ok yrepr jrepr dumper_table loader_table vr lvs = Some ws /\
                 Forall2 (fun w' w => veq w' w = true) ws (map snd lvs).
Proof.
  intros yl plain_ok yrepr jrepr Hi Hy Hj.
  exact (roundtrip_ok plain_ok yrepr jrepr dumper_table loader_table str_agree_tables int_tag_loader yfloat_tag_loader
           jfloat_tag_loader bool_tag_loader null_tag_loader Hi Hy Hj yl).
Qed.

(* per-leaf stability is proved for the container grammar: no premise about the leaves left *)
Lemma dump_parse_roundtrip_simple :
  forall (yl : str -> option val) (plain_ok : str -> bool) (yrepr jrepr : fl -> str),
    int_text_ok -> yfloat_text_ok yrepr -> jfloat_text_ok jrepr ->
    forall vr lvs,
      case_class yl vr lvs = 0%N ->
      forallb leaf_simple lvs = true ->
      exists ws, roundtrip yl plain_ok yrepr jrepr dumper_table loader_table vr lvs = Some ws /\
                 Forall2 (fun w' w => veq w' w = true) ws (map snd lvs).
Proof.
  intros yl plain_ok yrepr jrepr Hi Hy Hj.
  exact (roundtrip_simple_ok plain_ok yrepr jrepr dumper_table loader_table str_agree_tables int_tag_loader yfloat_tag_loader
           jfloat_tag_loader bool_tag_loader null_tag_loader Hi Hy Hj yl).
Qed.

(* parsers with subcommands: the dump is taken by the top-level parser (req_sub: it has a REQUIRED subcommand) *)
Lemma dump_parse_roundtrip_top :
  forall (yl : str -> option val) (plain_ok : str -> bool) (yrepr jrepr : fl -> str),
    int_text_ok -> yfloat_text_ok yrepr -> jfloat_text_ok jrepr ->
    forall req_sub sub vr lvs,
      top_class yl req_sub sub vr lvs = 0%N ->
      Forall (fun lw => leaf_stable yl (vr_skip_none vr) (fst lw) (snd lw)) lvs ->
      exists ws, roundtrip_top yl plain_ok yrepr jrepr dumper_table loader_table req_sub sub vr lvs = Some ws /\
                 Forall2 (fun w' w => veq w' w = true) ws (map snd lvs).
Proof.
  intros yl plain_ok yrepr jrepr Hi Hy Hj.
  exact (roundtrip_top_ok plain_ok yrepr jrepr dumper_table loader_table str_agree_tables int_tag_loader yfloat_tag_loader
           jfloat_tag_loader bool_tag_loader null_tag_loader Hi Hy Hj yl).
Qed.

(* ---- witnesses: the full statement fails outside the guard (faithful model of the pinned tree) ------------------ *)
Definition id_yl (s : str) : option val := Some (VStr s).
Definition no_plain (s : str) : bool := false.
Definition some_text (x : fl) : str := [49; 46; 48]%N.
Definition inf_text (x : fl) : str := [73;110;102;105;110;105;116;121]%N.
Definition kx : str := [107]%N.
Definition ka : str := [97]%N.
Definition kb : str := [98]%N.
Definition yaml_keep := {| vr_fmt := FYaml; vr_skip_none := false; vr_skip_default := false; vr_comments := false |}.
Definition save_default := {| vr_fmt := FYaml; vr_skip_none := true; vr_skip_default := false; vr_comments := false |}.
Definition yaml_skipdef := {| vr_fmt := FYaml; vr_skip_none := false; vr_skip_default := true; vr_comments := false |}.
Definition json_keep := {| vr_fmt := FJson; vr_skip_none := false; vr_skip_default := false; vr_comments := false |}.
Definition rt (jr : fl -> str) vr lf w := leaf_rt id_yl no_plain some_text jr dumper_table loader_table vr lf w.

(* save(): Optional[int] default 5, value None -> 5 *)
Lemma save_skip_none_witness :
  exists lf w w', rt some_text save_default lf w = Some w' /\ veq w' w = false.
Proof.
  exists {| lf_key := kx; lf_ty := CUnion [CInt; CNone]; lf_def := VInt 5 |}, VNone, (VInt 5). vm_compute. auto.
Qed.

(* skip_default: Union[int,float] default 1.0, value 1 -> 1.0 *)
Lemma skip_default_eq_witness :
  exists lf w w', rt some_text yaml_skipdef lf w = Some w' /\ veq w' w = false.
Proof.
  exists {| lf_key := kx; lf_ty := CUnion [CInt; CFloat]; lf_def := VFloat (FFin 1 0) |}, (VInt 1), (VFloat (FFin 1 0)).
  vm_compute. auto.
Qed.

(* save(): a dataclass-typed value Limits(low: Optional[int] = 0, high: Optional[int] = 1) = {low: 0, high: None}:
   the nested dump drops `high`, the re-parse restores 1 *)
Definition klow : str := [108;111;119]%N.
Definition khigh : str := [104;105;103;104]%N.
Definition limits_ty : cty :=
  CData [(klow, CUnion [CInt; CNone], VInt 0); (khigh, CUnion [CInt; CNone], VInt 1)].
Lemma save_nested_none_witness :
  exists lf w w', rt some_text save_default lf w = Some w' /\ veq w' w = false.
Proof.
  exists {| lf_key := kx; lf_ty := CUnion [limits_ty; CNone]; lf_def := VNone |},
         (VDict [(VStr klow, VInt 0); (VStr khigh, VNone)]),
         (VDict [(VStr klow, VInt 0); (VStr khigh, VInt 1)]). vm_compute. auto.
Qed.

(* subclass-typed argument : classes B = Base(a: int = 1) and K = a class taking only keyword arguments *)
Definition p_base : str := [66]%N.
Definition p_kw : str := [75]%N.
Definition base_ty : cty := CSub [(p_base, CData [(ka, CInt, VInt 1)]); (p_kw, CData [])].
Definition spec (cp : str) (rest : list (val * val)) : val := VDict ((VStr k_class_path, VStr cp) :: rest).

(* regression witnesses about the tree BEFORE /repo 2b39397 (trim_gen false): skip_default with nulls kept made the dump
   raise for a spec over the declared default None, and deleted a spec whose class and init_args were the default's
   although its dict_kwargs differed; and the repaired rule (trim_gen true = trim) does neither *)
Lemma skip_default_none_default_witness :
  trim_gen false base_ty (spec p_base [(VStr k_init_args, VDict [(VStr ka, VInt 1)])]) VNone = TErr /\
  trim base_ty (spec p_base [(VStr k_init_args, VDict [(VStr ka, VInt 1)])]) VNone = TKeep (spec p_base []).
Proof. vm_compute. auto. Qed.

Lemma skip_default_dict_kwargs_witness :
  trim_gen false base_ty (spec p_kw [(VStr k_dict_kwargs, VDict [(VStr ka, VInt 1)])]) (spec p_kw []) = TDel /\
  trim base_ty (spec p_kw [(VStr k_dict_kwargs, VDict [(VStr ka, VInt 1)])]) (spec p_kw [])
    = TKeep (spec p_kw [(VStr k_dict_kwargs, VDict [(VStr ka, VInt 1)])]).
Proof. vm_compute. auto. Qed.

(* skip_default: default spec S{a: 5, b: 2}, value B{a: 1} (1 = B's own default): only class_path is written, and the
   re-parse carries a = 5 over from the default spec *)
Definition p_sub : str := [83]%N.
Definition sub2_ty : cty := CSub [(p_base, CData [(ka, CInt, VInt 1)]); (p_sub, CData [(kb, CInt, VInt 2); (ka, CInt, VInt 1)])].
Lemma skip_default_carry_over_witness :
  exists w', rt some_text yaml_skipdef
               {| lf_key := kx; lf_ty := sub2_ty;
                  lf_def := spec p_sub [(VStr k_init_args, VDict [(VStr kb, VInt 2); (VStr ka, VInt 5)])] |}
               (spec p_base [(VStr k_init_args, VDict [(VStr ka, VInt 1)])]) = Some w' /\
             veq w' (spec p_base [(VStr k_init_args, VDict [(VStr ka, VInt 1)])]) = false.
Proof. eexists. split; vm_compute; reflexivity. Qed.

(* JSON: float inf is written Infinity, which the loader's table takes for a str: the re-parse is rejected *)
Lemma json_nonfinite_witness :
  matches json_float_out (inf_text (FInf false)) = true /\ resolve loader_table (inf_text (FInf false)) = TgStr /\
  rt inf_text json_keep {| lf_key := kx; lf_ty := CFloat; lf_def := VNone |} (VFloat (FInf false)) = None.
Proof. vm_compute. auto. Qed.

(* the hypotheses of dump_parse_roundtrip hold for a non-trivial parser and configuration:
   s: str = "1e3" (default "a"), n: Optional[int] = 7 (default None), l: List[str] = ["null", "a: b"],
   d: List[Limits] = [{low: None, high: 2}] (a dataclass-typed value with an explicit None over the field default 0),
   m: Base-typed subclass spec {class_path: B, init_args: {a: 7}} over the default spec {class_path: K} *)
Definition ex_leaves : list (leaf * val) :=
  [({| lf_key := [115]%N; lf_ty := CStr; lf_def := VStr ka |}, VStr [49;101;51]%N);
   ({| lf_key := [110]%N; lf_ty := CUnion [CInt; CNone]; lf_def := VNone |}, VInt 7);
   ({| lf_key := [108]%N; lf_ty := CList CStr; lf_def := VList [] |},
    VList [VStr [110;117;108;108]%N; VStr [97;58;32;98]%N]);
   ({| lf_key := [100]%N; lf_ty := CList limits_ty; lf_def := VList [] |},
    VList [VDict [(VStr klow, VNone); (VStr khigh, VInt 2)]]);
   ({| lf_key := [109]%N; lf_ty := base_ty; lf_def := spec p_kw [] |},
    spec p_base [(VStr k_init_args, VDict [(VStr ka, VInt 7)])])].

Lemma roundtrip_hyps_example :
  case_class id_yl yaml_skipdef ex_leaves = 0%N /\
  Forall (fun lw => leaf_stable id_yl false (fst lw) (snd lw)) ex_leaves /\
  roundtrip id_yl no_plain some_text some_text dumper_table loader_table yaml_skipdef ex_leaves = Some (map snd ex_leaves).
Proof.
  split; [vm_compute; reflexivity|]. split; [|vm_compute; reflexivity].
  apply Forall_cons; [|apply Forall_cons; [|apply Forall_cons; [|apply Forall_cons; [|apply Forall_cons; [|apply Forall_nil]]]]];
    (right; eexists; (split; [vm_compute; reflexivity|]); eexists; (split; [vm_compute; reflexivity|]);
     vm_compute; reflexivity).
Qed.

(* the container grammar: a parser whose five leaves are all in it (str look-alike, Optional[int], List[str],
   Dict[str, Tuple[int, float]], Tuple[Optional[bool], ...]) — the hypotheses of dump_parse_roundtrip_simple hold *)
Definition simple_leaves : list (leaf * val) :=
  [({| lf_key := [115]%N; lf_ty := CStr; lf_def := VStr ka |}, VStr [49;101;51]%N);
   ({| lf_key := [110]%N; lf_ty := CUnion [CInt; CNone]; lf_def := VInt 7 |}, VInt 7);
   ({| lf_key := [108]%N; lf_ty := CList CStr; lf_def := VNone |}, VList [VStr [110;117;108;108]%N; VStr [97;58;32;98]%N]);
   ({| lf_key := [100]%N; lf_ty := CDict false (CTuple [CInt; CFloat]); lf_def := VNone |},
    VDict [(VStr ka, VTuple [VInt 1; VFloat (FFin 1 0)])]);
   ({| lf_key := [116]%N; lf_ty := CTupleVar (CUnion [CBool; CNone]); lf_def := VNone |}, VTuple [VBool true; VNone]);
   ({| lf_key := [111]%N; lf_ty := CUnion [CList CInt; CNone]; lf_def := VList [VInt 1] |}, VNone)].

Lemma roundtrip_simple_hyps_example :
  case_class id_yl yaml_keep simple_leaves = 0%N /\ forallb leaf_simple simple_leaves = true /\
  roundtrip id_yl no_plain some_text some_text dumper_table loader_table yaml_keep simple_leaves = Some (map snd simple_leaves).
Proof. vm_compute. auto. Qed.

(* dump(skip_default=True) by a parser with a required subcommand raises: there is no text to parse back *)
Lemma skip_default_subcommand_witness :
  dump_crashes_pinned true yaml_skipdef = true /\
  dump_crashes true yaml_skipdef = false /\
  top_class id_yl true None yaml_skipdef ex_leaves = 0%N /\
  roundtrip_top id_yl no_plain some_text some_text dumper_table loader_table true None yaml_skipdef ex_leaves <> None.
Proof. vm_compute. repeat split; auto; discriminate. Qed.

(* save() (skip_none) of `fit` whose only option x: Optional[int] = None holds None: the text is `fit: {}` and the re-parse
   does not select the subcommand *)
Definition fit_pre : str := [102;105;116;46]%N.
Definition fit_leaves : list (leaf * val) :=
  [({| lf_key := fit_pre ++ kx; lf_ty := CUnion [CInt; CNone]; lf_def := VNone |}, VNone)].
Lemma empty_subcommand_witness :
  top_class id_yl true (Some fit_pre) save_default fit_leaves = 14%N /\
  roundtrip_top id_yl no_plain some_text some_text dumper_table loader_table true (Some fit_pre) save_default fit_leaves = None /\
  top_class id_yl true (Some fit_pre) yaml_keep fit_leaves = 0%N.
Proof. vm_compute. auto. Qed.

(* C03 — the analysis applied to the IR regenerated from the source: everything here is either the generic
   soundness theorem (Proofs/C03ExnFlowProofs.v) instantiated, or a finite check evaluated by the kernel VM
   on the regenerated program. *)
From JV Require Import Lib.Base Model.C03ExnFlow Spec.C03ChannelSpec Gen.C03ExnIR Model.C03Instance Proofs.C03ExnFlowProofs.
From Coq Require Import List Bool NArith Lia.
Import ListNotations.
Open Scope N_scope.
Arguments run : simpl never.
Arguments escape_sites : simpl never.
Arguments finding_class : simpl never.
Arguments site_class : simpl never.
Arguments wit_runs : simpl never.

(* a call never ends abruptly *)
Lemma call_not_abrupt P x stk f : ~ exec P x stk (Call f) OAbrupt.
Proof. intro E. inversion E; subst. match goal with H : _ = OAbrupt |- _ => destruct o; discriminate H end. Qed.

Lemma ir_postfix : postfix ir_prog ir_nsites_nat ir_table = true.
Proof. vm_compute. reflexivity. Qed.

Lemma entries_ok_true : all_entries_ok true = true.
Proof. vm_compute. reflexivity. Qed.

Lemma entries_ok_false : all_entries_ok false = true.
Proof. vm_compute. reflexivity. Qed.

Lemma exec_in_escape_sites x e i : exec ir_prog x [] (Call e) (ORaise i) -> In i (escape_sites x e).
Proof. intro E. exact (escapes_sound_bounded _ _ _ x e i ir_postfix E). Qed.

Lemma all_entries_ok_spec x :
  all_entries_ok x = true -> forall e, In e ir_entries -> forall i, In i (escape_sites x e) -> site_ok x i = true.
Proof.
  unfold all_entries_ok. intros A e He i M.
  apply (proj1 (forallb_forall _ _) A) in He. exact (proj1 (forallb_forall _ _) He i M).
Qed.

(* every exception that leaves a parse entry point in ANY execution of the IR semantics *)
Lemma escaping_site_ok x e i :
  In e ir_entries -> exec ir_prog x [] (Call e) (ORaise i) -> site_ok x i = true.
Proof.
  intros He E. apply (all_entries_ok_spec x) with (e := e); [|exact He|exact (exec_in_escape_sites x e i E)].
  destruct x; [exact entries_ok_true|exact entries_ok_false].
Qed.

Theorem channel_guarded x e i :
  In e ir_entries -> exec ir_prog x [] (Call e) (ORaise i) ->
  finding_class x i = 0 -> channel_ok x (obs_of_class (site_class ir_prog i)) = true.
Proof.
  intros He E F. pose proof (escaping_site_ok x e i He E) as A.
  unfold site_ok in A. apply orb_true_iff in A. destruct A as [A|A]; [exact A|].
  rewrite F in A. discriminate A.
Qed.

(* ArgumentParser.error never returns; in exception mode it raises exactly ArgumentError; in exit mode what leaves it
   is the channel (exit 2, or exit 0) unless raised at a finding site (the usage formatter re-reading a broken default
   config file, finding 11) *)
Definition error_sites_ok (x : bool) : bool :=
  forallb (fun i => site_ok x i && (x || N.eqb (site_class ir_prog i) cls_ArgumentError)) (escape_sites x entry_error)
  && negb (let r := lookup ir_table x entry_error in a_norm r || a_abr r).

Lemma error_sites_ok_all : error_sites_ok true = true /\ error_sites_ok false = true.
Proof. split; vm_compute; reflexivity. Qed.

Lemma error_sites_ok_spec x :
  error_sites_ok x = true ->
  (forall i, In i (escape_sites x entry_error) ->
             site_ok x i = true /\ (x = false -> site_class ir_prog i = cls_ArgumentError))
  /\ (let r := lookup ir_table x entry_error in a_norm r || a_abr r) = false.
Proof.
  unfold error_sites_ok. intro A. apply andb_true_iff in A. destruct A as [A1 A2]. split.
  - intros i M. pose proof (proj1 (forallb_forall _ _) A1 i M) as B. cbv beta in B.
    apply andb_true_iff in B. destruct B as [B1 B2]. split; [exact B1|].
    intro X. subst x. apply N.eqb_eq. exact B2.
  - apply negb_true_iff in A2. exact A2.
Qed.

Theorem error_channel x o :
  exec ir_prog x [] (Call entry_error) o ->
  exists i, o = ORaise i /\
            (finding_class x i = 0 -> channel_ok x (obs_of_class (site_class ir_prog i)) = true) /\
            (x = false -> site_class ir_prog i = cls_ArgumentError).
Proof.
  intro E.
  assert (A : error_sites_ok x = true) by (destruct x; [exact (proj1 error_sites_ok_all)|exact (proj2 error_sites_ok_all)]).
  destruct (error_sites_ok_spec x A) as [A1 A2].
  destruct o as [| |i].
  - exfalso. exact (no_normal_return _ _ _ x entry_error ir_postfix A2 E).
  - exfalso. exact (call_not_abrupt _ _ _ _ E).
  - exists i. split; [reflexivity|].
    destruct (A1 i (exec_in_escape_sites x entry_error i E)) as [B1 B2]. split; [|exact B2].
    intro F. unfold site_ok in B1. apply orb_true_iff in B1. destruct B1 as [B1|B1]; [exact B1|].
    rewrite F in B1. discriminate B1.
Qed.

(* ---- findings: refuted by a concrete execution, or no longer escaping ------------------------------ *)
Definition finding_refuted (k : N) : Prop :=
  exists x e i, In e ir_entries /\ exec ir_prog x [] (Call e) (ORaise i) /\
                finding_class x i = k /\ channel_ok x (obs_of_class (site_class ir_prog i)) = false.

Definition finding_absent (k : N) : Prop :=
  forall x e i, In e ir_entries -> exec ir_prog x [] (Call e) (ORaise i) ->
                finding_class x i = k -> channel_ok x (obs_of_class (site_class ir_prog i)) = true.

Definition finding_status (k : N) (w : option witness) : Prop :=
  match w with Some _ => finding_refuted k | None => finding_absent k end.

Lemma wit_runs_exec x e i orc :
  wit_runs (x, e, i, orc) = true -> In e ir_entries /\ exec ir_prog x [] (Call e) (ORaise i).
Proof.
  unfold wit_runs. intro H. apply andb_true_iff in H. destruct H as [H1 H2].
  split.
  - apply existsb_exists in H1. destruct H1 as [e' [I Q]]. apply N.eqb_eq in Q. subst e'. exact I.
  - destruct (run ir_prog wit_fuel x [] (Call e) orc) as [[o orc']|] eqn:R; [|discriminate].
    destruct o; try discriminate. apply N.eqb_eq in H2. subst i0.
    eapply run_sound. exact R.
Qed.

Lemma finding_status_by_check k w :
  match w with Some w' => wit_refutes k w' | None => negb (finding_escapes k) end = true ->
  finding_status k w.
Proof.
  destruct w as [[[[x e] i] orc]|]; unfold finding_status; intro H.
  - unfold wit_refutes in H. apply andb_true_iff in H. destruct H as [H H3].
    apply andb_true_iff in H. destruct H as [H1 H2].
    destruct (wit_runs_exec _ _ _ _ H1) as [I E].
    exists x, e, i. repeat split; try assumption.
    + apply N.eqb_eq. exact H2.
    + apply negb_true_iff in H3. exact H3.
  - apply negb_true_iff in H. intros x e i He E F.
    destruct (channel_ok x (obs_of_class (site_class ir_prog i))) eqn:C; [reflexivity|exfalso].
    pose proof (exec_in_escape_sites x e i E) as M.
    assert (T : finding_escapes k = true); [|rewrite T in H; discriminate].
    unfold finding_escapes. apply existsb_exists. exists x. split; [destruct x; [right; left; reflexivity|left; reflexivity]|].
    apply existsb_exists. exists e. split; [exact He|].
    apply existsb_exists. exists i. split; [exact M|].
    unfold class_ok. rewrite C, F, N.eqb_refl. reflexivity.
Qed.

Lemma finding_1_status : finding_status 1 wit_finding_1.
Proof. apply finding_status_by_check. vm_compute. reflexivity. Qed.
Lemma finding_2_status : finding_status 2 wit_finding_2.
Proof. apply finding_status_by_check. vm_compute. reflexivity. Qed.
Lemma finding_3_status : finding_status 3 wit_finding_3.
Proof. apply finding_status_by_check. vm_compute. reflexivity. Qed.
Lemma finding_4_status : finding_status 4 wit_finding_4.
Proof. apply finding_status_by_check. vm_compute. reflexivity. Qed.
Lemma finding_5_status : finding_status 5 wit_finding_5.
Proof. apply finding_status_by_check. vm_compute. reflexivity. Qed.
Lemma finding_6_status : finding_status 6 wit_finding_6.
Proof. apply finding_status_by_check. vm_compute. reflexivity. Qed.
Lemma finding_7_status : finding_status 7 wit_finding_7.
Proof. apply finding_status_by_check. vm_compute. reflexivity. Qed.
Lemma finding_8_status : finding_status 8 wit_finding_8.
Proof. apply finding_status_by_check. vm_compute. reflexivity. Qed.
Lemma finding_9_status : finding_status 9 wit_finding_9.
Proof. apply finding_status_by_check. vm_compute. reflexivity. Qed.
Lemma finding_10_status : finding_status 10 wit_finding_10.
Proof. apply finding_status_by_check. vm_compute. reflexivity. Qed.
Lemma finding_11_status : finding_status 11 wit_finding_11.
Proof. apply finding_status_by_check. vm_compute. reflexivity. Qed.
Lemma finding_12_status : finding_status 12 wit_finding_12.
Proof. apply finding_status_by_check. vm_compute. reflexivity. Qed.
Lemma finding_13_status : finding_status 13 wit_finding_13.
Proof. apply finding_status_by_check. vm_compute. reflexivity. Qed.
Lemma finding_14_status : finding_status 14 wit_finding_14.
Proof. apply finding_status_by_check. vm_compute. reflexivity. Qed.
Lemma finding_15_status : finding_status 15 wit_finding_15.
Proof. apply finding_status_by_check. vm_compute. reflexivity. Qed.
Lemma finding_16_status : finding_status 16 wit_finding_16.
Proof. apply finding_status_by_check. vm_compute. reflexivity. Qed.
Lemma finding_17_status : finding_status 17 wit_finding_17.
Proof. apply finding_status_by_check. vm_compute. reflexivity. Qed.
Lemma finding_18_status : finding_status 18 wit_finding_18.
Proof. apply finding_status_by_check. vm_compute. reflexivity. Qed.
Lemma finding_19_status : finding_status 19 wit_finding_19.
Proof. apply finding_status_by_check. vm_compute. reflexivity. Qed.
Lemma finding_20_status : finding_status 20 wit_finding_20.
Proof. apply finding_status_by_check. vm_compute. reflexivity. Qed.
Lemma finding_21_status : finding_status 21 wit_finding_21.
Proof. apply finding_status_by_check. vm_compute. reflexivity. Qed.
Lemma finding_22_status : finding_status 22 wit_finding_22.
Proof. apply finding_status_by_check. vm_compute. reflexivity. Qed.
Lemma finding_23_status : finding_status 23 wit_finding_23.
Proof. apply finding_status_by_check. vm_compute. reflexivity. Qed.
Lemma finding_24_status : finding_status 24 wit_finding_24.
Proof. apply finding_status_by_check. vm_compute. reflexivity. Qed.
Lemma finding_25_status : finding_status 25 wit_finding_25.
Proof. apply finding_status_by_check. vm_compute. reflexivity. Qed.
Lemma finding_26_status : finding_status 26 wit_finding_26.
Proof. apply finding_status_by_check. vm_compute. reflexivity. Qed.
Lemma finding_27_status : finding_status 27 wit_finding_27.
Proof. apply finding_status_by_check. vm_compute. reflexivity. Qed.
Lemma finding_28_status : finding_status 28 wit_finding_28.
Proof. apply finding_status_by_check. vm_compute. reflexivity. Qed.
Lemma finding_29_status : finding_status 29 wit_finding_29.
Proof. apply finding_status_by_check. vm_compute. reflexivity. Qed.
Lemma finding_30_status : finding_status 30 wit_finding_30.
Proof. apply finding_status_by_check. vm_compute. reflexivity. Qed.

(* ---- non-vacuity: the documented channel IS reached, inside the guard, in both modes ----------------- *)
Definition channel_reached (x : bool) : Prop :=
  exists e i, In e ir_entries /\ exec ir_prog x [] (Call e) (ORaise i) /\ finding_class x i = 0 /\
              channel_ok x (obs_of_class (site_class ir_prog i)) = true.

Lemma channel_reached_by_check x e i orc :
  wit_in_guard (x, e, i, orc) = true -> channel_reached x.
Proof.
  unfold wit_in_guard. intro H. apply andb_true_iff in H. destruct H as [H H3].
  apply andb_true_iff in H. destruct H as [H1 H2].
  destruct (wit_runs_exec _ _ _ _ H1) as [I E].
  exists e, i. repeat split; try assumption. apply N.eqb_eq. exact H2.
Qed.

Definition reached_status (x : bool) (w : option witness) : Prop :=
  match w with Some _ => channel_reached x | None => False end.

Lemma reached_status_by_check x w :
  match w with Some (x', e, i, orc) => Bool.eqb x x' && wit_in_guard (x', e, i, orc) | None => false end = true ->
  reached_status x w.
Proof.
  destruct w as [[[[x' e] i] orc]|]; unfold reached_status; [|discriminate]. intro H.
  apply andb_true_iff in H. destruct H as [H1 H2]. apply Bool.eqb_prop in H1. subst x'.
  eapply channel_reached_by_check. exact H2.
Qed.

Lemma channel_reached_false : reached_status false wit_channel_false.
Proof. apply reached_status_by_check. vm_compute. reflexivity. Qed.
Lemma channel_reached_true : reached_status true wit_channel_true.
Proof. apply reached_status_by_check. vm_compute. reflexivity. Qed.

(* the generic soundness theorem, restated with the bound, for Properties/C03.v *)
Theorem analysis_sound P nsites T :
  postfix P nsites T = true ->
  forall x f i, exec P x [] (Call f) (ORaise i) -> In i (members nsites (escapes P nsites T x f)).
Proof. intros HP x f i E. exact (escapes_sound_bounded P nsites T x f i HP E). Qed.

Theorem oracle_run_sound P fuel x stk s orc o orc' :
  run P fuel x stk s orc = Some (o, orc') -> exec P x stk s o.
Proof. exact (run_sound P fuel x stk s orc o orc'). Qed.

(* C09 — lemmas about the parser state machine Model.C09ParserState.

   1. frame lemma: the answer of a call is a function of what the call READS from the carried state
      (pending request of the target parser; the acquired --print_shtab action if the call names the key;
      the class-level help `skip` entry if the call asks for a class help) — not of the process-wide context
      variables, not of stored argv, not of any other parser's state;
   2. hence: inside the guard the answer after ANY state equals the answer on a fresh parser;
   3. invariants of the repaired variants: with fx_pc no request is ever pending after a call, with fx_hs the
      class-level dict is never written; so the guard classes can only be met when the repair is absent, and the
      fully repaired machine is history independent without any guard. *)
From JV Require Import Lib.Base Model.C09ParserState.

(* ------------------------------------------------------------------------------------------------ *)
(* the fresh view *)
Definition cv_none : cvars := {| cv_pk := None; cv_sap := None; cv_dk := None |}.
Definition v0 : view :=
  {| v_pending := PNone; v_shtab := false; v_help_skip := false; v_ddef := None; v_cv := cv_none |}.

Lemma nth_repeat_same {A} (x : A) n i : nth i (repeat x n) x = x.
Proof. revert i; induction n; destruct i; simpl; auto. Qed.

Lemma view_of_init n i : view_of (init n) i = v0.
Proof. unfold view_of, get_ps, init; simpl. rewrite nth_repeat_same. reflexivity. Qed.

Lemma step_out fx Ds s o :
  snd (step fx Ds s o) = fst (exec fx (decl_of Ds (op_p o)) (op_p o) (view_of s (op_p o)) (op_k o)).
Proof. unfold step. destruct (exec _ _ _ _ _); reflexivity. Qed.

Lemma step_state fx Ds s o :
  fst (step fx Ds s o) =
  commit s (op_p o) (snd (exec fx (decl_of Ds (op_p o)) (op_p o) (view_of s (op_p o)) (op_k o))).
Proof. unfold step. destruct (exec _ _ _ _ _); reflexivity. Qed.

(* ------------------------------------------------------------------------------------------------ *)
(* consume / parse_common do not read the context variables *)
Definition opt_sim (a b : option (out * pending * cvars)) : Prop :=
  match a, b with
  | None, None => True
  | Some (o, p, _), Some (o', p', _) => o = o' /\ p = p'
  | _, _ => False
  end.

Lemma consume_sim D pend has sel unk nested empty dp cv cv2 :
  opt_sim (consume D pend has sel unk nested empty dp cv) (consume D pend has sel unk nested empty dp cv2).
Proof.
  unfold consume, opt_sim.
  destruct pend as [|key fl|fl]; auto.
  destruct key as [x|].
  - destruct (has x); auto.
  - destruct (unk || _); auto.
Qed.

Lemma consume_pnone D has sel unk nested empty dp cv : consume D PNone has sel unk nested empty dp cv = None.
Proof. reflexivity. Qed.

Ltac consume_cases cv cv2 H :=
  match goal with
  | |- context [consume ?D ?p ?h ?s ?u ?n ?e ?dp cv] =>
      pose proof (consume_sim D p h s u n e dp cv cv2) as H;
      destruct (consume D p h s u n e dp cv) as [[[?o1 ?p1] ?c1]|];
      destruct (consume D p h s u n e dp cv2) as [[[?o2 ?p2] ?c2]|];
      simpl in H; try contradiction
  end.

Definition pc_core (r : out * pending * cvars) : out * pending := fst r.

Lemma parse_common_sim D pend ch c cv cv2 :
  pc_core (parse_common D pend ch c cv) = pc_core (parse_common D pend ch c cv2).
Proof.
  unfold parse_common, pc_core.
  destruct (d_subs D) as [|sp sps]; destruct (selected D ch c) as [x|].
  all: try (destruct (d_subreq D); [reflexivity|]).
  all: consume_cases cv cv2 H.
  all: try (destruct H; subst; reflexivity).
  all: reflexivity.
Qed.

Lemma parse_common_pnone D ch c cv : snd (fst (parse_common D PNone ch c cv)) = PNone.
Proof.
  unfold parse_common.
  destruct (d_subs D) as [|sp sps]; destruct (selected D ch c) as [x|].
  all: try (destruct (d_subreq D); [reflexivity|]).
  all: rewrite consume_pnone; reflexivity.
Qed.

(* ------------------------------------------------------------------------------------------------ *)
(* the key print_shtab is the only place where the acquired action is read *)
Lemma apply_item_noshtab fx dd D b b' c k v :
  str_eqb k s_print_shtab = false -> apply_item fx dd D b c k v = apply_item fx dd D b' c k v.
Proof. intro H. unfold apply_item. rewrite H. reflexivity. Qed.

Lemma apply_items_noshtab fx dd D b b' u items : forall c,
  items_mention_shtab items = false ->
  apply_items (apply_item fx dd D b) u c items = apply_items (apply_item fx dd D b') u c items.
Proof.
  induction items as [|[k v] r IH]; intros c H; simpl; [reflexivity|].
  unfold items_mention_shtab in H; simpl in H. apply orb_false_iff in H. destruct H as [Hk Hr].
  rewrite (apply_item_noshtab fx dd D b b' c k v Hk).
  destruct (apply_item fx dd D b' c k v); try reflexivity.
  - apply IH; exact Hr.
  - destruct u; apply IH; exact Hr.
Qed.

Lemma existsb_filter_false {A} (f p : A -> bool) : forall l, existsb f l = false -> existsb f (filter p l) = false.
Proof.
  induction l as [|x l IH]; simpl; intro H; [reflexivity|].
  apply orb_false_iff in H. destruct H as [Hx Hl].
  destruct (p x); simpl; [rewrite Hx; simpl|]; apply IH; exact Hl.
Qed.

Lemma existsb_bfs_false (f : str * str -> bool) D items :
  existsb f items = false -> existsb f (bfs D items) = false.
Proof.
  intro H. unfold bfs. rewrite existsb_app.
  rewrite !existsb_filter_false by exact H. reflexivity.
Qed.

(* the stored default of d is read only where a value for d is adapted, and only by the pinned code *)
Lemma d_assign_dd fx dd dd2 ip c fa fb bad :
  fx_dd fx = true -> d_assign fx dd ip c fa fb bad = d_assign fx dd2 ip c fa fb bad.
Proof. intro F. unfold d_assign. rewrite F. reflexivity. Qed.

Lemma apply_local_dd fx dd dd2 pd prefix c k v :
  (fx_dd fx = true \/ dd = dd2 \/ key_is_d k = false) ->
  apply_local fx dd pd prefix c k v = apply_local fx dd2 pd prefix c k v.
Proof.
  intros [F|[E|K]].
  - unfold apply_local. destruct (split_dot k) as [h rest].
    destruct (pd_dc pd && str_eqb h s_d); [|reflexivity].
    destruct rest as [param|].
    + destruct (str_eqb param s_a); [apply d_assign_dd; exact F|].
      destruct (str_eqb param s_b); apply d_assign_dd; exact F.
    + destruct (split_comma v []) as [|fa [|fb [|x y]]]; try reflexivity. apply d_assign_dd; exact F.
  - subst; reflexivity.
  - unfold apply_local, key_is_d in *. destruct (split_dot k) as [h rest]. simpl in K.
    rewrite K, andb_false_r. reflexivity.
Qed.

Lemma apply_item_dd fx dd dd2 D b c k v :
  (fx_dd fx = true \/ dd = dd2 \/ key_is_d k = false) ->
  apply_item fx dd D b c k v = apply_item fx dd2 D b c k v.
Proof.
  intro H. unfold apply_item. destruct (str_eqb k s_print_shtab); [reflexivity|].
  rewrite (apply_local_dd fx dd dd2 (d_root D) [] c k v H). reflexivity.
Qed.

Lemma apply_items_dd fx dd dd2 D b u items : forall c,
  (fx_dd fx = true \/ dd = dd2 \/ items_mention_d items = false) ->
  apply_items (apply_item fx dd D b) u c items = apply_items (apply_item fx dd2 D b) u c items.
Proof.
  induction items as [|[k v] r IH]; intros c H; simpl; [reflexivity|].
  assert (Hk : fx_dd fx = true \/ dd = dd2 \/ key_is_d k = false).
  { destruct H as [H|[H|H]]; auto. unfold items_mention_d in H; simpl in H.
    apply orb_false_iff in H. tauto. }
  assert (Hr : fx_dd fx = true \/ dd = dd2 \/ items_mention_d r = false).
  { destruct H as [H|[H|H]]; auto. unfold items_mention_d in H; simpl in H.
    apply orb_false_iff in H. tauto. }
  rewrite (apply_item_dd fx dd dd2 D b c k v Hk).
  destruct (apply_item fx dd2 D b c k v); try reflexivity.
  - apply IH; exact Hr.
  - destruct u; apply IH; exact Hr.
Qed.

(* ------------------------------------------------------------------------------------------------ *)
(* the scan of the root argv: everything but the written context variables and the written help_skip is
   independent of the context variables carried in, and of help_skip unless a class help is asked for *)
Definition so_core (a : scan_out) :=
  (so_res a, so_c a, so_unk a, so_pend a, so_chosen a, so_subargs a, so_subkw a).

(* parse_kwargs is the one context variable the scan READS (at the sub-command token): both sides must have the
   same value in it — which exec_args guarantees by setting it on entry, whatever was carried in *)
Ltac pk_tac := first [ assumption | (destruct (pd_dc _ && key_is_d _); simpl; first [reflexivity | assumption]) ].

Lemma scan_root_sim fx D i : forall toks dd dd2 hs hs2 c unk pend cv cv2,
  (fx_hs fx = true \/ hs = hs2 \/ existsb tok_is_clshelp toks = false) ->
  (fx_dd fx = true \/ dd = dd2 \/ existsb tok_mentions_d toks = false) ->
  cv_pk cv = cv_pk cv2 ->
  so_core (scan_root fx dd D i hs toks c unk pend cv) = so_core (scan_root fx dd2 D i hs2 toks c unk pend cv2).
Proof.
  induction toks as [|t r IH]; intros dd dd2 hs hs2 c unk pend cv cv2 H G P; [reflexivity|].
  assert (Hr : fx_hs fx = true \/ hs = hs2 \/ existsb tok_is_clshelp r = false).
  { destruct H as [H|[H|H]]; auto. simpl in H. apply orb_false_iff in H. tauto. }
  assert (Gr : fx_dd fx = true \/ dd = dd2 \/ existsb tok_mentions_d r = false).
  { destruct G as [G|[G|G]]; auto. simpl in G. apply orb_false_iff in G. tauto. }
  destruct t as [n v|n|items|n]; simpl.
  - (* TOpt *)
    destruct (str_eqb n s_print_config && pd_cfg (d_root D)).
    { destruct (parse_flags _ _); [apply IH; assumption|reflexivity]. }
    assert (Gn : fx_dd fx = true \/ dd = dd2 \/ key_is_d n = false).
    { destruct G as [G|[G|G]]; auto. simpl in G. apply orb_false_iff in G. tauto. }
    destruct (is_suffix_help n) as [h|] eqn:Eh.
    + destruct (find_cls h (d_root D)) as [co|].
      * assert (Hsk : (if fx_hs fx then co_callable co else hs || co_callable co) =
                      (if fx_hs fx then co_callable co else hs2 || co_callable co)).
        { destruct H as [H|[H|H]].
          - rewrite H; reflexivity.
          - subst; reflexivity.
          - simpl in H. rewrite Eh in H. discriminate. }
        rewrite Hsk.
        destruct (cls_for_help _ _ v); [|reflexivity].
        destruct r; reflexivity.
      * rewrite (apply_local_dd fx dd dd2 (d_root D) [] c n v Gn).
        destruct (apply_local _ _ _ _ _ _ _); try reflexivity; apply IH; pk_tac.
    + rewrite (apply_local_dd fx dd dd2 (d_root D) [] c n v Gn).
      destruct (apply_local _ _ _ _ _ _ _); try reflexivity; apply IH; pk_tac.
  - (* TFlag *)
    destruct (str_eqb n s_help); [reflexivity|].
    destruct (str_eqb n s_print_config && pd_cfg (d_root D)); [apply IH; assumption|].
    destruct (is_suffix_help n) as [h|] eqn:Eh; [|apply IH; assumption].
    destruct (find_cls h (d_root D)) as [co|]; [|apply IH; assumption].
    destruct (co_callable co); [reflexivity|].
    assert (Hsk : (if fx_hs fx then false else hs) = (if fx_hs fx then false else hs2)).
    { destruct H as [H|[H|H]].
      - rewrite H; reflexivity.
      - subst; reflexivity.
      - simpl in H. rewrite Eh in H. discriminate. }
    rewrite Hsk.
    destruct (tl r); reflexivity.
  - (* TCfg *)
    destruct (pd_cfg (d_root D)); [|apply IH; assumption].
    assert (Gi : fx_dd fx = true \/ dd = dd2 \/ items_mention_d items = false).
    { destruct G as [G|[G|G]]; auto. simpl in G. apply orb_false_iff in G. tauto. }
    assert (Gb : fx_dd fx = true \/ dd = dd2 \/ items_mention_d (bfs D items) = false).
    { destruct Gi as [Gi|[Gi|Gi]]; auto. right; right. apply existsb_bfs_false. exact Gi. }
    rewrite (apply_items_dd fx dd dd2 D (negb (fx_sh fx)) UKeep (bfs D items) c Gb).
    rewrite (apply_items_dd fx dd dd2 D (negb (fx_sh fx)) UKeep (bfs D items) ic0 Gb).
    destruct (apply_items _ UKeep c (bfs D items)) as [c'|c']; [|reflexivity].
    consume_cases cv cv2 Hc.
    + destruct Hc; subst; reflexivity.
    + apply IH; assumption.
  - (* TPos *)
    destruct (d_subs D) as [|sp sps] eqn:Es; [apply IH; assumption|].
    destruct (alookup n (sp :: sps)); [|reflexivity].
    destruct (scan_sub _ _ _ _ _ _ _) as [[[res c'] unk'] pend']. unfold so_core; simpl. rewrite P. reflexivity.
Qed.

(* with fx_hs the scan never writes help_skip *)
Lemma scan_root_hs_kept fx dd D i : forall toks hs c unk pend cv,
  fx_hs fx = true -> so_hs (scan_root fx dd D i hs toks c unk pend cv) = hs.
Proof.
  induction toks as [|t r IH]; intros hs c unk pend cv F; [reflexivity|].
  destruct t as [n v|n|items|n]; simpl.
  - destruct (str_eqb n s_print_config && pd_cfg (d_root D)).
    { destruct (parse_flags _ _); [apply IH; exact F|reflexivity]. }
    destruct (is_suffix_help n) as [h|].
    + destruct (find_cls h (d_root D)) as [co|].
      * rewrite F. destruct (cls_for_help _ _ v); [|reflexivity]. destruct r; reflexivity.
      * destruct (apply_local _ _ _ _ _ _ _); try reflexivity; apply IH; exact F.
    + destruct (apply_local _ _ _ _ _ _ _); try reflexivity; apply IH; exact F.
  - destruct (str_eqb n s_help); [reflexivity|].
    destruct (str_eqb n s_print_config && pd_cfg (d_root D)); [apply IH; exact F|].
    destruct (is_suffix_help n) as [h|]; [|apply IH; exact F].
    destruct (find_cls h (d_root D)) as [co|]; [|apply IH; exact F].
    destruct (co_callable co); [reflexivity|]. destruct (tl r); reflexivity.
  - destruct (pd_cfg (d_root D)); [|apply IH; exact F].
    destruct (apply_items _ UKeep c (bfs D items)) as [c'|c']; [|reflexivity].
    destruct (consume _ _ _ _ _ _ _ _ _) as [[[o1 p1] c1]|]; [reflexivity|apply IH; exact F].
  - destruct (d_subs D) as [|sp sps] eqn:Es; [apply IH; exact F|].
    destruct (alookup n (sp :: sps)); [|reflexivity].
    destruct (scan_sub _ _ _ _ _ _ _) as [[[res c'] unk'] pend']. reflexivity.
Qed.

(* ------------------------------------------------------------------------------------------------ *)
(* what a call reads *)
Definition reads_clean (fx : fixes) (v : view) (k : opk) : bool :=
  is_pnone (v_pending v) &&
  negb (negb (fx_sh fx) && v_shtab v && op_mentions_shtab k) &&
  negb (negb (fx_hs fx) && v_help_skip v && op_has_clshelp k) &&
  negb (negb (fx_dd fx) && is_some (v_ddef v) && op_mentions_d k).

Definition args_out (D : decl) (so : scan_out) : out :=
  match so_res so with
  | SStop o => o
  | SGo => if so_unk so then OErr EPre
           else fst (fst (parse_common D (so_pend so) (so_chosen so) (so_c so) (so_cv so)))
  end.

Definition args_scan fx D i v kw argv :=
  scan_root fx (v_ddef v) D i (v_help_skip v) argv ic0 false (v_pending v)
            {| cv_pk := Some kw; cv_sap := Some (LP i []); cv_dk := cv_dk (v_cv v) |}.

Lemma exec_args_out fx D i v kw argv :
  fst (exec_args fx D i v kw argv) =
  with_subkw (so_subkw (args_scan fx D i v kw argv)) (args_out D (args_scan fx D i v kw argv)).
Proof.
  unfold exec_args, args_out, args_scan.
  destruct (so_res _); [|reflexivity].
  destruct (so_unk _); [reflexivity|].
  destruct (parse_common _ _ _ _ _) as [[o p] c]. reflexivity.
Qed.

Lemma args_out_core D a b :
  so_core a = so_core b ->
  with_subkw (so_subkw a) (args_out D a) = with_subkw (so_subkw b) (args_out D b).
Proof.
  unfold so_core, args_out. intro H.
  assert (E6 : so_subkw a = so_subkw b) by congruence. rewrite E6.
  assert (E1 : so_res a = so_res b) by congruence.
  assert (E2 : so_c a = so_c b) by congruence.
  assert (E3 : so_unk a = so_unk b) by congruence.
  assert (E4 : so_pend a = so_pend b) by congruence.
  assert (E5 : so_chosen a = so_chosen b) by congruence.
  rewrite E1, E2, E3, E4, E5.
  destruct (so_res b); [|reflexivity].
  destruct (so_unk b); [reflexivity|].
  pose proof (parse_common_sim D (so_pend b) (so_chosen b) (so_c b) (so_cv a) (so_cv b)) as P.
  unfold pc_core in P. rewrite P. reflexivity.
Qed.

Lemma exec_items_frame fx D v u items :
  is_pnone (v_pending v) = true ->
  (fx_sh fx = true \/ v_shtab v = false \/ items_mention_shtab items = false) ->
  (fx_dd fx = true \/ v_ddef v = None \/ items_mention_d items = false) ->
  fst (exec_items fx D v u items) = fst (exec_items fx D v0 u items).
Proof.
  intros Hp Hs Hd. unfold exec_items.
  assert (Ep : v_pending v = PNone) by (destruct (v_pending v); [reflexivity|discriminate|discriminate]).
  rewrite Ep. change (v_pending v0) with PNone. change (v_shtab v0) with false. change (v_ddef v0) with (@None dv).
  assert (Hd' : fx_dd fx = true \/ v_ddef v = None \/ items_mention_d (bfs D items) = false).
  { destruct Hd as [Hd|[Hd|Hd]]; auto. right; right. apply existsb_bfs_false. exact Hd. }
  assert (E : apply_items (apply_item fx (v_ddef v) D (v_shtab v && negb (fx_sh fx))) u ic0 (bfs D items) =
              apply_items (apply_item fx None D (false && negb (fx_sh fx))) u ic0 (bfs D items)).
  { rewrite (apply_items_dd fx (v_ddef v) None D (v_shtab v && negb (fx_sh fx)) u (bfs D items) ic0 Hd').
    destruct Hs as [F|[F|F]].
    - rewrite F. rewrite !andb_false_r. reflexivity.
    - rewrite F. reflexivity.
    - apply apply_items_noshtab. apply existsb_bfs_false. exact F. }
  rewrite E. clear E.
  destruct (apply_items _ u ic0 (bfs D items)) as [c|c]; [|reflexivity].
  pose proof (parse_common_sim D PNone None c (v_cv v) (v_cv v0)) as P. unfold pc_core in P.
  destruct (parse_common D PNone None c (v_cv v)) as [[o p] cv'].
  destruct (parse_common D PNone None c (v_cv v0)) as [[o2 p2] cv2].
  simpl in *. congruence.
Qed.

Lemma exec_frame fx D i v k :
  reads_clean fx v k = true -> fst (exec fx D i v k) = fst (exec fx D i v0 k).
Proof.
  unfold reads_clean. intro H.
  apply andb_true_iff in H. destruct H as [H H4].
  apply andb_true_iff in H. destruct H as [H H3]. apply andb_true_iff in H. destruct H as [H1 H2].
  apply negb_true_iff in H2. apply negb_true_iff in H3. apply negb_true_iff in H4.
  assert (S2 : forall items, op_mentions_shtab k = items_mention_shtab items ->
               fx_sh fx = true \/ v_shtab v = false \/ items_mention_shtab items = false).
  { intros items E. rewrite E in H2.
    destruct (fx_sh fx); [left; reflexivity|]. destruct (v_shtab v); [|right; left; reflexivity].
    right; right. exact H2. }
  assert (S4 : forall b, op_mentions_d k = b -> fx_dd fx = true \/ v_ddef v = None \/ b = false).
  { intros b E. rewrite E in H4.
    destruct (fx_dd fx); [left; reflexivity|]. destruct (v_ddef v); [|right; left; reflexivity].
    right; right. exact H4. }
  assert (A : forall kw argv, op_has_clshelp k = existsb tok_is_clshelp argv ->
              op_mentions_d k = existsb tok_mentions_d argv ->
              fst (exec_args fx D i v kw argv) = fst (exec_args fx D i v0 kw argv)).
  { intros kw argv E3 E4.
    rewrite !exec_args_out. apply args_out_core. unfold args_scan.
    assert (Ep : v_pending v = PNone) by (destruct (v_pending v); [reflexivity|discriminate|discriminate]).
    rewrite Ep. simpl v_pending. simpl v_help_skip. simpl v_ddef.
    apply scan_root_sim.
    + rewrite E3 in H3.
      destruct (fx_hs fx); [left; reflexivity|]. destruct (v_help_skip v); [|right; left; reflexivity].
      right; right. exact H3.
    + apply S4. exact E4.
    + reflexivity. }
  destruct k as [argv|items|items|items| |d cr sn sd sv|d cr| |env dflt argv].
  - (* parse_args *) apply A; reflexivity.
  - apply exec_items_frame; [exact H1|apply S2; reflexivity|apply S4; reflexivity].
  - apply exec_items_frame; [exact H1|apply S2; reflexivity|apply S4; reflexivity].
  - apply exec_items_frame; [exact H1|apply S2; reflexivity|apply S4; reflexivity].
  - reflexivity.
  - simpl. destruct (cr && negb sv); reflexivity.
  - simpl. destruct cr; reflexivity.
  - reflexivity.
  - (* parse_args with keywords *) apply A; reflexivity.
Qed.

Lemma guard_reads_clean fx s o :
  in_guard fx s o = true -> reads_clean fx (view_of s (op_p o)) (op_k o) = true.
Proof.
  unfold in_guard, guard_class, reads_clean, view_of; simpl.
  destruct (is_pnone _); simpl; [|discriminate].
  destruct (negb (fx_sh fx) && _ && op_mentions_shtab _); simpl; [discriminate|].
  destruct (negb (fx_hs fx) && _ && op_has_clshelp _); simpl; [discriminate|].
  destruct (negb (fx_dd fx) && _ && op_mentions_d _); simpl; [discriminate|reflexivity].
Qed.

(* ---- 2. inside the guard the answer after any state is the answer of a fresh parser ---- *)
Lemma guarded_state_independent fx Ds n s o :
  in_guard fx s o = true -> snd (step fx Ds s o) = snd (step fx Ds (init n) o).
Proof.
  intro G. rewrite !step_out. rewrite view_of_init.
  apply exec_frame. apply guard_reads_clean. exact G.
Qed.

Lemma guarded_history_independent fx Ds n ops o :
  in_guard fx (run fx Ds (init n) ops) o = true ->
  snd (step fx Ds (run fx Ds (init n) ops) o) = snd (step fx Ds (init n) o).
Proof. apply guarded_state_independent. Qed.

(* ------------------------------------------------------------------------------------------------ *)
(* 3. invariants of the repaired variants *)
Definition no_pending (s : state) : Prop := Forall (fun ps => ps_pending ps = PNone) (st_ps s).
Definition no_ddef (s : state) : Prop := Forall (fun ps => ps_ddef ps = None) (st_ps s).

Lemma Forall_set_nth {A} (P : A -> Prop) x : forall l i, Forall P l -> P x -> Forall P (set_nth i x l).
Proof.
  induction l as [|y l IH]; intros i Hl Hx; destruct i; simpl; try constructor;
    inversion Hl; subst; auto.
Qed.

Lemma Forall_nth_default {A} (P : A -> Prop) d : forall l i, Forall P l -> P d -> P (nth i l d).
Proof.
  induction l as [|y l IH]; intros i Hl Hd; destruct i; simpl; auto; inversion Hl; subst; auto.
Qed.

Lemma exec_items_pending fx D v u items :
  v_pending v = PNone -> w_pending (snd (exec_items fx D v u items)) = PNone.
Proof.
  intro E. unfold exec_items.
  destruct (apply_items _ u ic0 (bfs D items)) as [c|c]; [|exact E].
  rewrite E. pose proof (parse_common_pnone D None c (v_cv v)) as P.
  destruct (parse_common D PNone None c (v_cv v)) as [[o p] cv']. simpl in *. exact P.
Qed.

Lemma exec_pending_pc fx D i v k :
  fx_pc fx = true -> v_pending v = PNone -> w_pending (snd (exec fx D i v k)) = PNone.
Proof.
  intros F E.
  assert (A : forall kw argv, w_pending (snd (exec_args fx D i v kw argv)) = PNone).
  { intros kw argv. unfold exec_args. rewrite F.
    destruct (so_res _); [|reflexivity].
    destruct (so_unk _); [reflexivity|].
    destruct (parse_common _ _ _ _ _) as [[o p] c]. reflexivity. }
  destruct k as [argv|items|items|items| |d cr sn sd sv|d cr| |env dflt argv]; simpl; try apply A.
  - apply exec_items_pending; exact E.
  - apply exec_items_pending; exact E.
  - apply exec_items_pending; exact E.
  - exact E.
  - destruct (cr && negb sv); exact E.
  - destruct cr; exact E.
  - exact E.
Qed.

Lemma no_pending_init n : no_pending (init n).
Proof. unfold no_pending, init; simpl. induction n; simpl; constructor; auto. Qed.

Lemma step_no_pending fx Ds s o :
  fx_pc fx = true -> no_pending s -> no_pending (fst (step fx Ds s o)).
Proof.
  intros F Hs. rewrite step_state. unfold no_pending, commit; simpl.
  apply Forall_set_nth; [exact Hs|]. simpl.
  apply exec_pending_pc; [exact F|].
  unfold view_of, get_ps; simpl. apply Forall_nth_default; [exact Hs|reflexivity].
Qed.

Lemma run_no_pending fx Ds : forall ops s,
  fx_pc fx = true -> no_pending s -> no_pending (run fx Ds s ops).
Proof.
  unfold run. induction ops as [|o r IH]; intros s F Hs; simpl; [exact Hs|].
  apply IH; [exact F|]. apply step_no_pending; assumption.
Qed.

(* with fx_dd nothing is ever stored in the action's dict *)
Lemma exec_ddef_kept fx D i v k :
  fx_dd fx = true -> w_ddef (snd (exec fx D i v k)) = v_ddef v.
Proof.
  intro F.
  assert (A : forall kw argv, w_ddef (snd (exec_args fx D i v kw argv)) = v_ddef v).
  { intros kw argv. unfold exec_args, dd_after. rewrite F.
    destruct (so_res _); [|reflexivity].
    destruct (so_unk _); [reflexivity|].
    destruct (parse_common _ _ _ _ _) as [[o p] c]. reflexivity. }
  destruct k as [argv|items|items|items| |d cr sn sd sv|d cr| |env dflt argv]; simpl; try reflexivity; try apply A.
  - unfold exec_items, dd_after. rewrite F. destruct (apply_items _ _ _ _) as [c1|c1]; [|reflexivity].
    destruct (parse_common _ _ _ _ _) as [[o p] cv']. reflexivity.
  - unfold exec_items, dd_after. rewrite F. destruct (apply_items _ _ _ _) as [c1|c1]; [|reflexivity].
    destruct (parse_common _ _ _ _ _) as [[o p] cv']. reflexivity.
  - unfold exec_items, dd_after. rewrite F. destruct (apply_items _ _ _ _) as [c1|c1]; [|reflexivity].
    destruct (parse_common _ _ _ _ _) as [[o p] cv']. reflexivity.
  - unfold dd_checked. rewrite F.
    destruct (cr && negb sv); [reflexivity|]. destruct sv; reflexivity.
  - unfold dd_checked. rewrite F. destruct cr; reflexivity.
Qed.

Lemma no_ddef_init n : no_ddef (init n).
Proof. unfold no_ddef, init; simpl. induction n; simpl; constructor; auto. Qed.

Lemma step_no_ddef fx Ds s o :
  fx_dd fx = true -> no_ddef s -> no_ddef (fst (step fx Ds s o)).
Proof.
  intros F Hs. rewrite step_state. unfold no_ddef, commit; simpl.
  apply Forall_set_nth; [exact Hs|]. simpl.
  rewrite exec_ddef_kept by exact F.
  unfold view_of, get_ps; simpl. apply Forall_nth_default; [exact Hs|reflexivity].
Qed.

Lemma run_no_ddef fx Ds : forall ops s,
  fx_dd fx = true -> no_ddef s -> no_ddef (run fx Ds s ops).
Proof.
  unfold run. induction ops as [|o r IH]; intros s F Hs; simpl; [exact Hs|].
  apply IH; [exact F|]. apply step_no_ddef; assumption.
Qed.

Lemma exec_help_skip_kept fx D i v k :
  fx_hs fx = true -> w_help_skip (snd (exec fx D i v k)) = v_help_skip v.
Proof.
  intro F.
  assert (A : forall kw argv, w_help_skip (snd (exec_args fx D i v kw argv)) = v_help_skip v).
  { intros kw argv. unfold exec_args.
    pose proof (scan_root_hs_kept fx (v_ddef v) D i argv (v_help_skip v) ic0 false (v_pending v)
                  {| cv_pk := Some kw; cv_sap := Some (LP i []); cv_dk := cv_dk (v_cv v) |} F) as K.
    destruct (so_res _); [|exact K].
    destruct (so_unk _); [exact K|].
    destruct (parse_common _ _ _ _ _) as [[o p] c]. exact K. }
  destruct k as [argv|items|items|items| |d cr sn sd sv|d cr| |env dflt argv]; simpl; try reflexivity; try apply A.
  - unfold exec_items. destruct (apply_items _ _ _ _) as [c1|c1]; [|reflexivity].
    destruct (parse_common _ _ _ _ _) as [[o p] cv']. reflexivity.
  - unfold exec_items. destruct (apply_items _ _ _ _) as [c1|c1]; [|reflexivity].
    destruct (parse_common _ _ _ _ _) as [[o p] cv']. reflexivity.
  - unfold exec_items. destruct (apply_items _ _ _ _) as [c1|c1]; [|reflexivity].
    destruct (parse_common _ _ _ _ _) as [[o p] cv']. reflexivity.
  - destruct (cr && negb sv); reflexivity.
  - destruct cr; reflexivity.
Qed.

Lemma run_help_skip_kept fx Ds : forall ops s,
  fx_hs fx = true -> st_help_skip (run fx Ds s ops) = st_help_skip s.
Proof.
  unfold run. induction ops as [|o r IH]; intros s F; simpl; [reflexivity|].
  rewrite IH by exact F. rewrite step_state. unfold commit; simpl.
  rewrite exec_help_skip_kept by exact F. reflexivity.
Qed.

(* a finding class can only be met on a tree that lacks the corresponding repair *)
Lemma class_needs_missing_repair fx Ds n ops o :
  match guard_class fx (run fx Ds (init n) ops) o with
  | 1%N => fx_pc fx = false
  | 2%N => fx_sh fx = false
  | 3%N => fx_hs fx = false
  | 4%N => fx_dd fx = false
  | _ => True
  end.
Proof.
  unfold guard_class.
  destruct (is_pnone _) eqn:E1; simpl.
  - destruct (fx_sh fx) eqn:E2; destruct (fx_hs fx) eqn:E3; destruct (fx_dd fx) eqn:E4; simpl;
      repeat match goal with |- context [if ?b then _ else _] => destruct b end; auto.
  - destruct (fx_pc fx) eqn:F; [|reflexivity]. exfalso.
    pose proof (run_no_pending fx Ds ops (init n) F (no_pending_init n)) as Hn.
    unfold no_pending in Hn.
    assert (P : ps_pending (get_ps (run fx Ds (init n) ops) (op_p o)) = PNone).
    { unfold get_ps. apply Forall_nth_default; [exact Hn|reflexivity]. }
    rewrite P in E1. discriminate.
Qed.

Lemma repaired_history_independent fx Ds n ops o :
  fx_pc fx = true -> fx_sh fx = true -> fx_hs fx = true -> fx_dd fx = true ->
  snd (step fx Ds (run fx Ds (init n) ops) o) = snd (step fx Ds (init n) o).
Proof.
  intros F1 F2 F3 F4. apply guarded_state_independent.
  pose proof (class_needs_missing_repair fx Ds n ops o) as C.
  unfold in_guard. unfold guard_class in *.
  rewrite F2, F3, F4 in *. simpl in *.
  destruct (is_pnone _); simpl in *; [reflexivity|congruence].
Qed.

Definition history_independent (fx : fixes) : Prop :=
  forall Ds n ops o, snd (step fx Ds (run fx Ds (init n) ops) o) = snd (step fx Ds (init n) o).

Lemma repaired_is_history_independent fx :
  fx_pc fx = true -> fx_sh fx = true -> fx_hs fx = true -> fx_dd fx = true -> history_independent fx.
Proof. intros F1 F2 F3 F4 Ds n ops o. apply repaired_history_independent; assumption. Qed.

(* ------------------------------------------------------------------------------------------------ *)
(* calls on other parsers leave a parser's own carried state alone: only the process-wide parts (context
   variables, class-level help dict) cross from one parser to another *)
Lemma nth_set_nth_other {A} (x d : A) : forall l i j, i <> j -> nth i (set_nth j x l) d = nth i l d.
Proof.
  induction l as [|y l IH]; intros i j N; destruct j; destruct i; simpl; try reflexivity; try congruence.
  apply IH. congruence.
Qed.

Lemma other_parser_untouched fx Ds s o i :
  op_p o <> i -> get_ps (fst (step fx Ds s o)) i = get_ps s i.
Proof.
  intro N. rewrite step_state. unfold get_ps, commit; simpl.
  apply nth_set_nth_other. congruence.
Qed.

(* ------------------------------------------------------------------------------------------------ *)
(* the keywords a sub-command parser is called with are READ from the parse_kwargs context variable
   (_actions.py:680); the scan never changes that variable before it reaches the sub-command token, so what is read
   is what the enclosing parse_args stored on entry — never what an earlier call left behind *)
Lemma scan_root_subkw fx D i : forall toks dd hs c unk pend cv,
  so_subkw (scan_root fx dd D i hs toks c unk pend cv) = None \/
  so_subkw (scan_root fx dd D i hs toks c unk pend cv) = cv_pk cv \/
  so_subkw (scan_root fx dd D i hs toks c unk pend cv) = Some (None, true).
Proof.
  assert (INNER : forall X : option (option bool * bool), forall cv,
            (X = None \/ X = cv_pk (sap_inner cv) \/ X = Some (None, true)) ->
            (X = None \/ X = cv_pk cv \/ X = Some (None, true))).
  { intros X cv [K|[K|K]]; [left; exact K|right; right; exact K|right; right; exact K]. }
  induction toks as [|t r IH]; intros dd hs c unk pend cv; [left; reflexivity|].
  destruct t as [n v|n|items|n]; simpl.
  - destruct (str_eqb n s_print_config && pd_cfg (d_root D)).
    { destruct (parse_flags _ _); [apply IH|left; reflexivity]. }
    destruct (is_suffix_help n) as [h|].
    + destruct (find_cls h (d_root D)) as [co|].
      * destruct (cls_for_help _ _ v); [|left; reflexivity]. destruct r; left; reflexivity.
      * destruct (apply_local _ _ _ _ _ _ _); try (left; reflexivity); [|apply IH].
        destruct (pd_dc _ && key_is_d _); [apply INNER|]; apply IH.
    + destruct (apply_local _ _ _ _ _ _ _); try (left; reflexivity); [|apply IH].
      destruct (pd_dc _ && key_is_d _); [apply INNER|]; apply IH.
  - destruct (str_eqb n s_help); [left; reflexivity|].
    destruct (str_eqb n s_print_config && pd_cfg (d_root D)); [apply IH|].
    destruct (is_suffix_help n) as [h|]; [|apply IH].
    destruct (find_cls h (d_root D)) as [co|]; [|apply IH].
    destruct (co_callable co); [left; reflexivity|]. destruct (tl r); left; reflexivity.
  - destruct (pd_cfg (d_root D)); [|apply IH].
    destruct (apply_items _ UKeep c (bfs D items)) as [c'|c']; [|left; reflexivity].
    destruct (consume _ _ _ _ _ _ _ _ _) as [[[o1 p1] c1]|]; [left; reflexivity|apply IH].
  - destruct (d_subs D) as [|sp sps] eqn:Es; [apply IH|].
    destruct (alookup n (sp :: sps)); [|left; reflexivity].
    destruct (scan_sub _ _ _ _ _ _ _) as [[[res c'] unk'] pend']. right; left; reflexivity.
Qed.

Lemma with_subkw_ook x o a b kw : with_subkw x o = OOk a b kw -> kw = x.
Proof. destruct o; simpl; intro E; try discriminate. inversion E. reflexivity. Qed.

Lemma exec_args_subkw fx D i v kw argv a b x :
  fst (exec_args fx D i v kw argv) = OOk a b (Some x) -> x = kw \/ x = (None, true).
Proof.
  rewrite exec_args_out. intro E. apply with_subkw_ook in E.
  destruct (scan_root_subkw fx D i argv (v_ddef v) (v_help_skip v) ic0 false (v_pending v)
              {| cv_pk := Some kw; cv_sap := Some (LP i []); cv_dk := cv_dk (v_cv v) |}) as [K|[K|K]];
    unfold args_scan in E; rewrite K in E; simpl in E; [discriminate|left; congruence|right; congruence].
Qed.

Lemma subcommand_keywords_are_this_calls fx Ds s p env dflt argv a b x :
  snd (step fx Ds s {| op_p := p; op_k := PArgsKw env dflt argv |}) = OOk a b (Some x) -> x = (env, dflt) \/ x = (None, true).
Proof. rewrite step_out. simpl. apply exec_args_subkw. Qed.

Lemma subcommand_keywords_default fx Ds s p argv a b x :
  snd (step fx Ds s {| op_p := p; op_k := PArgs argv |}) = OOk a b (Some x) -> x = (None, true).
Proof. rewrite step_out. simpl. intro E. apply exec_args_subkw in E. destruct E; assumption. Qed.

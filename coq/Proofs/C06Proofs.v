(* C06 — proofs relating the model of jsonargparse's key validation (Model/C06Validate.v) to the reference
   semantics (Spec/C06Spec.v), for ALL declaration trees, ALL configuration trees and ANY fuel. *)
From JV Require Import Lib.Base Model.C06Validate Spec.C06Spec.

(* ---- induction over configuration trees (nested lists) --------------------------------------------- *)
Section CvInd.
  Variable P : cv -> Prop.
  Hypothesis Hn : P CNull.
  Hypothesis Hi : forall z, P (CInt z).
  Hypothesis Hs : forall s, P (CStr s).
  Hypothesis Hd : forall l, Forall (fun kv => P (snd kv)) l -> P (CDict l).
  Hypothesis Hl : forall l, Forall P l -> P (CList l).

  Fixpoint cv_ind' (v : cv) : P v :=
    match v with
    | CNull => Hn
    | CInt z => Hi z
    | CStr s => Hs s
    | CDict l =>
        Hd l ((fix go (l : list (str * cv)) : Forall (fun kv => P (snd kv)) l :=
                 match l with
                 | [] => Forall_nil _
                 | kv :: t => Forall_cons kv (cv_ind' (snd kv)) (go t)
                 end) l)
    | CList l =>
        Hl l ((fix go (l : list cv) : Forall P l :=
                 match l with
                 | [] => Forall_nil _
                 | x :: t => Forall_cons x (cv_ind' x) (go t)
                 end) l)
    end.
End CvInd.

Lemma has_leaf_leafless : forall v, has_leaf v = negb (leafless v).
Proof.
  induction v using cv_ind'; try reflexivity.
  induction l as [|[k w] t IH]; [reflexivity|].
  inversion H; subst. specialize (IH H3). simpl in *.
  rewrite H2, IH. rewrite negb_andb. reflexivity.
Qed.

Lemma not_has_leaf_leafless v : is_dict v = true -> has_leaf v = false -> leafless v = true.
Proof. intros _ H. rewrite has_leaf_leafless in H. destruct (leafless v); [reflexivity|discriminate]. Qed.

(* ---- first_failure ------------------------------------------------------------------------------------ *)
Definition ev_ok (e : ev) : Prop := e_res e = Ok.

Lemma pick_none : forall l best, pick best l = None -> best = None /\ Forall ev_ok l.
Proof.
  induction l as [|e t IH]; simpl; intros best H; [auto|].
  unfold ev_ok at 1. destruct (e_res e) eqn:E.
  - apply IH in H. destruct H; split; auto.
  - destruct best as [[d x]|].
    + destruct (Nat.ltb d (length (e_key e))); apply IH in H; destruct H; discriminate.
    + apply IH in H. destruct H; discriminate.
Qed.

Lemma first_failure_ok evs : first_failure evs = Ok -> Forall ev_ok evs.
Proof.
  unfold first_failure. intros H.
  destruct (pick None _) as [[d x]|] eqn:E; [discriminate|].
  apply pick_none in E. destruct E as [_ F].
  rewrite Forall_forall in *. intros e He.
  apply F. apply in_or_app. destruct (e_branch e) eqn:B.
  - right. apply filter_In. auto.
  - left. apply filter_In. rewrite B. auto.
Qed.

Lemma bind_ok r k : bind r k = Ok -> r = Ok /\ k = Ok.
Proof. destruct r; simpl; auto. discriminate. Qed.

Lemma pushr_ok c r : pushr c r = Ok -> r = Ok.
Proof. destruct r; simpl; auto. discriminate. Qed.

(* ---- walk: one group of events per entry of the mapping -------------------------------------------- *)
Definition walk_entry (chk : list str -> decl -> cv -> res) (fs : args) (grp : option (list str)) (sub : option str)
                      (pre : list str) (k : str) (w : cv) : list ev :=
  match assoc k fs with
  | None =>
      if is_dict w
      then (if has_leaf w then [{| e_branch := true; e_key := pre ++ [k]; e_res := unknown_err grp sub (pre ++ [k]) |}] else [])
           ++ walk_unknown grp sub (pre ++ [k]) w
      else [{| e_branch := false; e_key := pre ++ [k]; e_res := unknown_err grp sub (pre ++ [k]) |}]
  | Some (DGroup fs') =>
      if is_dict w
      then (if has_leaf w then [{| e_branch := true; e_key := pre ++ [k]; e_res := Ok |}] else [])
           ++ walk chk fs' grp sub (pre ++ [k]) w
      else [{| e_branch := false; e_key := pre ++ [k]; e_res := Ok |}]
  | Some (DData _ fs') =>
      let grp' := match grp with None => Some (pre ++ [k]) | g => g end in
      if is_dict w
      then (if has_leaf w then [{| e_branch := true; e_key := pre ++ [k]; e_res := Ok |}] else [])
           ++ walk chk fs' grp' sub (pre ++ [k]) w
      else [{| e_branch := false; e_key := pre ++ [k];
               e_res := match w with CStr _ => Err (EBadValue [] (pre ++ [k])) | _ => Ok end |}]
  | Some (DClass r c) =>
      [{| e_branch := match w with CDict _ | CStr _ => true | _ => false end;
          e_key := pre ++ [k]; e_res := chk (pre ++ [k]) (DClass r c) w |}]
  | Some (DOpt fs') =>
      [{| e_branch := is_dict w; e_key := pre ++ [k]; e_res := chk (pre ++ [k]) (DOpt fs') w |}]
  | Some d =>
      [{| e_branch := false; e_key := pre ++ [k]; e_res := chk (pre ++ [k]) d w |}]
  end.

Lemma walk_cons chk fs grp sub pre k w t :
  walk chk fs grp sub pre (CDict ((k, w) :: t)) = walk_entry chk fs grp sub pre k w ++ walk chk fs grp sub pre (CDict t).
Proof. reflexivity. Qed.

Lemma walk_entries chk fs grp sub pre l :
  Forall ev_ok (walk chk fs grp sub pre (CDict l)) ->
  forall k w, In (k, w) l -> Forall ev_ok (walk_entry chk fs grp sub pre k w).
Proof.
  induction l as [|[k0 w0] t IH]; intros F k w HIn; [destruct HIn|].
  rewrite walk_cons in F. apply Forall_app in F. destruct F as [F1 F2].
  destruct HIn as [E|HIn]; [inversion E; subst; exact F1 | eapply IH; eauto].
Qed.

Lemma unknown_err_not_ok grp sub key : unknown_err grp sub key <> Ok.
Proof. unfold unknown_err; discriminate. Qed.

(* what an all-Ok group of events says about the entry *)
Lemma entry_unknown chk fs grp sub pre k w :
  assoc k fs = None -> Forall ev_ok (walk_entry chk fs grp sub pre k w) -> leafless w = true.
Proof.
  unfold walk_entry. intros -> F.
  destruct (is_dict w) eqn:D.
  - destruct (has_leaf w) eqn:L.
    + inversion F; subst. exfalso. eapply unknown_err_not_ok. exact H1.
    + apply not_has_leaf_leafless; assumption.
  - inversion F; subst. exfalso. eapply unknown_err_not_ok. exact H1.
Qed.

Lemma entry_group chk fs grp sub pre k w fs' :
  assoc k fs = Some (DGroup fs') -> Forall ev_ok (walk_entry chk fs grp sub pre k w) ->
  is_dict w = true -> Forall ev_ok (walk chk fs' grp sub (pre ++ [k]) w).
Proof.
  unfold walk_entry. intros -> F D. rewrite D in F. apply Forall_app in F. tauto.
Qed.

Lemma entry_data chk fs grp sub pre k w r fs' :
  assoc k fs = Some (DData r fs') -> Forall ev_ok (walk_entry chk fs grp sub pre k w) ->
  is_dict w = true ->
  Forall ev_ok (walk chk fs' (match grp with None => Some (pre ++ [k]) | g => g end) sub (pre ++ [k]) w).
Proof.
  unfold walk_entry. intros -> F D. cbv zeta in F. rewrite D in F. apply Forall_app in F. tauto.
Qed.

Lemma entry_class chk fs grp sub pre k w r c :
  assoc k fs = Some (DClass r c) -> Forall ev_ok (walk_entry chk fs grp sub pre k w) ->
  chk (pre ++ [k]) (DClass r c) w = Ok.
Proof. unfold walk_entry. intros -> F. inversion F; subst. exact H1. Qed.

Lemma entry_list chk fs grp sub pre k w fs' :
  assoc k fs = Some (DList fs') -> Forall ev_ok (walk_entry chk fs grp sub pre k w) ->
  chk (pre ++ [k]) (DList fs') w = Ok.
Proof. unfold walk_entry. intros -> F. inversion F; subst. exact H1. Qed.

Lemma entry_opt chk fs grp sub pre k w fs' :
  assoc k fs = Some (DOpt fs') -> Forall ev_ok (walk_entry chk fs grp sub pre k w) ->
  chk (pre ++ [k]) (DOpt fs') w = Ok.
Proof. unfold walk_entry. intros -> F. inversion F; subst. exact H1. Qed.

(* ---- the reference semantics, entry by entry -------------------------------------------------------- *)
Definition und_items (sl sc : bool) (fs' : args) (k : str) : nat -> list cv -> list (list seg) :=
  fix gi (i : nat) (items : list cv) :=
    match items with
    | [] => []
    | x :: r => map (fun p => K k :: I i :: p) (und sl sc fs' x) ++ gi (S i) r
    end.

Definition und_init (sl sc : bool) (ps : args) (k : str) : list (str * cv) -> list (list seg) :=
  fix gi (l' : list (str * cv)) :=
    match l' with
    | [] => []
    | (k', w') :: t' =>
        if str_eqb s_init_args k'
        then map (fun p => K k :: K s_init_args :: p) (und sl sc ps w')
        else gi t'
    end.

Definition und_entry (sl sc : bool) (fs : args) (k : str) (w : cv) : list (list seg) :=
  match assoc k fs with
  | None => if sl && leafless w then [] else [K k] :: map (cons (K k)) (all_keys sl w)
  | Some (DArg _) => []
  | Some (DGroup fs') | Some (DData _ fs') | Some (DOpt fs') => map (cons (K k)) (und sl sc fs' w)
  | Some (DList fs') => match w with CList items => und_items sl sc fs' k 0%nat items | _ => [] end
  | Some (DClass _ cls) =>
      match w with
      | CDict l' =>
          (if sc && match assoc s_init_args l', assoc s_dict_kwargs l' with None, None => true | _, _ => false end
           then [] else map (fun x => [K k; K x]) (filter (fun x => negb (spec_key x)) (map fst l')))
          ++ match class_of l' cls with
             | Some ps => und_init sl sc ps k l'
             | None => []
             end
      | _ => []
      end
  end.

Lemma und_cons sl sc fs k w t :
  und sl sc fs (CDict ((k, w) :: t)) = und_entry sl sc fs k w ++ und sl sc fs (CDict t).
Proof. reflexivity. Qed.

Lemma und_entries_nil sl sc fs l :
  (forall k w, In (k, w) l -> und_entry sl sc fs k w = []) -> und sl sc fs (CDict l) = [].
Proof.
  induction l as [|[k w] t IH]; intros H; [reflexivity|].
  rewrite und_cons, (H k w (or_introl eq_refl)), IH; [reflexivity|].
  intros; apply H; right; assumption.
Qed.

Lemma und_not_dict sl sc fs w : is_dict w = false -> und sl sc fs w = [].
Proof. destruct w; try reflexivity; discriminate. Qed.

Lemma und_init_none sl sc ps k l : assoc s_init_args l = None -> und_init sl sc ps k l = [].
Proof.
  induction l as [|[k' w'] t IH]; simpl; [reflexivity|].
  destruct (str_eqb s_init_args k'); [discriminate|exact IH].
Qed.

Lemma und_init_some sl sc ps k l w' :
  assoc s_init_args l = Some w' ->
  und_init sl sc ps k l = map (fun p => K k :: K s_init_args :: p) (und sl sc ps w').
Proof.
  induction l as [|[k' w''] t IH]; simpl; [discriminate|].
  destruct (str_eqb s_init_args k'); [intros E; inversion E; reflexivity|exact IH].
Qed.

(* what an Ok answer of the action check must establish for list- and class-typed arguments *)
Definition chk_und (d : decl) (w : cv) : Prop :=
  match d with
  | DList _ | DClass _ _ | DOpt _ => forall k fs, assoc k fs = Some d -> und_entry false false fs k w = []
  | _ => True
  end.

(* ---- the lenient pre-pass, entry by entry ------------------------------------------------------------- *)
Definition apply_entry (chk : list str -> decl -> cv -> res) (fs : args) (pre : list str) (k : str) (w : cv) : res :=
  match assoc k fs with
  | Some (DGroup fs') | Some (DData _ fs') => apply_walk chk fs' (pre ++ [k]) w
  | Some d => chk (pre ++ [k]) d w
  | None => empty_err (pre ++ [k]) w
  end.

Lemma apply_walk_cons0 chk fs pre k w t :
  apply_walk chk fs pre (CDict ((k, w) :: t)) = bind (apply_entry chk fs pre k w) (apply_walk chk fs pre (CDict t)).
Proof. reflexivity. Qed.

Lemma apply_walk_entries chk fs pre l :
  apply_walk chk fs pre (CDict l) = Ok -> forall k w, In (k, w) l -> apply_entry chk fs pre k w = Ok.
Proof.
  induction l as [|[k0 w0] t IH]; intros H k w HIn; [destruct HIn|].
  rewrite apply_walk_cons0 in H. apply bind_ok in H. destruct H as [H1 H2].
  destruct HIn as [E|HIn]; [inversion E; subst; exact H1 | eapply IH; eauto].
Qed.

(* a leafless mapping contains an empty mapping, which the pre-pass refuses below a key without action *)
Lemma shallowest_some : forall l b, exists x, shallowest (Some b) l = Some x.
Proof.
  induction l as [|y t IH]; intros b; simpl; [eexists; reflexivity|].
  destruct (Nat.ltb (length y) (length b)); apply IH.
Qed.

Lemma shallowest_none l : shallowest None l = None -> l = [].
Proof.
  destruct l as [|x t]; [reflexivity|]. simpl. intros H.
  destruct (shallowest_some t x) as [y Hy]. rewrite Hy in H. discriminate.
Qed.

Lemma leafless_empties : forall v pre, leafless v = true -> empties pre v <> [].
Proof.
  induction v using cv_ind'; intros pre L; try discriminate.
  destruct l as [|[k w] t]; [simpl; discriminate|].
  inversion H; subst. simpl in L. apply andb_true_iff in L. destruct L as [L1 _].
  simpl in H2. specialize (H2 (pre ++ [k]) L1).
  simpl. intros E. apply app_eq_nil in E. destruct E as [E _]. contradiction.
Qed.

Lemma empty_err_ok pre v : empty_err pre v = Ok -> leafless v = false.
Proof.
  unfold empty_err. intros H. destruct (shallowest None (empties pre v)) eqn:E; [discriminate|].
  apply shallowest_none in E. destruct (leafless v) eqn:L; [|reflexivity].
  exfalso. exact (leafless_empties v pre L E).
Qed.

Lemma walk_und chk chkl :
  (forall key d w, chk key d w = Ok -> chk_und d w) ->
  forall v fs grp sub pre pre',
    Forall ev_ok (walk chk fs grp sub pre v) -> apply_walk chkl fs pre' v = Ok -> und false false fs v = [].
Proof.
  intros Hchk. induction v using cv_ind'; intros fs grp sub pre pre' F A; try reflexivity.
  apply und_entries_nil. intros k w HIn.
  pose proof (walk_entries _ _ _ _ _ _ F k w HIn) as FE.
  pose proof (apply_walk_entries _ _ _ _ A k w HIn) as AE.
  rewrite Forall_forall in H. pose proof (H (k, w) HIn) as IHw. simpl in IHw.
  unfold und_entry. unfold apply_entry in AE. destruct (assoc k fs) as [d|] eqn:E.
  - destruct d as [r|fs'|r fs'|r cls|fs'|fs'].
    + reflexivity.
    + destruct (is_dict w) eqn:D.
      * rewrite (IHw fs' grp sub (pre ++ [k]) (pre' ++ [k])); [reflexivity| |exact AE]. eapply entry_group; eauto.
      * rewrite und_not_dict; auto.
    + destruct (is_dict w) eqn:D.
      * rewrite (IHw fs' (match grp with None => Some (pre ++ [k]) | g => g end) sub (pre ++ [k]) (pre' ++ [k])); [reflexivity| |exact AE].
        eapply entry_data; eauto.
      * rewrite und_not_dict; auto.
    + pose proof (Hchk _ _ _ (entry_class _ _ _ _ _ _ _ _ _ E FE)) as C. simpl in C.
      specialize (C k fs E). unfold und_entry in C. rewrite E in C. exact C.
    + pose proof (Hchk _ _ _ (entry_list _ _ _ _ _ _ _ _ E FE)) as C. simpl in C.
      specialize (C k fs E). unfold und_entry in C. rewrite E in C. exact C.
    + pose proof (Hchk _ _ _ (entry_opt _ _ _ _ _ _ _ _ E FE)) as C. simpl in C.
      specialize (C k fs E). unfold und_entry in C. rewrite E in C. exact C.
  - exfalso. pose proof (entry_unknown _ _ _ _ _ _ _ E FE) as L. apply empty_err_ok in AE. rewrite L in AE. discriminate.
Qed.

Lemma items_und f fs' k (c : nat -> list seg) key :
  (forall fs v, nested f false fs v = Ok -> und false false fs v = []) ->
  forall items i,
    check_items (fun i x => if is_dict x then pushr (c i) (nested f false fs' x) else Err (EBadValue [] key)) i items = Ok ->
    und_items false false fs' k i items = [].
Proof.
  intros IH. induction items as [|x r IHr]; intros i H; [reflexivity|].
  simpl in H. apply bind_ok in H. destruct H as [H1 H2].
  simpl. rewrite (IHr _ H2).
  destruct (is_dict x); [|discriminate].
  apply pushr_ok in H1. rewrite (IH _ _ H1). reflexivity.
Qed.

Lemma chk_action_und f :
  (forall fs v, nested f false fs v = Ok -> und false false fs v = []) ->
  forall key d w, chk_action (nested f false) key d w = Ok -> chk_und d w.
Proof.
  intros IH key d w H. destruct d as [r|fs'|r fs'|r cls|fs'|fs']; simpl; auto; intros k fs E; unfold und_entry; rewrite E.
  - (* class: an accepted class value has no key beside class_path / init_args / dict_kwargs *)
    destruct w as [| | |l|]; try reflexivity.
    simpl in H.
    destruct (assoc s_class_path l) as [[| |c| |]|] eqn:CP; try discriminate.
    unfold class_of. rewrite CP. cbv beta iota. unfold args in *.
    destruct (filter (fun k0 => negb (spec_key k0)) (map fst l)) as [|x xs] eqn:FX; [|discriminate].
    destruct (assoc c cls) as [ps|] eqn:CC; [|discriminate].
    simpl andb. cbv iota. simpl map. rewrite app_nil_l.
    destruct (assoc s_init_args l) as [[| | |ia|]|] eqn:IA; try discriminate.
    * apply pushr_ok in H. rewrite (und_init_some _ _ _ _ _ _ IA), (IH _ _ H). reflexivity.
    * apply und_init_none. exact IA.
  - (* list *)
    destruct w as [| | | |items]; try reflexivity.
    simpl in H. exact (items_und f fs' k (fun i => map K key ++ [I i]) key IH items 0%nat H).
  - (* Optional[dataclass] *)
    destruct w as [| | |l|]; try reflexivity.
    simpl in H. apply pushr_ok in H. rewrite (IH _ _ H). reflexivity.
Qed.

Lemma nested_ok_parts f fs v :
  nested (S f) false fs v = Ok ->
  Forall ev_ok (walk (chk_action (nested f false)) fs None None [] v) /\ check_required1 [] fs v = Ok.
Proof.
  simpl. intros H. apply bind_ok in H. destruct H as [_ H]. apply bind_ok in H. destruct H as [H1 H2].
  split; [apply first_failure_ok; exact H1 | exact H2].
Qed.

Lemma nested_ok_apply f fs v :
  nested (S f) false fs v = Ok -> apply_walk (chk_action (nested f true)) fs [] v = Ok.
Proof. simpl. intros H. apply bind_ok in H. tauto. Qed.

Lemma nested_und : forall f fs v, nested f false fs v = Ok -> und false false fs v = [].
Proof.
  induction f as [|f IH]; intros fs v H; [discriminate|].
  pose proof (nested_ok_apply _ _ _ H) as A.
  apply nested_ok_parts in H. destruct H as [F _].
  eapply walk_und; [|exact F|exact A]. apply chk_action_und. exact IH.
Qed.

(* ---- the top level: subcommand selection ------------------------------------------------------------ *)
Lemma flat_map_nil {A B} (f : A -> list B) l : (forall x, In x l -> f x = []) -> flat_map f l = [].
Proof.
  induction l as [|x t IH]; intros H; [reflexivity|].
  simpl. rewrite (H x (or_introl eq_refl)), IH; [reflexivity|]. intros; apply H; right; assumption.
Qed.

Lemma in_set_key k w d v l : In (k, w) l -> k <> d -> In (k, w) (set_key d v l).
Proof.
  induction l as [|[k' v'] t IH]; intros HIn Hne; [destruct HIn|].
  simpl. destruct (str_eqb d k') eqn:E.
  - apply str_eqb_spec in E. subst k'. destruct HIn as [X|X]; [inversion X; subst; contradiction|right; exact X].
  - destruct HIn as [X|X]; [left; exact X|right; apply IH; assumption].
Qed.

Lemma in_remove_keys k w ks l : In (k, w) l -> mem_str k ks = false -> In (k, w) (remove_keys ks l).
Proof.
  induction l as [|[k' v'] t IH]; intros HIn Hm; [destruct HIn|].
  simpl. destruct HIn as [X|X].
  - inversion X; subst. rewrite Hm. left; reflexivity.
  - destruct (mem_str k' ks); [|right]; apply IH; assumption.
Qed.

Lemma is_section_spec md l s : is_section md l s = spec_section md l s.
Proof.
  unfold is_section, spec_section. destruct (assoc s l) as [[| | |x|]|]; try reflexivity.
  destruct md; try reflexivity; apply has_leaf_leafless.
Qed.

Lemma sections_spec md m l : sections md m l = filter (spec_section md l) (map fst m).
Proof. unfold sections. apply filter_ext. intros s. apply is_section_spec. Qed.

Lemma select_spec md sb l :
  select md sb l =
  match spec_selected md sb l with
  | Some s => (Some s, remove_keys (discarded md sb l)
                         (match assoc (s_dest sb) l with Some (CStr _) => l | _ => set_key (s_dest sb) (CStr s) l end))
  | None => (None, l)
  end.
Proof.
  unfold select, discarded, spec_selected. rewrite sections_spec.
  destruct (assoc (s_dest sb) l) as [[| |s0| |]|];
    try (destruct (filter _ (map fst (s_map sb))) as [|s t]; destruct md; reflexivity); destruct md; try reflexivity.
Qed.

Lemma in_select md sb l k w :
  In (k, w) l -> k <> s_dest sb -> mem_str k (discarded md sb l) = false -> In (k, w) (snd (select md sb l)).
Proof.
  intros HIn Hne Hm. rewrite select_spec. destruct (spec_selected md sb l) as [s|]; [|exact HIn].
  simpl. apply in_remove_keys; [|exact Hm].
  destruct (assoc (s_dest sb) l) as [[| |s0| |]|]; try (apply in_set_key; assumption). exact HIn.
Qed.

Lemma assoc_none_mem {A} k (m : list (str * A)) : assoc k m = None -> mem_str k (map fst m) = false.
Proof.
  induction m as [|[k' a] t IH]; simpl; [reflexivity|].
  destruct (str_eqb k k'); [discriminate|exact IH].
Qed.

Lemma mem_filter_false k (f : str -> bool) xs : mem_str k xs = false -> mem_str k (filter f xs) = false.
Proof.
  induction xs as [|x t IH]; simpl; [reflexivity|].
  intros H. apply orb_false_iff in H. destruct H as [H1 H2].
  destruct (f x); simpl; [rewrite H1|]; auto.
Qed.

Lemma discarded_sub md sb l k : mem_str k (map fst (s_map sb)) = false -> mem_str k (discarded md sb l) = false.
Proof.
  intros H. unfold discarded. destruct (spec_selected md sb l); [|reflexivity].
  destruct md; try (destruct (Nat.ltb _ _); [|reflexivity]); repeat apply mem_filter_false; exact H.
Qed.

Definition top_entry (chk : list str -> decl -> cv -> res) (sectionchk : str -> args -> cv -> res)
                     (p : parser) (sb : subs) (k : str) (w : cv) : list ev :=
  if str_eqb k (s_dest sb) then [{| e_branch := false; e_key := [k]; e_res := Ok |}]
  else match assoc k (s_map sb) with
       | Some sa =>
           if is_dict w
           then (if has_leaf w then [{| e_branch := true; e_key := [k]; e_res := sectionchk k sa w |}] else [])
                ++ walk chk sa None (Some k) [k] w
           else [{| e_branch := false; e_key := [k]; e_res := Ok |}]
       | None => walk chk (p_args p) None None [] (CDict [(k, w)])
       end.

Lemma top_walk_cons chk sc p sb k w t :
  p_sub p = Some sb ->
  top_walk chk sc p ((k, w) :: t) = top_entry chk sc p sb k w ++ top_walk chk sc p t.
Proof. unfold top_walk. intros ->. reflexivity. Qed.

Lemma top_entries chk sc p sb l :
  p_sub p = Some sb ->
  Forall ev_ok (top_walk chk sc p l) ->
  forall k w, In (k, w) l -> Forall ev_ok (top_entry chk sc p sb k w).
Proof.
  intros Hs. induction l as [|[k0 w0] t IH]; intros F k w HIn; [destruct HIn|].
  rewrite (top_walk_cons _ _ _ _ _ _ _ Hs) in F. apply Forall_app in F. destruct F as [F1 F2].
  destruct HIn as [E|HIn]; [inversion E; subst; exact F1 | eapply IH; eauto].
Qed.

Lemma top_entry_section chk sc p sb k w sa :
  str_eqb k (s_dest sb) = false -> assoc k (s_map sb) = Some sa -> is_dict w = true ->
  Forall ev_ok (top_entry chk sc p sb k w) -> Forall ev_ok (walk chk sa None (Some k) [k] w).
Proof.
  unfold top_entry. intros -> -> -> F. apply Forall_app in F. tauto.
Qed.

Lemma top_entry_arg chk sc p sb k w :
  str_eqb k (s_dest sb) = false -> assoc k (s_map sb) = None ->
  Forall ev_ok (top_entry chk sc p sb k w) -> Forall ev_ok (walk chk (p_args p) None None [] (CDict [(k, w)])).
Proof. unfold top_entry. intros -> -> F. exact F. Qed.

Lemma str_eqb_false_ne a b : str_eqb a b = false -> a <> b.
Proof. intros E X. subst. rewrite str_eqb_refl in E. discriminate. Qed.

Definition schk (fuel : nat) := chk_action (nested fuel false).

Lemma schk_und fuel key d w : schk fuel key d w = Ok -> chk_und d w.
Proof. apply chk_action_und. apply nested_und. Qed.

(* the parts of an accepting run *)
Lemma run_ok_nosub md fuel p l :
  p_sub p = None -> run md fuel p (CDict l) = Ok ->
  Forall ev_ok (walk (schk fuel) (p_args p) None None [] (CDict l)) /\ check_required1 [] (p_args p) (CDict l) = Ok.
Proof.
  unfold run. intros Hs H. apply bind_ok in H. destruct H as [_ H]. rewrite Hs in H.
  apply bind_ok in H. destruct H as [H1 H2]. split; [|exact H2].
  apply first_failure_ok in H1. unfold top_walk in H1. rewrite Hs in H1. exact H1.
Qed.

Definition top_apply_entry (chk : list str -> decl -> cv -> res) (p : parser) (sb : subs) (k : str) (w : cv) : res :=
  if str_eqb k (s_dest sb) then Ok
  else match assoc k (s_map sb) with
       | Some sa => apply_walk chk sa [k] w
       | None => apply_walk chk (p_args p) [] (CDict [(k, w)])
       end.

Lemma top_apply_cons chk p sb k w t :
  p_sub p = Some sb -> top_apply chk p ((k, w) :: t) = bind (top_apply_entry chk p sb k w) (top_apply chk p t).
Proof. unfold top_apply. intros ->. reflexivity. Qed.

Lemma top_apply_entries chk p sb l :
  p_sub p = Some sb -> top_apply chk p l = Ok -> forall k w, In (k, w) l -> top_apply_entry chk p sb k w = Ok.
Proof.
  intros Hs. induction l as [|[k0 w0] t IH]; intros H k w HIn; [destruct HIn|].
  rewrite (top_apply_cons _ _ _ _ _ _ Hs) in H. apply bind_ok in H. destruct H as [H1 H2].
  destruct HIn as [E|HIn]; [inversion E; subst; exact H1 | eapply IH; eauto].
Qed.

Theorem accept_no_undeclared md fuel p cfg :
  run md fuel p cfg = Ok -> und_top md false true false p cfg = [].
Proof.
  intros H. destruct cfg as [| | |l|]; try reflexivity.
  unfold und_top. destruct (p_sub p) as [sb|] eqn:Hs.
  - unfold run in H. apply bind_ok in H. destruct H as [A H]. rewrite Hs in H.
    destruct (select md sb l) as [chosen l'] eqn:S.
    destruct (s_req sb && _); [discriminate|].
    apply bind_ok in H. destruct H as [H1 _]. apply first_failure_ok in H1.
    apply flat_map_nil. intros [k w] HIn. simpl.
    destruct (str_eqb k (s_dest sb)) eqn:Ed; [reflexivity|].
    pose proof (top_apply_entries _ _ _ _ Hs A k w HIn) as AE. unfold top_apply_entry in AE. rewrite Ed in AE.
    destruct (assoc k (s_map sb)) as [sa|] eqn:Em.
    + destruct (mem_str k (discarded md sb l)) eqn:Md; [reflexivity|].
      assert (In (k, w) l') as HIn'.
      { replace l' with (snd (select md sb l)) by (rewrite S; reflexivity).
        apply in_select; auto. apply str_eqb_false_ne; exact Ed. }
      pose proof (top_entries _ _ _ _ _ Hs H1 k w HIn') as FE.
      destruct (is_dict w) eqn:D.
      * rewrite (walk_und (schk fuel) (chk_action (nested fuel true)) (schk_und fuel) w sa None (Some k) [k] [k]); [reflexivity| |exact AE].
        eapply top_entry_section; eauto.
      * rewrite und_not_dict; auto.
    + assert (In (k, w) l') as HIn'.
      { replace l' with (snd (select md sb l)) by (rewrite S; reflexivity).
        apply in_select; auto. apply str_eqb_false_ne; exact Ed.
        apply discarded_sub. apply assoc_none_mem. exact Em. }
      pose proof (top_entries _ _ _ _ _ Hs H1 k w HIn') as FE.
      apply (walk_und (schk fuel) (chk_action (nested fuel true)) (schk_und fuel) (CDict [(k, w)]) (p_args p) None None [] []); [|exact AE].
      eapply top_entry_arg; eauto.
  - pose proof H as H0. unfold run in H0. apply bind_ok in H0. destruct H0 as [A _].
    unfold top_apply in A. rewrite Hs in A.
    apply run_ok_nosub in H; [|exact Hs]. destruct H as [F _].
    exact (walk_und (schk fuel) (chk_action (nested fuel true)) (schk_und fuel) (CDict l) (p_args p) None None [] [] F A).
Qed.

Section DeclInd.
  Variable P : decl -> Prop.
  Hypothesis Ha : forall r, P (DArg r).
  Hypothesis Hg : forall fs, Forall (fun kd => P (snd kd)) fs -> P (DGroup fs).
  Hypothesis Hd : forall r fs, Forall (fun kd => P (snd kd)) fs -> P (DData r fs).
  Hypothesis Hc : forall r cls, P (DClass r cls).
  Hypothesis Hl : forall fs, P (DList fs).
  Hypothesis Ho : forall fs, P (DOpt fs).

  Fixpoint decl_ind' (d : decl) : P d :=
    match d with
    | DArg r => Ha r
    | DGroup fs =>
        Hg fs ((fix go (fs : list (str * decl)) : Forall (fun kd => P (snd kd)) fs :=
                  match fs with [] => Forall_nil _ | kd :: t => Forall_cons kd (decl_ind' (snd kd)) (go t) end) fs)
    | DData r fs =>
        Hd r fs ((fix go (fs : list (str * decl)) : Forall (fun kd => P (snd kd)) fs :=
                    match fs with [] => Forall_nil _ | kd :: t => Forall_cons kd (decl_ind' (snd kd)) (go t) end) fs)
    | DClass r cls => Hc r cls
    | DList fs => Hl fs
    | DOpt fs => Ho fs
    end.
End DeclInd.

Definition req_fields (key : list str) : list (str * decl) -> list (list str) :=
  fix go (fs : list (str * decl)) := match fs with [] => [] | (k, d') :: t => req_d (key ++ [k]) d' ++ go t end.
Definition required_fields (key : list str) : list (str * decl) -> list (list str) :=
  fix go (fs : list (str * decl)) := match fs with [] => [] | (k, d') :: t => required_d (key ++ [k]) d' ++ go t end.

Lemma required_d_eq : forall d key, required_d key d = req_d key d.
Proof. intros d key. destruct d; reflexivity. Qed.

Lemma required_of_eq fs : required_of [] fs = req_paths fs.
Proof.
  unfold required_of, req_paths. induction fs as [|[k d] t IH]; [reflexivity|].
  cbn [flat_map]. rewrite IH. rewrite required_d_eq. reflexivity.
Qed.

Lemma get_lookup : forall p v, get v p = lookup v p.
Proof. intros p v. destruct p; reflexivity. Qed.

Lemma present_nonnull v p : present v p = nonnull v p.
Proof. unfold present, nonnull. rewrite get_lookup. reflexivity. Qed.

Lemma check_required1_flat pre fs v : check_required1 pre fs v = Ok -> flat_missing fs v = [].
Proof.
  unfold check_required1, flat_missing. rewrite required_of_eq.
  rewrite (filter_ext (fun p => negb (present v p)) (fun p => negb (nonnull v p))) by (intros; rewrite present_nonnull; reflexivity).
  destruct (filter _ (req_paths fs)); [reflexivity|discriminate].
Qed.

(* every required path starts with the name of the declaration it comes from *)
Lemma req_d_prefix : forall d key q, In q (req_d key d) -> exists rest, q = key ++ rest.
Proof.
  assert (Hf : forall fs key,
             Forall (fun kd => forall key q, In q (req_d key (snd kd)) -> exists rest, q = key ++ rest) fs ->
             forall q, In q (req_fields key fs) -> exists rest, q = key ++ rest).
  { induction fs as [|[k d'] t IH]; intros key F q HIn; [destruct HIn|].
    inversion F; subst. simpl in HIn. apply in_app_or in HIn. destruct HIn as [HIn|HIn].
    - apply H1 in HIn. destruct HIn as [rest ->]. exists ([k] ++ rest). rewrite app_assoc. reflexivity.
    - eapply IH; eauto. }
  induction d using decl_ind'; intros key q HIn.
  - destruct r; [|destruct HIn]. destruct HIn as [<-|[]]. exists []. rewrite app_nil_r. reflexivity.
  - change (In q (req_fields key fs)) in HIn. eapply Hf; eauto.
  - change (In q ((if r then [key] else []) ++ req_fields key fs)) in HIn. apply in_app_or in HIn. destruct HIn as [HIn|HIn].
    + destruct r; [|destruct HIn]. destruct HIn as [<-|[]]. exists []. rewrite app_nil_r. reflexivity.
    + eapply Hf; eauto.
  - destruct r; [|destruct HIn]. destruct HIn as [<-|[]]. exists []. rewrite app_nil_r. reflexivity.
  - destruct HIn.
  - destruct HIn.
Qed.

Lemma req_paths_head fs q : In q (req_paths fs) -> exists k d rest, In (k, d) fs /\ q = k :: rest.
Proof.
  unfold req_paths. intros HIn. apply in_flat_map in HIn. destruct HIn as [[k d] [HIn Hq]].
  simpl in Hq. apply req_d_prefix in Hq. destruct Hq as [rest ->]. exists k, d, rest. auto.
Qed.

(* ---- nest_missing, entry by entry ---------------------------------------------------------------------- *)
Definition nm_items (fs' : args) (k : str) : nat -> list cv -> list (list seg) :=
  fix gi (i : nat) (items : list cv) :=
    match items with
    | [] => []
    | x :: r => map (fun p => K k :: I i :: p) (flat_missing fs' x ++ nest_missing fs' x) ++ gi (S i) r
    end.

Definition nm_init (ps : args) (k : str) : list (str * cv) -> list (list seg) :=
  fix gi (l' : list (str * cv)) :=
    match l' with
    | [] => []
    | (k', w') :: t' =>
        if str_eqb s_init_args k'
        then map (fun p => K k :: K s_init_args :: p) (flat_missing ps w' ++ nest_missing ps w')
        else gi t'
    end.

Definition nm_entry (fs : args) (k : str) (w : cv) : list (list seg) :=
  match assoc k fs with
  | Some (DGroup fs') | Some (DData _ fs') => map (cons (K k)) (nest_missing fs' w)
  | Some (DOpt fs') =>
      match w with
      | CDict _ => map (cons (K k)) (flat_missing fs' w ++ nest_missing fs' w)
      | _ => []
      end
  | Some (DList fs') => match w with CList items => nm_items fs' k 0%nat items | _ => [] end
  | Some (DClass _ cls) =>
      match w with
      | CDict l' =>
          match class_of l' cls with
          | Some ps =>
              match assoc s_init_args l' with
              | None => map (fun p => K k :: K s_init_args :: p) (flat_missing ps (CDict []))
              | Some _ => nm_init ps k l'
              end
          | None => []
          end
      | CStr c =>
          match assoc c cls with
          | Some ps => map (fun p => K k :: K s_init_args :: p) (flat_missing ps (CDict []))
          | None => []
          end
      | _ => []
      end
  | _ => []
  end.

Lemma nm_cons fs k w t : nest_missing fs (CDict ((k, w) :: t)) = nm_entry fs k w ++ nest_missing fs (CDict t).
Proof. reflexivity. Qed.

Lemma nm_entries_nil fs l : (forall k w, In (k, w) l -> nm_entry fs k w = []) -> nest_missing fs (CDict l) = [].
Proof.
  induction l as [|[k w] t IH]; intros H; [reflexivity|].
  rewrite nm_cons, (H k w (or_introl eq_refl)), IH; [reflexivity|].
  intros; apply H; right; assumption.
Qed.

Lemma nm_not_dict fs w : is_dict w = false -> nest_missing fs w = [].
Proof. destruct w; try reflexivity; discriminate. Qed.

Lemma nm_init_some ps k l w' :
  assoc s_init_args l = Some w' ->
  nm_init ps k l = map (fun p => K k :: K s_init_args :: p) (flat_missing ps w' ++ nest_missing ps w').
Proof.
  induction l as [|[k' w''] t IH]; simpl; [discriminate|].
  destruct (str_eqb s_init_args k'); [intros E; inversion E; reflexivity|exact IH].
Qed.

Definition chk_nm (d : decl) (w : cv) : Prop :=
  match d with
  | DList _ | DClass _ _ | DOpt _ => forall k fs, assoc k fs = Some d -> nm_entry fs k w = []
  | _ => True
  end.

Lemma walk_nm chk :
  (forall key d w, chk key d w = Ok -> chk_nm d w) ->
  forall v fs grp sub pre, Forall ev_ok (walk chk fs grp sub pre v) -> nest_missing fs v = [].
Proof.
  intros Hchk. induction v using cv_ind'; intros fs grp sub pre F; try reflexivity.
  apply nm_entries_nil. intros k w HIn.
  pose proof (walk_entries _ _ _ _ _ _ F k w HIn) as FE.
  rewrite Forall_forall in H. pose proof (H (k, w) HIn) as IHw. simpl in IHw.
  unfold nm_entry. destruct (assoc k fs) as [d|] eqn:E; [|reflexivity].
  destruct d as [r|fs'|r fs'|r cls|fs'|fs'].
  - reflexivity.
  - destruct (is_dict w) eqn:D.
    + rewrite (IHw fs' grp sub (pre ++ [k])); [reflexivity|]. eapply entry_group; eauto.
    + rewrite nm_not_dict; auto.
  - destruct (is_dict w) eqn:D.
    + rewrite (IHw fs' (match grp with None => Some (pre ++ [k]) | g => g end) sub (pre ++ [k])); [reflexivity|].
      eapply entry_data; eauto.
    + rewrite nm_not_dict; auto.
  - pose proof (Hchk _ _ _ (entry_class _ _ _ _ _ _ _ _ _ E FE)) as C. simpl in C.
    specialize (C k fs E). unfold nm_entry in C. rewrite E in C. exact C.
  - pose proof (Hchk _ _ _ (entry_list _ _ _ _ _ _ _ _ E FE)) as C. simpl in C.
    specialize (C k fs E). unfold nm_entry in C. rewrite E in C. exact C.
  - pose proof (Hchk _ _ _ (entry_opt _ _ _ _ _ _ _ _ E FE)) as C. simpl in C.
    specialize (C k fs E). unfold nm_entry in C. rewrite E in C. exact C.
Qed.

Definition nested_req (f : nat) : Prop :=
  forall fs v, nested f false fs v = Ok -> flat_missing fs v = [] /\ nest_missing fs v = [].

Lemma items_nm f fs' k (c : nat -> list seg) key :
  nested_req f ->
  forall items i,
    check_items (fun i x => if is_dict x then pushr (c i) (nested f false fs' x) else Err (EBadValue [] key)) i items = Ok ->
    nm_items fs' k i items = [].
Proof.
  intros IH. induction items as [|x r IHr]; intros i H; [reflexivity|].
  simpl in H. apply bind_ok in H. destruct H as [H1 H2].
  simpl. rewrite (IHr _ H2).
  destruct (is_dict x); [|discriminate].
  apply pushr_ok in H1. destruct (IH _ _ H1) as [A B]. rewrite A, B. reflexivity.
Qed.

Lemma assoc_in {A} k (l : list (str * A)) v : assoc k l = Some v -> In (k, v) l.
Proof.
  induction l as [|[k' v'] t IH]; simpl; [discriminate|].
  destruct (str_eqb k k') eqn:E.
  - apply str_eqb_spec in E. subst. intros X; inversion X; subst. left; reflexivity.
  - intros X. right. apply IH. exact X.
Qed.

(* a mapping holding class_path is never accepted by a parser without declarations *)
Lemma nested_empty_class_path f l c :
  assoc s_class_path l = Some (CStr c) -> nested f false [] (CDict l) <> Ok.
Proof.
  intros CP H. destruct f as [|f]; [discriminate|].
  apply nested_ok_parts in H. destruct H as [F _].
  pose proof (walk_entries _ _ _ _ _ _ F _ _ (assoc_in _ _ _ CP)) as FE.
  assert (L : leafless (CStr c) = true) by (eapply entry_unknown; [|exact FE]; reflexivity). discriminate.
Qed.

Lemma chk_action_nm f :
  nested_req f -> forall key d w, chk_action (nested f false) key d w = Ok -> chk_nm d w.
Proof.
  intros IH key d w H. destruct d as [r|fs'|r fs'|r cls|fs'|fs']; simpl; auto; intros k fs E; unfold nm_entry; rewrite E.
  - (* class *)
    destruct w as [| |c|l|]; try reflexivity.
    + simpl in H. unfold args in *. destruct (assoc c cls) as [ps|]; [|reflexivity].
      apply pushr_ok in H. destruct (IH _ _ H) as [A _]. rewrite A. reflexivity.
    + simpl in H.
      destruct (assoc s_class_path l) as [[| |c| |]|] eqn:CP; try discriminate.
      unfold class_of. rewrite CP. cbv beta iota. unfold args in *.
      destruct (filter (fun k0 => negb (spec_key k0)) (map fst l)) as [|x xs] eqn:FX.
      * destruct (assoc c cls) as [ps|] eqn:CC; [|discriminate].
        destruct (assoc s_init_args l) as [[| | |ia|]|] eqn:IA; try discriminate.
        -- apply pushr_ok in H. destruct (IH _ _ H) as [A B].
           rewrite (nm_init_some _ _ _ _ IA), A, B. reflexivity.
        -- apply pushr_ok in H. destruct (IH _ _ H) as [A _]. rewrite A. reflexivity.
      * discriminate.
  - (* list *)
    destruct w as [| | | |items]; try reflexivity.
    simpl in H. exact (items_nm f fs' k (fun i => map K key ++ [I i]) key IH items 0%nat H).
  - (* Optional[dataclass] *)
    destruct w as [| | |l|]; try reflexivity.
    simpl in H. apply pushr_ok in H. destruct (IH _ _ H) as [A B]. rewrite A, B. reflexivity.
Qed.

Lemma nested_nm : forall f, nested_req f.
Proof.
  induction f as [|f IH]; intros fs v H; [discriminate|].
  apply nested_ok_parts in H. destruct H as [F R]. split.
  - eapply check_required1_flat; eauto.
  - eapply walk_nm; [|exact F]. apply chk_action_nm. exact IH.
Qed.

Lemma schk_nm fuel key d w : schk fuel key d w = Ok -> chk_nm d w.
Proof. apply chk_action_nm. apply nested_nm. Qed.

(* ---- required keys at the top level ------------------------------------------------------------------- *)
Lemma assoc_set_key k d v (l : list (str * cv)) : k <> d -> assoc k (set_key d v l) = assoc k l.
Proof.
  intros Hne. induction l as [|[k' v'] t IH]; simpl.
  - destruct (str_eqb k d) eqn:E; [apply str_eqb_spec in E; contradiction|reflexivity].
  - destruct (str_eqb d k') eqn:E; simpl.
    + apply str_eqb_spec in E. subst k'.
      destruct (str_eqb k d) eqn:E2; [apply str_eqb_spec in E2; contradiction|reflexivity].
    + destruct (str_eqb k k'); [reflexivity|exact IH].
Qed.

Lemma assoc_remove_keys k ks (l : list (str * cv)) : mem_str k ks = false -> assoc k (remove_keys ks l) = assoc k l.
Proof.
  intros Hm. induction l as [|[k' v'] t IH]; simpl; [reflexivity|].
  destruct (mem_str k' ks) eqn:M; simpl.
  - destruct (str_eqb k k') eqn:E; [|exact IH].
    apply str_eqb_spec in E. subst. rewrite Hm in M. discriminate.
  - destruct (str_eqb k k'); [reflexivity|exact IH].
Qed.

Lemma mem_filter_ne s xs : mem_str s (filter (fun x => negb (str_eqb x s)) xs) = false.
Proof.
  induction xs as [|x t IH]; simpl; [reflexivity|].
  destruct (str_eqb x s) eqn:E; simpl; [exact IH|].
  rewrite IH, orb_false_r. destruct (str_eqb s x) eqn:E2; [|reflexivity].
  apply str_eqb_spec in E2. subst. rewrite str_eqb_refl in E. discriminate.
Qed.

Lemma discarded_selected md sb l s : spec_selected md sb l = Some s -> mem_str s (discarded md sb l) = false.
Proof.
  intros H. unfold discarded. rewrite H.
  destruct md; try (destruct (Nat.ltb _ _); [|reflexivity]); apply mem_filter_ne.
Qed.

Lemma assoc_select md sb l k :
  k <> s_dest sb -> mem_str k (discarded md sb l) = false -> assoc k (snd (select md sb l)) = assoc k l.
Proof.
  intros Hne Hm. rewrite select_spec. destruct (spec_selected md sb l) as [s|]; [|reflexivity].
  simpl. rewrite assoc_remove_keys by exact Hm.
  destruct (assoc (s_dest sb) l) as [[| |s0| |]|]; try (apply assoc_set_key; assumption). reflexivity.
Qed.

Lemma wf_args p sb k d :
  wf_parser p = true -> p_sub p = Some sb -> In (k, d) (p_args p) ->
  k <> s_dest sb /\ mem_str k (map fst (s_map sb)) = false.
Proof.
  unfold wf_parser. intros W Hs HIn. rewrite Hs in W. apply andb_true_iff in W. destruct W as [W _].
  rewrite forallb_forall in W. specialize (W _ HIn). simpl in W.
  apply andb_true_iff in W. destruct W as [W1 W2].
  split.
  - intros X. subst. rewrite str_eqb_refl in W1. discriminate.
  - destruct (mem_str k (map fst (s_map sb))); [discriminate|reflexivity].
Qed.

Lemma wf_dest_sub p sb : wf_parser p = true -> p_sub p = Some sb -> mem_str (s_dest sb) (map fst (s_map sb)) = false.
Proof.
  unfold wf_parser. intros W Hs. rewrite Hs in W. apply andb_true_iff in W. destruct W as [_ W].
  destruct (mem_str _ _); [discriminate|reflexivity].
Qed.

Lemma wf_dest_args p sb : wf_parser p = true -> p_sub p = Some sb -> assoc (s_dest sb) (p_args p) = None.
Proof.
  intros W Hs. destruct (assoc (s_dest sb) (p_args p)) as [d|] eqn:E; [|reflexivity].
  apply assoc_in in E. destruct (wf_args _ _ _ _ W Hs E) as [X _]. contradiction.
Qed.

Lemma mem_assoc_some {A} k (m : list (str * A)) a : assoc k m = Some a -> mem_str k (map fst m) = true.
Proof.
  induction m as [|[k' a'] t IH]; simpl; [discriminate|].
  destruct (str_eqb k k'); [reflexivity|exact IH].
Qed.

Lemma flat_missing_null fs : flat_missing fs CNull = [] -> flat_missing fs (CDict []) = [].
Proof.
  unfold flat_missing. intros H.
  rewrite (filter_ext_in (fun p => negb (nonnull (CDict []) p)) (fun p => negb (nonnull CNull p))); [exact H|].
  intros q HIn. apply req_paths_head in HIn. destruct HIn as [k [d [rest [_ ->]]]]. reflexivity.
Qed.

Lemma filter_app_nil {A} (f : A -> bool) a b : filter f (a ++ b) = [] -> filter f a = [] /\ filter f b = [].
Proof. rewrite filter_app. apply app_eq_nil. Qed.

Theorem accept_required md fuel p cfg :
  wf_parser p = true -> run md fuel p cfg = Ok -> missing_required md p cfg = [].
Proof.
  intros W H. destruct cfg as [| | |l|]; try reflexivity.
  unfold missing_required. destruct (p_sub p) as [sb|] eqn:Hs.
  - unfold run in H. apply bind_ok in H. destruct H as [_ H]. rewrite Hs in H.
    pose proof (select_spec md sb l) as SS.
    destruct (select md sb l) as [chosen l'] eqn:S.
    assert (Hl' : l' = snd (select md sb l)) by (rewrite S; reflexivity).
    assert (Hch : chosen = spec_selected md sb l).
    { destruct (spec_selected md sb l); inversion SS; reflexivity. }
    clear SS.
    destruct (s_req sb && _) eqn:Hbad; [discriminate|].
    apply bind_ok in H. destruct H as [H1 H]. apply first_failure_ok in H1.
    apply bind_ok in H. destruct H as [H2 H3].
    rewrite <- Hch.
    (* (1) the parent's own required keys *)
    assert (G1 : flat_missing (p_args p) (CDict l) = []).
    { destruct (filter _ (required_of [] (p_args p) ++ _)) eqn:FQ in H2; [|discriminate].
      apply filter_app_nil in FQ. destruct FQ as [FQ _].
      unfold flat_missing. rewrite required_of_eq in FQ.
      rewrite (filter_ext_in (fun q => negb (nonnull (CDict l) q)) (fun q => negb (present (CDict l') q))); [rewrite FQ; reflexivity|].
      intros q HIn. apply req_paths_head in HIn. destruct HIn as [k [d [rest [HIn ->]]]].
      destruct (wf_args _ _ _ _ W Hs HIn) as [Hne Hm].
      change (present (CDict l') (k :: rest)) with (nonnull (CDict l') (k :: rest)). unfold nonnull. simpl.
      rewrite Hl', assoc_select; auto. apply discarded_sub. exact Hm. }
    (* (2) nested levels below the parent's arguments *)
    assert (G2 : nest_missing (p_args p)
                   (CDict (filter (fun kw => match assoc (fst kw) (s_map sb) with Some _ => false | None => true end) l)) = []).
    { apply nm_entries_nil. intros k w HIn. apply filter_In in HIn. destruct HIn as [HIn Hn]. simpl in Hn.
      destruct (assoc k (s_map sb)) eqn:Em; [discriminate|].
      destruct (str_eqb k (s_dest sb)) eqn:Ed.
      - apply str_eqb_spec in Ed. subst k. unfold nm_entry. rewrite (wf_dest_args _ _ W Hs). reflexivity.
      - assert (In (k, w) l') as HIn'.
        { rewrite Hl'. apply in_select; auto. apply str_eqb_false_ne; exact Ed.
          apply discarded_sub. apply assoc_none_mem. exact Em. }
        pose proof (top_entries _ _ _ _ _ Hs H1 k w HIn') as FE.
        pose proof (walk_nm (schk fuel) (schk_nm fuel) (CDict [(k, w)]) (p_args p) None None []
                      (top_entry_arg _ _ _ _ _ _ Ed Em FE)) as N.
        rewrite nm_cons in N. apply app_eq_nil in N. tauto. }
    rewrite G1, G2. simpl.
    (* (4) sections of other subcommands that are kept *)
    assert (G4 : flat_map (fun kw : str * cv =>
                   match assoc (fst kw) (s_map sb) with
                   | Some sa =>
                       if match chosen with Some s => str_eqb (fst kw) s | None => false end
                          || mem_str (fst kw) (discarded md sb l)
                       then [] else map (cons (K (fst kw)))
                                        ((if match snd kw with CDict _ => negb (leafless (snd kw)) | _ => false end
                                          then flat_missing sa (snd kw) else []) ++ nest_missing sa (snd kw))
                   | None => []
                   end) l = []).
    { apply flat_map_nil. intros [k w] HIn. simpl.
      destruct (assoc k (s_map sb)) as [sa|] eqn:Em; [|reflexivity].
      destruct (match chosen with Some s => str_eqb k s | None => false end || mem_str k (discarded md sb l)) eqn:B; [reflexivity|].
      apply orb_false_iff in B. destruct B as [_ Md].
      assert (Hkd : k <> s_dest sb).
      { intros X. subst k. apply mem_assoc_some in Em. rewrite (wf_dest_sub _ _ W Hs) in Em. discriminate. }
      assert (In (k, w) l') as HIn' by (rewrite Hl'; apply in_select; auto).
      pose proof (top_entries _ _ _ _ _ Hs H1 k w HIn') as FE.
      assert (Ed : str_eqb k (s_dest sb) = false)
        by (destruct (str_eqb k (s_dest sb)) eqn:E; [apply str_eqb_spec in E; contradiction|reflexivity]).
      destruct (is_dict w) eqn:D.
      - rewrite (walk_nm (schk fuel) (schk_nm fuel) w sa None (Some k) [k]) by (eapply top_entry_section; eauto).
        rewrite app_nil_r.
        destruct w as [| | |lw|]; try discriminate.
        destruct (leafless (CDict lw)) eqn:L; [reflexivity|]. cbv beta iota. simpl negb. cbv iota.
        unfold top_entry in FE. rewrite Ed, Em in FE. simpl is_dict in FE. cbv iota in FE.
        rewrite has_leaf_leafless, L in FE. simpl negb in FE. cbv iota in FE.
        apply Forall_app in FE. destruct FE as [FE _]. inversion FE; subst.
        unfold ev_ok in H4. simpl in H4. apply bind_ok in H4. destruct H4 as [_ H4].
        rewrite (check_required1_flat _ _ _ H4). reflexivity.
      - rewrite nm_not_dict by auto. destruct w; try discriminate; reflexivity. }
    rewrite G4, app_nil_r.
    (* (3) the subcommand in force *)
    destruct chosen as [s|].
    + destruct (assoc s (s_map sb)) as [sa|] eqn:Em.
      * assert (Hsd : s <> s_dest sb).
        { intros X. subst s. apply mem_assoc_some in Em. rewrite (wf_dest_sub _ _ W Hs) in Em. discriminate. }
        assert (Ha : assoc s l' = assoc s l).
        { rewrite Hl'. apply assoc_select; auto. apply discarded_selected. symmetry. exact Hch. }
        rewrite Ha in H3.
        apply check_required1_flat in H3.
        destruct (assoc s l) as [w|] eqn:Al.
        -- rewrite H3. simpl.
           assert (In (s, w) l') as HIn'.
           { rewrite Hl'. apply in_select; auto. apply assoc_in; exact Al. apply discarded_selected. symmetry. exact Hch. }
           pose proof (top_entries _ _ _ _ _ Hs H1 s w HIn') as FE.
           destruct (is_dict w) eqn:D.
           ++ rewrite (walk_nm (schk fuel) (schk_nm fuel) w sa None (Some s) [s]); [reflexivity|].
              eapply top_entry_section; eauto.
              destruct (str_eqb s (s_dest sb)) eqn:E; [apply str_eqb_spec in E; contradiction|reflexivity].
           ++ rewrite nm_not_dict; auto.
        -- rewrite (flat_missing_null _ H3). reflexivity.
      * rewrite andb_true_r in Hbad. rewrite Hbad. reflexivity.
    + rewrite andb_true_r in Hbad. rewrite Hbad. reflexivity.
  - apply run_ok_nosub in H; [|exact Hs]. destruct H as [F R].
    rewrite (check_required1_flat _ _ _ R).
    rewrite (walk_nm (schk fuel) (schk_nm fuel) (CDict l) (p_args p) None None [] F). reflexivity.
Qed.

(* ---- the guarded forms used by the correspondence judge ------------------------------------------------ *)
Lemma guard_zero_lengths md p cfg :
  guard_class md p cfg = 0%N -> length (undeclared md p cfg) <= length (und_top md false true false p cfg).
Proof.
  unfold guard_class, undeclared.
  destruct (Nat.ltb _ _) eqn:E; [discriminate|].
  intros _. apply Nat.ltb_ge in E. exact E.
Qed.

Theorem accept_no_undeclared_guarded md fuel p cfg :
  guard_class md p cfg = 0%N -> run md fuel p cfg = Ok -> undeclared md p cfg = [].
Proof.
  intros G H. apply guard_zero_lengths in G. rewrite (accept_no_undeclared _ _ _ _ H) in G.
  apply length_zero_iff_nil. simpl in G. inversion G. reflexivity.
Qed.

Theorem accept_sound md fuel p cfg :
  wf_parser p = true -> guard_class md p cfg = 0%N -> run md fuel p cfg = Ok -> spec_ok md p cfg Accepted = true.
Proof.
  intros W G H. unfold spec_ok.
  rewrite (accept_no_undeclared_guarded _ _ _ _ G H), (accept_required _ _ _ _ W H). reflexivity.
Qed.

(* a required subcommand: an accepted configuration selects a declared one *)
Theorem accept_required_subcommand md fuel p sb l :
  wf_parser p = true -> p_sub p = Some sb -> s_req sb = true -> run md fuel p (CDict l) = Ok ->
  exists s sa, spec_selected md sb l = Some s /\ assoc s (s_map sb) = Some sa.
Proof.
  intros W Hs Hr H. pose proof (accept_required _ _ _ _ W H) as M.
  unfold missing_required in M. rewrite Hs, Hr in M.
  apply app_eq_nil in M. destruct M as [_ M]. apply app_eq_nil in M. destruct M as [_ M].
  destruct (spec_selected md sb l) as [s|]; [|discriminate].
  destruct (assoc s (s_map sb)) as [sa|] eqn:E; [|discriminate].
  exists s, sa. split; [reflexivity|exact E].
Qed.

(* ---- concrete inputs: satisfiability of the hypotheses, and the witnesses of the findings ---------------- *)
Definition ex_p : parser := {| p_args := [([97]%N, (DArg true)); ([103]%N, (DGroup [([120]%N, (DArg false))])); ([119]%N, (DData false [([100]%N, (DArg true)); ([112]%N, (DData false [([120]%N, (DArg true))]))])); ([121]%N, (DClass false [([67;49]%N, [([98]%N, (DArg true)); ([101]%N, (DList [([113]%N, (DArg true))]))])])); ([101]%N, (DList [([118]%N, (DArg true))]))]; p_sub := (Some {| s_req := true; s_dest := [115;117;98;99;111;109;109;97;110;100]%N; s_map := [([102;105;116]%N, [([117]%N, (DArg true))]); ([116;101;115;116]%N, (@nil (str * decl)))] |}) |}.
Definition ex_c : cv := (CDict [([97]%N, (CInt (1)%Z)); ([103]%N, (CDict [([120]%N, (CInt (2)%Z))])); ([119]%N, (CDict [([100]%N, (CInt (3)%Z)); ([112]%N, (CDict [([120]%N, (CInt (4)%Z))]))])); ([121]%N, (CDict [([99;108;97;115;115;95;112;97;116;104]%N, (CStr [67;49]%N)); ([105;110;105;116;95;97;114;103;115]%N, (CDict [([98]%N, (CInt (5)%Z)); ([101]%N, (CList [(CDict [([113]%N, (CInt (6)%Z))])]))]))])); ([101]%N, (CList [(CDict [([118]%N, (CInt (7)%Z))]); (CDict [([118]%N, (CInt (8)%Z))])])); ([115;117;98;99;111;109;109;97;110;100]%N, (CStr [102;105;116]%N)); ([102;105;116]%N, (CDict [([117]%N, (CInt (9)%Z))]))]).
Definition w1_p : parser := {| p_args := [([121]%N, (DArg false))]; p_sub := None |}.
Definition w1_c : cv := (CDict [([122;122]%N, (CDict (@nil (str * cv))))]).
Definition w2_p : parser := {| p_args := (@nil (str * decl)); p_sub := (Some {| s_req := true; s_dest := [115;117;98;99;111;109;109;97;110;100]%N; s_map := [([102;105;116]%N, [([117]%N, (DArg false))]); ([116;101;115;116]%N, [([118]%N, (DArg false))])] |}) |}.
Definition w2_c : cv := (CDict [([115;117;98;99;111;109;109;97;110;100]%N, (CStr [102;105;116]%N)); ([102;105;116]%N, (CDict [([117]%N, (CInt (1)%Z))])); ([116;101;115;116]%N, (CDict [([122;122]%N, (CInt (7)%Z))]))]).
Definition w3_p : parser := {| p_args := [([119]%N, (DClass true [([67;49]%N, [([98]%N, (DArg true))])]))]; p_sub := None |}.
Definition w3_c : cv := (CDict [([119]%N, (CDict [([99;108;97;115;115;95;112;97;116;104]%N, (CStr [67;49]%N)); ([122;122]%N, (CInt (7)%Z))]))]).
Definition ex_c_bad : cv := (CDict [([97]%N, (CInt (1)%Z)); ([103]%N, (CDict [([120]%N, (CInt (2)%Z))])); ([119]%N, (CDict [([100]%N, (CInt (3)%Z)); ([112]%N, (CDict [([120]%N, (CInt (4)%Z))]))])); ([121]%N, (CDict [([99;108;97;115;115;95;112;97;116;104]%N, (CStr [67;49]%N)); ([105;110;105;116;95;97;114;103;115]%N, (CDict [([98]%N, (CInt (5)%Z)); ([101]%N, (CList [(CDict [([113]%N, (CInt (6)%Z)); ([122;122]%N, (CInt (1)%Z))])]))]))])); ([101]%N, (CList [(CDict [([118]%N, (CInt (7)%Z))]); (CDict [([118]%N, (CInt (8)%Z))])])); ([115;117;98;99;111;109;109;97;110;100]%N, (CStr [102;105;116]%N)); ([102;105;116]%N, (CDict [([117]%N, (CInt (9)%Z))]))]).
Definition ex_c_miss : cv := (CDict [([97]%N, (CInt (1)%Z)); ([103]%N, (CDict [([120]%N, (CInt (2)%Z))])); ([119]%N, (CDict [([100]%N, (CInt (3)%Z)); ([112]%N, (CDict [([120]%N, (CInt (4)%Z))]))])); ([121]%N, (CDict [([99;108;97;115;115;95;112;97;116;104]%N, (CStr [67;49]%N)); ([105;110;105;116;95;97;114;103;115]%N, (CDict [([98]%N, (CInt (5)%Z)); ([101]%N, (CList [(CDict [([113]%N, (CInt (6)%Z))])]))]))])); ([101]%N, (CList [(CDict [([118]%N, (CInt (7)%Z))]); (CDict [([118]%N, (CInt (8)%Z))])])); ([115;117;98;99;111;109;109;97;110;100]%N, (CStr [102;105;116]%N)); ([102;105;116]%N, (CDict (@nil (str * cv))))]).

Definition s_zz : str := [122;122]%N.
Definition s_w : str := [119]%N.
Definition s_test : str := [116;101;115;116]%N.

(* a parser with a dotted group, a dataclass argument with a nested dataclass, a class-typed argument whose class has
   a List[dataclass] parameter, a List[dataclass] argument and a required subcommand; its valid configuration is
   accepted, lies inside the guard, and the parser is well-formed *)
Lemma example_accept :
  wf_parser ex_p = true /\ guard_class MDefaults ex_p ex_c = 0%N /\ run MDefaults 24 ex_p ex_c = Ok /\
  undeclared MDefaults ex_p ex_c = [] /\ missing_required MDefaults ex_p ex_c = [].
Proof. vm_compute. repeat split. Qed.

(* the same configuration with a foreign key in a list item inside init_args / with the required key of the selected
   subcommand removed: both rejected, the error carries the key *)
Lemma example_reject_unknown :
  exists ctx, run MDefaults 24 ex_p ex_c_bad = Err (EUnknown ctx FKey [s_zz]) /\ In (ctx ++ [K s_zz]) (undeclared MDefaults ex_p ex_c_bad).
Proof. eexists. vm_compute. split; [reflexivity|]. left; reflexivity. Qed.

Lemma example_reject_missing :
  exists ks, run MDefaults 24 ex_p ex_c_miss = Err (EMissing [] ks) /\ missing_required MDefaults ex_p ex_c_miss = map (map K) ks.
Proof. eexists. vm_compute. split; reflexivity. Qed.

(* former finding foreign-key-empty-mapping (repaired in the library, a58b0fc): the lenient pre-pass refuses the key,
   also one level down and below a group *)
Definition w1_c2 : cv := CDict [(s_zz, CDict [([121;121]%N, CDict [([107]%N, CDict [])]); (s_w, CDict [])])].
Lemma example_empty_mapping_rejected :
  run MDefaults 24 w1_p w1_c = Err (EUnknown [] FKey [s_zz]) /\ spec_ok MDefaults w1_p w1_c (RejUnknown [s_zz]) = true /\
  run MDefaults 24 w1_p w1_c2 = Err (EUnknown [] FKey [s_zz; s_w]) /\ spec_ok MDefaults w1_p w1_c2 (RejUnknown [s_zz; s_w]) = true /\
  guard_class MDefaults w1_p w1_c = 0%N.
Proof. vm_compute. repeat split. Qed.

(* finding foreign-key-in-discarded-subcommand-section *)
Lemma discarded_section_refuted :
  run MDefaults 24 w2_p w2_c = Ok /\ undeclared MDefaults w2_p w2_c = [[K s_test; K s_zz]] /\ guard_class MDefaults w2_p w2_c = 2%N.
Proof. vm_compute. repeat split. Qed.

(* former finding foreign-key-beside-class-path-misnamed (repaired in the library, 56814dd): the class value is refused as
   "Not a valid subclass", the message shows the mapping with the foreign key *)
Lemma example_class_path_extra_rejected :
  run MDefaults 24 w3_p w3_c = Err (EBadSpec [] [s_w] [s_zz]) /\
  undeclared MDefaults w3_p w3_c = [[K s_w; K s_zz]] /\ spec_ok MDefaults w3_p w3_c (RejUnknown [s_zz]) = true /\
  guard_class MDefaults w3_p w3_c = 0%N.
Proof. vm_compute. repeat split. Qed.

Lemma discarded_section_refuted_ex :
  exists md fuel p cfg, run md fuel p cfg = Ok /\ undeclared md p cfg <> [] /\ guard_class md p cfg = 2%N.
Proof. exists MDefaults, 24%nat, w2_p, w2_c. destruct discarded_section_refuted as [A [B C]]. rewrite B. repeat split; auto; discriminate. Qed.



(* ---- an unknown-key error is only raised when the configuration has an undeclared key ---------------- *)
Definition is_unk (r : res) : Prop := match r with Err (EUnknown _ _ _) => True | _ => False end.

Lemma pick_in : forall l best d x,
  pick best l = Some (d, x) ->
  (exists d0, best = Some (d0, x)) \/ (exists e, In e l /\ e_res e = Err x).
Proof.
  induction l as [|e t IH]; simpl; intros best d x H.
  - left. exists d. exact H.
  - destruct (e_res e) eqn:E.
    + apply IH in H. destruct H as [H|[e' [H1 H2]]]; [left; exact H|right; exists e'; auto].
    + destruct best as [[d0 x0]|].
      * destruct (Nat.ltb d0 (length (e_key e))).
        -- apply IH in H. destruct H as [[d1 H]|[e' [H1 H2]]].
           ++ inversion H; subst. right. exists e. auto.
           ++ right; exists e'; auto.
        -- apply IH in H. destruct H as [H|[e' [H1 H2]]]; [left; exact H|right; exists e'; auto].
      * apply IH in H. destruct H as [[d1 H]|[e' [H1 H2]]].
        -- inversion H; subst. right. exists e. auto.
        -- right; exists e'; auto.
Qed.

Lemma first_failure_in evs x : first_failure evs = Err x -> exists e, In e evs /\ e_res e = Err x.
Proof.
  unfold first_failure. destruct (pick None _) as [[d y]|] eqn:P; [|discriminate].
  intros H. inversion H; subst. apply pick_in in P. destruct P as [[d0 P]|[e [H1 H2]]]; [discriminate|].
  exists e. split; [|exact H2].
  apply in_app_or in H1. destruct H1 as [H1|H1]; apply filter_In in H1; tauto.
Qed.

Lemma is_unk_bind r k : is_unk (bind r k) -> is_unk r \/ is_unk k.
Proof. destruct r; simpl; auto. Qed.

Lemma is_unk_pushr c r : is_unk (pushr c r) -> is_unk r.
Proof. destruct r as [|[]]; simpl; auto. Qed.

Lemma und_entry_in sl sc fs l k w : In (k, w) l -> und_entry sl sc fs k w <> [] -> und sl sc fs (CDict l) <> [].
Proof.
  induction l as [|[k0 w0] t IH]; intros HIn Hne; [destruct HIn|].
  rewrite und_cons. intros E. apply app_eq_nil in E. destruct E as [E1 E2].
  destruct HIn as [X|X]; [inversion X; subst; contradiction|]. exact (IH X Hne E2).
Qed.

Lemma map_ne {A B} (f : A -> B) l : l <> [] -> map f l <> [].
Proof. destruct l; [contradiction|discriminate]. Qed.

Definition chk_unk (chk : list str -> decl -> cv -> res) : Prop :=
  forall key d w k fs, is_unk (chk key d w) -> assoc k fs = Some d ->
    match d with DList _ | DClass _ _ | DOpt _ => und_entry false false fs k w <> [] | DArg _ => False | _ => True end.

Lemma walk_entry_unk chk fs grp sub pre k w :
  chk_unk chk ->
  (forall fs' grp' pre', is_dict w = true -> (exists e, In e (walk chk fs' grp' sub pre' w) /\ is_unk (e_res e)) -> und false false fs' w <> []) ->
  (exists e, In e (walk_entry chk fs grp sub pre k w) /\ is_unk (e_res e)) -> und_entry false false fs k w <> [].
Proof.
  intros Hchk IHw [e [HIn U]]. unfold walk_entry in HIn. unfold und_entry.
  destruct (assoc k fs) as [d|] eqn:E.
  - destruct d as [r|fs'|r fs'|r cls|fs'|fs'].
    + destruct HIn as [<-|[]]. simpl in U. specialize (Hchk _ _ _ k fs U E). simpl in Hchk. destruct Hchk.
    + destruct (is_dict w) eqn:D.
      * apply in_app_or in HIn. destruct HIn as [HIn|HIn].
        -- destruct (has_leaf w); [|destruct HIn]. destruct HIn as [<-|[]]. destruct U.
        -- apply map_ne. eapply IHw; eauto.
      * destruct HIn as [<-|[]]. destruct U.
    + cbv zeta in HIn. destruct (is_dict w) eqn:D.
      * apply in_app_or in HIn. destruct HIn as [HIn|HIn].
        -- destruct (has_leaf w); [|destruct HIn]. destruct HIn as [<-|[]]. destruct U.
        -- apply map_ne. eapply IHw; eauto.
      * destruct HIn as [<-|[]]. simpl in U. destruct w; destruct U.
    + destruct HIn as [<-|[]]. simpl in U. specialize (Hchk _ _ _ k fs U E). simpl in Hchk.
      unfold und_entry in Hchk. rewrite E in Hchk. exact Hchk.
    + destruct HIn as [<-|[]]. simpl in U. specialize (Hchk _ _ _ k fs U E). simpl in Hchk.
      unfold und_entry in Hchk. rewrite E in Hchk. exact Hchk.
    + destruct HIn as [<-|[]]. simpl in U. specialize (Hchk _ _ _ k fs U E). simpl in Hchk.
      unfold und_entry in Hchk. rewrite E in Hchk. exact Hchk.
  - simpl. discriminate.
Qed.

Lemma walk_in_entry chk fs grp sub pre l e :
  In e (walk chk fs grp sub pre (CDict l)) -> exists k w, In (k, w) l /\ In e (walk_entry chk fs grp sub pre k w).
Proof.
  induction l as [|[k0 w0] t IH]; intros H; [destruct H|].
  rewrite walk_cons in H. apply in_app_or in H. destruct H as [H|H].
  - exists k0, w0. split; [left; reflexivity|exact H].
  - destruct (IH H) as [k [w [A B]]]. exists k, w. split; [right; exact A|exact B].
Qed.

Lemma walk_unk chk : chk_unk chk ->
  forall v fs grp sub pre, (exists e, In e (walk chk fs grp sub pre v) /\ is_unk (e_res e)) -> und false false fs v <> [].
Proof.
  intros Hchk. induction v using cv_ind'; intros fs grp sub pre [e [HIn U]]; try (destruct HIn).
  destruct (walk_in_entry _ _ _ _ _ _ _ HIn) as [k [w [A B]]].
  apply (und_entry_in _ _ _ _ k w A).
  rewrite Forall_forall in H. pose proof (H (k, w) A) as IHw. simpl in IHw.
  eapply walk_entry_unk; eauto.
Qed.

Lemma apply_walk_cons chk fs pre k w t :
  apply_walk chk fs pre (CDict ((k, w) :: t)) =
  bind (match assoc k fs with
        | Some (DGroup fs') | Some (DData _ fs') => apply_walk chk fs' (pre ++ [k]) w
        | Some d => chk (pre ++ [k]) d w
        | None => empty_err (pre ++ [k]) w
        end) (apply_walk chk fs pre (CDict t)).
Proof. reflexivity. Qed.

Lemma apply_walk_unk chk : chk_unk chk ->
  forall v fs pre, is_unk (apply_walk chk fs pre v) -> und false false fs v <> [].
Proof.
  intros Hchk. induction v using cv_ind'; intros fs pre U; try (destruct U).
  induction l as [|[k w] t IHl]; [destruct U|].
  rewrite apply_walk_cons in U. apply is_unk_bind in U.
  inversion H; subst. simpl in H2.
  rewrite und_cons. intros E. apply app_eq_nil in E. destruct E as [E1 E2].
  destruct U as [U|U]; [|exact (IHl H3 U E2)].
  unfold und_entry in E1. destruct (assoc k fs) as [d|] eqn:A; [|simpl in E1; discriminate].
  destruct d as [r|fs'|r fs'|r cls|fs'|fs'].
  - exact (Hchk _ _ _ k fs U A).
  - apply map_eq_nil in E1. exact (H2 _ _ U E1).
  - apply map_eq_nil in E1. exact (H2 _ _ U E1).
  - pose proof (Hchk _ _ _ k fs U A) as X. simpl in X. unfold und_entry in X. rewrite A in X. exact (X E1).
  - pose proof (Hchk _ _ _ k fs U A) as X. simpl in X. unfold und_entry in X. rewrite A in X. exact (X E1).
  - pose proof (Hchk _ _ _ k fs U A) as X. simpl in X. unfold und_entry in X. rewrite A in X. exact (X E1).
Qed.

Lemma items_unk f len fs' k (c : nat -> list seg) key :
  (forall fs v, is_unk (nested f len fs v) -> und false false fs v <> []) ->
  forall items i,
    is_unk (check_items (fun i x => if is_dict x then pushr (c i) (nested f len fs' x) else Err (EBadValue [] key)) i items) ->
    und_items false false fs' k i items <> [].
Proof.
  intros IH. induction items as [|x r IHr]; intros i U; [destruct U|].
  simpl in U. apply is_unk_bind in U. simpl. intros E. apply app_eq_nil in E. destruct E as [E1 E2].
  destruct U as [U|U]; [|exact (IHr _ U E2)].
  destruct (is_dict x); [|destruct U]. apply is_unk_pushr in U. apply map_eq_nil in E1. exact (IH _ _ U E1).
Qed.

Lemma chk_action_unk f len :
  (forall fs v, is_unk (nested f len fs v) -> und false false fs v <> []) -> chk_unk (chk_action (nested f len)).
Proof.
  intros IH key d w k fs U A. destruct d as [r|fs'|r fs'|r cls|fs'|fs']; cbv beta iota; try exact Logic.I.
  - destruct w; simpl in U; destruct U.
  - unfold und_entry. rewrite A.
    destruct w as [| |c|l|]; try (simpl in U; destruct U).
    + simpl in U. unfold args in *. destruct (assoc c cls) as [ps|]; [|destruct U].
      apply is_unk_pushr in U. exfalso. exact (IH _ _ U eq_refl).
    + simpl in U.
      destruct (assoc s_class_path l) as [[| |c| |]|] eqn:CP; try (destruct U).
      unfold class_of. rewrite CP. cbv beta iota. unfold args in *.
      destruct (filter (fun k0 => negb (spec_key k0)) (map fst l)) as [|x xs] eqn:FX.
      * destruct (assoc c cls) as [ps|] eqn:CC; [|destruct U].
        destruct (assoc s_init_args l) as [[| | |ia|]|] eqn:IA; try (destruct U).
        -- apply is_unk_pushr in U. rewrite (und_init_some _ _ _ _ _ _ IA).
           intros E. apply app_eq_nil in E. destruct E as [_ E]. apply map_eq_nil in E. exact (IH _ _ U E).
        -- apply is_unk_pushr in U. exfalso. exact (IH _ _ U eq_refl).
      * simpl. discriminate.
  - unfold und_entry. rewrite A.
    destruct w as [| | | |items]; try (simpl in U; destruct U).
    simpl in U. exact (items_unk f len fs' k (fun i => map K key ++ [I i]) key IH items 0%nat U).
  - unfold und_entry. rewrite A.
    destruct w as [| | |l|]; try (simpl in U; destruct U).
    simpl in U. apply is_unk_pushr in U. apply map_ne. exact (IH _ _ U).
Qed.

Lemma check_required1_not_unk pre fs v : ~ is_unk (check_required1 pre fs v).
Proof. unfold check_required1. destruct (filter _ _); simpl; auto. Qed.

Lemma ok_chk_unk : chk_unk (fun _ _ _ => Ok).
Proof. intros key d w k fs U. destruct U. Qed.

Lemma nested_unk : forall f len fs v, is_unk (nested f len fs v) -> und false false fs v <> [].
Proof.
  induction f as [|f IH]; intros len fs v U; [destruct U|].
  simpl in U. apply is_unk_bind in U. destruct U as [U|U].
  - eapply apply_walk_unk; [|exact U]. apply chk_action_unk. apply IH.
  - apply is_unk_bind in U. destruct U as [U|U].
    + destruct (first_failure _) as [|x] eqn:FF; [destruct U|].
      apply first_failure_in in FF. destruct FF as [e [HIn He]].
      destruct len.
      * eapply (walk_unk _ ok_chk_unk). exists e. split; [exact HIn|rewrite He; exact U].
      * eapply (walk_unk _ (chk_action_unk f false (IH false))). exists e. split; [exact HIn|rewrite He; exact U].
    + destruct len; [destruct U|]. exfalso. eapply check_required1_not_unk; eauto.
Qed.

(* ---- top level ------------------------------------------------------------------------------------------ *)
Lemma in_remove_keys_inv x ks l : In x (remove_keys ks l) -> In x l.
Proof.
  induction l as [|[k v] t IH]; simpl; [auto|].
  destruct (mem_str k ks); simpl; intros H; [right; auto|destruct H; auto].
Qed.

Lemma in_set_key_inv k w d v l : In (k, w) (set_key d v l) -> In (k, w) l \/ k = d.
Proof.
  induction l as [|[k' v'] t IH]; simpl.
  - intros [X|[]]. inversion X; subst. right; reflexivity.
  - destruct (str_eqb d k') eqn:E; simpl.
    + intros [X|X]; [inversion X; subst; right; reflexivity|left; right; exact X].
    + intros [X|X]; [left; left; exact X|]. destruct (IH X) as [Y|Y]; [left; right; exact Y|right; exact Y].
Qed.

Lemma in_select_inv md sb l k w : In (k, w) (snd (select md sb l)) -> In (k, w) l \/ k = s_dest sb.
Proof.
  rewrite select_spec. destruct (spec_selected md sb l) as [s|]; [|left; assumption].
  simpl. intros H. apply in_remove_keys_inv in H.
  destruct (assoc (s_dest sb) l) as [[| |s0| |]|]; try (apply in_set_key_inv in H; exact H). left; exact H.
Qed.

Lemma flat_map_ne {A B} (f : A -> list B) l x : In x l -> f x <> [] -> flat_map f l <> [].
Proof.
  induction l as [|y t IH]; intros HIn Hne; [destruct HIn|].
  simpl. intros E. apply app_eq_nil in E. destruct E as [E1 E2].
  destruct HIn as [->|HIn]; [contradiction|exact (IH HIn Hne E2)].
Qed.

Lemma top_walk_in_entry chk sc p sb l e :
  p_sub p = Some sb -> In e (top_walk chk sc p l) -> exists k w, In (k, w) l /\ In e (top_entry chk sc p sb k w).
Proof.
  intros Hs. induction l as [|[k0 w0] t IH]; intros H.
  - unfold top_walk in H. rewrite Hs in H. destruct H.
  - rewrite (top_walk_cons _ _ _ _ _ _ _ Hs) in H. apply in_app_or in H. destruct H as [H|H].
    + exists k0, w0. split; [left; reflexivity|exact H].
    + destruct (IH H) as [k [w [A B]]]. exists k, w. split; [right; exact A|exact B].
Qed.

Definition ut_entry (p : parser) (sb : subs) (kw : str * cv) : list (list seg) :=
  if str_eqb (fst kw) (s_dest sb) then []
  else match assoc (fst kw) (s_map sb) with
       | Some sa => map (cons (K (fst kw))) (und false false sa (snd kw))
       | None => und false false (p_args p) (CDict [kw])
       end.

Lemma undeclared_sub md p sb l : p_sub p = Some sb -> undeclared md p (CDict l) = flat_map (ut_entry p sb) l.
Proof. intros Hs. unfold undeclared, und_top. rewrite Hs. reflexivity. Qed.

Lemma mem_false_assoc {A} k (m : list (str * A)) : mem_str k (map fst m) = false -> assoc k m = None.
Proof.
  induction m as [|[k' a] t IH]; simpl; [reflexivity|].
  destruct (str_eqb k k'); simpl; [discriminate|exact IH].
Qed.

Lemma top_apply_unk chk p sb l :
  wf_parser p = true -> p_sub p = Some sb -> chk_unk chk -> is_unk (top_apply chk p l) ->
  exists kw, In kw l /\ ut_entry p sb kw <> [].
Proof.
  intros W Hs Hchk. unfold top_apply. rewrite Hs.
  induction l as [|[k w] t IH]; intros U; [destruct U|].
  apply is_unk_bind in U. destruct U as [U|U].
  - exists (k, w). split; [left; reflexivity|]. unfold ut_entry. cbn [fst snd].
    destruct (str_eqb k (s_dest sb)) eqn:Ed.
    + exfalso. exact U.
    + destruct (assoc k (s_map sb)) as [sa|].
      * apply map_ne. eapply apply_walk_unk; eauto.
      * eapply apply_walk_unk; eauto.
  - destruct (IH U) as [kw [A B]]. exists kw. split; [right; exact A|exact B].
Qed.

Lemma schk_unk fuel : chk_unk (schk fuel).
Proof. apply chk_action_unk. apply nested_unk. Qed.

Theorem unknown_error_only_if_undeclared md fuel p cfg ctx fam key :
  wf_parser p = true -> run md fuel p cfg = Err (EUnknown ctx fam key) -> undeclared md p cfg <> [].
Proof.
  intros W H.
  assert (U : is_unk (run md fuel p cfg)) by (rewrite H; exact Logic.I). clear H.
  destruct cfg as [| | |l|]; try (destruct U).
  unfold run in U. apply is_unk_bind in U.
  destruct (p_sub p) as [sb|] eqn:Hs.
  - rewrite (undeclared_sub _ _ _ _ Hs).
    destruct U as [U|U].
    + destruct (top_apply_unk _ _ _ _ W Hs (chk_action_unk fuel true (nested_unk fuel true)) U) as [kw [A B]].
      eapply flat_map_ne; eauto.
    + destruct (select md sb l) as [chosen l'] eqn:S.
      destruct (s_req sb && _); [destruct U|].
      apply is_unk_bind in U. destruct U as [U|U].
      * destruct (first_failure _) as [|x] eqn:FF; [destruct U|].
        apply first_failure_in in FF. destruct FF as [e [HIn He]].
        destruct (top_walk_in_entry _ _ _ _ _ _ Hs HIn) as [k [w [A B]]].
        assert (Ue : is_unk (e_res e)) by (rewrite He; exact U).
        unfold top_entry in B.
        destruct (str_eqb k (s_dest sb)) eqn:Ed.
        { destruct B as [<-|[]]. destruct Ue. }
        assert (In (k, w) l) as HInl.
        { replace l' with (snd (select md sb l)) in A by (rewrite S; reflexivity).
          apply in_select_inv in A. destruct A as [A|A]; [exact A|].
          subst k. rewrite str_eqb_refl in Ed. discriminate. }
        apply (flat_map_ne _ _ (k, w) HInl). unfold ut_entry. cbn [fst snd]. rewrite Ed.
        destruct (assoc k (s_map sb)) as [sa|] eqn:Em.
        -- apply map_ne. destruct (is_dict w) eqn:D.
           ++ apply in_app_or in B. destruct B as [B|B].
              ** destruct (has_leaf w); [|destruct B]. destruct B as [<-|[]]. simpl in Ue.
                 apply is_unk_bind in Ue. destruct Ue as [Ue|Ue]; [|exfalso; eapply check_required1_not_unk; eauto].
                 destruct (first_failure _) as [|y] eqn:FF2 in Ue; [destruct Ue|].
                 apply first_failure_in in FF2. destruct FF2 as [e2 [HIn2 He2]].
                 eapply (walk_unk _ (schk_unk fuel)). exists e2. split; [exact HIn2|rewrite He2; exact Ue].
              ** eapply (walk_unk _ (schk_unk fuel)). exists e. split; [exact B|exact Ue].
           ++ destruct B as [<-|[]]. destruct Ue.
        -- eapply (walk_unk _ (schk_unk fuel)). exists e. split; [exact B|exact Ue].
      * exfalso. apply is_unk_bind in U. destruct U as [U|U].
        -- destruct (filter _ _) in U; destruct U.
        -- destruct chosen as [s|]; [|destruct U]. destruct (assoc s (s_map sb)); [|destruct U].
           eapply check_required1_not_unk; eauto.
  - unfold undeclared, und_top. rewrite Hs.
    destruct U as [U|U].
    + unfold top_apply in U. rewrite Hs in U.
      eapply apply_walk_unk; [|exact U]. apply chk_action_unk. apply nested_unk.
    + apply is_unk_bind in U. destruct U as [U|U]; [|exfalso; eapply check_required1_not_unk; eauto].
      destruct (first_failure _) as [|x] eqn:FF; [destruct U|].
      apply first_failure_in in FF. destruct FF as [e [HIn He]].
      unfold top_walk in HIn. rewrite Hs in HIn.
      eapply (walk_unk _ (schk_unk fuel)). exists e. split; [exact HIn|rewrite He; exact U].
Qed.
Definition ex_c_nosec : cv := (CDict [([97]%N, (CInt (1)%Z)); ([103]%N, (CDict [([120]%N, (CInt (2)%Z))])); ([119]%N, (CDict [([100]%N, (CInt (3)%Z)); ([112]%N, (CDict [([120]%N, (CInt (4)%Z))]))])); ([121]%N, (CDict [([99;108;97;115;115;95;112;97;116;104]%N, (CStr [67;49]%N)); ([105;110;105;116;95;97;114;103;115]%N, (CDict [([98]%N, (CInt (5)%Z)); ([101]%N, (CList [(CDict [([113]%N, (CInt (6)%Z))])]))]))])); ([101]%N, (CList [(CDict [([118]%N, (CInt (7)%Z))]); (CDict [([118]%N, (CInt (8)%Z))])])); ([115;117;98;99;111;109;109;97;110;100]%N, (CStr [102;105;116]%N))]).

(* the subcommand is named but its section is missing: rejected in every mode, also when no defaults are merged in
   (parse_object / parse_string with defaults=False), where only check_required's recursion sees it *)
Lemma example_named_without_section :
  forall md, exists ks, run md 24 ex_p ex_c_nosec = Err (EMissing [] ks) /\ missing_required md ex_p ex_c_nosec = map (map K) ks.
Proof. intros []; eexists; vm_compute; split; reflexivity. Qed.

(* ---- construction history: link_arguments attempts --------------------------------------------------------------- *)
Lemma with_links_rejected p ls : (forall l, In l ls -> l_ok l = false) -> with_links p ls = p.
Proof.
  unfold with_links. revert p. induction ls as [|l t IH]; intros p H; [reflexivity|].
  simpl. unfold apply_link at 2. rewrite (H l (or_introl eq_refl)). apply IH. intros; apply H; right; assumption.
Qed.

Lemma apply_link_sub p l : p_sub (apply_link p l) = p_sub p.
Proof. unfold apply_link. destruct (l_ok l); reflexivity. Qed.

Lemma unrequire_args_names path fs : map fst (unrequire_args path fs) = map fst fs.
Proof. destruct path; [reflexivity|]. unfold unrequire_args. rewrite map_map. reflexivity. Qed.

Lemma apply_link_names p l : map fst (p_args (apply_link p l)) = map fst (p_args p).
Proof. unfold apply_link. destruct (l_ok l); [apply unrequire_args_names|reflexivity]. Qed.

Lemma with_links_sub p ls : p_sub (with_links p ls) = p_sub p.
Proof.
  unfold with_links. revert p. induction ls as [|l t IH]; intros p; [reflexivity|].
  simpl. rewrite IH. apply apply_link_sub.
Qed.

Lemma with_links_names p ls : map fst (p_args (with_links p ls)) = map fst (p_args p).
Proof.
  unfold with_links. revert p. induction ls as [|l t IH]; intros p; [reflexivity|].
  simpl. rewrite IH. apply apply_link_names.
Qed.

Lemma forallb_fst {A} (g : str -> bool) (l : list (str * A)) : forallb (fun kd => g (fst kd)) l = forallb g (map fst l).
Proof. induction l as [|x t IH]; [reflexivity|]. simpl. rewrite IH. reflexivity. Qed.

Lemma wf_with_links p ls : wf_parser (with_links p ls) = wf_parser p.
Proof.
  unfold wf_parser. rewrite with_links_sub. destruct (p_sub p) as [sb|]; [|reflexivity].
  rewrite (forallb_fst (fun k => negb (str_eqb k (s_dest sb)) && negb (mem_str k (map fst (s_map sb)))) (p_args (with_links p ls))).
  rewrite (forallb_fst (fun k => negb (str_eqb k (s_dest sb)) && negb (mem_str k (map fst (s_map sb)))) (p_args p)).
  rewrite with_links_names. reflexivity.
Qed.

(* required keys of a parser built with link_arguments attempts: whatever the history, an accepted configuration has every
   required key of the parser as the history left it; and attempts that were all rejected leave every original key required *)
Theorem accept_required_with_links md fuel p ls cfg :
  wf_parser p = true -> run md fuel (with_links p ls) cfg = Ok -> missing_required md (with_links p ls) cfg = [].
Proof. intros W H. apply (accept_required md fuel); [rewrite wf_with_links; exact W|exact H]. Qed.

Theorem accept_required_after_rejected_links md fuel p ls cfg :
  (forall l, In l ls -> l_ok l = false) ->
  wf_parser p = true -> run md fuel (with_links p ls) cfg = Ok -> missing_required md p cfg = [].
Proof. intros R W H. rewrite (with_links_rejected p ls R) in H. exact (accept_required md fuel p cfg W H). Qed.

(* ---- the list-append spelling: only more checks, so it accepts no more than the plain spelling ------------------- *)
Lemma run_append_ok md fuel p cfg apps : run_append md fuel p cfg apps = Ok -> run md fuel p cfg = Ok.
Proof.
  unfold run_append. destruct cfg as [| | |l|]; auto.
  intros H. apply bind_ok in H. destruct H as [_ H]. apply bind_ok in H. destruct H as [_ H]. exact H.
Qed.

Lemma run_append_nil md fuel p cfg : run_append md fuel p cfg [] = run md fuel p cfg.
Proof.
  unfold run_append. destruct cfg as [| | |l|]; try reflexivity.
  simpl append_checks. simpl fold_left. unfold run at 2. destruct (top_apply _ p l) eqn:E; simpl.
  - unfold run. rewrite E. reflexivity.
  - reflexivity.
Qed.

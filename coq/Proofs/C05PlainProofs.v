(* C05 — options with nargs / choices / a plain callable type (Model/C05Plain.v): under the guard the environment,
   object / document and config-via-environment channels store what the command line stores, or all reject — for ANY
   element function E, any choices, any nargs, any tokens / environment text / loader / value. *)
From JV Require Import Lib.Base Model.TyVal Model.Scalar Model.Ty Model.TyLoader Model.C05Channels Model.C05Plain Proofs.C05Proofs.

(* ---- the pipeline once more, with an arbitrary text-side input (tokens, loaded environment list) ------------------ *)
Section PipelineG.
Variable C : ty -> val -> ares.

Lemma pipeline_agree t (ra re : ares) (v : val) :
  agree ra (C t v) -> agree re (C t v) ->
  g_fixpt C t v = true -> g_none C t v = true ->
  agree (validated C t (and_then re (lenient C t))) (validated C t ra) /\
  agree (via_object C t v) (validated C t ra) /\
  agree (via_cfgenv C t v) (validated C t ra).
Proof.
  unfold g_fixpt, g_none. intros Ga Ge Gf Gn.
  assert (Hl : agree (lenient C t v) (C t v)).
  { destruct v; try apply agree_refl.
    simpl in Gn. apply ares_eqb_agree in Gn. apply agree_sym. unfold lenient. exact Gn. }
  assert (H2 : forall r, agree r (C t v) -> agree (and_then r (lenient C t)) (C t v)).
  { intros r Hr. destruct r as [w|e]; simpl.
    - destruct (C t v) as [w'|e'] eqn:E; simpl in Hr; [|tauto]. subst w'.
      apply ares_eqb_agree in Gf. simpl in Gf. destruct (C t w) as [w2|e2] eqn:E2; simpl in Gf; [|tauto]. subst w2.
      rewrite (fix_lenient _ _ _ E2). simpl. reflexivity.
    - exact Hr. }
  unfold via_object, via_cfgenv.
  split; [|split]; apply validated_agree.
  - apply agree_trans with (C t v); [|apply agree_sym; exact Ga]. apply H2. exact Ge.
  - apply agree_trans with (C t v); [exact Hl|apply agree_sym; exact Ga].
  - apply agree_trans with (C t v); [|apply agree_sym; exact Ga]. apply H2. exact Hl.
Qed.
End PipelineG.

Section PlainAgree.
Variable E : val -> ares.
Variables typed hint rawchk : bool.
Variable choices : list val.
Variable na : nargs.

Theorem plain_channels_agree (yl : str -> lres) (toks : list str) (text : str) (v : val) :
  plain_guard E typed hint rawchk choices na yl toks text v = true ->
  agree (via_plain_env E typed choices na yl text) (via_plain_argv E typed hint rawchk choices na toks) /\
  agree (via_plain_object E typed choices na v) (via_plain_argv E typed hint rawchk choices na toks) /\
  agree (via_plain_cfgenv E typed choices na v) (via_plain_argv E typed hint rawchk choices na toks).
Proof.
  unfold plain_guard, g_count, g_reads_argv, g_reads_env, g_raw. intro G.
  repeat (apply andb_true_iff in G; destruct G as [G ?]).
  rename H into Gn, H0 into Gf, H1 into Graw, H2 into Ge, H3 into Ga.
  unfold via_plain_argv, via_plain_env, via_plain_object, via_plain_cfgenv. rewrite G. simpl.
  apply ares_eqb_agree in Ga, Ge.
  apply pipeline_agree; auto.
  destruct hint; simpl in Graw.
  - apply ares_eqb_agree in Graw. eapply agree_trans; [exact Graw|exact Ga].
  - exact Ga.
Qed.

(* the config channels never count the values: with a number of values the nargs pattern does not admit the command
   line rejects whatever the other channels do *)
Lemma plain_argv_counts (toks : list str) :
  count_ok na (length toks) = false -> is_ok (via_plain_argv E typed hint rawchk choices na toks) = false.
Proof. intro H. unfold via_plain_argv. rewrite H. reflexivity. Qed.

End PlainAgree.

(* ---- witnesses ----------------------------------------------------------------------------------------------- *)
Definition w_yl : str -> lres := case_yload [([91;53;44;32;54;93]%N, LVal (VList [VInt 5; VInt 6]))].   (* "[5, 6]" *)

(* the guard is satisfiable: pos, nargs='+', choices, --k 5 6 / K='[5, 6]' / [5, 6] *)
Lemma example_plain_guard :
  plain_guard (elem as_is w_yl PfPos) true false true [VInt 5; VInt 6; VInt 7] NPlus w_yl [[53]%N; [54]%N] [91;53;44;32;54;93]%N
              (VList [VInt 5; VInt 6]) = true
  /\ via_plain_argv (elem as_is w_yl PfPos) true false true [VInt 5; VInt 6; VInt 7] NPlus [[53]%N; [54]%N] = AOk (VList [VInt 5; VInt 6]).
Proof. vm_compute. split; reflexivity. Qed.

(* finding nargs-count-unchecked: nargs=2, one value — the command line rejects, every config channel stores [5] *)
Lemma nargs_count_witness :
  let E := elem as_is w_yl PfPos in
  is_ok (via_plain_argv E true false true [] (NNum 2) [[53]%N]) = false /\
  via_plain_object E true [] (NNum 2) (VList [VInt 5]) = AOk (VList [VInt 5]) /\
  via_plain_env E true [] (NNum 2) w_yl [53]%N = AOk (VList [VInt 5]).
Proof. vm_compute. repeat split; reflexivity. Qed.

(* finding typed-choices-raw-argv: type=int, choices=[1, 2, 3], setting 2 — argparse tests the raw string "2" against
   the integers, the command line rejects; object / environment / documents store 2 *)
Lemma typed_choices_witness :
  let E := elem as_is model_yload (PfHint TInt) in
  is_ok (via_plain_argv E true true true [VInt 1; VInt 2; VInt 3] NOne [[50]%N]) = false /\
  via_plain_argv E true true false [VInt 1; VInt 2; VInt 3] NOne [[50]%N] = AOk (VInt 2) /\
  via_plain_object E true [VInt 1; VInt 2; VInt 3] NOne (VInt 2) = AOk (VInt 2) /\
  via_plain_env E true [VInt 1; VInt 2; VInt 3] NOne model_yload [50]%N = AOk (VInt 2).
Proof. vm_compute. repeat split; reflexivity. Qed.

(* Correctness of the DFS topological sort of Model/Graph.v for graphs of any size. *)
From JV Require Import Lib.Base Model.Graph.
From Coq Require Import Permutation.

Section G.
Variable succ : nat -> list nat.

(* `ordered l`: l has no duplicates and every successor of an element occurs strictly later. *)
Fixpoint ordered (l : list nat) : Prop :=
  match l with
  | [] => True
  | x :: l' => ~ In x l' /\ (forall t, In t (succ x) -> In t l') /\ ordered l'
  end.

Inductive reach : nat -> nat -> Prop :=
| reach_refl x : reach x x
| reach_step x y z : In y (succ x) -> reach y z -> reach x z.

Lemma reach_trans x y z : reach x y -> reach y z -> reach x z.
Proof. induction 1 as [|x y w Hxy Hyw IH]; intros Hz; [exact Hz|]. eapply reach_step; eauto. Qed.

Lemma reach_edge_r x y z : reach x y -> In z (succ y) -> reach x z.
Proof. intros H Hz. eapply reach_trans; [exact H|]. eapply reach_step; [exact Hz|apply reach_refl]. Qed.

Definition before (l : list nat) (u v : nat) : Prop :=
  exists l1 l2, l = l1 ++ u :: l2 /\ In v l2.

Lemma ordered_NoDup l : ordered l -> NoDup l.
Proof.
  induction l as [|x l IH]; simpl; intros H; [constructor|].
  destruct H as (Hx & _ & Hl). constructor; auto.
Qed.

Lemma ordered_before l u v : ordered l -> In u l -> In v (succ u) -> before l u v.
Proof.
  induction l as [|x l IH]; simpl; intros Ho Hu Hv; [contradiction|].
  destruct Ho as (Hx & Hs & Hl).
  destruct (Nat.eq_dec x u) as [->|Hne].
  - exists [], l. split; [reflexivity|]. apply Hs; exact Hv.
  - destruct Hu as [Hu|Hu]; [contradiction|].
    destruct (IH Hl Hu Hv) as (l1 & l2 & -> & Hin).
    exists (x :: l1), l2. split; [reflexivity|exact Hin].
Qed.

Lemma ordered_succ_closed l u t : ordered l -> In u l -> In t (succ u) -> In t l.
Proof.
  induction l as [|x l IH]; simpl; intros Ho Hu Ht; [contradiction|].
  destruct Ho as (Hx & Hs & Hl). destruct Hu as [->|Hu].
  - right. apply Hs; exact Ht.
  - right. eapply IH; eauto.
Qed.

Lemma ordered_reach_closed l u v : ordered l -> reach u v -> In u l -> In v l.
Proof.
  intros Ho H. induction H as [|x y z Hxy Hyz IH]; intros Hu; [exact Hu|].
  apply IH. eapply ordered_succ_closed; eauto.
Qed.

Lemma ordered_no_cycle l u v : ordered l -> In u l -> In v (succ u) -> reach v u -> False.
Proof.
  induction l as [|x l IH]; simpl; intros Ho Hu Hv Hr; [contradiction|].
  destruct Ho as (Hx & Hs & Hl).
  destruct (Nat.eq_dec x u) as [->|Hne].
  - apply Hx. eapply ordered_reach_closed; [exact Hl|exact Hr|]. apply Hs; exact Hv.
  - destruct Hu as [Hu|Hu]; [contradiction|]. eapply IH; eauto.
Qed.

(* ---- partial correctness of one DFS call ------------------------------------------------ *)

Definition post_loop (s : nat) (E' V : list nat) (r : tres) : Prop :=
  match r with
  | TOk V' O' => O' = V' /\ ordered V' /\
                 exists new, V' = new ++ V /\ In s new /\ (forall x, In x new -> x = s \/ ~ In x E')
  | TCycle u v => In v (succ u) /\ reach v u
  | TFuel => True
  end.

Definition post (s : nat) (E V : list nat) (r : tres) : Prop :=
  match r with
  | TOk V' O' => O' = V' /\ ordered V' /\
                 exists new, V' = new ++ V /\ In s new /\ (forall x, In x new -> ~ In x E)
  | TCycle u v => In v (succ u) /\ reach v u
  | TFuel => True
  end.

Lemma loop_post rec s E' :
  In s E' ->
  (forall x, In x E' -> reach x s) ->
  (forall t V, In t (succ s) -> ordered V -> ~ In t V -> ~ In t E' -> post t E' V (rec t V V)) ->
  forall ts V,
    (forall t, In t ts -> In t (succ s)) ->
    (forall t, In t (succ s) -> In t ts \/ In t V) ->
    ordered V -> ~ In s V ->
    post_loop s E' V (loop rec s E' ts V V).
Proof.
  intros HsE Hchain Hrec. induction ts as [|t ts IH]; intros V Hsub Hdone Hord HsV.
  - simpl. split; [reflexivity|]. split.
    + simpl. split; [exact HsV|]. split; [|exact Hord].
      intros t Ht. destruct (Hdone t Ht) as [[]|H]; exact H.
    + exists [s]. split; [reflexivity|]. split; [left; reflexivity|].
      intros x [<-|[]]. left; reflexivity.
  - cbn [loop]. destruct (mem_nat t E') eqn:HtE.
    + simpl. split; [apply Hsub; left; reflexivity|]. apply Hchain. apply mem_nat_In; exact HtE.
    + assert (HtE' : ~ In t E') by (intro H; apply mem_nat_In in H; congruence).
      destruct (mem_nat t V) eqn:HtV.
      * apply IH; auto.
        -- intros t0 H0. apply Hsub. right; exact H0.
        -- intros t0 H0. destruct (Hdone t0 H0) as [[<-|H]|H]; auto.
           right. apply mem_nat_In; exact HtV.
      * assert (HtV' : ~ In t V) by (intro H; apply mem_nat_In in H; congruence).
        assert (Hts : In t (succ s)) by (apply Hsub; left; reflexivity).
        specialize (Hrec t V Hts Hord HtV' HtE').
        destruct (rec t V V) as [V1 O1|u v|]; simpl in Hrec; [|exact Hrec|exact I].
        destruct Hrec as (-> & Hord1 & new1 & -> & Htn & Hdisj).
        assert (HsV1 : ~ In s (new1 ++ V)).
        { intro H. apply in_app_or in H. destruct H as [H|H]; [|contradiction].
          apply (Hdisj s H HsE). }
        specialize (IH (new1 ++ V)).
        assert (Hpl : post_loop s E' (new1 ++ V) (loop rec s E' ts (new1 ++ V) (new1 ++ V))).
        { apply IH; auto.
          - intros t0 H0. apply Hsub. right; exact H0.
          - intros t0 H0. destruct (Hdone t0 H0) as [[<-|H]|H]; auto.
            + right. apply in_or_app. left; exact Htn.
            + right. apply in_or_app. right; exact H. }
        destruct (loop rec s E' ts (new1 ++ V) (new1 ++ V)) as [V2 O2|u v|]; simpl in *; auto.
        destruct Hpl as (-> & Hord2 & new2 & -> & Hsn & Hdisj2).
        split; [reflexivity|]. split; [exact Hord2|].
        exists (new2 ++ new1). split; [apply app_assoc|]. split; [apply in_or_app; left; exact Hsn|].
        intros x Hx. apply in_app_or in Hx. destruct Hx as [Hx|Hx]; [apply Hdisj2; exact Hx|].
        right. apply Hdisj; exact Hx.
Qed.

Lemma dfs_post : forall f s E V,
  ordered V -> ~ In s V -> ~ In s E -> (forall x, In x E -> reach x s) ->
  post s E V (dfs f succ s E V V).
Proof.
  induction f as [|f IH]; intros s E V Hord HsV HsE Hchain; [exact I|].
  cbn [dfs].
  assert (Hpl : post_loop s (s :: E) V
                  (loop (fun t V O => dfs f succ t (s :: E) V O) s (s :: E) (succ s) V V)).
  { apply loop_post; auto.
    - left; reflexivity.
    - intros x [<-|Hx]; [apply reach_refl|apply Hchain; exact Hx].
    - intros t V0 Hts Hord0 HtV0 HtE. apply IH; auto.
      intros x [<-|Hx].
      + eapply reach_step; [exact Hts|apply reach_refl].
      + eapply reach_edge_r; [apply Hchain; exact Hx|exact Hts]. }
  destruct (loop _ s (s :: E) (succ s) V V) as [V1 O1|u v|]; simpl in *; auto.
  destruct Hpl as (-> & Hord1 & new & -> & Hsn & Hdisj).
  split; [reflexivity|]. split; [exact Hord1|]. exists new. split; [reflexivity|].
  split; [exact Hsn|]. intros x Hx. destruct (Hdisj x Hx) as [->|H]; [exact HsE|].
  intro HxE. apply H. right; exact HxE.
Qed.

(* ---- fuel sufficiency and bounds --------------------------------------------------------- *)

Variable n : nat.
Hypothesis wf : forall s t, s < n -> In t (succ s) -> t < n.

Definition fpost (V : list nat) (r : tres) : Prop :=
  match r with
  | TOk V' _ => forall x, In x V' -> In x V \/ x < n
  | TCycle _ _ => True
  | TFuel => False
  end.

Lemma loop_fuel rec s E' :
  s < n ->
  (forall t V O, t < n -> ~ In t E' -> fpost V (rec t V O)) ->
  forall ts V O, (forall t, In t ts -> t < n) -> fpost V (loop rec s E' ts V O).
Proof.
  intros Hs Hrec. induction ts as [|t ts IH]; intros V O Hts.
  - simpl. intros x [<-|Hx]; auto.
  - cbn [loop]. destruct (mem_nat t E') eqn:HtE; [exact I|].
    assert (HtE' : ~ In t E') by (intro H; apply mem_nat_In in H; congruence).
    destruct (mem_nat t V) eqn:HtV.
    + apply IH. intros t0 H0. apply Hts. right; exact H0.
    + specialize (Hrec t V O (Hts t (or_introl eq_refl)) HtE').
      destruct (rec t V O) as [V1 O1|u v|]; simpl in Hrec; auto.
      specialize (IH V1 O1 (fun t0 H0 => Hts t0 (or_intror H0))).
      destruct (loop rec s E' ts V1 O1) as [V2 O2|u v|]; simpl in *; auto.
      intros x Hx. destruct (IH x Hx) as [H|H]; auto.
Qed.

Lemma NoDup_bounded_length (l : list nat) : NoDup l -> (forall x, In x l -> x < n) -> length l <= n.
Proof.
  intros Hnd Hb. rewrite <- (seq_length n 0). apply NoDup_incl_length; [exact Hnd|].
  intros x Hx. apply in_seq. specialize (Hb x Hx). lia.
Qed.

Lemma dfs_fuel : forall f s E V O,
  s < n -> (forall x, In x E -> x < n) -> NoDup (s :: E) -> n + 1 <= f + length E ->
  fpost V (dfs f succ s E V O).
Proof.
  induction f as [|f IH]; intros s E V O Hs HE Hnd Hf.
  - exfalso. assert (length (s :: E) <= n).
    { apply NoDup_bounded_length; [exact Hnd|]. intros x [<-|Hx]; auto. }
    simpl in *. lia.
  - cbn [dfs]. apply loop_fuel; auto.
    + intros t V0 O0 Ht HtE. apply IH; auto.
      * intros x [<-|Hx]; auto.
      * constructor; [exact HtE|exact Hnd].
      * simpl. lia.
    + intros t Ht. eapply wf; eauto.
Qed.

(* ---- the outer loop and the final statement ---------------------------------------------- *)

Definition opost (srcs V : list nat) (r : tres) : Prop :=
  match r with
  | TOk V' O' => O' = V' /\ ordered V' /\ (forall x, In x V -> In x V') /\
                 (forall s, In s srcs -> In s V') /\ (forall x, In x V' -> x < n)
  | TCycle u v => In v (succ u) /\ reach v u
  | TFuel => False
  end.

Lemma outer_post : forall srcs V,
  ordered V -> (forall x, In x V -> x < n) -> (forall s, In s srcs -> s < n) ->
  opost srcs V (outer (S n) succ srcs V V).
Proof.
  induction srcs as [|s srcs IH]; intros V Hord HV Hsrcs.
  - simpl. repeat split; auto. intros s [].
  - cbn [outer]. destruct (mem_nat s V) eqn:HsV.
    + specialize (IH V Hord HV (fun s0 H0 => Hsrcs s0 (or_intror H0))).
      destruct (outer (S n) succ srcs V V) as [V1 O1|u v|]; simpl in *; auto.
      destruct IH as (-> & Hord1 & Hsub & Hs1 & Hb1). repeat split; auto.
      intros s0 [<-|H0]; auto. apply Hsub. apply mem_nat_In; exact HsV.
    + assert (HsV' : ~ In s V) by (intro H; apply mem_nat_In in H; congruence).
      assert (Hsn : s < n) by (apply Hsrcs; left; reflexivity).
      pose proof (dfs_post (S n) s [] V Hord HsV' (fun H => H) (fun x (H : In x []) => match H with end)) as Hp.
      assert (Hf : fpost V (dfs (S n) succ s [] V V)).
      { apply dfs_fuel; auto.
        - intros x [].
        - constructor; [intros []|constructor].
        - simpl. lia. }
      destruct (dfs (S n) succ s [] V V) as [V1 O1|u v|]; simpl in Hp, Hf; [|exact Hp|contradiction].
      destruct Hp as (-> & Hord1 & new & -> & Hsnew & _).
      assert (HV1 : forall x, In x (new ++ V) -> x < n).
      { intros x Hx. destruct (Hf x Hx) as [H|H]; auto. }
      specialize (IH (new ++ V) Hord1 HV1 (fun s0 H0 => Hsrcs s0 (or_intror H0))).
      destruct (outer (S n) succ srcs (new ++ V) (new ++ V)) as [V2 O2|u v|]; simpl in *; auto.
      destruct IH as (-> & Hord2 & Hsub & Hs2 & Hb2). repeat split; auto.
      * intros x Hx. apply Hsub. apply in_or_app. right; exact Hx.
      * intros s0 [<-|H0]; auto. apply Hsub. apply in_or_app. left; exact Hsnew.
Qed.

Theorem topo_idx_correct :
  match topo_idx n succ with
  | TOk _ o => Permutation o (seq 0 n) /\ NoDup o /\
               (forall u v, u < n -> In v (succ u) -> before o u v) /\
               (forall u v, u < n -> In v (succ u) -> ~ reach v u)
  | TCycle u v => In v (succ u) /\ reach v u
  | TFuel => False
  end.
Proof.
  unfold topo_idx.
  pose proof (outer_post (seq 0 n) [] I (fun x (H : In x []) => match H with end)) as H.
  assert (Hseq : forall s, In s (seq 0 n) -> s < n) by (intros s Hs; apply in_seq in Hs; lia).
  specialize (H Hseq).
  destruct (outer (S n) succ (seq 0 n) [] []) as [V o|u v|]; simpl in *; auto.
  destruct H as (-> & Hord & _ & Hall & Hb).
  assert (Hin : forall u, u < n -> In u V) by (intros u Hu; apply Hall; apply in_seq; lia).
  split; [|split; [apply ordered_NoDup; exact Hord|split]].
  - apply NoDup_Permutation; [apply ordered_NoDup; exact Hord|apply seq_NoDup|].
    intros x. split; intros Hx; [apply in_seq; specialize (Hb x Hx); lia|].
    apply Hin. apply in_seq in Hx. lia.
  - intros u v Hu Hv. apply ordered_before; auto.
  - intros u v Hu Hv Hr. eapply ordered_no_cycle; eauto.
Qed.

End G.

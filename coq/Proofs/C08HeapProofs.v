(* C08 — proofs about Model/C08Heap.v.

   frame            : under the guard, every object that existed before the call (arguments, declared
                      defaults, anything else) has exactly the same content afterwards, on the normal
                      and on every exceptional path (including running out of model fuel).
                      Method: a region invariant.  n = size of the heap before the call.
                        inv h  :=  the first n cells of h are the original ones
                                /\ every cell at a location >= n refers only to locations >= n.
                      clone of a caller's value (nothing mutable below a tuple) returns a value that
                      lives entirely in the fresh region; adapt / item writes on a fresh value write
                      only into the fresh region.
   brackets_restore : every operation leaves every global as it found it, whatever happens inside
                      (compositional over bind / bracket / catch — the nesting of try/finally regions).
*)
From JV Require Import Lib.Base Model.C08Heap.

(* ---- induction on values (nested through lists) *)
Section ValInd.
  Variable P : val -> Prop.
  Hypothesis Hint : forall z, P (VInt z).
  Hypothesis Hstr : forall s, P (VStr s).
  Hypothesis Hnone : P VNone.
  Hypothesis Htup : forall xs, Forall P xs -> P (VTup xs).
  Hypothesis Href : forall l, P (VRef l).
  Fixpoint val_ind' (v : val) : P v :=
    match v with
    | VInt z => Hint z
    | VStr s => Hstr s
    | VNone => Hnone
    | VTup xs => Htup xs ((fix go (l : list val) : Forall P l :=
                             match l with
                             | [] => Forall_nil P
                             | x :: r => Forall_cons x (val_ind' x) (go r)
                             end) xs)
    | VRef l => Href l
    end.
End ValInd.

Fixpoint refs_ge (n : nat) (v : val) : bool :=
  match v with
  | VRef l => n <=? l
  | VTup xs => forallb (refs_ge n) xs
  | _ => true
  end.

Lemma ref_free_refs_ge n v : ref_free v = true -> refs_ge n v = true.
Proof.
  induction v using val_ind'; simpl; auto; try discriminate.
  intro E. rewrite forallb_forall in *. intros x Hx.
  rewrite Forall_forall in H. auto.
Qed.

Lemma refs_ge_shift n k v : n <= k -> refs_ge n (shift_val k v) = true.
Proof.
  intro Hk. induction v using val_ind'; simpl; auto.
  - rewrite forallb_forall. intros y Hy. apply in_map_iff in Hy. destruct Hy as [x [<- Hx]].
    rewrite Forall_forall in H. auto.
  - apply Nat.leb_le. lia.
Qed.

(* ---- list facts *)
Lemma firstn_upd n l c h : n <= l -> firstn n (upd l c h) = firstn n h.
Proof.
  revert n l. induction h as [|x h IH]; intros n l Hl; simpl.
  - destruct l; reflexivity.
  - destruct l; simpl.
    + assert (n = 0) by lia. subst. reflexivity.
    + destruct n; simpl; [reflexivity|]. f_equal. apply IH. lia.
Qed.
Lemma length_upd l c h : length (upd l c h) = length h.
Proof. revert l. induction h; intros [|l]; simpl; auto. Qed.
Lemma nth_upd l c h l' : nth_error (upd l c h) l' = if Nat.eqb l l' && (l <? length h) then Some c else nth_error h l'.
Proof.
  revert l l'. induction h as [|x h IH]; intros l l'; simpl.
  - destruct l; simpl; rewrite andb_false_r; reflexivity.
  - destruct l, l'; simpl; auto. rewrite IH. reflexivity.
Qed.
Lemma forallb_set_nth (P : val -> bool) i y ys : P y = true -> forallb P ys = true -> forallb P (set_nth i y ys) = true.
Proof.
  revert i. induction ys as [|x ys IH]; intros [|i] Hy H; simpl in *; auto;
    apply andb_true_iff in H; destruct H as [H1 H2]; rewrite ?Hy, ?H1; simpl; auto.
Qed.
Lemma forallb_aset (P : val -> bool) k y kvs :
  P y = true -> forallb P (map snd kvs) = true -> forallb P (map snd (aset k y kvs)) = true.
Proof.
  induction kvs as [|[k' v'] kvs IH]; intros Hy H; simpl in *.
  - rewrite Hy. reflexivity.
  - apply andb_true_iff in H. destruct H. destruct (str_eqb k k'); simpl; rewrite ?Hy, ?H; simpl; auto.
Qed.
Lemma forallb_adel (P : val -> bool) k kvs :
  forallb P (map snd kvs) = true -> forallb P (map snd (adel k kvs)) = true.
Proof.
  induction kvs as [|[k' v'] kvs IH]; intros H; simpl in *; auto.
  apply andb_true_iff in H. destruct H. destruct (str_eqb k k'); simpl; rewrite ?H; simpl; auto.
Qed.
Lemma aget_forallb (P : val -> bool) k kvs x : forallb P (map snd kvs) = true -> aget k kvs = Some x -> P x = true.
Proof.
  induction kvs as [|[k' v'] kvs IH]; simpl; intros H E; [discriminate|].
  apply andb_true_iff in H. destruct H. destruct (str_eqb k k'); [inversion E; subst; auto | auto].
Qed.

Lemma nth_firstn_lt {A} n l (h : list A) : l < n -> nth_error (firstn n h) l = nth_error h l.
Proof.
  revert n l. induction h as [|x h IH]; intros [|n] [|l] Hl; simpl; auto; try lia. apply IH. lia.
Qed.

(* ================================================================================================
   The region invariant
   ============================================================================================== *)
Section Frame.
  Variable h0 : heap.
  Variable fx : bool.          (* false: the pinned tree; true: the tree with both C08 patches *)
  Let n := length h0.
  (* only the pinned tree needs the caller's objects to be free of containers below tuples *)
  Hypothesis h0_flat : fx = false -> heap_flat h0 = true.

  Definition closed (h : heap) : Prop :=
    forall l c, n <= l -> nth_error h l = Some c -> forallb (refs_ge n) (cell_vals c) = true.
  Definition inv (h : heap) : Prop := n <= length h /\ firstn n h = h0 /\ closed h.

  Lemma inv_h0 : inv h0.
  Proof.
    split; [unfold n; lia|]. split; [apply firstn_all|].
    intros l c Hl E.
    exfalso. assert (nth_error h0 l <> None) by congruence. apply nth_error_Some in H. unfold n in Hl. lia.
  Qed.

  Lemma inv_old h l : inv h -> l < n -> nth_error h l = nth_error h0 l.
  Proof.
    intros [Hn [Hf _]] Hl. rewrite <- Hf. symmetry. apply nth_firstn_lt. exact Hl.
  Qed.

  (* a value the callee may meet: wholly fresh, or a caller's value with nothing mutable below a tuple *)
  Definition okv (v : val) : Prop := refs_ge n v = true \/ flat_old n v = true \/ fx = true.
  Lemma okv_fixed v : fx = true -> okv v.
  Proof. intro E. right. right. exact E. Qed.
  Lemma okv_flat v : flat_old n v = true -> okv v.
  Proof. intro E. right. left. exact E. Qed.

  Lemma okv_fresh v : refs_ge n v = true -> okv v.
  Proof. left; auto. Qed.

  Lemma okv_refs_ge_nonref v : fx = false -> okv v -> (forall l, v <> VRef l) -> refs_ge n v = true.
  Proof.
    intros Efx [H|[H|H]] Hn; auto; [|congruence]. destruct v; simpl in *; auto.
    - rewrite forallb_forall in *. intros x Hx. apply ref_free_refs_ge. auto.
    - exfalso. eapply Hn. reflexivity.
  Qed.

  (* ---- H-level triples *)
  Definition hsafe {A} (c : H A) (Q : A -> Prop) : Prop :=
    forall h, inv h -> match c h with HOk a h' => inv h' /\ Q a | HErr _ h' => inv h' end.

  Lemma hsafe_ret {A} (a : A) (Q : A -> Prop) : Q a -> hsafe (hret a) Q.
  Proof. intros HQ h Hi. simpl. auto. Qed.
  Lemma hsafe_fail {A} (Q : A -> Prop) : hsafe (@hfail A) Q.
  Proof. intros h Hi. simpl. auto. Qed.
  Lemma hsafe_fuel {A} (Q : A -> Prop) : hsafe (@hfuel A) Q.
  Proof. intros h Hi. simpl. auto. Qed.
  Lemma hsafe_bind {A B} (c : H A) (f : A -> H B) P Q :
    hsafe c P -> (forall a, P a -> hsafe (f a) Q) -> hsafe (hbind c f) Q.
  Proof.
    intros Hc Hf h Hi. unfold hbind. specialize (Hc h Hi). destruct (c h) as [a h'|k h']; auto.
    destruct Hc as [Hi' Pa]. apply (Hf a Pa h' Hi').
  Qed.
  Lemma hsafe_weaken {A} (c : H A) (P Q : A -> Prop) : hsafe c P -> (forall a, P a -> Q a) -> hsafe c Q.
  Proof. intros Hc HPQ h Hi. specialize (Hc h Hi). destruct (c h); intuition. Qed.
  Lemma hsafe_catch {A} (c d : H A) Q : hsafe c Q -> hsafe d Q -> hsafe (hcatch c d) Q.
  Proof.
    intros Hc Hd h Hi. unfold hcatch. specialize (Hc h Hi). destruct (c h) as [a h'|[|] h']; auto.
    apply Hd; auto.
  Qed.

  Lemma hsafe_alloc c : forallb (refs_ge n) (cell_vals c) = true -> hsafe (halloc c) (fun v => refs_ge n v = true).
  Proof.
    intros Hc h [Hn [Hf Hcl]]. unfold halloc. split; [split; [|split]|].
    - rewrite app_length. lia.
    - rewrite firstn_app. replace (n - length h) with 0 by lia. simpl. rewrite app_nil_r. exact Hf.
    - intros l c' Hl E. destruct (Nat.ltb_spec l (length h)).
      + rewrite nth_error_app1 in E by auto. eapply Hcl; eauto.
      + rewrite nth_error_app2 in E by auto. destruct (l - length h) as [|[|k]]; simpl in E; try discriminate.
        inversion E; subst; auto.
    - simpl. apply Nat.leb_le. lia.
  Qed.

  Lemma hsafe_read v : okv v -> hsafe (hread v) (fun c => Forall okv (cell_vals c)).
  Proof.
    intros Hv h Hi. unfold hread. destruct v; auto.
    destruct (nth_error h l) as [c|] eqn:E; auto. split; auto.
    destruct (Bool.bool_dec fx true) as [Efx|Efx].
    { apply Forall_forall. intros x _. apply okv_fixed. exact Efx. }
    apply Bool.not_true_is_false in Efx. pose proof (h0_flat Efx) as Hflat.
    destruct Hv as [Hv|[Hv|Hv]]; simpl in Hv; [| |congruence].
    - apply Nat.leb_le in Hv. destruct Hi as [_ [_ Hcl]]. specialize (Hcl l c Hv E).
      rewrite forallb_forall in Hcl. apply Forall_forall. intros x Hx. left. auto.
    - apply Nat.ltb_lt in Hv. rewrite (inv_old h l Hi Hv) in E.
      unfold heap_flat in Hflat. rewrite forallb_forall in Hflat.
      specialize (Hflat c (nth_error_In _ _ E)). rewrite forallb_forall in Hflat.
      apply Forall_forall. intros x Hx. apply okv_flat. apply Hflat. auto.
  Qed.

  Lemma hsafe_read_fresh v : refs_ge n v = true -> hsafe (hread v) (fun c => forallb (refs_ge n) (cell_vals c) = true).
  Proof.
    intros Hv h Hi. unfold hread. destruct v; auto.
    destruct (nth_error h l) as [c|] eqn:E; auto. split; auto.
    simpl in Hv. apply Nat.leb_le in Hv. destruct Hi as [_ [_ Hcl]]. eapply Hcl; eauto.
  Qed.

  Lemma hsafe_read_old l : l < n -> hsafe (hread (VRef l)) (fun c => nth_error h0 l = Some c).
  Proof.
    intros Hl h Hi. unfold hread. destruct (nth_error h l) as [c|] eqn:E; auto. split; auto.
    rewrite <- E. symmetry. apply inv_old; auto.
  Qed.

  Lemma hsafe_write l c : n <= l -> forallb (refs_ge n) (cell_vals c) = true -> hsafe (hwrite l c) (fun _ => True).
  Proof.
    intros Hl Hc h Hi. unfold hwrite. destruct (Nat.ltb_spec l (length h)); auto.
    destruct Hi as [Hn [Hf Hcl]]. split; auto. split; [|split].
    - rewrite length_upd. auto.
    - rewrite firstn_upd; auto.
    - intros l' c' Hl' E. rewrite nth_upd in E. destruct (Nat.eqb l l' && (l <? length h)).
      + inversion E; subst; auto.
      + eapply Hcl; eauto.
  Qed.

  Lemma hsafe_hmap {A B} (f : A -> H B) (P : A -> Prop) (Q : B -> Prop) xs :
    (forall x, P x -> hsafe (f x) Q) -> Forall P xs -> hsafe (hmap f xs) (Forall Q).
  Proof.
    intros Hf. induction xs as [|x xs IH]; intros HP; simpl.
    - apply hsafe_ret. constructor.
    - inversion HP; subst. eapply hsafe_bind; [apply Hf; auto|]. intros y Qy.
      eapply hsafe_bind; [apply IH; auto|]. intros ys Qys. apply hsafe_ret. constructor; auto.
  Qed.
  Lemma hsafe_hiter {A} (f : A -> H unit) (P : A -> Prop) xs :
    (forall x, P x -> hsafe (f x) (fun _ => True)) -> Forall P xs -> hsafe (hiter f xs) (fun _ => True).
  Proof.
    intros Hf. induction xs as [|x xs IH]; intros HP; simpl.
    - apply hsafe_ret. auto.
    - inversion HP; subst. eapply hsafe_bind; [apply Hf; auto|]. intros _ _. apply IH; auto.
  Qed.

  Lemma Forall_refs_forallb xs : Forall (fun v => refs_ge n v = true) xs -> forallb (refs_ge n) xs = true.
  Proof. intro H. apply forallb_forall. rewrite Forall_forall in H. auto. Qed.

  (* ---- recreate_branches: whatever it is given, the copy lives in the fresh region *)
  Lemma clone_safe fuel : forall v, okv v -> hsafe (clone fx fuel v) (fun r => refs_ge n r = true).
  Proof.
    induction fuel as [|f IH]; intros v Hv; simpl; [apply hsafe_fuel|].
    destruct v; try (apply hsafe_ret; reflexivity).
    { (* a tuple: rebuilt (fixed tree) or returned as it is (pinned tree, where it holds no container) *)
      destruct (Bool.bool_dec fx true) as [Efx|Efx].
      - assert (Hxs : Forall okv xs) by (apply Forall_forall; intros x _; apply okv_fixed; exact Efx).
        pose proof (hsafe_hmap (clone fx f) okv (fun r => refs_ge n r = true) xs IH Hxs) as Hm.
        rewrite Efx in *.
        eapply hsafe_bind; [exact Hm|]. intros ys Hys. apply hsafe_ret. simpl.
        apply forallb_forall. rewrite Forall_forall in Hys. exact Hys.
      - apply Bool.not_true_is_false in Efx.
        pose proof (okv_refs_ge_nonref (VTup xs) Efx Hv ltac:(congruence)) as Hr.
        rewrite Efx. apply hsafe_ret. exact Hr. }
    eapply hsafe_bind; [apply hsafe_read; exact Hv|]. intros c Hc.
    destruct c as [xs|kvs|kvs]; simpl in Hc.
    - eapply hsafe_bind; [apply (hsafe_hmap (clone fx f) okv (fun r => refs_ge n r = true)); auto|].
      intros ys Hys. apply hsafe_alloc. simpl. apply Forall_refs_forallb; auto.
    - eapply hsafe_bind.
      + apply (hsafe_hmap _ (fun kv => okv (snd kv)) (fun kv => refs_ge n (snd kv) = true)).
        * intros kv Hkv. eapply hsafe_bind; [apply IH; exact Hkv|]. intros y Hy. apply hsafe_ret. exact Hy.
        * rewrite Forall_map in Hc. exact Hc.
      + intros ys Hys. apply hsafe_alloc. simpl. apply Forall_refs_forallb. rewrite Forall_map. exact Hys.
    - eapply hsafe_bind.
      + apply (hsafe_hmap _ (fun kv => okv (snd kv)) (fun kv => refs_ge n (snd kv) = true)).
        * intros kv Hkv. eapply hsafe_bind; [apply IH; exact Hkv|]. intros y Hy. apply hsafe_ret. exact Hy.
        * rewrite Forall_map in Hc. exact Hc.
      + intros ys Hys. apply hsafe_alloc. simpl. apply Forall_refs_forallb. rewrite Forall_map. exact Hys.
  Qed.

  (* ---- item writes on a fresh container *)
  Lemma set_list_item_safe l i y : n <= l -> refs_ge n y = true -> hsafe (set_list_item l i y) (fun _ => True).
  Proof.
    intros Hl Hy. unfold set_list_item. eapply hsafe_bind.
    - apply hsafe_read_fresh. simpl. apply Nat.leb_le. exact Hl.
    - intros c Hc. destruct c; try apply hsafe_fail. apply hsafe_write; auto. simpl in *.
      apply forallb_set_nth; auto.
  Qed.
  Lemma set_dict_item_safe l k y : n <= l -> refs_ge n y = true -> hsafe (set_dict_item l k y) (fun _ => True).
  Proof.
    intros Hl Hy. unfold set_dict_item. eapply hsafe_bind.
    - apply hsafe_read_fresh. simpl. apply Nat.leb_le. exact Hl.
    - intros c Hc. destruct c; try apply hsafe_fail. apply hsafe_write; auto. simpl in *.
      apply forallb_aset; auto.
  Qed.

  Definition fsafe (f : val -> H val) : Prop :=
    forall x, refs_ge n x = true -> hsafe (f x) (fun r => refs_ge n r = true).

  Lemma list_loop_safe f l : fsafe f -> n <= l -> forall xs i, forallb (refs_ge n) xs = true ->
    hsafe (list_loop f l i xs) (fun _ => True).
  Proof.
    intros Hf Hl. induction xs as [|x xs IH]; intros i Hxs; simpl.
    - apply hsafe_ret. auto.
    - simpl in Hxs. apply andb_true_iff in Hxs. destruct Hxs as [Hx Hxs].
      eapply hsafe_bind; [apply Hf; exact Hx|]. intros y Hy.
      eapply hsafe_bind; [apply set_list_item_safe; auto|]. intros _ _. apply IH. exact Hxs.
  Qed.
  Lemma dict_loop_safe f l : fsafe f -> n <= l -> forall kvs, forallb (refs_ge n) (map snd kvs) = true ->
    hsafe (dict_loop f l kvs) (fun _ => True).
  Proof.
    intros Hf Hl. induction kvs as [|[k x] kvs IH]; intros Hxs; simpl.
    - apply hsafe_ret. auto.
    - simpl in Hxs. apply andb_true_iff in Hxs. destruct Hxs as [Hx Hxs].
      eapply hsafe_bind; [apply Hf; exact Hx|]. intros y Hy.
      eapply hsafe_bind; [apply set_dict_item_safe; auto|]. intros _ _. apply IH. exact Hxs.
  Qed.

  Lemma seq_items_safe v : refs_ge n v = true -> hsafe (seq_items v) (fun xs => forallb (refs_ge n) xs = true).
  Proof.
    intro Hv. destruct v; simpl; try apply hsafe_fail.
    - apply hsafe_ret. exact Hv.
    - eapply hsafe_bind; [apply hsafe_read_fresh; exact Hv|]. intros c Hc.
      destruct c; try apply hsafe_fail. apply hsafe_ret. exact Hc.
  Qed.
  Lemma finish_safe m ys : forallb (refs_ge n) ys = true -> hsafe (finish m ys) (fun r => refs_ge n r = true).
  Proof. intro H. destruct m; simpl; [apply hsafe_ret; exact H | apply hsafe_alloc; exact H]. Qed.

  (* ---- adapt_typehints on a fresh value writes only fresh containers and returns a fresh value *)
  Lemma adapt_safe m t : fsafe (adapt fx m t).
  Proof.
    induction t; intros v Hv; simpl.
    - destruct v; try apply hsafe_fail; [apply hsafe_ret; auto|].
      destruct (load_int s); [apply hsafe_ret; auto | apply hsafe_fail].
    - destruct v; try apply hsafe_fail. apply hsafe_ret; auto.
    - destruct v; try apply hsafe_fail.
      + eapply hsafe_bind; [apply hsafe_alloc; exact Hv|]. intros r Hr.
        destruct r; try apply hsafe_fail. simpl in Hr. apply Nat.leb_le in Hr.
        eapply hsafe_bind; [apply list_loop_safe; auto|]. intros _ _. apply hsafe_ret. simpl. apply Nat.leb_le. exact Hr.
      + eapply hsafe_bind; [apply hsafe_read_fresh; exact Hv|]. intros c Hc.
        destruct c; try apply hsafe_fail. simpl in Hv. apply Nat.leb_le in Hv.
        destruct fx.
        * eapply hsafe_bind; [apply hsafe_alloc; exact Hc|]. intros r Hr.
          destruct r; try apply hsafe_fail. simpl in Hr. apply Nat.leb_le in Hr.
          eapply hsafe_bind; [apply list_loop_safe; auto|]. intros _ _. apply hsafe_ret. simpl. apply Nat.leb_le. exact Hr.
        * eapply hsafe_bind; [apply list_loop_safe; auto|]. intros _ _. apply hsafe_ret. simpl. apply Nat.leb_le. exact Hv.
    - destruct v; try apply hsafe_fail.
      eapply hsafe_bind; [apply hsafe_read_fresh; exact Hv|]. intros c Hc.
      destruct c; try apply hsafe_fail. simpl in Hv. apply Nat.leb_le in Hv.
      destruct fx.
      * eapply hsafe_bind; [apply hsafe_alloc; exact Hc|]. intros r Hr.
        destruct r; try apply hsafe_fail. simpl in Hr. apply Nat.leb_le in Hr.
        eapply hsafe_bind; [apply dict_loop_safe; auto|]. intros _ _. apply hsafe_ret. simpl. apply Nat.leb_le. exact Hr.
      * eapply hsafe_bind; [apply dict_loop_safe; auto|]. intros _ _. apply hsafe_ret. simpl. apply Nat.leb_le. exact Hv.
    - eapply hsafe_bind; [apply seq_items_safe; exact Hv|]. intros xs Hxs.
      destruct xs as [|x [|x' xs]]; try apply hsafe_fail.
      simpl in Hxs. rewrite andb_true_r in Hxs.
      eapply hsafe_bind; [apply IHt; exact Hxs|]. intros y Hy. apply finish_safe. simpl. rewrite Hy. reflexivity.
    - eapply hsafe_bind; [apply seq_items_safe; exact Hv|]. intros xs Hxs.
      destruct xs as [|x1 [|x2 [|x3 xs]]]; try apply hsafe_fail.
      simpl in Hxs. rewrite andb_true_r in Hxs. apply andb_true_iff in Hxs. destruct Hxs as [H1 H2].
      eapply hsafe_bind; [apply IHt1; exact H1|]. intros y1 Hy1.
      eapply hsafe_bind; [apply IHt2; exact H2|]. intros y2 Hy2.
      apply finish_safe. simpl. rewrite Hy1, Hy2. reflexivity.
    - destruct v; try (apply IHt; exact Hv). apply hsafe_ret. reflexivity.
    - destruct v; try apply hsafe_fail.
      + destruct xs as [|x xs]; [apply hsafe_ret; reflexivity|].
        simpl in Hv. apply andb_true_iff in Hv. destruct Hv as [Hx _].
        eapply hsafe_bind; [apply IHt; exact Hx|]. intros _ _. apply hsafe_fail.
      + eapply hsafe_bind; [apply hsafe_read_fresh; exact Hv|]. intros c Hc.
        destruct c; try apply hsafe_fail. pose proof Hv as Hv'. simpl in Hv. apply Nat.leb_le in Hv.
        eapply hsafe_bind; [apply list_loop_safe; auto|]. intros _ _. apply hsafe_ret. exact Hv'.
  Qed.

  Lemma adapt_hsafe m t x : refs_ge n x = true -> hsafe (adapt fx m t x) (fun r => refs_ge n r = true).
  Proof. apply adapt_safe. Qed.

  (* ---- namespace item access *)
  Lemma forallb_Forall_snd kvs : forallb (refs_ge n) (map snd kvs) = true ->
    Forall (fun kv : str * val => refs_ge n (snd kv) = true) kvs.
  Proof. intro H. rewrite forallb_forall in H. apply Forall_forall. intros kv Hkv. apply H. apply in_map. exact Hkv. Qed.

  Lemma ns_items_safe c : refs_ge n c = true -> hsafe (ns_items c) (fun kvs => forallb (refs_ge n) (map snd kvs) = true).
  Proof.
    intro Hc. unfold ns_items. eapply hsafe_bind; [apply hsafe_read_fresh; exact Hc|]. intros c' Hc'.
    destruct c'; try apply hsafe_fail. apply hsafe_ret. exact Hc'.
  Qed.
  Lemma ns_set_safe c k y : refs_ge n c = true -> refs_ge n y = true -> hsafe (ns_set c k y) (fun _ => True).
  Proof.
    intros Hc Hy. destruct c; simpl; try apply hsafe_fail.
    eapply hsafe_bind; [apply ns_items_safe; exact Hc|]. intros kvs Hk.
    apply hsafe_write; [apply Nat.leb_le; exact Hc|]. simpl. apply forallb_aset; auto.
  Qed.
  Lemma ns_del_safe c k : refs_ge n c = true -> hsafe (ns_del c k) (fun _ => True).
  Proof.
    intros Hc. destruct c; simpl; try apply hsafe_fail.
    eapply hsafe_bind; [apply ns_items_safe; exact Hc|]. intros kvs Hk.
    apply hsafe_write; [apply Nat.leb_le; exact Hc|]. simpl. apply forallb_adel; auto.
  Qed.

  (* strip_meta returns an EMPTY namespace as the same object: a handle is fresh, or an old empty namespace *)
  Definition hdl (c : val) : Prop :=
    refs_ge n c = true \/ exists l, c = VRef l /\ l < n /\ nth_error h0 l = Some (CNs []).
  Lemma hdl_okv c : hdl c -> okv c.
  Proof. intros [H|[l [-> [Hl _]]]]; [left; auto | apply okv_flat; simpl; apply Nat.ltb_lt; auto]. Qed.

  Lemma hsafe_and {A} (c : H A) (P Q : A -> Prop) : hsafe c P -> hsafe c Q -> hsafe c (fun a => P a /\ Q a).
  Proof. intros HP HQ h Hi. specialize (HP h Hi). specialize (HQ h Hi). destruct (c h); intuition. Qed.
  Lemma hsafe_read_which v : hsafe (hread v) (fun c => exists l, v = VRef l /\ (l < n -> nth_error h0 l = Some c)).
  Proof.
    intros h Hi. unfold hread. destruct v; auto. destruct (nth_error h l) as [c|] eqn:E; auto. split; auto.
    exists l. split; [reflexivity|]. intros Hl. rewrite <- E. symmetry. apply inv_old; auto.
  Qed.

  Lemma strip_meta_safe v : okv v -> hsafe (strip_meta fx v) hdl.
  Proof.
    intro Hv. unfold strip_meta. eapply hsafe_bind; [apply hsafe_read_which|]. intros c [l [-> Hc]].
    assert (Hcl : hsafe (clone fx FUEL (VRef l)) hdl).
    { eapply hsafe_weaken; [apply clone_safe; exact Hv|]. intros a Ha. left. exact Ha. }
    destruct c as [xs|kvs|kvs]; auto. destruct kvs; auto.
    apply hsafe_ret. destruct (Nat.ltb_spec l n) as [Hl|Hl].
    - right. exists l. split; [reflexivity|]. split; [exact Hl|]. apply Hc; exact Hl.
    - left. simpl. apply Nat.leb_le. exact Hl.
  Qed.

  Lemma ns_items_hdl c : hdl c ->
    hsafe (ns_items c) (fun kvs => forallb (refs_ge n) (map snd kvs) = true /\ (refs_ge n c = true \/ kvs = [])).
  Proof.
    intros [Hc|[l [-> [Hl E]]]].
    - eapply hsafe_weaken; [apply ns_items_safe; exact Hc|]. intros kvs H. split; auto.
    - unfold ns_items. eapply hsafe_bind; [apply hsafe_read_old; exact Hl|]. intros c' Hc'.
      rewrite E in Hc'. inversion Hc'; subst. apply hsafe_ret. split; auto.
  Qed.

  (* ---- M-level triples *)
  Definition safe {A} (c : M A) (Q : A -> Prop) : Prop :=
    forall s, inv (s_h s) -> match c s with Ok a s' => inv (s_h s') /\ Q a | Err _ s' => inv (s_h s') end.

  Lemma safe_ret {A} (a : A) (Q : A -> Prop) : Q a -> safe (ret a) Q.
  Proof. intros HQ s Hi. simpl. auto. Qed.
  Lemma safe_fail {A} (Q : A -> Prop) : safe (@fail A) Q.
  Proof. intros s Hi. simpl. auto. Qed.
  Lemma safe_bind {A B} (c : M A) (f : A -> M B) P Q :
    safe c P -> (forall a, P a -> safe (f a) Q) -> safe (bind c f) Q.
  Proof.
    intros Hc Hf s Hi. unfold bind. specialize (Hc s Hi). destruct (c s) as [a s'|k s']; auto.
    destruct Hc as [Hi' Pa]. apply (Hf a Pa s' Hi').
  Qed.
  Lemma safe_weaken {A} (c : M A) (P Q : A -> Prop) : safe c P -> (forall a, P a -> Q a) -> safe c Q.
  Proof. intros Hc HPQ s Hi. specialize (Hc s Hi). destruct (c s); intuition. Qed.
  Lemma safe_lift {A} (c : H A) Q : hsafe c Q -> safe (lift c) Q.
  Proof. intros Hc s Hi. unfold lift. specialize (Hc (s_h s) Hi). destruct (c (s_h s)); simpl; auto. Qed.
  Lemma safe_bracket {A} x v (c : M A) Q : safe c Q -> safe (bracket x v c) Q.
  Proof.
    intros Hc s Hi. unfold bracket.
    specialize (Hc (mkst (s_h s) (gset (s_g s) x v)) Hi). destruct (c _); simpl; auto.
  Qed.
  Lemma safe_catch {A} (c d : M A) Q : safe c Q -> safe d Q -> safe (catch c d) Q.
  Proof.
    intros Hc Hd s Hi. unfold catch. specialize (Hc s Hi). destruct (c s) as [a s'|[|] s']; auto.
    apply Hd; auto.
  Qed.
  Lemma safe_miter {A} (f : A -> M unit) (P : A -> Prop) xs :
    (forall x, P x -> safe (f x) (fun _ => True)) -> Forall P xs -> safe (miter f xs) (fun _ => True).
  Proof.
    intros Hf. induction xs as [|x xs IH]; intros HP; simpl.
    - apply safe_ret. auto.
    - inversion HP; subst. eapply safe_bind; [apply Hf; auto|]. intros _ _. apply IH; auto.
  Qed.
  Lemma Forall_True {A} (xs : list A) : Forall (fun _ => True) xs.
  Proof. induction xs; constructor; auto. Qed.

  Notation fresh := (fun r : val => refs_ge n r = true).
  Notation any := (fun _ => True).

  (* ---- the building blocks of the operations *)
  Lemma check_value_key_safe b d x : refs_ge n x = true -> safe (check_value_key fx b d x) fresh.
  Proof.
    intro Hx. unfold check_value_key.
    assert (Hb : safe (bracket G_PARENT 1 (bracket G_PATHDIR 0 (lift (adapt fx Deser (d_ty d) x)))) fresh).
    { apply safe_bracket, safe_bracket, safe_lift, adapt_hsafe. exact Hx. }
    destruct x, b; auto. apply safe_ret. reflexivity.
  Qed.

  Lemma apply_actions_safe p b cfg : refs_ge n cfg = true -> safe (apply_actions fx p b cfg) any.
  Proof.
    intro Hc. unfold apply_actions.
    eapply safe_bind; [apply safe_lift, ns_items_safe; exact Hc|]. intros kvs _.
    apply (safe_miter _ (fun _ => True)); [|apply Forall_True]. intros kv _.
    destruct (find_decl p (fst kv)) as [d|]; [|apply safe_ret; auto].
    eapply safe_bind; [apply safe_lift, ns_items_safe; exact Hc|]. intros kvs' Hk'.
    destruct (aget (fst kv) kvs') as [x|] eqn:E; [|apply safe_fail].
    pose proof (aget_forallb _ _ _ _ Hk' E) as Hx.
    destruct (b && negb (is_vstr x)); [apply safe_ret; auto|].
    eapply safe_bind; [apply safe_bracket, safe_bracket, check_value_key_safe; exact Hx|]. intros y Hy.
    apply safe_lift, ns_set_safe; auto.
  Qed.

  (* ---- assignment through a dotted key into a container of the fresh region *)
  Lemma set_item_safe v k y : refs_ge n v = true -> refs_ge n y = true -> hsafe (set_item v k y) (fun _ => True).
  Proof.
    intros Hv Hy. destruct v; simpl; try apply hsafe_fail.
    eapply hsafe_bind; [apply hsafe_read_fresh; exact Hv|]. intros c Hc.
    simpl in Hv. apply Nat.leb_le in Hv.
    destruct c; simpl in Hc; [apply hsafe_fail | |];
      (apply hsafe_write; [exact Hv | simpl; apply forallb_aset; auto]).
  Qed.

  Lemma cell_kvs_fresh c : forallb (refs_ge n) (cell_vals c) = true -> forallb (refs_ge n) (map snd (cell_kvs c)) = true.
  Proof. destruct c; simpl; auto. Qed.

  Lemma set_path_safe fuel : forall v k y, refs_ge n v = true -> refs_ge n y = true -> hsafe (set_path fuel v k y) (fun _ => True).
  Proof.
    induction fuel as [|f IH]; intros v k y Hv Hy; simpl; [apply hsafe_fuel|].
    destruct (split_dot k) as [[a rest]|]; [|apply set_item_safe; auto].
    eapply hsafe_bind; [apply hsafe_read_fresh; exact Hv|]. intros c Hc.
    destruct (is_map_cell c); simpl; [|apply hsafe_fail].
    assert (Hnew : hsafe (n0 <- halloc (empty_like c) ;; set_item v a n0 ;;; set_path f n0 rest y) (fun _ => True)).
    { eapply hsafe_bind; [apply hsafe_alloc; destruct c; reflexivity|]. intros n0 Hn0.
      eapply hsafe_bind; [apply set_item_safe; auto|]. intros _ _. apply IH; auto. }
    destruct (aget a (cell_kvs c)) as [x|] eqn:E; [|exact Hnew].
    pose proof (aget_forallb _ _ _ _ (cell_kvs_fresh c Hc) E) as Hx.
    destruct x; try exact Hnew.
    eapply hsafe_bind; [apply hsafe_read_fresh; exact Hx|]. intros c' Hc'.
    destruct (is_map_cell c'); [apply IH; auto | exact Hnew].
  Qed.

  (* the declared defaults are values the callee may meet *)
  Definition okp (p : parser) : Prop := Forall (fun d => okv (d_dflt d)) p.
  Lemma okp_flat p : parser_flat n p = true -> okp p.
  Proof.
    intro Hp. unfold parser_flat in Hp. rewrite forallb_forall in Hp. apply Forall_forall. intros d Hd.
    apply okv_flat. auto.
  Qed.
  Lemma okp_fixed p : fx = true -> okp p.
  Proof. intro E. apply Forall_forall. intros d _. apply okv_fixed. exact E. Qed.

  Lemma get_defaults_safe p : okp p -> safe (get_defaults fx p) fresh.
  Proof.
    intro Hp. unfold get_defaults.
    eapply safe_bind; [apply safe_lift, hsafe_alloc; reflexivity|]. intros cfg Hcfg.
    eapply safe_bind.
    - apply safe_lift. apply (hsafe_hiter _ (fun d => okv (d_dflt d))); [|exact Hp].
      intros d Hd. eapply hsafe_bind; [apply clone_safe; exact Hd|]. intros y Hy. apply set_path_safe; auto.
    - intros _ _. eapply safe_bind; [apply safe_bracket, apply_actions_safe; exact Hcfg|].
      intros _ _. apply safe_ret. exact Hcfg.
  Qed.

  Lemma merge_safe a b : okv a -> okv b -> safe (merge_config fx a b) fresh.
  Proof.
    intros Ha Hb. unfold merge_config.
    eapply safe_bind; [apply safe_lift, clone_safe; exact Ha|]. intros f Hf.
    eapply safe_bind; [apply safe_lift, clone_safe; exact Hb|]. intros t Ht.
    eapply (safe_bind _ _ (fun _ => True)); [apply safe_bracket, safe_ret; exact I|]. intros _ _.
    eapply safe_bind; [apply safe_lift, ns_items_safe; exact Hf|]. intros kvs Hk.
    eapply safe_bind.
    - apply safe_lift. apply (hsafe_hiter _ (fun kv : str * val => refs_ge n (snd kv) = true)).
      + intros kv Hkv. apply ns_set_safe; auto.
      + apply forallb_Forall_snd. exact Hk.
    - intros _ _. apply safe_ret. exact Ht.
  Qed.

  Lemma validate_body_safe p c : refs_ge n c = true -> safe (validate_body fx p c) any.
  Proof.
    intro Hc'. unfold validate_body.
    apply safe_bracket.
    eapply safe_bind; [apply safe_lift, ns_items_safe; exact Hc'|]. intros kvs Hk.
    apply (safe_miter _ (fun kv : str * val => refs_ge n (snd kv) = true)); [|apply forallb_Forall_snd; exact Hk].
    intros kv Hkv. destruct (find_decl p (fst kv)) as [d|]; [|apply safe_fail].
    destruct (snd kv) eqn:E; try (apply safe_ret; exact I);
      (eapply safe_bind; [apply check_value_key_safe; exact Hkv | intros _ _; apply safe_ret; exact I]).
  Qed.
  Lemma validate_safe p cfg : okv cfg -> safe (validate fx p cfg) any.
  Proof.
    intro Hc. unfold validate.
    eapply safe_bind; [apply safe_lift, clone_safe; exact Hc|]. intros c Hc'. apply validate_body_safe. exact Hc'.
  Qed.
  Lemma validate_branch_safe p cfg : okv cfg -> safe (validate_branch fx p cfg) any.
  Proof.
    intro Hc. unfold validate_branch.
    eapply safe_bind; [apply safe_lift, clone_safe; exact Hc|]. intros c Hc'.
    eapply safe_bind; [apply safe_lift, hsafe_alloc; simpl; rewrite Hc'; reflexivity|]. intros _ _.
    apply validate_body_safe. exact Hc'.
  Qed.

  Lemma parse_common_safe p cfg : refs_ge n cfg = true -> safe (parse_common fx p cfg) fresh.
  Proof.
    intro Hc. unfold parse_common.
    eapply safe_bind; [apply safe_bracket, safe_bracket, apply_actions_safe; exact Hc|]. intros _ _.
    eapply safe_bind; [apply safe_bracket, validate_safe; left; exact Hc|]. intros _ _.
    apply safe_ret. exact Hc.
  Qed.

  (* what parse_object does once it holds the namespace `a` that _apply_actions works on *)
  Lemma parse_object_tail_safe p cfg a :
    refs_ge n cfg = true -> refs_ge n a = true -> safe (parse_object_tail fx p cfg a) fresh.
  Proof.
    intros Hcfg Ha'. unfold parse_object_tail.
    eapply safe_bind; [apply safe_lift, clone_safe; left; exact Hcfg|]. intros _ _.
    eapply safe_bind; [apply apply_actions_safe; exact Ha'|]. intros _ _.
    eapply safe_bind; [apply merge_safe; left; auto|]. intros m Hm.
    apply parse_common_safe. exact Hm.
  Qed.

  (* the object handed to _apply_actions: a copy (fixed tree), or the caller's own object (pinned tree) *)
  Lemma parse_object_arg_safe a :
    safe (if fx then lift (clone fx FUEL a) else ret a) (fun r => (fx = true /\ refs_ge n r = true) \/ (fx = false /\ r = a)).
  Proof.
    pose proof (clone_safe FUEL a) as Hc. destruct (Bool.bool_dec fx true) as [Efx|Efx].
    - specialize (Hc (okv_fixed a Efx)). rewrite Efx in *. apply safe_lift.
      eapply hsafe_weaken; [exact Hc|]. intros r Hr. left. auto.
    - apply Bool.not_true_is_false in Efx. rewrite Efx. apply safe_ret. right. auto.
  Qed.

  Lemma ns_of_arg_fresh_safe arg : refs_ge n arg = true -> safe (ns_of_arg arg) fresh.
  Proof.
    intro Harg. unfold ns_of_arg.
    eapply safe_bind; [apply safe_lift, hsafe_read_fresh; exact Harg|]. intros c Hc.
    destruct c as [xs|kvs|kvs].
    - apply safe_fail.
    - apply safe_lift, hsafe_alloc. exact Hc.
    - apply safe_ret. exact Harg.
  Qed.
  Lemma ns_of_arg_guard_safe a : parse_object_arg_ok h0 a = true -> safe (ns_of_arg a) fresh.
  Proof.
    intro Ha. unfold parse_object_arg_ok in Ha. destruct a; try discriminate.
    destruct (nth_error h0 l) as [c0|] eqn:E0; try discriminate.
    destruct c0 as [|kvs0|]; try discriminate.
    assert (Hl : l < n). { unfold n. apply nth_error_Some. congruence. }
    unfold ns_of_arg.
    eapply safe_bind; [apply safe_lift, hsafe_read_old; exact Hl|]. intros c Hc.
    rewrite E0 in Hc. inversion Hc; subst c.
    apply safe_lift, hsafe_alloc. simpl. rewrite forallb_forall in *. intros x Hx.
    apply in_map_iff in Hx. destruct Hx as [kv [<- Hkv]]. apply ref_free_refs_ge. apply (Ha kv Hkv).
  Qed.

  Lemma parse_object_safe p a :
    okp p -> (fx = false -> parse_object_arg_ok h0 a = true) -> safe (parse_object fx p a) fresh.
  Proof.
    intros Hp Ha. unfold parse_object.
    eapply safe_bind; [apply get_defaults_safe; exact Hp|]. intros cfg Hcfg.
    eapply safe_bind; [apply apply_actions_safe; exact Hcfg|]. intros _ _.
    eapply safe_bind; [apply parse_object_arg_safe|]. intros arg [[Efx Harg]|[Efx ->]].
    - eapply safe_bind; [apply ns_of_arg_fresh_safe; exact Harg|].
      intros a' Ha'. apply parse_object_tail_safe; assumption.
    - eapply safe_bind; [apply ns_of_arg_guard_safe; apply Ha; exact Efx|].
      intros a' Ha'. apply parse_object_tail_safe; assumption.
  Qed.

  Lemma shift_cell_fresh k c : n <= k -> forallb (refs_ge n) (cell_vals (shift_cell k c)) = true.
  Proof.
    intro Hk. apply forallb_forall. intros x Hx.
    destruct c; simpl in Hx; repeat (apply in_map_iff in Hx; destruct Hx as [? [<- Hx]]); simpl; apply refs_ge_shift; exact Hk.
  Qed.

  Lemma load_content_safe cells root : hsafe (load_content cells root) fresh.
  Proof.
    intros h [Hn [Hf Hcl]]. unfold load_content. split; [split; [|split]|].
    - rewrite app_length. lia.
    - rewrite firstn_app. replace (n - length h) with 0 by lia. simpl. rewrite app_nil_r. exact Hf.
    - intros l c Hl E. destruct (Nat.ltb_spec l (length h)).
      + rewrite nth_error_app1 in E by auto. eapply Hcl; eauto.
      + rewrite nth_error_app2 in E by auto. apply nth_error_In in E. apply in_map_iff in E.
        destruct E as [c' [<- _]]. apply shift_cell_fresh. exact Hn.
    - apply refs_ge_shift. exact Hn.
  Qed.

  Lemma parse_string_safe p cells root : okp p -> safe (parse_string fx p cells root) fresh.
  Proof.
    intro Hp. unfold parse_string.
    eapply safe_bind.
    - apply safe_bracket.
      eapply safe_bind; [apply safe_lift, load_content_safe|]. intros d Hd.
      eapply safe_bind; [apply safe_lift, hsafe_read_fresh; exact Hd|]. intros c Hc.
      destruct c as [|kvs|]; try apply safe_fail.
      eapply safe_bind; [apply safe_lift, hsafe_alloc; exact Hc|]. intros a Ha.
      eapply safe_bind; [apply apply_actions_safe; exact Ha|]. intros _ _. apply safe_ret. exact Ha.
    - intros a Ha.
      eapply safe_bind; [apply get_defaults_safe; exact Hp|]. intros base Hb.
      eapply safe_bind; [apply merge_safe; left; auto|]. intros m Hm.
      apply parse_common_safe. exact Hm.
  Qed.

  Lemma dump_cleanup_safe p sv c : hdl c -> safe (dump_cleanup fx p sv c) any.
  Proof.
    intro Hc. unfold dump_cleanup.
    apply (safe_miter _ (fun _ => True)); [|apply Forall_True]. intros d _.
    eapply safe_bind; [apply safe_lift, ns_items_hdl; exact Hc|]. intros kvs [Hk Hor].
    destruct (aget (d_key d) kvs) as [x|] eqn:E; [|apply safe_ret; exact I].
    assert (Hc' : refs_ge n c = true). { destruct Hor as [H|H]; [exact H | subst; discriminate]. }
    pose proof (aget_forallb _ _ _ _ Hk E) as Hx.
    assert (Hgen : safe (y <-- bracket G_PARENT 1
                           (if sv then catch (lift (adapt fx Ser (d_ty d) x)) (ret x) else lift (adapt fx Ser (d_ty d) x)) ;;
                         lift (ns_set c (d_key d) y)) any).
    { eapply (safe_bind _ _ fresh).
      - apply safe_bracket. destruct sv.
        + apply safe_catch; [apply safe_lift, adapt_hsafe; exact Hx | apply safe_ret; exact Hx].
        + apply safe_lift, adapt_hsafe; exact Hx.
      - intros y Hy. apply safe_lift, ns_set_safe; auto. }
    destruct x; try exact Hgen. apply safe_lift, ns_del_safe. exact Hc'.
  Qed.

  Lemma dump_safe p sv cfg : okv cfg -> safe (dump fx p sv cfg) any.
  Proof.
    intro Hc. unfold dump.
    eapply safe_bind; [apply safe_lift, strip_meta_safe; exact Hc|]. intros c Hh.
    eapply (safe_bind _ _ (fun _ => True)).
    - apply safe_bracket.
      eapply (safe_bind _ _ (fun _ => True)).
      + destruct sv; [apply safe_ret; exact I | apply validate_safe, hdl_okv; exact Hh].
      + intros _ _. eapply safe_bind; [apply dump_cleanup_safe; exact Hh|]. intros _ _.
        eapply safe_bind; [apply safe_lift, ns_items_hdl; exact Hh|]. intros kvs [Hk _].
        eapply safe_bind; [apply safe_lift, hsafe_alloc; exact Hk|]. intros _ _. apply safe_ret. exact I.
    - intros _ _. apply safe_bracket, safe_ret. exact I.
  Qed.

  Lemma save_safe p ex cfg : okv cfg -> safe (save fx p ex cfg) any.
  Proof.
    intro Hc. unfold save. destruct ex; [apply safe_fail|].
    eapply safe_bind; [apply safe_lift, clone_safe; exact Hc|]. intros c Hc'.
    eapply safe_bind.
    - apply safe_bracket. eapply safe_bind; [apply safe_lift, strip_meta_safe; left; exact Hc'|].
      intros c2 H2. apply validate_safe, hdl_okv. exact H2.
    - intros _ _. eapply (safe_bind _ _ (fun _ => True)).
      + unfold chdir_region. apply safe_bracket, safe_bracket, safe_bracket, safe_ret. exact I.
      + intros _ _. apply dump_safe. left. exact Hc'.
  Qed.

  Lemma strip_unknown_safe p cfg : okv cfg -> safe (strip_unknown fx p cfg) fresh.
  Proof.
    intro Hc. unfold strip_unknown.
    eapply safe_bind; [apply safe_lift, clone_safe; exact Hc|]. intros c Hc'.
    eapply safe_bind; [apply safe_lift, ns_items_safe; exact Hc'|]. intros kvs _.
    eapply safe_bind.
    - apply safe_lift. apply (hsafe_hiter _ (fun _ => True)); [|apply Forall_True].
      intros kv _. destruct (find_decl p (fst kv)); [apply hsafe_ret; exact I | apply ns_del_safe; exact Hc'].
    - intros _ _. apply safe_ret. exact Hc'.
  Qed.

  Lemma inst_typed_safe p c : hdl c -> safe (inst_typed fx p c) any.
  Proof.
    intro Hh. unfold inst_typed.
    apply (safe_miter _ (fun _ => True)); [|apply Forall_True]. intros d _.
    eapply safe_bind; [apply safe_lift, ns_items_hdl; exact Hh|]. intros kvs [Hk Hor].
    destruct (aget (d_key d) kvs) as [x|] eqn:E; [|apply safe_ret; exact I].
    assert (Hc' : refs_ge n c = true). { destruct Hor as [H|H]; [exact H | subst; discriminate]. }
    pose proof (aget_forallb _ _ _ _ Hk E) as Hx.
    destruct x; try (apply safe_ret; exact I);
      (eapply safe_bind;
       [apply safe_bracket, safe_bracket, safe_bracket, safe_lift, adapt_hsafe; exact Hx
       | intros y Hy; apply safe_lift, ns_set_safe; auto]).
  Qed.

  Lemma instantiate_safe p cfg : okv cfg -> safe (instantiate fx p cfg) hdl.
  Proof.
    intro Hc. unfold instantiate.
    eapply safe_bind; [apply safe_lift, strip_meta_safe; exact Hc|]. intros c Hh.
    eapply safe_bind; [apply inst_typed_safe; exact Hh|].
    intros _ _. apply safe_ret. exact Hh.
  Qed.

  (* ---- class groups.  What strip_meta hands on: a fresh copy, or - only for sm = false - the caller's own EMPTY namespace *)
  Definition not_empty_old (v : val) : Prop := forall l, v = VRef l -> nth_error h0 l <> Some (CNs []).
  Lemma strip_meta_gen_safe sm v : okv v ->
    hsafe (strip_meta_gen sm fx v) (fun r => refs_ge n r = true \/ (sm = false /\ r = v /\ ~ not_empty_old v /\ hdl r)).
  Proof.
    intro Hv. unfold strip_meta_gen. destruct sm.
    { eapply hsafe_weaken; [apply clone_safe; exact Hv|]. intros a Ha. left. exact Ha. }
    unfold strip_meta. eapply hsafe_bind; [apply hsafe_read_which|]. intros c [l [-> Hc]].
    assert (Hcl : hsafe (clone fx FUEL (VRef l))
                        (fun r => refs_ge n r = true \/ (false = false /\ r = VRef l /\ ~ not_empty_old (VRef l) /\ hdl r))).
    { eapply hsafe_weaken; [apply clone_safe; exact Hv|]. intros a Ha. left. exact Ha. }
    destruct c as [xs|kvs|kvs]; auto. destruct kvs; auto.
    apply hsafe_ret. destruct (Nat.ltb_spec l n) as [Hl|Hl].
    - right. split; [reflexivity|]. split; [reflexivity|]. split.
      + intro Hne. apply (Hne l eq_refl). apply Hc. exact Hl.
      + right. exists l. split; [reflexivity|]. split; [exact Hl|]. apply Hc; exact Hl.
    - left. simpl. apply Nat.leb_le. exact Hl.
  Qed.

  Lemma group_step_safe c g : refs_ge n c = true -> safe (group_step c g) any.
  Proof.
    intro Hc. unfold group_step. apply safe_bracket, safe_bracket.
    eapply safe_bind; [apply safe_lift, hsafe_alloc; reflexivity|]. intros obj Hobj.
    apply safe_lift, ns_set_safe; auto.
  Qed.

  Lemma instantiate_groups_safe sm p gs cfg :
    okv cfg -> (sm = false -> gs = [] \/ not_empty_old cfg) -> safe (instantiate_groups sm fx p gs cfg) hdl.
  Proof.
    intros Hc G. unfold instantiate_groups.
    eapply safe_bind; [apply safe_lift, strip_meta_gen_safe; exact Hc|]. intros c Hr.
    assert (Hh : hdl c). { destruct Hr as [H|[_ [_ [_ H]]]]; [left; exact H | exact H]. }
    eapply safe_bind; [apply inst_typed_safe; exact Hh|]. intros _ _.
    eapply (safe_bind _ _ any).
    - destruct Hr as [Hf|[Esm [-> [Hne _]]]].
      + apply (safe_miter _ (fun _ => True)); [|apply Forall_True]. intros g _. apply group_step_safe. exact Hf.
      + destruct (G Esm) as [->|Hg]; [simpl; apply safe_ret; exact I | contradiction].
    - intros _ _. apply safe_ret. exact Hh.
  Qed.

  Lemma groups_guard_parts o a gs : groups_guard h0 o = true -> o = OInstantiateGroups a gs -> gs = [] \/ not_empty_old a.
  Proof.
    intros G ->. simpl in G. destruct gs as [|g gs]; [left; reflexivity|]. right. intros l ->.
    destruct (nth_error h0 l) as [[xs|kvs|[|kv kvs]]|]; try discriminate; congruence.
  Qed.

  Lemma guard_parts p o : guard p h0 o = true ->
    forallb (flat_old n) (op_args o) = true /\ parser_flat n p = true
    /\ (forall a, o = OParseObject a -> parse_object_arg_ok h0 a = true).
  Proof.
    unfold guard, guard_class. fold n.
    destruct (groups_guard h0 o); simpl; [|discriminate].
    destruct (forallb (flat_old n) (op_args o) && parser_flat n p) eqn:E; simpl; [|discriminate].
    apply andb_true_iff in E. destruct E as [Hargs Hp]. intro G. split; [exact Hargs|]. split; [exact Hp|].
    intros a ->. destruct (parse_object_arg_ok h0 a); [reflexivity | discriminate].
  Qed.

  (* one statement for both trees: the pinned tree under the guard, the fixed tree without *)
  Lemma run_op_safe sm p o : (fx = false -> guard p h0 o = true) -> (sm = false -> groups_guard h0 o = true) ->
    safe (run_op_sm sm fx p o) any.
  Proof.
    intros G GG.
    assert (Hargs : Forall okv (op_args o)).
    { apply Forall_forall. intros a Ha. destruct (Bool.bool_dec fx true) as [Efx|Efx]; [apply okv_fixed; exact Efx|].
      apply Bool.not_true_is_false in Efx. destruct (guard_parts p o (G Efx)) as [H _].
      rewrite forallb_forall in H. apply okv_flat. auto. }
    assert (Hp : okp p).
    { destruct (Bool.bool_dec fx true) as [Efx|Efx]; [apply okp_fixed; exact Efx|].
      apply Bool.not_true_is_false in Efx. destruct (guard_parts p o (G Efx)) as [_ [H _]]. apply okp_flat. exact H. }
    assert (Hpo : forall a, o = OParseObject a -> fx = false -> parse_object_arg_ok h0 a = true).
    { intros a -> Efx. destruct (guard_parts _ _ (G Efx)) as [_ [_ H]]. apply H. reflexivity. }
    destruct o; simpl in Hargs; simpl;
      repeat match type of Hargs with Forall _ (_ :: _) => inversion_clear Hargs as [|? ? ? Hargs'];
                                                           try rename Hargs' into Hargs end.
    - eapply safe_weaken; [apply get_defaults_safe; exact Hp | auto].
    - eapply safe_weaken; [apply parse_object_safe; [exact Hp | apply Hpo; reflexivity] | auto].
    - eapply safe_weaken; [apply parse_string_safe; exact Hp | auto].
    - unfold parse_path, chdir_region. eapply safe_weaken; [apply safe_bracket, safe_bracket, parse_string_safe; exact Hp | auto].
    - eapply safe_bind; [apply validate_safe; auto|]. intros _ _. apply safe_ret. exact I.
    - eapply safe_bind; [apply validate_branch_safe; auto|]. intros _ _. apply safe_ret. exact I.
    - eapply safe_bind; [apply dump_safe; auto|]. intros _ _. apply safe_ret. exact I.
    - eapply safe_bind; [apply save_safe; auto|]. intros _ _. apply safe_ret. exact I.
    - eapply safe_weaken; [apply merge_safe; auto | auto].
    - eapply safe_weaken; [apply strip_unknown_safe; auto | auto].
    - eapply safe_weaken; [apply instantiate_groups_safe; [auto | intros _; left; reflexivity] | auto].
    - eapply safe_weaken; [apply instantiate_groups_safe; [auto | intro Esm; eapply groups_guard_parts; [exact (GG Esm) | reflexivity]] | auto].
  Qed.

  Lemma get_defaults_fresh_in_section p g :
    okp p ->
    match get_defaults fx p (mkst h0 g) with
    | Ok r s' => refs_ge n r = true /\ inv (s_h s')
    | Err _ _ => True
    end.
  Proof.
    intro Hp. pose proof (get_defaults_safe p Hp (mkst h0 g) inv_h0) as H.
    destruct (get_defaults fx p (mkst h0 g)); intuition.
  Qed.
End Frame.

Lemma guard_heap_flat p h o : guard p h o = true -> heap_flat h = true.
Proof.
  unfold guard, guard_class.
  destruct (negb (groups_guard h o)); [discriminate|].
  destruct (negb _); [discriminate|].
  destruct o; try (destruct (heap_flat h); [reflexivity | discriminate]).
  destruct (parse_object_arg_ok h a); [|discriminate]. destruct (heap_flat h); [reflexivity | discriminate].
Qed.

(* frame: every object that existed before the call is, after the call, exactly what it was —
   whether the call returned or raised (or the model ran out of fuel). *)
Lemma guard_groups p h o : guard p h o = true -> groups_guard h o = true.
Proof. unfold guard, guard_class. destruct (groups_guard h o); [reflexivity | discriminate]. Qed.

Lemma frame_sm :
  forall (sm fx : bool) (p : parser) (h0 : heap) (o : op) (g : globals),
    (fx = false -> guard p h0 o = true) -> (sm = false -> groups_guard h0 o = true) ->
    firstn (length h0) (s_h (out_st (run_op_sm sm fx p o (mkst h0 g)))) = h0.
Proof.
  intros sm fx p h0 o g G GG.
  assert (Hf : fx = false -> heap_flat h0 = true) by (intro E; exact (guard_heap_flat _ _ _ (G E))).
  pose proof (run_op_safe h0 fx Hf sm p o G GG (mkst h0 g) (inv_h0 h0)) as H. simpl in H.
  destruct (run_op_sm sm fx p o (mkst h0 g)) as [a s'|k s']; simpl; [destruct H as [[_ [H _]] _] | destruct H as [_ [H _]]]; exact H.
Qed.

Lemma frame_gen :
  forall (fx : bool) (p : parser) (h0 : heap) (o : op) (g : globals),
    (fx = false -> guard p h0 o = true) -> groups_guard h0 o = true ->
    firstn (length h0) (s_h (out_st (run_op_gen fx p o (mkst h0 g)))) = h0.
Proof. intros fx p h0 o g G GG. apply (frame_sm false); auto. Qed.

Theorem frame_all :
  forall (p : parser) (h0 : heap) (o : op) (g : globals),
    guard p h0 o = true ->
    firstn (length h0) (s_h (out_st (run_op p o (mkst h0 g)))) = h0.
Proof. intros p h0 o g G. apply (frame_gen false); [intros _; exact G | exact (guard_groups _ _ _ G)]. Qed.

(* the tree with the first two patches: no guard but the one of the open finding empty-config-not-copied *)
Theorem frame_fixed :
  forall (p : parser) (h0 : heap) (o : op) (g : globals),
    groups_guard h0 o = true ->
    firstn (length h0) (s_h (out_st (run_op_fixed p o (mkst h0 g)))) = h0.
Proof. intros p h0 o g GG. apply (frame_gen true); [discriminate | exact GG]. Qed.

(* ... with strip_meta always copying as well: no guard at all *)
Theorem frame_fixed3 :
  forall (p : parser) (h0 : heap) (o : op) (g : globals),
    firstn (length h0) (s_h (out_st (run_op_fixed3 p o (mkst h0 g)))) = h0.
Proof. intros p h0 o g. apply (frame_sm true true); discriminate. Qed.

Lemma nth_frame (h0 h : heap) l c : firstn (length h0) h = h0 -> nth_error h0 l = Some c -> nth_error h l = Some c.
Proof.
  intros H E. assert (Hl : l < length h0) by (apply nth_error_Some; congruence).
  rewrite <- (nth_firstn_lt (length h0) l _ Hl). rewrite H. exact E.
Qed.

Corollary frame_loc :
  forall (p : parser) (h0 : heap) (o : op) (g : globals) (l : nat) (c : cell),
    guard p h0 o = true -> nth_error h0 l = Some c ->
    nth_error (s_h (out_st (run_op p o (mkst h0 g)))) l = Some c.
Proof. intros p h0 o g l c G E. eapply nth_frame; [apply frame_all; exact G | exact E]. Qed.

Corollary frame_fixed_loc :
  forall (p : parser) (h0 : heap) (o : op) (g : globals) (l : nat) (c : cell),
    groups_guard h0 o = true -> nth_error h0 l = Some c ->
    nth_error (s_h (out_st (run_op_fixed p o (mkst h0 g)))) l = Some c.
Proof. intros p h0 o g l c GG E. eapply nth_frame; [apply frame_fixed; exact GG | exact E]. Qed.

Corollary frame_fixed3_loc :
  forall (p : parser) (h0 : heap) (o : op) (g : globals) (l : nat) (c : cell),
    nth_error h0 l = Some c ->
    nth_error (s_h (out_st (run_op_fixed3 p o (mkst h0 g)))) l = Some c.
Proof. intros p h0 o g l c E. eapply nth_frame; [apply frame_fixed3 | exact E]. Qed.

(* get_defaults hands out a tree that shares no container with the declared defaults (or anything
   else that existed), and leaves the declared defaults as they were: calling it twice gives two
   separate trees. *)
Lemma defaults_untouched_gen :
  forall (fx : bool) (p : parser) (h0 : heap) (g : globals),
    (fx = false -> guard p h0 OGetDefaults = true) ->
    match get_defaults fx p (mkst h0 g) with
    | Ok r s' => refs_ge (length h0) r = true /\ firstn (length h0) (s_h s') = h0
    | Err _ s' => firstn (length h0) (s_h s') = h0
    end.
Proof.
  intros fx p h0 g G.
  assert (Hf : fx = false -> heap_flat h0 = true) by (intro E; exact (guard_heap_flat _ _ _ (G E))).
  pose proof (frame_gen fx p h0 OGetDefaults g G eq_refl) as Hfr. simpl in Hfr.
  assert (Hp : okp h0 fx p).
  { destruct fx; [apply okp_fixed; reflexivity|]. apply okp_flat.
    specialize (G eq_refl). unfold guard, guard_class in G. simpl in G.
    destruct (parser_flat (length h0) p); [reflexivity | discriminate]. }
  pose proof (get_defaults_fresh_in_section h0 fx Hf p g Hp) as H.
  destruct (get_defaults fx p (mkst h0 g)); simpl in *; intuition.
Qed.

Theorem defaults_untouched_thm :
  forall (p : parser) (h0 : heap) (g : globals),
    guard p h0 OGetDefaults = true ->
    match get_defaults false p (mkst h0 g) with
    | Ok r s' => refs_ge (length h0) r = true /\ firstn (length h0) (s_h s') = h0
    | Err _ s' => firstn (length h0) (s_h s') = h0
    end.
Proof. intros p h0 g G. apply (defaults_untouched_gen false). intros _. exact G. Qed.

Theorem defaults_untouched_fixed :
  forall (p : parser) (h0 : heap) (g : globals),
    match get_defaults true p (mkst h0 g) with
    | Ok r s' => refs_ge (length h0) r = true /\ firstn (length h0) (s_h s') = h0
    | Err _ s' => firstn (length h0) (s_h s') = h0
    end.
Proof. intros p h0 g. apply (defaults_untouched_gen true). discriminate. Qed.

(* ================================================================================================
   brackets_restore: globals after = globals before, for every operation and every failure point
   ============================================================================================== *)
Definition restores {A} (c : M A) : Prop := forall s x, s_g (out_st (c s)) x = s_g s x.

Lemma restores_ret {A} (a : A) : restores (ret a).
Proof. intros s x. reflexivity. Qed.
Lemma restores_fail {A} : restores (@fail A).
Proof. intros s x. reflexivity. Qed.
Lemma restores_lift {A} (c : H A) : restores (lift c).
Proof. intros s x. unfold lift. destruct (c (s_h s)); reflexivity. Qed.
Lemma restores_bind {A B} (c : M A) (f : A -> M B) : restores c -> (forall a, restores (f a)) -> restores (bind c f).
Proof.
  intros Hc Hf s x. unfold bind. specialize (Hc s x). destruct (c s) as [a s'|k s']; simpl in *; auto.
  rewrite (Hf a s' x). exact Hc.
Qed.
(* the try/finally region: whatever the body does to the global it sets — and however it ends —
   the previous value is back afterwards; the other globals are as the body left them *)
Lemma restores_bracket {A} x v (c : M A) : restores c -> restores (bracket x v c).
Proof.
  intros Hc s y. unfold bracket. specialize (Hc (mkst (s_h s) (gset (s_g s) x v)) y).
  destruct (c _) as [a s'|k s']; simpl in *; unfold gset in *; destruct (Nat.eqb_spec x y); subst; auto.
Qed.
Lemma restores_catch {A} (c d : M A) : restores c -> restores d -> restores (catch c d).
Proof.
  intros Hc Hd s x. unfold catch. specialize (Hc s x). destruct (c s) as [a s'|[|] s']; simpl in *; auto.
  rewrite (Hd s' x). exact Hc.
Qed.
Lemma restores_miter {A} (f : A -> M unit) xs : (forall x, restores (f x)) -> restores (miter f xs).
Proof. intro Hf. induction xs; simpl; [apply restores_ret | apply restores_bind; auto]. Qed.

Create HintDb rstdb.
Ltac rst :=
  repeat first
    [ solve [auto with rstdb nocore]
    | apply restores_ret | apply restores_fail | apply restores_lift
    | apply restores_bracket | apply restores_catch
    | apply restores_miter; intros
    | apply restores_bind; [|intros]
    | progress cbv zeta
    | match goal with
      | |- restores (match ?x with _ => _ end) => destruct x
      | |- restores (if ?x then _ else _) => destruct x
      end ].

Lemma check_value_key_restores fx b d x : restores (check_value_key fx b d x).
Proof. unfold check_value_key. rst. Qed.
#[global] Hint Resolve check_value_key_restores : rstdb.
Lemma apply_actions_restores fx p b c : restores (apply_actions fx p b c).
Proof. unfold apply_actions. rst. Qed.
#[global] Hint Resolve apply_actions_restores : rstdb.
Lemma get_defaults_restores fx p : restores (get_defaults fx p).
Proof. unfold get_defaults. rst. Qed.
#[global] Hint Resolve get_defaults_restores : rstdb.
Lemma merge_restores fx a b : restores (merge_config fx a b).
Proof. unfold merge_config. rst. Qed.
#[global] Hint Resolve merge_restores : rstdb.
Lemma validate_restores fx p c : restores (validate fx p c).
Proof. unfold validate, validate_body. rst. Qed.
Lemma validate_branch_restores fx p c : restores (validate_branch fx p c).
Proof. unfold validate_branch, validate_body. rst. Qed.
#[global] Hint Resolve validate_branch_restores : rstdb.
#[global] Hint Resolve validate_restores : rstdb.
Lemma parse_common_restores fx p c : restores (parse_common fx p c).
Proof. unfold parse_common. rst. Qed.
#[global] Hint Resolve parse_common_restores : rstdb.
Lemma parse_object_restores fx p a : restores (parse_object fx p a).
Proof. unfold parse_object, parse_object_tail, ns_of_arg. rst. Qed.
Lemma parse_string_restores fx p cs r : restores (parse_string fx p cs r).
Proof. unfold parse_string. rst. Qed.
#[global] Hint Resolve parse_object_restores parse_string_restores : rstdb.
Lemma dump_cleanup_restores fx p sv c : restores (dump_cleanup fx p sv c).
Proof. unfold dump_cleanup. rst. Qed.
#[global] Hint Resolve dump_cleanup_restores : rstdb.
Lemma dump_restores fx p sv c : restores (dump fx p sv c).
Proof. unfold dump. rst. Qed.
#[global] Hint Resolve dump_restores : rstdb.
Lemma save_restores fx p ex c : restores (save fx p ex c).
Proof. unfold save, chdir_region. rst. Qed.
Lemma strip_unknown_restores fx p c : restores (strip_unknown fx p c).
Proof. unfold strip_unknown. rst. Qed.
Lemma inst_typed_restores fx p c : restores (inst_typed fx p c).
Proof. unfold inst_typed. rst. Qed.
#[global] Hint Resolve inst_typed_restores : rstdb.
Lemma instantiate_restores fx p c : restores (instantiate fx p c).
Proof. unfold instantiate. rst. Qed.
Lemma instantiate_groups_restores sm fx p gs c : restores (instantiate_groups sm fx p gs c).
Proof. unfold instantiate_groups, group_step. rst. Qed.
#[global] Hint Resolve save_restores strip_unknown_restores instantiate_restores instantiate_groups_restores : rstdb.

Lemma brackets_restore_sm :
  forall (sm fx : bool) (p : parser) (o : op) (s : st) (x : nat), s_g (out_st (run_op_sm sm fx p o s)) x = s_g s x.
Proof.
  intros sm fx p o. change (restores (run_op_sm sm fx p o)). destruct o; simpl; unfold parse_path, chdir_region; rst.
Qed.
Lemma brackets_restore_gen :
  forall (fx : bool) (p : parser) (o : op) (s : st) (x : nat), s_g (out_st (run_op_gen fx p o s)) x = s_g s x.
Proof. exact (brackets_restore_sm false). Qed.
Theorem brackets_restore_fixed3 :
  forall (p : parser) (o : op) (s : st) (x : nat), s_g (out_st (run_op_fixed3 p o s)) x = s_g s x.
Proof. exact (brackets_restore_sm true true). Qed.
Theorem brackets_restore_thm :
  forall (p : parser) (o : op) (s : st) (x : nat), s_g (out_st (run_op p o s)) x = s_g s x.
Proof. exact (brackets_restore_gen false). Qed.
Theorem brackets_restore_fixed :
  forall (p : parser) (o : op) (s : st) (x : nat), s_g (out_st (run_op_fixed p o s)) x = s_g s x.
Proof. exact (brackets_restore_gen true). Qed.

(* a region WITHOUT the finally (the value is put back only on the normal path) does not restore:
   this is what the theorem rules out for the bracketed code *)
Definition bracket_nofinally {A} (x : nat) (v : N) (body : M A) : M A :=
  fun s =>
    let old := s_g s x in
    match body (mkst (s_h s) (gset (s_g s) x v)) with
    | Ok a s' => Ok a (mkst (s_h s') (gset (s_g s') x old))
    | Err k s' => Err k s'
    end.
Lemma nofinally_leaks : exists s, s_g (out_st (bracket_nofinally G_CWD 1 (@fail unit) s)) G_CWD <> s_g s G_CWD.
Proof. exists (mkst [] g0). vm_compute. discriminate. Qed.

(* any nest of try/finally regions around any body that itself restores the globals restores them,
   however the body ends (induction over the nesting) *)
Lemma regions_restore {A} (gs : list nat) (body : M A) : restores body -> restores (regions gs body).
Proof. intro Hb. induction gs as [|g r IH]; simpl; [exact Hb | apply restores_bracket; exact IH]. Qed.

Theorem aux_restore_thm :
  forall (entry : N) (fails : bool) (s : st) (x : nat), s_g (out_st (aux_run entry fails s)) x = s_g s x.
Proof.
  intros entry fails. change (restores (aux_run entry fails)). unfold aux_run. apply regions_restore.
  destruct fails; [apply restores_fail | apply restores_ret].
Qed.

(* C15 — one level of subcommands (Model/C15Tree.v): the invariant and the dump statement for a parser tree, observed
   through the TOP parser. Links may be declared in the top parser, in the subcommand parser, or in both. *)
From JV Require Import Lib.Base Lib.C15Val Model.C15Links Model.C15Tree
  Proofs.C15Proofs Proofs.C15DumpProofs Proofs.C15ItemsProofs Proofs.C15Witness.

Section WithFn.
Variable fn : nat -> list val -> option val.
Variable classes : list cls.

Lemma tree_invariant_generic p q n pre cfg :
  links_good p -> links_good q ->
  overlap_free (map al_link (p_links p)) = true -> overlap_free (map al_link (p_links q)) = true ->
  (forall a, In a (p_links p) -> comparable (al_tgt a) [n] = false) ->
  finish_tree fn classes p q n pre = Ok cfg ->
  (forall a, In a (p_links p) -> holds fn a cfg) /\
  (forall subpre, get pre [n] = Some subpre ->
     exists s, get cfg [n] = Some s /\ forall a, In a (p_links q) -> holds fn a s).
Proof.
  intros [Wp Ep] [Wq Eq] Op Oq Inc F. unfold finish_tree in F.
  destruct (apply_sub fn q n pre) as [c1|e] eqn:A; [|discriminate].
  destruct (apply_links fn c1 (p_links p)) as [c|e] eqn:B; [|discriminate].
  destruct (validate_tree classes p q n c); [|discriminate]. inversion F; subst c; clear F.
  destruct (apply_links_inv fn (p_links p) c1 cfg Wp (indep_of_checks _ Ep Op) B) as [Hp Fp].
  split; [exact Hp|].
  intros subpre G. unfold apply_sub in A. rewrite G in A.
  destruct (apply_links fn subpre (p_links q)) as [s'|e] eqn:C; [|discriminate].
  inversion A; subst c1; clear A.
  exists s'. split.
  - rewrite (Fp [n]) by exact Inc. exact (get_set_same pre [n] s').
  - apply (proj1 (apply_links_inv fn (p_links q) subpre s' Wq (indep_of_checks _ Eq Oq) C)).
Qed.

Theorem tree_link_invariant ds ls ds' ls' n pre cfg :
  let p := fst (build ds ls) in
  let q := fst (build ds' ls') in
  overlap_free (map al_link (p_links p)) = true -> overlap_free (map al_link (p_links q)) = true ->
  (forall a, In a (p_links p) -> comparable (al_tgt a) [n] = false) ->
  finish_tree fn classes p q n pre = Ok cfg ->
  (forall a, In a (p_links p) -> holds fn a cfg) /\
  (forall subpre, get pre [n] = Some subpre ->
     exists s, get cfg [n] = Some s /\ forall a, In a (p_links q) -> holds fn a s).
Proof. intros p q. apply tree_invariant_generic; apply build_good. Qed.

End WithFn.

(* ------------------------------------------------------------------ dump through the top parser *)
Lemma strip_target_absent p cfg a :
  marks_good p -> In a (p_links p) -> al_tgt a <> [] -> get (strip p cfg) (al_tgt a) = None.
Proof.
  intros M Ha N. rewrite strip_unfold. apply fold_del_in; [|exact N]. apply target_in_strip_keys; auto.
Qed.

(* no target of the top parser's links and no target of the subcommand parser's links (under the subcommand's key) is
   left in what the TOP parser dumps — in particular when the top parser has no link of its own *)
Theorem tree_targets_absent_from_dump ds ls ds' ls' n cfg :
  let p := fst (build ds ls) in
  let q := fst (build ds' ls') in
  (forall a, In a (p_links p) -> al_tgt a <> [] ->
     comparable (al_tgt a) [n] = false -> get (strip_tree strip p q n cfg) (al_tgt a) = None) /\
  (forall a, In a (p_links q) -> al_tgt a <> [] -> get (strip_tree strip p q n cfg) (n :: al_tgt a) = None).
Proof.
  intros p q. unfold strip_tree. split.
  - intros a Ha N Inc.
    pose proof (strip_target_absent p cfg a (build_marks_good ds ls) Ha N) as T.
    destruct (get (strip p cfg) [n]) as [s|]; [|exact T].
    rewrite get_set_incomp; [exact T|]. rewrite comparable_sym. exact Inc.
  - intros a Ha N.
    destruct (get (strip p cfg) [n]) as [s|] eqn:G.
    + change (n :: al_tgt a) with ([n] ++ al_tgt a). rewrite get_set_below.
      apply (strip_target_absent q s a (build_marks_good ds' ls') Ha N).
    + change (n :: al_tgt a) with ([n] ++ al_tgt a). rewrite get_app. rewrite G. reflexivity.
Qed.

(* ------------------------------------------------------------------ example: links ONLY in the subcommand parser
   top: --s int=0, no link_arguments call at all; subcommand "fit": the parser of Proofs/C15Witness.v
   (--a, --b, --t required; (a,b) --add--> t). *)
Definition sS : str := [115]%N.
Definition sFit : str := [102;105;116]%N.
Definition tr_top : list decl := [int_arg [sS] (VInt 0)].
Definition tr_pre : val := VMap [(sS, VInt 3); (sFit, VMap [(sA, VInt 5); (sB, VInt 7); (sT, VInt 99)])].
Definition tr_cfg : val := VMap [(sS, VInt 3); (sFit, ex_cfg)].

Example tr_no_top_links : p_links (fst (build tr_top [])) = [].
Proof. reflexivity. Qed.
Example tr_finish :
  finish_tree wfn [] (fst (build tr_top [])) (fst (build ex_decls ex_links)) sFit tr_pre = Ok tr_cfg.
Proof. vm_compute. reflexivity. Qed.
Example tr_dump :
  strip_tree strip (fst (build tr_top [])) (fst (build ex_decls ex_links)) sFit tr_cfg
  = VMap [(sS, VInt 3); (sFit, VMap [(sA, VInt 5); (sB, VInt 7)])].
Proof. vm_compute. reflexivity. Qed.

(* ------------------------------------------------------------------ finding subcommand-env-defaults-stale-target
   subcommand "fit": --a int=0, --y Any="q"; link_arguments("y", "a"). `fit --y=9` parses to a == 9, the dump holds
   fit: {y: 9}; loading that dump through the top parser (default_env) merges it over the subcommand's defaults WITH
   the link applied to them (a == "q"), and the leaf check of a rejects "q". *)
Definition st_decls : list decl :=
  [int_arg [sA] (VInt 0);
   {| d_key := [sY]; d_kind := KPlain TAny; d_default := VStr [113]%N; d_required := false; d_alias := false |}].
Definition st_links : list link := [{| l_src := [[sY]]; l_tgt := [sA]; l_fn := None |}].
Definition st_pre : val := VMap [(sS, VInt 3); (sFit, VMap [(sY, VInt 9); (sA, VInt 9)])].

Lemma stale_refuted :
  exists ds ls ds' ls' n pre cfg sub,
    let p := fst (build ds ls) in
    let q := fst (build ds' ls') in
    finish_tree wfn [] p q n pre = Ok cfg /\
    overlap_free (map al_link (p_links q)) = true /\
    get (strip_tree strip p q n cfg) [n] = Some sub /\
    stale_default_target wfn [] q = true /\
    reload_sub wfn false q sub = Err EOther.
Proof.
  exists tr_top, [], st_decls, st_links, sFit, st_pre, st_pre, (VMap [(sY, VInt 9)]).
  repeat split; vm_compute; reflexivity.
Qed.

(* with the defaults/environment stage run under skip_apply_links the same dump loads, and the link recomputes a *)
Example st_fixed_reload :
  reload_sub wfn true (fst (build st_decls st_links)) (VMap [(sY, VInt 9)]) = Ok (VMap [(sY, VInt 9)]) /\
  apply_links wfn (VMap [(sY, VInt 9)]) (p_links (fst (build st_decls st_links))) = Ok (VMap [(sY, VInt 9); (sA, VInt 9)]).
Proof. split; vm_compute; reflexivity. Qed.

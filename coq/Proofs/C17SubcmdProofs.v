(* C17 — proofs about Model/C17Subcmd.v *)
From JV Require Import Lib.Base Model.C17Subcmd Spec.C17SubcmdSpec.

(* ---------- association lists ---------- *)
Lemma str_eqb_sym a b : str_eqb a b = str_eqb b a.
Proof.
  destruct (str_eqb a b) eqn:E; destruct (str_eqb b a) eqn:F; auto.
  - apply str_eqb_spec in E. subst. rewrite str_eqb_refl in F. discriminate.
  - apply str_eqb_spec in F. subst. rewrite str_eqb_refl in E. discriminate.
Qed.

Lemma str_eqb_neq a b : a <> b -> str_eqb a b = false.
Proof. intro H. destruct (str_eqb a b) eqn:E; auto. apply str_eqb_spec in E. contradiction. Qed.

Lemma get_set k k' v c : get k (set k' v c) = if str_eqb k k' then Some v else get k c.
Proof.
  induction c as [|[k0 v0] t IH]; simpl.
  - destruct (str_eqb k k'); reflexivity.
  - destruct (str_eqb k' k0) eqn:E; simpl.
    + apply str_eqb_spec in E. subst k0. destruct (str_eqb k k'); reflexivity.
    + destruct (str_eqb k k0) eqn:F.
      * apply str_eqb_spec in F. subst k0. rewrite str_eqb_sym, E. reflexivity.
      * exact IH.
Qed.

Lemma get_del k k' c : get k (del k' c) = if str_eqb k k' then None else get k c.
Proof.
  induction c as [|[k0 v0] t IH]; simpl.
  - destruct (str_eqb k k'); reflexivity.
  - destruct (str_eqb k' k0) eqn:E; simpl.
    + apply str_eqb_spec in E. subst k0. rewrite IH. destruct (str_eqb k k'); reflexivity.
    + destruct (str_eqb k k0) eqn:F.
      * apply str_eqb_spec in F. subst k0. rewrite str_eqb_sym, E. reflexivity.
      * exact IH.
Qed.

Lemma assoc_In {A} k (l : list (str * A)) v : assoc k l = Some v -> In (k, v) l.
Proof.
  induction l as [|[k0 v0] t IH]; simpl; [discriminate|].
  destruct (str_eqb k k0) eqn:E.
  - intro H. inversion H; subst. apply str_eqb_spec in E. subst. auto.
  - auto.
Qed.

Lemma assoc_In_names {A} k (l : list (str * A)) v : assoc k l = Some v -> In k (map fst l).
Proof. intro H. apply assoc_In in H. apply (List.in_map fst) in H. exact H. Qed.

(* ---------- merge keeps the keys of its target ---------- *)
Lemma merge_cons k v t to :
  merge ((k, v) :: t) to =
  merge t (match v with
           | NNs _ => if leafy v then set k (NNs (mergeN v (as_ns (get k to)))) to else to
           | _ => set k v to
           end).
Proof. reflexivity. Qed.

Lemma merge_nil to : merge [] to = to.
Proof. reflexivity. Qed.

Lemma is_some_set k k' v c : is_some (get k c) = true -> is_some (get k (set k' v c)) = true.
Proof. rewrite get_set. destruct (str_eqb k k'); auto. Qed.

Lemma merge_keeps k from : forall to, is_some (get k to) = true -> is_some (get k (merge from to)) = true.
Proof.
  induction from as [|[k0 v0] t IH]; intros to H.
  - exact H.
  - rewrite merge_cons. apply IH.
    destruct v0; try (apply is_some_set; exact H).
    destruct (leafy (NNs l)); [apply is_some_set|]; exact H.
Qed.

(* ---------- well-formed parser trees ---------- *)
Inductive wf : parser -> Prop :=
| wf_intro c opts has req dest cs :
    (forall k, In k (map fst opts) -> ~ In k (map fst cs) /\ k <> dest) ->
    ~ In dest (map fst cs) ->
    (forall n, In n (map fst cs) -> n <> []) ->
    (forall n q, In (n, q) cs -> wf q) ->
    wf (Parser c opts has req dest cs).

Lemma wf_sub p s sp : wf p -> assoc s (p_choices p) = Some sp -> wf sp.
Proof. intros W H. inversion W; subst. simpl in H. apply assoc_In in H. eauto. Qed.

Lemma wf_opt_not_name p k : wf p -> In k (map fst (p_opts p)) -> ~ In k (p_names p) /\ k <> p_dest p.
Proof. intros W H. inversion W; subst. simpl in *. auto. Qed.

Lemma wf_dest_not_name p : wf p -> ~ In (p_dest p) (p_names p).
Proof. intros W. inversion W; subst. simpl. auto. Qed.

Lemma wf_name_nonempty p n : wf p -> In n (p_names p) -> n <> [].
Proof. intros W. inversion W; subst. simpl. auto. Qed.

(* complete is kept when option keys keep their presence *)
Lemma complete_frame p cfg cfg' :
  (forall k, In k (map fst (p_opts p)) -> is_some (get k cfg) = true -> is_some (get k cfg') = true) ->
  complete p cfg = true -> complete p cfg' = true.
Proof.
  unfold complete. intros F H. rewrite forallb_forall in *. intros [k d] I.
  simpl. apply F. { apply (List.in_map fst) in I. exact I. } apply (H _ I).
Qed.

Lemma complete_defaults p : complete p (get_defaults p) = true.
Proof.
  unfold complete, get_defaults. apply forallb_forall. intros [k d] I. simpl.
  assert (G : forall (pre : ns), (forall x, In x pre -> fst x = cfg_key \/ True) ->
              is_some (get k (pre ++ map (fun kd => (fst kd, NInt (snd kd))) (p_opts p) ++
                               (if p_has p then [(p_dest p, NNone)] else []))) = true).
  { intros pre _. induction pre as [|[a b] pre IH]; simpl.
    - induction (p_opts p) as [|[k1 d1] t IH]; simpl in *; [contradiction|].
      destruct (str_eqb k k1) eqn:E; [reflexivity|].
      destruct I as [I|I]; [inversion I; subst; rewrite str_eqb_refl in E; discriminate|]. auto.
    - destruct (str_eqb k a); [reflexivity|exact IH]. }
  apply G. auto.
Qed.

(* ---------- get_subcommands ---------- *)
Lemma node_is_str_spec v k : node_is_str v k = true <-> v = NStr k.
Proof.
  destruct v; simpl; split; intro H; try discriminate.
  - apply str_eqb_spec in H. subst. reflexivity.
  - inversion H. apply str_eqb_refl.
Qed.

Lemma get_dels v keys : forall c o,
  get o (dels v keys c) = if mem_str o keys && negb (node_is_str v o) then None else get o c.
Proof.
  unfold dels. induction keys as [|k t IH]; intros c o; simpl; [reflexivity|].
  rewrite IH. destruct (str_eqb o k) eqn:E.
  - apply str_eqb_spec in E. subst k. simpl.
    destruct (node_is_str v o) eqn:N; simpl.
    + rewrite andb_false_r. reflexivity.
    + rewrite andb_true_r. rewrite get_del, str_eqb_refl. destruct (mem_str o t); reflexivity.
  - simpl. destruct (node_is_str v k); [reflexivity|].
    rewrite get_del, E. reflexivity.
Qed.

Definition keys_of (p : parser) (cfg : ns) : list str :=
  filter (fun k => is_ns (get k cfg)) (p_names p).

Lemma keys_of_In p cfg o : In o (keys_of p cfg) <-> In o (p_names p) /\ is_ns (get o cfg) = true.
Proof. unfold keys_of. apply filter_In. Qed.

Lemma short_list_same (l : list str) a b : (1 <? length l)%nat = false -> In a l -> In b l -> a = b.
Proof.
  destruct l as [|x [|y t]]; simpl; intros H A B; try contradiction.
  - destruct A, B; try contradiction; congruence.
  - discriminate.
Qed.

Section WithVariant.
Variable fx : variant.
Let af : bool := negb (fx_falsy fx).

(* what gs_finish does with a chosen value v *)
Definition chosen_shape (failno : bool) (p : parser) (cfg cfg1 : ns) (subs : list node) : Prop :=
  (exists n, get (p_dest p) cfg1 = Some (NStr n) /\ n <> [] /\ subs = [NStr n] /\
             (n <> p_dest p -> get n cfg1 = get n cfg) /\
             (forall o, In o (p_names p) -> is_ns (get o cfg1) = true ->
                        In n (p_names p) -> is_ns (get n cfg) = true -> o = n) /\
             (failno = true -> p_req p = true -> In n (p_names p)))
  \/ (exists v, get (p_dest p) cfg1 = Some v /\ (forall s, v <> NStr s) /\ v <> NNone /\ subs = [v])
  \/ (exists v, get (p_dest p) cfg1 = Some v /\ v <> NNone /\ truthy v = false /\
                (failno = true -> fx_falsy fx = false)).

Lemma gs_finish_some failno p cfg cfg0 v cfg1 subs :
  wf p ->
  (forall k, k <> p_dest p -> get k cfg0 = get k cfg) ->
  get (p_dest p) cfg0 = Some v -> v <> NNone ->
  (forall n, v = NStr n -> n <> []) ->
  gs_finish fx failno true p (keys_of p cfg) cfg0 (Some v) = Ok (cfg1, subs) ->
  (forall k, ~ In k (p_names p) -> k <> p_dest p -> get k cfg1 = get k cfg) /\
  (forall k, In k (p_names p) -> get k cfg1 = get k cfg \/ get k cfg1 = None) /\
  get (p_dest p) cfg1 = Some v /\
  chosen_shape failno p cfg cfg1 subs.
Proof.
  intros W F0 D0 Vn Vne G. unfold gs_finish in G. rewrite !orb_true_r, !andb_true_r in G.
  set (keys := keys_of p cfg) in *.
  assert (Dk : mem_str (p_dest p) keys = false).
  { destruct (mem_str (p_dest p) keys) eqn:M; [|reflexivity].
    apply mem_str_In in M. apply keys_of_In in M. destruct M as [I _].
    destruct (wf_dest_not_name p W I). }
  assert (R : exists b : bool, cfg1 = (if b then dels v keys cfg0 else cfg0) /\
              (b = true -> truthy v = true /\ (1 <? length keys)%nat = true) /\
              (b = false -> truthy v = false \/ (1 <? length keys)%nat = false) /\
              subs = (if truthy v then [v] else map NStr keys) /\
              (failno = true -> (p_req p || fx_falsy fx) = true -> in_map p v = true)).
  { exists (truthy v && (1 <? length keys)%nat).
    assert (Q : Ok ((if truthy v && (1 <? length keys)%nat then dels v keys cfg0 else cfg0),
                    (if truthy v then [v] else map NStr keys)) = Ok (cfg1, subs) /\
                (failno = true -> (p_req p || fx_falsy fx) = true -> in_map p v = true)).
    { destruct failno.
      - destruct ((p_req p || fx_falsy fx) && negb (in_map p v)) eqn:Q; [discriminate|]. split; [exact G|].
        intros _ Rq. rewrite Rq in Q. simpl in Q. destruct (in_map p v); [reflexivity|discriminate].
      - split; [exact G|]. intro; discriminate. }
    destruct Q as [Q1 Q2]. inversion Q1; subst. repeat split; auto.
    - apply andb_true_iff in H. tauto.
    - apply andb_true_iff in H. tauto.
    - intro H. apply andb_false_iff in H. exact H. }
  destruct R as [b [R1 [Rt [Rf [R2 R3]]]]]. clear G.
  assert (G1 : forall k, get k cfg1 = if b && (mem_str k keys && negb (node_is_str v k))
                                     then None else get k cfg0).
  { intro k. subst cfg1. destruct b; simpl; [apply get_dels|reflexivity]. }
  assert (D1 : get (p_dest p) cfg1 = Some v).
  { rewrite G1, Dk. simpl. rewrite andb_false_r. exact D0. }
  split; [|split; [|split]].
  - intros k Nk Dk'. rewrite G1. destruct (mem_str k keys) eqn:M.
    + apply mem_str_In in M. apply keys_of_In in M. destruct M; contradiction.
    + simpl. rewrite andb_false_r. apply F0. exact Dk'.
  - intros k Ik. rewrite G1.
    destruct (b && (mem_str k keys && negb (node_is_str v k))); [right; reflexivity|].
    left. apply F0. intro E. subst k. exact (wf_dest_not_name p W Ik).
  - exact D1.
  - unfold chosen_shape. destruct (truthy v) eqn:T.
    + destruct v as [z|n| |l].
      * right. left. exists (NInt z). repeat split; auto. intros s E; discriminate.
      * left. exists n. split; [exact D1|]. split; [apply Vne; reflexivity|]. split; [exact R2|].
        split; [|split].
        { intro Nd. rewrite G1. simpl. rewrite str_eqb_refl. simpl. rewrite !andb_false_r.
          apply F0. exact Nd. }
        { intros o Io So In_ Sn.
          assert (Od : o <> p_dest p) by (intro E; subst o; exact (wf_dest_not_name p W Io)).
          assert (Ndd : n <> p_dest p) by (intro E; subst n; exact (wf_dest_not_name p W In_)).
          rewrite G1 in So. destruct b.
          - simpl in So. destruct (mem_str o keys) eqn:M; simpl in So.
            + destruct (str_eqb n o) eqn:E; simpl in So; [|discriminate].
              apply str_eqb_spec in E. auto.
            + rewrite (F0 _ Od) in So.
              assert (In o keys) by (apply keys_of_In; auto). apply mem_str_In in H. congruence.
          - simpl in So. rewrite (F0 _ Od) in So.
            destruct (Rf eq_refl) as [X|X]; [simpl in *; congruence|].
            apply (short_list_same keys); auto; apply keys_of_In; auto. }
        { intros Fn Rq. assert (Rq' : (p_req p || fx_falsy fx) = true) by (rewrite Rq; reflexivity).
          specialize (R3 Fn Rq'). simpl in R3. apply mem_str_In in R3. exact R3. }
      * contradiction.
      * right. left. exists (NNs l). repeat split; auto. intros s E; discriminate.
    + right. right. exists v. repeat split; auto.
      intro Fn. destruct (fx_falsy fx) eqn:Ff; [|reflexivity].
      assert (Rq' : (p_req p || true) = true) by apply orb_true_r.
      specialize (R3 Fn Rq'). destruct v as [z|n| |l]; simpl in R3; try discriminate.
      apply mem_str_In in R3. pose proof (wf_name_nonempty p n W R3) as Ne.
      destruct n; [contradiction|discriminate].
Qed.

(* the facts about get_subcommands in "single" mode that the selection theorem needs *)
Lemma get_subcommands_single failno p cfg cfg1 subs :
  wf p -> p_has p = true ->
  get_subcommands fx failno true p cfg = Ok (cfg1, subs) ->
  (forall k, ~ In k (p_names p) -> k <> p_dest p -> get k cfg1 = get k cfg) /\
  (forall k, In k (p_names p) -> get k cfg1 = get k cfg \/ get k cfg1 = None) /\
  (forall v, get (p_dest p) cfg = Some v -> v <> NNone -> get (p_dest p) cfg1 = Some v) /\
  ( chosen_shape failno p cfg cfg1 subs
    \/ (* nothing chosen *)
    ((get (p_dest p) cfg = None \/ get (p_dest p) cfg = Some NNone) /\ cfg1 = cfg /\ subs = [] /\
     keys_of p cfg = [] /\ (failno = true -> p_req p = false)) ).
Proof.
  intros W Hh H. unfold get_subcommands in H. rewrite Hh in H. simpl in H.
  fold (keys_of p cfg) in H. unfold gs_choose in H.
  assert (None_case : (get (p_dest p) cfg = None \/ get (p_dest p) cfg = Some NNone) ->
            gs_finish fx failno true p (keys_of p cfg)
              (fst (match keys_of p cfg with
                    | k0 :: _ => if failno || true then (set (p_dest p) (NStr k0) cfg, Some (NStr k0)) else (cfg, None)
                    | [] => (cfg, None) end))
              (snd (match keys_of p cfg with
                    | k0 :: _ => if failno || true then (set (p_dest p) (NStr k0) cfg, Some (NStr k0)) else (cfg, None)
                    | [] => (cfg, None) end)) = Ok (cfg1, subs) ->
            (forall k, ~ In k (p_names p) -> k <> p_dest p -> get k cfg1 = get k cfg) /\
            (forall k, In k (p_names p) -> get k cfg1 = get k cfg \/ get k cfg1 = None) /\
            (forall v, get (p_dest p) cfg = Some v -> v <> NNone -> get (p_dest p) cfg1 = Some v) /\
            ( chosen_shape failno p cfg cfg1 subs \/
              ((get (p_dest p) cfg = None \/ get (p_dest p) cfg = Some NNone) /\ cfg1 = cfg /\ subs = [] /\
               keys_of p cfg = [] /\ (failno = true -> p_req p = false)))).
  { intros Dn G. destruct (keys_of p cfg) as [|k0 kt] eqn:K.
    - simpl in G. unfold gs_finish in G. simpl in G.
      assert (cfg1 = cfg /\ subs = [] /\ (failno = true -> p_req p = false)).
      { destruct failno.
        - destruct (p_req p); [discriminate|]. inversion G; auto.
        - inversion G; repeat split; auto. intro; discriminate. }
      destruct H0 as [A [B C]]. subst. split; [auto|]. split; [auto|]. split; [auto|]. right. auto.
    - rewrite orb_true_r in G. simpl in G. rewrite <- K in G.
      assert (Ik : In k0 (p_names p)).
      { assert (In k0 (keys_of p cfg)) by (rewrite K; left; reflexivity). apply keys_of_In in H0. tauto. }
      destruct (gs_finish_some failno p cfg (set (p_dest p) (NStr k0) cfg) (NStr k0) cfg1 subs W) as [A [B [_ C]]].
      + intros k Nk. rewrite get_set, (str_eqb_neq _ _ Nk). reflexivity.
      + rewrite get_set, str_eqb_refl. reflexivity.
      + discriminate.
      + intros n E. inversion E; subst. exact (wf_name_nonempty p _ W Ik).
      + exact G.
      + split; [exact A|]. split; [exact B|]. split; [|left; exact C].
        intros v Dv Vn. destruct Dn as [Dn|Dn]; rewrite Dn in Dv; [discriminate|inversion Dv; subst; contradiction]. }
  destruct (get (p_dest p) cfg) as [v|] eqn:D.
  - destruct v as [z|n| |l].
    + simpl in H. destruct (gs_finish_some failno p cfg cfg (NInt z) cfg1 subs W) as [A [B [D' C]]]; auto; try discriminate.
      split; [exact A|]. split; [exact B|]. split; [|left; exact C]. intros v Dv _. inversion Dv; subst. exact D'.
    + simpl in H. destruct n as [|c n'].
      * (* "" : falsy *)
        unfold gs_finish in H. simpl in H.
        assert (X : cfg1 = cfg /\ (failno = true -> fx_falsy fx = false)).
        { destruct failno.
          - match type of H with (if ?c then _ else _) = _ => destruct c eqn:Q end; [discriminate|].
            split; [inversion H; reflexivity|]. intros _.
            destruct (fx_falsy fx); [|reflexivity]. rewrite orb_true_r in Q. simpl in Q.
            destruct (mem_str [] (p_names p)) eqn:M; [|discriminate].
            apply mem_str_In in M. destruct (wf_name_nonempty p [] W M eq_refl).
          - split; [inversion H; reflexivity|]. intro; discriminate. }
        destruct X as [X Xf]. subst cfg1. split; [intros; reflexivity|]. split; [intros; left; reflexivity|].
        split; [intros v0 Dv _; rewrite D; exact Dv|].
        left. right. right. exists (NStr []). repeat split; auto. discriminate.
      * destruct (gs_finish_some failno p cfg cfg (NStr (c :: n')) cfg1 subs W) as [A [B [D' C]]]; auto; try discriminate.
        { intros n0 E. inversion E. discriminate. }
        split; [exact A|]. split; [exact B|]. split; [|left; exact C]. intros v Dv _. inversion Dv; subst. exact D'.
    + apply None_case; auto.
    + simpl in H. destruct (gs_finish_some failno p cfg cfg (NNs l) cfg1 subs W) as [A [B [D' C]]]; auto; try discriminate.
      split; [exact A|]. split; [exact B|]. split; [|left; exact C]. intros v Dv _. inversion Dv; subst. exact D'.
  - apply None_case; auto.
Qed.

(* ---------- handle_subcommands in the strict top-level mode ---------- *)
Arguments handle_step : simpl never.
Arguments get_subcommands : simpl never.
Inductive Handled : parser -> ns -> Prop :=
| H_leaf p cfg : p_has p = false -> Handled p cfg
| H_some p cfg n sp sec :
    p_has p = true -> get (p_dest p) cfg = Some (NStr n) -> n <> [] ->
    assoc n (p_choices p) = Some sp -> get n cfg = Some (NNs sec) ->
    complete sp sec = true -> Handled sp sec -> Handled p cfg
| H_none p cfg :
    p_has p = true -> (get (p_dest p) cfg = None \/ get (p_dest p) cfg = Some NNone) ->
    p_req p = false -> keys_of p cfg = [] -> Handled p cfg
| H_falsy p cfg v :
    fx_falsy fx = false ->
    p_has p = true -> get (p_dest p) cfg = Some v -> v <> NNone -> truthy v = false -> Handled p cfg.

Definition penv_ok (penv : parser -> cobj -> res ns) : Prop :=
  forall sp e d, wf sp -> penv sp e = Ok d -> complete sp d = true.

Definition frame (p : parser) (cfg cfg' : ns) : Prop :=
  forall k, ~ In k (p_names p) -> k <> p_dest p -> get k cfg' = get k cfg.

Lemma frame_complete p cfg cfg' : wf p -> frame p cfg cfg' -> complete p cfg = true -> complete p cfg' = true.
Proof.
  intros W F. apply complete_frame. intros k I S.
  destruct (wf_opt_not_name p k W I) as [A B]. rewrite (F k A B). exact S.
Qed.

Lemma get_subcommands_nohas failno single p cfg : p_has p = false -> get_subcommands fx failno single p cfg = Ok (cfg, []).
Proof. intro H. unfold get_subcommands. rewrite H. reflexivity. Qed.

Lemma handle_loop_frame step p : 
  (forall sv c c', step sv c = Ok c' -> forall k, ~ In k (p_names p) -> get k c' = get k c) ->
  forall subs c c', handle_loop step subs c = Ok c' -> forall k, ~ In k (p_names p) -> get k c' = get k c.
Proof.
  intros S. induction subs as [|sv rest IH]; intros c c' H k Nk; simpl in H.
  - inversion H. reflexivity.
  - destruct (step sv c) as [c1|] eqn:E; [|discriminate].
    rewrite (IH _ _ H k Nk). apply (S _ _ _ E k Nk).
Qed.

Lemma handle_step_frame rec penv env defaults p sv c c' :
  handle_step rec penv env defaults p sv c = Ok c' -> forall k, ~ In k (p_names p) -> get k c' = get k c.
Proof.
  unfold handle_step. intros H k Nk.
  destruct sv as [|s| |]; try discriminate.
  destruct (assoc s (p_choices p)) as [sp|] eqn:A; [|discriminate].
  assert (Ks : str_eqb k s = false).
  { apply str_eqb_neq. intro E. subst k. apply Nk. apply (assoc_In_names _ _ _ A). }
  match type of H with match ?X with _ => _ end = _ => destruct X as [o|] eqn:SN; [|discriminate] end.
  set (cfg2 := match o with Some d => set s (NNs (merge (as_ns (get s c)) d)) c | None => c end) in *.
  assert (G2 : get k cfg2 = get k c).
  { subst cfg2. destruct o; [rewrite get_set, Ks|]; reflexivity. }
  destruct (p_has sp).
  - destruct (rec _ sp _) as [sec'|]; [|discriminate]. inversion H; subst.
    destruct (is_ns (get s cfg2)); [rewrite get_set, Ks|]; exact G2.
  - inversion H; subst. exact G2.
Qed.

Lemma handle_strict penv : penv_ok penv ->
  forall f env p cfg cfg', wf p ->
    handle fx penv f env true true true p cfg = Ok cfg' ->
    Handled p cfg' /\ frame p cfg cfg'.
Proof.
  intros PE. induction f as [|f IH]; intros env p cfg cfg' W H; [discriminate|].
  simpl in H. destruct (p_has p) eqn:Hh.
  - destruct (get_subcommands fx true true p cfg) as [[cfg1 subs]|] eqn:G; [|discriminate].
    destruct (get_subcommands_single true p cfg cfg1 subs W Hh G) as [F1 [F2 [_ Sh]]].
    destruct Sh as [[Sh|[Sh|Sh]]|Sh].
    + (* a proper name *)
      destruct Sh as [n [D1 [Nn [Ss [Gn [_ Rq]]]]]]. subst subs. simpl in H.
      destruct (handle_step _ penv env true p (NStr n) cfg1) as [c2|] eqn:St; [|discriminate].
      inversion H; subst c2. clear H.
      assert (Fr : forall k, ~ In k (p_names p) -> get k cfg' = get k cfg1)
        by (apply (handle_step_frame _ _ _ _ _ _ _ _ St)).
      unfold handle_step in St.
      destruct (assoc n (p_choices p)) as [sp|] eqn:A; [|discriminate].
      assert (In_ : In n (p_names p)) by (apply (assoc_In_names _ _ _ A)).
      assert (Wsp : wf sp) by (apply (wf_sub p n sp W A)).
      match type of St with match ?X with _ => _ end = _ => destruct X as [o|] eqn:SN; [|discriminate] end.
      assert (Od : exists d, o = Some d /\ complete sp d = true).
      { destruct (option_map (fun e => env_sub e n) env) as [e'|].
        - destruct (penv sp e') as [d|] eqn:P; [|discriminate]. inversion SN; subst.
          exists d. split; [reflexivity|]. apply (PE sp e' d Wsp P).
        - inversion SN; subst. exists (get_defaults sp). split; [reflexivity|apply complete_defaults]. }
      destruct Od as [d [Oe Cd]]. subst o.
      set (msec := merge (as_ns (get n cfg1)) d) in *.
      assert (Cm : complete sp msec = true).
      { unfold complete in *. rewrite forallb_forall in *. intros kd I. apply merge_keeps. apply Cd. exact I. }
      assert (Dd : get (p_dest p) cfg' = Some (NStr n)).
      { rewrite Fr; [exact D1|apply (wf_dest_not_name p W)]. }
      destruct (p_has sp) eqn:Hs.
      * rewrite get_set, str_eqb_refl in St. simpl in St.
        destruct (handle fx penv f (option_map (fun e => env_sub e n) env) true true true sp msec) as [sec'|] eqn:R; [|discriminate].
        inversion St; subst cfg'. clear St.
        destruct (IH _ _ _ _ Wsp R) as [Hsec Fsec].
        split.
        -- apply (H_some p _ n sp sec'); auto.
           ++ rewrite get_set, str_eqb_refl. reflexivity.
           ++ apply (frame_complete sp msec sec' Wsp Fsec Cm).
        -- intros k Nk Dk. rewrite Fr; auto.
      * inversion St; subst cfg'. clear St. split.
        -- apply (H_some p _ n sp msec); auto.
           ++ rewrite get_set, str_eqb_refl. reflexivity.
           ++ apply H_leaf. exact Hs.
        -- intros k Nk Dk. rewrite Fr; auto.
    + (* a truthy non-string: crash *)
      destruct Sh as [v [_ [Ns [_ Ss]]]]. subst subs. simpl in H.
      unfold handle_step in H. destruct v; try discriminate. destruct (Ns s eq_refl).
    + (* falsy *)
      destruct Sh as [v [D1 [Vn [Tv Ff]]]].
      assert (Fr : forall k, ~ In k (p_names p) -> get k cfg' = get k cfg1).
      { intros k Nk. eapply handle_loop_frame; [|exact H|exact Nk].
        intros sv c c' E. apply (handle_step_frame _ _ _ _ _ _ _ _ E). }
      split.
      * apply (H_falsy p cfg' v); auto. rewrite Fr; [exact D1|apply (wf_dest_not_name p W)].
      * intros k Nk Dk. rewrite Fr; auto.
    + (* nothing chosen *)
      destruct Sh as [Dn [E1 [E2 [K Rq]]]]. subst cfg1 subs. simpl in H. inversion H; subst cfg'.
      split; [|intros k _ _; reflexivity].
      apply H_none; auto.
  - rewrite (get_subcommands_nohas _ _ _ _ Hh) in H. simpl in H. inversion H; subst.
    split; [apply H_leaf; exact Hh|intros k _ _; reflexivity].
Qed.

(* ---------- the links pass (second get_subcommands, single mode, never failing) ---------- *)
Lemma get_subcommands_none single p cfg :
  p_has p = true -> (get (p_dest p) cfg = None \/ get (p_dest p) cfg = Some NNone) ->
  keys_of p cfg = [] -> get_subcommands fx false single p cfg = Ok (cfg, []).
Proof.
  intros Hh Dn K. unfold get_subcommands. rewrite Hh. simpl. fold (keys_of p cfg). rewrite K.
  unfold gs_choose. destruct Dn as [Dn|Dn]; rewrite Dn; reflexivity.
Qed.

Lemma links_inv f p cfg cfg' :
  p_has p = true -> links_pass fx (S f) p cfg = Ok cfg' ->
  exists cfg1 subs, get_subcommands fx false true p cfg = Ok (cfg1, subs) /\
    (cfg' = cfg1 \/
     exists s rest sp sec sec', subs = NStr s :: rest /\ get s cfg1 = Some (NNs sec) /\
        assoc s (p_choices p) = Some sp /\ links_pass fx f sp sec = Ok sec' /\ cfg' = set s (NNs sec') cfg1).
Proof.
  intros Hh H. simpl in H.
  destruct (get_subcommands fx false true p cfg) as [[cfg1 subs]|] eqn:G; [|discriminate].
  exists cfg1, subs. split; [reflexivity|].
  destruct subs as [|sv rest]; [left; inversion H; reflexivity|].
  destruct sv as [z|s| |l]; try (left; inversion H; reflexivity).
  destruct (get s cfg1) as [[z|s'| |sec]|] eqn:Gs; try discriminate; try (left; inversion H; reflexivity).
  destruct (assoc s (p_choices p)) as [sp|] eqn:A; [|discriminate].
  destruct (links_pass fx f sp sec) as [sec'|] eqn:L; [|discriminate].
  right. exists s, rest, sp, sec, sec'. inversion H. auto.
Qed.

Lemma keys_of_nil p cfg : keys_of p cfg = [] -> forall o, In o (p_names p) -> is_ns (get o cfg) = false.
Proof.
  intros K o I. destruct (is_ns (get o cfg)) eqn:E; [|reflexivity].
  assert (In o (keys_of p cfg)) by (apply keys_of_In; auto). rewrite K in H. destruct H.
Qed.

Lemma links_sel : forall f p cfg cfg', wf p -> Handled p cfg -> links_pass fx f p cfg = Ok cfg' ->
  Sel af p cfg' /\ frame p cfg cfg'.
Proof.
  induction f as [|f IH]; intros p cfg cfg' W Hd H; [discriminate|].
  destruct (p_has p) eqn:Hh.
  2:{ simpl in H. rewrite (get_subcommands_nohas _ _ _ _ Hh) in H. inversion H; subst.
      split; [apply Sel_leaf; exact Hh|intros k _ _; reflexivity]. }
  destruct (links_inv f p cfg cfg' Hh H) as [cfg1 [subs [G R]]].
  destruct (get_subcommands_single false p cfg cfg1 subs W Hh G) as [F1 [F2 [Fd Sh]]].
  assert (FrR : forall k, ~ In k (p_names p) -> get k cfg' = get k cfg1).
  { intros k Nk. destruct R as [R|[s [rest [sp [sec [sec' [_ [_ [A [_ R]]]]]]]]]]; subst cfg'; [reflexivity|].
    rewrite get_set, str_eqb_neq; [reflexivity|]. intro E; subst k. apply Nk. apply (assoc_In_names _ _ _ A). }
  assert (Frame : frame p cfg cfg').
  { intros k Nk Dk. rewrite FrR; auto. }
  split; [|exact Frame].
  inversion Hd as [p0 c0 Hl|p0 c0 n sp sec _ D Nn A Gn Cs Hs|p0 c0 _ Dn Rq K|p0 c0 v Ff _ D Vn Tv]; subst p0 c0.
  - congruence.
  - (* a name was chosen by handle *)
    assert (In_ : In n (p_names p)) by (apply (assoc_In_names _ _ _ A)).
    assert (Ndd : n <> p_dest p) by (intro E; subst n; exact (wf_dest_not_name p W In_)).
    assert (D1 : get (p_dest p) cfg1 = Some (NStr n)) by (apply Fd; [exact D|discriminate]).
    destruct Sh as [[Sh|[Sh|Sh]]|Sh].
    + destruct Sh as [n' [D1' [_ [Ss [Gn' [Oth _]]]]]].
      rewrite D1 in D1'. inversion D1'; subst n'. clear D1'.
      assert (Gn1 : get n cfg1 = Some (NNs sec)) by (rewrite Gn'; auto).
      destruct R as [R|[s [rest [sp' [sec0 [sec' [Es [Gs [A' [L R]]]]]]]]]].
      * (* cannot happen: the section is there *)
        subst subs. simpl in H. rewrite G in H. rewrite Gn1, A in H.
        destruct (links_pass fx f sp sec) as [sec'|] eqn:L; [|discriminate].
        destruct (IH _ _ _ (wf_sub p n sp W A) Hs L) as [S1 Fs].
        inversion H; subst cfg'.
        apply (Sel_some af p _ n sp sec'); auto.
        -- rewrite get_set, (str_eqb_neq _ _ (fun E => Ndd (eq_sym E))). exact D1.
        -- rewrite get_set, str_eqb_refl. reflexivity.
        -- apply (frame_complete sp sec sec' (wf_sub p n sp W A) Fs Cs).
        -- intros o Io On. rewrite get_set, (str_eqb_neq _ _ On).
           destruct (is_ns (get o cfg1)) eqn:E; [|reflexivity].
           destruct On. apply Oth; auto. rewrite Gn. reflexivity.
      * rewrite Ss in Es. inversion Es; subst s. rewrite Gn1 in Gs. inversion Gs; subst sec0.
        rewrite A in A'. inversion A'; subst sp'.
        destruct (IH _ _ _ (wf_sub p n sp W A) Hs L) as [S1 Fs]. subst cfg'.
        apply (Sel_some af p _ n sp sec'); auto.
        -- rewrite get_set, (str_eqb_neq _ _ (fun E => Ndd (eq_sym E))). exact D1.
        -- rewrite get_set, str_eqb_refl. reflexivity.
        -- apply (frame_complete sp sec sec' (wf_sub p n sp W A) Fs Cs).
        -- intros o Io On. rewrite get_set, (str_eqb_neq _ _ On).
           destruct (is_ns (get o cfg1)) eqn:E; [|reflexivity].
           destruct On. apply Oth; auto. rewrite Gn. reflexivity.
    + destruct Sh as [v [D1' [Ns _]]]. rewrite D1 in D1'. inversion D1'; subst v. destruct (Ns n eq_refl).
    + destruct Sh as [v [D1' [_ [Tv _]]]]. rewrite D1 in D1'. inversion D1'; subst v.
      destruct n; [contradiction|discriminate].
    + destruct Sh as [[Dn|Dn] _]; rewrite Dn in D; discriminate.
  - (* nothing chosen, optional *)
    rewrite (get_subcommands_none true p cfg Hh Dn K) in G. inversion G; subst cfg1 subs.
    destruct R as [R|[s [rest [sp' [sec0 [sec' [Es _]]]]]]]; [|discriminate]. subst cfg'.
    apply Sel_none; auto. apply keys_of_nil. exact K.
  - (* falsy *)
    apply (Sel_falsy af p cfg' v); auto.
    { unfold af. rewrite Ff. reflexivity. }
    rewrite FrR; [|apply (wf_dest_not_name p W)]. apply Fd; auto.
Qed.

(* ---------- _parse_common in the strict mode, then every entry point ---------- *)
Lemma validate_ok_unit f p cfg u : validate fx f p cfg = Ok u -> True.
Proof. trivial. Qed.

Lemma parse_common_sel penv f env skipval p cfg cfg' :
  penv_ok penv -> wf p ->
  parse_common fx penv f env skipval true p cfg = Ok cfg' -> Sel af p cfg' /\ frame p cfg cfg'.
Proof.
  intros PE W H. unfold parse_common in H.
  destruct (handle fx penv f env true true true p cfg) as [c1|] eqn:Hd; [|discriminate].
  destruct (links_pass fx f p c1) as [c2|] eqn:L; [|discriminate].
  destruct (handle_strict penv PE f env p cfg c1 W Hd) as [Hc1 F1].
  destruct (links_sel f p c1 c2 W Hc1 L) as [S2 F2].
  assert (cfg' = c2).
  { destruct skipval; [inversion H; reflexivity|]. destruct (validate fx f p c2); [inversion H; reflexivity|discriminate]. }
  subst c2. split; [exact S2|]. intros k Nk Dk. rewrite (F2 k Nk Dk). apply F1; auto.
Qed.

(* ---------- frames for arbitrary failno (single mode): completeness of parse_env results ---------- *)
Lemma handle_frame_single penv f env defaults failno p cfg cfg' :
  wf p -> handle fx penv f env defaults failno true p cfg = Ok cfg' -> frame p cfg cfg'.
Proof.
  intros W H. destruct f as [|f]; [discriminate|]. simpl in H.
  destruct (get_subcommands fx failno true p cfg) as [[cfg1 subs]|] eqn:G; [|discriminate].
  destruct (p_has p) eqn:Hh.
  - destruct (get_subcommands_single failno p cfg cfg1 subs W Hh G) as [F1 _].
    intros k Nk Dk. rewrite <- (F1 k Nk Dk).
    eapply handle_loop_frame; [|exact H|exact Nk].
    intros sv c c' E. apply (handle_step_frame _ _ _ _ _ _ _ _ E).
  - rewrite (get_subcommands_nohas _ _ _ _ Hh) in G. inversion G; subst. simpl in H. inversion H; subst.
    intros k _ _. reflexivity.
Qed.

Lemma links_frame f p cfg cfg' : wf p -> links_pass fx f p cfg = Ok cfg' -> frame p cfg cfg'.
Proof.
  intros W H. destruct f as [|f]; [discriminate|].
  destruct (p_has p) eqn:Hh.
  2:{ simpl in H. rewrite (get_subcommands_nohas _ _ _ _ Hh) in H. inversion H; subst. intros k _ _; reflexivity. }
  destruct (links_inv f p cfg cfg' Hh H) as [cfg1 [subs [G R]]].
  destruct (get_subcommands_single false p cfg cfg1 subs W Hh G) as [F1 _].
  intros k Nk Dk. rewrite <- (F1 k Nk Dk).
  destruct R as [R|[s [rest [sp [sec [sec' [_ [_ [A [_ R]]]]]]]]]]; subst cfg'; [reflexivity|].
  rewrite get_set, str_eqb_neq; [reflexivity|]. intro E; subst k. apply Nk. apply (assoc_In_names _ _ _ A).
Qed.

Lemma parse_common_frame penv f env skipval failno p cfg cfg' :
  wf p -> parse_common fx penv f env skipval failno p cfg = Ok cfg' -> frame p cfg cfg'.
Proof.
  intros W H. unfold parse_common in H.
  destruct (handle fx penv f env true failno true p cfg) as [c1|] eqn:Hd; [|discriminate].
  destruct (links_pass fx f p c1) as [c2|] eqn:L; [|discriminate].
  assert (cfg' = c2).
  { destruct skipval; [inversion H; reflexivity|]. destruct (validate fx f p c2); [inversion H; reflexivity|discriminate]. }
  subst c2. intros k Nk Dk. rewrite (links_frame f p c1 cfg' W L k Nk Dk).
  apply (handle_frame_single penv f env true failno p cfg c1 W Hd k Nk Dk).
Qed.

Lemma defaults_and_environ_complete penv p env cfg :
  defaults_and_environ penv p env = Ok cfg -> complete p cfg = true.
Proof.
  unfold defaults_and_environ. destruct env as [e|].
  - destruct (load_env_vars penv p e) as [ce|]; [|discriminate]. intro H; inversion H; subst.
    pose proof (complete_defaults p) as C. unfold complete in *. rewrite forallb_forall in *.
    intros kd I. apply merge_keeps. apply C. exact I.
  - intro H; inversion H. apply complete_defaults.
Qed.

Arguments defaults_and_environ : simpl never.
Arguments parse_common : simpl never.
Arguments apply_config : simpl never.

Lemma parse_env_complete : forall f, penv_ok (parse_env fx f).
Proof.
  intros f sp e d W H. destruct f as [|f]; [discriminate|]. simpl in H.
  destruct (defaults_and_environ (fun _ => parse_env fx f) sp (Some e)) as [cfg|] eqn:D; [|discriminate].
  apply (frame_complete sp cfg d W (parse_common_frame _ _ _ _ _ _ _ _ W H)).
  apply (defaults_and_environ_complete _ _ _ _ D).
Qed.

(* ---------- the entry points end in the strict _parse_common ---------- *)
Lemma parse_args_last f env skipval p a nsp cfg :
  parse_args fx (S f) env skipval p a nsp = Ok cfg ->
  exists cfg3, parse_common fx (parse_env fx f) f env skipval true p cfg3 = Ok cfg.
Proof.
  intro H. simpl in H.
  destruct (defaults_and_environ (fun _ => parse_env fx f) p env) as [cfg0|]; [|discriminate].
  destruct a as [items sub].
  match type of H with match ?X with _ => _ end = _ => destruct X as [cfg2|]; [|discriminate] end.
  match type of H with match ?X with _ => _ end = _ => destruct X as [cfg3|]; [|discriminate] end.
  exists cfg3. exact H.
Qed.

Theorem one_selected_or_falsy fuel p x cfg :
  wf p -> parse fx fuel p x = Ok cfg -> Sel af p cfg.
Proof.
  intros W H. unfold parse in H.
  assert (C : forall c, parse_cfg fx fuel (i_env x) p c = Ok cfg -> Sel af p cfg).
  { intros c Hc. destruct fuel as [|f]; [discriminate|]. simpl in Hc.
    destruct (defaults_and_environ (fun _ => parse_env fx f) p (i_env x)) as [base|]; [|discriminate].
    apply (parse_common_sel _ _ _ _ _ _ _ (parse_env_complete f) W Hc). }
  destruct (i_entry x) as [a|c|c|m]; [|apply (C c H)|apply (C c H)|].
  - destruct fuel as [|f]; [discriminate|].
    destruct (parse_args_last _ _ _ _ _ _ _ H) as [cfg3 H3].
    apply (parse_common_sel _ _ _ _ _ _ _ (parse_env_complete f) W H3).
  - (* parse_env(mapping): ends in the strict _parse_common as well *)
    destruct fuel as [|f]; [discriminate|]. simpl in H.
    match type of H with match ?X with _ => _ end = _ => destruct X as [cfg0|]; [|discriminate] end.
    apply (parse_common_sel _ _ _ _ _ _ _ (parse_env_complete f) W H).
Qed.

End WithVariant.

(* ---------- with the guard: no falsy subcommand key in the result ---------- *)
Lemma dest_truthy_here p cfg v :
  dest_truthy p cfg = true -> p_has p = true -> get (p_dest p) cfg = Some v -> v <> NNone -> truthy v = true.
Proof.
  destruct p as [c opts has req dest cs]. simpl. intros H Hh D Vn. subst has.
  rewrite D in H. apply andb_true_iff in H. destruct H as [H _]. destruct v; auto; try contradiction.
Qed.

Lemma dest_truthy_sub p cfg n sp sec :
  dest_truthy p cfg = true -> p_has p = true -> assoc n (p_choices p) = Some sp ->
  get n cfg = Some (NNs sec) -> dest_truthy sp sec = true.
Proof.
  destruct p as [c opts has req dest cs]. simpl. intros H Hh A G. subst has.
  apply andb_true_iff in H. destruct H as [_ H].
  induction cs as [|[s q] t IH]; simpl in *; [discriminate|].
  apply andb_true_iff in H. destruct H as [H1 H2].
  destruct (str_eqb n s) eqn:E.
  - apply str_eqb_spec in E. subst s. inversion A; subst q. rewrite G in H1. exact H1.
  - apply IH; auto.
Qed.

Theorem one_selected_guarded p cfg :
  Sel true p cfg -> dest_truthy p cfg = true -> Sel false p cfg.
Proof.
  induction 1 as [p cfg Hl|p cfg n sp sec Hh D A G C S IH O|p cfg Hh D R O|p cfg v _ Hh D Vn Tv]; intro T.
  - apply Sel_leaf; exact Hl.
  - apply (Sel_some false p cfg n sp sec); auto. apply IH. apply (dest_truthy_sub p cfg n sp sec T Hh A G).
  - apply Sel_none; auto.
  - rewrite (dest_truthy_here p cfg v T Hh D Vn) in Tv. discriminate.
Qed.

(* ---------- corollaries: required / optional ---------- *)
Lemma required_has_name p cfg :
  Sel false p cfg -> p_has p = true -> p_req p = true ->
  exists n sp sec, get (p_dest p) cfg = Some (NStr n) /\ assoc n (p_choices p) = Some sp /\
                   get n cfg = Some (NNs sec) /\ complete sp sec = true.
Proof.
  intros S Hh Rq. inversion S as [? ? Hl|? ? n sp sec _ D A G C _ _|? ? _ _ R _|? ? v F]; subst.
  - congruence.
  - exists n, sp, sec. auto.
  - congruence.
  - discriminate.
Qed.

Lemma optional_none p cfg :
  Sel false p cfg -> p_has p = true ->
  (get (p_dest p) cfg = None \/ get (p_dest p) cfg = Some NNone) ->
  p_req p = false /\ forall o, In o (p_names p) -> is_ns (get o cfg) = false.
Proof.
  intros S Hh Dn. inversion S as [? ? Hl|? ? n sp sec _ D A G C _ _|? ? _ _ R O|? ? v F]; subst.
  - congruence.
  - destruct Dn as [Dn|Dn]; rewrite Dn in D; discriminate.
  - auto.
  - discriminate.
Qed.

Section WithVariant2.
Variable fx : variant.

(* the error branch: nothing given at all and a required subcommand => NoSubcommand, for every tree *)
Lemma defaults_no_sections p k : is_ns (get k (get_defaults p)) = false.
Proof.
  unfold get_defaults.
  destruct (p_cfg p); simpl; [destruct (str_eqb k cfg_key); [reflexivity|]|];
  (induction (p_opts p) as [|[k1 d1] t IH]; simpl;
   [destruct (p_has p); simpl; [destruct (str_eqb k (p_dest p)); reflexivity|reflexivity]
   |destruct (str_eqb k k1); [reflexivity|exact IH]]).
Qed.

Lemma defaults_dest p : wf p -> p_has p = true -> get (p_dest p) (get_defaults p) = Some NNone.
Proof.
  intros W Hh. unfold get_defaults. rewrite Hh.
  assert (O : forall k, In k (map fst (p_opts p)) -> k <> p_dest p) by (intros k I; apply (wf_opt_not_name p k W I)).
  assert (G : get (p_dest p) (map (fun kd => (fst kd, NInt (snd kd))) (p_opts p) ++ [(p_dest p, NNone)]) = Some NNone).
  { induction (p_opts p) as [|[k1 d1] t IH]; simpl.
    - rewrite str_eqb_refl. reflexivity.
    - rewrite str_eqb_neq; [apply IH; intros k I; apply O; right; exact I|].
      intro E. apply (O k1); [left; reflexivity|auto]. }
  destruct (p_cfg p); simpl; [|exact G].
  destruct (str_eqb (p_dest p) cfg_key) eqn:E; [|exact G].
  (* dest = "cfg": the config key shadows it; then the value is NNone as well *)
  reflexivity.
Qed.

Lemma get_subcommands_defaults_required p :
  wf p -> p_has p = true -> p_req p = true ->
  get_subcommands fx true true p (get_defaults p) = Err NoSubcommand.
Proof.
  intros W Hh Rq. unfold get_subcommands. rewrite Hh. simpl.
  assert (K : filter (fun k => is_ns (get k (get_defaults p))) (p_names p) = []).
  { induction (p_names p) as [|n t IH]; simpl; [reflexivity|]. rewrite defaults_no_sections. exact IH. }
  rewrite K. unfold gs_choose. rewrite (defaults_dest p W Hh). simpl.
  unfold gs_finish. rewrite Rq. reflexivity.
Qed.

Lemma required_missing_fails_empty p f :
  wf p -> p_has p = true -> p_req p = true ->
  parse fx (S (S f)) p {| i_env := None; i_entry := EObject [] |} = Err NoSubcommand /\
  parse fx (S (S f)) p {| i_env := None; i_entry := EString [] |} = Err NoSubcommand /\
  parse fx (S (S f)) p {| i_env := None; i_entry := EArgs (ArgvT [] None) |} = Err NoSubcommand.
Proof.
  intros W Hh Rq.
  assert (C : parse_common fx (parse_env fx (S f)) (S f) None false true p (get_defaults p) = Err NoSubcommand).
  { unfold parse_common. simpl. rewrite (get_subcommands_defaults_required p W Hh Rq). reflexivity. }
  repeat split; unfold parse; simpl.
  - unfold parse_cfg. unfold defaults_and_environ. exact C.
  - unfold parse_cfg. unfold defaults_and_environ. exact C.
  - unfold defaults_and_environ. exact C.
Qed.

End WithVariant2.

(* ---------- the checker for wf ---------- *)
Lemma wf_b_sound : forall f p, wf_b f p = true -> wf p.
Proof.
  induction f as [|f IH]; intros p H; [discriminate|].
  destruct p as [c opts has req dest cs]. simpl in H.
  apply andb_true_iff in H. destruct H as [H H4].
  apply andb_true_iff in H. destruct H as [H H3].
  apply andb_true_iff in H. destruct H as [H1 H2].
  rewrite forallb_forall in H1, H3, H4.
  constructor.
  - intros k I. specialize (H1 k I). apply andb_true_iff in H1. destruct H1 as [A B].
    split.
    + intro J. apply mem_str_In in J.
      assert (X : mem_str k (p_names (Parser c opts has req dest cs)) = true) by exact J.
      rewrite X in A. discriminate.
    + intro E. subst k. change (negb (str_eqb dest dest) = true) in B. rewrite str_eqb_refl in B. discriminate.
  - intro J. apply mem_str_In in J.
    assert (X : mem_str dest (p_names (Parser c opts has req dest cs)) = true) by exact J.
    rewrite X in H2. discriminate.
  - intros n I E. subst n. specialize (H3 [] I). discriminate.
  - intros n q I. apply IH. apply (H4 (n, q) I).
Qed.

(* ---------- WHICH subcommand: the explicit channels of the selection rule ----------
   an explicit (non-None) subcommand key survives _parse_common unchanged, in every variant *)
Section Which.
Variable fx : variant.

Lemma handle_keeps_dest penv f env defaults failno p cfg cfg' v :
  wf p -> p_has p = true ->
  handle fx penv f env defaults failno true p cfg = Ok cfg' ->
  get (p_dest p) cfg = Some v -> v <> NNone -> get (p_dest p) cfg' = Some v.
Proof.
  intros W Hh H D Vn. destruct f as [|f]; [discriminate|]. simpl in H.
  destruct (get_subcommands fx failno true p cfg) as [[cfg1 subs]|] eqn:G; [|discriminate].
  destruct (get_subcommands_single fx failno p cfg cfg1 subs W Hh G) as [_ [_ [Fd _]]].
  rewrite <- (Fd v D Vn).
  eapply handle_loop_frame; [|exact H|apply (wf_dest_not_name p W)].
  intros sv c c' E. apply (handle_step_frame _ _ _ _ _ _ _ _ E).
Qed.

Lemma links_keeps_dest f p cfg cfg' v :
  wf p -> p_has p = true -> links_pass fx f p cfg = Ok cfg' ->
  get (p_dest p) cfg = Some v -> v <> NNone -> get (p_dest p) cfg' = Some v.
Proof.
  intros W Hh H D Vn. destruct f as [|f]; [discriminate|].
  destruct (links_inv fx f p cfg cfg' Hh H) as [cfg1 [subs [G R]]].
  destruct (get_subcommands_single fx false p cfg cfg1 subs W Hh G) as [_ [_ [Fd _]]].
  rewrite <- (Fd v D Vn).
  destruct R as [R|[s [rest [sp [sec [sec' [_ [_ [A [_ R]]]]]]]]]]; subst cfg'; [reflexivity|].
  rewrite get_set, str_eqb_neq; [reflexivity|].
  intro E. apply (wf_dest_not_name p W). rewrite E. apply (assoc_In_names _ _ _ A).
Qed.

Lemma parse_common_keeps_dest penv f env skipval failno p cfg cfg' v :
  wf p -> p_has p = true ->
  parse_common fx penv f env skipval failno p cfg = Ok cfg' ->
  get (p_dest p) cfg = Some v -> v <> NNone -> get (p_dest p) cfg' = Some v.
Proof.
  intros W Hh H D Vn. unfold parse_common in H.
  destruct (handle fx penv f env true failno true p cfg) as [c1|] eqn:Hd; [|discriminate].
  destruct (links_pass fx f p c1) as [c2|] eqn:L; [|discriminate].
  assert (cfg' = c2).
  { destruct skipval; [inversion H; reflexivity|]. destruct (validate fx f p c2); [inversion H; reflexivity|discriminate]. }
  subst c2.
  apply (links_keeps_dest f p c1 cfg' v W Hh L); [|exact Vn].
  apply (handle_keeps_dest penv f env true failno p cfg c1 v W Hh Hd D Vn).
Qed.

(* "The choice is the one named on the command line": whatever the options, --cfg values (which may
   name another subcommand) and the environment say *)
Lemma argv_name_wins fuel env p items n rest cfg :
  wf p ->
  parse fx fuel p {| i_env := env; i_entry := EArgs (ArgvT items (Some (n, rest))) |} = Ok cfg ->
  In n (p_names p) /\ get (p_dest p) cfg = Some (NStr n).
Proof.
  intros W H. unfold parse in H. simpl in H. destruct fuel as [|f]; [discriminate|]. simpl in H.
  destruct (defaults_and_environ (fun _ => parse_env fx f) p env) as [cfg0|]; [|discriminate].
  match type of H with match ?X with _ => _ end = _ => destruct X as [cfg2|]; [|discriminate] end.
  destruct (p_has p) eqn:Hh; [|discriminate]. simpl in H.
  destruct (assoc n (p_choices p)) as [sp|] eqn:A; [|discriminate].
  assert (In_ : In n (p_names p)) by (apply (assoc_In_names _ _ _ A)).
  split; [exact In_|].
  match type of H with match ?X with _ => _ end = _ => destruct X as [cfg3|] eqn:C; [|discriminate] end.
  apply (parse_common_keeps_dest _ _ _ _ _ _ _ _ (NStr n) W Hh H); [|discriminate].
  match type of C with match ?X with _ => _ end = _ => destruct X as [subns|]; [|discriminate] end.
  match type of C with match ?X with _ => _ end = _ => destruct X as [sec|]; [|discriminate] end.
  inversion C; subst cfg3.
  rewrite get_set, str_eqb_neq.
  - rewrite get_set, str_eqb_refl. reflexivity.
  - intro E. apply (wf_dest_not_name p W). rewrite E. exact In_.
Qed.

(* "else the one named in the config": parse_object / parse_string *)
Lemma set_keys x k v c : In x (map fst (set k v c)) <-> x = k \/ In x (map fst c).
Proof.
  induction c as [|[k0 v0] t IH]; simpl.
  - intuition.
  - destruct (str_eqb k k0) eqn:E; simpl.
    + apply str_eqb_spec in E. subst k0. intuition.
    + rewrite IH. intuition.
Qed.

Lemma set_nodup k v c : NoDup (map fst c) -> NoDup (map fst (set k v c)).
Proof.
  induction c as [|[k0 v0] t IH]; simpl; intro N.
  - constructor; [intros []|constructor].
  - destruct (str_eqb k k0) eqn:E; simpl.
    + apply str_eqb_spec in E. subst k0. exact N.
    + inversion N; subst. constructor; [|apply IH; assumption].
      intro I. apply set_keys in I. destruct I as [I|I]; [|contradiction].
      subst k0. rewrite str_eqb_refl in E. discriminate.
Qed.

Fixpoint obj_ns (l : cobj) : ns :=
  match l with [] => [] | (k, v) :: t => set k (to_node v) (obj_ns t) end.

Lemma to_ns_obj l : to_ns l = obj_ns l.
Proof. unfold to_ns. simpl. induction l as [|[k v] t IH]; simpl; [reflexivity|]. rewrite <- IH. reflexivity. Qed.

Lemma obj_ns_nodup l : NoDup (map fst (obj_ns l)).
Proof. induction l as [|[k v] t IH]; simpl; [constructor|]. apply set_nodup. exact IH. Qed.

Lemma obj_ns_get k l : get k (obj_ns l) = option_map to_node (assoc k l).
Proof.
  induction l as [|[k0 v0] t IH]; simpl; [reflexivity|].
  rewrite get_set. destruct (str_eqb k k0); [reflexivity|exact IH].
Qed.

Lemma merge_other k from : forall to, ~ In k (map fst from) -> get k (merge from to) = get k to.
Proof.
  induction from as [|[k0 v0] t IH]; intros to N; [reflexivity|].
  rewrite merge_cons. simpl in N.
  assert (Ne : str_eqb k k0 = false) by (apply str_eqb_neq; intro E; apply N; left; auto).
  rewrite IH; [|intro I; apply N; right; exact I].
  destruct v0; try (rewrite get_set, Ne; reflexivity).
  destruct (leafy (NNs l)); [rewrite get_set, Ne|]; reflexivity.
Qed.

Lemma merge_leaf k s from : forall to,
  NoDup (map fst from) -> get k from = Some (NStr s) -> get k (merge from to) = Some (NStr s).
Proof.
  induction from as [|[k0 v0] t IH]; intros to N G; [discriminate|].
  rewrite merge_cons. simpl in G. inversion N as [|? ? Nk Nt]; subst.
  destruct (str_eqb k k0) eqn:E.
  - apply str_eqb_spec in E. subst k0. inversion G; subst v0.
    rewrite merge_other; [|exact Nk]. rewrite get_set, str_eqb_refl. reflexivity.
  - apply IH; assumption.
Qed.

Lemma config_name_wins fuel env p c n cfg :
  wf p -> p_has p = true -> named_in (p_dest p) c = Some n ->
  parse_cfg fx fuel env p c = Ok cfg -> get (p_dest p) cfg = Some (NStr n).
Proof.
  intros W Hh Nm H. destruct fuel as [|f]; [discriminate|]. simpl in H.
  destruct (defaults_and_environ (fun _ => parse_env fx f) p env) as [base|]; [|discriminate].
  apply (parse_common_keeps_dest _ _ _ _ _ _ _ _ (NStr n) W Hh H); [|discriminate].
  apply merge_leaf.
  - rewrite to_ns_obj. apply obj_ns_nodup.
  - rewrite to_ns_obj, obj_ns_get. unfold named_in in Nm.
    destruct (assoc (p_dest p) c) as [[z|s0|l]|]; try discriminate. inversion Nm; subst. reflexivity.
Qed.

Lemma object_name_wins fuel env p c n cfg :
  wf p -> p_has p = true -> named_in (p_dest p) c = Some n ->
  (parse fx fuel p {| i_env := env; i_entry := EObject c |} = Ok cfg \/
   parse fx fuel p {| i_env := env; i_entry := EString c |} = Ok cfg) ->
  get (p_dest p) cfg = Some (NStr n).
Proof.
  intros W Hh Nm [H|H]; unfold parse in H; simpl in H; exact (config_name_wins fuel env p c n cfg W Hh Nm H).
Qed.

(* "else the one named in the ... environment": parser.parse_env(mapping) *)
Lemma opts_loop_inv (e : cobj) dest : forall (l : list (str * Z)) c c',
  (forall k, In k (map fst l) -> k <> dest) ->
  (fix opts (l : list (str * Z)) (c : ns) : res ns :=
     match l with
     | [] => Ok c
     | (k, _) :: t =>
         match assoc k e with
         | Some (CInt z) => opts t (set k (NInt z) c)
         | Some (CStr _) => Err BadValue
         | _ => opts t c
         end
     end) l c = Ok c' ->
  get dest c' = get dest c /\ (NoDup (map fst c) -> NoDup (map fst c')).
Proof.
  induction l as [|[k d] t IH]; intros c c' Hk H.
  - inversion H; subst. auto.
  - assert (Kd : k <> dest) by (apply Hk; left; reflexivity).
    assert (Ht : forall k0, In k0 (map fst t) -> k0 <> dest) by (intros k0 I; apply Hk; right; exact I).
    destruct (assoc k e) as [[z|s0|l0]|].
    + destruct (IH _ _ Ht H) as [G N]. split.
      * rewrite G, get_set, str_eqb_neq; [reflexivity|]. intro E; apply Kd; auto.
      * intro Nc. apply N. apply set_nodup. exact Nc.
    + discriminate.
    + exact (IH _ _ Ht H).
    + exact (IH _ _ Ht H).
Qed.

Lemma assoc_some {A} n (l : list (str * A)) : In n (map fst l) -> exists v, assoc n l = Some v.
Proof.
  induction l as [|[k v] t IH]; simpl; [intros []|].
  intro I. destruct (str_eqb n k) eqn:E; [eauto|].
  destruct I as [I|I]; [subst; rewrite str_eqb_refl in E; discriminate|auto].
Qed.

Lemma load_env_vars_names penv p m n cfg_env :
  wf p -> p_has p = true -> named_in (p_dest p) m = Some n -> In n (p_names p) ->
  load_env_vars penv p m = Ok cfg_env ->
  get (p_dest p) cfg_env = Some (NStr n) /\ NoDup (map fst cfg_env).
Proof.
  intros W Hh Nm In_ H. unfold load_env_vars in H. rewrite Hh in H.
  unfold named_in in Nm. destruct (assoc (p_dest p) m) as [[z|v|l]|]; try discriminate. inversion Nm; subst v.
  destruct (assoc_some n (p_choices p) In_) as [sp A]. rewrite A in H.
  destruct (penv n sp (env_sub m n)) as [pcfg|]; [|discriminate].
  assert (Nd : n <> p_dest p) by (intro E; apply (wf_dest_not_name p W); rewrite <- E; exact In_).
  match type of H with _ (p_opts p) ?c1 = _ =>
    assert (C1 : get (p_dest p) c1 = Some (NStr n) /\ NoDup (map fst c1)) end.
  { destruct pcfg as [|kv pt].
    - simpl. rewrite str_eqb_refl. split; [reflexivity|]. constructor; [intros []|constructor].
    - split.
      + rewrite get_set, str_eqb_neq; [|intro E; apply Nd; auto]. simpl. rewrite str_eqb_refl. reflexivity.
      + apply set_nodup. constructor; [intros []|constructor]. }
  destruct C1 as [G1 N1].
  destruct (opts_loop_inv m (p_dest p) _ _ _ (fun k I => proj2 (wf_opt_not_name p k W I)) H) as [G N].
  split; [rewrite G; exact G1|apply N; exact N1].
Qed.

Lemma env_name_wins fuel os p m n cfg :
  wf p -> p_has p = true -> named_in (p_dest p) m = Some n -> In n (p_names p) ->
  parse fx fuel p {| i_env := os; i_entry := EEnv m |} = Ok cfg -> get (p_dest p) cfg = Some (NStr n).
Proof.
  intros W Hh Nm In_ H. unfold parse in H. simpl in H. destruct fuel as [|f]; [discriminate|]. simpl in H.
  match type of H with match ?X with _ => _ end = _ => destruct X as [cfg0|] eqn:D; [|discriminate] end.
  apply (parse_common_keeps_dest _ _ _ _ _ _ _ _ (NStr n) W Hh H); [|discriminate].
  unfold defaults_and_environ in D.
  match type of D with match ?X with _ => _ end = _ => destruct X as [cfg_env|] eqn:L; [|discriminate] end.
  inversion D; subst cfg0.
  destruct (load_env_vars_names _ p m n cfg_env W Hh Nm In_ L) as [G N].
  apply merge_leaf; assumption.
Qed.

End Which.

(* ---------- the property theorems, assembled ---------- *)
(* the pinned tree (variant orig, and any variant without the falsy fix) *)
Lemma one_selected_or_falsy_orig fuel p x cfg :
  wf p -> parse orig fuel p x = Ok cfg -> Sel true p cfg.
Proof. exact (one_selected_or_falsy orig fuel p x cfg). Qed.

Lemma one_selected fuel p x cfg :
  wf p -> parse orig fuel p x = Ok cfg -> dest_truthy p cfg = true -> Sel false p cfg.
Proof.
  intros W H T. exact (one_selected_guarded p cfg (one_selected_or_falsy_orig fuel p x cfg W H) T).
Qed.

Lemma required_selected fuel p x cfg :
  wf p -> p_has p = true -> p_req p = true ->
  parse orig fuel p x = Ok cfg -> dest_truthy p cfg = true ->
  exists n sp sec, get (p_dest p) cfg = Some (NStr n) /\ assoc n (p_choices p) = Some sp /\
                   get n cfg = Some (NNs sec) /\ complete sp sec = true.
Proof.
  intros W Hh Rq H T. exact (required_has_name p cfg (one_selected fuel p x cfg W H T) Hh Rq).
Qed.

Lemma optional_missing_gives_none fuel p x cfg :
  wf p -> p_has p = true ->
  parse orig fuel p x = Ok cfg -> dest_truthy p cfg = true ->
  (get (p_dest p) cfg = None \/ get (p_dest p) cfg = Some NNone) ->
  p_req p = false /\ forall o, In o (p_names p) -> is_ns (get o cfg) = false.
Proof.
  intros W Hh H T Dn. exact (optional_none p cfg (one_selected fuel p x cfg W H T) Hh Dn).
Qed.

(* every variant with the falsy fix (whatever fx_cfg is): the FULL statement, no guard *)
Lemma fixed_one_selected fx fuel p x cfg :
  fx_falsy fx = true -> wf p -> parse fx fuel p x = Ok cfg -> Sel false p cfg.
Proof.
  intros Ff W H. pose proof (one_selected_or_falsy fx fuel p x cfg W H) as S.
  rewrite Ff in S. exact S.
Qed.

Lemma fixed_required_selected fx fuel p x cfg :
  fx_falsy fx = true -> wf p -> p_has p = true -> p_req p = true ->
  parse fx fuel p x = Ok cfg ->
  exists n sp sec, get (p_dest p) cfg = Some (NStr n) /\ assoc n (p_choices p) = Some sp /\
                   get n cfg = Some (NNs sec) /\ complete sp sec = true.
Proof.
  intros Ff W Hh Rq H. exact (required_has_name p cfg (fixed_one_selected fx fuel p x cfg Ff W H) Hh Rq).
Qed.

Lemma fixed_optional_missing_gives_none fx fuel p x cfg :
  fx_falsy fx = true -> wf p -> p_has p = true ->
  parse fx fuel p x = Ok cfg ->
  (get (p_dest p) cfg = None \/ get (p_dest p) cfg = Some NNone) ->
  p_req p = false /\ forall o, In o (p_names p) -> is_ns (get o cfg) = false.
Proof.
  intros Ff W Hh H Dn. exact (optional_none p cfg (fixed_one_selected fx fuel p x cfg Ff W H) Hh Dn).
Qed.

(* ---------- witnesses ---------- *)
Definition s_a : str := [97]%N.  Definition s_b : str := [98]%N.
Definition s_x : str := [120]%N. Definition s_y : str := [121]%N.
Definition s_q : str := [113]%N. Definition s_w : str := [119]%N.
Definition s_sub : str := [115;117;98;99;111;109;109;97;110;100]%N.   (* "subcommand" *)
Definition s_cmd : str := [99;109;100]%N.
Definition leafp (k : str) (d : Z) : parser := Parser false [(k, d)] false true s_sub [].
(* optional subcommands a (--x, default 1) and b (--y, default 2) *)
Definition p_opt : parser := Parser false [] true false s_sub [(s_a, leafp s_x 1); (s_b, leafp s_y 2)].
(* required subcommands a, b with --cfg; a has an optional nested subcommand q (dest cmd) *)
Definition p_a : parser := Parser false [(s_x, 1%Z)] true false s_cmd [(s_q, leafp s_w 3)].
Definition p_nested : parser := Parser true [] true true s_sub [(s_a, p_a); (s_b, leafp s_y 2)].

Lemma wf_p_opt : wf p_opt.
Proof. apply (wf_b_sound 5). vm_compute. reflexivity. Qed.
Lemma wf_p_nested : wf p_nested.
Proof. apply (wf_b_sound 5). vm_compute. reflexivity. Qed.

Definition x_falsy : input :=
  {| i_env := None;
     i_entry := EObject [(s_sub, CStr []); (s_a, CObj [(s_x, CInt 5)]); (s_b, CObj [(s_y, CInt 6)])] |}.

Lemma falsy_name_refuted :
  exists fuel p x cfg, wf p /\ parse orig fuel p x = Ok cfg /\ ~ Sel false p cfg /\
                       is_ns (get s_a cfg) = true /\ is_ns (get s_b cfg) = true.
Proof.
  exists 10%nat, p_opt, x_falsy.
  eexists. split; [exact wf_p_opt|]. split; [vm_compute; reflexivity|]. split; [|split; reflexivity].
  intro S. inversion S; subst; try discriminate;
    try (match goal with H : p_has _ = false |- _ => vm_compute in H; discriminate end);
    try (match goal with D : get (p_dest p_opt) _ = Some (NStr ?n), A : assoc ?n _ = Some _ |- _ =>
           vm_compute in D; inversion D; subst; vm_compute in A; discriminate end);
    try (match goal with D : _ \/ _ |- _ => vm_compute in D; destruct D; discriminate end).
Qed.

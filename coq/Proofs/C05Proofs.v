(* C05 — lemmas.  (1) the channel pipeline: under the guard all channels store the same value or all reject,
   for ANY type check C; (2) for the pinned type check (Model/Ty.v) every string survives every channel at a
   str-typed position, for any loader; (3) for the scalar types int/float/bool/None a text that the loader reads
   as a non-string scalar goes through every channel exactly like that scalar given as an object, for any loader
   and any text; (4) every JSON number is resolved by the regenerated YAML loader table to the tag JSON gives it. *)
From JV Require Import Lib.Base Lib.Regex Model.TyVal Model.Scalar Model.Ty Model.C05Channels Proofs.ScalarProofs.

(* ---- val_eqb is sound and reflexive ---------------------------------------------------------------------- *)
Section ValInd.
Variable P : val -> Prop.
Hypothesis HNone : P VNone.
Hypothesis HBool : forall b, P (VBool b).
Hypothesis HInt : forall z, P (VInt z).
Hypothesis HFloat : forall f, P (VFloat f).
Hypothesis HStr : forall s, P (VStr s).
Hypothesis HList : forall l, Forall P l -> P (VList l).
Hypothesis HTuple : forall l, Forall P l -> P (VTuple l).
Hypothesis HSet : forall l, Forall P l -> P (VSet l).
Hypothesis HDict : forall d, Forall (fun kv => P (fst kv) /\ P (snd kv)) d -> P (VDict d).
Hypothesis HEnum : forall c m, P (VEnum c m).
Hypothesis HOpaque : forall k r, P (VOpaque k r).

Fixpoint c05_val_ind (v : val) : P v :=
  match v with
  | VNone => HNone
  | VBool b => HBool b
  | VInt z => HInt z
  | VFloat f => HFloat f
  | VStr s => HStr s
  | VList l => HList l ((fix go (l : list val) : Forall P l :=
                           match l with [] => Forall_nil _ | x :: l' => Forall_cons _ (c05_val_ind x) (go l') end) l)
  | VTuple l => HTuple l ((fix go (l : list val) : Forall P l :=
                             match l with [] => Forall_nil _ | x :: l' => Forall_cons _ (c05_val_ind x) (go l') end) l)
  | VSet l => HSet l ((fix go (l : list val) : Forall P l :=
                         match l with [] => Forall_nil _ | x :: l' => Forall_cons _ (c05_val_ind x) (go l') end) l)
  | VDict d => HDict d ((fix go (d : list (val * val)) : Forall (fun kv => P (fst kv) /\ P (snd kv)) d :=
                           match d with
                           | [] => Forall_nil _
                           | kv :: d' => Forall_cons _ (conj (c05_val_ind (fst kv)) (c05_val_ind (snd kv))) (go d')
                           end) d)
  | VEnum c m => HEnum c m
  | VOpaque k r => HOpaque k r
  end.
End ValInd.

Lemma c05_fl_eqb_eq a b : fl_eqb a b = true -> a = b.
Proof.
  destruct a, b; simpl; try discriminate; intro H.
  - apply andb_true_iff in H. destruct H as [H1 H2]. apply Z.eqb_eq in H1, H2. congruence.
  - apply Bool.eqb_prop in H. congruence.
  - reflexivity.
Qed.

Lemma c05_val_eqb_eq : forall a b, val_eqb a b = true -> a = b.
Proof.
  intro a; induction a using c05_val_ind; intros b' E; destruct b'; simpl in E; try discriminate.
  - reflexivity.
  - apply Bool.eqb_prop in E. congruence.
  - apply Z.eqb_eq in E. congruence.
  - apply c05_fl_eqb_eq in E. congruence.
  - apply str_eqb_spec in E. congruence.
  - f_equal. revert l0 E. induction H as [|x l Hx Hl IH]; destruct l0; try discriminate; intro E; [reflexivity|].
    apply andb_true_iff in E. destruct E as [E1 E2]. f_equal; [apply Hx, E1 | apply IH, E2].
  - f_equal. revert l0 E. induction H as [|x l Hx Hl IH]; destruct l0; try discriminate; intro E; [reflexivity|].
    apply andb_true_iff in E. destruct E as [E1 E2]. f_equal; [apply Hx, E1 | apply IH, E2].
  - f_equal. revert l0 E. induction H as [|x l Hx Hl IH]; destruct l0; try discriminate; intro E; [reflexivity|].
    apply andb_true_iff in E. destruct E as [E1 E2]. f_equal; [apply Hx, E1 | apply IH, E2].
  - f_equal. revert d0 E. induction H as [|[k x] d [Hk Hx] Hd IH]; destruct d0 as [|[k' x'] d0]; try discriminate;
      intro E; [reflexivity|].
    apply andb_true_iff in E. destruct E as [E1 E2]. apply andb_true_iff in E1. destruct E1 as [E0 E1].
    simpl in Hk, Hx. rewrite (Hk _ E0), (Hx _ E1), (IH _ E2). reflexivity.
  - apply andb_true_iff in E. destruct E as [E1 E2]. apply str_eqb_spec in E1, E2. congruence.
  - apply andb_true_iff in E. destruct E as [E1 E2]. apply str_eqb_spec in E1, E2. congruence.
Qed.

Lemma c05_fl_eqb_refl f : fl_eqb f f = true.
Proof. destruct f; simpl; rewrite ?Z.eqb_refl; auto. destruct neg; reflexivity. Qed.

Lemma c05_val_eqb_refl : forall a, val_eqb a a = true.
Proof.
  intro a; induction a using c05_val_ind; simpl; auto using Z.eqb_refl, str_eqb_refl, c05_fl_eqb_refl.
  - destruct b; reflexivity.
  - induction H as [|x l Hx Hl IH]; [reflexivity|]. rewrite Hx. exact IH.
  - induction H as [|x l Hx Hl IH]; [reflexivity|]. rewrite Hx. exact IH.
  - induction H as [|x l Hx Hl IH]; [reflexivity|]. rewrite Hx. exact IH.
  - induction H as [|[k x] d [Hk Hx] Hd IH]; [reflexivity|]. simpl in *. rewrite Hk, Hx. exact IH.
  - rewrite !str_eqb_refl. reflexivity.
  - rewrite !str_eqb_refl. reflexivity.
Qed.

Lemma ares_eqb_refl a : ares_eqb a a = true.
Proof. destruct a; simpl; auto using c05_val_eqb_refl. Qed.

(* agreement of two channel results: the same stored value, or both rejections *)
Definition agree (a b : ares) : Prop :=
  match a, b with
  | AOk x, AOk y => x = y
  | AErr _, AErr _ => True
  | _, _ => False
  end.

Lemma ares_eqb_agree a b : ares_eqb a b = true -> agree a b.
Proof.
  destruct a, b; simpl; try discriminate; auto. apply c05_val_eqb_eq.
Qed.

Lemma agree_refl a : agree a a.
Proof. destruct a; simpl; auto. Qed.

Lemma agree_sym a b : agree a b -> agree b a.
Proof. destruct a, b; simpl; auto. Qed.

Lemma agree_trans a b c : agree a b -> agree b c -> agree a c.
Proof. destruct a, b, c; simpl; try tauto; congruence. Qed.

(* ---- (1) the pipeline -------------------------------------------------------------------------------------- *)
Section Pipeline.
Variable C : ty -> val -> ares.

Lemma validated_agree t a b : agree a b -> agree (validated C t a) (validated C t b).
Proof.
  destruct a as [x|e], b as [y|e']; simpl; try tauto.
  intros ->. apply agree_refl.
Qed.

(* a value the check leaves alone is stored as it is, by one pass or by two *)
Lemma fix_lenient t w : C t w = AOk w -> lenient C t w = AOk w.
Proof. intro H. destruct w; simpl; auto. Qed.

Theorem channels_agree t s v :
  guard C t s v = true ->
  agree (via_env C t s) (via_argv C t s) /\
  agree (via_object C t v) (via_argv C t s) /\
  agree (via_cfgenv C t v) (via_argv C t s).
Proof.
  unfold guard, g_reads, g_fixpt, g_none. intro G.
  apply andb_true_iff in G. destruct G as [G Gn]. apply andb_true_iff in G. destruct G as [Gr Gf].
  apply ares_eqb_agree in Gr.
  (* what the object channel checks: the value itself, except that a None is let through; the guard says a
     None is admitted by the type anyway *)
  assert (Hl : agree (lenient C t v) (C t v)).
  { destruct v; try apply agree_refl.
    simpl in Gn. apply ares_eqb_agree in Gn. apply agree_sym. unfold lenient. exact Gn. }
  (* a second pass changes nothing *)
  assert (H2 : forall r, agree r (C t v) -> agree (and_then r (lenient C t)) (C t v)).
  { intros r Hr. destruct r as [w|e]; simpl.
    - destruct (C t v) as [w'|e'] eqn:E; simpl in Hr; [|tauto]. subst w'.
      apply ares_eqb_agree in Gf. simpl in Gf. destruct (C t w) as [w2|e2] eqn:E2; simpl in Gf; [|tauto]. subst w2.
      rewrite (fix_lenient _ _ E2). simpl. reflexivity.
    - exact Hr. }
  unfold via_env, via_argv, via_object, via_cfgenv.
  split; [|split]; apply validated_agree.
  - apply agree_trans with (C t v); [|apply agree_sym; exact Gr]. apply H2. exact Gr.
  - apply agree_trans with (C t v); [exact Hl|apply agree_sym; exact Gr].
  - apply agree_trans with (C t v); [|apply agree_sym; exact Gr]. apply H2. exact Hl.
Qed.

End Pipeline.

(* ---- (2) strings at a str-typed position ----------------------------------------------------------------- *)
Section Pinned.
Variable fx : fixes.
Variable yl : str -> lres.

Lemma check_str_str s : check_type_g fx yl TStr (VStr s) = AOk (VStr s).
Proof.
  unfold check_type_g, parse_value.
  destruct (strip s) eqn:Es.
  - simpl. reflexivity.
  - destruct (load_value fx yl false s) as [x| |] eqn:El.
    + destruct x; simpl; reflexivity.
    + simpl. reflexivity.
    + simpl. reflexivity.
Qed.

Theorem str_position_all_channels s :
  via_argv (chk fx yl) TStr s = AOk (VStr s) /\
  via_env (chk fx yl) TStr s = AOk (VStr s) /\
  via_object (chk fx yl) TStr (VStr s) = AOk (VStr s) /\
  via_cfgenv (chk fx yl) TStr (VStr s) = AOk (VStr s).
Proof.
  unfold via_argv, via_env, via_object, via_cfgenv, chk. simpl.
  rewrite !check_str_str. simpl. rewrite !check_str_str. simpl. rewrite !check_str_str. auto.
Qed.

(* ---- (3) scalar types: a text the loader reads as the scalar x ---------------------------------------------- *)
Definition leaf_ty (k : leaf) : ty :=
  match k with LfStr => TStr | LfInt => TInt | LfFloat => TFloat | LfBool => TBool | LfNone => TNone end.

Lemma adapt_leaf_ty ser o k v : adapt_g fx yl ser o (leaf_ty k) v = adapt_leaf fx yl k v.
Proof. destruct k; reflexivity. Qed.

Lemma valid_string_leaf k v : k <> LfStr -> is_valid_string (leaf_ty k) v = false.
Proof. destruct k; simpl; try congruence; intros _; apply andb_false_r. Qed.

(* the text s "denotes" the non-string value x: parse_value_or_config leaves it a text (simple scalars) or loads
   it as x (null), and the loader used by the scalar types reads it as x *)
Definition denotes (s : str) (x : val) : Prop :=
  is_str x = false /\
  json_or_yaml_load fx yl s = LVal x /\
  (parse_value fx yl false (VStr s) = LVal (VStr s) \/ parse_value fx yl false (VStr s) = LVal x).

Lemma adapt_leaf_text k s x :
  k <> LfStr -> is_str x = false -> json_or_yaml_load fx yl s = LVal x ->
  adapt_leaf fx yl k (VStr s) = adapt_leaf fx yl k x.
Proof.
  intros Hk Hx Hl. unfold adapt_leaf. destruct k; try congruence; rewrite Hl; destruct x; try discriminate; reflexivity.
Qed.

Lemma adapt_leaf_err k v e : adapt_leaf fx yl k v = AErr e -> e = ErrValue.
Proof.
  unfold adapt_leaf.
  destruct (match v, k with
            | VStr _, LfStr => AOk v
            | VStr s, _ => match json_or_yaml_load fx yl s with
                           | LVal x => AOk x | LYamlErr => AOk v | LValErr => AErr ErrValue end
            | _, _ => AOk v end) as [v1|e1] eqn:E.
  - destruct (isinstance_leaf k _); [discriminate|]. congruence.
  - intro H. inversion H; subst. destruct v; try discriminate; destruct k; try discriminate;
      destruct (json_or_yaml_load fx yl s); try discriminate; congruence.
Qed.

Lemma check_leaf_text k s x :
  k <> LfStr -> denotes s x -> check_type_g fx yl (leaf_ty k) (VStr s) = check_type_g fx yl (leaf_ty k) x.
Proof.
  intros Hk (Hx & Hl & Hp).
  assert (Hpx : parse_value fx yl false x = LVal x) by (destruct x; try discriminate; reflexivity).
  assert (Ha := adapt_leaf_text k s x Hk Hx Hl).
  unfold check_type_g. rewrite Hpx.
  destruct Hp as [Hp|Hp]; rewrite Hp; cbv zeta; rewrite !adapt_leaf_ty, ?Ha;
    destruct (adapt_leaf fx yl k x) as [w|e] eqn:E; try reflexivity;
    pose proof (adapt_leaf_err _ _ _ E); subst e; rewrite ?valid_string_leaf by exact Hk;
    destruct x; try discriminate; reflexivity.
Qed.

(* what a scalar type accepts it leaves alone *)
Lemma check_leaf_fix k v w :
  k <> LfStr -> check_type_g fx yl (leaf_ty k) v = AOk w -> is_str v = false -> check_type_g fx yl (leaf_ty k) w = AOk w.
Proof.
  intros Hk H Hv.
  assert (Hpv : parse_value fx yl false v = LVal v) by (destruct v; try discriminate; reflexivity).
  unfold check_type_g in H. rewrite Hpv in H. cbv zeta in H. rewrite !adapt_leaf_ty in H.
  destruct (adapt_leaf fx yl k v) as [w'|e] eqn:E.
  - inversion H; subst w'. clear H.
    assert (Hi : isinstance_leaf k w = true).
    { unfold adapt_leaf in E. destruct v; try discriminate; destruct k; try congruence; simpl in E;
        try discriminate; inversion E; subst; reflexivity. }
    assert (Hw : is_str w = false) by (destruct k; try congruence; destruct w; try discriminate; reflexivity).
    assert (Hpw : parse_value fx yl false w = LVal w) by (destruct w; try discriminate; reflexivity).
    unfold check_type_g. rewrite Hpw. cbv zeta. rewrite !adapt_leaf_ty.
    assert (Ew : adapt_leaf fx yl k w = AOk w).
    { unfold adapt_leaf. destruct k; try congruence; destruct w; try discriminate; reflexivity. }
    rewrite Ew. reflexivity.
  - pose proof (adapt_leaf_err _ _ _ E); subst e. rewrite valid_string_leaf in H by exact Hk.
    destruct v; try discriminate.
Qed.

Theorem leaf_guard k s x :
  k <> LfStr -> denotes s x -> x <> VNone \/ k = LfNone -> guard (chk fx yl) (leaf_ty k) s x = true.
Proof.
  intros Hk Hd Hn. pose proof Hd as (Hx & _ & _).
  unfold guard, g_reads, g_fixpt, g_none, chk.
  rewrite (check_leaf_text k s x Hk Hd), ares_eqb_refl. simpl.
  apply andb_true_iff. split.
  - destruct (check_type_g fx yl (leaf_ty k) x) as [w|e] eqn:E; [|reflexivity].
    rewrite (check_leaf_fix k x w Hk E Hx). apply ares_eqb_refl.
  - destruct Hn as [Hn|Hn].
    + destruct x; try congruence; reflexivity.
    + subst k. destruct x; reflexivity.
Qed.

End Pinned.

(* ---- (4) JSON numbers under the YAML resolver table ---------------------------------------------------------- *)
Lemma tag_eqb_eq a b : tag_eqb a b = true -> a = b.
Proof. destruct a, b; simpl; congruence. Qed.

Lemma first_tag_sound tg es s : lang (first_tag_re tg es) s -> first_match es s = tg.
Proof.
  induction es as [|[tg' r] es IH]; simpl; [tauto|].
  destruct (matches r s) eqn:E.
  - destruct (tag_eqb tg' tg) eqn:Et; simpl.
    + intros [H|[H _]]; [apply tag_eqb_eq; exact Et|]. exfalso. apply H. apply matches_lang. exact E.
    + intros [H _]. exfalso. apply H. apply matches_lang. exact E.
  - assert (Hn : ~ lang r s) by (intro H; apply matches_lang in H; congruence).
    destruct (tag_eqb tg' tg); simpl.
    + intros [H|[_ H]]; [tauto|apply IH; exact H].
    + intros [_ H]. apply IH; exact H.
Qed.

Theorem tag_re_sound t tg s :
  wf_table t = true -> matches (tag_re t tg) s = true -> resolve t s = tg.
Proof.
  unfold wf_table. intros H. repeat (apply andb_true_iff in H; destruct H as [H ?]).
  destruct (wildcard t) eqn:Ew; [|discriminate].
  rename H2 into Hnd.
  rewrite matches_lang. unfold resolve, candidates, tag_re. rewrite Ew, app_nil_r, alt_list_lang.
  intros (r & Hr & Hl). apply in_app_or in Hr. destruct Hr as [Hr|[<-|[]]].
  - apply in_map_iff in Hr. destruct Hr as ([c es] & <- & Hin). simpl in Hl. destruct Hl as [Hf Ha].
    apply first_is_lang in Hf. destruct Hf as (s' & ->).
    rewrite (lookup_char_In _ _ _ Hnd Hin). apply first_tag_sound. exact Ha.
  - simpl in Hl. destruct Hl as [-> Ha]. apply first_tag_sound. exact Ha.
Qed.

(* ---- (5) previous_config is restored by every call, accepted or rejected ----------------------------------------- *)
From JV Require Import Model.C05History.

Lemma parse_items_restores : forall items s cfg, snd (parse_items with_previous_config s cfg items) = s.
Proof.
  induction items as [|i items IH]; intros s cfg; simpl; [reflexivity|].
  destruct i as [| |ok]; simpl; [apply IH|reflexivity|].
  destruct ok; simpl; [apply IH|reflexivity].
Qed.

Theorem history_independent : forall (calls : list (list pitem)) (s : pstate), state_after s calls = s.
Proof.
  induction calls as [|c calls IH]; intros s; simpl; [reflexivity|].
  unfold parse_call. rewrite parse_items_restores. apply IH.
Qed.

(* the finally is what makes this true: without it a rejected --cfg after one accepted option leaks *)
Lemma nofinally_leaks :
  snd (parse_items with_previous_config_nofinally None 0 [POpt; PCfg false]) = Some 1.
Proof. reflexivity. Qed.

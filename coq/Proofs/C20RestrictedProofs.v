(* C20 — proofs about restricted number types. *)
From JV Require Import Lib.Base Lib.C20Text Model.C20Base Gen.C20Operators Model.C20Restricted
  Spec.C20RestrictedSpec.
Local Open Scope Z_scope.
Ltac Zify.zify_post_hook ::= Z.to_euclidean_division_equations.

Definition valid_type (t : rtype) : bool := valid_syms (r_restr t).

(* ---- executable spec = Prop spec ---------------------------------------------------------- *)
Lemma ext_ltb_iff a b : ext_ltb a b = true <-> ext_lt a b.
Proof. destruct a, b; simpl; try rewrite Z.ltb_lt; intuition discriminate. Qed.
Lemma ext_eqb_iff a b : ext_eqb a b = true <-> ext_eq a b.
Proof. destruct a, b; simpl; try rewrite Z.eqb_eq; intuition discriminate. Qed.

Lemma holdsb_iff sym v r : holdsb sym v r = true <-> holds sym v r.
Proof.
  unfold holdsb, holds.
  repeat match goal with |- context [if ?c then _ else _] => destruct c end;
    rewrite ?orb_true_iff, ?negb_true_iff, ?ext_ltb_iff, ?ext_eqb_iff; try tauto.
  - rewrite <- ext_eqb_iff. destruct (ext_eqb _ _); intuition discriminate.
  - intuition discriminate.
Qed.

Lemma satb_iff rs j v : satb rs j v = true <-> sat rs j v.
Proof.
  destruct j; simpl.
  - rewrite forallb_forall, Forall_forall. split; intros H x Hx; apply holdsb_iff, H, Hx.
  - rewrite existsb_exists, Exists_exists. split; intros [x [Hx H]]; exists x; split; auto; apply holdsb_iff, H.
Qed.

(* ---- the generated operator table means what the symbols say ------------------------------ *)
Ltac solve_cmp :=
  unfold apply_op, million; simpl; auto;
  repeat match goal with
  | |- context [?a ?= ?b] => destruct (Z.compare_spec a b)
  | |- context [?a <? ?b] => destruct (Z.ltb_spec a b)
  | |- context [?a =? ?b] => destruct (Z.eqb_spec a b)
  end; simpl; unfold million in *; try reflexivity; try lia.

Lemma apply_op_gt a r : apply_op OpGt a r = ext_ltb (ext_of r) (ext_of a).
Proof. destruct a as [x|[x|[]|]], r as [y|[y|[]|]]; solve_cmp. Qed.
Lemma apply_op_lt a r : apply_op OpLt a r = ext_ltb (ext_of a) (ext_of r).
Proof. destruct a as [x|[x|[]|]], r as [y|[y|[]|]]; solve_cmp. Qed.
Lemma apply_op_eq a r : apply_op OpEq a r = ext_eqb (ext_of a) (ext_of r).
Proof. destruct a as [x|[x|[]|]], r as [y|[y|[]|]]; solve_cmp. Qed.
Lemma apply_op_ne a r : apply_op OpNe a r = negb (ext_eqb (ext_of a) (ext_of r)).
Proof. destruct a as [x|[x|[]|]], r as [y|[y|[]|]]; solve_cmp. Qed.
Lemma apply_op_ge a r : apply_op OpGe a r = ext_ltb (ext_of r) (ext_of a) || ext_eqb (ext_of a) (ext_of r).
Proof. destruct a as [x|[x|[]|]], r as [y|[y|[]|]]; solve_cmp. Qed.
Lemma apply_op_le a r : apply_op OpLe a r = ext_ltb (ext_of a) (ext_of r) || ext_eqb (ext_of a) (ext_of r).
Proof. destruct a as [x|[x|[]|]], r as [y|[y|[]|]]; solve_cmp. Qed.

(* This is the obligation that reads Gen/C20Operators.v: it fails to compile when the table in
   jsonargparse/typing.py maps a symbol to another comparison. *)
Lemma op_table_ok sym :
  valid_sym sym = true ->
  exists o, operators2 sym = Some o /\ forall a r, apply_op o a r = holdsb sym a r.
Proof.
  unfold valid_sym. intros H. apply mem_str_In in H. simpl in H.
  destruct H as [H|[H|[H|[H|[H|[H|[]]]]]]]; subst sym.
  - exists OpGt. split; [vm_compute; reflexivity|]. intros. rewrite apply_op_gt. reflexivity.
  - exists OpGe. split; [vm_compute; reflexivity|]. intros. rewrite apply_op_ge. reflexivity.
  - exists OpLt. split; [vm_compute; reflexivity|]. intros. rewrite apply_op_lt. reflexivity.
  - exists OpLe. split; [vm_compute; reflexivity|]. intros. rewrite apply_op_le. reflexivity.
  - exists OpEq. split; [vm_compute; reflexivity|]. intros. rewrite apply_op_eq. reflexivity.
  - exists OpNe. split; [vm_compute; reflexivity|]. intros. rewrite apply_op_ne. reflexivity.
Qed.

Lemma resolve_ok rs :
  forallb valid_sym (map fst rs) = true ->
  exists ops, resolve rs = Some ops /\
    forall v, map (fun cr => apply_op (fst cr) v (snd cr)) ops = map (fun sr => holdsb (fst sr) v (snd sr)) rs.
Proof.
  induction rs as [|[sym ref] rs IH]; simpl; intros H.
  - exists []. auto.
  - apply andb_true_iff in H. destruct H as [H1 H2].
    destruct (op_table_ok sym H1) as [o [Ho Hm]]. destruct (IH H2) as [ops [Hr Hs]].
    exists ((o, ref) :: ops). rewrite Ho, Hr. split; auto.
    intros v. simpl. rewrite Hm, Hs. reflexivity.
Qed.

(* ---- validation + cast = strict conversion ------------------------------------------------ *)
Lemma cast_conv b v :
  is_bool v = false ->
  ((match b with BInt => true | BFloat => false end) && is_float v && negb (is_integer v)) = false ->
  cast b v = conv b v.
Proof.
  destruct b, v as [z|[m|n|]|bb|s| |]; simpl; unfold million; intros Hb Hf; try reflexivity; try discriminate.
  apply negb_false_iff in Hf. rewrite Hf. apply Z.eqb_eq in Hf.
  do 2 f_equal. lia.
Qed.

Lemma conv_excluded b v :
  is_bool v = true \/
  ((match b with BInt => true | BFloat => false end) && is_float v && negb (is_integer v)) = true ->
  conv b v = None.
Proof.
  destruct b, v as [z|[m|n|]|bb|s| |]; simpl; unfold million; intros [H|H]; try reflexivity; try discriminate.
  apply negb_true_iff in H. rewrite H. reflexivity.
Qed.

Lemma forallb_map_id {A} (f : A -> bool) l : forallb (fun x => x) (map f l) = forallb f l.
Proof. induction l; simpl; congruence. Qed.
Lemma existsb_map_id {A} (f : A -> bool) l : existsb (fun x => x) (map f l) = existsb f l.
Proof. induction l; simpl; congruence. Qed.

Lemma construct_spec t v :
  valid_type t = true ->
  construct t v = spec_construct (r_base t) (r_restr t) (r_join t) v.
Proof.
  intros Hv. unfold construct, spec_construct.
  destruct (resolve_ok (r_restr t) Hv) as [ops [Hr Hs]]. rewrite Hr.
  unfold validation_fn.
  destruct (is_bool v) eqn:Eb.
  { rewrite conv_excluded; auto. }
  destruct ((match r_base t with BInt => true | BFloat => false end) && is_float v && negb (is_integer v)) eqn:Ef.
  { rewrite conv_excluded; auto. }
  rewrite cast_conv by auto.
  destruct (conv (r_base t) v) as [x|]; [|reflexivity].
  rewrite Hs, forallb_map_id, existsb_map_id. unfold satb.
  destruct (r_join t); simpl.
  - destruct (forallb _ _); reflexivity.
  - destruct (existsb _ _); reflexivity.
Qed.

(* restricted_exact: T(v) succeeds with value b  <->  v converts to the base type as b and b
   satisfies the comparisons joined by and/or. For every restriction list, join and value. *)
Theorem restricted_exact_lemma t v b :
  valid_type t = true ->
  (construct t v = Some b <-> conv (r_base t) v = Some b /\ sat (r_restr t) (r_join t) b).
Proof.
  intros Hv. rewrite construct_spec by auto. unfold spec_construct.
  destruct (conv (r_base t) v) as [x|].
  - destruct (satb (r_restr t) (r_join t) x) eqn:E.
    + split.
      * intros H. inversion H; subst. split; auto. apply satb_iff; auto.
      * intros [H _]. exact H.
    + split; [discriminate|]. intros [H1 H2]. inversion H1; subst.
      apply satb_iff in H2. congruence.
  - split; [discriminate | intros [H _]; discriminate].
Qed.

(* rejection is covered too: T(v) raises exactly when v does not convert or the comparisons fail *)
Theorem restricted_reject_lemma t v :
  valid_type t = true ->
  (construct t v = None <->
   conv (r_base t) v = None \/ exists b, conv (r_base t) v = Some b /\ ~ sat (r_restr t) (r_join t) b).
Proof.
  intros Hv. rewrite construct_spec by auto. unfold spec_construct.
  destruct (conv (r_base t) v) as [x|].
  - destruct (satb (r_restr t) (r_join t) x) eqn:E.
    + split; [discriminate|]. intros [H|[b [H1 H2]]]; [discriminate|].
      inversion H1; subst. apply satb_iff in E. contradiction.
    + split; auto. intros _. right. exists x. split; auto. rewrite <- satb_iff. congruence.
  - split; auto.
Qed.

Lemma conv_idem b v x : conv b v = Some x -> conv b (val_of_num x) = Some x.
Proof.
  destruct b, v as [z|[m|n|]|bb|s| |]; simpl; intros H; try discriminate;
    try (inversion H; subst; reflexivity).
  - destruct (m mod 1000000 =? 0); inversion H; subst; reflexivity.
  - destruct (parse_int_str s); inversion H; subst; reflexivity.
  - destruct (float_of_int z); inversion H; subst; reflexivity.
  - destruct (parse_float_str s); inversion H; subst; reflexivity.
Qed.

(* casting an accepted value again changes nothing: T(T(v)) = T(v) *)
Theorem restricted_idempotent_lemma t v b :
  valid_type t = true -> construct t v = Some b -> construct t (val_of_num b) = Some b.
Proof.
  intros Hv H. apply (restricted_exact_lemma t v b Hv) in H. destruct H as [H1 H2].
  apply (restricted_exact_lemma t _ b Hv). split; auto. eapply conv_idem; eauto.
Qed.

(* the parse path (adapt, retry with the original text) agrees with its reference *)
Theorem check_type_spec_lemma t loaded orig :
  valid_type t = true ->
  check_type t loaded orig = spec_check_type (r_base t) (r_restr t) (r_join t) loaded orig.
Proof.
  intros Hv. unfold check_type, spec_check_type. rewrite !construct_spec by auto.
  destruct (spec_construct _ _ _ loaded); auto. destruct orig; auto. rewrite construct_spec; auto.
Qed.

(* C01 — proofs.
   1. tag_re_sound: the regular expression `tag_re t tg` under-approximates "table t resolves s to tag tg"
      (first-character dispatch + first matching regexp), so inclusions decided by the verified checker of
      Lib/Regex.v transfer to `resolve`.
   2. reload_id: writing a serialised value as YAML / JSON text and loading it back is the identity, scalar by scalar,
      from C01_str_plain_agree (strings) and the number-text inclusions.
   3. roundtrip_ok: leaf by leaf, dump -> text -> parse gives back the accepted configuration inside the guard. *)
From JV Require Import Lib.Base Lib.Regex Model.TyVal Model.Scalar Proofs.ScalarProofs Model.C01Conf Model.C01Guard.

(* ---- 1. tag_re ------------------------------------------------------------------------------------------------- *)
Lemma matches_emp s : matches Emp s = false.
Proof.
  destruct (matches Emp s) eqn:E; [|reflexivity]. apply matches_lang in E. destruct E.
Qed.

Lemma tag_eqb_eq a b : tag_eqb a b = true -> a = b.
Proof. destruct a, b; simpl; intros H; try discriminate; reflexivity. Qed.

Lemma ftr_false tg : forall es before s,
  matches before s = true -> matches (first_tag_re tg es before) s = false.
Proof.
  induction es as [|[t r] es IH]; intros before s Hb; simpl.
  - apply matches_emp.
  - assert (Hrest : matches (first_tag_re tg es (Alt before r)) s = false).
    { apply IH. rewrite matches_alt, Hb. reflexivity. }
    destruct (tag_eqb t tg); [|exact Hrest].
    rewrite matches_alt, matches_and, matches_not, Hb, Hrest. simpl. rewrite andb_false_r. reflexivity.
Qed.

Lemma ftr_sound tg : forall es before s,
  matches before s = false -> matches (first_tag_re tg es before) s = true -> first_match es s = tg.
Proof.
  induction es as [|[t r] es IH]; intros before s Hb Hm; simpl in *.
  - rewrite matches_emp in Hm. discriminate.
  - destruct (matches r s) eqn:Er.
    + assert (Hrest : matches (first_tag_re tg es (Alt before r)) s = false).
      { apply ftr_false. rewrite matches_alt, Er. apply orb_true_r. }
      destruct (tag_eqb t tg) eqn:Et.
      * apply tag_eqb_eq. exact Et.
      * rewrite Hrest in Hm. discriminate.
    + apply (IH (Alt before r)).
      * rewrite matches_alt, Hb, Er. reflexivity.
      * destruct (tag_eqb t tg); [|exact Hm].
        rewrite matches_alt, matches_and, Er in Hm. simpl in Hm. exact Hm.
Qed.

Theorem tag_re_sound t tg s :
  wf_table t = true -> matches (tag_re t tg) s = true -> resolve t s = tg.
Proof.
  unfold wf_table. intros H Hm. repeat (apply andb_true_iff in H; destruct H as [H ?]).
  destruct (wildcard t) eqn:Ew; [|discriminate].
  rename H0 into Hempty, H1 into Hall, H2 into Hnd.
  apply matches_lang in Hm. unfold tag_re in Hm. apply alt_list_lang in Hm. destruct Hm as (r & Hr & Hl).
  unfold resolve, candidates. rewrite Ew, app_nil_r.
  apply in_app_or in Hr. destruct Hr as [Hr|[<-|[]]].
  - apply in_map_iff in Hr. destruct Hr as ([c es] & <- & Hin). simpl in Hl. destruct Hl as [Hf Ht].
    apply first_is_lang in Hf. destruct Hf as (s' & ->).
    rewrite (lookup_char_In _ _ _ Hnd Hin).
    apply (ftr_sound tg es Emp); [apply matches_emp|]. apply matches_lang. exact Ht.
  - simpl in Hl. destruct Hl as [-> Ht].
    apply (ftr_sound tg (on_empty t) Emp); [apply matches_emp|]. apply matches_lang. exact Ht.
Qed.

(* inclusion in tag_re, decided by the checker, gives the tag of every string of the language *)
Theorem lang_resolves t tg fuel r :
  wf_table t = true -> incl_re fuel r (tag_re t tg) = true ->
  forall s, matches r s = true -> resolve t s = tg.
Proof.
  intros Hwf Hincl s Hs. apply (tag_re_sound _ _ _ Hwf). exact (incl_sound _ _ _ Hincl s Hs).
Qed.

(* ---- induction on values ------------------------------------------------------------------------------------- *)
Section ValInd.
  Variable P : val -> Prop.
  Hypothesis HNone : P VNone.
  Hypothesis HBool : forall b, P (VBool b).
  Hypothesis HInt : forall z, P (VInt z).
  Hypothesis HFloat : forall f, P (VFloat f).
  Hypothesis HStr : forall s, P (VStr s).
  Hypothesis HList : forall l, Forall P l -> P (VList l).
  Hypothesis HTuple : forall l, Forall P l -> P (VTuple l).
  Hypothesis HSet : forall l, Forall P l -> P (VSet l).
  Hypothesis HDict : forall d, Forall (fun kv => P (fst kv) /\ P (snd kv)) d -> P (VDict d).
  Hypothesis HEnum : forall c m, P (VEnum c m).
  Hypothesis HOpaque : forall k r, P (VOpaque k r).

  Fixpoint val_ind_c01 (v : val) : P v :=
    match v with
    | VNone => HNone
    | VBool b => HBool b
    | VInt z => HInt z
    | VFloat f => HFloat f
    | VStr s => HStr s
    | VList l => HList l ((fix go (l : list val) : Forall P l :=
                             match l with [] => Forall_nil _ | x :: r => Forall_cons x (val_ind_c01 x) (go r) end) l)
    | VTuple l => HTuple l ((fix go (l : list val) : Forall P l :=
                               match l with [] => Forall_nil _ | x :: r => Forall_cons x (val_ind_c01 x) (go r) end) l)
    | VSet l => HSet l ((fix go (l : list val) : Forall P l :=
                           match l with [] => Forall_nil _ | x :: r => Forall_cons x (val_ind_c01 x) (go r) end) l)
    | VDict d => HDict d ((fix go (d : list (val * val)) : Forall (fun kv => P (fst kv) /\ P (snd kv)) d :=
                             match d with
                             | [] => Forall_nil _
                             | kv :: r => Forall_cons kv (conj (val_ind_c01 (fst kv)) (val_ind_c01 (snd kv))) (go r)
                             end) d)
    | VEnum c m => HEnum c m
    | VOpaque k r => HOpaque k r
    end.
End ValInd.

(* ---- 2. the text layer ------------------------------------------------------------------------------------------ *)
Section Text.
Variable plain_ok : str -> bool.
Variable yrepr jrepr : fl -> str.
Variable dtab ltab : rtable.

(* facts about the two tables (established for the regenerated tables in Properties/C01.v) *)
Hypothesis str_agree : forall s, resolve dtab s = TgStr -> resolve ltab s = TgStr.
Hypothesis int_tag : forall s, matches int_out s = true -> resolve ltab s = TgInt.
Hypothesis yfloat_tag : forall s, matches yaml_float_out s = true -> resolve ltab s = TgFloat.
Hypothesis jfloat_tag : forall s, matches repr_float_fin s = true -> resolve ltab s = TgFloat.
Hypothesis bool_tag : forall b, resolve ltab (bool_text b) = TgBool.
Hypothesis null_tag : resolve ltab null_text = TgNull.
(* Python's number <-> text conversions *)
Hypothesis int_text : forall z, matches int_out (repr_int z) = true /\ construct_int (repr_int z) = COk (VInt z).
Hypothesis yfloat_text : forall x, matches yaml_float_out (yrepr x) = true /\ construct_float (yrepr x) = COk (VFloat x).
Hypothesis jfloat_text : forall x, nonfinite x = false ->
  matches repr_float_fin (jrepr x) = true /\ construct_float (jrepr x) = COk (VFloat x).

Lemma reload_str_id s : reload_str plain_ok dtab ltab s = VStr s.
Proof.
  unfold reload_str. destruct (tag_eqb (resolve dtab s) TgStr) eqn:E; [|reflexivity].
  destruct (plain_ok s); [|reflexivity]. simpl.
  apply tag_eqb_eq in E. unfold yaml_scalar. rewrite (str_agree _ E). reflexivity.
Qed.

Lemma reload_tagged_same tg text v :
  resolve ltab text = tg -> construct tg text = COk v -> reload_tagged dtab ltab tg text = v.
Proof.
  intros Hr Hc. unfold reload_tagged, yaml_scalar. rewrite Hr, Hc. destruct (tag_eqb (resolve dtab text) tg); reflexivity.
Qed.

Lemma construct_bool_text b : construct TgBool (bool_text b) = COk (VBool b).
Proof. destruct b; reflexivity. Qed.

Lemma val_any_list p l : val_any p (VList l) = false -> Forall (fun x => val_any p x = false) l.
Proof.
  simpl. intros H. apply orb_false_iff in H. destruct H as [_ H].
  induction l as [|x l IH]; constructor; simpl in H; apply orb_false_iff in H; destruct H; auto.
Qed.

Lemma val_any_dict p d :
  val_any p (VDict d) = false -> Forall (fun kv => val_any p (fst kv) = false /\ val_any p (snd kv) = false) d.
Proof.
  simpl. intros H. apply orb_false_iff in H. destruct H as [_ H].
  induction d as [|kv d IH]; constructor; simpl in H; apply orb_false_iff in H; destruct H as [H1 H2].
  - apply orb_false_iff in H1. exact H1.
  - auto.
Qed.

Theorem reload_id : forall f v,
  (f = FJson -> has_nonfinite v = false) ->
  reload plain_ok yrepr jrepr dtab ltab f v = v.
Proof.
  intros f v. induction v using val_ind_c01; intros Hnf; try reflexivity.
  - (* None *)
    destruct f; simpl.
    + apply reload_tagged_same; [exact null_tag|reflexivity].
    + unfold yaml_scalar. rewrite null_tag. reflexivity.
  - (* bool *)
    destruct f; simpl.
    + apply reload_tagged_same; [apply bool_tag|apply construct_bool_text].
    + unfold yaml_scalar. rewrite bool_tag, construct_bool_text. reflexivity.
  - (* int *)
    destruct (int_text z) as [Hm Hc]. pose proof (int_tag _ Hm) as Ht.
    destruct f; simpl.
    + apply reload_tagged_same; [exact Ht|exact Hc].
    + unfold yaml_scalar. rewrite Ht. simpl. rewrite Hc. reflexivity.
  - (* float *)
    destruct f; simpl.
    + destruct (yfloat_text f0) as [Hm Hc]. apply reload_tagged_same; [apply yfloat_tag; exact Hm|exact Hc].
    + assert (Hfin : nonfinite f0 = false).
      { specialize (Hnf eq_refl). unfold has_nonfinite in Hnf. simpl in Hnf. rewrite orb_false_r in Hnf. exact Hnf. }
      destruct (jfloat_text f0 Hfin) as [Hm Hc]. unfold yaml_scalar. rewrite (jfloat_tag _ Hm). simpl. rewrite Hc. reflexivity.
  - (* str *)
    destruct f; simpl; [apply reload_str_id|reflexivity].
  - (* list *)
    simpl. f_equal.
    assert (Hl : Forall (fun x => f = FJson -> has_nonfinite x = false) l).
    { destruct f.
      - apply Forall_forall. intros x _ E. discriminate.
      - specialize (Hnf eq_refl). apply val_any_list in Hnf. eapply Forall_impl; [|exact Hnf]. intros a Ha _. exact Ha. }
    clear Hnf. induction l as [|x l IH]; [reflexivity|].
    inversion H; subst. inversion Hl; subst. simpl. f_equal; auto.
  - (* dict *)
    simpl. f_equal.
    assert (Hl : Forall (fun kv => (f = FJson -> has_nonfinite (fst kv) = false) /\ (f = FJson -> has_nonfinite (snd kv) = false)) d).
    { destruct f.
      - apply Forall_forall. intros x _. split; intros E; discriminate.
      - specialize (Hnf eq_refl). apply val_any_dict in Hnf. eapply Forall_impl; [|exact Hnf].
        intros a [Ha Hb]. split; intros _; assumption. }
    clear Hnf. induction d as [|[k x] d IH]; [reflexivity|].
    inversion H; subst. inversion Hl; subst. simpl in *. destruct H2 as [Hk Hx]. destruct H4 as [Gk Gx].
    rewrite (Hk Gk), (Hx Gx). f_equal. auto.
Qed.

(* ---- 3. one leaf, then the configuration ---------------------------------------------------------------------- *)
Variable yl : str -> option val.

(* the accepted value of a leaf survives its own serialise / parse pair (proved for the container grammar in
   leaf_stable_simple below; evaluated per case by the judge for the rest) *)
Definition leaf_stable (sn : bool) (lf : leaf) (w : val) : Prop :=
  w = VNone \/
  exists j, ser_leaf yl sn (lf_ty lf) (lf_def lf) w = Some j /\
            exists w', check_entry yl (lf_ty lf) (lf_def lf) j = Some w' /\ veq w' w = true.

Lemma dump_entry_class0 vr lf w j :
  skipdef_class yl vr lf w = 0%N ->
  cleanup yl true (vr_skip_none vr) (lf_ty lf) (lf_def lf) w = EPresent j ->
  dump_entry yl vr lf w = EPresent j \/ (dump_entry yl vr lf w = EAbsent /\ veq (lf_def lf) w = true).
Proof.
  unfold skipdef_class, dump_entry. intros Hc Hcl. rewrite Hcl in *.
  destruct (vr_skip_default vr); [|left; reflexivity].
  destruct (cleanup yl false (vr_skip_none vr) (lf_ty lf) (lf_def lf) (lf_def lf)) as [| |dj]; try (left; reflexivity).
  destruct (trim (lf_ty lf) j dj) as [| |j'].
  - discriminate.
  - destruct (veq (lf_def lf) w); [right; split; reflexivity|]. destruct (spec_class j); discriminate.
  - destruct (val_eqb j' j); [left; reflexivity|].
    destruct (negb _ && carry_conflict _ _ _); discriminate.
Qed.

Lemma cleanup_nonnone sn t dflt w j :
  w <> VNone -> ser_leaf yl sn t dflt w = Some j -> cleanup yl true sn t dflt w = EPresent j.
Proof. intros Hn Hs. destruct w; try congruence; unfold cleanup; rewrite Hs; reflexivity. Qed.

Lemma leaf_rt_ok vr lf w :
  leaf_class yl vr (lf, w) = 0%N -> leaf_stable (vr_skip_none vr) lf w ->
  exists w', leaf_rt yl plain_ok yrepr jrepr dtab ltab vr lf w = Some w' /\ veq w' w = true.
Proof.
  unfold leaf_class. intros Hc Hst.
  destruct (vr_comments vr) eqn:Ecm; [discriminate|].
  destruct (has_null_enum w) eqn:Een; [discriminate|].
  destruct (vr_skip_none vr && (is_vnone w && negb (is_vnone (lf_def lf)) || none_loss (top_fill (lf_ty lf)) (lf_ty lf) w
                              || sub_none_loss (lf_def lf) w)) eqn:E1; [discriminate|].
  destruct (negb (leaf_stable_b yl (vr_skip_none vr) lf (lf_def lf)) && (veq w (lf_def lf) || vr_skip_default vr)) eqn:E8;
    [discriminate|].
  destruct (N.eqb (skipdef_class yl vr lf w) 0) eqn:Esd; simpl in Hc;
    [apply N.eqb_eq in Esd
    |apply N.eqb_neq in Esd;
     destruct (N.eqb (skipdef_class yl vr lf w) 11 && negb (N.eqb (text_class yl vr lf w) 0)) eqn:E11;
     [apply andb_true_iff in E11; destruct E11 as [_ E11]; apply negb_true_iff in E11; apply N.eqb_neq in E11; congruence
     |congruence]].
  assert (Hpresent : forall j, dump_entry yl vr lf w = EPresent j ->
            (vr_fmt vr = FJson -> has_nonfinite j = false)).
  { intros j Hj Ef. unfold text_class in Hc. rewrite Hj, Ef in Hc.
    destruct (has_bad_str FJson j); [discriminate|]. destruct (has_nonfinite j); [discriminate|reflexivity]. }
  unfold leaf_rt.
  assert (Hnone : w = VNone ->
            exists w', match dump_entry yl vr lf w with
                       | EErr => None
                       | EAbsent => Some (lf_def lf)
                       | EPresent j => check_entry yl (lf_ty lf) (lf_def lf)
                                         (reload plain_ok yrepr jrepr dtab ltab (vr_fmt vr) j)
                       end = Some w' /\ veq w' w = true).
  { intros ->. destruct (vr_skip_none vr) eqn:Esn.
    - simpl in E1. apply orb_false_iff in E1. destruct E1 as [E1 _]. apply orb_false_iff in E1. destruct E1 as [E1 _].
      apply negb_false_iff in E1.
      unfold dump_entry. simpl. rewrite Esn. destruct (lf_def lf); try discriminate. exists VNone. auto.
    - destruct (dump_entry_class0 vr lf VNone VNone Esd) as [He|[He Hv]].
      + simpl. rewrite Esn. reflexivity.
      + rewrite He. rewrite reload_id; [|intros _; reflexivity]. exists VNone. auto.
      + rewrite He. exists (lf_def lf). auto. }
  destruct Hst as [->|(j & Hser & w' & Hchk & Hveq)]; [apply Hnone; reflexivity|].
  destruct w as [| | | | | | | | | |] eqn:Ew; [apply Hnone; reflexivity| | | | | | | | | |];
    (destruct (dump_entry_class0 vr lf _ j Esd) as [He|[He Hv]];
     [apply cleanup_nonnone; [discriminate|exact Hser]
     |rewrite He; rewrite reload_id; [exists w'; auto|apply Hpresent; exact He]
     |rewrite He; eexists; split; [reflexivity|exact Hv]]).
Qed.

Theorem roundtrip_ok vr : forall lvs,
  case_class yl vr lvs = 0%N ->
  Forall (fun lw => leaf_stable (vr_skip_none vr) (fst lw) (snd lw)) lvs ->
  exists ws, roundtrip yl plain_ok yrepr jrepr dtab ltab vr lvs = Some ws /\
             Forall2 (fun w' w => veq w' w = true) ws (map snd lvs).
Proof.
  induction lvs as [|[lf w] lvs IH]; intros Hc Hst.
  - exists []. split; [reflexivity|constructor].
  - assert (Hc' : (if N.eqb (leaf_class yl vr (lf, w)) 0 then case_class yl vr lvs
                   else if N.eqb (leaf_class yl vr (lf, w)) 11
                        then (if N.eqb (case_class yl vr lvs) 0 then leaf_class yl vr (lf, w) else case_class yl vr lvs)
                        else leaf_class yl vr (lf, w)) = 0%N) by exact Hc.
    clear Hc. rename Hc' into Hc. destruct (N.eqb (leaf_class yl vr (lf, w)) 0) eqn:E0.
    + apply N.eqb_eq in E0. inversion Hst; subst. simpl in H1.
      destruct (leaf_rt_ok vr lf w E0 H1) as (w' & Hrt & Hv).
      destruct (IH Hc H2) as (ws & Hws & Hall).
      exists (w' :: ws). split.
      * unfold roundtrip in *. simpl. rewrite Hrt, Hws. reflexivity.
      * constructor; assumption.
    + apply N.eqb_neq in E0. destruct (N.eqb (leaf_class yl vr (lf, w)) 11); [|congruence].
      destruct (N.eqb (case_class yl vr lvs) 0) eqn:E1; [congruence|]. apply N.eqb_neq in E1. congruence.
Qed.

(* ---- 4. per-leaf stability PROVED for the container grammar (simple_ty) ---------------------------------------- *)
Section CtyInd.
  Variable P : cty -> Prop.
  Hypothesis HStr : P CStr.
  Hypothesis HInt : P CInt.
  Hypothesis HFloat : P CFloat.
  Hypothesis HBool : P CBool.
  Hypothesis HNone : P CNone.
  Hypothesis HAny : P CAny.
  Hypothesis HLit : forall ls, P (CLit ls).
  Hypothesis HEnum : forall c ms, P (CEnum c ms).
  Hypothesis HUnion : forall ts, Forall P ts -> P (CUnion ts).
  Hypothesis HList : forall t, P t -> P (CList t).
  Hypothesis HDict : forall b t, P t -> P (CDict b t).
  Hypothesis HTuple : forall ts, Forall P ts -> P (CTuple ts).
  Hypothesis HTupleVar : forall t, P t -> P (CTupleVar t).
  Hypothesis HSet : forall t, P t -> P (CSet t).
  Hypothesis HData : forall fs, P (CData fs).
  Hypothesis HSub : forall cs, P (CSub cs).

  Fixpoint cty_ind_c01 (t : cty) : P t :=
    match t with
    | CStr => HStr | CInt => HInt | CFloat => HFloat | CBool => HBool | CNone => HNone | CAny => HAny
    | CLit ls => HLit ls
    | CEnum c ms => HEnum c ms
    | CUnion ts => HUnion ts ((fix go (ts : list cty) : Forall P ts :=
                                 match ts with [] => Forall_nil _ | x :: r => Forall_cons x (cty_ind_c01 x) (go r) end) ts)
    | CList t1 => HList t1 (cty_ind_c01 t1)
    | CDict b t1 => HDict b t1 (cty_ind_c01 t1)
    | CTuple ts => HTuple ts ((fix go (ts : list cty) : Forall P ts :=
                                 match ts with [] => Forall_nil _ | x :: r => Forall_cons x (cty_ind_c01 x) (go r) end) ts)
    | CTupleVar t1 => HTupleVar t1 (cty_ind_c01 t1)
    | CSet t1 => HSet t1 (cty_ind_c01 t1)
    | CData fs => HData fs
    | CSub cs => HSub cs
    end.
End CtyInd.

(* veq is reflexive *)
Definition veq_all2 := fix all2 (x y : list val) : bool :=
  match x, y with [], [] => true | u :: x', w :: y' => veq u w && all2 x' y' | _, _ => false end.
Definition veq_sub := fix subset (x y : list val) : bool :=
  match x with [] => true | u :: x' => existsb (veq u) y && subset x' y end.
Definition veq_dsub := fix dsubset (x y : list (val * val)) : bool :=
  match x with
  | [] => true
  | (k, u) :: x' => existsb (fun kw => veq k (fst kw) && veq u (snd kw)) y && dsubset x' y
  end.
Lemma veq_list_eq l l' : veq (VList l) (VList l') = veq_all2 l l'. Proof. reflexivity. Qed.
Lemma veq_tuple_eq l l' : veq (VTuple l) (VTuple l') = veq_all2 l l'. Proof. reflexivity. Qed.
Lemma veq_set_eq l l' : veq (VSet l) (VSet l') = Nat.eqb (length l) (length l') && veq_sub l l'. Proof. reflexivity. Qed.
Lemma veq_dict_eq d d' : veq (VDict d) (VDict d') = Nat.eqb (length d) (length d') && veq_dsub d d'. Proof. reflexivity. Qed.

Lemma fl_eqb_refl x : fl_eqb x x = true.
Proof. destruct x as [m e|b|]; simpl; [rewrite !Z.eqb_refl; reflexivity|destruct b; reflexivity|reflexivity]. Qed.

Lemma veq_all2_refl l : Forall (fun x => veq x x = true) l -> veq_all2 l l = true.
Proof. induction 1; simpl; [reflexivity|]. rewrite H, IHForall. reflexivity. Qed.

Lemma veq_sub_in x : forall y, Forall (fun u => veq u u = true) x -> (forall u, In u x -> In u y) -> veq_sub x y = true.
Proof.
  induction x as [|u x IH]; intros y Hr Hin; simpl; [reflexivity|].
  inversion Hr; subst. apply andb_true_iff. split.
  - apply existsb_exists. exists u. split; [apply Hin; left; reflexivity|assumption].
  - apply IH; [assumption|]. intros w Hw. apply Hin. right. exact Hw.
Qed.

Lemma veq_dsub_in x : forall y, Forall (fun kv => veq (fst kv) (fst kv) = true /\ veq (snd kv) (snd kv) = true) x ->
  (forall kv, In kv x -> In kv y) -> veq_dsub x y = true.
Proof.
  induction x as [|[k u] x IH]; intros y Hr Hin; simpl; [reflexivity|].
  inversion Hr; subst. simpl in H1. destruct H1 as [Hk Hu]. apply andb_true_iff. split.
  - apply existsb_exists. exists (k, u). split; [apply Hin; left; reflexivity|]. simpl. rewrite Hk, Hu. reflexivity.
  - apply IH; [assumption|]. intros w Hw. apply Hin. right. exact Hw.
Qed.

Lemma veq_refl : forall v, veq v v = true.
Proof.
  induction v using val_ind_c01; try reflexivity.
  - simpl. destruct b; reflexivity.
  - simpl. apply Z.eqb_refl.
  - simpl. apply fl_eqb_refl.
  - simpl. apply str_eqb_refl.
  - rewrite veq_list_eq. apply veq_all2_refl. assumption.
  - rewrite veq_tuple_eq. apply veq_all2_refl. assumption.
  - rewrite veq_set_eq, Nat.eqb_refl. simpl. apply veq_sub_in; [assumption|auto].
  - rewrite veq_dict_eq, Nat.eqb_refl. simpl. apply veq_dsub_in; [assumption|auto].
  - simpl. rewrite !str_eqb_refl. reflexivity.
  - simpl. rewrite !str_eqb_refl. reflexivity.
Qed.

Lemma map_opt_pair {A B} (f : A -> option B) (g : B -> option A) (l : list A) :
  Forall (fun x => exists j, f x = Some j /\ g j = Some x) l ->
  exists js, map_opt f l = Some js /\ map_opt g js = Some l.
Proof.
  induction 1 as [|x l (j & Hf & Hg) _ (js & H1 & H2)].
  - exists []. split; reflexivity.
  - exists (j :: js). simpl. rewrite Hf, H1. simpl. rewrite Hg, H2. split; reflexivity.
Qed.

Definition tuple_go (F : cty -> val -> option val) := fix go (ts : list cty) (l : list val) : option (list val) :=
  match ts, l with
  | t1 :: ts', x :: l' => match F t1 x, go ts' l' with Some w, Some r => Some (w :: r) | _, _ => None end
  | _, _ => Some []
  end.

Lemma adapt_tuple_eq m o ts v :
  adapt yl m o (CTuple ts) v =
  match seq_items v with
  | None => None
  | Some l => if negb (Nat.eqb (length l) (length ts)) then None
              else match tuple_go (adapt yl (sub_mode m) o) ts l with
                   | Some r => Some (if is_ser m then VList r else VTuple r)
                   | None => None
                   end
  end.
Proof. reflexivity. Qed.

Lemma adapt_list_eq m o t1 v :
  adapt yl m o (CList t1) v =
  match seq_items v with
  | Some l => match map_opt (adapt yl (item_mode m t1) o t1) l with Some r => Some (VList r) | None => None end
  | None => None
  end.
Proof. reflexivity. Qed.

Lemma adapt_tuplevar_eq m o t1 v :
  adapt yl m o (CTupleVar t1) v =
  match seq_items v with
  | None => None
  | Some l => match map_opt (adapt yl (sub_mode m) o t1) l with
              | Some r => Some (if is_ser m then VList r else VTuple r)
              | None => None
              end
  end.
Proof. reflexivity. Qed.

Lemma adapt_dict_eq m o t1 d :
  adapt yl m o (CDict false t1) (VDict d) =
  match map_opt (fun kv : val * val => match adapt yl (sub_mode m) o t1 (snd kv) with
                                       | Some w => Some (fst kv, w)
                                       | None => None
                                       end) d with
  | Some r => Some (VDict r)
  | None => None
  end.
Proof. reflexivity. Qed.

Definition wt_go := fix go (ts : list cty) (l : list val) : bool :=
  match ts, l with [], [] => true | t1 :: ts', x :: l' => wt t1 x && go ts' l' | _, _ => false end.
Lemma wt_tuple_eq ts l : wt (CTuple ts) (VTuple l) = wt_go ts l. Proof. reflexivity. Qed.

Lemma tuple_go_pair (F G : cty -> val -> option val) : forall ts l,
  Forall (fun t => forall x, wt t x = true -> exists j, F t x = Some j /\ G t j = Some x) ts ->
  wt_go ts l = true ->
  length l = length ts /\ exists js, tuple_go F ts l = Some js /\ tuple_go G ts js = Some l /\ length js = length ts.
Proof.
  induction ts as [|t ts IH]; intros l HF Hw; destruct l as [|x l]; simpl in Hw; try discriminate.
  - split; [reflexivity|]. exists []. repeat split; reflexivity.
  - apply andb_true_iff in Hw. destruct Hw as [Hx Hl]. inversion HF; subst.
    destruct (H1 x Hx) as (j & Hf & Hg). destruct (IH l H2 Hl) as (Hlen & js & H3 & H4 & H5).
    split; [simpl; congruence|]. exists (j :: js). simpl. rewrite Hf, H3, Hg, H4. repeat split; simpl; congruence.
Qed.

Lemma opt_union_none o v t1 r1 w : is_cnone t1 = false -> adapt_union o v [(t1, r1); (CNone, Some w)] = Some w.
Proof.
  intros H. unfold adapt_union, stable_sort. simpl. unfold union_key. simpl. rewrite H.
  destruct (is_str v), (is_seqmap t1); reflexivity.
Qed.

Lemma opt_union_some o v t1 w : is_cnone t1 = false -> adapt_union o v [(t1, Some w); (CNone, None)] = Some w.
Proof.
  intros H. unfold adapt_union, stable_sort. simpl. unfold union_key. simpl. rewrite H.
  destruct (is_str v), (is_seqmap t1), o; reflexivity.
Qed.

Lemma adapt_opt_eq m o t1 v :
  adapt yl m o (CUnion [t1; CNone]) v = adapt_union o v [(t1, adapt yl (union_mode m) o t1 v); (CNone, adapt_leaf yl KNone v)].
Proof. reflexivity. Qed.

Lemma leaf_none_reject v : is_str v = false -> is_vnone v = false -> adapt_leaf yl KNone v = None.
Proof. destruct v; simpl; intros; try discriminate; reflexivity. Qed.

Definition opt_arg (t1 : cty) : bool := match t1 with CStr | CNone | CUnion _ => false | _ => true end.

Lemma wt_opt_arg t1 w : opt_arg t1 = true -> wt t1 w = true -> is_str w = false /\ is_vnone w = false.
Proof.
  destruct t1; try discriminate; intros _ H; destruct w; simpl in H; try discriminate; try (split; reflexivity);
    destruct int_keys; discriminate.
Qed.

Lemma adapt_cstr m o v : adapt yl m o CStr v = adapt_leaf yl KStr v.
Proof. reflexivity. Qed.
Lemma adapt_leaf_str s : adapt_leaf yl KStr (VStr s) = Some (VStr s).
Proof. reflexivity. Qed.
Lemma adapt_leaf_str_rej x : is_str x = false -> adapt_leaf yl KStr x = None.
Proof. destruct x; simpl; intros; try discriminate; reflexivity. Qed.
Lemma parse_value_cases s :
  parse_value yl (VStr s) = VStr s \/ exists x, simple_scalar x = false /\ parse_value yl (VStr s) = x.
Proof.
  unfold parse_value.
  repeat (match goal with |- context [match ?e with _ => _ end] => destruct e eqn:? end);
    try (left; reflexivity); right; eexists; (split; [|reflexivity]; assumption).
Qed.

Definition stable_at (t : cty) : Prop :=
  simple_ty t = true -> forall w, wt t w = true -> forall sn o1 f p o2,
    exists j, adapt yl (Ser sn) o1 t w = Some j /\ adapt yl (Des f p) o2 t j = Some w /\
              is_vnone j = is_vnone w /\ (is_str j = true -> t = CStr) /\ (simple_scalar w = true -> j = w).

Lemma des_sub_mode f p : exists f' p', sub_mode (Des f p) = Des f' p'.
Proof. destruct f; simpl; eauto. Qed.
Lemma des_item_mode f p t : exists f' p', item_mode (Des f p) t = Des f' p'.
Proof. destruct f; simpl; try destruct (is_cdata t); eauto. Qed.
Lemma des_union_mode f p : exists f' p', union_mode (Des f p) = Des f' p'.
Proof. destruct f; simpl; eauto. Qed.

Lemma forallb_Forall {A} (q : A -> bool) l : forallb q l = true -> Forall (fun x => q x = true) l.
Proof. intros H. apply Forall_forall. intros x Hx. rewrite forallb_forall in H. auto. Qed.

Theorem simple_rt : forall t, stable_at t.
Proof.
  induction t using cty_ind_c01; unfold stable_at; intros Hs w Hw sn o1 f p o2; try discriminate.
  - destruct w; try discriminate. exists (VStr s). simpl. repeat split; auto.
  - destruct w; try discriminate. exists (VInt z). simpl. repeat split; auto; discriminate.
  - destruct w; try discriminate. exists (VFloat f0). simpl. repeat split; auto; discriminate.
  - destruct w; try discriminate. exists (VBool b). simpl. repeat split; auto; discriminate.
  - (* Optional *)
    destruct ts as [|t1 [|t2 ts']]; try discriminate. destruct t2; try discriminate. destruct ts'; try discriminate.
    assert (Ho : opt_arg t1 = true) by (destruct t1; simpl in Hs |- *; try discriminate; reflexivity).
    assert (Hs1 : simple_ty t1 = true) by (destruct t1; simpl in Hs |- *; try discriminate; exact Hs).
    assert (Hcn : is_cnone t1 = false) by (destruct t1; try discriminate; reflexivity).
    inversion H as [|? ? IH1 _]; subst.
    change (wt (CUnion [t1; CNone]) w) with (is_vnone w || wt t1 w) in Hw.
    destruct (is_vnone w) eqn:En.
    + destruct w; try discriminate. exists VNone. rewrite !adapt_opt_eq. simpl adapt_leaf.
      rewrite (opt_union_none o1 VNone t1 _ VNone Hcn), (opt_union_none o2 VNone t1 _ VNone Hcn).
      repeat split; auto; discriminate.
    + simpl in Hw. destruct (wt_opt_arg t1 w Ho Hw) as [Hns Hnn].
      destruct (des_union_mode f p) as (f' & p' & Em).
      destruct (IH1 Hs1 w Hw sn o1 f' p' o2) as (j & Hser & Hdes & Hjn & Hjs & Hsc).
      exists j. rewrite !adapt_opt_eq. change (union_mode (Ser sn)) with (Ser sn). rewrite Em, Hser, Hdes.
      assert (Hjs' : is_str j = false).
      { destruct (is_str j) eqn:E; [|reflexivity]. specialize (Hjs eq_refl). subst t1. discriminate. }
      rewrite (leaf_none_reject w Hns Hnn), (leaf_none_reject j Hjs' (eq_trans Hjn Hnn)).
      rewrite !opt_union_some by exact Hcn.
      split; [reflexivity|]. split; [reflexivity|]. split; [congruence|].
      split; [intros E; rewrite E in Hjs'; discriminate|exact Hsc].
  - (* List *)
    destruct w; try discriminate. simpl in Hs, Hw.
    destruct (des_item_mode f p t) as (f' & p' & Em).
    destruct (map_opt_pair (adapt yl (Ser sn) o1 t) (adapt yl (Des f' p') o2 t) l) as (js & H1 & H2).
    { apply forallb_Forall in Hw. eapply Forall_impl; [|exact Hw]. intros x Hx.
      destruct (IHt Hs x Hx sn o1 f' p' o2) as (j & ? & ? & _). eauto. }
    exists (VList js). rewrite !adapt_list_eq. change (item_mode (Ser sn) t) with (Ser sn). rewrite Em. simpl seq_items; cbv beta iota.
    rewrite H1, H2. repeat split; auto; discriminate.
  - (* Dict[str, T] *)
    destruct b; try discriminate. destruct w; try discriminate. simpl in Hs, Hw.
    destruct (des_sub_mode f p) as (f' & p' & Em).
    destruct (map_opt_pair
                (fun kv : val * val => match adapt yl (Ser sn) o1 t (snd kv) with Some w => Some (fst kv, w) | None => None end)
                (fun kv : val * val => match adapt yl (Des f' p') o2 t (snd kv) with Some w => Some (fst kv, w) | None => None end) d)
      as (js & H1 & H2).
    { apply forallb_Forall in Hw. eapply Forall_impl; [|exact Hw]. intros [k x] Hx. simpl in Hx.
      apply andb_true_iff in Hx. destruct Hx as [_ Hx].
      destruct (IHt Hs x Hx sn o1 f' p' o2) as (j & E1 & E2 & _). exists (k, j). simpl. rewrite E1, E2. split; reflexivity. }
    exists (VDict js). rewrite !adapt_dict_eq. change (sub_mode (Ser sn)) with (Ser sn). rewrite Em.
    rewrite H1, H2. repeat split; auto; discriminate.
  - (* Tuple *)
    destruct w; try discriminate. rewrite wt_tuple_eq in Hw. simpl in Hs.
    destruct (des_sub_mode f p) as (f' & p' & Em).
    destruct (tuple_go_pair (adapt yl (Ser sn) o1) (adapt yl (Des f' p') o2) ts l) as (Hlen & js & H1 & H2 & H3); [|exact Hw|].
    { apply forallb_Forall in Hs. rewrite Forall_forall in *. intros t Ht x Hx.
      destruct (H t Ht (Hs t Ht) x Hx sn o1 f' p' o2) as (j & ? & ? & _). eauto. }
    exists (VList js). rewrite !adapt_tuple_eq. change (sub_mode (Ser sn)) with (Ser sn). rewrite Em. simpl seq_items; cbv beta iota.
    rewrite Hlen, H3, Nat.eqb_refl. simpl. rewrite H1, H2. repeat split; auto; discriminate.
  - (* Tuple[T, ...] *)
    destruct w; try discriminate. simpl in Hs, Hw.
    destruct (des_sub_mode f p) as (f' & p' & Em).
    destruct (map_opt_pair (adapt yl (Ser sn) o1 t) (adapt yl (Des f' p') o2 t) l) as (js & H1 & H2).
    { apply forallb_Forall in Hw. eapply Forall_impl; [|exact Hw]. intros x Hx.
      destruct (IHt Hs x Hx sn o1 f' p' o2) as (j & ? & ? & _). eauto. }
    exists (VList js). rewrite !adapt_tuplevar_eq. change (sub_mode (Ser sn)) with (Ser sn). rewrite Em. simpl seq_items; cbv beta iota.
    rewrite H1, H2. repeat split; auto; discriminate.
Qed.

(* every accepted value of a leaf of the container grammar survives its own serialise / parse pair: the premise of
   roundtrip_ok, for ANY loader oracle yl and any declared default *)
Theorem leaf_stable_simple sn lf w :
  leaf_simple (lf, w) = true -> leaf_stable sn lf w.
Proof.
  unfold leaf_simple. simpl. intros H. apply andb_true_iff in H. destruct H as [Hs Hw].
  destruct (is_vnone w) eqn:En; [left; destruct w; try discriminate; reflexivity|]. simpl in Hw. right.
  set (t := lf_ty lf) in *. set (dflt := lf_def lf).
  set (fl0 := if is_dc_direct t then FAll else FNo).
  destruct (simple_rt t Hs w Hw sn None fl0 dflt None) as (j & Hser & Hdes & Hjn & Hjs & Hsc).
  assert (Hsl : ser_leaf yl sn t dflt w = Some j).
  { unfold ser_leaf. destruct (simple_scalar w) eqn:Esc; simpl; [|exact Hser].
    destruct (py_eq w dflt); [|exact Hser]. rewrite (Hsc eq_refl). reflexivity. }
  exists j. split; [exact Hsl|]. exists w. split; [|apply veq_refl].
  unfold check_entry. assert (Hnn : is_vnone j = false) by congruence.
  destruct j as [| | | |s| | | | | |] eqn:Ej; try discriminate;
    try (unfold check_type, check_with; simpl parse_value; fold fl0; rewrite Hdes; reflexivity).
  (* a str: the type is str; whatever the loader makes of the text, the original string is what is kept *)
  assert (Et : t = CStr) by (apply Hjs; reflexivity).
  assert (Ew : w = VStr s).
  { rewrite Et in Hw. destruct w; try discriminate. symmetry. apply Hsc. reflexivity. }
  subst w. rewrite Et. unfold check_type, check_with. rewrite !adapt_cstr.
  destruct (parse_value_cases s) as [E|(x & Ex & E)]; rewrite E.
  - rewrite adapt_leaf_str. reflexivity.
  - rewrite (adapt_leaf_str_rej x) by (destruct x; try discriminate; reflexivity).
    rewrite adapt_leaf_str. destruct (py_eq (VStr s) dflt); reflexivity.
Qed.

(* (P') the round trip for parsers of the container grammar: no stability premise left *)
Theorem roundtrip_simple_ok vr lvs :
  case_class yl vr lvs = 0%N ->
  forallb leaf_simple lvs = true ->
  exists ws, roundtrip yl plain_ok yrepr jrepr dtab ltab vr lvs = Some ws /\
             Forall2 (fun w' w => veq w' w = true) ws (map snd lvs).
Proof.
  intros Hc Hs. apply roundtrip_ok; [exact Hc|].
  apply Forall_forall. intros [lf w] Hin. simpl. apply leaf_stable_simple.
  rewrite forallb_forall in Hs. exact (Hs _ Hin).
Qed.

(* the same for a dump taken by a parser with subcommands (class 13 = the crash of skip_default over a required subcommand) *)
Lemma leaf_var_skip_none sub vr lf : vr_skip_none (leaf_var sub vr lf) = vr_skip_none vr.
Proof. unfold leaf_var. destruct sub; [destruct (is_prefix s (lf_key lf))|]; reflexivity. Qed.

Lemma roundtrip_sub_ok sub vr : forall lvs,
  case_class_sub yl sub vr lvs = 0%N ->
  Forall (fun lw => leaf_stable (vr_skip_none vr) (fst lw) (snd lw)) lvs ->
  exists ws, map_opt (fun lw => leaf_rt yl plain_ok yrepr jrepr dtab ltab (leaf_var sub vr (fst lw)) (fst lw) (snd lw)) lvs = Some ws /\
             Forall2 (fun w' w => veq w' w = true) ws (map snd lvs).
Proof.
  induction lvs as [|[lf w] lvs IH]; intros Hc Hst.
  - exists []. split; [reflexivity|constructor].
  - assert (Hc' : (if N.eqb (leaf_class yl (leaf_var sub vr lf) (lf, w)) 0 then case_class_sub yl sub vr lvs
                   else if N.eqb (leaf_class yl (leaf_var sub vr lf) (lf, w)) 11
                        then (if N.eqb (case_class_sub yl sub vr lvs) 0 then leaf_class yl (leaf_var sub vr lf) (lf, w)
                              else case_class_sub yl sub vr lvs)
                        else leaf_class yl (leaf_var sub vr lf) (lf, w)) = 0%N) by exact Hc.
    clear Hc. rename Hc' into Hc. destruct (N.eqb (leaf_class yl (leaf_var sub vr lf) (lf, w)) 0) eqn:E0.
    + apply N.eqb_eq in E0. inversion Hst; subst. simpl in H1.
      rewrite <- (leaf_var_skip_none sub vr lf) in H1.
      destruct (leaf_rt_ok (leaf_var sub vr lf) lf w E0 H1) as (w' & Hrt & Hv).
      destruct (IH Hc H2) as (ws & Hws & Hall).
      exists (w' :: ws). split.
      * simpl. rewrite Hrt, Hws. reflexivity.
      * constructor; assumption.
    + apply N.eqb_neq in E0. destruct (N.eqb (leaf_class yl (leaf_var sub vr lf) (lf, w)) 11); [|congruence].
      destruct (N.eqb (case_class_sub yl sub vr lvs) 0) eqn:E1; [congruence|]. apply N.eqb_neq in E1. congruence.
Qed.

Theorem roundtrip_top_ok req_sub sub vr lvs :
  top_class yl req_sub sub vr lvs = 0%N ->
  Forall (fun lw => leaf_stable (vr_skip_none vr) (fst lw) (snd lw)) lvs ->
  exists ws, roundtrip_top yl plain_ok yrepr jrepr dtab ltab req_sub sub vr lvs = Some ws /\
             Forall2 (fun w' w => veq w' w = true) ws (map snd lvs).
Proof.
  unfold top_class, roundtrip_top. destruct (dump_crashes req_sub vr); [discriminate|].
  destruct (sub_emptied yl sub vr lvs); [discriminate|]. apply roundtrip_sub_ok.
Qed.

End Text.

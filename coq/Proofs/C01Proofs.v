(* C01 — proofs.
   1. tag_re_sound: the regular expression `tag_re t tg` under-approximates "table t resolves s to tag tg"
      (first-character dispatch + first matching regexp), so inclusions decided by the verified checker of
      Lib/Regex.v transfer to `resolve`.
   2. reload_id: writing a serialised value as YAML / JSON text and loading it back is the identity, scalar by scalar,
      from C01_str_plain_agree (strings) and the number-text inclusions.
   3. roundtrip_ok: leaf by leaf, dump -> text -> parse gives back the accepted configuration inside the guard. *)
From JV Require Import Lib.Base Lib.Regex Model.TyVal Model.Scalar Proofs.ScalarProofs Model.C01Conf Model.C01Guard.

(* ---- 1. tag_re ------------------------------------------------------------------------------------------------- *)
Lemma matches_emp s : matches Emp s = false.
Proof.
  destruct (matches Emp s) eqn:E; [|reflexivity]. apply matches_lang in E. destruct E.
Qed.

Lemma tag_eqb_eq a b : tag_eqb a b = true -> a = b.
Proof. destruct a, b; simpl; intros H; try discriminate; reflexivity. Qed.

Lemma ftr_false tg : forall es before s,
  matches before s = true -> matches (first_tag_re tg es before) s = false.
Proof.
  induction es as [|[t r] es IH]; intros before s Hb; simpl.
  - apply matches_emp.
  - assert (Hrest : matches (first_tag_re tg es (Alt before r)) s = false).
    { apply IH. rewrite matches_alt, Hb. reflexivity. }
    destruct (tag_eqb t tg); [|exact Hrest].
    rewrite matches_alt, matches_and, matches_not, Hb, Hrest. simpl. rewrite andb_false_r. reflexivity.
Qed.

Lemma ftr_sound tg : forall es before s,
  matches before s = false -> matches (first_tag_re tg es before) s = true -> first_match es s = tg.
Proof.
  induction es as [|[t r] es IH]; intros before s Hb Hm; simpl in *.
  - rewrite matches_emp in Hm. discriminate.
  - destruct (matches r s) eqn:Er.
    + assert (Hrest : matches (first_tag_re tg es (Alt before r)) s = false).
      { apply ftr_false. rewrite matches_alt, Er. apply orb_true_r. }
      destruct (tag_eqb t tg) eqn:Et.
      * apply tag_eqb_eq. exact Et.
      * rewrite Hrest in Hm. discriminate.
    + apply (IH (Alt before r)).
      * rewrite matches_alt, Hb, Er. reflexivity.
      * destruct (tag_eqb t tg); [|exact Hm].
        rewrite matches_alt, matches_and, Er in Hm. simpl in Hm. exact Hm.
Qed.

Theorem tag_re_sound t tg s :
  wf_table t = true -> matches (tag_re t tg) s = true -> resolve t s = tg.
Proof.
  unfold wf_table. intros H Hm. repeat (apply andb_true_iff in H; destruct H as [H ?]).
  destruct (wildcard t) eqn:Ew; [|discriminate].
  rename H0 into Hempty, H1 into Hall, H2 into Hnd.
  apply matches_lang in Hm. unfold tag_re in Hm. apply alt_list_lang in Hm. destruct Hm as (r & Hr & Hl).
  unfold resolve, candidates. rewrite Ew, app_nil_r.
  apply in_app_or in Hr. destruct Hr as [Hr|[<-|[]]].
  - apply in_map_iff in Hr. destruct Hr as ([c es] & <- & Hin). simpl in Hl. destruct Hl as [Hf Ht].
    apply first_is_lang in Hf. destruct Hf as (s' & ->).
    rewrite (lookup_char_In _ _ _ Hnd Hin).
    apply (ftr_sound tg es Emp); [apply matches_emp|]. apply matches_lang. exact Ht.
  - simpl in Hl. destruct Hl as [-> Ht].
    apply (ftr_sound tg (on_empty t) Emp); [apply matches_emp|]. apply matches_lang. exact Ht.
Qed.

(* inclusion in tag_re, decided by the checker, gives the tag of every string of the language *)
Theorem lang_resolves t tg fuel r :
  wf_table t = true -> incl_re fuel r (tag_re t tg) = true ->
  forall s, matches r s = true -> resolve t s = tg.
Proof.
  intros Hwf Hincl s Hs. apply (tag_re_sound _ _ _ Hwf). exact (incl_sound _ _ _ Hincl s Hs).
Qed.

(* ---- induction on values ------------------------------------------------------------------------------------- *)
Section ValInd.
  Variable P : val -> Prop.
  Hypothesis HNone : P VNone.
  Hypothesis HBool : forall b, P (VBool b).
  Hypothesis HInt : forall z, P (VInt z).
  Hypothesis HFloat : forall f, P (VFloat f).
  Hypothesis HStr : forall s, P (VStr s).
  Hypothesis HList : forall l, Forall P l -> P (VList l).
  Hypothesis HTuple : forall l, Forall P l -> P (VTuple l).
  Hypothesis HSet : forall l, Forall P l -> P (VSet l).
  Hypothesis HDict : forall d, Forall (fun kv => P (fst kv) /\ P (snd kv)) d -> P (VDict d).
  Hypothesis HEnum : forall c m, P (VEnum c m).
  Hypothesis HOpaque : forall k r, P (VOpaque k r).

  Fixpoint val_ind_c01 (v : val) : P v :=
    match v with
    | VNone => HNone
    | VBool b => HBool b
    | VInt z => HInt z
    | VFloat f => HFloat f
    | VStr s => HStr s
    | VList l => HList l ((fix go (l : list val) : Forall P l :=
                             match l with [] => Forall_nil _ | x :: r => Forall_cons x (val_ind_c01 x) (go r) end) l)
    | VTuple l => HTuple l ((fix go (l : list val) : Forall P l :=
                               match l with [] => Forall_nil _ | x :: r => Forall_cons x (val_ind_c01 x) (go r) end) l)
    | VSet l => HSet l ((fix go (l : list val) : Forall P l :=
                           match l with [] => Forall_nil _ | x :: r => Forall_cons x (val_ind_c01 x) (go r) end) l)
    | VDict d => HDict d ((fix go (d : list (val * val)) : Forall (fun kv => P (fst kv) /\ P (snd kv)) d :=
                             match d with
                             | [] => Forall_nil _
                             | kv :: r => Forall_cons kv (conj (val_ind_c01 (fst kv)) (val_ind_c01 (snd kv))) (go r)
                             end) d)
    | VEnum c m => HEnum c m
    | VOpaque k r => HOpaque k r
    end.
End ValInd.

(* ---- 2. the text layer ------------------------------------------------------------------------------------------ *)
Section Text.
Variable plain_ok : str -> bool.
Variable yrepr jrepr : fl -> str.
Variable dtab ltab : rtable.

(* facts about the two tables (established for the regenerated tables in Properties/C01.v) *)
Hypothesis str_agree : forall s, resolve dtab s = TgStr -> resolve ltab s = TgStr.
Hypothesis int_tag : forall s, matches int_out s = true -> resolve ltab s = TgInt.
Hypothesis yfloat_tag : forall s, matches yaml_float_out s = true -> resolve ltab s = TgFloat.
Hypothesis jfloat_tag : forall s, matches repr_float_fin s = true -> resolve ltab s = TgFloat.
Hypothesis bool_tag : forall b, resolve ltab (bool_text b) = TgBool.
Hypothesis null_tag : resolve ltab null_text = TgNull.
(* Python's number <-> text conversions *)
Hypothesis int_text : forall z, matches int_out (repr_int z) = true /\ construct_int (repr_int z) = COk (VInt z).
Hypothesis yfloat_text : forall x, matches yaml_float_out (yrepr x) = true /\ construct_float (yrepr x) = COk (VFloat x).
Hypothesis jfloat_text : forall x, nonfinite x = false ->
  matches repr_float_fin (jrepr x) = true /\ construct_float (jrepr x) = COk (VFloat x).

Lemma reload_str_id s : reload_str plain_ok dtab ltab s = VStr s.
Proof.
  unfold reload_str. destruct (tag_eqb (resolve dtab s) TgStr) eqn:E; [|reflexivity].
  destruct (plain_ok s); [|reflexivity]. simpl.
  apply tag_eqb_eq in E. unfold yaml_scalar. rewrite (str_agree _ E). reflexivity.
Qed.

Lemma reload_tagged_same tg text v :
  resolve ltab text = tg -> construct tg text = COk v -> reload_tagged dtab ltab tg text = v.
Proof.
  intros Hr Hc. unfold reload_tagged, yaml_scalar. rewrite Hr, Hc. destruct (tag_eqb (resolve dtab text) tg); reflexivity.
Qed.

Lemma construct_bool_text b : construct TgBool (bool_text b) = COk (VBool b).
Proof. destruct b; reflexivity. Qed.

Lemma val_any_list p l : val_any p (VList l) = false -> Forall (fun x => val_any p x = false) l.
Proof.
  simpl. intros H. apply orb_false_iff in H. destruct H as [_ H].
  induction l as [|x l IH]; constructor; simpl in H; apply orb_false_iff in H; destruct H; auto.
Qed.

Lemma val_any_dict p d :
  val_any p (VDict d) = false -> Forall (fun kv => val_any p (fst kv) = false /\ val_any p (snd kv) = false) d.
Proof.
  simpl. intros H. apply orb_false_iff in H. destruct H as [_ H].
  induction d as [|kv d IH]; constructor; simpl in H; apply orb_false_iff in H; destruct H as [H1 H2].
  - apply orb_false_iff in H1. exact H1.
  - auto.
Qed.

Theorem reload_id : forall f v,
  (f = FJson -> has_nonfinite v = false) ->
  reload plain_ok yrepr jrepr dtab ltab f v = v.
Proof.
  intros f v. induction v using val_ind_c01; intros Hnf; try reflexivity.
  - (* None *)
    destruct f; simpl.
    + apply reload_tagged_same; [exact null_tag|reflexivity].
    + unfold yaml_scalar. rewrite null_tag. reflexivity.
  - (* bool *)
    destruct f; simpl.
    + apply reload_tagged_same; [apply bool_tag|apply construct_bool_text].
    + unfold yaml_scalar. rewrite bool_tag, construct_bool_text. reflexivity.
  - (* int *)
    destruct (int_text z) as [Hm Hc]. pose proof (int_tag _ Hm) as Ht.
    destruct f; simpl.
    + apply reload_tagged_same; [exact Ht|exact Hc].
    + unfold yaml_scalar. rewrite Ht. simpl. rewrite Hc. reflexivity.
  - (* float *)
    destruct f; simpl.
    + destruct (yfloat_text f0) as [Hm Hc]. apply reload_tagged_same; [apply yfloat_tag; exact Hm|exact Hc].
    + assert (Hfin : nonfinite f0 = false).
      { specialize (Hnf eq_refl). unfold has_nonfinite in Hnf. simpl in Hnf. rewrite orb_false_r in Hnf. exact Hnf. }
      destruct (jfloat_text f0 Hfin) as [Hm Hc]. unfold yaml_scalar. rewrite (jfloat_tag _ Hm). simpl. rewrite Hc. reflexivity.
  - (* str *)
    destruct f; simpl; [apply reload_str_id|reflexivity].
  - (* list *)
    simpl. f_equal.
    assert (Hl : Forall (fun x => f = FJson -> has_nonfinite x = false) l).
    { destruct f.
      - apply Forall_forall. intros x _ E. discriminate.
      - specialize (Hnf eq_refl). apply val_any_list in Hnf. eapply Forall_impl; [|exact Hnf]. intros a Ha _. exact Ha. }
    clear Hnf. induction l as [|x l IH]; [reflexivity|].
    inversion H; subst. inversion Hl; subst. simpl. f_equal; auto.
  - (* dict *)
    simpl. f_equal.
    assert (Hl : Forall (fun kv => (f = FJson -> has_nonfinite (fst kv) = false) /\ (f = FJson -> has_nonfinite (snd kv) = false)) d).
    { destruct f.
      - apply Forall_forall. intros x _. split; intros E; discriminate.
      - specialize (Hnf eq_refl). apply val_any_dict in Hnf. eapply Forall_impl; [|exact Hnf].
        intros a [Ha Hb]. split; intros _; assumption. }
    clear Hnf. induction d as [|[k x] d IH]; [reflexivity|].
    inversion H; subst. inversion Hl; subst. simpl in *. destruct H2 as [Hk Hx]. destruct H4 as [Gk Gx].
    rewrite (Hk Gk), (Hx Gx). f_equal. auto.
Qed.

(* ---- 3. one leaf, then the configuration ---------------------------------------------------------------------- *)
Variable yl : str -> option val.

(* the accepted value of a leaf survives its own serialise / parse pair (proved for the container grammar in
   leaf_stable_simple below; evaluated per case by the judge for the rest) *)
Definition leaf_stable (sn : bool) (lf : leaf) (w : val) : Prop :=
  w = VNone \/
  exists j, ser_leaf yl sn (lf_ty lf) (lf_def lf) w = Some j /\
            exists w', check_entry yl (lf_ty lf) (lf_def lf) j = Some w' /\ veq w' w = true.

Lemma dump_entry_class0 vr lf w j :
  skipdef_class yl vr lf w = 0%N ->
  cleanup yl true (vr_skip_none vr) (lf_ty lf) (lf_def lf) w = EPresent j ->
  dump_entry yl vr lf w = EPresent j \/ (dump_entry yl vr lf w = EAbsent /\ veq (lf_def lf) w = true).
Proof.
  unfold skipdef_class, dump_entry. intros Hc Hcl. rewrite Hcl in *.
  destruct (vr_skip_default vr); [|left; reflexivity].
  destruct (cleanup yl false (vr_skip_none vr) (lf_ty lf) (lf_def lf) (lf_def lf)) as [| |dj]; try (left; reflexivity).
  destruct (trim (lf_ty lf) j dj) as [| |j'].
  - discriminate.
  - destruct (veq (lf_def lf) w); [right; split; reflexivity|]. destruct (spec_class j); discriminate.
  - destruct (val_eqb j' j); [left; reflexivity|].
    destruct (negb _ && carry_conflict _ _ _); discriminate.
Qed.

Lemma cleanup_nonnone sn t dflt w j :
  w <> VNone -> ser_leaf yl sn t dflt w = Some j -> cleanup yl true sn t dflt w = EPresent j.
Proof. intros Hn Hs. destruct w; try congruence; unfold cleanup; rewrite Hs; reflexivity. Qed.

Lemma leaf_rt_ok vr lf w :
  leaf_class yl vr (lf, w) = 0%N -> leaf_stable (vr_skip_none vr) lf w ->
  exists w', leaf_rt yl plain_ok yrepr jrepr dtab ltab vr lf w = Some w' /\ veq w' w = true.
Proof.
  unfold leaf_class. intros Hc Hst.
  destruct (vr_comments vr) eqn:Ecm; [discriminate|].
  destruct (has_null_enum w) eqn:Een; [discriminate|].
  destruct (vr_skip_none vr && (is_vnone w && negb (is_vnone (lf_def lf)) || none_loss (top_fill (lf_ty lf)) (lf_ty lf) w
                              || sub_none_loss (lf_def lf) w)) eqn:E1; [discriminate|].
  destruct (negb (leaf_stable_b yl (vr_skip_none vr) lf (lf_def lf)) && (veq w (lf_def lf) || vr_skip_default vr)) eqn:E8;
    [discriminate|].
  destruct (N.eqb (skipdef_class yl vr lf w) 0) eqn:Esd; simpl in Hc;
    [apply N.eqb_eq in Esd
    |apply N.eqb_neq in Esd;
     destruct (N.eqb (skipdef_class yl vr lf w) 11 && negb (N.eqb (text_class yl vr lf w) 0)) eqn:E11;
     [apply andb_true_iff in E11; destruct E11 as [_ E11]; apply negb_true_iff in E11; apply N.eqb_neq in E11; congruence
     |congruence]].
  assert (Hpresent : forall j, dump_entry yl vr lf w = EPresent j ->
            (vr_fmt vr = FJson -> has_nonfinite j = false)).
  { intros j Hj Ef. unfold text_class in Hc. rewrite Hj, Ef in Hc.
    destruct (has_bad_str FJson j); [discriminate|]. destruct (has_nonfinite j); [discriminate|reflexivity]. }
  unfold leaf_rt.
  assert (Hnone : w = VNone ->
            exists w', match dump_entry yl vr lf w with
                       | EErr => None
                       | EAbsent => Some (lf_def lf)
                       | EPresent j => check_entry yl (lf_ty lf) (lf_def lf)
                                         (reload plain_ok yrepr jrepr dtab ltab (vr_fmt vr) j)
                       end = Some w' /\ veq w' w = true).
  { intros ->. destruct (vr_skip_none vr) eqn:Esn.
    - simpl in E1. apply orb_false_iff in E1. destruct E1 as [E1 _]. apply orb_false_iff in E1. destruct E1 as [E1 _].
      apply negb_false_iff in E1.
      unfold dump_entry. simpl. rewrite Esn. destruct (lf_def lf); try discriminate. exists VNone. auto.
    - destruct (dump_entry_class0 vr lf VNone VNone Esd) as [He|[He Hv]].
      + simpl. rewrite Esn. reflexivity.
      + rewrite He. rewrite reload_id; [|intros _; reflexivity]. exists VNone. auto.
      + rewrite He. exists (lf_def lf). auto. }
  destruct Hst as [->|(j & Hser & w' & Hchk & Hveq)]; [apply Hnone; reflexivity|].
  destruct w as [| | | | | | | | | |] eqn:Ew; [apply Hnone; reflexivity| | | | | | | | | |];
    (destruct (dump_entry_class0 vr lf _ j Esd) as [He|[He Hv]];
     [apply cleanup_nonnone; [discriminate|exact Hser]
     |rewrite He; rewrite reload_id; [exists w'; auto|apply Hpresent; exact He]
     |rewrite He; eexists; split; [reflexivity|exact Hv]]).
Qed.

Theorem roundtrip_ok vr : forall lvs,
  case_class yl vr lvs = 0%N ->
  Forall (fun lw => leaf_stable (vr_skip_none vr) (fst lw) (snd lw)) lvs ->
  exists ws, roundtrip yl plain_ok yrepr jrepr dtab ltab vr lvs = Some ws /\
             Forall2 (fun w' w => veq w' w = true) ws (map snd lvs).
Proof.
  induction lvs as [|[lf w] lvs IH]; intros Hc Hst.
  - exists []. split; [reflexivity|constructor].
  - assert (Hc' : (if N.eqb (leaf_class yl vr (lf, w)) 0 then case_class yl vr lvs
                   else if N.eqb (leaf_class yl vr (lf, w)) 11
                        then (if N.eqb (case_class yl vr lvs) 0 then leaf_class yl vr (lf, w) else case_class yl vr lvs)
                        else leaf_class yl vr (lf, w)) = 0%N) by exact Hc.
    clear Hc. rename Hc' into Hc. destruct (N.eqb (leaf_class yl vr (lf, w)) 0) eqn:E0.
    + apply N.eqb_eq in E0. inversion Hst; subst. simpl in H1.
      destruct (leaf_rt_ok vr lf w E0 H1) as (w' & Hrt & Hv).
      destruct (IH Hc H2) as (ws & Hws & Hall).
      exists (w' :: ws). split.
      * unfold roundtrip in *. simpl. rewrite Hrt, Hws. reflexivity.
      * constructor; assumption.
    + apply N.eqb_neq in E0. destruct (N.eqb (leaf_class yl vr (lf, w)) 11); [|congruence].
      destruct (N.eqb (case_class yl vr lvs) 0) eqn:E1; [congruence|]. apply N.eqb_neq in E1. congruence.
Qed.

End Text.

(* C07 — declaration-time default overrides: the signature styles add every parameter with its signature default
   and then run parser.set_defaults over the default= mapping (find the action by dest, set its default, next
   entry).  For EVERY flat member list with pairwise different identifier names, a key without '-', overrides only
   on parameters that have a default, and either kind of mapping (complete / only the overridden members):
   the resulting table is the group's load row in front of the dotted table declared with the overriding defaults
   inline — i.e. no override is lost, none lands on another parameter. *)
From JV Require Import Lib.Base Model.C07Decl Model.C07Parse Proofs.C07TableProofs.

(* the row add_argument("--gk.name", type, default | required) creates *)
Definition mk (gk : str) (f : field) : row := fst (add_typed_argument (dotted_key gk f) (f_ty f) (f_default f)).
Definition key (gk : str) (f : field) : str := gk ++ [c_dot] ++ f_name f.

Lemma dotted_rows_mk gk fs : t_rows (as_dotted gk fs) = map (mk gk) fs.
Proof. unfold as_dotted, table_of. simpl. rewrite map_map. reflexivity. Qed.

Lemma has_dash_app a b : has_dash (a ++ b) = has_dash a || has_dash b.
Proof. unfold has_dash. apply existsb_app. Qed.

Lemma mk_dest gk f : has_dash gk = false -> has_dash (f_name f) = false -> r_dest (mk gk f) = key gk f.
Proof.
  intros Hg Hn. unfold mk, key, dotted_key. simpl. apply replace_dash_nodash.
  rewrite has_dash_app, Hg. simpl. unfold has_dash in *. simpl. exact Hn.
Qed.

Lemma mk_kind gk f : r_kind (mk gk f) = KLeaf.
Proof. reflexivity. Qed.

(* ---- set_row_default ---- *)
Lemma set_row_default_skip d v done l :
  (forall r, In r done -> is_leaf_at d r = false) ->
  set_row_default d v (done ++ l) = done ++ set_row_default d v l.
Proof.
  induction done as [|r done IH]; simpl; intro H; [reflexivity|].
  rewrite (H r (or_introl eq_refl)), IH; [reflexivity|]. intros x Hx. apply H. right. exact Hx.
Qed.

Lemma existsb_leaf_here d done r l : is_leaf_at d r = true -> existsb (is_leaf_at d) (done ++ r :: l) = true.
Proof. intro H. rewrite existsb_app. simpl. rewrite H. apply orb_true_r. Qed.

Lemma set_row_default_here d v done r l :
  (forall x, In x done -> is_leaf_at d x = false) -> is_leaf_at d r = true ->
  set_row_default d v (done ++ r :: l) = done ++ with_default r v :: l.
Proof. intros Hd Hr. rewrite set_row_default_skip by exact Hd. simpl. rewrite Hr. reflexivity. Qed.

(* ---- one parameter ---- *)
Definition ov_ok (o : ofield) : bool :=
  match o_over o, f_default (o_field o) with Some _, NoDefault => false | _, _ => true end.

Lemma with_default_eff gk o v : o_over o = Some v -> with_default (mk gk (o_field o)) v = mk gk (eff o).
Proof. intro H. unfold eff. rewrite H. unfold mk, with_default, add_typed_argument, dotted_key. simpl. reflexivity. Qed.

Lemma with_default_same gk f v : f_default f = Dflt v -> with_default (mk gk f) v = mk gk f.
Proof. intro H. unfold mk, with_default, add_typed_argument. simpl. rewrite H. reflexivity. Qed.

Lemma eff_none o : o_over o = None -> eff o = o_field o.
Proof. intro H. unfold eff. rewrite H. reflexivity. Qed.

Lemma is_leaf_at_mk gk f : has_dash gk = false -> has_dash (f_name f) = false -> is_leaf_at (key gk f) (mk gk f) = true.
Proof. intros Hg Hn. unfold is_leaf_at. rewrite (mk_dest gk f Hg Hn), str_eqb_refl. reflexivity. Qed.

Lemma key_inj gk f f' : key gk f = key gk f' -> f_name f = f_name f'.
Proof. unfold key. intro H. apply app_inv_head in H. apply app_inv_head in H. exact H. Qed.

(* ---- the zipper: entries and rows are processed in the same order ---- *)
Section Flat.
Variable full : bool.
Variable gk : str.
Hypothesis Hg : has_dash gk = false.

Definition oname (o : ofield) : str := f_name (o_field o).

Lemma set_defaults_flat nl :
  forall done,
    forallb (fun o => negb (has_dash (oname o))) nl = true ->
    nodupb (map oname nl) = true ->
    forallb ov_ok nl = true ->
    (forall o r, In o nl -> In r done -> is_leaf_at (key gk (o_field o)) r = false) ->
    set_defaults (done ++ map (fun o => mk gk (o_field o)) nl) (with_prefix gk (flat_map (oentry full) nl))
    = Some (done ++ map (fun o => mk gk (eff o)) nl).
Proof.
  induction nl as [|o nl IH]; intros done Hn Hd Hov Hfresh.
  - simpl. reflexivity.
  - simpl in Hn, Hd, Hov. apply andb_true_iff in Hn. destruct Hn as [Hn0 Hn].
    apply andb_true_iff in Hd. destruct Hd as [Hd0 Hd]. apply andb_true_iff in Hov. destruct Hov as [Hov0 Hov].
    apply negb_true_iff in Hn0. apply negb_true_iff in Hd0.
    assert (Hhere : is_leaf_at (key gk (o_field o)) (mk gk (o_field o)) = true) by (apply is_leaf_at_mk; assumption).
    assert (Hdone : forall x, In x done -> is_leaf_at (key gk (o_field o)) x = false)
      by (intros x Hx; apply (Hfresh o x); [left; reflexivity | exact Hx]).
    (* freshness for the rest once this parameter's row is done *)
    assert (Hnext : forall row', r_dest row' = key gk (o_field o) ->
                    forall o' r, In o' nl -> In r (done ++ [row']) -> is_leaf_at (key gk (o_field o')) r = false).
    { intros row' Hrow o' r Ho' Hr. apply in_app_or in Hr. destruct Hr as [Hr|[<-|[]]].
      - apply (Hfresh o' r); [right; exact Ho' | exact Hr].
      - unfold is_leaf_at. rewrite Hrow.
        destruct (str_eqb (key gk (o_field o)) (key gk (o_field o'))) eqn:E; [|reflexivity].
        apply str_eqb_spec in E. apply key_inj in E.
        assert (Hin : mem_str (oname o) (map oname nl) = true).
        { apply mem_str_In. unfold oname at 1. rewrite E. apply in_map_iff. exists o'. split; [reflexivity | exact Ho']. }
        rewrite Hin in Hd0. discriminate. }
    simpl map. simpl flat_map. unfold with_prefix. rewrite map_app. fold (with_prefix gk (flat_map (oentry full) nl)).
    unfold oentry at 1. unfold ov_ok in Hov0.
    destruct (o_over o) as [v|] eqn:Eo.
    + (* overridden *)
      simpl. rewrite (existsb_leaf_here _ done _ _ Hhere).
      rewrite (set_row_default_here _ v done _ _ Hdone Hhere), (with_default_eff gk o v Eo).
      change (done ++ mk gk (eff o) :: map (fun o0 => mk gk (o_field o0)) nl)
        with (done ++ [mk gk (eff o)] ++ map (fun o0 => mk gk (o_field o0)) nl).
      assert (Hx : forall o' r, In o' nl -> In r (done ++ [mk gk (eff o)]) -> is_leaf_at (key gk (o_field o')) r = false).
      { apply Hnext. unfold eff. rewrite Eo. rewrite (mk_dest gk _ Hg); [reflexivity | exact Hn0]. }
      rewrite app_assoc. refine (eq_trans (IH (done ++ [mk gk (eff o)]) Hn Hd Hov Hx) _).
      rewrite <- app_assoc. reflexivity.
    + rewrite (eff_none o Eo).
      destruct full; [destruct (dflt_val (o_field o)) as [v|] eqn:Ed|].
      * (* complete mapping: the signature default is written again *)
        simpl. rewrite (existsb_leaf_here _ done _ _ Hhere).
        rewrite (set_row_default_here _ v done _ _ Hdone Hhere).
        assert (Ef : f_default (o_field o) = Dflt v) by (unfold dflt_val in Ed; destruct (f_default (o_field o)); congruence).
        rewrite (with_default_same gk _ v Ef).
        change (done ++ mk gk (o_field o) :: map (fun o0 => mk gk (o_field o0)) nl)
          with (done ++ [mk gk (o_field o)] ++ map (fun o0 => mk gk (o_field o0)) nl).
        assert (Hx : forall o' r, In o' nl -> In r (done ++ [mk gk (o_field o)]) -> is_leaf_at (key gk (o_field o')) r = false)
          by (apply Hnext; apply (mk_dest gk _ Hg); exact Hn0).
        rewrite app_assoc. refine (eq_trans (IH (done ++ [mk gk (o_field o)]) Hn Hd Hov Hx) _).
        rewrite <- app_assoc. reflexivity.
      * simpl.
        change (done ++ mk gk (o_field o) :: map (fun o0 => mk gk (o_field o0)) nl)
          with (done ++ [mk gk (o_field o)] ++ map (fun o0 => mk gk (o_field o0)) nl).
        assert (Hx : forall o' r, In o' nl -> In r (done ++ [mk gk (o_field o)]) -> is_leaf_at (key gk (o_field o')) r = false)
          by (apply Hnext; apply (mk_dest gk _ Hg); exact Hn0).
        rewrite app_assoc. refine (eq_trans (IH (done ++ [mk gk (o_field o)]) Hn Hd Hov Hx) _).
        rewrite <- app_assoc. reflexivity.
      * simpl.
        change (done ++ mk gk (o_field o) :: map (fun o0 => mk gk (o_field o0)) nl)
          with (done ++ [mk gk (o_field o)] ++ map (fun o0 => mk gk (o_field o0)) nl).
        assert (Hx : forall o' r, In o' nl -> In r (done ++ [mk gk (o_field o)]) -> is_leaf_at (key gk (o_field o')) r = false)
          by (apply Hnext; apply (mk_dest gk _ Hg); exact Hn0).
        rewrite app_assoc. refine (eq_trans (IH (done ++ [mk gk (o_field o)]) Hn Hd Hov Hx) _).
        rewrite <- app_assoc. reflexivity.
Qed.

End Flat.

(* ---- flat member lists ---- *)
Lemma onorm_app a b : onorm (a ++ b) = onorm a ++ onorm b.
Proof. unfold onorm. apply flat_map_app. Qed.

Lemma mnorm_leaves os : mnorm (map MLeaf os) = map MLeaf (onorm os).
Proof.
  induction os as [|o os IH]; [reflexivity|].
  change (map MLeaf (o :: os)) with (MLeaf o :: map MLeaf os).
  unfold mnorm. cbn [flat_map]. fold (mnorm (map MLeaf os)). rewrite IH.
  change (o :: os) with ([o] ++ os). rewrite onorm_app, map_app. reflexivity.
Qed.

Lemma onorm_fields os : map o_field (onorm os) = norm (map o_field os).
Proof.
  unfold onorm, norm. induction os as [|o os IH]; simpl; [reflexivity|].
  rewrite map_app, IH, map_map. simpl. rewrite map_id. reflexivity.
Qed.

Lemma onorm_over o' os : In o' (onorm os) -> exists o, In o os /\ o_over o' = o_over o.
Proof.
  unfold onorm. intro H. apply in_flat_map in H. destruct H as [o [Ho H]].
  apply in_map_iff in H. destruct H as [f [<- _]]. exists o. split; [exact Ho | reflexivity].
Qed.

Lemma flat_leaves nl : flat (map MLeaf nl) = map eff nl.
Proof. unfold flat. induction nl as [|o nl IH]; simpl; [reflexivity|]. rewrite IH. reflexivity. Qed.

Lemma member_default_entries_leaves gk nl : member_default_entries gk (map MLeaf nl) = [].
Proof. unfold member_default_entries. induction nl; simpl; auto. Qed.

Lemma body_leaves gk os : flat_map (member_rows gk) (map MLeaf os) = flat_map (sig_param gk) (map o_field os).
Proof. induction os as [|o os IH]; simpl; [reflexivity|]. rewrite IH. reflexivity. Qed.

Lemma entries_leaves full gk nl : entries full gk (map MLeaf nl) = with_prefix gk (flat_map (oentry full) nl).
Proof.
  unfold entries. f_equal. induction nl as [|o nl IH]; simpl; [reflexivity|]. rewrite IH. reflexivity.
Qed.

Lemma ms_has_over_leaves os : ms_has_over (map MLeaf os) = existsb (fun o => isSome (o_over o)) os.
Proof. unfold ms_has_over. induction os as [|o os IH]; simpl; [reflexivity|]. rewrite IH. reflexivity. Qed.

Lemma ofields_leaves nl : ofields_of (map MLeaf nl) = nl.
Proof. unfold ofields_of. induction nl as [|o nl IH]; simpl; [reflexivity|]. rewrite IH. reflexivity. Qed.

Lemma member_names_leaves nl : member_names (map MLeaf nl) = map oname nl.
Proof. unfold member_names. rewrite map_map. reflexivity. Qed.

Lemma no_over_In os o : existsb (fun o => isSome (o_over o)) os = false -> In o os -> o_over o = None.
Proof.
  induction os as [|a os IH]; simpl; [intros _ []|].
  intro H. apply orb_false_iff in H. destruct H as [Ha Hos]. intros [<-|Hin].
  - destruct (o_over a); [discriminate | reflexivity].
  - apply IH; assumption.
Qed.

Lemma no_over_eff os :
  existsb (fun o => isSome (o_over o)) os = false -> forall o', In o' (onorm os) -> eff o' = o_field o'.
Proof.
  intros H o' Ho'. destruct (onorm_over o' os Ho') as [o [Ho E]].
  apply eff_none. rewrite E. eapply no_over_In; eauto.
Qed.

(* ---- required keys: an override never changes whether a parameter is required ---- *)
Lemma required_eff gk nl :
  forallb ov_ok nl = true ->
  t_required (as_dotted gk (map eff nl)) = t_required (as_dotted gk (map o_field nl)).
Proof.
  unfold as_dotted, table_of. simpl. intro H.
  induction nl as [|o nl IH]; [reflexivity|].
  simpl in H. apply andb_true_iff in H. destruct H as [Ho Hnl]. specialize (IH Hnl).
  simpl. unfold ov_ok in Ho. unfold eff at 1 2. destruct (o_over o) as [v|]; simpl.
  - destruct (f_default (o_field o)); [discriminate|]. simpl. exact IH.
  - destruct (f_default (o_field o)); simpl; rewrite IH; reflexivity.
Qed.

(* ---- styles 2/3 on a flat member list: load row + the dotted table with the overriding defaults ---- *)
Lemma class_group_m_flat full gk os :
  let nl := onorm os in
  nl <> [] ->
  (existsb (fun o => isSome (o_over o)) os = true -> has_dash gk = false) ->
  forallb (fun o => negb (has_dash (oname o))) nl = true ->
  nodupb (map oname nl) = true ->
  forallb ov_ok nl = true ->
  as_class_group_m false full gk (map MLeaf os) = Some (with_load gk (as_dotted gk (map eff nl))).
Proof.
  intros nl Hne Hdash Hn Hd Hov.
  unfold as_class_group_m.
  rewrite mnorm_leaves, member_default_entries_leaves, body_leaves, sig_params_norm, <- onorm_fields.
  fold nl. simpl set_defaults1.
  assert (Hlen : Nat.eqb (length (map MLeaf os)) 0 = false).
  { destruct os as [|o os]; [contradiction Hne; reflexivity | reflexivity]. }
  rewrite Hlen. simpl create_group. rewrite ms_has_over_leaves, entries_leaves.
  rewrite !map_map.
  assert (Hreq : map (fun rb : row * bool => r_dest (fst rb))
                   (filter snd (map (fun f => add_typed_argument (dotted_key gk f) (f_ty f) (f_default f)) (map o_field nl)))
                 = t_required (as_dotted gk (map eff nl))).
  { rewrite (required_eff gk nl Hov). reflexivity. }
  rewrite map_map in Hreq.
  destruct (existsb (fun o => isSome (o_over o)) os) eqn:Eov.
  - specialize (Hdash eq_refl).
    pose proof (set_defaults_flat full gk Hdash nl [group_load_row gk] Hn Hd Hov) as H.
    unfold mk in H.
    rewrite H.
    + f_equal. unfold with_load. f_equal; [|exact Hreq].
      rewrite dotted_rows_mk, map_map. reflexivity.
    + intros o r _ [<-|[]]. unfold is_leaf_at. simpl. apply andb_false_r.
  - f_equal. unfold with_load. f_equal; [|exact Hreq].
    rewrite dotted_rows_mk, map_map. simpl app. f_equal. apply map_ext_in. intros o Ho.
    rewrite (no_over_eff os Eov o Ho). reflexivity.
Qed.

(* ---- style 4 on a flat member list ---- *)
Lemma inner_table_cons f fs : tcat (inner_table [f]) (inner_table fs) = inner_table (f :: fs).
Proof.
  unfold tcat, inner_table, table_of. simpl.
  destruct (f_default f); reflexivity.
Qed.

Lemma inner_table_m_leaves nl : inner_table_m (map MLeaf nl) = inner_table (map eff nl).
Proof.
  unfold inner_table_m. induction nl as [|o nl IH]; [reflexivity|].
  simpl. rewrite IH. apply inner_table_cons.
Qed.

Lemma inner_m_flat gk nl :
  as_inner_parser_m (dashes ++ gk) (map MLeaf nl) = with_load gk (as_dotted gk (map eff nl)).
Proof.
  unfold as_inner_parser_m. rewrite inner_table_m_leaves. apply inner_table_fixed_eq.
Qed.

(* a member list without nested member is a list of leaves *)
Lemma flat_members ms : has_nested ms = false -> exists os, ms = map MLeaf os.
Proof.
  unfold has_nested, sub_names. induction ms as [|m ms IH]; intro H.
  - exists []. reflexivity.
  - destruct m as [o|n sub d]; simpl in H; [|discriminate].
    destruct (IH H) as [os ->]. exists (o :: os). reflexivity.
Qed.

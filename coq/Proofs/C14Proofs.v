(* C14 — lemmas.  Part I: every value `parse` accepts is valid for the declared type (Spec.valid).
   Part II: what `inst` builds (Spec.inst_ok pieces: count, order, denoted object).
   Part III: a valid, instantiable configuration whose dict_kwargs the callable can take never fails. *)
From JV Require Import Lib.Base Model.C14ClassSpec Spec.C14Spec Model.C14Guard.

(* ---------- small facts -------------------------------------------------------------------- *)
Lemma strip_prefix_app p s : strip_prefix p (p ++ s) = Some s.
Proof. induction p as [|a p IH]; simpl; [reflexivity|]. rewrite N.eqb_refl. exact IH. Qed.

Lemma strip_prefix_some p : forall s r, strip_prefix p s = Some r -> s = p ++ r.
Proof.
  induction p as [|a p IH]; simpl; intros s r H.
  - congruence.
  - destruct s as [|b s]; [discriminate|].
    destruct (N.eqb a b) eqn:E; [|discriminate].
    apply N.eqb_eq in E. subst b. f_equal. apply IH. exact H.
Qed.

Lemma has_dot_app a b : has_dot (a ++ b) = has_dot a || has_dot b.
Proof. unfold has_dot. apply existsb_app. Qed.

Lemma find_cls_some F nm k : find_cls F nm = Some k -> c_name k = nm /\ In k (fam_classes F).
Proof.
  unfold find_cls. intro H. apply find_some in H. destruct H as [Hin He].
  apply str_eqb_spec in He. split; assumption.
Qed.

Lemma find_fun_some F nm f : find_fun F nm = Some f -> f_name f = nm /\ In f (fam_funcs F).
Proof.
  unfold find_fun. intro H. apply find_some in H. destruct H as [Hin He].
  apply str_eqb_spec in He. split; assumption.
Qed.

Lemma find_param_some ps k p : find_param ps k = Some p -> p_name p = k /\ In p ps.
Proof.
  unfold find_param. intro H. apply find_some in H. destruct H as [Hin He].
  apply str_eqb_spec in He. split; assumption.
Qed.

Lemma split_dot_nodot s : has_dot s = false -> split_dot s = (s, None).
Proof.
  unfold has_dot. induction s as [|c s IH]; [reflexivity|]. cbn [existsb split_dot].
  destruct (N.eqb dot c) eqn:E1; [discriminate|]. cbn [orb]. intro Hs.
  assert (E2 : N.eqb c dot = false) by (rewrite N.eqb_sym; exact E1).
  rewrite E2, (IH Hs). reflexivity.
Qed.

Lemma split_dot_app a b : has_dot a = false -> split_dot (a ++ [dot] ++ b) = (a, Some b).
Proof.
  unfold has_dot. induction a as [|c a IH].
  - intros _. cbn [app split_dot]. rewrite N.eqb_refl. reflexivity.
  - cbn [existsb]. destruct (N.eqb dot c) eqn:E1; [discriminate|]. cbn [orb]. intro Ha.
    assert (E2 : N.eqb c dot = false) by (rewrite N.eqb_sym; exact E1).
    change ((c :: a) ++ [dot] ++ b) with (c :: (a ++ [dot] ++ b)). cbn [split_dot]. rewrite E2, (IH Ha). reflexivity.
Qed.

Lemma path_of_has_dot F nm : has_dot (path_of F nm) = true.
Proof.
  unfold path_of. destruct (sub_of F nm); [destruct (aget nm (fam_exports F)) as [t|]; [destruct (str_eqb t nm)|]|];
    rewrite !has_dot_app; simpl; rewrite ?orb_true_r; reflexivity.
Qed.

Lemma import_obj_has_dot F cp o : import_obj F cp = Some o -> has_dot cp = true.
Proof.
  unfold import_obj. destruct (strip_prefix (fam_mod F ++ [dot]) cp) as [rest|] eqn:E; [|discriminate].
  intros _. apply strip_prefix_some in E. subst cp. rewrite !has_dot_app. simpl. rewrite orb_true_r. reflexivity.
Qed.

(* whatever a path imports to is one of the family's named objects *)
Lemma import_obj_lookup F cp o : import_obj F cp = Some o -> exists nm, lookup_name F nm = Some o.
Proof.
  unfold import_obj. destruct (strip_prefix (fam_mod F ++ [dot]) cp) as [rest|]; [|discriminate].
  destruct (split_dot rest) as [a [nm|]].
  - destruct (has_dot nm); [discriminate|]. destruct (sub_of F nm) as [s|]; [|discriminate].
    destruct (str_eqb s a); [|discriminate]. eauto.
  - unfold lookup_pkg. destruct (sub_of F a).
    + destruct (aget a (fam_exports F)) as [t|]; [eauto|discriminate].
    + destruct (lookup_name F a) eqn:L; [intro H; inversion H; subst; eauto|].
      destruct (aget a (fam_exports F)) as [t|]; [eauto|discriminate].
Qed.

(* the canonical path of a named object imports to that object *)
Lemma import_obj_path F nm o :
  has_dot nm = false -> (forall s, sub_of F nm = Some s -> has_dot s = false) ->
  lookup_name F nm = Some o -> import_obj F (path_of F nm) = Some o.
Proof.
  intros D Ds L. unfold import_obj, path_of.
  destruct (sub_of F nm) as [s|] eqn:Es.
  - assert (Long : import_obj F (fam_mod F ++ [dot] ++ s ++ [dot] ++ nm) = Some o).
    { unfold import_obj. replace (fam_mod F ++ [dot] ++ s ++ [dot] ++ nm) with ((fam_mod F ++ [dot]) ++ (s ++ [dot] ++ nm))
        by (rewrite <- app_assoc; reflexivity).
      rewrite strip_prefix_app, (split_dot_app s nm (Ds s eq_refl)), D, Es, str_eqb_refl. exact L. }
    unfold import_obj in Long.
    destruct (aget nm (fam_exports F)) as [t|] eqn:Ee; [|exact Long].
    destruct (str_eqb t nm) eqn:Et; [|exact Long].
    apply str_eqb_spec in Et. subst t.
    replace (fam_mod F ++ [dot] ++ nm) with ((fam_mod F ++ [dot]) ++ nm) by (rewrite <- app_assoc; reflexivity).
    rewrite strip_prefix_app, (split_dot_nodot nm D). unfold lookup_pkg. rewrite Es, Ee. exact L.
  - replace (fam_mod F ++ [dot] ++ nm) with ((fam_mod F ++ [dot]) ++ nm) by (rewrite <- app_assoc; reflexivity).
    rewrite strip_prefix_app, (split_dot_nodot nm D). unfold lookup_pkg. rewrite Es, L. reflexivity.
Qed.

(* ordered dicts *)
Lemma aget_aset_same {A} k (v : A) l : aget k (aset k v l) = Some v.
Proof.
  induction l as [|[k' v'] l IH]; simpl.
  - rewrite str_eqb_refl. reflexivity.
  - destruct (str_eqb k k') eqn:E; simpl.
    + rewrite str_eqb_refl. reflexivity.
    + rewrite E. exact IH.
Qed.

Lemma aget_aset_other {A} k k2 (v : A) l : str_eqb k2 k = false -> aget k2 (aset k v l) = aget k2 l.
Proof.
  intro N. induction l as [|[k' v'] l IH]; simpl.
  - rewrite N. reflexivity.
  - destruct (str_eqb k k') eqn:E; simpl.
    + apply str_eqb_spec in E. subst k'. rewrite N. reflexivity.
    + destruct (str_eqb k2 k'); [reflexivity|exact IH].
Qed.

Lemma ahas_aset {A} k k2 (v : A) l : ahas k2 l = true -> ahas k2 (aset k v l) = true.
Proof.
  unfold ahas. destruct (str_eqb k2 k) eqn:E.
  - apply str_eqb_spec in E. subst k2. rewrite aget_aset_same. reflexivity.
  - rewrite aget_aset_other by exact E. tauto.
Qed.

Lemma aset_In {A} k (v : A) l kv : In kv (aset k v l) -> kv = (k, v) \/ In kv l.
Proof.
  induction l as [|[k' v'] l IH]; simpl.
  - intros [H|[]]; left; congruence.
  - destruct (str_eqb k k'); simpl.
    + intros [H|H]; [left; congruence|right; right; exact H].
    + intros [H|H]; [right; left; exact H|]. destruct (IH H) as [H1|H1]; [left|right; right]; exact H1.
Qed.

Lemma aget_In {A} k (v : A) l : aget k l = Some v -> In (k, v) l.
Proof.
  induction l as [|[k' v'] l IH]; simpl; [discriminate|].
  destruct (str_eqb k k') eqn:E.
  - apply str_eqb_spec in E. subst k'. intro H. left. congruence.
  - intro H. right. exact (IH H).
Qed.

Lemma aupdate_nil {A} (l : list (str * A)) : aupdate l [] = l.
Proof. reflexivity. Qed.

Lemma bind_Ok {A B} (r : res A) (f : A -> res B) b :
  bind r f = Ok b -> exists a, r = Ok a /\ f a = Ok b.
Proof. destruct r as [a|e]; simpl; [eauto|discriminate]. Qed.

Lemma bind_ret {A B} (a : A) (f : A -> res B) : bind (Ok a) f = f a.
Proof. reflexivity. Qed.

(* ---------- well-formed families --------------------------------------------------------------- *)
Definition ps_wf (ps : list param) : Prop :=
  forallb default_ok ps = true /\ nodup_str (map p_name ps) = true.

Lemma fam_wf_cls F k : fam_wf F = true -> In k (fam_classes F) -> ps_wf (c_params k).
Proof.
  unfold fam_wf, fam_wf_with. rewrite !andb_true_iff. intros [[[[H _] _] _] _] Hin.
  rewrite forallb_forall in H. specialize (H k Hin). apply andb_true_iff in H. exact H.
Qed.

Lemma fam_wf_fun F f : fam_wf F = true -> In f (fam_funcs F) -> ps_wf (f_params f) /\ func_ok F f = true.
Proof.
  unfold fam_wf, fam_wf_with. rewrite !andb_true_iff. intros [[[[_ H] _] _] _] Hin.
  rewrite forallb_forall in H. specialize (H f Hin). rewrite !andb_true_iff in H.
  destruct H as [[H1 H2] H3]. split; [split|]; assumption.
Qed.

(* names of classes / functions and of submodules are identifiers *)
Lemma fam_wf_nodot F : fam_wf F = true ->
  (forall k, In k (fam_classes F) -> has_dot (c_name k) = false) /\
  (forall f, In f (fam_funcs F) -> has_dot (f_name f) = false) /\
  (forall nm s, sub_of F nm = Some s -> has_dot s = false).
Proof.
  unfold fam_wf, fam_wf_with, layout_wf. rewrite !andb_true_iff. intros [_ [[[[H _] _] _] _]].
  rewrite forallb_forall in H.
  assert (G : forall n, In n (map c_name (fam_classes F) ++ map f_name (fam_funcs F) ++ fam_consts F
                             ++ map snd (fam_subs F) ++ map fst (fam_exports F)) -> has_dot n = false).
  { intros n Hn. apply negb_true_iff. apply H. exact Hn. }
  split; [|split].
  - intros k Hk. apply G. apply in_or_app. left. apply in_map. exact Hk.
  - intros f Hf. apply G. apply in_or_app. right. apply in_or_app. left. apply in_map. exact Hf.
  - intros nm s Hs. apply G. unfold sub_of in Hs. apply aget_In in Hs.
    apply in_or_app. right. apply in_or_app. right. apply in_or_app. right. apply in_or_app. left.
    apply in_map_iff. exists (nm, s). split; [reflexivity|exact Hs].
Qed.

Lemma find_param_self ps p :
  nodup_str (map p_name ps) = true -> In p ps -> find_param ps (p_name p) = Some p.
Proof.
  unfold find_param. induction ps as [|q ps IH]; simpl; [tauto|].
  rewrite andb_true_iff, negb_true_iff. intros [Hn Hd] [->|Hin].
  - rewrite str_eqb_refl. reflexivity.
  - destruct (str_eqb (p_name q) (p_name p)) eqn:E.
    + apply str_eqb_spec in E. exfalso.
      assert (mem_str (p_name q) (map p_name ps) = true) as M.
      { apply mem_str_In. rewrite E. apply in_map. exact Hin. }
      congruence.
    + apply IH; assumption.
Qed.

Lemma lookup_cls F nm k : lookup_name F nm = Some (ICls k) -> find_cls F nm = Some k.
Proof.
  unfold lookup_name. destruct (find_cls F nm); [congruence|].
  destruct (find_fun F nm); [discriminate|]. destruct (mem_str nm (fam_consts F)); discriminate.
Qed.

Lemma lookup_fun F nm f : lookup_name F nm = Some (IFun f) -> find_fun F nm = Some f.
Proof.
  unfold lookup_name. destruct (find_cls F nm); [discriminate|].
  destruct (find_fun F nm); [congruence|]. destruct (mem_str nm (fam_consts F)); discriminate.
Qed.

Lemma lookup_name_cls F k : find_cls F (c_name k) = Some k -> lookup_name F (c_name k) = Some (ICls k).
Proof. unfold lookup_name. intros ->. reflexivity. Qed.

(* what the import check establishes: the parameters are those of the imported callable, which is (returns) a
   subclass of the declared type; the normalised path cpn imports to the same callable *)
Lemma check_import_ok F base cp cpn ps :
  fam_wf F = true -> check_import F base cp = Ok (cpn, ps) ->
  ps_wf ps /\
  exists k, target F cp = Some (k, ps) /\ target F cpn = Some (k, ps) /\ is_subclass F (c_name k) base = true.
Proof.
  intros Hwf. destruct (fam_wf_nodot F Hwf) as [Dc [Df Ds]]. unfold check_import.
  destruct (import_obj F cp) as [[k|f|]|] eqn:E; try discriminate.
  - destruct (is_subclass F (c_name k) base) eqn:S; [|discriminate]. intro H. inversion H; subst. clear H.
    destruct (import_obj_lookup _ _ _ E) as [nm L]. apply lookup_cls in L.
    destruct (find_cls_some _ _ _ L) as [Hn Hin]. subst nm.
    split; [eapply fam_wf_cls; eassumption|]. exists k.
    assert (P : import_obj F (path_of F (c_name k)) = Some (ICls k)).
    { apply import_obj_path; [apply Dc; exact Hin|apply Ds|apply lookup_name_cls; exact L]. }
    unfold target. rewrite E, P. repeat split. exact S.
  - destruct (is_subclass F (f_ret f) base) eqn:S; [|discriminate]. intro H. inversion H; subst. clear H.
    destruct (import_obj_lookup _ _ _ E) as [nm L]. pose proof (lookup_fun _ _ _ L) as Ff.
    destruct (find_fun_some _ _ _ Ff) as [Hn Hin]. subst nm.
    destruct (fam_wf_fun F f Hwf Hin) as [Hps Hok]. split; [exact Hps|].
    unfold func_ok in Hok. destruct (find_cls F (f_ret f)) as [k|] eqn:Fr; [|discriminate].
    exists k.
    assert (P : import_obj F (path_of F (f_name f)) = Some (IFun f)).
    { apply import_obj_path; [apply Df; exact Hin|apply Ds|exact L]. }
    unfold target. rewrite E, P, Fr. repeat split.
    apply find_cls_some in Fr. destruct Fr as [-> _]. exact S.
Qed.

(* ---------- Part I: accepted => valid ----------------------------------------------------------- *)
Definition nonspec (o : option value) : Prop :=
  match o with Some (VSpec _ _ _) => False | _ => True end.

(* what the first pass of `finalize` (add_sub_defaults) produces: class_path imports to a subclass, every
   init_args key is a parameter whose value is of the parameter's type OR still null, every parameter has a
   key, no dict_kwargs key names a parameter *)
Fixpoint good (F : family) (base : str) (v : value) {struct v} : bool :=
  match v with
  | VSpec cp ia dk =>
      match target F cp with
      | Some (k, ps) =>
          is_subclass F (c_name k) base
          && forallb (fun kv =>
               match find_param ps (fst kv) with
               | Some p => match p_ty p with
                           | PInt => match snd kv with VInt _ => true | VNull => true | _ => false end
                           | PStr => match snd kv with VStr _ => true | VNull => true | _ => false end
                           | PCls c => match snd kv with VNull => true | _ => good F c (snd kv) end
                           | POpt c => match snd kv with VNull => true | _ => good F c (snd kv) end
                           end
               | None => false
               end) ia
          && forallb (fun p => ahas (p_name p) ia) ps
          && forallb (fun kv => match find_param ps (fst kv) with Some _ => false | None => true end) dk
      | None => false
      end
  | _ => false
  end.

Definition tyn (F : family) (t : pty) (x : value) : bool :=
  match t with
  | PInt => match x with VInt _ => true | VNull => true | _ => false end
  | PStr => match x with VStr _ => true | VNull => true | _ => false end
  | PCls c => match x with VNull => true | _ => good F c x end
  | POpt c => match x with VNull => true | _ => good F c x end
  end.

Definition ia_tyn (F : family) (ps : list param) (kv : str * value) : bool :=
  match find_param ps (fst kv) with Some p => tyn F (p_ty p) (snd kv) | None => false end.

Lemma good_eq F base cp ia dk :
  good F base (VSpec cp ia dk) =
  match target F cp with
  | Some (k, ps) =>
      is_subclass F (c_name k) base
      && forallb (ia_tyn F ps) ia
      && forallb (fun p => ahas (p_name p) ia) ps
      && forallb (fun kv => match find_param ps (fst kv) with Some _ => false | None => true end) dk
  | None => false
  end.
Proof. reflexivity. Qed.

Lemma merge_val_nonspec o v : nonspec o -> merge_val o v = v.
Proof. destruct o as [[]|]; simpl; tauto. Qed.

Local Arguments bind : simpl never.

(* in the families of the theorems no default is a class spec: the two default-spec rules are inert *)
Lemma prev_or_default_wf m p prev : default_ok p = true -> prev_or_default m p prev = prev.
Proof.
  unfold prev_or_default, default_ok. destruct (p_ty p); destruct (p_def p) as [[]|]; try reflexivity; discriminate.
Qed.

Lemma defaults_of_rec_wf rec m ps :
  forallb default_ok ps = true -> defaults_of_rec rec m ps = Ok (defaults_of ps).
Proof.
  induction ps as [|p ps IH]; simpl; [reflexivity|]. rewrite andb_true_iff. intros [Hp Hps].
  rewrite (IH Hps). unfold default_ok in Hp.
  destruct (p_ty p); destruct (p_def p) as [[]|]; try discriminate; reflexivity.
Qed.

Section Pass1.
  Variable F : family.
  Variable rec : mode -> str -> option value -> input -> res value.
  Hypothesis Hrec : forall c prev r v, nonspec prev ->
      rec with_defaults c prev (IRaw r) = Ok v -> good F c v = true.

  Lemma adapt_param_p1 t prev r v :
    nonspec prev -> adapt_param rec with_defaults t prev r = Ok v -> tyn F t v = true.
  Proof.
    intros Hp. destruct t as [| |c|c]; simpl.
    - destruct r; try discriminate. intro H; inversion H; reflexivity.
    - destruct r; try discriminate. intro H; inversion H; reflexivity.
    - intro H. apply Hrec in H; [|exact Hp]. destruct v; try reflexivity; exact H.
    - destruct r; try (intro H; apply Hrec in H; [|exact Hp]; destruct v; try reflexivity; exact H).
      intro H; inversion H; reflexivity.
  Qed.

  Definition ia_inv (ps : list param) (acc : list (str * value)) : Prop :=
    forallb (ia_tyn F ps) acc = true /\ forallb (fun p => ahas (p_name p) acc) ps = true.

  Lemma ia_inv_aset ps acc k p v :
    find_param ps k = Some p -> tyn F (p_ty p) v = true -> ia_inv ps acc -> ia_inv ps (aset k v acc).
  Proof.
    intros Hf Ht [H1 H2]. split.
    - rewrite forallb_forall in *. intros kv Hin. apply aset_In in Hin. destruct Hin as [->|Hin].
      + unfold ia_tyn. simpl. rewrite Hf. exact Ht.
      + apply H1. exact Hin.
    - rewrite forallb_forall in *. intros q Hq. apply ahas_aset. apply H2. exact Hq.
  Qed.

  Lemma parse_ia_p1 ps base : forallb default_ok ps = true -> (forall k, nonspec (aget k base)) ->
    forall kvs acc ia, ia_inv ps acc ->
    parse_ia rec with_defaults ps base kvs acc = Ok ia -> ia_inv ps ia.
  Proof.
    intros Hd Hb. induction kvs as [|[k r] kvs IH]; simpl; intros acc ia Hacc H.
    - inversion H; subst. exact Hacc.
    - destruct (find_param ps k) as [p|] eqn:Fp; [|discriminate].
      apply bind_Ok in H. destruct H as [v [Hv H]].
      rewrite prev_or_default_wf in Hv
        by (rewrite forallb_forall in Hd; apply Hd; apply (find_param_some _ _ _ Fp)).
      apply adapt_param_p1 in Hv; [|apply Hb].
      rewrite merge_val_nonspec in H by apply Hb.
      eapply IH; [|exact H]. eapply ia_inv_aset; eassumption.
  Qed.

  Lemma defaults_inv ps : ps_wf ps -> ia_inv ps (defaults_of ps).
  Proof.
    intros [Hd Hn]. split.
    - unfold defaults_of. rewrite forallb_forall. intros kv Hin. apply in_map_iff in Hin.
      destruct Hin as [p [<- Hp]]. unfold ia_tyn. simpl.
      rewrite (find_param_self ps p Hn Hp).
      rewrite forallb_forall in Hd. specialize (Hd p Hp). unfold default_ok in Hd.
      destruct (p_ty p); destruct (p_def p) as [[]|]; simpl; try reflexivity; discriminate.
    - rewrite forallb_forall. intros p Hp. unfold ahas.
      destruct (aget (p_name p) (defaults_of ps)) eqn:E; [reflexivity|]. exfalso.
      clear Hd Hn. unfold defaults_of in E. induction ps as [|q ps IH]; [destruct Hp|].
      simpl in E. destruct (str_eqb (p_name p) (p_name q)) eqn:Eq; [discriminate|].
      destruct Hp as [->|Hp]; [rewrite str_eqb_refl in Eq; discriminate|]. apply IH; assumption.
  Qed.

  Lemma defaults_nonspec ps : ps_wf ps -> forall k, nonspec (aget k (defaults_of ps)).
  Proof.
    intros [Hd _] k. destruct (aget k (defaults_of ps)) as [x|] eqn:E; [|exact I].
    apply aget_In in E. unfold defaults_of in E. apply in_map_iff in E. destruct E as [p [E Hp]].
    inversion E; subst. rewrite forallb_forall in Hd. specialize (Hd p Hp). unfold default_ok in Hd.
    destruct (p_ty p); destruct (p_def p) as [[]|]; simpl; try exact I; discriminate.
  Qed.

  Lemma simple_values_keys l vs : simple_values l = Ok vs -> map fst vs = map fst l.
  Proof.
    revert vs. induction l as [|[k r] l IH]; simpl; intros vs H.
    - inversion H; reflexivity.
    - apply bind_Ok in H. destruct H as [v [_ H]]. apply bind_Ok in H. destruct H as [vs' [Hs H]].
      inversion H; subst. simpl. f_equal. apply IH. exact Hs.
  Qed.

  Lemma aupdate_nil_keys {A} (new : list (str * A)) kv :
    In kv (aupdate [] new) -> In (fst kv) (map fst new).
  Proof.
    unfold aupdate. assert (G : forall (acc : list (str * A)),
      In kv (fold_left (fun acc kv => aset (fst kv) (snd kv) acc) new acc) ->
      In kv acc \/ In (fst kv) (map fst new)).
    { induction new as [|[k v] new IH]; simpl; intros acc H; [left; exact H|].
      apply IH in H. destruct H as [H|H]; [|right; right; exact H].
      apply aset_In in H. destruct H as [->|H]; [right; left; reflexivity|left; exact H]. }
    intro H. apply G in H. destruct H as [[]|H]. exact H.
  Qed.

  (* the dict branch with nothing carried over from a previous value *)
  Lemma adapt_dict_p1 ps cpn same kvs dk v k base :
    ps_wf ps -> target F cpn = Some (k, ps) -> is_subclass F (c_name k) base = true ->
    adapt_dict rec with_defaults ps cpn same [] [] kvs dk = Ok v -> good F base v = true.
  Proof.
    intros Hps Ht Hs. unfold adapt_dict. simpl m_defaults. simpl m_strict. cbv iota.
    rewrite (defaults_of_rec_wf rec with_defaults ps (proj1 Hps)), bind_ret, aupdate_nil.
    intro H. apply bind_Ok in H. destruct H as [ia [Hia H]]. simpl in H.
    apply bind_Ok in H. destruct H as [dkv [Hdk H]]. inversion H; subst v. clear H.
    apply parse_ia_p1 in Hia; [|exact (proj1 Hps)|apply defaults_nonspec; exact Hps|apply defaults_inv; exact Hps].
    destruct Hia as [H1 H2]. rewrite good_eq, Ht, Hs, H1, H2. simpl.
    apply simple_values_keys in Hdk.
    assert (K : forall kv : str * value, In (fst kv) (map fst dkv) ->
                match find_param ps (fst kv) with Some _ => false | None => true end = true).
    { intros kv Hin. rewrite Hdk in Hin. apply in_map_iff in Hin. destruct Hin as [kr [E Hin]].
      apply filter_In in Hin. destruct Hin as [_ Hin]. rewrite <- E. exact Hin. }
    rewrite forallb_forall. intros kv Hin. apply K.
    destruct dkv as [|d dkv]; [destruct Hin|].
    destruct same.
    - apply aupdate_nil_keys in Hin. exact Hin.
    - apply in_map. exact Hin.
  Qed.
End Pass1.

Lemma adapt_unfold F rs n m base prev i :
  adapt F rs (S n) m base prev i =
  (q <- as_ns i (prev_class_path (prev1_of F base prev)) ;;
   cp1 <- resolve_name F base (q_cp q) ;;
   cps <- check_import F base cp1 ;;
   match q_ia q with
   | IaNested path r =>
       adapt_nested rs (adapt F rs n) m (snd cps) (fst cps)
         (snd (fst (prev_parts (adapt F rs n) (snd cps) (fst cps) (prev1_of F base prev)))) path r
   | IaDict kvs =>
       adapt_dict (adapt F rs n) m (snd cps) (fst cps)
         (fst (fst (prev_parts (adapt F rs n) (snd cps) (fst cps) (prev1_of F base prev))))
         (snd (fst (prev_parts (adapt F rs n) (snd cps) (fst cps) (prev1_of F base prev))))
         (snd (prev_parts (adapt F rs n) (snd cps) (fst cps) (prev1_of F base prev)))
         kvs (q_dk q)
   end).
Proof. reflexivity. Qed.

Lemma proto_of_spec_dict_dict d q : proto_of_spec_dict d = Ok q -> exists kvs, q_ia q = IaDict kvs.
Proof.
  unfold proto_of_spec_dict.
  destruct (aget s_class_path d) as [[]|]; try discriminate;
  destruct (aget s_init_args d) as [[]|]; destruct (aget s_dict_kwargs d) as [[]|];
  try discriminate; intro H; inversion H; eexists; reflexivity.
Qed.

Lemma as_ns_dict_dict d pcp q : as_ns_dict d pcp = Ok q -> exists kvs, q_ia q = IaDict kvs.
Proof.
  unfold as_ns_dict. destruct (is_spec_dict d); [apply proto_of_spec_dict_dict|].
  destruct pcp as [cp|]; [|discriminate].
  destruct (ahas s_init_args d || ahas s_dict_kwargs d).
  - destruct (is_spec_dict (aset s_class_path (RStr cp) d)); [apply proto_of_spec_dict_dict|discriminate].
  - intro H; inversion H; eexists; reflexivity.
Qed.

Lemma as_ns_raw r pcp q : as_ns (IRaw r) pcp = Ok q -> exists kvs, q_ia q = IaDict kvs.
Proof.
  destruct r; simpl; try discriminate.
  - intro H; inversion H; eexists; reflexivity.
  - apply as_ns_dict_dict.
Qed.

Lemma prev_parts_nonspec F rec ps cpn base prev :
  nonspec prev ->
  snd (fst (prev_parts rec ps cpn (prev1_of F base prev))) = [] /\
  snd (prev_parts rec ps cpn (prev1_of F base prev)) = [].
Proof.
  intro Hp.
  assert (E : prev1_of F base prev = None \/
              prev1_of F base prev = (if cls_abstract F base then None else Some (VSpec (path_of F base) [] []))).
  { destruct prev as [[]|]; simpl in *; try (right; reflexivity); try (left; reflexivity). destruct Hp. }
  destruct E as [E|E]; rewrite E; [split; reflexivity|].
  destruct (cls_abstract F base); simpl; [split; reflexivity|].
  destruct (str_eqb (path_of F base) cpn); simpl; split; reflexivity.
Qed.

Lemma adapt_p1 F rs : fam_wf F = true -> forall n base prev r v, nonspec prev ->
  adapt F rs n with_defaults base prev (IRaw r) = Ok v -> good F base v = true.
Proof.
  intros Hwf. induction n as [|n IH]; intros base prev r v Hp H; [discriminate|].
  rewrite adapt_unfold in H.
  apply bind_Ok in H. destruct H as [q [Hq H]].
  apply bind_Ok in H. destruct H as [cp1 [Hc H]].
  apply bind_Ok in H. destruct H as [[cpn ps] [Hi H]]. simpl fst in H. simpl snd in H.
  apply check_import_ok in Hi; [|exact Hwf]. destruct Hi as [Hps [k [_ [Ht Hs]]]].
  destruct (as_ns_raw _ _ _ Hq) as [kvs Hk]. rewrite Hk in H.
  destruct (prev_parts_nonspec F (adapt F rs n) ps cpn base prev Hp) as [E1 E2].
  rewrite E1, E2 in H.
  eapply adapt_dict_p1; [| exact Hps | exact Ht | exact Hs | exact H].
  intros c prev' r' v' Hp' H'. eapply IH; eassumption.
Qed.

(* ----- second pass of `finalize` (the validation): no null is left where the type does not allow one ----- *)
Definition vty (F : family) (t : pty) (x : value) : bool :=
  match t with
  | PInt => match x with VInt _ => true | _ => false end
  | PStr => match x with VStr _ => true | _ => false end
  | PCls c => valid F c x
  | POpt c => match x with VNull => true | _ => valid F c x end
  end.

Definition ia_val (F : family) (ps : list param) (kv : str * value) : bool :=
  match find_param ps (fst kv) with Some p => vty F (p_ty p) (snd kv) | None => false end.

Lemma valid_eq F base cp ia dk :
  valid F base (VSpec cp ia dk) =
  match target F cp with
  | Some (k, ps) =>
      is_subclass F (c_name k) base
      && forallb (ia_val F ps) ia
      && forallb (fun p => match p_def p with Some _ => true | None => ahas (p_name p) ia end) ps
      && forallb (fun kv => match find_param ps (fst kv) with Some _ => false | None => true end) dk
  | None => false
  end.
Proof. reflexivity. Qed.

Definition raw_kvs (l : list (str * value)) : list (str * raw) :=
  map (fun kv => (fst kv, raw_of (snd kv))) l.

Lemma raw_of_spec cp ia dk :
  raw_of (VSpec cp ia dk) =
  RDict ((s_class_path, RStr cp)
         :: (match ia with [] => [] | _ => [(s_init_args, RDict (raw_kvs ia))] end)
         ++ (match dk with [] => [] | _ => [(s_dict_kwargs, RDict (raw_kvs dk))] end)).
Proof. reflexivity. Qed.

Lemma as_ns_raw_of cp ia dk pcp :
  as_ns (IRaw (raw_of (VSpec cp ia dk))) pcp
  = Ok {| q_cp := cp; q_ia := IaDict (raw_kvs ia); q_dk := raw_kvs dk |}.
Proof.
  rewrite raw_of_spec. destruct ia as [|a ia]; destruct dk as [|b dk]; reflexivity.
Qed.

Lemma parse_ia_each rec m ps base : forall kvs acc ia,
  parse_ia rec m ps base kvs acc = Ok ia ->
  forall kr, In kr kvs -> exists p v, find_param ps (fst kr) = Some p /\
      adapt_param rec m (p_ty p) (prev_or_default m p (aget (fst kr) base)) (snd kr) = Ok v.
Proof.
  induction kvs as [|[k r] kvs IH]; simpl; intros acc ia H kr Hin; [destruct Hin|].
  destruct (find_param ps k) as [p|] eqn:Fp; [|discriminate].
  apply bind_Ok in H. destruct H as [v [Hv H]].
  destruct Hin as [<-|Hin].
  - exists p, v. simpl. split; assumption.
  - eapply IH; eassumption.
Qed.

Section Pass2.
  Variable F : family.
  Variable rec : mode -> str -> option value -> input -> res value.
  Hypothesis Hrec : forall c prev x y, good F c x = true ->
      rec strict c prev (IRaw (raw_of x)) = Ok y -> valid F c x = true.
  Hypothesis Hnull : forall m c prev y, rec m c prev (IRaw RNull) = Ok y -> False.

  Lemma adapt_param_p2 t prev x y :
    tyn F t x = true -> adapt_param rec strict t prev (raw_of x) = Ok y -> vty F t x = true.
  Proof.
    destruct t as [| |c|c]; destruct x as [z|s| |cp ia dk]; unfold tyn, vty;
      try discriminate; try reflexivity.
    - intros _ H. exfalso. exact (Hnull strict c prev y H).
    - intros G H. exact (Hrec c prev (VSpec cp ia dk) y G H).
    - intros G H. exact (Hrec c prev (VSpec cp ia dk) y G H).
  Qed.
End Pass2.

Lemma filter_params_clean ps (dk : list (str * value)) :
  forallb (fun kv => match find_param ps (fst kv) with Some _ => false | None => true end) dk = true ->
  filter (fun kv : str * raw => match find_param ps (fst kv) with Some _ => true | None => false end)
         (raw_kvs dk) = [].
Proof.
  induction dk as [|[k v] dk IH]; simpl; [reflexivity|].
  rewrite andb_true_iff. intros [H1 H2]. destruct (find_param ps k); [discriminate|]. apply IH. exact H2.
Qed.

Lemma resolve_name_dotted F base cp : has_dot cp = true -> resolve_name F base cp = Ok cp.
Proof. unfold resolve_name. intros ->. reflexivity. Qed.

Lemma adapt_null F rs n m c prev y : adapt F rs n m c prev (IRaw RNull) = Ok y -> False.
Proof. destruct n; [discriminate|]. rewrite adapt_unfold. simpl. discriminate. Qed.

Lemma adapt_p2 F rs : fam_wf F = true -> forall n base base' prev x y, good F base x = true ->
  adapt F rs n strict base' prev (IRaw (raw_of x)) = Ok y -> valid F base x = true.
Proof.
  intros Hwf. induction n as [|n IH]; intros base base' prev x y G H; [discriminate|].
  destruct x as [z|s| |cp ia dk]; try discriminate.
  rewrite adapt_unfold, as_ns_raw_of in H.
  apply bind_Ok in H. destruct H as [q [Hq H]]. inversion Hq; subst q; clear Hq.
  simpl q_cp in H. simpl q_ia in H. simpl q_dk in H.
  rewrite good_eq in G. destruct (target F cp) as [[k ps]|] eqn:Ht; [|discriminate].
  rewrite !andb_true_iff in G. destruct G as [[[Gs Gi] Gp] Gd].
  assert (Hd : has_dot cp = true).
  { unfold target in Ht. destruct (import_obj F cp) eqn:E; [|discriminate]. eapply import_obj_has_dot. exact E. }
  rewrite (resolve_name_dotted F base' cp Hd) in H.
  apply bind_Ok in H. destruct H as [cp1 [Hc H]]. inversion Hc; subst cp1; clear Hc.
  apply bind_Ok in H. destruct H as [[cpn ps'] [Hi H]]. simpl fst in H. simpl snd in H.
  apply check_import_ok in Hi; [|exact Hwf]. destruct Hi as [Hps [k' [Ht' _]]].
  rewrite Ht in Ht'. inversion Ht'; subst k' ps'. clear Ht'.
  unfold adapt_dict in H. rewrite (filter_params_clean ps dk Gd) in H. rewrite aupdate_nil in H.
  simpl m_defaults in H. cbv iota in H. rewrite bind_ret in H.
  apply bind_Ok in H. destruct H as [ia' [Hia _]].
  rewrite valid_eq, Ht, Gs, Gd, andb_true_r. simpl. apply andb_true_iff. split.
  - rewrite forallb_forall in *. intros kv Hin.
    assert (Hin' : In (fst kv, raw_of (snd kv)) (raw_kvs ia)).
    { unfold raw_kvs. apply in_map_iff. exists kv. split; [reflexivity|exact Hin]. }
    destruct (parse_ia_each _ _ _ _ _ _ _ Hia _ Hin') as [p [v [Fp Hv]]]. simpl in Fp, Hv.
    specialize (Gi kv Hin). unfold ia_tyn in Gi. unfold ia_val. rewrite Fp in *.
    eapply adapt_param_p2; [| |exact Gi|exact Hv].
    + intros c prev' x' y' G' H'. eapply IH; eassumption.
    + intros m c prev' y'. apply adapt_null.
  - rewrite forallb_forall in *. intros p Hp. rewrite (Gp p Hp). destruct (p_def p); reflexivity.
Qed.

(* Part I, the statement *)
Local Opaque FUEL.
Lemma finalize_valid F rs base v v1 :
  fam_wf F = true -> finalize F rs base v = Ok v1 -> valid F base v1 = true.
Proof.
  intros Hwf H. unfold finalize in H.
  apply bind_Ok in H. destruct H as [w [H1 H]]. apply bind_Ok in H. destruct H as [w2 [H2 H]].
  inversion H; subst v1. eapply adapt_p2; [exact Hwf| |exact H2].
  eapply adapt_p1; [exact Hwf| |exact H1]. exact I.
Qed.

Lemma parse_with_valid F rs base dflt steps v :
  fam_wf F = true -> parse_with F rs base dflt steps = Ok v -> valid F base v = true.
Proof.
  intros Hwf H. unfold parse_with in H.
  apply bind_Ok in H. destruct H as [c0 [_ H]]. apply bind_Ok in H. destruct H as [cfg [_ H]].
  destruct cfg as [w|]; [|discriminate]. eapply finalize_valid; eassumption.
Qed.

Lemma parse_valid F base dflt steps v :
  fam_wf F = true -> parse F base dflt steps = Ok v -> valid F base v = true.
Proof. apply parse_with_valid. Qed.

(* ---------- a concrete family for the examples and the refutation witness ------------------------
   module jvfamk:  class Leaf(n: int = 1);  class Mid(leaf: Optional[Leaf] = None, d: int = 0);
                   class Top(mid: Optional[Mid] = None);  K0 = 5 *)
Definition x_Leaf : str := [76;101;97;102]%N.
Definition x_Mid : str := [77;105;100]%N.
Definition x_Top : str := [84;111;112]%N.
Definition x_leaf : str := [108;101;97;102]%N.
Definition x_mid : str := [109;105;100]%N.
Definition x_fam : family :=
  {| fam_mod := [106;118;102;97;109;107]%N;
     fam_classes :=
       [ {| c_name := x_Leaf; c_parents := []; c_abstract := false; c_varkw := false;
            c_params := [ {| p_name := [110]%N; p_ty := PInt; p_def := Some (VInt 1) |} ] |};
         {| c_name := x_Mid; c_parents := []; c_abstract := false; c_varkw := false;
            c_params := [ {| p_name := x_leaf; p_ty := POpt x_Leaf; p_def := Some VNull |};
                          {| p_name := [100]%N; p_ty := PInt; p_def := Some (VInt 0) |} ] |};
         {| c_name := x_Top; c_parents := []; c_abstract := false; c_varkw := false;
            c_params := [ {| p_name := x_mid; p_ty := POpt x_Mid; p_def := Some VNull |} ] |} ];
     fam_funcs := [];
     fam_consts := [[75;48]%N];
     fam_subs := []; fam_exports := []; fam_shadows := [] |}.
(* --x.mid=Mid --x.mid.d=7 *)
Definition x_steps_ok : list input :=
  [INested [x_mid] (RStr x_Mid); INested [x_mid; [100]%N] (RInt 7)].
(* --x.mid=Mid --x.mid.leaf=null *)
Definition x_steps_null : list input :=
  [INested [x_mid] (RStr x_Mid); INested [x_mid; x_leaf] RNull].

(* ---------- Part II: what instantiate builds ----------------------------------------------------- *)
Lemma trees_from_app l1 : forall l2 acc, trees_from (l1 ++ l2) acc = trees_from l2 (trees_from l1 acc).
Proof. induction l1 as [|[c kw] l1 IH]; simpl; intros; [reflexivity|apply IH]. Qed.

Lemma trees_from_prefix l : forall acc, exists ext, trees_from l acc = acc ++ ext /\ length ext = length l.
Proof.
  induction l as [|[c kw] l IH]; simpl; intros acc.
  - exists []. rewrite app_nil_r. split; reflexivity.
  - destruct (IH (acc ++ [TObj c (map (fun ka => (fst ka, arg_tree acc (snd ka))) kw)])) as [ext [E L]].
    rewrite E, <- app_assoc. eexists. split; [reflexivity|]. simpl. rewrite L. reflexivity.
Qed.

Lemma trees_from_length l acc : length (trees_from l acc) = length acc + length l.
Proof. destruct (trees_from_prefix l acc) as [ext [-> L]]. rewrite app_length, L. reflexivity. Qed.

Definition abound (b : nat) (a : arg) : Prop := match a with ARef j => j < b | _ => True end.

Lemma abound_mono b b' a : b <= b' -> abound b a -> abound b' a.
Proof. destruct a; simpl; try tauto. lia. Qed.

Lemma arg_tree_stable l acc a : abound (length acc) a -> arg_tree (trees_from l acc) a = arg_tree acc a.
Proof.
  destruct a; simpl; try reflexivity. intro H.
  destruct (trees_from_prefix l acc) as [ext [-> _]]. apply app_nth1. exact H.
Qed.

Lemma backward_app l1 : forall i l2, backward i (l1 ++ l2) = backward i l1 && backward (i + length l1) l2.
Proof.
  induction l1 as [|[c kw] l1 IH]; simpl; intros i l2.
  - rewrite Nat.add_0_r. reflexivity.
  - rewrite IH, andb_assoc. replace (S i + length l1) with (i + S (length l1)) by lia. reflexivity.
Qed.

Definition kw_bound (b : nat) (kw : list (str * arg)) : Prop := Forall (fun ka => abound b (snd ka)) kw.

Lemma kw_bound_refs b kw : kw_bound b kw -> forallb (fun j => Nat.ltb j b) (refs_of kw) = true.
Proof.
  unfold kw_bound, refs_of. induction 1 as [|[k a] kw Ha _ IH]; simpl; [reflexivity|].
  destruct a; simpl in *; try exact IH. rewrite IH, andb_true_r. apply Nat.ltb_lt. exact Ha.
Qed.

Lemma aset_Forall {A} (P : str * A -> Prop) k v l : P (k, v) -> Forall P l -> Forall P (aset k v l).
Proof.
  intros Hv Hl. apply Forall_forall. intros kv Hin. apply aset_In in Hin.
  destruct Hin as [->|Hin]; [exact Hv|]. rewrite Forall_forall in Hl. apply Hl. exact Hin.
Qed.

Lemma aupdate_Forall {A} (P : str * A -> Prop) new : forall base,
  Forall P base -> Forall P new -> Forall P (aupdate base new).
Proof.
  unfold aupdate. induction new as [|[k v] new IH]; simpl; intros base Hb Hn; [exact Hb|].
  inversion Hn; subst. apply IH; [|assumption]. apply aset_Forall; assumption.
Qed.

Lemma arg_of_simple_bound b x : abound b (arg_of_simple x).
Proof. destruct x; exact I. Qed.

Lemma bound_kwargs_bound b ps kw : kw_bound b kw -> kw_bound b (bound_kwargs ps kw).
Proof.
  intro H. unfold bound_kwargs, kw_bound. apply Forall_app. split.
  - apply Forall_forall. intros ka Hin. apply in_map_iff in Hin. destruct Hin as [p [<- _]]. simpl.
    destruct (aget (p_name p) kw) as [a|] eqn:E.
    + apply aget_In in E. unfold kw_bound in H. rewrite Forall_forall in H. exact (H _ E).
    + destruct (p_def p); [apply arg_of_simple_bound|exact I].
  - apply Forall_forall. intros ka Hin. apply filter_In in Hin. destruct Hin as [Hin _].
    unfold kw_bound in H. rewrite Forall_forall in H. exact (H _ Hin).
Qed.

(* reading kwargs as trees commutes with call binding *)
Definition kw_trees (ts : list otree) (kw : list (str * arg)) : list (str * otree) :=
  map (fun ka => (fst ka, arg_tree ts (snd ka))) kw.

Lemma aget_kw_trees ts k kw : aget k (kw_trees ts kw) = option_map (arg_tree ts) (aget k kw).
Proof.
  induction kw as [|[k' a] kw IH]; simpl; [reflexivity|]. destruct (str_eqb k k'); [reflexivity|exact IH].
Qed.

Lemma arg_tree_simple ts x : arg_tree ts (arg_of_simple x) = otree_of_simple x.
Proof. destruct x; reflexivity. Qed.

Lemma bound_kwargs_trees ts ps kw :
  kw_trees ts (bound_kwargs ps kw) = bound_tree ps (kw_trees ts kw).
Proof.
  unfold bound_kwargs, bound_tree, kw_trees at 1. rewrite map_app. f_equal.
  - rewrite map_map. apply map_ext. intro p. simpl. f_equal.
    rewrite aget_kw_trees. destruct (aget (p_name p) kw); simpl; [reflexivity|].
    destruct (p_def p); [apply arg_tree_simple|reflexivity].
  - unfold kw_trees. induction kw as [|[k a] kw IH]; simpl; [reflexivity|].
    destruct (find_param ps k); simpl; [exact IH|]. f_equal. exact IH.
Qed.

Lemma aset_kw_trees ts k a kw : kw_trees ts (aset k a kw) = aset k (arg_tree ts a) (kw_trees ts kw).
Proof.
  induction kw as [|[k' a'] kw IH]; simpl; [reflexivity|].
  destruct (str_eqb k k'); simpl; [reflexivity|]. f_equal. exact IH.
Qed.

Lemma aupdate_kw_trees ts new : forall base,
  kw_trees ts (aupdate base new) = aupdate (kw_trees ts base) (kw_trees ts new).
Proof.
  unfold aupdate. induction new as [|[k a] new IH]; simpl; intros base; [reflexivity|].
  rewrite IH, aset_kw_trees. reflexivity.
Qed.

Definition sum_nodes (ia : list (str * value)) : nat := fold_right (fun kv a => nodes (snd kv) + a) 0 ia.

Definition inst_post (F : family) (v : value) (log0 : list entry) (a : arg) (log : list entry) : Prop :=
  exists ext, log = log0 ++ ext /\ length ext = nodes v /\ abound (length log) a /\
              backward (length log0) ext = true /\
              forall ts0, length ts0 = length log0 -> arg_tree (trees_from ext ts0) a = denote F v.

Definition args_post (F : family) (ia : list (str * value)) (log0 : list entry)
           (args : list (str * arg)) (log : list entry) : Prop :=
  exists ext, log = log0 ++ ext /\ length ext = sum_nodes ia /\ kw_bound (length log) args /\
              backward (length log0) ext = true /\
              forall ts0, length ts0 = length log0 ->
                kw_trees (trees_from ext ts0) args = map (fun kv => (fst kv, denote F (snd kv))) ia.

Lemma inst_args_post F rec :
  (forall v log0 a log, rec v log0 = Ok (a, log) -> inst_post F v log0 a log) ->
  forall ia log0 args log, inst_args rec ia log0 = Ok (args, log) -> args_post F ia log0 args log.
Proof.
  intros Hrec. induction ia as [|[k v] ia IH]; simpl; intros log0 args log H.
  - inversion H; subst. exists []. rewrite app_nil_r. repeat split; try reflexivity. constructor.
  - apply bind_Ok in H. destruct H as [[a log1] [H1 H]]. apply bind_Ok in H. destruct H as [[args' log2] [H2 H]].
    simpl in H2, H. inversion H; subst args log; clear H.
    apply Hrec in H1. destruct H1 as [e1 [-> [L1 [B1 [W1 T1]]]]].
    apply IH in H2. destruct H2 as [e2 [-> [L2 [B2 [W2 T2]]]]].
    rewrite <- app_assoc in *. exists (e1 ++ e2). split; [reflexivity|]. split; [|split; [|split]].
    + rewrite app_length, L1, L2. reflexivity.
    + constructor; [|exact B2]. simpl. eapply abound_mono; [|exact B1]. rewrite !app_length. lia.
    + rewrite backward_app, W1. simpl. rewrite app_length in W2. exact W2.
    + intros ts0 Hl. rewrite trees_from_app. simpl. f_equal.
      * f_equal. rewrite arg_tree_stable; [apply T1; exact Hl|].
        rewrite trees_from_length, Hl, <- app_length. exact B1.
      * apply T2. rewrite trees_from_length, Hl, app_length. reflexivity.
Qed.

Lemma construct_ok F cname kw log_a a log :
  construct F cname kw log_a = Ok (a, log) ->
  exists k, find_cls F cname = Some k /\ a = ARef (length log_a) /\
            log = log_a ++ [(cname, bound_kwargs (c_params k) kw)].
Proof.
  unfold construct. destruct (find_cls F cname) as [k|]; [|discriminate].
  destruct (c_abstract k); [discriminate|]. destruct (bind_ok (c_params k) (c_varkw k) kw); [|discriminate].
  intro H; inversion H; subst. exists k. repeat split; reflexivity.
Qed.

Lemma import_cls_find F cp k : import_obj F cp = Some (ICls k) -> find_cls F (c_name k) = Some k.
Proof.
  intro H. apply import_obj_lookup in H. destruct H as [nm L]. apply lookup_cls in L.
  destruct (find_cls_some _ _ _ L) as [-> _]. exact L.
Qed.

(* the step that appends the constructor call of a spec node *)
Lemma construct_post F cp ia dk k ps0 cname log0 args log_a a log :
  target F cp = Some (k, ps0) -> find_cls F cname = Some k ->
  args_post F ia log0 args log_a ->
  construct F cname (aupdate args (map (fun kv => (fst kv, arg_of_simple (snd kv))) dk)) log_a = Ok (a, log) ->
  inst_post F (VSpec cp ia dk) log0 a log.
Proof.
  intros Ht Hf [e [-> [L [B [W T]]]]] H.
  apply construct_ok in H. destruct H as [k' [Hf' [-> ->]]]. rewrite Hf in Hf'. inversion Hf'; subst k'.
  destruct (find_cls_some _ _ _ Hf) as [Hn _].
  set (kw := aupdate args (map (fun kv => (fst kv, arg_of_simple (snd kv))) dk)) in *.
  assert (Bk : kw_bound (length (log0 ++ e)) kw).
  { apply aupdate_Forall; [exact B|]. apply Forall_forall. intros ka Hin. apply in_map_iff in Hin.
    destruct Hin as [kv [<- _]]. apply arg_of_simple_bound. }
  exists (e ++ [(cname, bound_kwargs (c_params k) kw)]). rewrite <- app_assoc.
  split; [reflexivity|]. split; [|split; [|split]].
  - rewrite app_length, L. simpl. unfold sum_nodes. lia.
  - simpl. rewrite !app_length. simpl. lia.
  - rewrite backward_app, W. simpl. rewrite andb_true_r. rewrite <- app_length.
    apply kw_bound_refs. apply bound_kwargs_bound. exact Bk.
  - intros ts0 Hl. rewrite trees_from_app. simpl.
    rewrite app_nth2; rewrite trees_from_length, Hl, <- app_length; [|lia].
    rewrite Nat.sub_diag. simpl. rewrite Ht. rewrite Hn. f_equal.
    fold (kw_trees (trees_from e ts0) (bound_kwargs (c_params k) kw)).
    rewrite bound_kwargs_trees. f_equal. unfold kw. rewrite aupdate_kw_trees. f_equal.
    + apply T. exact Hl.
    + unfold kw_trees. rewrite map_map. apply map_ext. intro kv. simpl. rewrite arg_tree_simple. reflexivity.
Qed.

Lemma inst_sound F : forall n v log0 a log, inst F n v log0 = Ok (a, log) -> inst_post F v log0 a log.
Proof.
  induction n as [|n IH]; intros v log0 a log H; [discriminate|].
  destruct v as [z|s| |cp ia dk]; simpl in H.
  1-3: inversion H; subst; exists []; rewrite app_nil_r; repeat split; reflexivity.
  apply bind_Ok in H. destruct H as [[args log_a] [Ha H]]. simpl in H.
  apply (inst_args_post F (inst F n) IH) in Ha.
  destruct (import_obj F cp) as [[k|f|]|] eqn:E; try discriminate.
  - eapply construct_post; [| |exact Ha|exact H].
    + unfold target. rewrite E. reflexivity.
    + eapply import_cls_find. exact E.
  - destruct (bind_ok (f_params f) false _); [|discriminate].
    destruct (construct_ok _ _ _ _ _ _ H) as [k [Hf _]].
    eapply construct_post; [| |exact Ha|exact H].
    + unfold target. rewrite E, Hf. reflexivity.
    + exact Hf.
Qed.

(* the top-level statement: from an empty log *)
Lemma inst_exact F n v a log :
  inst F n v [] = Ok (a, log) ->
  length log = nodes v /\ backward 0 log = true /\ arg_tree (trees log) a = denote F v.
Proof.
  intro H. apply inst_sound in H. destruct H as [ext [-> [L [_ [W T]]]]]. simpl in *.
  split; [exact L|]. split; [exact W|]. apply T. reflexivity.
Qed.

(* ---------- Part III: an accepted, instantiable configuration does not fail ---------------------- *)
Fixpoint depth (v : value) {struct v} : nat :=
  match v with
  | VSpec _ ia _ => S (fold_right (fun kv a => Nat.max (depth (snd kv)) a) 0 ia)
  | _ => 0
  end.

Lemma depth_child (k : str) (x : value) (ia : list (str * value)) : In (k, x) ia -> depth x <= fold_right (fun (kv : str * value) a => Nat.max (depth (snd kv)) a) 0 ia.
Proof.
  induction ia as [|kv ia IH]; simpl; [tauto|]. intros [->|H]; simpl; [lia|]. specialize (IH H). lia.
Qed.

Lemma inst_args_complete rec ia :
  (forall kv, In kv ia -> forall log, exists a log', rec (snd kv) log = Ok (a, log')) ->
  forall log0, exists args log, inst_args rec ia log0 = Ok (args, log) /\ map fst args = map fst ia.
Proof.
  induction ia as [|[k v] ia IH]; simpl; intros H log0.
  - exists [], log0. split; reflexivity.
  - destruct (H (k, v) (or_introl eq_refl) log0) as [a [log1 E1]]. simpl in E1. rewrite E1, bind_ret. simpl.
    destruct (IH (fun (kv : str * value) Hin => H kv (or_intror Hin)) log1) as [args [log2 [E2 K]]]. rewrite E2, bind_ret. simpl.
    exists ((k, a) :: args), log2. split; [reflexivity|]. simpl. rewrite K. reflexivity.
Qed.

Lemma ahas_keys {A B} k (a : list (str * A)) (b : list (str * B)) :
  map fst a = map fst b -> ahas k a = ahas k b.
Proof.
  unfold ahas. revert b. induction a as [|[k1 v1] a IH]; destruct b as [|[k2 v2] b]; simpl; try discriminate.
  - reflexivity.
  - intro H. inversion H; subst. destruct (str_eqb k k2); [reflexivity|]. apply IH. assumption.
Qed.

Lemma ahas_aupdate {A} k (new : list (str * A)) : forall base, ahas k base = true -> ahas k (aupdate base new) = true.
Proof.
  unfold aupdate. induction new as [|[k' v] new IH]; simpl; intros base H; [exact H|].
  apply IH. apply ahas_aset. exact H.
Qed.

Lemma aupdate_keys {A} (new : list (str * A)) : forall base kv,
  In kv (aupdate base new) -> In (fst kv) (map fst base) \/ In (fst kv) (map fst new).
Proof.
  unfold aupdate. induction new as [|[k v] new IH]; simpl; intros base kv H.
  - left. apply in_map. exact H.
  - apply IH in H. destruct H as [H|H]; [|right; right; exact H].
    apply in_map_iff in H. destruct H as [kv' [E H]]. apply aset_In in H. destruct H as [->|H].
    + right. left. simpl in E. exact E.
    + left. rewrite <- E. apply in_map. exact H.
Qed.

Lemma ia_val_param F ps ia key :
  forallb (ia_val F ps) ia = true -> In key (map fst ia) -> exists p, find_param ps key = Some p.
Proof.
  intros H Hin. apply in_map_iff in Hin. destruct Hin as [kv [<- Hin]].
  rewrite forallb_forall in H. specialize (H kv Hin). unfold ia_val in H.
  destruct (find_param ps (fst kv)) as [p|]; [eauto|discriminate].
Qed.

Lemma inst_complete F : fam_wf F = true ->
  forall n v base log0, depth v < n ->
    valid F base v = true -> instantiable F v = true -> dk_accepted F v = true ->
    exists a log, inst F n v log0 = Ok (a, log).
Proof.
  intros Hwf. induction n as [|n IH]; intros v base log0 Hd Hv Hi Hk; [lia|].
  destruct v as [z|s| |cp ia dk]; try discriminate.
  rewrite valid_eq in Hv. simpl in Hi, Hk, Hd.
  destruct (target F cp) as [[k ps]|] eqn:Ht; [|discriminate].
  rewrite !andb_true_iff in Hv. destruct Hv as [[[Hs Hia] Hreq] _].
  rewrite andb_true_iff, negb_true_iff in Hi. destruct Hi as [Hab Hic].
  (* the children *)
  assert (Hch : forall kv, In kv ia -> forall log, exists a log', inst F n (snd kv) log = Ok (a, log')).
  { intros [key x] Hin log. simpl.
    assert (Dx : depth x < n). { pose proof (depth_child _ _ _ Hin). lia. }
    rewrite forallb_forall in Hia, Hic. specialize (Hia _ Hin). specialize (Hic _ Hin). simpl in Hic.
    assert (Kx : dk_accepted F x = true).
    { destruct (import_obj F cp) as [[k0|f0|]|]; try discriminate;
        apply andb_true_iff in Hk; destruct Hk as [_ Hk]; rewrite forallb_forall in Hk; exact (Hk _ Hin). }
    destruct x as [z|s| |cp' ia' dk'].
    - destruct n; [lia|]. eexists _, _. reflexivity.
    - destruct n; [lia|]. eexists _, _. reflexivity.
    - destruct n; [lia|]. eexists _, _. reflexivity.
    - unfold ia_val in Hia. simpl in Hia. destruct (find_param ps key) as [p|]; [|discriminate].
      unfold vty in Hia. destruct (p_ty p) as [| |c|c]; try discriminate; eapply IH; eassumption. }
  destruct (inst_args_complete (inst F n) ia Hch log0) as [args [log1 [Ea Ka]]].
  simpl. rewrite Ea, bind_ret. simpl.
  set (kw := aupdate args (map (fun kv => (fst kv, arg_of_simple (snd kv))) dk)).
  assert (Hreq' : forall p, In p ps -> p_def p = None -> ahas (p_name p) kw = true).
  { intros p Hp Hn. rewrite forallb_forall in Hreq. specialize (Hreq p Hp). rewrite Hn in Hreq.
    apply ahas_aupdate. rewrite (ahas_keys _ args ia Ka). exact Hreq. }
  unfold target in Ht. destruct (import_obj F cp) as [[k0|f|]|] eqn:E; try discriminate.
  - inversion Ht; subst k0 ps. clear Ht. apply andb_true_iff in Hk. destruct Hk as [Hvk _].
    unfold construct. rewrite (import_cls_find _ _ _ E), Hab.
    assert (B : bind_ok (c_params k) (c_varkw k) kw = true).
    { unfold bind_ok. apply andb_true_iff. split.
      - rewrite forallb_forall. intros ka Hin. apply aupdate_keys in Hin. destruct Hin as [Hin|Hin].
        + rewrite Ka in Hin. destruct (ia_val_param _ _ _ _ Hia Hin) as [p ->]. apply orb_true_r.
        + destruct dk as [|d dk]; [destruct Hin|]. simpl in Hvk. rewrite orb_false_r in Hvk. rewrite Hvk. reflexivity.
      - rewrite forallb_forall. intros p Hp. destruct (p_def p) eqn:D; [reflexivity|]. apply Hreq'; assumption. }
    rewrite B. eexists _, _. reflexivity.
  - destruct (find_cls F (f_ret f)) as [k0|] eqn:Fr; [|discriminate]. inversion Ht; subst k0 ps. clear Ht.
    apply andb_true_iff in Hk. destruct Hk as [Hdk _]. destruct dk as [|d dk]; [|discriminate].
    assert (Ekw : kw = args) by reflexivity.
    assert (Hf : In f (fam_funcs F)).
    { apply import_obj_lookup in E. destruct E as [nm L]. unfold lookup_name in L.
      destruct (find_cls F nm); [discriminate|]. destruct (find_fun F nm) as [f'|] eqn:Ff.
      - inversion L; subst f'. apply find_fun_some in Ff. tauto.
      - destruct (mem_str nm (fam_consts F)); discriminate. }
    destruct (fam_wf_fun F f Hwf Hf) as [_ Hok]. unfold func_ok in Hok. rewrite Fr in Hok.
    apply andb_true_iff in Hok. destruct Hok as [Ok1 Ok2].
    assert (B1 : bind_ok (f_params f) false kw = true).
    { unfold bind_ok. apply andb_true_iff. split.
      - rewrite forallb_forall. intros ka Hin. rewrite Ekw in Hin. simpl.
        assert (Hin' : In (fst ka) (map fst ia)). { rewrite <- Ka. apply in_map. exact Hin. }
        destruct (ia_val_param _ _ _ _ Hia Hin') as [p ->]. reflexivity.
      - rewrite forallb_forall. intros p Hp. destruct (p_def p) eqn:D; [reflexivity|]. apply Hreq'; assumption. }
    rewrite B1. unfold construct. rewrite Fr, Hab.
    assert (B2 : bind_ok (c_params k) (c_varkw k) kw = true).
    { unfold bind_ok. apply andb_true_iff. split.
      - rewrite forallb_forall. intros ka Hin. rewrite Ekw in Hin.
        assert (Hin' : In (fst ka) (map fst ia)). { rewrite <- Ka. apply in_map. exact Hin. }
        destruct (ia_val_param _ _ _ _ Hia Hin') as [p Fp].
        destruct (find_param_some _ _ _ Fp) as [Hn Hp]. rewrite forallb_forall in Ok1.
        specialize (Ok1 p Hp). rewrite Hn in Ok1. exact Ok1.
      - rewrite forallb_forall. intros q Hq. destruct (p_def q) eqn:D; [reflexivity|].
        rewrite forallb_forall in Ok2. specialize (Ok2 q Hq). rewrite D in Ok2.
        destruct (find_param (f_params f) (p_name q)) as [p'|] eqn:Fp; [|discriminate].
        destruct (p_def p') eqn:D'; [discriminate|].
        destruct (find_param_some _ _ _ Fp) as [Hn Hp]. rewrite <- Hn. apply Hreq'; assumption. }
    rewrite B2. eexists _, _. reflexivity.
Qed.

Lemma accepted_builds F rs base dflt steps v n :
  fam_wf F = true -> parse_with F rs base dflt steps = Ok v ->
  instantiable F v = true -> dk_accepted F v = true -> depth v < n ->
  exists a log, inst F n v [] = Ok (a, log) /\
                length log = nodes v /\ backward 0 log = true /\ arg_tree (trees log) a = denote F v.
Proof.
  intros Hwf Hp Hi Hk Hd. apply parse_with_valid in Hp; [|exact Hwf].
  destruct (inst_complete F Hwf n v base [] Hd Hp Hi Hk) as [a [log E]].
  exists a, log. split; [exact E|]. eapply inst_exact. exact E.
Qed.

(* ---------- Part IV: short forms, one argv item at a time ----------------------------------------- *)
(* the input of one adapt call only matters through as_ns and the resolved class path *)
Lemma adapt_ext F rs n m base prev i i' :
  (forall pcp, match as_ns i pcp, as_ns i' pcp with
               | Ok q, Ok q' => resolve_name F base (q_cp q) = resolve_name F base (q_cp q')
                                /\ q_ia q = q_ia q' /\ q_dk q = q_dk q'
               | Err e, Err e' => e = e'
               | _, _ => False
               end) ->
  adapt F rs n m base prev i = adapt F rs n m base prev i'.
Proof.
  intro H. destruct n as [|n]; [reflexivity|]. rewrite !adapt_unfold.
  specialize (H (prev_class_path (prev1_of F base prev))).
  destruct (as_ns i _) as [q|e]; destruct (as_ns i' _) as [q'|e']; try contradiction.
  - destruct H as [H1 [H2 H3]]. unfold bind at 1 3. rewrite H1, H2, H3. reflexivity.
  - subst e'. reflexivity.
Qed.

Lemma resolve_short_same F base s : resolve_name F base (resolve_short F base s) = resolve_name F base s.
Proof.
  unfold resolve_short. destruct (has_dot s) eqn:D; [reflexivity|].
  unfold resolve_name at 2. rewrite D.
  destruct (filter _ (fam_classes F)) as [|k [|k2 l]] eqn:E.
  - unfold resolve_name. rewrite D, E. reflexivity.
  - destruct (ambiguous F base s) eqn:A.
    + unfold resolve_name. rewrite D, E, A. reflexivity.
    + unfold resolve_name. rewrite path_of_has_dot. reflexivity.
  - unfold resolve_name. rewrite D, E. reflexivity.
Qed.

(* class name only:  --x=Name   ~   --x={"class_path": "<resolved path>"} *)
Lemma short_name_only F rs n m base prev s :
  adapt F rs n m base prev (IRaw (RStr s))
  = adapt F rs n m base prev (IRaw (RDict [(s_class_path, RStr (resolve_short F base s))])).
Proof.
  apply adapt_ext. intro pcp. simpl. repeat split. symmetry. apply resolve_short_same.
Qed.

Lemma spec_keys_only_aset v d :
  spec_keys_only d = true -> spec_keys_only (aset s_class_path v d) = true.
Proof.
  unfold spec_keys_only. induction d as [|[k r] d IH]; simpl; [reflexivity|].
  rewrite andb_true_iff. intros [H1 H2]. destruct (str_eqb s_class_path k) eqn:E; simpl.
  - rewrite H2. reflexivity.
  - rewrite H1. apply IH. exact H2.
Qed.

(* init_args / dict_kwargs without class_path:  {"init_args": ..}  ~  {"class_path": <current>, "init_args": ..} *)
Lemma short_no_class_path F rs n m base prev d cp :
  prev_class_path (prev1_of F base prev) = Some cp ->
  aget s_class_path d = None -> spec_keys_only d = true ->
  ahas s_init_args d || ahas s_dict_kwargs d = true ->
  adapt F rs n m base prev (IRaw (RDict d))
  = adapt F rs n m base prev (IRaw (RDict ((s_class_path, RStr cp) :: d))).
Proof.
  intros Hp Hc Hk Hi. destruct n as [|n]; [reflexivity|]. rewrite !adapt_unfold, Hp.
  assert (E : as_ns (IRaw (RDict d)) (Some cp) = as_ns (IRaw (RDict ((s_class_path, RStr cp) :: d))) (Some cp)).
  { simpl. unfold as_ns_dict. unfold is_spec_dict at 1. unfold ahas at 1. rewrite Hc. simpl andb. cbv iota.
    rewrite Hi. unfold is_spec_dict. unfold ahas at 1 3. rewrite aget_aset_same. simpl aget at 1.
    rewrite (spec_keys_only_aset _ _ Hk). unfold spec_keys_only at 1. simpl forallb.
    fold (spec_keys_only d). rewrite Hk. simpl.
    unfold proto_of_spec_dict. rewrite aget_aset_same. simpl aget at 2.
    rewrite !aget_aset_other by reflexivity. simpl. reflexivity. }
  rewrite E. reflexivity.
Qed.

(* bare dict:  {"k": v}  ~  {"class_path": <current>, "init_args": {"k": v}} *)
Lemma short_bare_dict F rs n m base prev d cp :
  prev_class_path (prev1_of F base prev) = Some cp ->
  aget s_class_path d = None -> ahas s_init_args d = false -> ahas s_dict_kwargs d = false ->
  adapt F rs n m base prev (IRaw (RDict d))
  = adapt F rs n m base prev (IRaw (RDict [(s_class_path, RStr cp); (s_init_args, RDict d)])).
Proof.
  intros Hp Hc Hi Hk. destruct n as [|n]; [reflexivity|]. rewrite !adapt_unfold, Hp.
  assert (E : as_ns (IRaw (RDict d)) (Some cp)
              = as_ns (IRaw (RDict [(s_class_path, RStr cp); (s_init_args, RDict d)])) (Some cp)).
  { simpl. unfold as_ns_dict at 1. unfold is_spec_dict at 1. unfold ahas at 1. rewrite Hc. simpl andb. cbv iota.
    rewrite Hi, Hk. reflexivity. }
  rewrite E. reflexivity.
Qed.

(* dotted sub-option one level down:  --x.k=v  ~  --x={"k": v}  (and --x.init_args.k=v is the same item) *)
Lemma short_dotted_one_level F rs n m base prev k r :
  adapt F rs n m base prev (INested [k] r) = adapt F rs n m base prev (IRaw (RDict [(k, r)])).
Proof. destruct n as [|n]; [reflexivity|]. rewrite !adapt_unfold. reflexivity. Qed.

(* explicit dict whose class_path is a bare name:  {"class_path": "Name", ...}  ~  {"class_path": "<resolved>", ...} *)
Definition repl_cp (p : str) (d : list (str * raw)) : list (str * raw) :=
  map (fun kv => if str_eqb (fst kv) s_class_path then (fst kv, RStr p) else kv) d.

Lemma aget_repl_cp_other p k d : str_eqb k s_class_path = false -> aget k (repl_cp p d) = aget k d.
Proof.
  intro N. induction d as [|[k' r] d IH]; simpl; [reflexivity|].
  destruct (str_eqb k' s_class_path) eqn:E; simpl.
  - apply str_eqb_spec in E. subst k'. rewrite N. exact IH.
  - destruct (str_eqb k k'); [reflexivity|exact IH].
Qed.

Lemma aget_repl_cp_same p d :
  aget s_class_path (repl_cp p d) = match aget s_class_path d with Some _ => Some (RStr p) | None => None end.
Proof.
  induction d as [|[k' r] d IH]; simpl; [reflexivity|].
  destruct (str_eqb k' s_class_path) eqn:E; simpl.
  - apply str_eqb_spec in E. subst k'. reflexivity.
  - destruct (str_eqb s_class_path k') eqn:E2.
    + apply str_eqb_spec in E2. subst k'. rewrite str_eqb_refl in E. discriminate.
    + exact IH.
Qed.

Lemma spec_keys_only_repl p d : spec_keys_only (repl_cp p d) = spec_keys_only d.
Proof.
  unfold spec_keys_only. induction d as [|[k r] d IH]; simpl; [reflexivity|].
  destruct (str_eqb k s_class_path) eqn:E; simpl; rewrite ?E; simpl; rewrite IH; reflexivity.
Qed.

Lemma short_name_in_dict F rs n m base prev d s :
  is_spec_dict d = true -> aget s_class_path d = Some (RStr s) ->
  adapt F rs n m base prev (IRaw (RDict d))
  = adapt F rs n m base prev (IRaw (RDict (repl_cp (resolve_short F base s) d))).
Proof.
  intros Hs Hc. apply adapt_ext. intro pcp. simpl. unfold as_ns_dict.
  assert (Hs' : is_spec_dict (repl_cp (resolve_short F base s) d) = true).
  { unfold is_spec_dict in *. unfold ahas in *. rewrite aget_repl_cp_same, spec_keys_only_repl, Hc.
    rewrite Hc in Hs. exact Hs. }
  rewrite Hs, Hs'. unfold proto_of_spec_dict.
  rewrite aget_repl_cp_same, !aget_repl_cp_other by reflexivity. rewrite Hc.
  destruct (aget s_init_args d) as [[]|]; destruct (aget s_dict_kwargs d) as [[]|]; simpl;
    try reflexivity; repeat split; symmetry; apply resolve_short_same.
Qed.

(* ---------- a whole argv: every shallow short form replaced by its explicit form ------------------- *)
Definition explicit_dict (F : family) (base : str) (pcp : option str) (d : list (str * raw)) : input :=
  match aget s_class_path d with
  | Some (RStr s) => if is_spec_dict d then IRaw (RDict (repl_cp (resolve_short F base s) d)) else IRaw (RDict d)
  | Some _ => IRaw (RDict d)
  | None =>
      match pcp with
      | Some cp =>
          if ahas s_init_args d || ahas s_dict_kwargs d
          then (if spec_keys_only d then IRaw (RDict ((s_class_path, RStr cp) :: d)) else IRaw (RDict d))
          else IRaw (RDict [(s_class_path, RStr cp); (s_init_args, RDict d)])
      | None => IRaw (RDict d)
      end
  end.

(* the explicit form of one argv item, given the value the argument holds when the item is parsed *)
Definition explicit1 (F : family) (base : str) (cfg : option value) (i : input) : input :=
  let pcp := prev_class_path (prev1_of F base cfg) in
  match i with
  | IRaw (RStr s) => IRaw (RDict [(s_class_path, RStr (resolve_short F base s))])
  | IRaw (RDict d) => explicit_dict F base pcp d
  | INested p r => match strip_ia p with
                   | [k] => explicit_dict F base pcp [(k, r)]
                   | _ => i                       (* deeper dotted keys are left as they are *)
                   end
  | _ => i
  end.

Definition norm_step (i : input) : input :=
  match i with INested p r => INested (strip_ia p) r | _ => i end.

Lemma explicit_dict_same F rs n m base prev d :
  adapt F rs n m base prev (IRaw (RDict d))
  = adapt F rs n m base prev (explicit_dict F base (prev_class_path (prev1_of F base prev)) d).
Proof.
  unfold explicit_dict. destruct (aget s_class_path d) as [[z|s| |kvs]|] eqn:Hc; try reflexivity.
  - destruct (is_spec_dict d) eqn:Hs; [|reflexivity]. apply short_name_in_dict; assumption.
  - destruct (prev_class_path (prev1_of F base prev)) as [cp|] eqn:Hp; [|reflexivity].
    destruct (ahas s_init_args d || ahas s_dict_kwargs d) eqn:Hi.
    + destruct (spec_keys_only d) eqn:Hk; [|reflexivity]. apply short_no_class_path; assumption.
    + apply orb_false_iff in Hi. destruct Hi. apply short_bare_dict; assumption.
Qed.

Lemma explicit1_same F rs n m base cfg i :
  adapt F rs n m base cfg (norm_step (explicit1 F base cfg i)) = adapt F rs n m base cfg (norm_step i).
Proof.
  destruct i as [r|p r]; simpl.
  - destruct r as [z|s| |d]; try reflexivity.
    + simpl. symmetry. apply short_name_only.
    + assert (E : norm_step (explicit_dict F base (prev_class_path (prev1_of F base cfg)) d)
                  = explicit_dict F base (prev_class_path (prev1_of F base cfg)) d).
      { unfold explicit_dict. repeat (match goal with |- context [match ?x with _ => _ end] => destruct x end);
          reflexivity. }
      rewrite E. symmetry. apply explicit_dict_same.
  - destruct (strip_ia p) as [|k [|k2 rest]] eqn:Es; simpl; rewrite ?Es; try reflexivity.
    assert (E : norm_step (explicit_dict F base (prev_class_path (prev1_of F base cfg)) [(k, r)])
                = explicit_dict F base (prev_class_path (prev1_of F base cfg)) [(k, r)]).
    { unfold explicit_dict. repeat (match goal with |- context [match ?x with _ => _ end] => destruct x end);
        reflexivity. }
    rewrite E, <- explicit_dict_same. symmetry. apply short_dotted_one_level.
Qed.

Local Opaque FUEL.

Fixpoint explicit_steps (F : family) (rs : raw -> raw) (base : str) (cfg : option value) (steps : list input)
  : list input :=
  match steps with
  | [] => []
  | i :: rest =>
      explicit1 F base cfg i ::
      match adapt F rs FUEL lenient base cfg (norm_step i) with
      | Ok v => explicit_steps F rs base (Some (merge_val cfg v)) rest
      | Err _ => rest
      end
  end.

Lemma apply_steps_eq F rs base cfg steps :
  apply_steps F rs base cfg steps =
  match steps with
  | [] => Ok cfg
  | i :: rest => v <- adapt F rs FUEL lenient base cfg (norm_step i) ;;
                 apply_steps F rs base (Some (merge_val cfg v)) rest
  end.
Proof. destruct steps as [|[r|p r] rest]; reflexivity. Qed.

Lemma apply_steps_explicit F rs base : forall steps cfg,
  apply_steps F rs base cfg (explicit_steps F rs base cfg steps) = apply_steps F rs base cfg steps.
Proof.
  induction steps as [|i rest IH]; intro cfg; [reflexivity|].
  rewrite (apply_steps_eq F rs base cfg (i :: rest)). simpl explicit_steps.
  rewrite apply_steps_eq. rewrite explicit1_same.
  destruct (adapt F rs FUEL lenient base cfg (norm_step i)) as [v|e]; [|reflexivity].
  rewrite !bind_ret. apply IH.
Qed.

Definition explicit_argv (F : family) (rs : raw -> raw) (base : str) (dflt : option value) (steps : list input)
  : list input :=
  match expand_default F rs base dflt with
  | Ok cfg0 => explicit_steps F rs base cfg0 steps
  | Err _ => steps
  end.

Lemma run_explicit F rs base dflt steps :
  run_with F rs base dflt (explicit_argv F rs base dflt steps) = run_with F rs base dflt steps.
Proof.
  unfold run_with, parse_with, explicit_argv.
  destruct (expand_default F rs base dflt) as [cfg0|e]; [|reflexivity].
  rewrite !bind_ret. rewrite apply_steps_explicit. reflexivity.
Qed.

(* ---------- bare class names: accepted only if exactly one listed class carries the name --------------------
   `listed` = get_all_subclass_paths restricted to one name: the non-abstract, public subclasses of the declared type
   called nm.  A bare name (no ".") that the subclass branch accepts names exactly one listed class and is not
   ambiguous (no second module defines a homonym below the declared type); in every other case - no candidate, two
   candidates in the family, a homonym elsewhere - the item is rejected: nothing is picked silently. *)
Definition listed (F : family) (base nm : str) : list cls :=
  filter (fun k => str_eqb (c_name k) nm && is_subclass F (c_name k) base
                   && negb (c_abstract k) && negb (is_private (path_of F (c_name k)))) (fam_classes F).

Lemma resolve_name_bare F base nm cp :
  has_dot nm = false -> resolve_name F base nm = Ok cp ->
  (listed F base nm = [] /\ cp = nm) \/
  (exists k, listed F base nm = [k] /\ ambiguous F base nm = false /\ cp = path_of F (c_name k)).
Proof.
  intros D H. unfold resolve_name in H. rewrite D in H. unfold listed.
  destruct (filter _ (fam_classes F)) as [|k [|k2 l]].
  - left. inversion H. split; reflexivity.
  - right. destruct (ambiguous F base nm); [discriminate|]. inversion H. exists k. repeat split.
  - discriminate.
Qed.

Lemma check_import_bare F base nm cps : has_dot nm = false -> check_import F base nm = Ok cps -> False.
Proof.
  intros D H. unfold check_import in H. destruct (import_obj F nm) as [o|] eqn:I; [|discriminate].
  apply import_obj_has_dot in I. congruence.
Qed.

Lemma bare_name_unique F rs n m base prev nm v :
  has_dot nm = false ->
  adapt F rs n m base prev (IRaw (RStr nm)) = Ok v ->
  exists k, listed F base nm = [k] /\ ambiguous F base nm = false.
Proof.
  intros D H. destruct n as [|n]; [discriminate|].
  rewrite adapt_unfold in H. simpl as_ns in H. rewrite bind_ret in H. simpl q_cp in H.
  apply bind_Ok in H. destruct H as [cp1 [Hc H]].
  apply bind_Ok in H. destruct H as [cps [Hi _]].
  destruct (resolve_name_bare F base nm cp1 D Hc) as [[_ ->]|[k [E [A _]]]].
  - exfalso. eapply check_import_bare; eassumption.
  - exists k. split; assumption.
Qed.

(* the same for a class name inside a dict: {"class_path": "Name", ...} *)
Lemma bare_name_in_dict_unique F rs n m base prev d nm v :
  has_dot nm = false -> is_spec_dict d = true -> aget s_class_path d = Some (RStr nm) ->
  adapt F rs n m base prev (IRaw (RDict d)) = Ok v ->
  exists k, listed F base nm = [k] /\ ambiguous F base nm = false.
Proof.
  intros D Sd G H. destruct n as [|n]; [discriminate|].
  rewrite adapt_unfold in H. simpl as_ns in H. unfold as_ns_dict in H. rewrite Sd in H.
  apply bind_Ok in H. destruct H as [q [Hq H]].
  assert (Q : q_cp q = nm).
  { unfold proto_of_spec_dict in Hq. rewrite G in Hq.
    destruct (aget s_init_args d) as [[]|]; destruct (aget s_dict_kwargs d) as [[]|];
      try discriminate; inversion Hq; reflexivity. }
  rewrite Q in H.
  apply bind_Ok in H. destruct H as [cp1 [Hc H]].
  apply bind_Ok in H. destruct H as [cps [Hi _]].
  destruct (resolve_name_bare F base nm cp1 D Hc) as [[_ ->]|[k [E [A _]]]].
  - exfalso. eapply check_import_bare; eassumption.
  - exists k. split; assumption.
Qed.

Lemma apply_steps_app F rs base : forall a b cfg,
  apply_steps F rs base cfg (a ++ b) = (c <- apply_steps F rs base cfg a ;; apply_steps F rs base c b).
Proof.
  induction a as [|i a IH]; intros b cfg; [simpl app; rewrite (apply_steps_eq F rs base cfg []), bind_ret; reflexivity|].
  simpl app. rewrite (apply_steps_eq F rs base cfg (i :: a ++ b)), (apply_steps_eq F rs base cfg (i :: a)).
  destruct (adapt F rs FUEL lenient base cfg (norm_step i)) as [v|e]; [|reflexivity].
  rewrite !bind_ret. apply IH.
Qed.

(* whole runs: whatever default and earlier items, an item that is an ambiguous (or otherwise not uniquely listed) bare
   class name makes the parse fail *)
Lemma not_unique_rejected F rs base dflt steps nm :
  has_dot nm = false ->
  (forall k, listed F base nm = [k] -> ambiguous F base nm = true) ->
  run_with F rs base dflt (steps ++ [IRaw (RStr nm)]) = ORej.
Proof.
  intros D U. unfold run_with, parse_with.
  destruct (expand_default F rs base dflt) as [cfg0|e]; [|reflexivity].
  rewrite bind_ret, apply_steps_app.
  destruct (apply_steps F rs base cfg0 steps) as [c|e]; [|reflexivity].
  rewrite bind_ret, (apply_steps_eq F rs base c [IRaw (RStr nm)]). simpl norm_step.
  destruct (adapt F rs FUEL lenient base c (IRaw (RStr nm))) as [v|e] eqn:A; [|reflexivity].
  exfalso. destruct (bare_name_unique _ _ _ _ _ _ _ _ D A) as [k [E N]].
  rewrite (U k E) in N. discriminate.
Qed.

(* a family with a homonym: module jvfamy: class Base(a: int = 1); class Sub(Base)(a: int = 2); class Deep(Sub)();
   module jvfamy_alt: class Sub(Base)(a: int = 2) *)
Definition y_Base : str := [66;97;115;101]%N.
Definition y_Sub : str := [83;117;98]%N.
Definition y_Deep : str := [68;101;101;112]%N.
Definition y_fam : family :=
  {| fam_mod := [106;118;102;97;109;121]%N;
     fam_classes :=
       [ {| c_name := y_Base; c_parents := []; c_abstract := false; c_varkw := false;
            c_params := [ {| p_name := [97]%N; p_ty := PInt; p_def := Some (VInt 1) |} ] |};
         {| c_name := y_Sub; c_parents := [y_Base]; c_abstract := false; c_varkw := false;
            c_params := [ {| p_name := [97]%N; p_ty := PInt; p_def := Some (VInt 2) |} ] |};
         {| c_name := y_Deep; c_parents := [y_Sub]; c_abstract := false; c_varkw := false; c_params := [] |} ];
     fam_funcs := []; fam_consts := []; fam_subs := []; fam_exports := []; fam_shadows := [y_Sub] |}.

(* C15 — proofs about strip_link_target_keys (dump / save), the full no-chain statement of _initial_input_checks,
   determinism of a link (same sources => same target: what re-parsing a dump relies on), and the repaired
   behaviour (fixes/C15-*.patch). *)
From JV Require Import Lib.Base Lib.C15Val Model.C15Links Proofs.C15Proofs.

(* ------------------------------------------------------------------ Namespace.pop *)
Lemma get_cons_map s k m : get (VMap m) (s :: k) = match alookup s m with Some c => get c k | None => None end.
Proof. reflexivity. Qed.

Lemma get_pop_same k : forall v, k <> [] -> get (pop v k) k = None.
Proof.
  induction k as [|s k IH]; intros v N; [congruence|].
  destruct v as [| | | |m]; try reflexivity.
  destruct k as [|s2 k2].
  - simpl. rewrite alookup_aremove_same. reflexivity.
  - change (pop (VMap m) (s :: s2 :: k2))
      with (match alookup s m with Some c => VMap (aset s (pop c (s2 :: k2)) m) | None => VMap m end).
    destruct (alookup s m) as [c|] eqn:A.
    + rewrite get_cons_map. rewrite alookup_aset_same. apply IH. discriminate.
    + rewrite get_cons_map. rewrite A. reflexivity.
Qed.

Lemma pop_cons_map s k m :
  pop (VMap m) (s :: k) =
  match k with
  | [] => VMap (aremove s m)
  | _ :: _ => match alookup s m with Some c => VMap (aset s (pop c k) m) | None => VMap m end
  end.
Proof. destruct k; reflexivity. Qed.

(* pop never makes a key appear *)
Lemma get_pop_none k' : forall v k, get v k = None -> get (pop v k') k = None.
Proof.
  induction k' as [|s r IH]; intros v k H; [exact H|].
  destruct v as [| | | |m]; try exact H.
  destruct k as [|t k2]; [discriminate|].
  rewrite pop_cons_map. rewrite get_cons_map in H.
  destruct r as [|s2 r2].
  - rewrite get_cons_map. destruct (str_eqb s t) eqn:E.
    + apply str_eqb_spec in E. subst t. rewrite alookup_aremove_same. reflexivity.
    + rewrite alookup_aremove_other by exact E. exact H.
  - destruct (alookup s m) as [c|] eqn:A.
    + rewrite get_cons_map. destruct (str_eqb s t) eqn:E.
      * apply str_eqb_spec in E. subst t. rewrite alookup_aset_same. rewrite A in H. apply IH. exact H.
      * rewrite alookup_aset_other by exact E. exact H.
    + rewrite get_cons_map. exact H.
Qed.

(* pop leaves every key untouched that is neither inside nor above the popped one *)
Lemma get_pop_incomp k' : forall k v, comparable k' k = false -> get (pop v k') k = get v k.
Proof.
  induction k' as [|s r IH]; intros k v H.
  - unfold comparable in H. simpl in H. discriminate.
  - destruct k as [|t k2].
    + unfold comparable in H. simpl in H. try rewrite orb_true_r in H. discriminate.
    + destruct v as [| | | |m]; try reflexivity.
      rewrite pop_cons_map. unfold comparable in H. simpl in H.
      destruct (str_eqb s t) eqn:E.
      * apply str_eqb_spec in E. subst t. rewrite str_eqb_refl in H. simpl in H.
        assert (C : comparable r k2 = false) by exact H.
        destruct r as [|s2 r2]; [unfold comparable in C; simpl in C; discriminate|].
        destruct (alookup s m) as [c|] eqn:A; [|reflexivity].
        rewrite !get_cons_map. rewrite alookup_aset_same, A. apply IH. exact C.
      * destruct r as [|s2 r2].
        -- rewrite !get_cons_map. rewrite alookup_aremove_other by exact E. reflexivity.
        -- destruct (alookup s m) as [c|] eqn:A; [|reflexivity].
           rewrite !get_cons_map. rewrite alookup_aset_other by exact E. reflexivity.
Qed.

(* ------------------------------------------------------------------ del_target_key *)
Lemma is_prefix_removelast t : is_prefix (removelast t) t = true.
Proof.
  induction t as [|x t IH]; [reflexivity|].
  destruct t as [|y t']; [reflexivity|].
  change (removelast (x :: y :: t')) with (x :: removelast (y :: t')).
  simpl is_prefix. rewrite str_eqb_refl. exact IH.
Qed.

Lemma removelast_nonempty (x y : str) t : removelast (x :: y :: t) <> [].
Proof. change (removelast (x :: y :: t)) with (x :: removelast (y :: t)). discriminate. Qed.

Lemma falsy_get_cons v s k : falsy v = true -> get v (s :: k) = None.
Proof. destruct v as [| z | st | l | m]; try reflexivity. destruct m; [reflexivity|discriminate]. Qed.

Lemma del_target_key_none cfg t x : get cfg x = None -> get (del_target_key cfg t) x = None.
Proof.
  intro H. unfold del_target_key.
  pose proof (get_pop_none t cfg x H) as H1.
  destruct t as [|a [|b t']]; try exact H1.
  destruct (get (pop cfg (a :: b :: t')) (removelast (a :: b :: t'))) as [v|]; [|exact H1].
  destruct (falsy v); [|exact H1]. apply get_pop_none. exact H1.
Qed.

Lemma del_target_key_same cfg t : t <> [] -> get (del_target_key cfg t) t = None.
Proof.
  intro N. unfold del_target_key.
  pose proof (get_pop_same t cfg N) as H1.
  destruct t as [|a [|b t']]; try exact H1.
  destruct (get (pop cfg (a :: b :: t')) (removelast (a :: b :: t'))) as [v|]; [|exact H1].
  destruct (falsy v); [|exact H1]. apply get_pop_none. exact H1.
Qed.

(* outside the target nothing changes: also the removal of the emptied parent group is invisible there *)
Lemma del_target_key_frame cfg t k : comparable t k = false -> get (del_target_key cfg t) k = get cfg k.
Proof.
  intro H. unfold del_target_key.
  pose proof (get_pop_incomp t k cfg H) as H1.
  destruct t as [|a [|b t']]; try exact H1.
  set (t := a :: b :: t') in *. set (cfg' := pop cfg t) in *.
  destruct (get cfg' (removelast t)) as [v|] eqn:G; [|exact H1].
  destruct (falsy v) eqn:F; [|exact H1].
  rewrite <- H1.
  destruct (comparable (removelast t) k) eqn:C.
  - unfold comparable in C. apply orb_true_iff in C. destruct C as [C|C].
    + pose proof (is_prefix_split _ _ C) as S.
      destruct (skipn (length (removelast t)) k) as [|x r] eqn:R.
      * rewrite app_nil_r in S. exfalso. unfold comparable in H.
        rewrite S in H. rewrite (is_prefix_removelast t) in H. rewrite orb_true_r in H. discriminate.
      * rewrite S. rewrite !get_app. rewrite G.
        rewrite (get_pop_same (removelast t) cfg' (removelast_nonempty a b t')).
        symmetry. apply falsy_get_cons. exact F.
    + exfalso. unfold comparable in H.
      rewrite (is_prefix_trans k (removelast t) t C (is_prefix_removelast t)) in H.
      rewrite orb_true_r in H. discriminate.
  - apply get_pop_incomp. exact C.
Qed.

Lemma fold_del_none ks : forall cfg x, get cfg x = None -> get (fold_left del_target_key ks cfg) x = None.
Proof.
  induction ks as [|k ks IH]; intros cfg x H; simpl; auto.
  apply IH. apply del_target_key_none. exact H.
Qed.

Lemma fold_del_in ks : forall cfg k, In k ks -> k <> [] -> get (fold_left del_target_key ks cfg) k = None.
Proof.
  induction ks as [|k0 ks IH]; intros cfg k Hin N; [destruct Hin|].
  simpl. destruct Hin as [->|Hin].
  - apply fold_del_none. apply del_target_key_same. exact N.
  - apply IH; auto.
Qed.

Lemma fold_del_frame ks : forall cfg k,
  (forall t, In t ks -> comparable t k = false) -> get (fold_left del_target_key ks cfg) k = get cfg k.
Proof.
  induction ks as [|k0 ks IH]; intros cfg k H; simpl; auto.
  rewrite IH by (intros t Ht; apply H; right; exact Ht).
  apply del_target_key_frame. apply H. left. reflexivity.
Qed.

(* ------------------------------------------------------------------ invariants of link_arguments, generically *)
Lemma add_links_inv (P : parser -> Prop) :
  (forall p l p', P p -> add_link p l = Ok p' -> P p') ->
  forall ls p, P p -> P (fst (add_links p ls)).
Proof.
  intros Step ls. induction ls as [|l ls IH]; intros p G; simpl; auto.
  destruct (add_link p l) as [p'|e] eqn:A.
  - specialize (IH p' (Step _ _ _ G A)). destruct (add_links p' ls). exact IH.
  - specialize (IH p G). destruct e; destruct (add_links p ls); exact IH.
Qed.

Lemma add_link_fixed_ok p l p' : add_link_fixed p l = Ok p' -> add_link p l = Ok p' /\ extra_checks (p_links p) l = true.
Proof. unfold add_link_fixed. destruct (extra_checks (p_links p) l); [auto|discriminate]. Qed.

Lemma add_links_fixed_inv (P : parser -> Prop) :
  (forall p l p', P p -> add_link_fixed p l = Ok p' -> P p') ->
  forall ls p, P p -> P (fst (add_links_fixed p ls)).
Proof.
  intros Step ls. induction ls as [|l ls IH]; intros p G; simpl; auto.
  destruct (add_link_fixed p l) as [p'|e] eqn:A.
  - specialize (IH p' (Step _ _ _ G A)). destruct (add_links_fixed p' ls). exact IH.
  - specialize (IH p G). destruct e; destruct (add_links_fixed p ls); exact IH.
Qed.

(* every action replaced by a link action carries the target of a registered link *)
Definition marks_sound (p : parser) : Prop :=
  forall d, In (d, true) (p_acts p) -> exists a, In a (p_links p) /\ al_tgt a = d_key d.

Lemma mark_linked_in acts k d :
  In (d, true) (mark_linked acts k) -> In (d, true) acts \/ d_key d = k.
Proof.
  induction acts as [|[d0 b] acts IH]; simpl; [tauto|].
  destruct (negb b && key_eqb (d_key d0) k) eqn:M; simpl.
  - intros [E|Hin]; [|left; right; exact Hin].
    inversion E; subst. right. apply andb_true_iff in M. destruct M as [_ M]. apply key_eqb_spec. exact M.
  - intros [E|Hin]; [left; left; exact E|].
    destruct (IH Hin) as [X|X]; [left; right; exact X|right; exact X].
Qed.

Lemma add_link_marks_sound p l p' : marks_sound p -> add_link p l = Ok p' -> marks_sound p'.
Proof.
  intros G H. unfold add_link in H.
  destruct (negb (init_checks (p_links p) l)); [discriminate|].
  destruct (mapM _ (l_src l)) as [srcs|]; [|discriminate].
  destruct (find_parent (p_acts p) (l_tgt l)) as [d|] eqn:FP; [|discriminate].
  destruct (key_eqb (d_key d) (l_tgt l)) eqn:K; [|destruct (is_class_kind (d_kind d)); [|discriminate]]; swap 1 2.
  - destruct (_ && _); [|discriminate]. inversion H; subst; clear H. simpl.
    intros d0 Hd. destruct (G d0 Hd) as [a [Ha Ta]]. exists a. split; [apply in_or_app; left; exact Ha|exact Ta].
  - inversion H; subst; clear H. simpl. intros d0 Hd.
    apply mark_linked_in in Hd. destruct Hd as [Hd|Hd].
    + destruct (G d0 Hd) as [a [Ha Ta]]. exists a. split; [apply in_or_app; left; exact Ha|exact Ta].
    + eexists. split; [apply in_or_app; right; left; reflexivity|]. unfold al_tgt. simpl. symmetry. exact Hd.
Qed.

Lemma find_act_in acts k d b : find_act acts k = Some (d, b) -> In (d, b) acts /\ d_key d = k.
Proof.
  unfold find_act. intro H. apply find_some in H. destruct H as [H1 H2]. split; [exact H1|].
  apply key_eqb_spec. exact H2.
Qed.

(* ------------------------------------------------------------------ strip_link_target_keys *)
Definition strip_keys (p : parser) : list key :=
  map (fun a => d_key (fst a)) (filter (fun a => snd a) (p_acts p))
  ++ flat_map (fun a => match al_kind a with TgtInit _ _ => [al_tgt a] | TgtPlain => [] end) (p_links p).

Lemma strip_unfold p cfg : strip p cfg = fold_left del_target_key (strip_keys p) cfg.
Proof. reflexivity. Qed.

Lemma target_in_strip_keys p a : marks_good p -> In a (p_links p) -> In (al_tgt a) (strip_keys p).
Proof.
  intros M Ha. unfold strip_keys. apply in_or_app.
  destruct (al_kind a) as [|d c] eqn:K.
  - left. destruct (M a Ha K) as [d Hd]. apply find_act_in in Hd. destruct Hd as [Hin Hk].
    apply in_map_iff. exists (d, true). split; [exact Hk|]. apply filter_In. split; [exact Hin|reflexivity].
  - right. apply in_flat_map. exists a. split; [exact Ha|]. rewrite K. left. reflexivity.
Qed.

Lemma strip_keys_are_targets p k : marks_sound p -> In k (strip_keys p) -> exists a, In a (p_links p) /\ al_tgt a = k.
Proof.
  intros M Hin. unfold strip_keys in Hin. apply in_app_or in Hin. destruct Hin as [Hin|Hin].
  - apply in_map_iff in Hin. destruct Hin as [[d b] [E Hf]]. apply filter_In in Hf. destruct Hf as [Hf Hb].
    simpl in Hb, E. subst b. destruct (M d Hf) as [a [Ha Ta]]. exists a. split; [exact Ha|]. rewrite Ta. exact E.
  - apply in_flat_map in Hin. destruct Hin as [a [Ha Hk]]. exists a. split; [exact Ha|].
    destruct (al_kind a); [destruct Hk|]. destruct Hk as [E|[]]. exact E.
Qed.

Lemma build_marks_good ds ls : marks_good (fst (build ds ls)).
Proof. apply add_links_marks. intros ? []. Qed.

Lemma build_marks_sound ds ls : marks_sound (fst (build ds ls)).
Proof.
  unfold build. apply (add_links_inv marks_sound add_link_marks_sound).
  intros d Hd. simpl in Hd. apply in_map_iff in Hd. destruct Hd as [x [E _]]. discriminate.
Qed.

(* the dump holds no target of any link (plain arguments and init_args of a single class argument) ... *)
Theorem target_absent_from_dump_build ds ls cfg a :
  let p := fst (build ds ls) in
  In a (p_links p) -> al_tgt a <> [] -> get (strip p cfg) (al_tgt a) = None.
Proof.
  intros p Ha N. rewrite strip_unfold. apply fold_del_in; [|exact N].
  apply target_in_strip_keys; [apply build_marks_good|exact Ha].
Qed.

(* ... and is the parsed configuration everywhere else *)
Theorem dump_frame_build ds ls cfg k :
  let p := fst (build ds ls) in
  (forall a, In a (p_links p) -> comparable (al_tgt a) k = false) -> get (strip p cfg) k = get cfg k.
Proof.
  intros p H. rewrite strip_unfold. apply fold_del_frame. intros t Ht.
  destruct (strip_keys_are_targets p t (build_marks_sound ds ls) Ht) as [a [Ha Ta]]. rewrite <- Ta. apply H. exact Ha.
Qed.

(* C18 — the fsspec branch of save (Model/SaveFS.v: save_fsspec = current code, save_fsspec_fixed = after
   fixes/C18-fsspec-target.patch).  The patched branch has the four properties of the local branch, for every
   input; the current branch has none of the first two (witnesses in Properties/C18.v). *)
From JV Require Import Lib.Base Model.SaveFS Spec.SaveFSSpec Proofs.SaveFSProofs.

(* the patched branch as a decision list *)
Definition fs_checks_pass (i : input) : option content :=
  if negb (i_overwrite i) && is_file (i_fs i) (i_main i) then None
  else if negb (i_skipval i) && negb (i_valid i) then None
  else if call_hits i (init i) then None
  else out_content (i_full i).

Lemma fsspec_fixed_cases i :
  (exists e, save_fsspec_fixed i = (i_fs i, Some e)) \/
  (exists c, save_fsspec_fixed i = (write (write (i_fs i) (i_main i) empty_text) (i_main i) c, None)
             /\ i_multifile i = false /\ i_full i = Out c
             /\ (i_overwrite i = false -> is_file (i_fs i) (i_main i) = false)
             /\ is_dir (i_fs i) (i_main i) = false).
Proof.
  unfold save_fsspec_fixed, fsspec_checks.
  destruct (i_multifile i) eqn:M; [left; eexists; reflexivity|].
  cbn [exec exec1].
  destruct (negb (i_overwrite i) && is_file (init i).(st_fs) (i_main i)) eqn:CO; cbn [fst snd];
    [left; eexists; reflexivity|].
  destruct (negb (i_skipval i) && negb (i_valid i)) eqn:V; cbn [fst snd]; [left; eexists; reflexivity|].
  destruct (call_hits i (init i)) eqn:CH; cbn [fst snd]; [left; eexists; reflexivity|].
  destruct (i_full i) as [|c] eqn:F; cbn [fst snd]; [left; eexists; reflexivity|].
  cbn [st_fs init].
  destruct (is_dir (i_fs i) (i_main i)) eqn:D; [left; eexists; reflexivity|].
  right. exists c. cbn [exec exec1 fst snd set_fs st_fs st_reg]. repeat split; auto.
  - intro Ho. rewrite Ho in CO. simpl in CO. exact CO.
Qed.

Lemma fsfixed_all_or_nothing_lemma i f' e : save_fsspec_fixed i = (f', Some e) -> f' = i_fs i.
Proof.
  destruct (fsspec_fixed_cases i) as [(e' & H)|(c & H & _)]; rewrite H; intro X; inversion X; auto.
Qed.

Lemma fsfixed_frame_lemma i m :
  ~ In m (targets i) -> lookup (fst (save_fsspec_fixed i)) m = lookup (i_fs i) m.
Proof.
  intro Hn. destruct (fsspec_fixed_cases i) as [(e' & H)|(c & H & _)]; rewrite H; simpl; auto.
  assert (m <> i_main i) by (intro; subst; apply Hn; left; reflexivity).
  rewrite !lookup_write_other; auto.
Qed.

Lemma fsfixed_no_overwrite_lemma i :
  i_overwrite i = false ->
  forall n x, lookup (i_fs i) n = Some x -> lookup (fst (save_fsspec_fixed i)) n = Some x.
Proof.
  intros Ho n x L. destruct (fsspec_fixed_cases i) as [(e' & H)|(c & H & _ & _ & Hf & Hd)]; rewrite H; simpl; auto.
  specialize (Hf Ho).
  destruct (list_eq_dec N.eq_dec n (i_main i)) as [->|Hne].
  - unfold is_file, is_dir in *. rewrite L in *. destruct x; discriminate.
  - rewrite !lookup_write_other; auto.
Qed.

Lemma fsfixed_save_then_parse_lemma i f' : save_fsspec_fixed i = (f', None) -> reparse_ok i f' = true.
Proof.
  destruct (fsspec_fixed_cases i) as [(e' & H)|(c & H & M & F & _)]; rewrite H; intro X; inversion X; subst f'.
  unfold reparse_ok. rewrite M, F. simpl. apply holds_some. apply lookup_write_same.
Qed.

Lemma fsfixed_multifile_refused_lemma i : i_multifile i = true -> save_fsspec_fixed i = (i_fs i, Some ENotImpl).
Proof. intro M. unfold save_fsspec_fixed. rewrite M. reflexivity. Qed.

Lemma fsfixed_existing_target_refused_lemma i :
  i_multifile i = false -> i_overwrite i = false -> is_file (i_fs i) (i_main i) = true ->
  save_fsspec_fixed i = (i_fs i, Some ERefuse).
Proof.
  intros M Ho Hf. unfold save_fsspec_fixed, fsspec_checks. rewrite M. cbn [exec exec1 init st_fs].
  rewrite Ho, Hf. reflexivity.
Qed.

(* ---- the whole implementation after the patch: whichever way the target is resolved ----------------- *)
Lemma impl_fixed_all_or_nothing_lemma k i f' e : save_impl_fixed k i = (f', Some e) -> f' = i_fs i.
Proof. destruct k; simpl; [apply fixed_all_or_nothing_lemma | apply fsfixed_all_or_nothing_lemma]. Qed.

Lemma impl_fixed_frame_lemma k i m :
  ~ In m (targets i) -> lookup (fst (save_impl_fixed k i)) m = lookup (i_fs i) m.
Proof. destruct k; simpl; [apply fixed_frame_lemma | apply fsfixed_frame_lemma]. Qed.

Lemma impl_fixed_no_overwrite_lemma k i :
  i_overwrite i = false ->
  forall n x, lookup (i_fs i) n = Some x -> lookup (fst (save_impl_fixed k i)) n = Some x.
Proof. destruct k; simpl; [apply fixed_no_overwrite_lemma | apply fsfixed_no_overwrite_lemma]. Qed.

Lemma impl_fixed_save_then_parse_lemma k i f' :
  alias_clash i = false -> save_impl_fixed k i = (f', None) -> reparse_ok i f' = true.
Proof.
  destruct k; simpl; intro AC; [apply fixed_save_then_parse_lemma; exact AC | apply fsfixed_save_then_parse_lemma].
Qed.

(* any save function with these four properties meets Spec/SaveFSSpec.v *)
Section MeetsSpec.
  Variable sv : input -> fs * option err.
  Variable i : input.
  Hypothesis A : forall f' e, sv i = (f', Some e) -> f' = i_fs i.
  Hypothesis B : i_overwrite i = false -> forall n x, lookup (i_fs i) n = Some x -> lookup (fst (sv i)) n = Some x.
  Hypothesis C : forall m, ~ In m (targets i) -> lookup (fst (sv i)) m = lookup (i_fs i) m.
  Hypothesis D : forall f', sv i = (f', None) -> reparse_ok i f' = true.

  Lemma meets_spec_gen :
    spec_ok (i_overwrite i) (targets i) (i_fs i) (fst (sv i)) (is_some (snd (sv i))) (reparse_ok i (fst (sv i))) = true.
  Proof.
    destruct (sv i) as [f' o] eqn:S. cbn [fst snd] in *. unfold spec_ok.
    repeat (apply andb_true_iff; split).
    - destruct o as [e|]; simpl.
      + rewrite (A f' e eq_refl). apply fs_same_refl.
      + apply D. reflexivity.
    - destruct (i_overwrite i) eqn:Ho; auto. apply forallb_forall. intros n Hn.
      apply agrees_on_eq. apply lookup_in_names in Hn.
      destruct (lookup (i_fs i) n) as [x|] eqn:L; [|congruence].
      symmetry. apply B; auto.
    - apply forallb_forall. intros n _. destruct (mem_str n (targets i)) eqn:Mn; auto. simpl.
      apply agrees_on_eq. symmetry. apply C. intro Hin. apply mem_str_In in Hin. congruence.
  Qed.
End MeetsSpec.

Lemma impl_fixed_meets_spec_lemma k i :
  alias_clash i = false ->
  spec_ok (i_overwrite i) (targets i) (i_fs i) (fst (save_impl_fixed k i)) (is_some (snd (save_impl_fixed k i)))
          (reparse_ok i (fst (save_impl_fixed k i))) = true.
Proof.
  intro AC. apply (meets_spec_gen (save_impl_fixed k) i).
  - apply impl_fixed_all_or_nothing_lemma.
  - apply impl_fixed_no_overwrite_lemma.
  - apply impl_fixed_frame_lemma.
  - intro f'. apply impl_fixed_save_then_parse_lemma. exact AC.
Qed.

(* on the current tree the fsspec branch never refuses an existing file and empties the target before anything
   is checked: what it leaves behind, for every input whose target is not a directory and whose directory exists *)
Lemma fsspec_current_empties_lemma i :
  is_dir (i_fs i) (i_main i) = false ->
  forall e, snd (save_fsspec i) = Some e -> lookup (fst (save_fsspec i)) (i_main i) = Some (File empty_text).
Proof.
  intros Hn e. unfold save_fsspec, fsspec_body. rewrite Hn.
  destruct (i_multifile i); cbn [exec exec1 fst snd set_fs st_fs init].
  - intros _. apply lookup_write_same.
  - destruct (negb (i_skipval i) && negb (i_valid i)); cbn [fst snd st_fs].
    { intros _. apply lookup_write_same. }
    match goal with |- context [call_hits i ?t] => destruct (call_hits i t) end; cbn [fst snd st_fs].
    { intros _. apply lookup_write_same. }
    destruct (i_full i); cbn [fst snd st_fs exec exec1 set_fs].
    { intros _. apply lookup_write_same. }
    discriminate.
Qed.

(* C08 — instantiating twice builds two distinct fresh objects per class spec (Model/C08Inst.v). *)
From JV Require Import Lib.Base Model.C08Inst.

Scheme ival_mut := Induction for ival Sort Prop
  with ivals_mut := Induction for ivals Sort Prop.
Combined Scheme ival_ivals_ind from ival_mut, ivals_mut.

(* one run allocates exactly the identities c, c+1, ..., one per spec, and nothing else *)
Lemma inst_ids :
  (forall v c, snd (inst c v) = c + count v /\ ids (fst (inst c v)) = seq c (count v))
  /\ (forall xs c, snd (inst_list c xs) = c + count_list xs /\ ids_list (fst (inst_list c xs)) = seq c (count_list xs)).
Proof.
  apply ival_ivals_ind.
  - intros z c. simpl. split; [lia | reflexivity].
  - intros cls args IH c. simpl. specialize (IH c). destruct (inst_list c args) as [ys c1]. simpl in *.
    destruct IH as [-> ->]. split; [lia|].
    pose proof (seq_S (count_list args) c) as E. simpl in E. symmetry. exact E.
  - intros xs IH c. simpl. specialize (IH c). destruct (inst_list c xs) as [ys c1]. simpl in *. exact IH.
  - intros c. simpl. split; [lia | reflexivity].
  - intros x IHx r IHr c. simpl. specialize (IHx c). destruct (inst c x) as [y c1]. simpl in *.
    destruct IHx as [-> Hy]. specialize (IHr (c + count x)). destruct (inst_list (c + count x) r) as [ys c2]. simpl in *.
    destruct IHr as [-> Hys]. split; [lia|]. rewrite Hy, Hys, seq_app. reflexivity.
Qed.

Lemma inst_twice_ids c cfg :
  inst_twice c cfg = (seq c (count_list cfg), seq (c + count_list cfg) (count_list cfg)).
Proof.
  unfold inst_twice. destruct inst_ids as [_ H].
  pose proof (H cfg c) as H1. destruct (inst_list c cfg) as [r1 c1]. simpl in H1. destruct H1 as [-> E1].
  pose proof (H cfg (c + count_list cfg)) as H2. destruct (inst_list (c + count_list cfg) cfg) as [r2 c2]. simpl in H2.
  destruct H2 as [_ E2]. rewrite E1, E2. reflexivity.
Qed.

Lemma nodupb_NoDup l : nodupb l = true <-> NoDup l.
Proof.
  induction l as [|x l IH]; simpl; [split; [constructor | reflexivity]|].
  rewrite andb_true_iff, negb_true_iff, IH. split.
  - intros [H1 H2]. constructor; auto. intro Hin. apply mem_nat_In in Hin. congruence.
  - intro H. inversion H; subst. split; auto. destruct (mem_nat x l) eqn:E; auto. apply mem_nat_In in E. tauto.
Qed.

(* the property: for EVERY configuration tree and every starting state of the process, the two runs
   build count_list cfg objects each, all 2*count pairwise distinct, none of which existed before *)
Theorem instantiate_twice_fresh :
  forall (c : nat) (cfg : ivals),
    let '(ids1, ids2) := inst_twice c cfg in
    NoDup (ids1 ++ ids2) /\ (forall i, In i (ids1 ++ ids2) -> c <= i)
    /\ length ids1 = count_list cfg /\ length ids2 = count_list cfg.
Proof.
  intros c cfg. rewrite inst_twice_ids. rewrite <- seq_app. repeat split.
  - apply seq_NoDup.
  - intros i Hi. apply in_seq in Hi. lia.
  - apply seq_length.
  - apply seq_length.
Qed.

Theorem instantiate_twice_spec :
  forall (c : nat) (cfg : ivals),
    fresh_twice_ok c cfg (fst (inst_twice c cfg)) (snd (inst_twice c cfg)) = true.
Proof.
  intros c cfg. pose proof (instantiate_twice_fresh c cfg) as H. destruct (inst_twice c cfg) as [i1 i2]. simpl.
  destruct H as [Hn [Hge [H1 H2]]]. unfold fresh_twice_ok.
  repeat (apply andb_true_iff; split).
  - apply nodupb_NoDup. exact Hn.
  - apply forallb_forall. intros i Hi. apply Nat.leb_le. auto.
  - apply Nat.eqb_eq. exact H1.
  - apply Nat.eqb_eq. exact H2.
Qed.

(* every spec position gets two DIFFERENT objects: the k-th object of run 1 is not the k-th of run 2 *)
Theorem instantiate_twice_pairwise_distinct :
  forall (c : nat) (cfg : ivals) (k : nat),
    k < count_list cfg ->
    nth k (fst (inst_twice c cfg)) 0 <> nth k (snd (inst_twice c cfg)) 0.
Proof.
  intros c cfg k Hk. rewrite inst_twice_ids. simpl. rewrite !seq_nth by exact Hk. lia.
Qed.

(* a caching instantiate violates it as soon as there is one spec *)
Theorem cached_instantiate_refuted :
  exists c cfg, fresh_twice_ok c cfg (fst (inst_twice_cached c cfg)) (snd (inst_twice_cached c cfg)) = false.
Proof. exists 0, (ICons (ISpec [] INil) INil). vm_compute. reflexivity. Qed.

(* C08 — instantiating twice builds two distinct fresh objects per class spec (Model/C08Inst.v). *)
From JV Require Import Lib.Base Model.C08Inst.

Scheme ival_mut := Induction for ival Sort Prop
  with ivals_mut := Induction for ivals Sort Prop.
Combined Scheme ival_ivals_ind from ival_mut, ivals_mut.

(* the repaired instantiate does not care whether it is below a tuple *)
Lemma inst_fixed_below :
  (forall v b b' c, inst true b c v = inst true b' c v)
  /\ (forall xs b b' c, inst_list true b c xs = inst_list true b' c xs).
Proof.
  apply ival_ivals_ind.
  - reflexivity.
  - intros d cls args IH b b' c. simpl. rewrite (IH b b' c). reflexivity.
  - intros xs IH b b' c. simpl. rewrite (IH b b' c). reflexivity.
  - intros xs IH b b' c. reflexivity.
  - reflexivity.
  - intros x IHx r IHr b b' c. simpl. rewrite (IHx b b' c). destruct (inst true b' c x) as [y c1].
    rewrite (IHr b b' c1). reflexivity.
Qed.

(* inside the guard the current tree behaves as the repaired one *)
Lemma inst_guard_same :
  (forall v b c, okv b v = true -> inst false b c v = inst true b c v)
  /\ (forall xs b c, okv_list b xs = true -> inst_list false b c xs = inst_list true b c xs).
Proof.
  apply ival_ivals_ind.
  - reflexivity.
  - intros d cls args IH b c H. simpl in *. apply andb_true_iff in H. destruct H as [H1 H2].
    apply negb_true_iff in H1. rewrite H1. simpl. rewrite (IH b c H2). reflexivity.
  - intros xs IH b c H. simpl in *. rewrite (IH b c H). reflexivity.
  - intros xs IH b c H. simpl in *. rewrite (IH true c H). reflexivity.
  - reflexivity.
  - intros x IHx r IHr b c H. simpl in *. apply andb_true_iff in H. destruct H as [H1 H2].
    rewrite (IHx b c H1). destruct (inst true b c x) as [y c1]. rewrite (IHr b c1 H2). reflexivity.
Qed.

(* one run of the repaired instantiate allocates exactly the identities c, c+1, ..., one per spec *)
Lemma inst_ids :
  (forall v b c, snd (inst true b c v) = c + count v /\ ids (fst (inst true b c v)) = seq c (count v))
  /\ (forall xs b c, snd (inst_list true b c xs) = c + count_list xs /\ ids_list (fst (inst_list true b c xs)) = seq c (count_list xs)).
Proof.
  apply ival_ivals_ind.
  - intros z b c. simpl. split; [lia | reflexivity].
  - intros d cls args IH b c. simpl. specialize (IH b c). destruct (inst_list true b c args) as [ys c1]. simpl in *.
    destruct IH as [-> ->]. split; [lia|].
    pose proof (seq_S (count_list args) c) as E. simpl in E. symmetry. exact E.
  - intros xs IH b c. simpl. specialize (IH b c). destruct (inst_list true b c xs) as [ys c1]. simpl in *. exact IH.
  - intros xs IH b c. simpl. specialize (IH true c). destruct (inst_list true true c xs) as [ys c1]. simpl in *. exact IH.
  - intros b c. simpl. split; [lia | reflexivity].
  - intros x IHx r IHr b c. simpl. specialize (IHx b c). destruct (inst true b c x) as [y c1]. simpl in *.
    destruct IHx as [-> Hy]. specialize (IHr b (c + count x)). destruct (inst_list true b (c + count x) r) as [ys c2]. simpl in *.
    destruct IHr as [-> Hys]. split; [lia|]. rewrite Hy, Hys, seq_app. reflexivity.
Qed.

Lemma inst_twice_fixed_ids c cfg :
  inst_twice true c cfg = (seq c (count_list cfg), seq (c + count_list cfg) (count_list cfg)).
Proof.
  unfold inst_twice. destruct inst_ids as [_ H].
  pose proof (H cfg false c) as H1. destruct (inst_list true false c cfg) as [r1 c1]. simpl in H1. destruct H1 as [-> E1].
  pose proof (H cfg false (c + count_list cfg)) as H2. destruct (inst_list true false (c + count_list cfg) cfg) as [r2 c2]. simpl in H2.
  destruct H2 as [_ E2]. rewrite E1, E2. reflexivity.
Qed.

Lemma inst_twice_guard_same c cfg : inst_guard cfg = true -> inst_twice false c cfg = inst_twice true c cfg.
Proof.
  intro G. unfold inst_twice. destruct inst_guard_same as [_ H]. rewrite (H cfg false c G).
  destruct (inst_list true false c cfg) as [r1 c1]. rewrite (H cfg false c1 G). reflexivity.
Qed.

Lemma inst_twice_ids fx c cfg :
  (fx = false -> inst_guard cfg = true) ->
  inst_twice fx c cfg = (seq c (count_list cfg), seq (c + count_list cfg) (count_list cfg)).
Proof.
  intro G. destruct fx; [apply inst_twice_fixed_ids|]. rewrite (inst_twice_guard_same c cfg (G eq_refl)). apply inst_twice_fixed_ids.
Qed.

Lemma nodupb_NoDup l : nodupb l = true <-> NoDup l.
Proof.
  induction l as [|x l IH]; simpl; [split; [constructor | reflexivity]|].
  rewrite andb_true_iff, negb_true_iff, IH. split.
  - intros [H1 H2]. constructor; auto. intro Hin. apply mem_nat_In in Hin. congruence.
  - intro H. inversion H; subst. split; auto. destruct (mem_nat x l) eqn:E; auto. apply mem_nat_In in E. tauto.
Qed.

(* the property: for EVERY configuration tree and every starting state of the process, the two runs
   build count_list cfg objects each, all 2*count pairwise distinct, none of which existed before —
   on the current tree under the guard (no default-derived spec below a tuple), on the repaired tree always *)
Theorem instantiate_twice_fresh :
  forall (fx : bool) (c : nat) (cfg : ivals),
    (fx = false -> inst_guard cfg = true) ->
    let '(ids1, ids2) := inst_twice fx c cfg in
    NoDup (ids1 ++ ids2) /\ (forall i, In i (ids1 ++ ids2) -> c <= i)
    /\ length ids1 = count_list cfg /\ length ids2 = count_list cfg.
Proof.
  intros fx c cfg G. rewrite (inst_twice_ids fx c cfg G). rewrite <- seq_app. repeat split.
  - apply seq_NoDup.
  - intros i Hi. apply in_seq in Hi. lia.
  - apply seq_length.
  - apply seq_length.
Qed.

Theorem instantiate_twice_spec :
  forall (fx : bool) (c : nat) (cfg : ivals),
    (fx = false -> inst_guard cfg = true) ->
    fresh_twice_ok c cfg (fst (inst_twice fx c cfg)) (snd (inst_twice fx c cfg)) = true.
Proof.
  intros fx c cfg G. pose proof (instantiate_twice_fresh fx c cfg G) as H. destruct (inst_twice fx c cfg) as [i1 i2]. simpl.
  destruct H as [Hn [Hge [H1 H2]]]. unfold fresh_twice_ok.
  repeat (apply andb_true_iff; split).
  - apply nodupb_NoDup. exact Hn.
  - apply forallb_forall. intros i Hi. apply Nat.leb_le. auto.
  - apply Nat.eqb_eq. exact H1.
  - apply Nat.eqb_eq. exact H2.
Qed.

(* every spec position gets two DIFFERENT objects: the k-th object of run 1 is not the k-th of run 2 *)
Theorem instantiate_twice_pairwise_distinct :
  forall (fx : bool) (c : nat) (cfg : ivals) (k : nat),
    (fx = false -> inst_guard cfg = true) ->
    k < count_list cfg ->
    nth k (fst (inst_twice fx c cfg)) 0 <> nth k (snd (inst_twice fx c cfg)) 0.
Proof.
  intros fx c cfg k G Hk. rewrite (inst_twice_ids fx c cfg G). simpl. rewrite !seq_nth by exact Hk. lia.
Qed.

(* a caching instantiate violates it as soon as there is one spec *)
Theorem cached_instantiate_refuted :
  exists c cfg, fresh_twice_ok c cfg (fst (inst_twice_cached c cfg)) (snd (inst_twice_cached c cfg)) = false.
Proof. exists 0, (ICons (ISpec false [] INil) INil). vm_compute. reflexivity. Qed.

(* the current tree outside the guard: (Pair(), 1) for Tuple[Base, int] where Pair.left has a
   lazy_instance signature default — both calls hand out the one live default object (identity 0) *)
Theorem default_below_tuple_shared_refuted :
  exists cfg, inst_guard cfg = false
              /\ fresh_twice_ok 1 cfg (fst (inst_twice false 1 cfg)) (snd (inst_twice false 1 cfg)) = false
              /\ fresh_twice_ok 1 cfg (fst (inst_twice true 1 cfg)) (snd (inst_twice true 1 cfg)) = true.
Proof.
  exists (ICons (ITup (ICons (ISpec false [80]%N (ICons (ISpec true [76]%N (ICons (IInt 5) INil)) INil)) (ICons (IInt 1) INil))) INil).
  vm_compute. repeat split; reflexivity.
Qed.

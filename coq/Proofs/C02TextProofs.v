(* C02, part 3: command-line / config TEXT of the right shape is never rejected.
   A text `s` (not blank, not '-') that the loader reads as a value `x` which is not a str and has the shape of the
   declared hint is accepted by the repaired model — whether the parser hands the loaded value to adapt_typehints
   (None, lists, dicts) or keeps the text and lets the leaf / Literal / Any branches load it again (ints, floats, bools:
   load_value without simple_types gives the text back). `basic_agrees`: jsonargparse's load_basic, which load_value tries
   before YAML, reads the text as the loader does. *)
From JV Require Import Lib.Base Model.TyVal Model.Scalar Model.Ty Spec.Conforms Spec.ConformsRx Spec.C02Defs Spec.C02Guard
  Proofs.C02Proofs Proofs.C02CompleteProofs Proofs.C02GuardProofs.

Section Text.
Variable yl : str -> lres.
Notation F := all_fixed.
Notation A := (adapt_g all_fixed yl false).

Lemma lres_is_eq r x : lres_is r x = true -> r = LVal x.
Proof. destruct r; simpl; try discriminate. intro H. apply val_eqb_eq in H. now subst. Qed.

Lemma yload_val s x : yl s = LVal x -> yload F yl s = LVal x.
Proof. unfold yload. intro H. now rewrite H. Qed.

(* what load_value tries first agrees with the loader: the loaded value is x either way *)
Lemma loaded_is s x : basic_agrees yl s = true -> yl s = LVal x ->
  match load_basic s with Some v => LVal v | None => yload F yl s end = LVal x.
Proof.
  unfold basic_agrees. intros Hb Hy. destruct (load_basic s) as [v|].
  - apply lres_is_eq in Hb. congruence.
  - now apply yload_val.
Qed.

Lemma strip_nonblank s : strip s <> [] -> exists c r, strip s = c :: r.
Proof. destruct (strip s) as [|c r]; [congruence|eauto]. Qed.

Lemma parse_value_text st s x :
  strip s <> [] -> str_eqb (strip s) [45%N] = false -> basic_agrees yl s = true -> yl s = LVal x -> is_str x = false ->
  parse_value F yl st (VStr s) = if negb st && is_simple_scalar x then LVal (VStr s) else LVal x.
Proof.
  intros Hn Hd Hb Hy Hx. unfold parse_value. destruct (strip_nonblank s Hn) as [c [r E]]. rewrite E.
  unfold load_value. rewrite E in Hd. rewrite E, Hd. rewrite (loaded_is s x Hb Hy).
  destruct (negb st && is_simple_scalar x); [reflexivity|]. destruct x; try reflexivity. discriminate.
Qed.

Lemma json_load_text s x : strip s <> [] -> yl s = LVal x -> json_or_yaml_load F yl s = LVal x.
Proof.
  intros Hn Hy. unfold json_or_yaml_load. destruct (strip_nonblank s Hn) as [c [r E]]. rewrite E. now apply yload_val.
Qed.

Definition scalar3 (x : val) : bool := match x with VInt _ | VFloat _ | VBool _ => true | _ => false end.

(* a leaf type other than str, given the text: what the leaf branch does with it *)
Lemma adapt_leaf_text_val k s x : strip s <> [] -> yl s = LVal x -> k <> LfStr -> k <> LfFloat ->
  adapt_leaf F yl k (VStr s) = if isinstance_leaf k x then AOk x else AErr ErrValue.
Proof.
  intros Hn Hy Hk Hf. unfold adapt_leaf. destruct k; try congruence; rewrite (json_load_text s x Hn Hy); reflexivity.
Qed.

Lemma lit_int_in z ls : existsb (fun l => val_eqb (VInt z) (lit_val l)) ls = true ->
  existsb (fun l => match l with LInt _ => true | _ => false end) ls = true.
Proof.
  induction ls as [|l ls IH]; simpl; [discriminate|]. destruct l; simpl; auto.
Qed.

Lemma lit_bool_in b ls : existsb (fun l => val_eqb (VBool b) (lit_val l)) ls = true ->
  existsb (fun l => match l with LBool _ => true | _ => false end) ls = true.
Proof.
  induction ls as [|l ls IH]; simpl; [discriminate|]. destruct l; simpl; auto.
Qed.

Lemma lit_float_out f ls : existsb (fun l => val_eqb (VFloat f) (lit_val l)) ls = false.
Proof. induction ls as [|l ls IH]; simpl; [reflexivity|]. destruct l; simpl; exact IH. Qed.

(* the trial loop over the kinds of a Literal, given the text of an int / a bool: whatever it returns is x *)
Lemma kinds_union_result orig s x rs w :
  (forall t r, In (t, r) rs -> is_str_ty t = false /\ (r = AOk x \/ exists e, r = AErr e)) ->
  adapt_union F orig (VStr s) rs = AOk w -> w = x.
Proof.
  intros Hrs H. unfold adapt_union in H. apply union_result_in in H. apply union_loop_in in H.
  destruct H as [[]|[[t [w' [Hin Hw]]]|[[t [e [o [Hin [Ht _]]]]]|Hw]]]; [| |discriminate].
  - inversion Hw; subst w'. apply stable_sort_in in Hin. apply Hrs in Hin. destruct Hin as [_ [E|[e E]]]; congruence.
  - apply stable_sort_in in Hin. apply Hrs in Hin. destruct Hin as [Hs _]. congruence.
Qed.

Lemma lit_text_ok orig ls s x :
  strip s <> [] -> yl s = LVal x -> scalar3 x = true -> shaped (TLit ls) x = true ->
  is_ok (A orig (TLit ls) (VStr s)) = true.
Proof.
  intros Hn Hy Hsc Hs. simpl in Hs.
  assert (Hm : lmem F x ls = true) by (unfold lmem; simpl; exact Hs).
  simpl adapt_g. destruct (lmem F (VStr s) ls) eqn:Hms; simpl.
  - rewrite Hms. reflexivity.
  - pose proof (adapt_leaf_text_val LfInt s x Hn Hy ltac:(discriminate) ltac:(discriminate)) as Ei.
    pose proof (adapt_leaf_text_val LfBool s x Hn Hy ltac:(discriminate) ltac:(discriminate)) as Eb.
    pose proof (adapt_leaf_text_val LfNone s x Hn Hy ltac:(discriminate) ltac:(discriminate)) as En.
    rewrite Ei, Eb, En.
    destruct x; try discriminate.
    + (* bool *) pose proof (lit_bool_in b ls Hs) as Hb. rewrite Hb. simpl.
      destruct (existsb (fun l => match l with LInt _ => true | _ => false end) ls);
      destruct (existsb (fun l => match l with LNone => true | _ => false end) ls); simpl;
        try (rewrite Hm; reflexivity);
        match goal with |- is_ok (match adapt_union F orig (VStr s) ?rs with _ => _ end) = true =>
          destruct (adapt_union F orig (VStr s) rs) as [w|e] eqn:E;
          [ assert (w = VBool b) by
              (eapply kinds_union_result; [|exact E]; intros t r Hin; simpl in Hin;
               repeat (destruct Hin as [Hin|Hin]; [inversion Hin; subst; split; [reflexivity|eauto]|]); contradiction);
            subst w; rewrite Hm; reflexivity
          | exfalso;
            assert (Hok : is_ok (adapt_union F orig (VStr s) rs) = true) by
              (rewrite adapt_union_ok; apply orb_true_iff; left; simpl; rewrite ?orb_true_r; reflexivity);
            rewrite E in Hok; discriminate ]
        end.
    + (* int *) pose proof (lit_int_in z ls Hs) as Hi. rewrite Hi. simpl.
      destruct (existsb (fun l => match l with LBool _ => true | _ => false end) ls);
      destruct (existsb (fun l => match l with LNone => true | _ => false end) ls); simpl;
        try (rewrite Hm; reflexivity);
        match goal with |- is_ok (match adapt_union F orig (VStr s) ?rs with _ => _ end) = true =>
          destruct (adapt_union F orig (VStr s) rs) as [w|e] eqn:E;
          [ assert (w = VInt z) by
              (eapply kinds_union_result; [|exact E]; intros t r Hin; simpl in Hin;
               repeat (destruct Hin as [Hin|Hin]; [inversion Hin; subst; split; [reflexivity|eauto]|]); contradiction);
            subst w; rewrite Hm; reflexivity
          | exfalso;
            assert (Hok : is_ok (adapt_union F orig (VStr s) rs) = true) by
              (rewrite adapt_union_ok; apply orb_true_iff; left; simpl; rewrite ?orb_true_r; reflexivity);
            rewrite E in Hok; discriminate ]
        end.
    + (* float: no Literal member is a float *) rewrite lit_float_out in Hs. discriminate.
Qed.

(* the text of an int / a float / a bool stays text for the parser: every hint whose shape the loaded value has
   accepts the TEXT *)
Lemma text_scalar_complete : forall t s x orig,
  wf_ty t = true -> strip s <> [] -> str_eqb (strip s) [45%N] = false -> basic_agrees yl s = true ->
  yl s = LVal x -> scalar3 x = true -> shaped t x = true -> is_ok (A orig t (VStr s)) = true.
Proof.
  induction t using ty_ind'; intros s x orig Hwf Hn Hd Hb Hy Hsc Hs;
    try (destruct x; simpl in Hs; simpl in Hsc; discriminate).
  - (* int *) destruct x; simpl in Hs; try discriminate. simpl. unfold adapt_leaf. rewrite (json_load_text s _ Hn Hy). reflexivity.
  - (* float *) destruct x; simpl in Hs; try discriminate. simpl. unfold adapt_leaf. rewrite (json_load_text s _ Hn Hy). reflexivity.
  - (* bool *) destruct x; simpl in Hs; try discriminate. simpl. unfold adapt_leaf. rewrite (json_load_text s _ Hn Hy). reflexivity.
  - (* Any *)
    assert (Hx : is_str x = false) by (destruct x; try discriminate; reflexivity).
    pose proof (parse_value_text true s x Hn Hd Hb Hy Hx) as E. simpl negb in E. simpl andb in E.
    change (A orig TAny (VStr s)) with (match parse_value F yl true (VStr s) with
                                        | LVal x0 => AOk x0 | LYamlErr => AOk (VStr s) | LValErr => AErr ErrValue end).
    rewrite E. reflexivity.
  - (* Literal *) eapply lit_text_ok; eassumption.
  - (* Union *)
    rewrite union_ok_iff. rewrite shaped_union in Hs. rewrite wf_ty_union in Hwf.
    apply orb_true_iff. left. apply existsb_exists in Hs. destruct Hs as [t [Hin Ht]].
    apply existsb_exists. exists t. split; [exact Hin|].
    rewrite Forall_forall in H. rewrite forallb_forall in Hwf. eapply H; eauto.
Qed.

Lemma text_shaped_inv t s : text_shaped yl t s = true ->
  strip s <> [] /\ str_eqb (strip s) [45%N] = false /\ basic_agrees yl s = true
  /\ exists x, yl s = LVal x /\ is_str x = false /\ shaped t x = true.
Proof.
  unfold text_shaped. destruct (strip s) as [|c r] eqn:E; [discriminate|].
  intro H. apply andb_true_iff in H. destruct H as [H H3]. apply andb_true_iff in H. destruct H as [H1 H2].
  split; [discriminate|]. split; [now apply negb_true_iff in H1|]. split; [exact H2|].
  destruct (yl s) as [x| |]; try discriminate. apply andb_true_iff in H3. destruct H3 as [H3 H4].
  exists x. split; [reflexivity|]. split; [now apply negb_true_iff in H3|exact H4].
Qed.

Lemma check_type_text_complete t s :
  wf_ty t = true -> text_shaped yl t s = true -> is_ok (check_type_g F yl t (VStr s)) = true.
Proof.
  intros Hwf Hts. destruct (text_shaped_inv t s Hts) as [Hn [Hd [Hb [x [Hy [Hx Hs]]]]]].
  unfold check_type_g. cbv zeta. rewrite (parse_value_text false s x Hn Hd Hb Hy Hx). simpl negb. simpl andb.
  destruct (is_simple_scalar x) eqn:Hsc.
  - assert (Hsc3 : scalar3 x = true) by (destruct x; simpl in *; try discriminate; reflexivity).
    pose proof (text_scalar_complete t s x (Some s) Hwf Hn Hd Hb Hy Hsc3 Hs) as Hc.
    destruct (A (Some s) t (VStr s)) as [w|e]; [reflexivity|discriminate].
  - pose proof (adapt_complete yl t Hwf (Some s) x Hs) as Hc.
    destruct (A (Some s) t x) as [w|e]; [reflexivity|discriminate].
Qed.

Lemma parse_key_text_complete t s :
  wf_ty t = true -> text_shaped yl t s = true -> accepts F yl t (VStr s) = true.
Proof.
  intros Hwf Hts. rewrite accepts_first_pass; [now apply check_type_text_complete|exact Hwf|discriminate].
Qed.

End Text.

(* the pinned tree inside the guard *)
Lemma text_complete_pinned yl t s :
  in_guard yl t (VStr s) = true -> wf_ty t = true -> text_shaped yl t s = true -> is_ok (impl yl t (VStr s)) = true.
Proof. intros G Hwf Hs. rewrite (guard_is_ok _ _ _ G). now apply parse_key_text_complete. Qed.

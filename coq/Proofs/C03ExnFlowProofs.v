(* C03 — soundness of the escape analysis w.r.t. the big-step semantics of the exception-flow IR. *)
From JV Require Import Lib.Base Model.C03ExnFlow.
From Coq Require Import List Bool NArith Lia.
Import ListNotations.
Open Scope N_scope.

(* ---- bit sets -------------------------------------------------------------------------------- *)
Lemma single_spec i j : mem j (single i) = N.eqb i j.
Proof. unfold mem, single. rewrite N.shiftl_1_l. apply N.pow2_bits_eqb. Qed.

Lemma union_spec a b i : mem i (union a b) = mem i a || mem i b.
Proof. unfold mem, union. apply N.lor_spec. Qed.

Lemma ldiff_spec a b i : mem i (N.ldiff a b) = mem i a && negb (mem i b).
Proof. unfold mem. apply N.ldiff_spec. Qed.

Lemma mem_0 i : mem i 0 = false.
Proof. unfold mem. apply N.bits_0. Qed.

Lemma subset_spec a b i : subset a b = true -> mem i a = true -> mem i b = true.
Proof.
  unfold subset. intros H Ha. apply N.eqb_eq in H.
  assert (E : mem i (N.ldiff a b) = false) by (rewrite H; apply mem_0).
  rewrite ldiff_spec, Ha in E. simpl in E. destruct (mem i b); [reflexivity|discriminate].
Qed.

Lemma caught_of_spec P cs n s i :
  mem i (caught_of P cs n s) = N.ltb i (N.of_nat n) && (mem i s && catches P cs i).
Proof.
  induction n as [|n IH]; simpl caught_of.
  - rewrite mem_0. simpl. destruct (N.ltb_spec i 0); [lia|reflexivity].
  - rewrite Nat2N.inj_succ.
    destruct (N.eqb_spec (N.of_nat n) i) as [E|E].
    + subst i. destruct (mem (N.of_nat n) s && catches P cs (N.of_nat n)) eqn:C.
      * rewrite union_spec, single_spec, N.eqb_refl, orb_true_r.
        destruct (N.ltb_spec (N.of_nat n) (N.succ (N.of_nat n))); [reflexivity|lia].
      * rewrite IH. destruct (N.ltb_spec (N.of_nat n) (N.of_nat n)); [lia|].
        simpl. rewrite andb_false_r. reflexivity.
    + assert (L : N.ltb i (N.succ (N.of_nat n)) = N.ltb i (N.of_nat n)).
      { destruct (N.ltb_spec i (N.succ (N.of_nat n))), (N.ltb_spec i (N.of_nat n)); try reflexivity; lia. }
      rewrite L.
      destruct (mem (N.of_nat n) s && catches P cs (N.of_nat n)).
      * rewrite union_spec, single_spec, IH.
        destruct (N.eqb_spec (N.of_nat n) i); [contradiction|]. rewrite orb_false_r. reflexivity.
      * apply IH.
Qed.

(* ---- the soundness proof ----------------------------------------------------------------------- *)
Arguments mem : simpl never.
Arguments union : simpl never.
Arguments single : simpl never.
Arguments caught_of : simpl never.
Section Sound.
  Variable P : prog.
  Variable nsites : nat.
  Variable T : table.
  Hypothesis HP : postfix P nsites T = true.

  Definition sound_out (r : ares) (o : outcome) : Prop :=
    match o with
    | ONormal => a_norm r = true
    | OAbrupt => a_abr r = true
    | ORaise i => mem i (a_esc r) = true /\ i < N.of_nat nsites
    end.

  Definition stack_ok (stk : list N) (astk : list eset) : Prop :=
    Forall2 (fun i S => mem i S = true) stk astk /\ Forall (fun i => i < N.of_nat nsites) stk.

  Lemma check_funs_nth x fs k0 k body :
    check_funs P nsites T x fs k0 = true -> nth_error fs k = Some body ->
    ares_le (esc P nsites T x [] body) (lookup_nat T x (k0 + k)%nat) = true.
  Proof.
    revert k0 k. induction fs as [|b fs IH]; intros k0 k H E.
    - destruct k; discriminate.
    - simpl in H. apply andb_true_iff in H. destruct H as [H1 H2].
      destruct k as [|k]; simpl in E.
      + inversion E; subst. rewrite Nat.add_0_r. exact H1.
      + replace (k0 + S k)%nat with (S k0 + k)%nat by lia. apply IH; assumption.
  Qed.

  Lemma body_le x f body :
    nth_error (p_funs P) (N.to_nat f) = Some body ->
    ares_le (esc P nsites T x [] body) (lookup T x f) = true /\ sites_bounded nsites body = true.
  Proof.
    intro E. unfold postfix in HP.
    apply andb_true_iff in HP. destruct HP as [H12 H3].
    apply andb_true_iff in H12. destruct H12 as [H1 H2].
    split.
    - unfold lookup. destruct x.
      + apply (check_funs_nth true _ O _ _ H1 E).
      + apply (check_funs_nth false _ O _ _ H2 E).
    - rewrite forallb_forall in H3. apply H3. eapply nth_error_In; eassumption.
  Qed.

  Lemma ares_le_out a b o : ares_le a b = true -> sound_out a o -> sound_out b o.
  Proof.
    unfold ares_le. intro H. apply andb_true_iff in H. destruct H as [H HA].
    apply andb_true_iff in H. destruct H as [HS HN].
    destruct o; simpl; intro S.
    - rewrite S in HN. simpl in HN. exact HN.
    - rewrite S in HA. simpl in HA. exact HA.
    - destruct S as [S B]. split; [eapply subset_spec; eassumption|exact B].
  Qed.

  Definition Pexec (x : bool) (stk : list N) (s : stmt) (o : outcome) : Prop :=
    forall astk, stack_ok stk astk -> sites_bounded nsites s = true -> sound_out (esc P nsites T x astk s) o.

  Definition Phandled (x : bool) (stk : list N) (hs : list (list N * stmt)) (oe : stmt) (ob oh : outcome) : Prop :=
    forall astk, stack_ok stk astk ->
      forallb (fun ch => sites_bounded nsites (snd ch)) hs = true -> sites_bounded nsites oe = true ->
      match ob with
      | ONormal => sound_out (esc P nsites T x astk oe) oh
      | OAbrupt => oh = OAbrupt
      | ORaise i =>
          i < N.of_nat nsites -> forall rem, mem i rem = true ->
          let '(rh, rem') := go_h P nsites (fun h c => esc P nsites T x (c :: astk) h) hs rem in
          match oh with
          | ONormal => a_norm rh = true
          | OAbrupt => a_abr rh = true
          | ORaise j => (mem j (a_esc rh) = true \/ mem j rem' = true) /\ j < N.of_nat nsites
          end
      end.

  Lemma sound_mutual :
    (forall x stk s o, exec P x stk s o -> Pexec x stk s o) /\
    (forall x stk hs oe ob oh, handled P x stk hs oe ob oh -> Phandled x stk hs oe ob oh).
  Proof.
    apply exec_handled_ind; unfold Pexec, Phandled; intros.
    - (* Skip *) reflexivity.
    - (* Abrupt *) reflexivity.
    - (* Raise *) cbn [sites_bounded] in H0. cbn [esc sound_out a_esc]. split; [rewrite single_spec; apply N.eqb_refl | apply N.ltb_lt; assumption].
    - (* Reraise *)
      clear H1. cbn [esc sound_out a_esc]. destruct H0 as [F2 FB].
      revert k H. induction F2 as [|i0 S0 stk' astk' M F2 IH]; intros k H.
      + destruct k; discriminate.
      + destruct k as [|k]; simpl in H.
        * inversion H; subst. simpl. split; [exact M|]. inversion FB; assumption.
        * simpl. inversion FB; subst. apply IH; assumption.
    - (* Call *)
      destruct (body_le x f body H) as [LE BD].
      assert (S0 : sound_out (esc P nsites T x [] body) o).
      { apply H1; [split; constructor|exact BD]. }
      apply (ares_le_out _ _ _ LE) in S0.
      simpl. destruct o; simpl in *.
      + rewrite S0. reflexivity.
      + rewrite S0. apply orb_true_r.
      + exact S0.
    - (* SeqN *)
      simpl in H4. apply andb_true_iff in H4. destruct H4 as [Ba Bb].
      specialize (H0 astk H3 Ba). specialize (H2 astk H3 Bb). simpl in H0.
      simpl. rewrite H0. destruct o; simpl in *.
      + exact H2.
      + rewrite H2. apply orb_true_r.
      + destruct H2 as [M B]. split; [rewrite union_spec, M; apply orb_true_r|exact B].
    - (* SeqA *)
      simpl in H2. apply andb_true_iff in H2. destruct H2 as [Ba Bb].
      specialize (H0 astk H1 Ba). simpl in H0. simpl.
      destruct (a_norm (esc P nsites T x astk a)); simpl; [rewrite H0; reflexivity|exact H0].
    - (* SeqR *)
      simpl in H2. apply andb_true_iff in H2. destruct H2 as [Ba Bb].
      specialize (H0 astk H1 Ba). simpl in H0. destruct H0 as [M B]. simpl.
      destruct (a_norm (esc P nsites T x astk a)); simpl; split; try assumption.
      rewrite union_spec, M. reflexivity.
    - (* ChoiceL *)
      simpl in H2. apply andb_true_iff in H2. destruct H2 as [Ba Bb].
      specialize (H0 astk H1 Ba). simpl. destruct o; simpl in *.
      + rewrite H0. reflexivity.
      + rewrite H0. reflexivity.
      + destruct H0 as [M B]. split; [rewrite union_spec, M; reflexivity|exact B].
    - (* ChoiceR *)
      simpl in H2. apply andb_true_iff in H2. destruct H2 as [Ba Bb].
      specialize (H0 astk H1 Bb). simpl. destruct o; simpl in *.
      + rewrite H0. apply orb_true_r.
      + rewrite H0. apply orb_true_r.
      + destruct H0 as [M B]. split; [rewrite union_spec, M; apply orb_true_r|exact B].
    - (* LoopEnd *) reflexivity.
    - (* LoopNext *) apply H3; assumption.
    - (* LoopAbrupt *) simpl in H2. specialize (H0 astk H1 H2). exact H0.
    - (* LoopRaise *) simpl in H2. specialize (H0 astk H1 H2). exact H0.
    - (* Try *)
      simpl in H6.
      apply andb_true_iff in H6. destruct H6 as [H6 Bfin].
      apply andb_true_iff in H6. destruct H6 as [H6 Boe].
      apply andb_true_iff in H6. destruct H6 as [Bb Bhs].
      specialize (H0 astk H5 Bb). specialize (H2 astk H5 Bhs Boe). specialize (H4 astk H5 Bfin).
      simpl.
      destruct (go_h P nsites (fun h c => esc P nsites T x (c :: astk) h) hs (a_esc (esc P nsites T x astk b))) as [rh rem] eqn:G.
      destruct ofin; simpl in H4.
      + (* finally completes normally: outcome oh *)
        rewrite H4. simpl.
        destruct ob; simpl in H0.
        * rewrite H0. destruct oh; simpl in *.
          -- rewrite H2. reflexivity.
          -- rewrite H2. rewrite orb_true_r. reflexivity.
          -- destruct H2 as [M B]. split; [|exact B]. rewrite !union_spec, M. rewrite orb_true_r. reflexivity.
        * subst oh. simpl. rewrite H0. reflexivity.
        * destruct H0 as [M B]. specialize (H2 B _ M). rewrite G in H2.
          destruct oh; simpl.
          -- rewrite H2. apply orb_true_r.
          -- rewrite H2. rewrite !orb_true_r. reflexivity.
          -- destruct H2 as [[M2|M2] B2]; (split; [|exact B2]); rewrite !union_spec, M2; simpl; rewrite ?orb_true_r; reflexivity.
      + cbn [sound_out a_abr]. rewrite H4. apply orb_true_r.
      + destruct H4 as [M B]. cbn [sound_out a_esc]. split; [|exact B]. rewrite !union_spec, M. apply orb_true_r.
    - (* IfX *)
      simpl in H2. apply andb_true_iff in H2. destruct H2 as [Ba Bb].
      simpl. destruct x; apply H0; assumption.
    - (* WithX *) simpl in H2. simpl. apply H0; assumption.
    - (* HNormal *) apply H0; assumption.
    - (* HAbrupt *) reflexivity.
    - (* HUncaught *) simpl. split; [right; assumption|assumption].
    - (* HCaught *)
      rename H5 into B, H6 into M. simpl.
      simpl in H3. apply andb_true_iff in H3. destruct H3 as [Bh Bhs].
      set (c := caught_of P cs nsites rem).
      assert (Mc : mem i c = true).
      { unfold c. rewrite caught_of_spec, M, H. apply N.ltb_lt in B. rewrite B. reflexivity. }
      assert (C0 : N.eqb c 0 = false).
      { destruct (N.eqb_spec c 0) as [E|E]; [|reflexivity]. rewrite E, mem_0 in Mc. discriminate. }
      rewrite C0.
      assert (S0 : sound_out (esc P nsites T x (c :: astk) h) o).
      { apply H1; [|exact Bh]. destruct H2 as [F2 FB]. split; constructor; assumption. }
      destruct (go_h P nsites (fun h0 c0 => esc P nsites T x (c0 :: astk) h0) hs (N.ldiff rem c)) as [acc r'].
      destruct o; simpl in *.
      + rewrite S0. reflexivity.
      + rewrite S0. reflexivity.
      + destruct S0 as [M2 B2]. split; [left; rewrite union_spec, M2; reflexivity|exact B2].
    - (* HSkip *)
      rename H5 into B, H6 into M. simpl.
      simpl in H3. apply andb_true_iff in H3. destruct H3 as [Bh Bhs].
      set (c := caught_of P cs nsites rem).
      assert (Mc : mem i c = false).
      { unfold c. rewrite caught_of_spec, H. rewrite !andb_false_r. reflexivity. }
      assert (Mr : mem i (N.ldiff rem c) = true) by (rewrite ldiff_spec, M, Mc; reflexivity).
      specialize (H1 astk H2 Bhs H4 B _ Mr).
      destruct (go_h P nsites (fun h0 c0 => esc P nsites T x (c0 :: astk) h0) hs (N.ldiff rem c)) as [acc r'].
      destruct o; simpl in *.
      + rewrite H1. apply orb_true_r.
      + rewrite H1. apply orb_true_r.
      + destruct H1 as [[M2|M2] B2]; (split; [|exact B2]).
        * left. rewrite union_spec, M2. apply orb_true_r.
        * right. exact M2.
  Qed.

  (* The theorem used per entry point: whatever site an execution of entry point f raises is in the
     summary of f — for ANY post-fixpoint table T (the check `postfix` is evaluated on the generated IR). *)
  Theorem escapes_sound x f i :
    exec P x [] (Call f) (ORaise i) -> mem i (escapes P nsites T x f) = true.
  Proof.
    intro E. destruct sound_mutual as [S _].
    specialize (S _ _ _ _ E []).
    assert (K : stack_ok [] []) by (split; constructor).
    specialize (S K eq_refl). simpl in S. exact (proj1 S).
  Qed.
End Sound.

Lemma members_spec n s i : In i (members n s) <-> (i < N.of_nat n /\ mem i s = true).
Proof.
  induction n as [|n IH]; cbn [members].
  - split; [contradiction|]. intros [H _]. simpl in H. lia.
  - rewrite Nat2N.inj_succ. destruct (mem (N.of_nat n) s) eqn:M.
    + rewrite in_app_iff, IH. cbn [In]. split.
      * intros [[H1 H2]|[H|[]]]; [split; [lia|exact H2]|subst; split; [lia|exact M]].
      * intros [H1 H2]. destruct (N.eqb_spec i (N.of_nat n)) as [E|E]; [right; left; auto|left; split; [lia|exact H2]].
    + rewrite IH. split.
      * intros [H1 H2]. split; [lia|exact H2].
      * intros [H1 H2]. split; [|exact H2].
        destruct (N.eqb_spec i (N.of_nat n)) as [E|E]; [subst; rewrite M in H2; discriminate|lia].
Qed.

(* ---- the oracle-driven interpreter only follows executions of the semantics ---------------------- *)
Lemma first_handler_handled P x stk hs oe i oh :
  match first_handler P hs i with
  | None => oh = ORaise i
  | Some h => exec P x (i :: stk) h oh
  end -> handled P x stk hs oe (ORaise i) oh.
Proof.
  induction hs as [|[cs h] hs IH]; simpl; intro H.
  - subst oh. constructor.
  - destruct (catches P cs i) eqn:C.
    + eapply HCaught; eassumption.
    + apply HSkip; [exact C|apply IH; exact H].
Qed.

Lemma run_sound P fuel : forall x stk s orc o orc',
  run P fuel x stk s orc = Some (o, orc') -> exec P x stk s o.
Proof.
  induction fuel as [|fuel IH]; intros x stk s orc o orc' H; [discriminate|].
  destruct s; cbn [run] in H.
  - inversion H; subst. constructor.
  - inversion H; subst. constructor.
  - inversion H; subst. constructor.
  - destruct (nth_error stk k) eqn:E; [|discriminate]. inversion H; subst. constructor. exact E.
  - destruct (nth_error (p_funs P) (N.to_nat f)) as [body|] eqn:E; [|discriminate].
    destruct (run P fuel x [] body orc) as [[o1 orc1]|] eqn:R; [|discriminate].
    inversion H; subst. unfold out_of_call. eapply ECall; [exact E|eapply IH; exact R].
  - destruct (run P fuel x stk s1 orc) as [[o1 orc1]|] eqn:R; [|discriminate].
    destruct o1.
    + eapply ESeqN; [eapply IH; exact R|eapply IH; exact H].
    + inversion H; subst. apply ESeqA. eapply IH; exact R.
    + inversion H; subst. apply ESeqR. eapply IH; exact R.
  - destruct orc as [|c orc1]; [discriminate|].
    destruct c; [apply EChoiceL|apply EChoiceR]; eapply IH; exact H.
  - destruct orc as [|c orc1]; [discriminate|].
    destruct c.
    + destruct (run P fuel x stk s orc1) as [[o1 orc2]|] eqn:R; [|discriminate].
      destruct o1.
      * eapply ELoopNext; [eapply IH; exact R|reflexivity|eapply IH; exact H].
      * inversion H; subst. apply ELoopAbrupt. eapply IH; exact R.
      * inversion H; subst. apply ELoopRaise. eapply IH; exact R.
    + inversion H; subst. constructor.
  - destruct (run P fuel x stk s1 orc) as [[ob orc1]|] eqn:Rb; [|discriminate].
    match type of H with match ?rh with _ => _ end = _ => destruct rh as [[oh orc2]|] eqn:Rh end; [|discriminate].
    destruct (run P fuel x stk s3 orc2) as [[ofin orc3]|] eqn:Rf; [|discriminate].
    inversion H; subst.
    eapply ETry; [eapply IH; exact Rb| |eapply IH; exact Rf].
    destruct ob.
    + apply HNormal. eapply IH; exact Rh.
    + inversion Rh; subst. apply HAbrupt.
    + apply first_handler_handled.
      destruct (first_handler P handlers i) as [h|].
      * eapply IH; exact Rh.
      * inversion Rh; reflexivity.
  - apply EIfX. eapply IH; exact H.
  - apply EWithX. eapply IH; exact H.
Qed.

(* escapes_sound together with the bound on the site (needed to enumerate the escape set as a list) *)
Theorem escapes_sound_bounded P nsites T x f i :
  postfix P nsites T = true ->
  exec P x [] (Call f) (ORaise i) -> In i (members nsites (escapes P nsites T x f)).
Proof.
  intros HP E. destruct (sound_mutual P nsites T HP) as [S _].
  specialize (S _ _ _ _ E []).
  assert (K : stack_ok nsites [] []) by (split; constructor).
  specialize (S K eq_refl). simpl in S. apply members_spec. split; [exact (proj2 S)|exact (proj1 S)].
Qed.

(* a function whose summary says "cannot complete normally" never returns *)
Theorem no_normal_return P nsites T x f :
  postfix P nsites T = true ->
  (let r := lookup T x f in a_norm r || a_abr r) = false ->
  ~ exec P x [] (Call f) ONormal.
Proof.
  intros HP HN E. destruct (sound_mutual P nsites T HP) as [S _].
  specialize (S _ _ _ _ E []).
  assert (K : stack_ok nsites [] []) by (split; constructor).
  specialize (S K eq_refl). simpl in S. simpl in HN. rewrite S in HN. discriminate.
Qed.

(* C19 — change_to_path_dir is a bracket: whatever happens inside, the process state is restored, and
   relative paths resolve against the directory of the config file that mentions them, for any
   nesting. Induction over the tree of config files. *)
From JV Require Import Lib.Base Model.C19PathMode Model.C19Cwd Spec.C19CwdSpec Proofs.C19ModeProofs.

(* ---- nested induction principle for node -------------------------------------------------------- *)
Section NodeInd.
  Variable P : node -> Prop.
  Hypothesis HPath : forall id g, P (NPath id g).
  Hypothesis HLoad : forall g body, Forall P body -> P (NLoad g body).
  Hypothesis HList : forall y g body, Forall P body -> P (NListFile y g body).
  Hypothesis HInline : forall body, Forall P body -> P (NInline body).
  Hypothesis HBad : P NBad.

  Fixpoint node_ind2 (n : node) : P n :=
    let fix all (l : list node) : Forall P l :=
      match l with
      | [] => Forall_nil P
      | x :: l' => Forall_cons x (node_ind2 x) (all l')
      end in
    match n with
    | NPath id g => HPath id g
    | NLoad g body => HLoad g body (all body)
    | NListFile y g body => HList y g body (all body)
    | NInline body => HInline body (all body)
    | NBad => HBad
    end.
End NodeInd.

(* ---- path arithmetic ------------------------------------------------------------------------------ *)
Lemma rstrip_nil h : rstrip_slash h = [] <-> forallb is_slash h = true.
Proof.
  induction h as [|x h IH]; simpl; [tauto|].
  unfold is_slash at 1. destruct (N.eqb x slash); simpl.
  - destruct (rstrip_slash h) eqn:E.
    + split; intros _; [apply IH|]; reflexivity.
    + split; intro H; [discriminate|]. apply IH in H. discriminate.
  - split; discriminate.
Qed.

Lemma dirname_abs p : is_abs p = true -> is_abs (dirname p) = true /\ nonempty (dirname p) = true.
Proof.
  destruct p as [|c p]; [discriminate|]. intro H.
  assert (Hc : is_slash c = true) by exact H.
  unfold dirname. cbn [head_to_last_slash]. rewrite Hc.
  set (h := head_to_last_slash p).
  cbn [forallb]. rewrite Hc. cbn [andb].
  destruct (forallb is_slash h) eqn:E.
  - split; [exact H|reflexivity].
  - cbn [rstrip_slash]. change (N.eqb c slash) with (is_slash c). rewrite Hc. cbn [andb].
    destruct (rstrip_slash h) eqn:R.
    + assert (X : forallb is_slash h = true) by (apply rstrip_nil; exact R). congruence.
    + split; [exact H|reflexivity].
Qed.

Lemma normpath_abs p : is_abs p = true -> is_abs (normpath p) = true.
Proof.
  destruct p as [|c p]; [discriminate|]. intro H. unfold normpath. rewrite H.
  assert (S1 : forall x, is_abs (match (slash :: x) with [] => dot | r => r end) = true)
    by (intro x; reflexivity).
  destruct p as [|c2 rest].
  - simpl repeat. apply S1.
  - destruct (is_slash c2 && negb match rest with [] => false | c3 :: _ => is_slash c3 end);
      simpl repeat; apply S1.
Qed.

Lemma st_eta s : {| cwd := cwd s; cpd := cpd s |} = s.
Proof. destruct s; reflexivity. Qed.

(* ---- the bracket ------------------------------------------------------------------------------------ *)
(* If the body, started in any state with an absolute cwd, hands that state back, then so does the
   bracket — for a result Ok or Err alike — and the body ran in the directory of the path. *)
Lemma bracket_none A (body : st -> st * res A) (r_of : str -> res A) s :
  (forall s', is_abs (cwd s') = true -> body s' = (s', r_of (cwd s'))) ->
  is_abs (cwd s) = true ->
  bracket None body s = (s, r_of (cwd s)).
Proof.
  intros Hb Hs. unfold bracket.
  destruct (cpd s) eqn:E; simpl.
  - rewrite <- E, st_eta, (Hb s Hs). rewrite st_eta. reflexivity.
  - rewrite <- E, st_eta, (Hb s Hs). rewrite st_eta. reflexivity.
Qed.

Lemma bracket_some A (body : st -> st * res A) (r_of : str -> res A) a s :
  (forall s', is_abs (cwd s') = true -> body s' = (s', r_of (cwd s'))) ->
  is_abs a = true ->
  bracket (Some a) body s = (s, r_of (normpath (dirname a))).
Proof.
  intros Hb Ha. unfold bracket.
  destruct (dirname_abs a Ha) as [Hd Hn]. rewrite Hn. simpl.
  rewrite Hb by (simpl; apply normpath_abs; exact Hd). simpl.
  rewrite st_eta. reflexivity.
Qed.

(* ---- step 1: the brackets can be eliminated ------------------------------------------------------------
   What the code computes is a pure function of the base directory (pure_node, the code's behaviour with
   the state threaded away), and the state comes back untouched. *)
Section Main.
  Variable fxs : fixes.
  Variable files : list str.

  Fixpoint pure_node (base : str) (n : node) : res (list item) :=
    match n with
    | NPath id given =>
        if present files base given then Ok [(id, given, base, join base given)] else Err
    | NLoad given body =>
        if present files base given then spec_list pure_node (dir_of base given) body else Err
    | NListFile yaml_ok given body =>
        if present files base given then
          let d := dir_of base given in
          if yaml_ok && negb (fx_lf fxs) then
            (if present files d given then spec_list pure_node (dir_of d given) body else Err)
          else spec_list pure_node d body
        else Err
    | NInline body => spec_list pure_node base body
    | NBad => Err
    end.

  Definition pure_top (cwd0 top : str) (body : list node) : res (list item) :=
    if present files cwd0 top then spec_list pure_node (dir_of cwd0 top) body else Err.

  Definition node_ok (n : node) : Prop :=
    forall s, is_abs (cwd s) = true -> run_node fxs files n s = (s, pure_node (cwd s) n).

  Lemma open_fr_spec s g :
    open_fr files s g = if present files (cwd s) g then Ok (cwd s, join (cwd s) g) else Err.
  Proof. reflexivity. Qed.

  Lemma seq_ok body : Forall node_ok body ->
    forall s, is_abs (cwd s) = true ->
      seq_nodes (run_node fxs files) body s = (s, spec_list pure_node (cwd s) body).
  Proof.
    induction 1 as [|n l Hn _ IH]; intros s Hs; simpl; [reflexivity|].
    rewrite (Hn s Hs). destruct (pure_node (cwd s) n); [|reflexivity].
    rewrite (IH s Hs). reflexivity.
  Qed.

  Lemma each_ok a body : Forall node_ok body -> is_abs a = true ->
    forall s, is_abs (cwd s) = true ->
      each_in_bracket (run_node fxs files) a body s
      = (s, spec_list pure_node (normpath (dirname a)) body).
  Proof.
    intros HF Ha. induction HF as [|n l Hn _ IH]; intros s Hs; simpl; [reflexivity|].
    rewrite (bracket_some _ (run_node fxs files n) (fun c => pure_node c n) a s Hn Ha).
    destruct (pure_node (normpath (dirname a)) n); [|reflexivity].
    rewrite (IH s Hs). reflexivity.
  Qed.

  Lemma run_node_pure : forall n, node_ok n.
  Proof.
    apply node_ind2; unfold node_ok.
    - (* NPath *) intros id g s Hs. simpl run_node.
      rewrite (bracket_none _ _ (fun c => if present files c g then Ok [(id, g, c, join c g)] else Err) s);
        [reflexivity| |exact Hs].
      intros s' _. rewrite open_fr_spec. destruct (present files (cwd s') g); reflexivity.
    - (* NLoad *) intros g body HF s Hs. simpl run_node. rewrite open_fr_spec. simpl pure_node.
      destruct (present files (cwd s) g); [|reflexivity].
      assert (Ha : is_abs (join (cwd s) g) = true) by (apply join_abs; exact Hs).
      rewrite (bracket_some _ (fun s' => (s', Ok tt)) (fun _ => Ok tt) _ s); [|reflexivity|exact Ha].
      rewrite (bracket_some _ _ (fun c => spec_list pure_node c body) _ s);
        [reflexivity| |exact Ha].
      intros s' Hs'. apply seq_ok; assumption.
    - (* NListFile *) intros y g body HF s Hs. simpl run_node. rewrite open_fr_spec. simpl pure_node.
      destruct (present files (cwd s) g) eqn:Hp; [|reflexivity].
      assert (Ha : is_abs (join (cwd s) g) = true) by (apply join_abs; exact Hs).
      assert (Hfb : forall s', is_abs (cwd s') = true ->
                (match open_fr files s' g with
                 | Ok (_, a2) => each_in_bracket (run_node fxs files) a2 body s'
                 | Err => (s', Err)
                 end) = (s', if present files (cwd s') g
                             then spec_list pure_node (dir_of (cwd s') g) body else Err)).
      { intros s' Hs'. rewrite open_fr_spec. destruct (present files (cwd s') g); [|reflexivity].
        apply each_ok; [exact HF| |exact Hs']. apply join_abs; exact Hs'. }
      destruct y; cbn [andb].
      + rewrite (bracket_some _ (fun s' => (s', Ok tt)) (fun _ => Ok tt) _ s); [|reflexivity|exact Ha].
        rewrite (bracket_some _ (fun s' => (s', @Err unit)) (fun _ => Err) _ s); [|reflexivity|exact Ha].
        destruct (fx_lf fxs); cbn [negb].
        * rewrite (Hfb s Hs), Hp. reflexivity.
        * rewrite (bracket_some _ _ (fun c => if present files c g
                                             then spec_list pure_node (dir_of c g) body else Err) _ s);
            [reflexivity|exact Hfb|exact Ha].
      + rewrite (bracket_some _ (fun s' => (s', @Err unit)) (fun _ => Err) _ s); [|reflexivity|exact Ha].
        rewrite (bracket_none _ _ (fun c => if present files c g
                                           then spec_list pure_node (dir_of c g) body else Err) s);
          [rewrite Hp; reflexivity|exact Hfb|exact Hs].
    - (* NInline *) intros body HF s Hs. simpl run_node. simpl pure_node.
      rewrite (bracket_none _ _ (fun c => spec_list pure_node c body) s);
        [reflexivity| |exact Hs].
      intros s' Hs'. apply seq_ok; assumption.
    - (* NBad *) intros s _. reflexivity.
  Qed.

  Lemma run_top_pure : forall s top body, is_abs (cwd s) = true ->
    run_top fxs files s top body = (s, pure_top (cwd s) top body).
  Proof.
    intros s top body Hs. unfold run_top, pure_top. rewrite open_fr_spec.
    destruct (present files (cwd s) top); [|reflexivity].
    rewrite (bracket_some _ _ (fun c => spec_list pure_node c body) _ s);
      [reflexivity| |apply join_abs; exact Hs].
    intros s' Hs'. apply seq_ok; [|exact Hs'].
    apply Forall_forall. intros n _. apply run_node_pure.
  Qed.

  (* ---- step 2: inside the guard, what the code computes is the reference semantics -------------------- *)
  Lemma spec_list_ext (f g : str -> node -> res (list item)) base l :
    Forall (fun n => f base n = g base n) l -> spec_list f base l = spec_list g base l.
  Proof.
    induction 1 as [|n l Hn _ IH]; simpl; [reflexivity|]. rewrite Hn, IH. reflexivity.
  Qed.

  Lemma guard_list (P : node -> Prop) (gd : node -> bool) (l : list node) :
    Forall (fun n => gd n = true -> P n) l -> forallb gd l = true -> Forall P l.
  Proof.
    induction 1 as [|n l Hn _ IH]; simpl; intro H; [constructor|].
    apply andb_true_iff in H. destruct H as [H1 H2]. constructor; auto.
  Qed.

  Lemma pure_is_spec : forall n base,
    lf_guard files (fx_lf fxs) base n = true -> pure_node base n = spec_node files base n.
  Proof.
    apply (node_ind2 (fun n => forall base, lf_guard files (fx_lf fxs) base n = true ->
                                 pure_node base n = spec_node files base n)).
    - reflexivity.
    - intros g body HF base H. simpl in *. destruct (present files base g); [|reflexivity].
      simpl in H. apply spec_list_ext.
      apply (guard_list _ (lf_guard files (fx_lf fxs) (dir_of base g))); [|exact H].
      rewrite Forall_forall in *. intros n Hn. apply HF. exact Hn.
    - intros y g body HF base H. simpl in *. destruct (present files base g); [|reflexivity].
      simpl in H. apply andb_true_iff in H. destruct H as [H H3].
      assert (X : spec_list pure_node (dir_of base g) body = spec_list (spec_node files) (dir_of base g) body).
      { apply spec_list_ext.
        apply (guard_list _ (lf_guard files (fx_lf fxs) (dir_of base g))); [|exact H3].
        rewrite Forall_forall in *. intros n Hn. apply HF. exact Hn. }
      destruct y; cbn [andb]; [|exact X].
      destruct (fx_lf fxs); cbn [negb]; [exact X|].
      simpl in H. apply andb_true_iff in H. destruct H as [H1 H2].
      rewrite H1. apply str_eqb_spec in H2. rewrite H2. exact X.
    - intros body HF base H. simpl in *. apply spec_list_ext.
      apply (guard_list _ (lf_guard files (fx_lf fxs) base)); [|exact H].
      rewrite Forall_forall in *. intros n Hn. apply HF. exact Hn.
    - reflexivity.
  Qed.

  Lemma run_top_ok : forall s top body, is_abs (cwd s) = true ->
    tree_guard files (fx_lf fxs) (cwd s) top body = true ->
    run_top fxs files s top body = (s, spec_top files (cwd s) top body).
  Proof.
    intros s top body Hs Hg. rewrite (run_top_pure s top body Hs). f_equal.
    unfold pure_top, spec_top. unfold tree_guard in Hg.
    destruct (present files (cwd s) top); [|reflexivity]. simpl in Hg.
    apply spec_list_ext.
    apply (guard_list _ (lf_guard files (fx_lf fxs) (dir_of (cwd s) top))); [|exact Hg].
    apply Forall_forall. intros n _. apply pure_is_spec.
  Qed.

  Lemma run_node_ok : forall n s, is_abs (cwd s) = true ->
    lf_guard files (fx_lf fxs) (cwd s) n = true ->
    run_node fxs files n s = (s, spec_node files (cwd s) n).
  Proof.
    intros n s Hs Hg. rewrite (run_node_pure n s Hs). f_equal. apply pure_is_spec. exact Hg.
  Qed.
End Main.

(* with the list-file repair every tree is inside the guard *)
Lemma lf_guard_fixed files : forall n base, lf_guard files true base n = true.
Proof.
  apply (node_ind2 (fun n => forall base, lf_guard files true base n = true)); simpl; intros; try reflexivity.
  - apply orb_true_iff. right. apply forallb_forall. intros n Hn. rewrite Forall_forall in H. apply H. exact Hn.
  - apply orb_true_iff. right. apply forallb_forall. intros n Hn. rewrite Forall_forall in H. apply H. exact Hn.
  - apply forallb_forall. intros n Hn. rewrite Forall_forall in H. apply H. exact Hn.
Qed.

Lemma tree_guard_fixed files cwd0 top body : tree_guard files true cwd0 top body = true.
Proof.
  unfold tree_guard. apply orb_true_iff. right. apply forallb_forall. intros n _. apply lf_guard_fixed.
Qed.

Lemma run_top_repaired : forall fxs files s top body,
  fx_lf fxs = true -> is_abs (cwd s) = true ->
  snd (run_top fxs files s top body) = spec_top files (cwd s) top body.
Proof.
  intros fxs files s top body L H.
  rewrite (run_top_ok fxs files s top body H); [reflexivity|]. rewrite L. apply tree_guard_fixed.
Qed.

(* ---- what breaks without the `finally`: the bracket written as plain sequencing ------------------ *)
(* (used only to show that the restoration theorem is not vacuous) *)
Definition bracket_no_finally {A} (path : option str) (body : st -> st * res A) (s : st) : st * res A :=
  match path with
  | None => body s
  | Some a =>
      let s2 := {| cwd := normpath (dirname a); cpd := Some (dirname a) |} in
      let '(s3, r) := body s2 in
      match r with
      | Ok _ => (s, r)
      | Err => (s3, r)       (* the exception skips the restoring statements *)
      end
  end.

(* C19 — change_to_path_dir is a bracket: whatever happens inside, the process state is restored, and
   relative paths resolve against the directory of the config file that mentions them, for any
   nesting. Induction over the tree of config files. *)
From JV Require Import Lib.Base Model.C19PathMode Model.C19Cwd Spec.C19CwdSpec Proofs.C19ModeProofs.

(* ---- nested induction principle for node -------------------------------------------------------- *)
Section NodeInd.
  Variable P : node -> Prop.
  Hypothesis HPath : forall id g, P (NPath id g).
  Hypothesis HLoad : forall g body, Forall P body -> P (NLoad g body).
  Hypothesis HList : forall y g body, Forall P body -> P (NListFile y g body).
  Hypothesis HInline : forall body, Forall P body -> P (NInline body).
  Hypothesis HBad : P NBad.

  Fixpoint node_ind2 (n : node) : P n :=
    let fix all (l : list node) : Forall P l :=
      match l with
      | [] => Forall_nil P
      | x :: l' => Forall_cons x (node_ind2 x) (all l')
      end in
    match n with
    | NPath id g => HPath id g
    | NLoad g body => HLoad g body (all body)
    | NListFile y g body => HList y g body (all body)
    | NInline body => HInline body (all body)
    | NBad => HBad
    end.
End NodeInd.

(* ---- path arithmetic ------------------------------------------------------------------------------ *)
Lemma rstrip_nil h : rstrip_slash h = [] <-> forallb is_slash h = true.
Proof.
  induction h as [|x h IH]; simpl; [tauto|].
  unfold is_slash at 1. destruct (N.eqb x slash); simpl.
  - destruct (rstrip_slash h) eqn:E.
    + split; intros _; [apply IH|]; reflexivity.
    + split; intro H; [discriminate|]. apply IH in H. discriminate.
  - split; discriminate.
Qed.

Lemma dirname_abs p : is_abs p = true -> is_abs (dirname p) = true /\ nonempty (dirname p) = true.
Proof.
  destruct p as [|c p]; [discriminate|]. intro H.
  assert (Hc : is_slash c = true) by exact H.
  unfold dirname. cbn [head_to_last_slash]. rewrite Hc.
  set (h := head_to_last_slash p).
  cbn [forallb]. rewrite Hc. cbn [andb].
  destruct (forallb is_slash h) eqn:E.
  - split; [exact H|reflexivity].
  - cbn [rstrip_slash]. change (N.eqb c slash) with (is_slash c). rewrite Hc. cbn [andb].
    destruct (rstrip_slash h) eqn:R.
    + assert (X : forallb is_slash h = true) by (apply rstrip_nil; exact R). congruence.
    + split; [exact H|reflexivity].
Qed.

Lemma normpath_abs p : is_abs p = true -> is_abs (normpath p) = true.
Proof.
  destruct p as [|c p]; [discriminate|]. intro H. unfold normpath. rewrite H.
  assert (S1 : forall x, is_abs (match (slash :: x) with [] => dot | r => r end) = true)
    by (intro x; reflexivity).
  destruct p as [|c2 rest].
  - simpl repeat. apply S1.
  - destruct (is_slash c2 && negb match rest with [] => false | c3 :: _ => is_slash c3 end);
      simpl repeat; apply S1.
Qed.

Lemma st_eta s : {| cwd := cwd s; cpd := cpd s |} = s.
Proof. destruct s; reflexivity. Qed.

(* ---- the bracket ------------------------------------------------------------------------------------ *)
(* If the body, started in any state with an absolute cwd, hands that state back, then so does the
   bracket — for a result Ok or Err alike — and the body ran in the directory of the path. *)
Lemma kresolve_abs links p : is_abs (kresolve links p) = true.
Proof. reflexivity. Qed.

Lemma bracket_none fxs links dir_ok A (body : st -> st * res A) (r : res A) s :
  body s = (s, r) ->
  bracket fxs links dir_ok None body s = (s, r).
Proof.
  intros Hb. unfold bracket. cbn [cwd cpd]. rewrite st_eta, Hb. rewrite st_eta. reflexivity.
Qed.

Lemma bracket_some fxs links dir_ok A (body : st -> st * res A) (r : res A) a s :
  is_abs a = true ->
  dir_ok (chdir_dir fxs links a) = true ->
  (forall s', cwd s' = chdir_dir fxs links a -> body s' = (s', r)) ->
  bracket fxs links dir_ok (Some a) body s = (s, r).
Proof.
  intros Ha Hd Hb. unfold bracket.
  destruct (dirname_abs a Ha) as [_ Hn]. rewrite Hn. cbn [cwd cpd]. rewrite Hd.
  rewrite Hb by reflexivity. rewrite st_eta. reflexivity.
Qed.

(* ---- step 1: the brackets can be eliminated ------------------------------------------------------------
   What the code computes is a pure function of the base directory (pure_node, the code's behaviour with
   the state threaded away), and the state comes back untouched — provided every directory it enters can be
   entered (enter_guard). *)
Section Main.
  Variable fxs : fixes.
  Variable files : list str.
  Variable links : list (str * str).
  Variable dir_ok : str -> bool.

  (* the directory the code enters for a file spelled g in base *)
  Definition mdir (base g : str) : str := chdir_dir fxs links (join base g).

  Lemma mdir_cdir base g : mdir base g = cdir links (fx_rp fxs) base g.
  Proof. reflexivity. Qed.

  Fixpoint pure_node (base : str) (n : node) : res (list item) :=
    match n with
    | NPath id given =>
        if present files links base given then Ok [(id, given, base, join base given)] else Err
    | NLoad given body =>
        if present files links base given then spec_list pure_node (mdir base given) body else Err
    | NListFile yaml_ok given body =>
        if present files links base given then
          let d := mdir base given in
          if yaml_ok && negb (fx_lf fxs) then
            (if present files links d given then spec_list pure_node (mdir d given) body else Err)
          else spec_list pure_node d body
        else Err
    | NInline body => spec_list pure_node base body
    | NBad => Err
    end.

  Definition pure_top (cwd0 top : str) (body : list node) : res (list item) :=
    if present files links cwd0 top then spec_list pure_node (mdir cwd0 top) body else Err.

  Notation EG := (enter_guard files links (fx_lf fxs) (fx_rp fxs) dir_ok).
  Notation RUN := (run_node fxs files links dir_ok).

  Definition node_ok (n : node) : Prop :=
    forall s, is_abs (cwd s) = true -> EG (cwd s) n = true -> RUN n s = (s, pure_node (cwd s) n).

  Lemma open_fr_spec s g :
    open_fr files links s g = if present files links (cwd s) g then Ok (cwd s, join (cwd s) g) else Err.
  Proof. reflexivity. Qed.

  Lemma seq_ok body : Forall node_ok body ->
    forall s, is_abs (cwd s) = true -> forallb (EG (cwd s)) body = true ->
      seq_nodes RUN body s = (s, spec_list pure_node (cwd s) body).
  Proof.
    induction 1 as [|n l Hn _ IH]; intros s Hs Hg; simpl; [reflexivity|].
    simpl in Hg. apply andb_true_iff in Hg. destruct Hg as [Hg1 Hg2].
    rewrite (Hn s Hs Hg1). destruct (pure_node (cwd s) n); [|reflexivity|reflexivity].
    rewrite (IH s Hs Hg2). reflexivity.
  Qed.

  Lemma each_ok a body : Forall node_ok body -> is_abs a = true ->
    dir_ok (chdir_dir fxs links a) = true ->
    forallb (EG (chdir_dir fxs links a)) body = true ->
    forall s,
      each_in_bracket fxs links dir_ok RUN a body s
      = (s, spec_list pure_node (chdir_dir fxs links a) body).
  Proof.
    intros HF Ha Hd. induction HF as [|n l Hn _ IH]; intros Hg s; simpl; [reflexivity|].
    simpl in Hg. apply andb_true_iff in Hg. destruct Hg as [Hg1 Hg2].
    rewrite (bracket_some fxs links dir_ok _ (RUN n) (pure_node (chdir_dir fxs links a) n) a s Ha Hd).
    - destruct (pure_node (chdir_dir fxs links a) n); [|reflexivity|reflexivity].
      rewrite (IH Hg2 s). reflexivity.
    - intros s' E. rewrite <- E. apply Hn; [rewrite E; apply kresolve_abs|rewrite E; exact Hg1].
  Qed.

  Lemma run_node_pure : forall n, node_ok n.
  Proof.
    apply node_ind2; unfold node_ok.
    - (* NPath *) intros id g s Hs _. simpl run_node.
      apply bracket_none. rewrite open_fr_spec. simpl pure_node. destruct (present files links (cwd s) g); reflexivity.
    - (* NLoad *) intros g body HF s Hs Hg. simpl run_node. rewrite open_fr_spec. simpl pure_node.
      simpl in Hg. destruct (present files links (cwd s) g); [|reflexivity]. simpl in Hg.
      apply andb_true_iff in Hg. destruct Hg as [Hd Hg]. rewrite <- mdir_cdir in Hd, Hg.
      assert (Ha : is_abs (join (cwd s) g) = true) by (apply join_abs; exact Hs).
      rewrite (bracket_some fxs links dir_ok _ (fun s' => (s', Ok tt)) (Ok tt) _ s Ha Hd); [|reflexivity].
      unfold then_.
      apply (bracket_some fxs links dir_ok _ _ _ _ s Ha Hd).
      intros s' E. change (chdir_dir fxs links (join (cwd s) g)) with (mdir (cwd s) g) in E.
      rewrite <- E. apply seq_ok; [exact HF|rewrite E; apply kresolve_abs|rewrite E; exact Hg].
    - (* NListFile *) intros y g body HF s Hs Hg. simpl run_node. rewrite open_fr_spec. simpl pure_node.
      simpl in Hg. destruct (present files links (cwd s) g) eqn:Hp; [|reflexivity]. simpl in Hg.
      apply andb_true_iff in Hg. destruct Hg as [Hd Hg]. rewrite <- mdir_cdir in Hd, Hg.
      assert (Ha : is_abs (join (cwd s) g) = true) by (apply join_abs; exact Hs).
      (* the fallback, started in a state whose cwd is c, provided the list file's directory as seen from c is fine *)
      assert (Hfb : forall s', is_abs (cwd s') = true ->
                (present files links (cwd s') g = true ->
                   dir_ok (mdir (cwd s') g) = true /\ forallb (EG (mdir (cwd s') g)) body = true) ->
                (match open_fr files links s' g with
                 | Ok (_, a2) => each_in_bracket fxs links dir_ok RUN a2 body s'
                 | Err => (s', Err)
                 | ErrOs => (s', ErrOs)
                 end) = (s', if present files links (cwd s') g
                             then spec_list pure_node (mdir (cwd s') g) body else Err)).
      { intros s' Hs' Hok. rewrite open_fr_spec. destruct (present files links (cwd s') g); [|reflexivity].
        destruct (Hok eq_refl) as [H1 H2].
        apply each_ok; [exact HF|apply join_abs; exact Hs'|exact H1|exact H2]. }
      destruct y; cbn [andb] in *.
      + rewrite (bracket_some fxs links dir_ok _ (fun s' => (s', Ok tt)) (Ok tt) _ s Ha Hd); [|reflexivity].
        unfold then_ at 1.
        rewrite (bracket_some fxs links dir_ok _ (fun s' => (s', @Err unit)) Err _ s Ha Hd); [|reflexivity].
        unfold then_.
        destruct (fx_lf fxs); cbn [negb] in *.
        * rewrite (Hfb s Hs); [rewrite Hp; reflexivity|]. intros _. split; [exact Hd|exact Hg].
        * apply (bracket_some fxs links dir_ok _ _ _ _ s Ha Hd).
          intros s' E. change (chdir_dir fxs links (join (cwd s) g)) with (mdir (cwd s) g) in E.
          rewrite (Hfb s'); [rewrite E; reflexivity|rewrite E; apply kresolve_abs|].
          rewrite E. intros Hp2. rewrite Hp2 in Hg. simpl in Hg.
          apply andb_true_iff in Hg. rewrite <- mdir_cdir in Hg. exact Hg.
      + rewrite (bracket_some fxs links dir_ok _ (fun s' => (s', @Err unit)) Err _ s Ha Hd); [|reflexivity].
        unfold then_.
        apply bracket_none. rewrite (Hfb s Hs); [rewrite Hp; reflexivity|].
        intros _. split; [exact Hd|exact Hg].
    - (* NInline *) intros body HF s Hs Hg. simpl run_node. simpl pure_node.
      apply bracket_none. apply seq_ok; assumption.
    - (* NBad *) intros s _ _. reflexivity.
  Qed.

  Lemma run_top_pure : forall s top body, is_abs (cwd s) = true ->
    tree_enter_guard files links (fx_lf fxs) (fx_rp fxs) dir_ok (cwd s) top body = true ->
    run_top fxs files links dir_ok s top body = (s, pure_top (cwd s) top body).
  Proof.
    intros s top body Hs Hg. unfold run_top, pure_top. rewrite open_fr_spec.
    unfold tree_enter_guard in Hg.
    destruct (present files links (cwd s) top); [|reflexivity]. simpl in Hg.
    apply andb_true_iff in Hg. destruct Hg as [Hd Hg]. rewrite <- mdir_cdir in Hd, Hg.
    apply (bracket_some fxs links dir_ok _ _ _ _ s (join_abs _ _ Hs) Hd).
    intros s' E. change (chdir_dir fxs links (join (cwd s) top)) with (mdir (cwd s) top) in E.
    rewrite <- E. apply seq_ok; [|rewrite E; apply kresolve_abs|rewrite E; exact Hg].
    apply Forall_forall. intros n _. apply run_node_pure.
  Qed.

  (* ---- step 2: inside the guard, what the code computes is the reference semantics -------------------- *)
  Lemma spec_list_ext (f g : str -> node -> res (list item)) base l :
    Forall (fun n => f base n = g base n) l -> spec_list f base l = spec_list g base l.
  Proof.
    induction 1 as [|n l Hn _ IH]; simpl; [reflexivity|]. rewrite Hn, IH. reflexivity.
  Qed.

  Lemma guard_list (P : node -> Prop) (gd : node -> bool) (l : list node) :
    Forall (fun n => gd n = true -> P n) l -> forallb gd l = true -> Forall P l.
  Proof.
    induction 1 as [|n l Hn _ IH]; simpl; intro H; [constructor|].
    apply andb_true_iff in H. destruct H as [H1 H2]. constructor; auto.
  Qed.

  Lemma forallb_impl (g1 g2 : node -> bool) (l : list node) :
    Forall (fun n => g1 n = true -> g2 n = true) l -> forallb g1 l = true -> forallb g2 l = true.
  Proof.
    induction 1 as [|n l Hn _ IH]; simpl; intro H; [reflexivity|].
    apply andb_true_iff in H. destruct H as [H1 H2]. rewrite (Hn H1), (IH H2). reflexivity.
  Qed.

  Notation G := (lf_guard files links (fx_lf fxs) (fx_rp fxs) dir_ok).

  (* inside the guard the directory the code enters is the directory the file is in, and it can be entered *)
  Lemma rp_ok_mdir base g : rp_ok links (fx_rp fxs) dir_ok base g = true ->
    mdir base g = dir_of links base g /\ dir_ok (mdir base g) = true.
  Proof.
    unfold rp_ok. intro H. apply andb_true_iff in H. destruct H as [H1 H2].
    rewrite mdir_cdir. apply str_eqb_spec in H1. rewrite H1. split; [reflexivity|exact H2].
  Qed.

  (* the guard of the resolution theorem implies the guard of the restoration theorem *)
  Lemma guard_enter : forall n base, G base n = true -> EG base n = true.
  Proof.
    apply (node_ind2 (fun n => forall base, G base n = true -> EG base n = true)).
    - reflexivity.
    - intros g body HF base H. simpl in *. destruct (present files links base g); [|reflexivity].
      simpl in *. apply andb_true_iff in H. destruct H as [Hr H].
      destruct (rp_ok_mdir base g Hr) as [E D]. rewrite mdir_cdir in E, D. rewrite E in *. rewrite D. simpl.
      revert H. apply forallb_impl. rewrite Forall_forall in *. intros n Hn. apply HF. exact Hn.
    - intros y g body HF base H. simpl in *. destruct (present files links base g); [|reflexivity].
      simpl in *. apply andb_true_iff in H. destruct H as [H H3].
      apply andb_true_iff in H. destruct H as [Hr H].
      destruct (rp_ok_mdir base g Hr) as [E D]. rewrite mdir_cdir in E, D. rewrite E in *. rewrite D. simpl.
      assert (X : forallb (EG (dir_of links base g)) body = true).
      { revert H3. apply forallb_impl. rewrite Forall_forall in *. intros n Hn. apply HF. exact Hn. }
      destruct y; cbn [andb]; [|exact X].
      destruct (fx_lf fxs); cbn [negb]; [exact X|].
      simpl in H. apply andb_true_iff in H. destruct H as [H1 H2].
      rewrite H1. simpl. apply str_eqb_spec in H2. rewrite H2, D. exact X.
    - intros body HF base H. simpl in *.
      revert H. apply forallb_impl. rewrite Forall_forall in *. intros n Hn. apply HF. exact Hn.
    - reflexivity.
  Qed.

  Lemma pure_is_spec : forall n base,
    G base n = true -> pure_node base n = spec_node files links base n.
  Proof.
    apply (node_ind2 (fun n => forall base, G base n = true ->
                                 pure_node base n = spec_node files links base n)).
    - reflexivity.
    - intros g body HF base H. simpl in *. destruct (present files links base g); [|reflexivity].
      simpl in H. apply andb_true_iff in H. destruct H as [Hr H].
      destruct (rp_ok_mdir base g Hr) as [E _]. rewrite E. apply spec_list_ext.
      apply (guard_list _ (G (dir_of links base g))); [|exact H].
      rewrite Forall_forall in *. intros n Hn. apply HF. exact Hn.
    - intros y g body HF base H. simpl in *. destruct (present files links base g); [|reflexivity].
      simpl in H. apply andb_true_iff in H. destruct H as [H H3].
      apply andb_true_iff in H. destruct H as [Hr H].
      destruct (rp_ok_mdir base g Hr) as [E _]. rewrite E.
      assert (X : spec_list pure_node (dir_of links base g) body
                  = spec_list (spec_node files links) (dir_of links base g) body).
      { apply spec_list_ext.
        apply (guard_list _ (G (dir_of links base g))); [|exact H3].
        rewrite Forall_forall in *. intros n Hn. apply HF. exact Hn. }
      destruct y; cbn [andb]; [|exact X].
      destruct (fx_lf fxs); cbn [negb]; [exact X|].
      simpl in H. apply andb_true_iff in H. destruct H as [H1 H2].
      rewrite H1. rewrite mdir_cdir. apply str_eqb_spec in H2. rewrite H2. exact X.
    - intros body HF base H. simpl in *. apply spec_list_ext.
      apply (guard_list _ (G base)); [|exact H].
      rewrite Forall_forall in *. intros n Hn. apply HF. exact Hn.
    - reflexivity.
  Qed.

  Lemma tree_guard_enter cwd0 top body :
    tree_guard files links (fx_lf fxs) (fx_rp fxs) dir_ok cwd0 top body = true ->
    tree_enter_guard files links (fx_lf fxs) (fx_rp fxs) dir_ok cwd0 top body = true.
  Proof.
    unfold tree_guard, tree_enter_guard. destruct (present files links cwd0 top); [|reflexivity]. simpl.
    intro H. apply andb_true_iff in H. destruct H as [Hr H].
    destruct (rp_ok_mdir cwd0 top Hr) as [E D]. rewrite mdir_cdir in E, D. rewrite E in *. rewrite D. simpl.
    revert H. apply forallb_impl. apply Forall_forall. intros n _. apply guard_enter.
  Qed.

  Lemma run_top_ok : forall s top body, is_abs (cwd s) = true ->
    tree_guard files links (fx_lf fxs) (fx_rp fxs) dir_ok (cwd s) top body = true ->
    run_top fxs files links dir_ok s top body = (s, spec_top files links (cwd s) top body).
  Proof.
    intros s top body Hs Hg. rewrite (run_top_pure s top body Hs (tree_guard_enter _ _ _ Hg)). f_equal.
    unfold pure_top, spec_top. unfold tree_guard in Hg.
    destruct (present files links (cwd s) top); [|reflexivity]. simpl in Hg.
    apply andb_true_iff in Hg. destruct Hg as [Hr Hg].
    destruct (rp_ok_mdir _ _ Hr) as [E _]. rewrite E.
    apply spec_list_ext.
    apply (guard_list _ (G (dir_of links (cwd s) top))); [|exact Hg].
    apply Forall_forall. intros n _. apply pure_is_spec.
  Qed.

  Lemma run_node_ok : forall n s, is_abs (cwd s) = true ->
    G (cwd s) n = true ->
    RUN n s = (s, spec_node files links (cwd s) n).
  Proof.
    intros n s Hs Hg. rewrite (run_node_pure n s Hs (guard_enter _ _ Hg)). f_equal. apply pure_is_spec. exact Hg.
  Qed.

  (* ---- several config files one after the other: induction over the sequence; the step is the single-file theorem,
     applicable again because the state it leaves is the state it found ---- *)
  Lemma run_cfgs_restored : forall tops s acc, is_abs (cwd s) = true ->
    cfgs_enter_guard files links (fx_lf fxs) (fx_rp fxs) dir_ok (cwd s) tops = true ->
    fst (run_cfgs fxs files links dir_ok s tops acc) = s.
  Proof.
    induction tops as [|[top body] rest IH]; intros s acc Hs Hg; [reflexivity|].
    unfold cfgs_enter_guard in Hg. simpl in Hg. apply andb_true_iff in Hg. destruct Hg as [H1 H2].
    simpl. rewrite (run_top_pure s top body Hs H1).
    destruct (pure_top (cwd s) top body); try reflexivity. apply IH; assumption.
  Qed.

  Lemma run_cfgs_ok : forall tops s acc, is_abs (cwd s) = true ->
    cfgs_guard files links (fx_lf fxs) (fx_rp fxs) dir_ok (cwd s) tops = true ->
    run_cfgs fxs files links dir_ok s tops acc = (s, spec_cfgs files links (cwd s) tops acc).
  Proof.
    induction tops as [|[top body] rest IH]; intros s acc Hs Hg; [reflexivity|].
    unfold cfgs_guard in Hg. simpl in Hg. apply andb_true_iff in Hg. destruct Hg as [H1 H2].
    simpl. rewrite (run_top_ok s top body Hs H1).
    destruct (spec_top files links (cwd s) top body); try reflexivity. apply IH; assumption.
  Qed.

  (* the body of get_defaults' loop for a file that exists is run_top of that file *)
  Lemma top_bracket s top body : present files links (cwd s) top = true ->
    bracket fxs links dir_ok (Some (join (cwd s) top)) (seq_nodes RUN body) s = run_top fxs files links dir_ok s top body.
  Proof. intros Hp. unfold run_top. rewrite open_fr_spec, Hp. reflexivity. Qed.

  Lemma run_defaults_abs_ok : forall tops s acc, is_abs (cwd s) = true ->
    defaults_guard files links (fx_lf fxs) (fx_rp fxs) dir_ok (cwd s) tops = true ->
    run_defaults_abs fxs files links dir_ok s (resolve_defaults files links s tops) acc
    = (s, spec_defaults_acc files links (cwd s) tops acc).
  Proof.
    induction tops as [|[top c] rest IH]; intros s acc Hs Hg; [reflexivity|].
    unfold defaults_guard in Hg. simpl in Hg. apply andb_true_iff in Hg. destruct Hg as [H1 H2].
    unfold resolve_defaults. simpl flat_map. fold (resolve_defaults files links s rest).
    rewrite open_fr_spec. simpl spec_defaults_acc.
    destruct (present files links (cwd s) top) eqn:Hp; simpl negb; cbv iota.
    2:{ simpl app. apply IH; assumption. }
    simpl app. destruct c as [body| |]; simpl run_defaults_abs.
    - rewrite (top_bracket s top body Hp). simpl body_of in H1. rewrite (run_top_ok s top body Hs H1).
      unfold spec_top. rewrite Hp.
      destruct (spec_list (spec_node files links) (dir_of links (cwd s) top) body); try reflexivity.
      apply IH; assumption.
    - apply IH; assumption.
    - reflexivity.
  Qed.

  Lemma run_defaults_ok : forall tops s, is_abs (cwd s) = true ->
    defaults_guard files links (fx_lf fxs) (fx_rp fxs) dir_ok (cwd s) tops = true ->
    run_defaults fxs files links dir_ok s tops = (s, spec_defaults files links (cwd s) tops).
  Proof. intros tops s Hs Hg. apply run_defaults_abs_ok; assumption. Qed.

  Lemma run_defaults_abs_restored : forall tops s acc, is_abs (cwd s) = true ->
    defaults_enter_guard files links (fx_lf fxs) (fx_rp fxs) dir_ok (cwd s) tops = true ->
    fst (run_defaults_abs fxs files links dir_ok s (resolve_defaults files links s tops) acc) = s.
  Proof.
    induction tops as [|[top c] rest IH]; intros s acc Hs Hg; [reflexivity|].
    unfold defaults_enter_guard in Hg. simpl in Hg. apply andb_true_iff in Hg. destruct Hg as [H1 H2].
    unfold resolve_defaults. simpl flat_map. fold (resolve_defaults files links s rest).
    rewrite open_fr_spec.
    destruct (present files links (cwd s) top) eqn:Hp; cbv iota.
    2:{ simpl app. apply IH; assumption. }
    simpl app. destruct c as [body| |]; simpl run_defaults_abs.
    - rewrite (top_bracket s top body Hp). simpl body_of in H1. rewrite (run_top_pure s top body Hs H1).
      destruct (pure_top (cwd s) top body); try reflexivity. apply IH; assumption.
    - apply IH; assumption.
    - reflexivity.
  Qed.

  Lemma run_defaults_restored : forall tops s, is_abs (cwd s) = true ->
    defaults_enter_guard files links (fx_lf fxs) (fx_rp fxs) dir_ok (cwd s) tops = true ->
    fst (run_defaults fxs files links dir_ok s tops) = s.
  Proof. intros tops s Hs Hg. apply run_defaults_abs_restored; assumption. Qed.
End Main.

(* with both repairs of this half (list-file fallback, realpath before chdir) and a file system in which the
   directories can be entered, every tree is inside the guard *)
Lemma rp_ok_fixed links dir_ok base g : (forall d, dir_ok d = true) -> rp_ok links true dir_ok base g = true.
Proof. intro D. unfold rp_ok, cdir, dir_of. rewrite str_eqb_refl, D. reflexivity. Qed.

Lemma lf_guard_fixed files links dir_ok : (forall d, dir_ok d = true) ->
  forall n base, lf_guard files links true true dir_ok base n = true.
Proof.
  intro D.
  apply (node_ind2 (fun n => forall base, lf_guard files links true true dir_ok base n = true)); simpl; intros;
    try reflexivity.
  - apply orb_true_iff. right. rewrite (rp_ok_fixed _ _ _ _ D). simpl.
    apply forallb_forall. intros n Hn. rewrite Forall_forall in H. apply H. exact Hn.
  - apply orb_true_iff. right. rewrite (rp_ok_fixed _ _ _ _ D). simpl.
    apply forallb_forall. intros n Hn. rewrite Forall_forall in H. apply H. exact Hn.
  - apply forallb_forall. intros n Hn. rewrite Forall_forall in H. apply H. exact Hn.
Qed.

Lemma tree_guard_fixed files links dir_ok cwd0 top body : (forall d, dir_ok d = true) ->
  tree_guard files links true true dir_ok cwd0 top body = true.
Proof.
  intro D. unfold tree_guard. apply orb_true_iff. right. rewrite (rp_ok_fixed _ _ _ _ D). simpl.
  apply forallb_forall. intros n _. apply lf_guard_fixed. exact D.
Qed.

Lemma run_top_repaired : forall fxs files links dir_ok s top body,
  fx_lf fxs = true -> fx_rp fxs = true -> (forall d, dir_ok d = true) -> is_abs (cwd s) = true ->
  run_top fxs files links dir_ok s top body = (s, spec_top files links (cwd s) top body).
Proof.
  intros fxs files links dir_ok s top body L R D H.
  apply run_top_ok; [exact H|]. rewrite L, R. apply tree_guard_fixed. exact D.
Qed.

(* ... and so is every sequence of config files / default config files *)
Lemma run_cfgs_repaired : forall fxs files links dir_ok s tops acc,
  fx_lf fxs = true -> fx_rp fxs = true -> (forall d, dir_ok d = true) -> is_abs (cwd s) = true ->
  run_cfgs fxs files links dir_ok s tops acc = (s, spec_cfgs files links (cwd s) tops acc).
Proof.
  intros fxs files links dir_ok s tops acc L R D H.
  apply run_cfgs_ok; [exact H|]. rewrite L, R. unfold cfgs_guard. apply forallb_forall. intros tb _.
  apply tree_guard_fixed. exact D.
Qed.

Lemma run_defaults_repaired : forall fxs files links dir_ok s tops,
  fx_lf fxs = true -> fx_rp fxs = true -> (forall d, dir_ok d = true) -> is_abs (cwd s) = true ->
  run_defaults fxs files links dir_ok s tops = (s, spec_defaults files links (cwd s) tops).
Proof.
  intros fxs files links dir_ok s tops L R D H.
  apply run_defaults_ok; [exact H|]. rewrite L, R. unfold defaults_guard. apply forallb_forall. intros tb _.
  apply tree_guard_fixed. exact D.
Qed.

(* merging keeps what the later file says, whatever came before *)
Lemma merge_items_later old new x : In x new -> In x (merge_items old new).
Proof. intro H. unfold merge_items. apply in_or_app. right. exact H. Qed.

(* ... and keeps an earlier value exactly when the later file says nothing about its key *)
Lemma merge_items_earlier old new x : In x old ->
  (In x (filter (fun o => negb (existsb (fun n => Nat.eqb (unit_of o) (unit_of n)) new)) old)
   <-> forall n, In n new -> unit_of x <> unit_of n).
Proof.
  intro H. rewrite filter_In. split.
  - intros [_ E] n Hn Q. apply negb_true_iff in E.
    assert (existsb (fun n0 => Nat.eqb (unit_of x) (unit_of n0)) new = true) as T.
    { apply existsb_exists. exists n. split; [exact Hn|]. apply Nat.eqb_eq. exact Q. }
    rewrite T in E. discriminate.
  - intro Q. split; [exact H|]. apply negb_true_iff.
    destruct (existsb (fun n0 => Nat.eqb (unit_of x) (unit_of n0)) new) eqn:T; [|reflexivity].
    apply existsb_exists in T. destruct T as [n [Hn E]]. apply Nat.eqb_eq in E. exfalso. exact (Q n Hn E).
Qed.

(* ---- what breaks without the `finally`: the bracket written as plain sequencing ------------------ *)
(* (used only to show that the restoration theorem is not vacuous) *)
Definition bracket_no_finally {A} (path : option str) (body : st -> st * res A) (s : st) : st * res A :=
  match path with
  | None => body s
  | Some a =>
      let s2 := {| cwd := normpath (dirname a); cpd := Some (dirname a) |} in
      let '(s3, r) := body s2 in
      match r with
      | Ok _ => (s, r)
      | Err | ErrOs => (s3, r)       (* the exception skips the restoring statements *)
      end
  end.
